// fpgen.go — T1 tie for property C20: translates the bodies of the methods of pkg/obifp (uint64.go, uint128.go,
// uint256.go, unint.go) that are straight-line code / if-chains / tag-less switches over math/bits primitives,
// shifts and calls of other obifp methods into Lean definitions (Gen/FpGen.lean, namespace ObiVerif.Gen.Fp) over the
// SAME primitives as the hand transcription Model/Fp.lean.  Props/C20Gen.lean proves `Gen.Fp.<method> = Fp.<method>`
// for every translated method, so a change of the Go source of one of them changes the generated definition and
// breaks that proof before the harness runs.
//
// Semantics used by the translation (all of it is in this file; nothing is read from the model):
//   uint64/uint            Nat; + - * wrap (addw/subw/mulw, emitted in the header); << >> & | ^ and unary ^ are
//                          shl64/shr64/Nat.land/Nat.lor/Nat.xor/not64 of Model/Fp.lean
//   int                    Int;  bool: Bool (an `if` tests `= true`)
//   x, y := f(..)          `let (x, y) := ..`; `=`, `op=`, `--` rebind the variable; `q.w0 = e` is a structure update
//   if c {A} else {B}; R   `if c then [A; R] else [B; R]` (R is duplicated; blocks may not shadow outer variables)
//   switch { case c: .. }  if-chain, falling to the statements after the switch when no case matches
//   log.Panicf             `Except.error ()`; a function that may reach one (directly, through bits.Div64 or a
//                          callee) has result type `Except Unit _`, its calls are bound with a `match`
//   log.Warnf              no effect on the value; for every method that may reach one and cannot panic a second
//                          definition `<method>_warns : Nat` counts the Warnf calls executed
//   for                    NOT translated: the method is listed in `untranslated` and stays hand transcribed
// A method whose body uses anything else is not emitted either (it is listed with the reason); the equality theorem
// of Props/C20Gen.lean about it then fails to elaborate (only C20 is affected, other properties' tables are not).
package main

import (
	"fmt"
	"go/ast"
	"go/parser"
	"go/token"
	"os"
	"path/filepath"
	"sort"
	"strings"
)

var fpFiles = []string{"uint64.go", "uint128.go", "uint256.go", "unint.go"}

var fpStructLean = map[string]string{"Uint64": "U64", "Uint128": "U128", "Uint256": "U256"}

const fpM = "ObiVerif.Fp."      // model namespace (primitives and the three structures)
const fpG = "ObiVerif.Gen.Fp." // generated namespace

type fpFunc struct {
	decl    *ast.FuncDecl
	recvTyp string // "" for a plain function
	recv    string
	name    string // Go name
	lean    string // Lean name (without namespace)
	params  [][2]string
	results [][2]string // name ("" when unnamed), type
	panics  bool
	warns   bool
	hasLoop bool
	tsubst  map[string]string // type parameter substitution of a generic instance
	file    string
	key     string
	callees map[string]bool // exact callees found by the translation (keys)
}

type fpGen struct {
	structs map[string][]string // Go struct -> field names in declaration order
	funcs   map[string]*fpFunc  // key: "Uint64.Add" or "ZeroUint[Uint64]"
	order   []string
}

type fpUnsupported struct{ why string }

func fpFail(format string, a ...any) { panic(fpUnsupported{fmt.Sprintf(format, a...)}) }

func fpMethodLean(name string) string {
	switch name {
	case "Uint64":
		return "toU64"
	case "Uint128":
		return "toU128"
	case "Uint256":
		return "toU256"
	}
	return strings.ToLower(name[:1]) + name[1:]
}

func fpTypeName(e ast.Expr, subst map[string]string) string {
	switch t := e.(type) {
	case *ast.Ident:
		if s, ok := subst[t.Name]; ok {
			return s
		}
		return t.Name
	}
	fpFail("type expression %T", e)
	return ""
}

func fpLeanType(t string) string {
	switch t {
	case "uint64", "uint":
		return "Nat"
	case "int":
		return "Int"
	case "bool":
		return "Bool"
	}
	if l, ok := fpStructLean[t]; ok {
		return fpM + l
	}
	fpFail("type %s", t)
	return ""
}

func (g *fpGen) zero(t string) string {
	switch t {
	case "uint64", "uint":
		return "0"
	case "int":
		return "(0 : Int)"
	case "bool":
		return "false"
	}
	fs, ok := g.structs[t]
	if !ok {
		fpFail("zero value of %s", t)
	}
	parts := make([]string, len(fs))
	for i, f := range fs {
		parts[i] = f + " := 0"
	}
	return "({ " + strings.Join(parts, ", ") + " } : " + fpLeanType(t) + ")"
}

// ---- collection ----

func (g *fpGen) collect(repo string) error {
	fset := token.NewFileSet()
	// the four known files first (stable order of the generated lists), then any other non-test source file of the
	// package except the verification hooks: a method added in a new file is translated (or listed) as well
	files := append([]string{}, fpFiles...)
	if ents, err := os.ReadDir(filepath.Join(repo, "pkg/obifp")); err == nil {
		var extra []string
		for _, e := range ents {
			n := e.Name()
			if !strings.HasSuffix(n, ".go") || strings.HasSuffix(n, "_test.go") || strings.HasPrefix(n, "verif_hooks") || fpIndex(fpFiles, n) >= 0 {
				continue
			}
			extra = append(extra, n)
		}
		sort.Strings(extra)
		files = append(files, extra...)
	}
	for _, fn := range files {
		f, err := parser.ParseFile(fset, filepath.Join(repo, "pkg/obifp", fn), nil, 0)
		if err != nil {
			return err
		}
		for _, d := range f.Decls {
			switch dd := d.(type) {
			case *ast.GenDecl:
				if dd.Tok != token.TYPE {
					continue
				}
				for _, s := range dd.Specs {
					ts := s.(*ast.TypeSpec)
					st, ok := ts.Type.(*ast.StructType)
					if !ok {
						continue
					}
					var fs []string
					for _, fl := range st.Fields.List {
						if id, ok := fl.Type.(*ast.Ident); !ok || id.Name != "uint64" {
							return fmt.Errorf("struct %s: field of type other than uint64", ts.Name.Name)
						}
						for _, n := range fl.Names {
							fs = append(fs, n.Name)
						}
					}
					g.structs[ts.Name.Name] = fs
				}
			case *ast.FuncDecl:
				if dd.Recv != nil {
					ff := &fpFunc{decl: dd, name: dd.Name.Name, file: fn}
					r := dd.Recv.List[0]
					id, ok := r.Type.(*ast.Ident)
					if !ok {
						return fmt.Errorf("method %s: receiver is not a plain value receiver", dd.Name.Name)
					}
					ff.recvTyp = id.Name
					if len(r.Names) == 1 {
						ff.recv = r.Names[0].Name
					} else {
						ff.recv = "_recv"
					}
					ff.lean = fpStructLean[ff.recvTyp] + "." + fpMethodLean(ff.name)
					key := ff.recvTyp + "." + ff.name
					g.funcs[key] = ff
					g.order = append(g.order, key)
				} else if dd.Type.TypeParams != nil && len(dd.Type.TypeParams.List) == 1 && len(dd.Type.TypeParams.List[0].Names) == 1 {
					tp := dd.Type.TypeParams.List[0].Names[0].Name
					for _, inst := range []string{"Uint64", "Uint128", "Uint256"} {
						ff := &fpFunc{decl: dd, name: dd.Name.Name, file: fn, tsubst: map[string]string{tp: inst}}
						suffix := strings.TrimPrefix(inst, "Uint")
						ff.lean = strings.ToLower(ff.name[:1]) + ff.name[1:] + suffix
						if ff.name == "From64" {
							ff.lean = "from64_" + suffix
						}
						key := ff.name + "[" + inst + "]"
						g.funcs[key] = ff
						g.order = append(g.order, key)
					}
				} else {
					ff := &fpFunc{decl: dd, name: dd.Name.Name, file: fn, lean: fpMethodLean(dd.Name.Name)}
					g.funcs[ff.name] = ff
					g.order = append(g.order, ff.name)
				}
			}
		}
	}
	for _, want := range []struct {
		n  string
		fs string
	}{{"Uint64", "w0"}, {"Uint128", "w1 w0"}, {"Uint256", "w3 w2 w1 w0"}} {
		if strings.Join(g.structs[want.n], " ") != want.fs {
			return fmt.Errorf("struct %s has fields [%s], the model structure has [%s]", want.n, strings.Join(g.structs[want.n], " "), want.fs)
		}
	}
	return nil
}

func (g *fpGen) signatures() {
	for _, k := range g.order {
		f := g.funcs[k]
		func() {
			defer func() {
				if r := recover(); r != nil {
					if _, ok := r.(fpUnsupported); !ok {
						panic(r)
					}
					f.hasLoop = true // unusable signature: treated as untranslatable
				}
			}()
			if f.decl.Type.Params != nil {
				for _, p := range f.decl.Type.Params.List {
					t := fpTypeName(p.Type, f.tsubst)
					for _, n := range p.Names {
						f.params = append(f.params, [2]string{n.Name, t})
					}
				}
			}
			if f.decl.Type.Results != nil {
				for _, p := range f.decl.Type.Results.List {
					t := fpTypeName(p.Type, f.tsubst)
					if len(p.Names) == 0 {
						f.results = append(f.results, [2]string{"", t})
					}
					for _, n := range p.Names {
						f.results = append(f.results, [2]string{n.Name, t})
					}
				}
			}
		}()
	}
}

// callee resolves a call expression to the key of an obifp function, given the static type of the receiver
func (g *fpGen) calleeKey(recvType, name string) string { return recvType + "." + name }

// effects: fixpoint of "may panic" / "may warn" over the call graph (by method NAME for method calls whose receiver
// type is not known here: conservative union over the three widths)
func (g *fpGen) effects() {
	type facts struct{ panics, warns, loop bool }
	direct := map[string]facts{}
	calls := map[string][]string{} // callee method names or generic function names
	for _, k := range g.order {
		f := g.funcs[k]
		var ft facts
		ast.Inspect(f.decl.Body, func(n ast.Node) bool {
			switch x := n.(type) {
			case *ast.ForStmt, *ast.RangeStmt, *ast.GoStmt, *ast.DeferStmt:
				ft.loop = true
			case *ast.CallExpr:
				if s, ok := x.Fun.(*ast.SelectorExpr); ok {
					if id, ok := s.X.(*ast.Ident); ok && id.Name == "log" {
						if s.Sel.Name == "Panicf" {
							ft.panics = true
						} else if s.Sel.Name == "Warnf" {
							ft.warns = true
						}
						return true
					}
					if id, ok := s.X.(*ast.Ident); ok && id.Name == "bits" {
						if s.Sel.Name == "Div64" {
							ft.panics = true
						}
						return true
					}
					calls[k] = append(calls[k], "."+s.Sel.Name)
				}
				if ix, ok := x.Fun.(*ast.IndexExpr); ok {
					if id, ok := ix.X.(*ast.Ident); ok {
						calls[k] = append(calls[k], id.Name+"[")
					}
				}
			}
			return true
		})
		direct[k] = ft
		f.panics, f.warns, f.hasLoop = ft.panics, ft.warns, f.hasLoop || ft.loop
	}
	for changed := true; changed; {
		changed = false
		for _, k := range g.order {
			f := g.funcs[k]
			for _, c := range calls[k] {
				for _, k2 := range g.order {
					if strings.HasSuffix(k2, c) && strings.HasPrefix(c, ".") || (strings.HasSuffix(c, "[") && strings.HasPrefix(k2, c)) {
						f2 := g.funcs[k2]
						// a method call on a receiver of f's own generic instance / any width: refine by instance below
						if f.tsubst != nil && strings.HasPrefix(c, ".") {
							inst := ""
							for _, v := range f.tsubst {
								inst = v
							}
							if f2.recvTyp != inst {
								continue
							}
						}
						if f2.panics && !f.panics {
							f.panics, changed = true, true
						}
						if f2.warns && !f.warns {
							f.warns, changed = true, true
						}
					}
				}
			}
		}
	}
}

// ---- translation of one function ----

type fpBind struct {
	pat, rhs string
	monadic  bool
}

type fpCtx struct {
	g       *fpGen
	f       *fpFunc
	vars    map[string]string // variable -> Go type
	scopes  []map[string]bool // names declared per nested block (for the shadowing check)
	tmp     int
	warnMod bool
}

var fpLeanReserved = map[string]bool{"at": true, "from": true, "fun": true, "end": true, "do": true, "then": true, "else": true,
	"if": true, "let": true, "in": true, "have": true, "show": true, "match": true, "with": true, "open": true, "where": true,
	"instance": true, "def": true, "theorem": true, "namespace": true, "section": true, "variable": true, "by": true}

func fpIdent(n string) string {
	if fpLeanReserved[n] {
		return "«" + n + "»"
	}
	return n
}

func (c *fpCtx) fresh() string { c.tmp++; return fmt.Sprintf("t%d'", c.tmp) }

func (c *fpCtx) ret(e string) string {
	if c.f.panics {
		return "Except.ok " + e
	}
	return e
}

func (c *fpCtx) declare(name, typ string) {
	if name == "_" {
		return
	}
	top := c.scopes[len(c.scopes)-1]
	if _, exists := c.vars[name]; exists && !top[name] {
		// exists in an outer scope and is being declared in an inner block: Go creates a new variable that dies with
		// the block, the flattened `let` would leak it
		inOuter := false
		for _, s := range c.scopes[:len(c.scopes)-1] {
			inOuter = inOuter || s[name]
		}
		if inOuter {
			fpFail("variable %s declared in a nested block shadows an outer variable", name)
		}
	}
	top[name] = true
	c.vars[name] = typ
}

func wrapBinds(binds []fpBind, body string) string {
	for i := len(binds) - 1; i >= 0; i-- {
		b := binds[i]
		if b.monadic {
			body = "match " + b.rhs + " with\n| Except.error _ => Except.error ()\n| Except.ok " + b.pat + " => (\n" + body + ")"
		} else {
			body = "let " + b.pat + " := " + b.rhs + "\n" + body
		}
	}
	return body
}

// expr translates an expression; hint is the type an untyped constant must take. Calls of functions that may panic are
// hoisted into *binds (in evaluation order).  Returns the Lean term and the Go type ("tuple:<t1>,<t2>" for 2 results).
func (c *fpCtx) expr(e ast.Expr, hint string, binds *[]fpBind) (string, string) {
	switch x := e.(type) {
	case *ast.ParenExpr:
		return c.expr(x.X, hint, binds)
	case *ast.BasicLit:
		if x.Kind != token.INT {
			fpFail("literal %s", x.Value)
		}
		n, ok := evalInt(x)
		if !ok {
			fpFail("literal %s", x.Value)
		}
		switch hint {
		case "uint64", "uint":
			return fmt.Sprintf("%d", n), hint
		case "int":
			return fmt.Sprintf("(%d : Int)", n), hint
		}
		fpFail("untyped constant %s without a typed context", x.Value)
	case *ast.Ident:
		if t, ok := c.vars[x.Name]; ok {
			return fpIdent(x.Name), t
		}
		fpFail("identifier %s", x.Name)
	case *ast.SelectorExpr:
		if id, ok := x.X.(*ast.Ident); ok && id.Name == "math" && x.Sel.Name == "MaxUint64" {
			if hint != "uint64" && hint != "uint" {
				fpFail("math.MaxUint64 in a context of type %q", hint)
			}
			return "18446744073709551615", hint
		}
		s, t := c.expr(x.X, "", binds)
		fs, ok := c.g.structs[t]
		if !ok {
			fpFail("selector on %s", t)
		}
		for _, f := range fs {
			if f == x.Sel.Name {
				return "(" + s + ")." + f, "uint64"
			}
		}
		fpFail("field %s of %s", x.Sel.Name, t)
	case *ast.StarExpr: // *new(T)
		if call, ok := x.X.(*ast.CallExpr); ok {
			if id, ok := call.Fun.(*ast.Ident); ok && id.Name == "new" && len(call.Args) == 1 {
				t := fpTypeName(call.Args[0], c.f.tsubst)
				return c.g.zero(t), t
			}
		}
		fpFail("pointer dereference")
	case *ast.CompositeLit:
		t := fpTypeName(x.Type, c.f.tsubst)
		fs, ok := c.g.structs[t]
		if !ok {
			fpFail("composite literal of %s", t)
		}
		vals := map[string]string{}
		for i, el := range x.Elts {
			if kv, ok := el.(*ast.KeyValueExpr); ok {
				k := kv.Key.(*ast.Ident).Name
				s, _ := c.expr(kv.Value, "uint64", binds)
				vals[k] = s
			} else {
				if len(x.Elts) != len(fs) {
					fpFail("positional literal of %s with %d of %d fields", t, len(x.Elts), len(fs))
				}
				s, _ := c.expr(el, "uint64", binds)
				vals[fs[i]] = s
			}
		}
		parts := make([]string, len(fs))
		for i, f := range fs {
			v, ok := vals[f]
			if !ok {
				v = "0"
			}
			delete(vals, f)
			parts[i] = f + " := " + v
		}
		if len(vals) != 0 {
			fpFail("unknown field in a literal of %s", t)
		}
		return "({ " + strings.Join(parts, ", ") + " } : " + fpLeanType(t) + ")", t
	case *ast.UnaryExpr:
		switch x.Op {
		case token.XOR:
			s, t := c.expr(x.X, hint, binds)
			if t != "uint64" {
				fpFail("^ on %s", t)
			}
			return "(" + fpM + "not64 " + s + ")", t
		case token.NOT:
			s, t := c.expr(x.X, "bool", binds)
			if t != "bool" {
				fpFail("! on %s", t)
			}
			return "(!" + s + ")", t
		case token.SUB:
			if bl, ok := x.X.(*ast.BasicLit); ok && hint == "int" {
				n, _ := evalInt(bl)
				return fmt.Sprintf("(-%d : Int)", n), "int"
			}
		}
		fpFail("unary %s", x.Op)
	case *ast.BinaryExpr:
		return c.binary(x, hint, binds)
	case *ast.CallExpr:
		return c.call(x, hint, binds)
	}
	fpFail("expression %T", e)
	return "", ""
}

func fpIsConst(e ast.Expr) bool {
	switch x := e.(type) {
	case *ast.BasicLit:
		return true
	case *ast.ParenExpr:
		return fpIsConst(x.X)
	case *ast.UnaryExpr:
		return fpIsConst(x.X)
	case *ast.BinaryExpr:
		if x.Op == token.SHL || x.Op == token.SHR {
			return fpIsConst(x.X) // untyped shifted constant takes its type from the context
		}
		return fpIsConst(x.X) && fpIsConst(x.Y)
	case *ast.SelectorExpr:
		if id, ok := x.X.(*ast.Ident); ok && id.Name == "math" {
			return true
		}
	}
	return false
}

func (c *fpCtx) binary(x *ast.BinaryExpr, hint string, binds *[]fpBind) (string, string) {
	if x.Op == token.SHL || x.Op == token.SHR {
		l, lt := c.expr(x.X, hint, binds)
		r, rt := c.expr(x.Y, "uint", binds)
		if lt != "uint64" && lt != "uint" || rt != "uint64" && rt != "uint" {
			fpFail("shift of %s by %s", lt, rt)
		}
		if x.Op == token.SHL {
			return "(" + fpM + "shl64 " + l + " " + r + ")", lt
		}
		return "(" + fpM + "shr64 " + l + " " + r + ")", lt
	}
	if x.Op == token.LAND || x.Op == token.LOR {
		l, lt := c.expr(x.X, "bool", binds)
		nb := len(*binds)
		r, rt := c.expr(x.Y, "bool", binds)
		if len(*binds) != nb {
			fpFail("call that may panic on the right of a short-circuit operator")
		}
		if lt != "bool" || rt != "bool" {
			fpFail("%s on %s, %s", x.Op, lt, rt)
		}
		op := "&&"
		if x.Op == token.LOR {
			op = "||"
		}
		return "(" + l + " " + op + " " + r + ")", "bool"
	}
	// operand types: translate the non-constant side first, its type is the hint of the other
	var l, lt, r, rt string
	cmp := x.Op == token.EQL || x.Op == token.NEQ || x.Op == token.LSS || x.Op == token.GTR || x.Op == token.LEQ || x.Op == token.GEQ
	h := hint
	if cmp {
		h = ""
	}
	if fpIsConst(x.X) && !fpIsConst(x.Y) {
		r, rt = c.expr(x.Y, h, binds)
		l, lt = c.expr(x.X, rt, binds)
	} else {
		l, lt = c.expr(x.X, h, binds)
		r, rt = c.expr(x.Y, lt, binds)
	}
	if lt != rt {
		fpFail("operands of %s have types %s and %s", x.Op, lt, rt)
	}
	if cmp {
		switch x.Op {
		case token.EQL:
			return "(" + l + " == " + r + ")", "bool"
		case token.NEQ:
			return "(" + l + " != " + r + ")", "bool"
		}
		if lt != "uint64" && lt != "uint" && lt != "int" {
			fpFail("ordering on %s", lt)
		}
		op := map[token.Token]string{token.LSS: "<", token.GTR: ">", token.LEQ: "≤", token.GEQ: "≥"}[x.Op]
		return "(decide (" + l + " " + op + " " + r + "))", "bool"
	}
	if lt != "uint64" && lt != "uint" {
		fpFail("arithmetic %s on %s", x.Op, lt)
	}
	fn := map[token.Token]string{token.ADD: fpG + "addw", token.SUB: fpG + "subw", token.MUL: fpG + "mulw",
		token.AND: "Nat.land", token.OR: "Nat.lor", token.XOR: "Nat.xor"}[x.Op]
	if fn == "" {
		fpFail("operator %s", x.Op)
	}
	return "(" + fn + " " + l + " " + r + ")", lt
}

func (c *fpCtx) args(f *fpFunc, args []ast.Expr, binds *[]fpBind) string {
	if len(args) != len(f.params) {
		fpFail("call of %s with %d arguments", f.name, len(args))
	}
	var out []string
	for i, a := range args {
		s, t := c.expr(a, f.params[i][1], binds)
		if t != f.params[i][1] {
			fpFail("argument %d of %s has type %s, want %s", i, f.name, t, f.params[i][1])
		}
		out = append(out, s)
	}
	return strings.Join(out, " ")
}

func fpResultType(f *fpFunc) string {
	if len(f.results) == 1 {
		return f.results[0][1]
	}
	ts := make([]string, len(f.results))
	for i, r := range f.results {
		ts[i] = r[1]
	}
	return "tuple:" + strings.Join(ts, ",")
}

func (c *fpCtx) callOf(f *fpFunc, argstr string, binds *[]fpBind) (string, string) {
	if f.hasLoop {
		// a callee that is not translated: use the hand transcription? no — the translation of the caller would then
		// silently depend on the model; refuse
		fpFail("calls %s, which is not translated", f.name)
	}
	if c.f.callees == nil {
		c.f.callees = map[string]bool{}
	}
	c.f.callees[f.key] = true
	term := "(" + fpG + f.lean
	if argstr != "" {
		term += " " + argstr
	}
	term += ")"
	rt := fpResultType(f)
	if f.panics {
		t := c.fresh()
		*binds = append(*binds, fpBind{pat: t, rhs: term, monadic: true})
		return t, rt
	}
	return term, rt
}

func (c *fpCtx) call(x *ast.CallExpr, hint string, binds *[]fpBind) (string, string) {
	switch fn := x.Fun.(type) {
	case *ast.Ident: // conversions
		if (fn.Name == "uint" || fn.Name == "uint64") && len(x.Args) == 1 {
			// value preserving only: the operand is unsigned, or the int returned by bits.LeadingZeros64 (0..64)
			if call, ok := x.Args[0].(*ast.CallExpr); ok && len(call.Args) == 1 {
				if sel, ok := call.Fun.(*ast.SelectorExpr); ok {
					if id, ok := sel.X.(*ast.Ident); ok && id.Name == "bits" && sel.Sel.Name == "LeadingZeros64" {
						a, at := c.expr(call.Args[0], "uint64", binds)
						if at != "uint64" {
							fpFail("bits.LeadingZeros64 on %s", at)
						}
						return "(" + fpM + "bitsLeadingZeros64 " + a + ")", fn.Name
					}
				}
			}
			s, t := c.expr(x.Args[0], fn.Name, binds)
			if t == "uint64" || t == "uint" {
				return s, fn.Name
			}
			fpFail("conversion %s(%s)", fn.Name, t)
		}
		if f, ok := c.g.funcs[fn.Name]; ok {
			return c.callOf(f, c.args(f, x.Args, binds), binds)
		}
		fpFail("call of %s", fn.Name)
	case *ast.IndexExpr: // generic instance F[T](..)
		id, ok := fn.X.(*ast.Ident)
		if !ok {
			fpFail("indexed call")
		}
		t := fpTypeName(fn.Index, c.f.tsubst)
		f, ok := c.g.funcs[id.Name+"["+t+"]"]
		if !ok {
			fpFail("generic call %s[%s]", id.Name, t)
		}
		return c.callOf(f, c.args(f, x.Args, binds), binds)
	case *ast.SelectorExpr:
		if id, ok := fn.X.(*ast.Ident); ok && id.Name == "bits" {
			if _, isVar := c.vars["bits"]; !isVar {
				var as []string
				for _, a := range x.Args {
					s, t := c.expr(a, "uint64", binds)
					if t != "uint64" {
						fpFail("bits.%s on %s", fn.Sel.Name, t)
					}
					as = append(as, s)
				}
				argstr := strings.Join(as, " ")
				switch {
				case fn.Sel.Name == "Add64" && len(as) == 3:
					return "(" + fpM + "bitsAdd64 " + argstr + ")", "tuple:uint64,uint64"
				case fn.Sel.Name == "Sub64" && len(as) == 3:
					return "(" + fpM + "bitsSub64 " + argstr + ")", "tuple:uint64,uint64"
				case fn.Sel.Name == "Mul64" && len(as) == 2:
					return "(" + fpM + "bitsMul64 " + argstr + ")", "tuple:uint64,uint64"
				case fn.Sel.Name == "LeadingZeros64" && len(as) == 1:
					return "(Int.ofNat (" + fpM + "bitsLeadingZeros64 " + argstr + "))", "int"
				case fn.Sel.Name == "Div64" && len(as) == 3:
					t := c.fresh()
					*binds = append(*binds, fpBind{pat: t, rhs: "(" + fpM + "bitsDiv64 " + argstr + ")", monadic: true})
					return t, "tuple:uint64,uint64"
				}
				fpFail("bits.%s/%d", fn.Sel.Name, len(as))
			}
		}
		if id, ok := fn.X.(*ast.Ident); ok && id.Name == "log" {
			fpFail("log.%s used as a value", fn.Sel.Name)
		}
		recv, rt := c.expr(fn.X, "", binds)
		f, ok := c.g.funcs[rt+"."+fn.Sel.Name]
		if !ok {
			fpFail("method %s of %s", fn.Sel.Name, rt)
		}
		as := c.args(f, x.Args, binds)
		if as != "" {
			as = " " + as
		}
		return c.callOf(f, recv+as, binds)
	}
	fpFail("call %T", x.Fun)
	return "", ""
}

// warnCalls: the `_warns` terms of the calls of may-warn functions inside an expression (evaluation order)
func (c *fpCtx) warnCalls(e ast.Node) []string {
	var out []string
	if !c.warnMod || e == nil {
		return nil
	}
	ast.Inspect(e, func(n ast.Node) bool {
		call, ok := n.(*ast.CallExpr)
		if !ok {
			return true
		}
		sel, ok := call.Fun.(*ast.SelectorExpr)
		if !ok {
			return true
		}
		if id, ok := sel.X.(*ast.Ident); ok && (id.Name == "bits" || id.Name == "log" || id.Name == "math") {
			if _, isVar := c.vars[id.Name]; !isVar {
				return true
			}
		}
		var binds []fpBind
		recv, rt := c.expr(sel.X, "", &binds)
		f, ok := c.g.funcs[rt+"."+sel.Sel.Name]
		if ok && f.warns {
			if f.panics || len(binds) != 0 {
				fpFail("warning count through a call that may panic")
			}
			as := c.args(f, call.Args, &binds)
			if as != "" {
				as = " " + as
			}
			c.f.callees[f.key] = true
			out = append(out, "("+fpG+f.lean+"_warns "+recv+as+")")
		}
		return true
	})
	return out
}

func isLogCall(s ast.Stmt, name string) bool {
	es, ok := s.(*ast.ExprStmt)
	if !ok {
		return false
	}
	call, ok := es.X.(*ast.CallExpr)
	if !ok {
		return false
	}
	sel, ok := call.Fun.(*ast.SelectorExpr)
	if !ok {
		return false
	}
	id, ok := sel.X.(*ast.Ident)
	return ok && id.Name == "log" && sel.Sel.Name == name
}

func addAcc(acc string, more []string) string {
	for _, m := range more {
		if acc == "0" {
			acc = m
		} else {
			acc = "(" + acc + " + " + m + ")"
		}
	}
	return acc
}

// stmts translates a statement list followed by the continuation `rest` (statements of the enclosing lists);
// acc is the warning count so far (warn mode)
func (c *fpCtx) stmts(list []ast.Stmt, rest [][]ast.Stmt, acc string) string {
	if len(list) == 0 {
		if len(rest) == 0 {
			fpFail("control reaches the end of the function without a return")
		}
		// leaving a nested block
		saved := c.scopes
		if len(c.scopes) > 1 {
			c.scopes = c.scopes[:len(c.scopes)-1]
		}
		out := c.stmts(rest[len(rest)-1], rest[:len(rest)-1], acc)
		c.scopes = saved
		return out
	}
	s, tail := list[0], list[1:]
	switch x := s.(type) {
	case *ast.ReturnStmt:
		if c.warnMod {
			for _, r := range x.Results {
				acc = addAcc(acc, c.warnCalls(r))
			}
			return acc
		}
		var binds []fpBind
		var vals []string
		if len(x.Results) == 0 {
			for _, r := range c.f.results {
				if r[0] == "" {
					fpFail("bare return with unnamed results")
				}
				vals = append(vals, fpIdent(r[0]))
			}
		} else if len(x.Results) == 1 && len(c.f.results) > 1 {
			v, t := c.expr(x.Results[0], "", &binds)
			if t != fpResultType(c.f) {
				fpFail("return of %s, want %s", t, fpResultType(c.f))
			}
			return wrapBinds(binds, c.ret(v))
		} else {
			if len(x.Results) != len(c.f.results) {
				fpFail("return arity")
			}
			for i, r := range x.Results {
				v, t := c.expr(r, c.f.results[i][1], &binds)
				if t != c.f.results[i][1] {
					fpFail("return value %d has type %s, want %s", i, t, c.f.results[i][1])
				}
				vals = append(vals, v)
			}
		}
		v := vals[0]
		if len(vals) > 1 {
			v = "(" + strings.Join(vals, ", ") + ")"
		}
		return wrapBinds(binds, c.ret(v))
	case *ast.ExprStmt:
		if isLogCall(x, "Panicf") {
			if c.warnMod {
				fpFail("warning count of a function that may panic")
			}
			return "Except.error ()"
		}
		if isLogCall(x, "Warnf") {
			if c.warnMod {
				acc = "(" + acc + " + 1)"
			}
			return c.stmts(tail, rest, acc)
		}
		fpFail("expression statement")
	case *ast.DeclStmt:
		gd := x.Decl.(*ast.GenDecl)
		if gd.Tok != token.VAR {
			fpFail("declaration %s", gd.Tok)
		}
		var binds []fpBind
		for _, sp := range gd.Specs {
			vs := sp.(*ast.ValueSpec)
			if vs.Type == nil {
				fpFail("var without type")
			}
			t := fpTypeName(vs.Type, c.f.tsubst)
			for i, n := range vs.Names {
				val := c.g.zero(t)
				if i < len(vs.Values) {
					var vt string
					val, vt = c.expr(vs.Values[i], t, &binds)
					if vt != t {
						fpFail("var %s %s = <%s>", n.Name, t, vt)
					}
				}
				c.declare(n.Name, t)
				binds = append(binds, fpBind{pat: fpIdent(n.Name), rhs: val})
			}
		}
		return wrapBinds(binds, c.stmts(tail, rest, acc))
	case *ast.IncDecStmt:
		v, t := c.expr(x.X, "", nil)
		if _, ok := x.X.(*ast.Ident); !ok || (t != "uint64" && t != "uint") {
			fpFail("++/-- on %s", t)
		}
		fn := fpG + "addw"
		if x.Tok == token.DEC {
			fn = fpG + "subw"
		}
		return "let " + v + " := (" + fn + " " + v + " 1)\n" + c.stmts(tail, rest, acc)
	case *ast.AssignStmt:
		var binds []fpBind
		acc2 := acc
		for _, r := range x.Rhs {
			acc2 = addAcc(acc2, c.warnCalls(r))
		}
		if x.Tok != token.DEFINE && x.Tok != token.ASSIGN {
			// compound assignment  v op= e
			id, ok := x.Lhs[0].(*ast.Ident)
			if !ok || len(x.Lhs) != 1 {
				fpFail("compound assignment target")
			}
			op := map[token.Token]token.Token{token.SHR_ASSIGN: token.SHR, token.SHL_ASSIGN: token.SHL, token.ADD_ASSIGN: token.ADD,
				token.SUB_ASSIGN: token.SUB, token.AND_ASSIGN: token.AND, token.OR_ASSIGN: token.OR, token.XOR_ASSIGN: token.XOR}[x.Tok]
			if op == 0 {
				fpFail("assignment operator %s", x.Tok)
			}
			v, _ := c.binary(&ast.BinaryExpr{X: id, Op: op, Y: x.Rhs[0]}, c.vars[id.Name], &binds)
			binds = append(binds, fpBind{pat: fpIdent(id.Name), rhs: v})
			return wrapBinds(binds, c.stmts(tail, rest, acc2))
		}
		if len(x.Rhs) != 1 {
			fpFail("parallel assignment")
		}
		// types of the targets known so far (hint for an untyped right hand side)
		hint := ""
		if len(x.Lhs) == 1 {
			if id, ok := x.Lhs[0].(*ast.Ident); ok {
				hint = c.vars[id.Name]
			} else if _, ok := x.Lhs[0].(*ast.SelectorExpr); ok {
				hint = "uint64"
			}
		}
		v, t := c.expr(x.Rhs[0], hint, &binds)
		var types []string
		if strings.HasPrefix(t, "tuple:") {
			types = strings.Split(strings.TrimPrefix(t, "tuple:"), ",")
		} else {
			types = []string{t}
		}
		if len(types) != len(x.Lhs) {
			fpFail("assignment of %d values to %d targets", len(types), len(x.Lhs))
		}
		var pats []string
		var after []fpBind
		for i, l := range x.Lhs {
			switch lv := l.(type) {
			case *ast.Ident:
				if lv.Name == "_" {
					pats = append(pats, "_")
					continue
				}
				if old, ok := c.vars[lv.Name]; ok && old != types[i] {
					fpFail("assignment of %s to %s %s", types[i], old, lv.Name)
				}
				if x.Tok == token.DEFINE {
					c.declare(lv.Name, types[i])
				} else if _, ok := c.vars[lv.Name]; !ok {
					fpFail("assignment to undeclared %s", lv.Name)
				}
				pats = append(pats, fpIdent(lv.Name))
			case *ast.SelectorExpr:
				id, ok := lv.X.(*ast.Ident)
				if !ok || x.Tok != token.ASSIGN {
					fpFail("assignment target")
				}
				st, ok := c.g.structs[c.vars[id.Name]]
				found := false
				for _, f := range st {
					found = found || f == lv.Sel.Name
				}
				if !ok || !found || types[i] != "uint64" {
					fpFail("field assignment %s.%s", id.Name, lv.Sel.Name)
				}
				tmp := c.fresh()
				pats = append(pats, tmp)
				after = append(after, fpBind{pat: fpIdent(id.Name), rhs: "{ " + fpIdent(id.Name) + " with " + lv.Sel.Name + " := " + tmp + " }"})
			default:
				fpFail("assignment target %T", l)
			}
		}
		pat := pats[0]
		if len(pats) > 1 {
			pat = "(" + strings.Join(pats, ", ") + ")"
		}
		binds = append(binds, fpBind{pat: pat, rhs: v})
		binds = append(binds, after...)
		return wrapBinds(binds, c.stmts(tail, rest, acc2))
	case *ast.IfStmt:
		if x.Init != nil {
			fpFail("if with an init statement")
		}
		var binds []fpBind
		acc2 := addAcc(acc, c.warnCalls(x.Cond))
		cond, ct := c.expr(x.Cond, "bool", &binds)
		if ct != "bool" {
			fpFail("condition of type %s", ct)
		}
		cont := append(append([][]ast.Stmt{}, rest...), tail)
		saveVars := copyVars(c.vars)
		c.scopes = append(c.scopes, map[string]bool{})
		thenS := c.stmts(x.Body.List, cont, acc2)
		c.scopes = c.scopes[:len(c.scopes)-1]
		c.vars = copyVars(saveVars)
		var elseS string
		switch el := x.Else.(type) {
		case nil:
			elseS = c.stmts(tail, rest, acc2)
		case *ast.BlockStmt:
			c.scopes = append(c.scopes, map[string]bool{})
			elseS = c.stmts(el.List, cont, acc2)
			c.scopes = c.scopes[:len(c.scopes)-1]
		case *ast.IfStmt:
			c.scopes = append(c.scopes, map[string]bool{})
			elseS = c.stmts([]ast.Stmt{el}, cont, acc2)
			c.scopes = c.scopes[:len(c.scopes)-1]
		default:
			fpFail("else %T", x.Else)
		}
		c.vars = saveVars
		return wrapBinds(binds, "if "+cond+" then (\n"+thenS+")\nelse (\n"+elseS+")")
	case *ast.SwitchStmt:
		if x.Init != nil || x.Tag != nil {
			fpFail("switch with a tag or an init statement")
		}
		cont := append(append([][]ast.Stmt{}, rest...), tail)
		var clauses []*ast.CaseClause
		var deflt *ast.CaseClause
		for _, cl := range x.Body.List {
			cc := cl.(*ast.CaseClause)
			if cc.List == nil {
				deflt = cc
			} else {
				if len(cc.List) != 1 {
					fpFail("case with several expressions")
				}
				clauses = append(clauses, cc)
			}
			for _, st := range cc.Body {
				if br, ok := st.(*ast.BranchStmt); ok {
					fpFail("%s in a switch", br.Tok)
				}
			}
		}
		saveVars := copyVars(c.vars)
		var build func(i int, acc string) string
		build = func(i int, acc string) string {
			if i == len(clauses) {
				c.vars = copyVars(saveVars)
				if deflt != nil {
					c.scopes = append(c.scopes, map[string]bool{})
					out := c.stmts(deflt.Body, cont, acc)
					c.scopes = c.scopes[:len(c.scopes)-1]
					return out
				}
				return c.stmts(tail, rest, acc)
			}
			var binds []fpBind
			acc2 := addAcc(acc, c.warnCalls(clauses[i].List[0]))
			cond, ct := c.expr(clauses[i].List[0], "bool", &binds)
			if ct != "bool" || len(binds) != 0 {
				fpFail("case condition")
			}
			c.vars = copyVars(saveVars)
			c.scopes = append(c.scopes, map[string]bool{})
			thenS := c.stmts(clauses[i].Body, cont, acc2)
			c.scopes = c.scopes[:len(c.scopes)-1]
			return "if " + cond + " then (\n" + thenS + ")\nelse (\n" + build(i+1, acc2) + ")"
		}
		out := build(0, acc)
		c.vars = saveVars
		return out
	case *ast.BlockStmt:
		cont := append(append([][]ast.Stmt{}, rest...), tail)
		c.scopes = append(c.scopes, map[string]bool{})
		out := c.stmts(x.List, cont, acc)
		c.scopes = c.scopes[:len(c.scopes)-1]
		return out
	}
	fpFail("statement %T", s)
	return ""
}

func copyVars(m map[string]string) map[string]string {
	o := make(map[string]string, len(m))
	for k, v := range m {
		o[k] = v
	}
	return o
}

func indentLean(s string) string {
	var b strings.Builder
	depth := 1
	for _, line := range strings.Split(s, "\n") {
		closing := 0
		for strings.HasPrefix(line[closing:], ")") {
			closing++
			if closing == len(line) {
				break
			}
		}
		d := depth - closing
		if d < 1 {
			d = 1
		}
		b.WriteString(strings.Repeat("  ", d) + line + "\n")
		depth += strings.Count(line, "(") - strings.Count(line, ")")
	}
	return b.String()
}

func (g *fpGen) translate(f *fpFunc, warnMode bool) (out string, err error) {
	defer func() {
		if r := recover(); r != nil {
			u, ok := r.(fpUnsupported)
			if !ok {
				panic(r)
			}
			err = fmt.Errorf("%s", u.why)
		}
	}()
	if f.hasLoop {
		return "", fmt.Errorf("for statement")
	}
	c := &fpCtx{g: g, f: f, vars: map[string]string{}, scopes: []map[string]bool{{}}, warnMod: warnMode}
	var sig []string
	if f.recvTyp != "" {
		c.declare(f.recv, f.recvTyp)
		sig = append(sig, "("+fpIdent(f.recv)+" : "+fpLeanType(f.recvTyp)+")")
	}
	for _, p := range f.params {
		c.declare(p[0], p[1])
		sig = append(sig, "("+fpIdent(p[0])+" : "+fpLeanType(p[1])+")")
	}
	var pre []fpBind
	for _, r := range f.results {
		if r[0] != "" {
			c.declare(r[0], r[1])
			pre = append(pre, fpBind{pat: fpIdent(r[0]), rhs: g.zero(r[1])})
		}
	}
	if len(f.results) == 0 {
		fpFail("no result")
	}
	rts := make([]string, len(f.results))
	for i, r := range f.results {
		rts[i] = fpLeanType(r[1])
	}
	rt := strings.Join(rts, " × ")
	if f.panics {
		if len(rts) > 1 {
			rt = "(" + rt + ")"
		}
		rt = "Except Unit " + rt
	}
	name := f.lean
	if warnMode {
		name += "_warns"
		rt = "Nat"
	}
	body := wrapBinds(pre, c.stmts(f.decl.Body.List, nil, "0"))
	recvName := f.name
	if f.recvTyp != "" {
		recvName = f.recvTyp + "." + f.name
	}
	if f.tsubst != nil {
		for _, v := range f.tsubst {
			recvName += "[" + v + "]"
		}
	}
	kind := ""
	if warnMode {
		kind = " — number of log.Warnf calls executed"
	}
	return fmt.Sprintf("/-- `%s` (%s)%s -/\ndef %s %s : %s :=\n%s\n", recvName, f.file, kind, name, strings.Join(sig, " "), rt, indentLean(body)), nil
}

// genFp writes Gen/FpGen.lean.  It never makes the extraction of the other properties' tables fail: what cannot be
// translated is listed in the generated file (`untranslated`) and is simply absent from it.
func genFp(repo, outDir string) {
	g := &fpGen{structs: map[string][]string{}, funcs: map[string]*fpFunc{}}
	var b strings.Builder
	b.WriteString("import ObiVerif.Model.Fp\n/-! GENERATED by /verif/extract (fpgen.go) from pkg/obifp/{uint64,uint128,uint256,unint}.go of /repo on every run —\n" +
		"do not edit, not committed.  One definition per translated Go method, over the primitives of Model/Fp.lean. -/\nset_option linter.unusedVariables false\nnamespace ObiVerif.Gen.Fp\n\n" +
		"/-- Go `a + b` on uint64/uint -/\ndef addw (a b : Nat) : Nat := (a + b) % ObiVerif.Fp.W\n" +
		"/-- Go `a - b` on uint64/uint (wraps) -/\ndef subw (a b : Nat) : Nat := (a + ObiVerif.Fp.W - b) % ObiVerif.Fp.W\n" +
		"/-- Go `a * b` on uint64/uint -/\ndef mulw (a b : Nat) : Nat := (a * b) % ObiVerif.Fp.W\n\n")
	if err := g.collect(repo); err != nil {
		fmt.Printf("extract: obifp: %v (tie T1 of C20 broken)\n", err)
		b.WriteString("-- collection failed: " + err.Error() + "\nend ObiVerif.Gen.Fp\n")
		writeFpGen(outDir, b.String())
		return
	}
	for k, f := range g.funcs {
		f.key = k
	}
	g.signatures()
	g.effects()
	var translated, untranslated, warnDefs []string
	text := map[string]string{}
	for _, k := range g.order {
		f := g.funcs[k]
		s, err := g.translate(f, false)
		if err != nil {
			untranslated = append(untranslated, k+": "+err.Error())
			fmt.Printf("extract: obifp %s not translated: %v\n", k, err)
			text[k] = "-- NOT TRANSLATED " + k + ": " + err.Error() + "\n\n"
			continue
		}
		translated = append(translated, k)
		text[k] = s + "\n"
		if f.warns && !f.panics {
			s, err := g.translate(f, true)
			if err != nil {
				text[k] += "-- NO WARNING COUNT for " + k + ": " + err.Error() + "\n\n"
				continue
			}
			warnDefs = append(warnDefs, k)
			text[k] += s + "\n"
		}
	}
	// definitions are emitted callees first (source order otherwise); obifp has no recursion
	done := map[string]int{}
	var emitDef func(k string)
	emitDef = func(k string) {
		if done[k] != 0 {
			return
		}
		done[k] = 1
		var cs []string
		for c := range g.funcs[k].callees {
			cs = append(cs, c)
		}
		sort.Slice(cs, func(i, j int) bool { return fpIndex(g.order, cs[i]) < fpIndex(g.order, cs[j]) })
		for _, c := range cs {
			emitDef(c)
		}
		b.WriteString(text[k])
	}
	for _, k := range g.order {
		emitDef(k)
	}
	q := func(l []string) string {
		s := make([]string, len(l))
		for i, x := range l {
			s[i] = fmt.Sprintf("%q", x)
		}
		return "[" + strings.Join(s, ", ") + "]"
	}
	var mayPanic, mayWarn []string
	for _, k := range g.order {
		if g.funcs[k].panics {
			mayPanic = append(mayPanic, k)
		}
		if g.funcs[k].warns {
			mayWarn = append(mayWarn, k)
		}
	}
	sort.Strings(mayPanic)
	sort.Strings(mayWarn)
	b.WriteString("/-- every function of the four files, in source order, that was translated -/\ndef translated : List String :=\n  " + q(translated) + "\n\n")
	b.WriteString("/-- functions that were NOT translated (with the reason); they stay hand transcribed -/\ndef untranslated : List String :=\n  " + q(untranslated) + "\n\n")
	b.WriteString("/-- functions with a generated `_warns` definition -/\ndef withWarnCount : List String :=\n  " + q(warnDefs) + "\n\n")
	b.WriteString("/-- functions that may reach log.Panicf / bits.Div64 (result type `Except Unit _`) -/\ndef mayPanic : List String :=\n  " + q(mayPanic) + "\n\n")
	b.WriteString("/-- functions that may reach log.Warnf -/\ndef mayWarn : List String :=\n  " + q(mayWarn) + "\n\n")
	b.WriteString("end ObiVerif.Gen.Fp\n")
	writeFpGen(outDir, b.String())
}

func fpIndex(l []string, x string) int {
	for i, y := range l {
		if y == x {
			return i
		}
	}
	return -1
}

func writeFpGen(outDir, s string) {
	if outDir == "" {
		fmt.Print(s)
		return
	}
	os.MkdirAll(outDir, 0o755)
	path := filepath.Join(outDir, "FpGen.lean")
	old, _ := os.ReadFile(path)
	if string(old) != s {
		if err := os.WriteFile(path, []byte(s), 0o644); err != nil {
			fmt.Println("extract:", err)
			return
		}
		fmt.Println("extract: Gen/FpGen.lean rewritten")
	} else {
		fmt.Println("extract: Gen/FpGen.lean unchanged")
	}
}
