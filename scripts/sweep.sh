#!/bin/sh
# Unchanged-tree sweep: every check, several seeds, both tiers. usage: sweep.sh "<quick seeds>" "<thorough seeds>" [parallel]
# Prints one line per run; any line with exit!=0 or VIOLATION is a false alarm to investigate (or a new finding).
cd "$(dirname "$0")/.."
QS="${1:-2 3 4 5}"; TS="${2:-1 2}"; P="${3:-3}"
mkdir -p sweep
IDS="${IDS:-C01 C02 C03 C04 C05 C06 C07 C08 C09 C10 C11 C12 C13 C14 C15 C16 C17 C18 C19 C20}"
# builds first, sequentially (cheap when up to date)
for id in $IDS; do ./check $id --seed 1 > sweep/$id-quick-1.log 2>&1; echo "$id quick 1 exit=$? $(grep -c '^VIOLATION' sweep/$id-quick-1.log) $(tail -1 sweep/$id-quick-1.log | cut -c1-160)"; done
for s in $QS; do for id in $IDS; do echo "$id quick $s"; done; done > sweep/jobs
for s in $TS; do for id in $IDS; do echo "$id thorough $s"; done; done >> sweep/jobs
cat sweep/jobs | xargs -P "$P" -L 1 sh -c './check $0 --tier $1 --seed $2 > sweep/$0-$1-$2.log 2>&1; echo "$0 $1 $2 exit=$? $(grep "^VIOLATION" sweep/$0-$1-$2.log | head -1) :: $(grep -v "^VIOLATION\|^KNOWN\|^ " sweep/$0-$1-$2.log | tail -1 | cut -c1-200)"'
echo sweep done
