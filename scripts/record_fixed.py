#!/usr/bin/env python3
"""append `fixed:` entries to known_findings.json; stdin lines: <property>|<substring of commit subject>|<what failed>"""
import json, subprocess, sys
p = '/verif/known_findings.json'
k = json.load(open(p))
for l in sys.stdin:
    l = l.rstrip('\n')
    if not l.strip(): continue
    prop, subj, text = l.split('|', 2)
    h = subprocess.run(['git', '-C', '/repo', 'log', '--format=%h', '--fixed-strings', '--grep', subj, '-1'],
                       stdout=subprocess.PIPE, text=True).stdout.strip()
    if not h:
        print('NO COMMIT for', subj); continue
    e = f"fixed: property={prop} {h} {text}"
    if not any(x.startswith(f"fixed: property={prop} {h}") for x in k['fixed']):
        k['fixed'].append(e)
json.dump(k, open(p, 'w'), indent=1)
