#!/usr/bin/env python3
"""Validate a seeded change and run the property's check against it, in a scratch worktree (never /repo itself).
usage: seedtest.py <Cxx> <dir containing patch.diff [+ demo files + meta.json]> <name> [--tier quick|thorough] [--checks C01,C02,...]
Copies the material to /verif/seeded/<name>/ and records the verdicts in meta.json (keys added: verified)."""
import sys, os, subprocess, json, shutil, time
pid, src, name = sys.argv[1:4]
tier = "quick"; checks = [pid]
a = sys.argv[4:]
while a:
    if a[0] == "--tier": tier = a[1]; a = a[2:]
    elif a[0] == "--checks": checks = a[1].split(","); a = a[2:]
    else: a = a[1:]
SNAP = os.environ.get("VERIF_SNAP", "/verif")   # tree of /verif whose checks are run (a built snapshot while /verif is being edited)
wt = f"/tmp/seed-{name}"
def sh(cmd, **k):
    return subprocess.run(cmd, shell=True, stdout=subprocess.PIPE, stderr=subprocess.STDOUT, text=True, **k)
sh(f"git -C /repo worktree remove --force {wt}")
r = sh(f"git -C /repo worktree add --detach {wt} HEAD"); assert r.returncode == 0, r.stdout
res = {"worktree_of": sh("git -C /repo rev-parse --short HEAD").stdout.strip()}
try:
    r = sh(f"git -C {wt} apply --whitespace=nowarn {os.path.abspath(src)}/patch.diff")
    res["applies"] = r.returncode == 0
    if not res["applies"]:
        r = sh(f"git -C {wt} apply --3way {os.path.abspath(src)}/patch.diff"); res["applies"] = r.returncode == 0; res["apply_3way"] = True
    if not res["applies"]:
        print("patch does not apply:", r.stdout); sys.exit(2)
    env = dict(os.environ); env.pop("GOFLAGS", None); env.pop("GOWORK", None)
    env.update(GOPROXY="off", GOSUMDB="off", CGO_CFLAGS="-w -O2")
    r = subprocess.run("go build ./... 2>&1 | grep -v warning | grep '\\.go:' | grep -v '^cmd/test/' | head", shell=True, cwd=wt, env=env, stdout=subprocess.PIPE, text=True)
    res["compiles"] = r.stdout.strip() == ""   # cmd/test/main.go does not compile at HEAD either (stale call of NewKmerMap): ignored
    res["compile_errors"] = r.stdout.strip()[:300]
    r = subprocess.run([SNAP + "/scripts/baseline.py"], env=dict(os.environ, VERIF_REPO=wt), stdout=subprocess.PIPE, text=True)
    res["existing_tests"] = r.stdout.strip().split("\n")[0]
    res["existing_tests_pass"] = r.returncode == 0
    # the demonstration (wave 4 onwards: demo.sh <tree> exits 0 when the property holds): must fail with the change
    # and pass without it; run on the patched worktree, then on the same worktree with the patch reverted
    dsh = os.path.join(os.path.abspath(src), "demo.sh")
    if os.path.exists(dsh):
        def demo():
            r = subprocess.run(["bash", dsh, wt], cwd=os.path.abspath(src), env=env, stdout=subprocess.PIPE, stderr=subprocess.STDOUT, text=True, timeout=1800)
            sh(f"git -C {wt} clean -fdq")   # demo files copied into the tree
            return r.returncode, r.stdout[-600:]
        rc1, out1 = demo()
        sh(f"git -C {wt} apply -R --whitespace=nowarn {os.path.abspath(src)}/patch.diff")
        rc0, out0 = demo()
        sh(f"git -C {wt} checkout -- . && git -C {wt} apply --whitespace=nowarn {os.path.abspath(src)}/patch.diff")
        res["demo"] = {"with_change_exit": rc1, "without_change_exit": rc0, "with_change_tail": out1[-300:], "ok": rc1 != 0 and rc0 == 0}
        print("demo: with change exit", rc1, "| without change exit", rc0, "->", "OK" if res["demo"]["ok"] else "NOT A VALID DEMONSTRATION")
        if rc0 != 0: print(out0)
    res["checks"] = {}
    for c in checks:
        t0 = time.time()
        r = subprocess.run([SNAP + "/check", c, "--tier", tier], cwd=SNAP, env=dict(os.environ, VERIF_REPO=wt), stdout=subprocess.PIPE, stderr=subprocess.STDOUT, text=True)
        viol = [l for l in r.stdout.split("\n") if l.startswith("VIOLATION")]
        detail = [l.strip() for l in r.stdout.split("\n") if l.strip().startswith(("failing input", "broken"))][:4]
        res["checks"][c] = {"tier": tier, "exit": r.returncode, "violation": viol[0] if viol else None, "detail": detail, "wall_s": round(time.time() - t0, 1)}
        print(c, "->", "CAUGHT" if viol else "MISSED", viol[0] if viol else "", *detail, sep="\n   ")
finally:
    sh(f"git -C /repo worktree remove --force {wt}")
dst = f"/verif/seeded/{name}"
os.makedirs(dst, exist_ok=True)
for f in os.listdir(src):
    if os.path.isfile(os.path.join(src, f)): shutil.copy(os.path.join(src, f), dst)
mp = os.path.join(dst, "meta.json")
meta = json.load(open(mp)) if os.path.exists(mp) else {}
meta.setdefault("property", pid)
meta["verified"] = res
json.dump(meta, open(mp, "w"), indent=1)
print(json.dumps(res, indent=1)[:1500])
