#!/usr/bin/env python3
"""Regenerate the machine-generated sections of DESIGN.md (between <!-- BEGIN x --> / <!-- END x --> markers)
from lib/cfg, evidence/*.json, known_findings.json and seeded/*/meta.json."""
import json, os, re, glob, sys
ROOT = os.path.dirname(os.path.dirname(os.path.abspath(__file__)))
sys.path.insert(0, os.path.join(ROOT, "lib"))
from props import PROPS
titles = {json.loads(l)["id"]: json.loads(l)["title"] for l in open(os.path.join(ROOT, "properties.jsonl"))}
order = [json.loads(l)["id"] for l in open(os.path.join(ROOT, "properties.jsonl"))]

def status():
    out = ["| id | property | theorems (Props/) | lemmas in closure | cases / quick run | mismatches | model files |", "|---|---|---|---|---|---|---|"]
    for pid in order:
        ev = None
        p = os.path.join(ROOT, "evidence", pid + ".json")
        if os.path.exists(p): ev = json.load(open(p))
        if pid not in PROPS:
            out.append(f"| {pid} | {titles[pid]} | not claimed | | | | |"); continue
        c = ev["coverage"] if ev else {}
        out.append(f"| {pid} | {titles[pid]} | {len(c.get('property_theorems', []))} | {c.get('helper_lemmas_in_closure','')} | {c.get('evaluations','')} ({ev['tier'] if ev else ''}) | {c.get('correspondence_mismatches','')} | {PROPS[pid].get('modelled','')[:160]} |")
    return "\n".join(out)

def theorems():
    out = []
    for pid in order:
        p = os.path.join(ROOT, "evidence", pid + ".json")
        if pid in PROPS and os.path.exists(p):
            c = json.load(open(p))["coverage"]
            names = [t.split(".")[-1] for t in c.get("property_theorems", [])]
            out.append(f"* **{pid}** — " + ", ".join(f"`{n}`" for n in names))
    return "\n".join(out)

def findings():
    k = json.load(open(os.path.join(ROOT, "known_findings.json")))
    out = ["**Open (recorded, printed as KNOWN-FINDING, not repaired):**", ""]
    for f in k["findings"]:
        out.append(f"* `{f['property']}` **{f['id']}** (signature `{f['sig']}`): {f['what']}")
    out += ["", "**Repaired by `fix:` commits in /repo (a fixed entry suppresses nothing):**", ""]
    for f in k["fixed"]:
        out.append("* " + f[len("fixed: "):])
    return "\n".join(out)

def seeded():
    out = ["| seeded change | property | what it needs to manifest | compiles / tests pass | verdict of the check(s) |", "|---|---|---|---|---|"]
    for d in sorted(glob.glob(os.path.join(ROOT, "seeded", "*"))):
        mp = os.path.join(d, "meta.json")
        if not os.path.exists(mp): continue
        m = json.load(open(mp)); v = m.get("verified", {})
        verd = "; ".join(f"{c}: {'CAUGHT' if r.get('violation') else 'missed'}" + (" (" + r['violation'].split()[-1] + ")" if r.get('violation') and 'no-failing-input-found' in r['violation'] else "") for c, r in v.get("checks", {}).items())
        out.append(f"| `{os.path.basename(d)}` | {m.get('property','')} | {str(m.get('needs_to_manifest', m.get('summary','')))[:200]} | {v.get('compiles')} / {v.get('existing_tests_pass')} | {verd} |")
    return "\n".join(out)

gen = {"STATUS": status, "THEOREMS": theorems, "FINDINGS": findings, "SEEDED": seeded}
path = os.path.join(ROOT, "DESIGN.md")
s = open(path).read()
for key, fn in gen.items():
    pat = re.compile(r"(<!-- BEGIN %s -->)(.*?)(<!-- END %s -->)" % (key, key), re.S)
    if pat.search(s):
        s = pat.sub(lambda m: m.group(1) + "\n" + fn() + "\n" + m.group(3), s)
open(path, "w").write(s)
print("DESIGN.md sections regenerated")
