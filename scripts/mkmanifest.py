#!/usr/bin/env python3
"""Regenerate MANIFEST.json from lib/props.py (claimed checks) and properties.jsonl (the rest -> not_applicable)."""
import json, os, sys, subprocess
ROOT = os.path.dirname(os.path.dirname(os.path.abspath(__file__)))
sys.path.insert(0, os.path.join(ROOT, "lib"))
from props import PROPS, NOT_CLAIMED
ids = [json.loads(l)["id"] for l in open(os.path.join(ROOT, "properties.jsonl"))]
hook_commits = subprocess.run(["git", "-C", "/repo", "log", "--format=%h %s", "--grep=^verif hook"],
                              stdout=subprocess.PIPE, text=True).stdout.strip().split("\n")
m = {
    "version": 1,
    "setup_cmd": "./scripts/setup.sh",
    "hooks": {
        "guard": "verif",
        "enable": "go build -tags verif (the harness module /verif/harness replaces the obitools4 module by /repo and is always built with -tags verif)",
        "baseline_off_cmd": "./scripts/baseline.py",
        "source_commits": [c for c in hook_commits if c],
        "add_only": True,
    },
    "engines": [
        {"name": "ObiVerif", "path": "lean", "serves_properties": sorted(PROPS),
         "kind_free_text": "Lean 4 library: hand-written executable models (Model/), property theorems (Props/), helper lemmas (Lemmas/), generated tables (Gen/, regenerated from /repo on every run), line-protocol driver `vmodel`"},
        {"name": "harness", "path": "harness", "serves_properties": sorted(PROPS),
         "kind_free_text": "Go module built against /repo's working tree with -tags verif: case generators, in-process execution of the real code, property oracles (failing-input search)"},
        {"name": "check", "path": "check", "serves_properties": sorted(PROPS),
         "kind_free_text": "python driver: regenerate -> lake build + axiom audit -> harness build -> correspondence -> oracle search -> decision, evidence, replay"},
    ],
    "checks": [],
    "not_applicable": [],
    "notes": "Technique family: machine-checked proof in Lean 4. Each check = theorems about a Lean model of the anchored code (lake build + #print axioms audit, leanchecker in the thorough tier) + a tie of that model to /repo's current tree (regenerated tables and/or differential correspondence on generated cases) + an oracle search for a concrete failing input when an obligation or the tie breaks. See DESIGN.md.",
}
for pid in ids:
    if pid in PROPS:
        c = PROPS[pid]
        m["checks"].append({
            "property_id": pid,
            "quick_cmd": f"./check {pid} --tier quick",
            "thorough_cmd": f"./check {pid} --tier thorough",
            "evidence_file": f"/verif/evidence/{pid}.json",
            "replay_cmd_template": f"./check {pid} --replay {{path}}",
            "engine": "ObiVerif",
            "level_claimed": {"category": "proof", "text": c["level_text"], "design_ref": c.get("design_ref", "DESIGN.md §4 " + pid)},
            "level_note": c["level_note"],
            "technique": c["technique"],
        })
    else:
        m["not_applicable"].append({"property_id": pid, "reason": NOT_CLAIMED.get(pid, "check not built yet (work in progress): no model/theorems/tie exist for this property in this commit")})
json.dump(m, open(os.path.join(ROOT, "MANIFEST.json"), "w"), indent=1)
print("MANIFEST.json:", len(m["checks"]), "checks,", len(m["not_applicable"]), "not claimed")
