#!/usr/bin/env python3
"""Commit a series of agent patches (/verif/notes/patches/<name>.diff + .msg) to /repo as separate commits.
usage: commit_patches.py <name1> <name2> ...   (in application order)
The files touched are restored to HEAD first; after the series the result must equal the working-tree
versions saved beforehand, otherwise the saved versions are put back (left uncommitted) and reported."""
import subprocess, sys, os, re, shutil, tempfile
REPO = "/repo"; PD = "/verif/notes/patches"
def sh(*a, **k):
    return subprocess.run(a, cwd=REPO, stdout=subprocess.PIPE, stderr=subprocess.STDOUT, text=True, **k)
names = sys.argv[1:]
files = []
for n in names:
    for l in open(f"{PD}/{n}.diff"):
        m = re.match(r"\+\+\+ b/(\S+)", l)
        if m and m.group(1) not in files: files.append(m.group(1))
tmp = tempfile.mkdtemp()
clean = set()   # files whose working-tree version is HEAD's: nothing to restore afterwards
for f in files:
    os.makedirs(os.path.dirname(f"{tmp}/{f}"), exist_ok=True)
    shutil.copy(f"{REPO}/{f}", f"{tmp}/{f}")
    if sh("git", "diff", "--quiet", "HEAD", "--", f).returncode == 0:
        clean.add(f)
print(sh("git", "checkout", "--", *files).stdout)
ok = True
for n in names:
    r = sh("git", "apply", "--recount", f"{PD}/{n}.diff")
    if r.returncode != 0:
        r = sh("git", "apply", "--3way", "--recount", f"{PD}/{n}.diff")
    if r.returncode != 0:
        print("CANNOT APPLY", n, r.stdout); ok = False; break
    touched = [m.group(1) for m in (re.match(r"\+\+\+ b/(\S+)", l) for l in open(f"{PD}/{n}.diff")) if m]
    sh("git", "add", *touched)
    r = sh("git", "commit", "-q", "-F", f"{PD}/{n}.msg")
    print(n, "->", sh("git", "log", "--format=%h %s", "-1").stdout.strip(), r.stdout.strip())
for f in files:
    a, b = open(f"{REPO}/{f}").read(), open(f"{tmp}/{f}").read()
    if a != b and f not in clean:
        print("RESIDUAL difference in", f, "- working-tree version restored (uncommitted)")
        shutil.copy(f"{tmp}/{f}", f"{REPO}/{f}")
shutil.rmtree(tmp)
sys.exit(0 if ok else 1)
