#!/bin/sh
# Build the framework once from files on disk (offline).
set -e
cd "$(dirname "$0")/.."
export GOWORK=off GOFLAGS=-mod=mod GOPROXY=off GOSUMDB=off GOTOOLCHAIN=local CGO_CFLAGS="-w -O2 -g"
mkdir -p bin evidence replays
if [ -d extract ]; then (cd extract && go build -o ../bin/extract . && ../bin/extract -repo "${VERIF_REPO:-/repo}" -out ../lean/ObiVerif/Gen); fi
(cd lean && lake build)
cp "${VERIF_REPO:-/repo}/go.sum" harness/go.sum
(cd harness && go build -tags verif -o ../bin/harness . 2>&1 | grep -v warning || true)
test -x bin/harness
echo setup ok
