#!/bin/sh
# Build the framework once from files on disk (offline).
set -e
cd "$(dirname "$0")/.."
export GOWORK=off GOFLAGS=-mod=mod GOPROXY=off GOSUMDB=off GOTOOLCHAIN=local CGO_CFLAGS="-w -O2 -g"
mkdir -p bin evidence replays
if [ -d extract ]; then (cd extract && go build -o ../bin/extract . && ../bin/extract -repo "${VERIF_REPO:-/repo}" -out ../lean/ObiVerif/Gen); fi
(cd lean && lake build $(ls Driver/Main*.lean | sed 's|Driver/Main\(.*\)\.lean|vm_\1|'))
./scripts/genroot.py
# theorems: a failure here is reported by the property's own check, not by setup
(cd lean && lake build ObiVerif) || echo "setup: WARNING some proof modules do not build"
cp "${VERIF_REPO:-/repo}/go.sum" harness/go.sum
for f in harness/c[0-9]*.go; do
  id=$(basename "$f" .go)
  ID=$(echo "$id" | tr c C)
  (cd harness && go build -tags "verif,$id" -o "../bin/harness_$ID" . 2>&1 | grep -v "warning\|^#\|cgo-gcc\|In file\|note:\|^ " || true)
  test -x "bin/harness_$ID"
done
echo setup ok
