#!/usr/bin/env python3
"""Record the digest of /repo's sources (lib/source_baseline.json): the tree the committed checks were validated on.
A quick check of a tree whose digest differs spends more effort (check: source_changed). Run after every commit to /repo."""
import json, subprocess, importlib.machinery, importlib.util, os
ROOT = os.path.dirname(os.path.dirname(os.path.abspath(__file__)))
loader = importlib.machinery.SourceFileLoader("check", os.path.join(ROOT, "check"))
spec = importlib.util.spec_from_loader("check", loader); chk = importlib.util.module_from_spec(spec); loader.exec_module(chk)
st = subprocess.run(["git", "-C", "/repo", "status", "--porcelain"], stdout=subprocess.PIPE, text=True).stdout
# untracked hook files of an engineer at work are not part of the digest (verif_hooks* are excluded from it)
st = "\n".join(l for l in st.split("\n") if l.strip() and not (l.startswith("??") and "verif_hooks" in l))
if st:
    raise SystemExit("refusing: /repo has uncommitted changes:\n" + st)
d, n = chk.source_digest("/repo")
head = subprocess.run(["git", "-C", "/repo", "rev-parse", "--short", "HEAD"], stdout=subprocess.PIPE, text=True).stdout.strip()
json.dump({"digest": d, "files": n, "repo_head": head}, open(os.path.join(ROOT, "lib", "source_baseline.json"), "w"), indent=1)
print("baseline", d, n, "files at", head)
