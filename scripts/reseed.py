#!/usr/bin/env python3
"""Re-run the checks against already validated seeded changes (no baseline re-run): detection regression test.
usage: reseed.py [--tier quick] [--jobs N] <name> ...   (names under /verif/seeded; default: all)
Each seed is applied in its own scratch worktree of /repo; the property's own check (and the extra ones listed in
meta.json's verified.checks) is run with VERIF_REPO=<worktree>; verdicts are written to meta.json (key `recheck`)."""
import sys, os, json, subprocess, time, concurrent.futures as cf
SNAP = os.environ.get("VERIF_SNAP", "/verif")
args = sys.argv[1:]; tier = "quick"; jobs = 3; names = []
while args:
    if args[0] == "--tier": tier = args[1]; args = args[2:]
    elif args[0] == "--jobs": jobs = int(args[1]); args = args[2:]
    else: names.append(args[0]); args = args[1:]
if not names: names = sorted(os.listdir("/verif/seeded"))
def sh(c, **k): return subprocess.run(c, shell=True, stdout=subprocess.PIPE, stderr=subprocess.STDOUT, text=True, **k)
head = sh("git -C /repo rev-parse --short HEAD").stdout.strip()
vhead = sh(f"git -C {SNAP} rev-parse --short HEAD").stdout.strip()
def one(name):
    d = f"/verif/seeded/{name}"; mp = d + "/meta.json"
    meta = json.load(open(mp)); pid = meta.get("property", name.split("-")[0])
    wt = f"/tmp/reseed-{name}"
    sh(f"git -C /repo worktree remove --force {wt}")
    r = sh(f"git -C /repo worktree add --detach {wt} HEAD")
    out = {"repo": head, "verif": vhead, "tier": tier, "checks": {}}
    try:
        r = sh(f"git -C {wt} apply --whitespace=nowarn {d}/patch.diff")
        if r.returncode != 0:
            r = sh(f"git -C {wt} apply --3way {d}/patch.diff")
        out["applies"] = r.returncode == 0
        if out["applies"]:
            for c in [pid]:
                t0 = time.time()
                r = subprocess.run([SNAP + "/check", c, "--tier", tier], cwd=SNAP, env=dict(os.environ, VERIF_REPO=wt),
                                   stdout=subprocess.PIPE, stderr=subprocess.STDOUT, text=True)
                viol = [l for l in r.stdout.split("\n") if l.startswith("VIOLATION")]
                det = [l.strip()[:300] for l in r.stdout.split("\n") if l.strip().startswith(("failing input", "broken"))][:3]
                out["checks"][c] = {"exit": r.returncode, "violation": viol[0] if viol else None, "detail": det, "wall_s": round(time.time() - t0, 1)}
    finally:
        sh(f"git -C /repo worktree remove --force {wt}")
    meta["recheck"] = out
    json.dump(meta, open(mp, "w"), indent=1)
    v = out["checks"].get(pid, {})
    verdict = "NOAPPLY" if not out.get("applies") else ("CAUGHT" if v.get("violation") else "MISSED")
    if v.get("violation") and v["violation"].endswith("no-failing-input-found"): verdict = "CAUGHT(no-input)"
    return name, verdict, v.get("wall_s")
with cf.ThreadPoolExecutor(jobs) as ex:
    for name, verdict, w in ex.map(one, names):
        print(f"{name}: {verdict} ({w}s)", flush=True)
