#!/usr/bin/env python3
"""regenerate lean/ObiVerif.lean (library root) from the modules present on disk"""
import os
root = os.path.join(os.path.dirname(os.path.dirname(os.path.abspath(__file__))), "lean")
mods = []
for d in ["Gen", "Model", "Spec", "Lemmas", "Props", "Driver"]:
    p = os.path.join(root, "ObiVerif", d)
    if os.path.isdir(p):
        for f in sorted(os.listdir(p)):
            if f.endswith(".lean"):
                mods.append(f"ObiVerif.{d}.{f[:-5]}")
open(os.path.join(root, "ObiVerif.lean"), "w").write("".join(f"import {m}\n" for m in mods))
print(len(mods), "modules")
