#!/usr/bin/env python3
"""Run /repo's test suite with the `verif` guard OFF and compare with the 71 stable tests of
/root/.vp/BASELINE.json (exit 0 iff every stable test passes)."""
import json, subprocess, sys, os
repo = os.environ.get("VERIF_REPO", "/repo")
base = json.load(open("/root/.vp/BASELINE.json"))
stable = set(base["stable_pass"])
env = dict(os.environ, GOFLAGS="", GOPROXY="off", GOSUMDB="off", GOTOOLCHAIN="local", CGO_CFLAGS="-w -O2 -g")
env.pop("GOWORK", None)
p = subprocess.run(["go", "test", "-json", "-vet=off", "-count=1", "-timeout", "25m", "./..."],
                   cwd=repo, env=env, stdout=subprocess.PIPE, stderr=subprocess.DEVNULL, text=True)
passed = set()
for l in p.stdout.split("\n"):
    try:
        e = json.loads(l)
    except Exception:
        continue
    if e.get("Action") == "pass" and e.get("Test"):
        passed.add(e["Package"] + "::" + e["Test"])
missing = sorted(stable - passed)
# upstream flakiness (e.g. obiutils TestSetString prints a Go map in iteration order and fails about one
# run in three on the untouched tree): a test counts as passing if it passes in one of 5 more attempts
for attempt in range(5):
    if not missing:
        break
    for m in list(missing):
        pkg, test = m.split("::")
        q = subprocess.run(["go", "test", "-vet=off", "-count=1", "-run", "^" + test.split("/")[0] + "$", pkg],
                           cwd=repo, env=env, stdout=subprocess.PIPE, stderr=subprocess.DEVNULL, text=True)
        if q.returncode == 0:
            print("  flaky upstream test passed on retry:", m)
            passed.add(m)
    missing = sorted(stable - passed)
print(f"baseline: {len(stable & passed)}/{len(stable)} stable tests pass (guard off)")
for m in missing:
    print("  NOT PASSING:", m)
sys.exit(1 if missing else 0)
