/-! probe: one level of the Manber substitution automaton, bit i of the new word -/

def newWord (m : Nat) (prevLow rOld S cmask : BitVec 64) : BitVec 64 :=
  let smask : BitVec 64 := 1#64 <<< m
  (((prevLow ||| smask) >>> 1) &&& cmask) ||| (((rOld ||| smask) >>> 1) &&& S)

theorem smask_bit (m i : Nat) (hm : m < 64) : ((1#64 <<< m).getLsbD i) = decide (i = m) := by
  simp only [BitVec.getLsbD_shiftLeft]
  by_cases h : i = m
  · subst h; simp [hm]
  · simp only [h, decide_false]
    by_cases h2 : i < m
    · simp [h2]
    · have : i - m ≠ 0 := by omega
      simp [h2]
      intro _
      cases hh : i - m with
      | zero => omega
      | succ k => simp

/-- bit `i < m` of the new state word, in terms of bit `i+1` of the old ones (top bit `m` forced to 1) -/
theorem newWord_bit (m i : Nat) (hm : m < 64) (hi : i < m) (prevLow rOld S cmask : BitVec 64) :
    (newWord m prevLow rOld S cmask).getLsbD i =
      (((prevLow.getLsbD (i+1) || decide (i + 1 = m)) && cmask.getLsbD i) ||
       ((rOld.getLsbD (i+1) || decide (i + 1 = m)) && S.getLsbD i)) := by
  unfold newWord
  simp only [BitVec.getLsbD_or, BitVec.getLsbD_and, BitVec.getLsbD_ushiftRight, smask_bit _ _ hm]
  have : (1 + i) = i + 1 := by omega
  simp [this]
#print axioms newWord_bit
