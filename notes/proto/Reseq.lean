/-! prototype: re-sequencing buffer, any arrival permutation -/

structure RS (α : Type) where
  next : Nat
  pending : List (Nat × α)
  out : List α

def lookupK {α} (k : Nat) : List (Nat × α) → Option α
  | [] => none
  | (j, x) :: t => if j = k then some x else lookupK k t

def eraseK {α} (k : Nat) : List (Nat × α) → List (Nat × α)
  | [] => []
  | (j, x) :: t => if j = k then t else (j, x) :: eraseK k t

theorem eraseK_length_lt {α} (k : Nat) (l : List (Nat × α)) (x : α) (h : lookupK k l = some x) :
    (eraseK k l).length < l.length := by
  induction l with
  | nil => simp [lookupK] at h
  | cons p t ih =>
    obtain ⟨j, y⟩ := p
    simp only [lookupK, eraseK] at *
    split
    · simp
    · rename_i hne
      simp [hne] at h
      have := ih h
      simp; omega

def drain {α} (s : RS α) : RS α :=
  match h : lookupK s.next s.pending with
  | none => s
  | some x => drain { next := s.next + 1, pending := eraseK s.next s.pending, out := s.out ++ [x] }
termination_by s.pending.length
decreasing_by exact eraseK_length_lt _ _ _ h

def step {α} (s : RS α) (a : Nat × α) : RS α :=
  if a.1 = s.next then drain { next := s.next + 1, pending := s.pending, out := s.out ++ [a.2] }
  else { s with pending := a :: s.pending }

def reseq {α} (arr : List (Nat × α)) : List α := (arr.foldl step ⟨0, [], []⟩).out

#eval reseq [(1,"b"),(0,"a"),(3,"d"),(2,"c")]
#eval reseq [(1,"b"),(3,"d"),(2,"c")]

section proofs
variable {α : Type}

theorem lookupK_some {k : Nat} {l : List (Nat × α)} {x : α} (h : lookupK k l = some x) : (k, x) ∈ l := by
  induction l with
  | nil => simp [lookupK] at h
  | cons p t ih =>
    obtain ⟨j, y⟩ := p
    simp only [lookupK] at h
    split at h
    · rename_i hj; simp at h; subst hj; subst h; simp
    · exact List.mem_cons_of_mem _ (ih h)

theorem lookupK_none {k : Nat} {l : List (Nat × α)} (h : lookupK k l = none) : ∀ x, (k, x) ∉ l := by
  induction l with
  | nil => simp
  | cons p t ih =>
    obtain ⟨j, y⟩ := p
    simp only [lookupK] at h
    split at h
    · simp at h
    · rename_i hj
      intro x hx
      simp at hx
      rcases hx with ⟨h1, _⟩ | hx
      · exact hj h1.symm
      · exact ih h x hx

theorem mem_eraseK {k : Nat} {l : List (Nat × α)} (hnd : (l.map Prod.fst).Nodup) (j : Nat) (y : α) :
    (j, y) ∈ eraseK k l ↔ ((j, y) ∈ l ∧ j ≠ k) := by
  induction l with
  | nil => simp [eraseK]
  | cons p t ih =>
    obtain ⟨i, z⟩ := p
    simp only [List.map_cons, List.nodup_cons] at hnd
    simp only [eraseK]
    split
    · rename_i hik
      subst hik
      constructor
      · intro h
        refine ⟨List.mem_cons_of_mem _ h, ?_⟩
        intro hji; subst hji
        exact hnd.1 (List.mem_map.mpr ⟨(j, y), h, rfl⟩)
      · rintro ⟨h, hne⟩
        simp at h
        rcases h with ⟨h1, _⟩ | h
        · exact absurd h1 hne
        · exact h
    · rename_i hik
      simp only [List.mem_cons, Prod.mk.injEq, ih hnd.2]
      constructor
      · rintro (⟨h1, h2⟩ | ⟨h, hne⟩)
        · subst h1; subst h2; exact ⟨Or.inl ⟨rfl, rfl⟩, hik⟩
        · exact ⟨Or.inr h, hne⟩
      · rintro ⟨(⟨h1, h2⟩ | h), hne⟩
        · exact Or.inl ⟨h1, h2⟩
        · exact Or.inr ⟨h, hne⟩

theorem nodup_eraseK {k : Nat} {l : List (Nat × α)} (hnd : (l.map Prod.fst).Nodup) :
    ((eraseK k l).map Prod.fst).Nodup := by
  induction l with
  | nil => simp [eraseK]
  | cons p t ih =>
    obtain ⟨i, z⟩ := p
    simp only [List.map_cons, List.nodup_cons] at hnd
    simp only [eraseK]
    split
    · exact hnd.2
    · simp only [List.map_cons, List.nodup_cons]
      refine ⟨?_, ih hnd.2⟩
      intro hmem
      obtain ⟨⟨j, y⟩, hjy, hj⟩ := List.mem_map.mp hmem
      simp at hj; subst hj
      have := (mem_eraseK hnd.2 j y).mp hjy
      exact hnd.1 (List.mem_map.mpr ⟨(j, y), this.1, rfl⟩)

/-- state before draining: everything below `next` has been emitted, `pending` is exactly what arrived and is ≥ next -/
structure PreInv (v : Nat → α) (K : List Nat) (s : RS α) : Prop where
  below : ∀ k, k < s.next → k ∈ K
  pend  : ∀ k x, (k, x) ∈ s.pending ↔ (k ∈ K ∧ s.next ≤ k ∧ x = v k)
  nd    : (s.pending.map Prod.fst).Nodup
  out   : s.out = (List.range s.next).map v

structure SInv (v : Nat → α) (K : List Nat) (s : RS α) : Prop extends PreInv v K s where
  notin : s.next ∉ K

theorem drain_inv (v : Nat → α) (K : List Nat) (s : RS α) (h : PreInv v K s) : SInv v K (drain s) := by
  induction s using drain.induct with
  | case1 s hnone =>
    rw [drain, ]
    split
    · rename_i heq
      refine { h with notin := ?_ }
      intro hin
      exact lookupK_none heq (v s.next) ((h.pend _ _).mpr ⟨hin, Nat.le_refl _, rfl⟩)
    · rename_i x heq; rw [hnone] at heq; cases heq
  | case2 s x hsome ih =>
    rw [drain]
    split
    · rename_i heq; rw [hsome] at heq; cases heq
    · rename_i y heq
      rw [hsome] at heq; cases heq
      apply ih
      have hx := (h.pend _ _).mp (lookupK_some hsome)
      constructor
      · intro k hk
        simp at hk
        rcases Nat.lt_succ_iff_lt_or_eq.mp hk with hk | hk
        · exact h.below k hk
        · subst hk; exact hx.1
      · intro k z
        simp only
        rw [mem_eraseK h.nd, h.pend]
        constructor
        · rintro ⟨⟨a, b, c⟩, hne⟩; exact ⟨a, by omega, c⟩
        · rintro ⟨a, b, c⟩; exact ⟨⟨a, by omega, c⟩, by omega⟩
      · exact nodup_eraseK h.nd
      · simp only
        rw [h.out, List.range_succ, List.map_append, hx.2.2]
        simp

theorem step_inv (v : Nat → α) (K : List Nat) (s : RS α) (h : SInv v K s) (k : Nat) (hk : k ∉ K) :
    SInv v (k :: K) (step s (k, v k)) := by
  unfold step
  simp only
  split
  · rename_i hkn
    subst hkn
    apply drain_inv
    constructor
    · intro j hj
      simp at hj
      rcases Nat.lt_succ_iff_lt_or_eq.mp hj with hj | hj
      · exact List.mem_cons_of_mem _ (h.below j hj)
      · subst hj; simp
    · intro j z
      simp only
      rw [h.pend]
      constructor
      · rintro ⟨a, b, c⟩
        refine ⟨List.mem_cons_of_mem _ a, ?_, c⟩
        rcases Nat.lt_or_ge s.next j with hlt | hge
        · omega
        · have : j = s.next := by omega
          subst this; exact absurd a hk
      · rintro ⟨a, b, c⟩
        simp at a
        rcases a with a | a
        · omega
        · exact ⟨a, by omega, c⟩
    · exact h.nd
    · simp only
      rw [h.out, List.range_succ, List.map_append]; simp
  · rename_i hkn
    have hgt : s.next < k := by
      rcases Nat.lt_or_ge k s.next with hlt | hge
      · exact absurd (h.below k hlt) hk
      · omega
    constructor
    · constructor
      · intro j hj; exact List.mem_cons_of_mem _ (h.below j hj)
      · intro j z
        simp only [List.mem_cons, Prod.mk.injEq]
        rw [h.pend]
        constructor
        · rintro (⟨a, b⟩ | ⟨a, b, c⟩)
          · subst a; subst b; exact ⟨Or.inl rfl, by omega, rfl⟩
          · exact ⟨Or.inr a, b, c⟩
        · rintro ⟨(a | a), b, c⟩
          · subst a; exact Or.inl ⟨rfl, c⟩
          · exact Or.inr ⟨a, b, c⟩
      · simp only [List.map_cons, List.nodup_cons]
        refine ⟨?_, h.nd⟩
        intro hmem
        obtain ⟨⟨j, y⟩, hjy, hj⟩ := List.mem_map.mp hmem
        simp at hj; subst hj
        exact hk ((h.pend _ _).mp hjy).1
      · exact h.out
    · simp only [List.mem_cons, not_or]
      exact ⟨by omega, h.notin⟩

theorem fold_inv (v : Nat → α) (ks : List Nat) (K : List Nat) (s : RS α) (h : SInv v K s)
    (hnd : ks.Nodup) (hdisj : ∀ k ∈ ks, k ∉ K) :
    SInv v (ks.reverse ++ K) ((ks.map fun k => (k, v k)).foldl step s) := by
  induction ks generalizing K s with
  | nil => simpa using h
  | cons k t ih =>
    simp only [List.map_cons, List.foldl_cons, List.reverse_cons, List.append_assoc, List.singleton_append]
    simp only [List.nodup_cons] at hnd
    have hk : k ∉ K := hdisj k (by simp)
    apply ih
    · exact step_inv v K s h k hk
    · exact hnd.2
    · intro j hj
      simp only [List.mem_cons, not_or]
      refine ⟨?_, hdisj j (List.mem_cons_of_mem _ hj)⟩
      intro hjk; subst hjk; exact hnd.1 hj

theorem init_inv (v : Nat → α) : SInv v [] (⟨0, [], []⟩ : RS α) := by
  constructor
  · constructor <;> simp
  · simp

/-- the property: for EVERY arrival order of the batches 0..n-1 the output is 0,1,…,n-1 -/
theorem reseq_perm (v : Nat → α) (n : Nat) (ks : List Nat) (hp : ks.Perm (List.range n)) :
    reseq (ks.map fun k => (k, v k)) = (List.range n).map v := by
  have hnd : ks.Nodup := (List.Perm.nodup_iff hp).mpr List.nodup_range
  have h := fold_inv v ks [] ⟨0, [], []⟩ (init_inv v) hnd (by simp)
  simp only [List.append_nil] at h
  unfold reseq
  generalize (List.foldl step ⟨0, [], []⟩ (ks.map fun k => (k, v k))) = s at h ⊢
  have hnext : s.next = n := by
    have h1 : ∀ k, k < s.next → k < n := by
      intro k hk
      have := h.below k hk
      simp only [List.mem_reverse] at this
      exact List.mem_range.mp (hp.mem_iff.mp this)
    have h2 : ¬ s.next < n := by
      intro hlt
      apply h.notin
      simp only [List.mem_reverse]
      exact hp.mem_iff.mpr (List.mem_range.mpr hlt)
    rcases Nat.lt_or_ge n s.next with hlt | hge
    · exact absurd (h1 n hlt) (Nat.lt_irrefl n)
    · omega
  rw [h.out, hnext]

end proofs
#print axioms reseq_perm
