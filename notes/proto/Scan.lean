/-! probe: the (repaired) JSON-object scanner finds exactly the balanced object, for all strings -/

def scan : Nat → Bool → Bool → List UInt8 → Nat → Option Nat
  | _, _, _, [], _ => none
  | lvl, inq, esc, c :: cs, pos =>
    if inq then
      if esc then scan lvl true false cs (pos+1)
      else if c = 92 then scan lvl true true cs (pos+1)
      else if c = 34 then scan lvl false false cs (pos+1)
      else scan lvl true false cs (pos+1)
    else
      if c = 34 then scan lvl true false cs (pos+1)
      else if c = 123 then scan (lvl+1) false false cs (pos+1)
      else if c = 125 then (if lvl = 1 then some (pos+1) else scan (lvl-1) false false cs (pos+1))
      else scan lvl false false cs (pos+1)

/-- body of a string literal as an encoder emits it: `"` and `\` only occur escaped -/
inductive EscOK : List UInt8 → Prop
  | nil : EscOK []
  | esc (c : UInt8) (t : List UInt8) : EscOK t → EscOK (92 :: c :: t)
  | plain (c : UInt8) (t : List UInt8) : c ≠ 92 → c ≠ 34 → EscOK t → EscOK (c :: t)

inductive Tok
  | str (body : List UInt8)
  | opn
  | cls
  | other (c : UInt8)

def Tok.flat : Tok → List UInt8
  | .str b => 34 :: (b ++ [34])
  | .opn => [123]
  | .cls => [125]
  | .other c => [c]

def Tok.ok : Tok → Prop
  | .str b => EscOK b
  | .other c => c ≠ 34 ∧ c ≠ 123 ∧ c ≠ 125
  | _ => True

def flat (ts : List Tok) : List UInt8 := ts.flatMap Tok.flat

/-- from nesting level `n ≥ 1`, the tokens return to level 0 exactly at the last token -/
def ClosesAt : Nat → List Tok → Prop
  | _, [] => False
  | n, .cls :: ts => if n = 1 then ts = [] else ClosesAt (n-1) ts
  | n, .opn :: ts => ClosesAt (n+1) ts
  | n, _ :: ts => ClosesAt n ts

theorem scan_body (lvl : Nat) (b rest : List UInt8) (pos : Nat) (h : EscOK b) :
    scan lvl true false (b ++ 34 :: rest) pos = scan lvl false false rest (pos + b.length + 1) := by
  induction h generalizing pos with
  | nil => simp [scan]
  | esc c t _ ih =>
    simp only [List.cons_append, scan, ↓reduceIte, Bool.false_eq_true]
    rw [ih]; simp only [List.length_cons]; congr 1; omega
  | plain c t h1 h2 _ ih =>
    simp only [List.cons_append, scan, ↓reduceIte, Bool.false_eq_true, h1, h2]
    rw [ih]; simp only [List.length_cons]; congr 1; omega

theorem scan_tokens (n : Nat) (hn : 1 ≤ n) (ts : List Tok) (rest : List UInt8) (pos : Nat)
    (hok : ∀ t ∈ ts, t.ok) (hc : ClosesAt n ts) :
    scan n false false (flat ts ++ rest) pos = some (pos + (flat ts).length) := by
  induction ts generalizing n pos with
  | nil => simp [ClosesAt] at hc
  | cons t ts ih =>
    have hok' : ∀ t ∈ ts, t.ok := fun t ht => hok t (List.mem_cons_of_mem _ ht)
    have ht := hok t (by simp)
    cases t with
    | str b =>
      simp only [flat, List.flatMap_cons, Tok.flat, List.cons_append, List.append_assoc, scan,
        Bool.false_eq_true, ↓reduceIte]
      rw [scan_body _ _ _ _ ht]
      simp only [ClosesAt] at hc
      have := ih n hn (pos + 1 + b.length + 1) hok' hc
      simp only [flat] at this
      simp only [List.nil_append, List.singleton_append] at *
      rw [this]; simp; omega
    | opn =>
      simp only [ClosesAt] at hc
      have := ih (n+1) (by omega) (pos+1) hok' hc
      simp only [flat, List.flatMap_cons, Tok.flat, List.cons_append, List.nil_append, scan,
        Bool.false_eq_true, ↓reduceIte] at this ⊢
      have e1 : (123 : UInt8) ≠ 34 := by decide
      simp only [e1, ↓reduceIte]
      rw [this]; simp; omega
    | cls =>
      simp only [ClosesAt] at hc
      have e1 : (125 : UInt8) ≠ 34 := by decide
      have e2 : (125 : UInt8) ≠ 123 := by decide
      simp only [flat, List.flatMap_cons, Tok.flat, List.cons_append, List.nil_append, scan,
        Bool.false_eq_true, ↓reduceIte, e1, e2]
      split at hc
      · rename_i h1; subst h1; subst hc; simp
      · rename_i h1
        simp only [h1, ↓reduceIte]
        have := ih (n-1) (by omega) (pos+1) hok' hc
        simp only [flat] at this
        rw [this]; simp; omega
    | other c =>
      simp only [ClosesAt] at hc
      obtain ⟨h1, h2, h3⟩ := ht
      have := ih n hn (pos+1) hok' hc
      simp only [flat, List.flatMap_cons, Tok.flat, List.cons_append, List.nil_append, scan,
        Bool.false_eq_true, ↓reduceIte, h1, h2, h3] at this ⊢
      rw [this]; simp; omega

/-- the object is found exactly, whatever follows it on the title line -/
theorem scan_finds_object (ts : List Tok) (rest : List UInt8)
    (hok : ∀ t ∈ ts, t.ok) (hc : ClosesAt 1 ts) :
    scan 0 false false (flat (.opn :: ts) ++ rest) 0 = some ((flat (.opn :: ts)).length) := by
  have := scan_tokens 1 (Nat.le_refl 1) ts rest 1 hok hc
  have e1 : (123 : UInt8) ≠ 34 := by decide
  simp only [flat, List.flatMap_cons, Tok.flat, List.cons_append, List.nil_append, scan,
    Bool.false_eq_true, ↓reduceIte, e1, Nat.zero_add] at this ⊢
  rw [this]; simp; omega

#print axioms scan_finds_object
-- non-vacuity: {"k":"x\"}y"}  (the string that breaks the unrepaired scanner)
example : ClosesAt 1 [.str [107], .other 58, .str [120, 92, 34, 125, 121], .cls] := by simp [ClosesAt]
example : EscOK [120, 92, 34, 125, 121] := by
  apply EscOK.plain _ _ (by decide) (by decide)
  apply EscOK.esc
  apply EscOK.plain _ _ (by decide) (by decide)
  apply EscOK.plain _ _ (by decide) (by decide)
  exact EscOK.nil
