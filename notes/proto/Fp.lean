/-! prototype: Uint128.Mul64 as in the Go code, exactness by omega over product atoms -/
abbrev W := 18446744073709551616  -- 2^64

structure U128 where
  w1 : Nat
  w0 : Nat

def U128.WF (u : U128) : Prop := u.w1 < W ∧ u.w0 < W
def U128.toNat (u : U128) : Nat := u.w1 * W + u.w0

-- bits.Mul64 / bits.Add64 by their documented meaning
def bitsMul64 (x y : Nat) : Nat × Nat := ((x * y) / W, (x * y) % W)        -- (hi, lo)
def bitsAdd64 (x y c : Nat) : Nat × Nat := ((x + y + c) % W, (x + y + c) / W) -- (sum, carry)

/-- `func (u Uint128) Mul64(v uint64) Uint128` -/
def U128.mul64 (u : U128) (v : Nat) : Except Unit U128 :=
  let (hi, lo) := bitsMul64 u.w0 v
  let (p0, p1) := bitsMul64 u.w1 v
  let (hi', c0) := bitsAdd64 hi p1 0
  if p0 != 0 || c0 != 0 then .error () else .ok ⟨hi', lo⟩

theorem U128.mul64_exact (u : U128) (v : Nat) (hu : u.WF) (hv : v < W) :
    (u.toNat * v < W * W → U128.mul64 u v = .ok ⟨(u.toNat * v) / W, (u.toNat * v) % W⟩) ∧
    (W * W ≤ u.toNat * v → U128.mul64 u v = .error ()) := by
  obtain ⟨h1, h0⟩ := hu
  unfold U128.mul64 bitsMul64 bitsAdd64 U128.toNat
  simp only
  have e : (u.w1 * W + u.w0) * v = (u.w1 * v) * W + u.w0 * v := by
    rw [Nat.add_mul, Nat.mul_assoc, Nat.mul_comm W v, ← Nat.mul_assoc]
  rw [e]
  generalize ha : u.w1 * v = a
  generalize hb : u.w0 * v = b
  have hamax : a ≤ (W - 1) * (W - 1) := by
    subst ha; exact Nat.mul_le_mul (by omega) (by omega)
  have hbmax : b ≤ (W - 1) * (W - 1) := by
    subst hb; exact Nat.mul_le_mul (by omega) (by omega)
  simp only [W] at *
  constructor
  · intro hlt
    have : ¬ ((a / 18446744073709551616 != 0 || (b / 18446744073709551616 + a % 18446744073709551616 + 0) / 18446744073709551616 != 0) = true) := by
      simp; omega
    rw [if_neg this]
    congr 2 <;> omega
  · intro hge
    have : ((a / 18446744073709551616 != 0 || (b / 18446744073709551616 + a % 18446744073709551616 + 0) / 18446744073709551616 != 0) = true) := by
      simp; omega
    rw [if_pos this]
#print axioms U128.mul64_exact
