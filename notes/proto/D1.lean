/-! probe: structural (list-level) version of obialign.D1Or0 and its exactness -/

/-- strip the longest common prefix -/
def stripPre : List UInt8 → List UInt8 → List UInt8 × List UInt8
  | a :: as, b :: bs => if a = b then stripPre as bs else (a :: as, b :: bs)
  | as, bs => (as, bs)

/-- the backward scan of the Go code on the residuals (given reversed): stops when both have ≤ 1 element left -/
def stripSuf : List UInt8 → List UInt8 → List UInt8 × List UInt8
  | a :: as, b :: bs =>
      if (as ≠ [] ∨ bs ≠ []) ∧ a = b then stripSuf as bs else (a :: as, b :: bs)
  | as, bs => (as, bs)

/-- verdict of D1Or0 (without the position/symbol outputs) -/
def d1or0 (a b : List UInt8) : Int :=
  if a.length > b.length + 1 ∨ b.length > a.length + 1 then -1 else
  let (ra, rb) := stripPre a b
  if ra = [] ∧ rb = [] then 0 else
  let (sa, sb) := stripSuf ra.reverse rb.reverse
  if a.length = b.length then (if sa.length > 1 ∨ sb.length > 1 then -1 else 1)
  else if a.length > b.length then (if sa.length > 1 then -1 else 1)
  else (if sb.length > 1 then -1 else 1)

#eval d1or0 "acgt".toUTF8.toList "acgt".toUTF8.toList   -- 0
#eval d1or0 "acgt".toUTF8.toList "aggt".toUTF8.toList   -- 1
#eval d1or0 "aab".toUTF8.toList "ab".toUTF8.toList      -- 1
#eval d1or0 "ab".toUTF8.toList "ba".toUTF8.toList       -- -1
#eval d1or0 "a".toUTF8.toList "".toUTF8.toList          -- 1
#eval d1or0 "acgt".toUTF8.toList "agct".toUTF8.toList   -- -1

theorem stripPre_spec (a b : List UInt8) :
    ∃ p, a = p ++ (stripPre a b).1 ∧ b = p ++ (stripPre a b).2 ∧
      (∀ x y xs ys, (stripPre a b).1 = x :: xs → (stripPre a b).2 = y :: ys → x ≠ y) := by
  induction a generalizing b with
  | nil => exact ⟨[], by simp [stripPre], by simp [stripPre], by simp [stripPre]⟩
  | cons x xs ih =>
    cases b with
    | nil => exact ⟨[], by simp [stripPre], by simp [stripPre], by simp [stripPre]⟩
    | cons y ys =>
      by_cases h : x = y
      · subst h
        obtain ⟨p, h1, h2, h3⟩ := ih ys
        refine ⟨x :: p, ?_, ?_, ?_⟩ <;> simp only [stripPre, ↓reduceIte]
        · simpa using h1
        · simpa using h2
        · exact h3
      · refine ⟨[], ?_, ?_, ?_⟩ <;> simp only [stripPre, h, ↓reduceIte, List.nil_append]
        intro x' y' xs' ys' e1 e2
        simp at e1 e2
        rw [← e1.1, ← e2.1]; exact h

theorem d1or0_zero_iff (a b : List UInt8) : d1or0 a b = 0 ↔ a = b := by
  constructor
  · intro h
    unfold d1or0 at h
    split at h
    · simp at h
    · obtain ⟨p, h1, h2, _⟩ := stripPre_spec a b
      simp only at h
      split at h
      · rename_i h0
        rw [h0.1] at h1; rw [h0.2] at h2
        simp at h1 h2
        exact h1.trans h2.symm
      · exfalso
        repeat' split at h
        all_goals simp at h
  · intro h
    subst h
    unfold d1or0
    have : stripPre a a = ([], []) := by
      induction a with
      | nil => simp [stripPre]
      | cons x xs ih => simp [stripPre, ih]
    simp [this]
#print axioms d1or0_zero_iff
