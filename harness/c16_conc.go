//go:build c16

package main

// conc — the record-level closures of obigrep / obiannotate / obidistribute under concurrent use.
//
//	conc <g> <r> grep  <options> | <records> [| T …]    -> the result of the grep  case (every record alone, one after the other)
//	conc <g> <r> annot <options> | <records> [| T …]    -> the result of the annot case
//	conc <g> <r> class <k1> <k2> <na> | <records>       -> the result of the class case
//	race conc …                                          the same through a `go build -race` build (thorough tier, first seed)
//
// What the commands run in parallel and what is shared (read in /repo):
//   - obigrep (obigrep/grep.go CLIFilterSequence without --save-discarded): ONE predicate built once by
//     CLISequenceSelectionPredicate (And-chain of the closures of every CLI*Predicate builder: size, count, taxonomy,
//     -p expressions, sequence / definition / identifier regexps, id list, has-attribute, attribute regexps, approximate
//     pattern; Not for -v; PairedPredicat for --paired-with) called by the nworkers goroutines of IBioSequence.FilterOn,
//     each on the records of its own batches.  With --save-discarded DivideOn calls it from one goroutine.
//   - obiannotate (CLIAnnotationPipeline): ONE slice worker SeqToSliceConditionalWorker(predicate, CLIAnnotationWorker())
//     (the selection predicate above + the chain of every edit worker: clear, set-identifier and set-tag expressions,
//     delete / keep / rename, taxonomy workers, add-lca-in, length, aho-corasick, cut, pattern) called by the nworkers
//     goroutines of MakeISliceWorker, each on the slice of its own batch; the pipeline keeps the slice the worker RETURNS.
//   - obidistribute (IBioSequence.Distribute + WriterDispatcher): ONE classifier; Code(record) is called by ONE goroutine
//     (the distributor, on the sorted stream); Value(code) is called by one goroutine per NEW class, started by the
//     dispatcher while the distributor goes on classifying (encode / decode tables behind the classifier's RWMutex).
//
// Shared: the closures built once and what they captured (compiled regexps, gval evaluables, apat patterns, the taxonomy,
// the aho-corasick matcher, the id set, option values such as the cut bounds, the tables of the classifier).  Per call:
// the record (a worker owns the records of its batch), the text of a non-string attribute value, the ApatSequence, the
// output slice of the slice worker.
//
// The oracle: the sequential case first (the result line, with every oracle of the grep / annot / class case).  Then, in
// a child process (a crash of the Go runtime - `fatal error: concurrent map writes` - is reported as conc.crash with the
// case line), the options are parsed again by the real parser and the predicate / slice worker / classifier is built ONCE
// by the real option-to-closure code; every record is run alone through it (these answers must be the sequential ones:
// conc.alone); the closure is built a second time (the first has seen every record) and called from g goroutines
// released together, r rounds, every goroutine on FRESH records of its own (the same content), starting elsewhere in the
// list, the annotation worker on batches of 1..21 records; every answer must be the one obtained alone (conc.differs),
// every call must return (conc.panic).  For class: r runs of `one distributor + one Value goroutine per new class`.

import (
	"bytes"
	"encoding/json"
	"fmt"
	"math/rand"
	"os"
	"os/exec"
	"path/filepath"
	"regexp"
	"runtime"
	"strconv"
	"strings"
	"sync"
	"sync/atomic"
	"time"

	"git.metabarcoding.org/obitools/obitools4/obitools4/pkg/obioptions"
	"git.metabarcoding.org/obitools/obitools4/obitools4/pkg/obiseq"
	"git.metabarcoding.org/obitools/obitools4/obitools4/pkg/obitools/obiannotate"
	"git.metabarcoding.org/obitools/obitools4/obitools4/pkg/obitools/obiconvert"
	"git.metabarcoding.org/obitools/obitools4/obitools4/pkg/obitools/obidistribute"
	"git.metabarcoding.org/obitools/obitools4/obitools4/pkg/obitools/obigrep"
)

func c16ParseConc(c string) (g, r int, inner string, ok bool) {
	f := strings.SplitN(c, " ", 4)
	if len(f) != 4 || f[0] != "conc" {
		return
	}
	g, e1 := strconv.Atoi(f[1])
	r, e2 := strconv.Atoi(f[2])
	if e1 != nil || e2 != nil || g < 1 || g > 64 || r < 1 || r > 500 || strconv.Itoa(g) != f[1] || strconv.Itoa(r) != f[2] {
		return
	}
	if !strings.HasPrefix(f[3], "grep ") && !strings.HasPrefix(f[3], "annot ") && !strings.HasPrefix(f[3], "class ") {
		return
	}
	return g, r, f[3], true
}

// ---- the concurrent engine ----

// c16Barrier: a reusable barrier for the goroutines still alive
type c16Barrier struct {
	mu      sync.Mutex
	cond    *sync.Cond
	n       int
	waiting int
	gen     int
}

func (b *c16Barrier) wait() {
	b.mu.Lock()
	b.waiting++
	if b.waiting >= b.n {
		b.waiting = 0
		b.gen++
		b.cond.Broadcast()
	} else {
		for gen := b.gen; gen == b.gen; {
			b.cond.Wait()
		}
	}
	b.mu.Unlock()
}

// leave: a goroutine that ends (normally, by a panic or by log.Fatal) no longer takes part
func (b *c16Barrier) leave() {
	b.mu.Lock()
	b.n--
	if b.n > 0 && b.waiting >= b.n {
		b.waiting = 0
		b.gen++
		b.cond.Broadcast()
	}
	b.mu.Unlock()
}

// c16Call: one call a worker goroutine makes on records of its own, the answer demanded, what it is about
type c16Call struct {
	run  func() string
	want string
	what string
}

func c16Short(s string) string {
	if len(s) > 300 {
		return s[:300] + "…"
	}
	return s
}

// c16ConcEngine: g goroutines released together, r rounds; in a round every goroutine first prepares its calls (fresh
// records), waits for the others, then makes them in a row
func c16ConcEngine(g, r int, prep func(k, rd int) []c16Call) []Fail {
	var fails []Fail
	bar := &c16Barrier{n: g}
	bar.cond = sync.NewCond(&bar.mu)
	var mu sync.Mutex
	first, firstKey := "", 1<<62
	nbad, total := 0, 0
	var announced int64
	start := make(chan struct{})
	var wg sync.WaitGroup
	for k := 0; k < g; k++ {
		wg.Add(1)
		go func(k int) {
			defer wg.Done() // also runs when log.Fatal ends the goroutine (runtime.Goexit)
			defer func() { recover() }()
			nb, nt := 0, 0
			fb, fkey := "", 1<<62
			defer func() {
				mu.Lock()
				total += nt
				nbad += nb
				if fb != "" && fkey < firstKey {
					first, firstKey = fb, fkey
				}
				mu.Unlock()
			}()
			defer bar.leave()
			<-start
			for rd := 0; rd < r; rd++ {
				calls := prep(k, rd)
				atomic.AddInt64(&announced, int64(len(calls)))
				bar.wait()
				for ci := range calls {
					got := calls[ci].run()
					nt++
					if got != calls[ci].want {
						nb++
						if fb == "" {
							fkey = rd*64 + k
							fb = fmt.Sprintf("%s in goroutine %d, round %d: alone %s, concurrently %s", calls[ci].what, k, rd, c16Short(calls[ci].want), c16Short(got))
						}
					}
				}
			}
		}(k)
	}
	done := make(chan struct{})
	go func() { wg.Wait(); close(done) }()
	close(start)
	select {
	case <-done:
	case <-time.After(120 * time.Second * watchdogScale()):
		return append(fails, Fail{"conc.hang", "the concurrent calls did not finish within the watchdog delay (hang)"})
	}
	statMu.Lock()
	stats["conc:calls"] += total
	statMu.Unlock()
	if int64(total) != announced {
		fails = append(fails, Fail{"conc.panic", fmt.Sprintf("%d of %d concurrent calls did not return (panic or log.Fatal in a worker goroutine)", announced-int64(total), announced)})
	}
	if first != "" {
		fails = append(fails, Fail{"conc.differs", fmt.Sprintf("%d of %d concurrent calls differ from the call made alone; e.g. %s", nbad, total, first)})
	}
	return fails
}

// c16Order: the places of the goroutine k in round rd: the list 0..n-1 from a place of its own (the odd goroutines
// backwards every third round), so that overlapping calls are about DIFFERENT records
func c16Order(n, g, k, rd int) []int {
	o := make([]int, n)
	if n == 0 {
		return o
	}
	off := (k*n/g + rd*13) % n
	for j := range o {
		o[j] = (off + j) % n
		if rd%3 == 2 && k%2 == 1 {
			o[j] = (off + n - j) % n
		}
	}
	return o
}

// ---- obigrep ----

func c16ConcBuildPred(sp *c16Spec) (obiseq.SequencePredicate, string) {
	if st := c16Parse(sp, false); st != "ok" {
		return nil, st
	}
	var pred obiseq.SequencePredicate
	st := guardT(c16TO, func() string {
		pred = obigrep.CLISequenceSelectionPredicate()
		if obiconvert.CLIHasPairedFile() {
			pred = pred.PairedPredicat(obigrep.CLIPairedReadMode())
		}
		return "ok"
	})
	return pred, st
}

func c16ConcGrep(g, r int, sp *c16Spec, recs []c16Pair) (string, []Fail) {
	pred, st := c16ConcBuildPred(sp)
	if st != "ok" {
		return st, nil
	}
	mk := func(i int) *obiseq.BioSequence {
		s := recs[i].r.bio()
		if recs[i].mate != nil {
			s.PairTo(recs[i].mate.bio())
		}
		return s
	}
	alone := make([]string, len(recs))
	var res strings.Builder
	res.WriteString("keep=")
	var live []int
	for i := range recs {
		v := "1"
		if pred != nil {
			s := mk(i)
			v = guardT(c16TO, func() string { return b01(pred(s)) })
			if v == "fatal" {
				v = "F"
			}
		}
		alone[i] = v
		if len(v) != 1 {
			res.WriteString("<" + v + ">")
		} else {
			res.WriteString(v)
		}
		if v == "0" || v == "1" {
			live = append(live, i)
		}
	}
	if pred == nil || len(live) == 0 {
		stat("conc:nothing-to-run")
		return res.String(), nil
	}
	if ones := strings.Count(res.String(), "1"); 10*ones >= len(live) && 10*(len(live)-ones) >= len(live) {
		stat("conc-grep:both-verdicts-over-10%")
	}
	// the concurrent phase is another run of the command: the predicate is built afresh
	pred, st = c16ConcBuildPred(sp)
	if st != "ok" || pred == nil {
		return res.String(), []Fail{{"conc.alone", "building the predicate a second time ends in " + st}}
	}
	fails := c16ConcEngine(g, r, func(k, rd int) []c16Call {
		calls := make([]c16Call, len(live))
		for j, p := range c16Order(len(live), g, k, rd) {
			i := live[p]
			s := mk(i)
			calls[j] = c16Call{run: func() string { return b01(pred(s)) }, want: alone[i], what: "record " + strconv.Itoa(i) + " (" + c16Short(recs[i].r.show()) + ")"}
		}
		return calls
	})
	return res.String(), fails
}

// ---- obiannotate ----

func c16ConcBuildAnnot(sp *c16Spec) (obiseq.SeqSliceWorker, string) {
	if st := c16Parse(sp, true); st != "ok" {
		return nil, st
	}
	var annotator obiseq.SeqSliceWorker
	st := guardT(c16TO, func() string {
		// CLIAnnotationPipeline
		predicate := obigrep.CLISequenceSelectionPredicate()
		worker := obiannotate.CLIAnnotationWorker()
		annotator = obiseq.SeqToSliceConditionalWorker(predicate, worker, false)
		return "ok"
	})
	return annotator, st
}

func c16ConcShowOut(sl obiseq.BioSequenceSlice) []string {
	out := make([]string, len(sl))
	for j, s := range sl {
		if s == nil {
			out[j] = "nil"
			continue
		}
		r := c16FromBio(s)
		out[j] = "out:" + r.show()
		for _, v := range r.attrs {
			if v.kind == 'x' {
				out[j] = "unsupported"
			}
		}
	}
	return out
}

func c16ConcAnnot(g, r int, sp *c16Spec, recs []c16Pair) (string, []Fail) {
	if !c16PatSeqOK(sp, recs) {
		return "bad-op", nil
	}
	annotator, st := c16ConcBuildAnnot(sp)
	if st != "ok" {
		return st, nil
	}
	alone := make([]string, len(recs))
	var live []int
	for i, p := range recs {
		s := p.r.bio()
		alone[i] = guardT(c16TO, func() string {
			sl, err := annotator(obiseq.BioSequenceSlice{s})
			if err != nil {
				return "error"
			}
			if len(sl) == 0 {
				return "absent"
			}
			if len(sl) > 1 {
				return "several"
			}
			return c16ConcShowOut(sl)[0]
		})
		if alone[i] == "absent" || strings.HasPrefix(alone[i], "out:") {
			live = append(live, i)
		}
	}
	res := strings.Join(alone, " ")
	if len(live) == 0 {
		stat("conc:nothing-to-run")
		return res, nil
	}
	if abs := c16Count(alone, "absent"); abs > 0 && abs < len(live) {
		stat("conc-annot:selected-and-rejected-records")
	}
	annotator, st = c16ConcBuildAnnot(sp)
	if st != "ok" {
		return res, []Fail{{"conc.alone", "building the annotation worker a second time ends in " + st}}
	}
	sizes := []int{1, 2, 3, 5, 8, 13, 21}
	fails := c16ConcEngine(g, r, func(k, rd int) []c16Call {
		bs := sizes[(k+rd)%len(sizes)]
		ord := c16Order(len(live), g, k, rd)
		var calls []c16Call
		for a := 0; a < len(ord); a += bs {
			b := a + bs
			if b > len(ord) {
				b = len(ord)
			}
			in := make(obiseq.BioSequenceSlice, 0, b-a)
			var want, ids []string
			for _, p := range ord[a:b] {
				i := live[p]
				in = append(in, recs[i].r.bio())
				ids = append(ids, strconv.Itoa(i))
				if alone[i] != "absent" {
					want = append(want, alone[i])
				}
			}
			calls = append(calls, c16Call{
				run: func() string {
					out, err := annotator(in)
					runtime.Gosched() // the consumer of the returned slice is not the next instruction: let the other workers run in between
					if err != nil {
						return "error"
					}
					return strings.Join(c16ConcShowOut(out), " ")
				},
				want: strings.Join(want, " "),
				what: "the batch of the records " + strings.Join(ids, ","),
			})
		}
		return calls
	})
	return res, fails
}

// ---- obidistribute ----

func c16ConcClass(g, r int, ws []string, recs []c16Pair) (string, []Fail) {
	k1, ok1 := c16Ascii(ws[0])
	k2, ok2 := c16Ascii(ws[1])
	na, ok3 := c16Ascii(ws[2])
	if !ok1 || !ok2 || !ok3 {
		return "bad-op", nil
	}
	// through the real option parser and CLISequenceClassifier when the three values can be written on a command line
	cli := c16ArgOK(k1) && (k2 == "" || c16ArgOK(k2)) && c16ArgOK(na)
	mk := func() *obiseq.BioSequenceClassifier {
		if !cli {
			return obiseq.DualAnnotationClassifier(k1, k2, na)
		}
		c16Reset()
		obidistribute.VerifResetOptions()
		av := []string{"verif", "-p", "x%s.fasta", "-c", k1, "--na-value", na}
		if k2 != "" {
			av = append(av, "-d", k2)
		}
		_, rest := obioptions.GenerateOptionParser(obidistribute.OptionSet)(av)
		if len(rest) != 0 {
			panic("rest")
		}
		return obidistribute.CLISequenceClassifier()
	}
	if cli {
		stat("conc-class:cli")
	}
	show := func(val string) string {
		var keys [2]string
		if err := json.Unmarshal([]byte(val), &keys); err != nil {
			return "badjson"
		}
		return hx([]byte(keys[0])) + "," + hx([]byte(keys[1]))
	}
	alone := make([]string, len(recs))
	res := guardT(c16TO, func() string {
		cl := mk()
		for i, p := range recs {
			alone[i] = show(cl.Value(cl.Code(p.r.bio())))
			if alone[i] == "badjson" {
				return "badjson"
			}
		}
		return "ok"
	})
	if res != "ok" {
		return res, nil
	}
	result := strings.Join(alone, " ")
	if len(recs) == 0 {
		return result, nil
	}
	var fails []Fail
	nbad, total, lost := 0, 0, 0
	first := ""
	out := guardT(120*time.Second, func() string {
		for rd := 0; rd < r; rd++ {
			cl := mk() // one run of the command: one classifier
			seqs := make([]*obiseq.BioSequence, len(recs))
			for i, p := range recs {
				seqs[i] = p.r.bio()
			}
			codes := make([]int, len(recs))
			var mu sync.Mutex
			vals := map[int]string{}
			var wg sync.WaitGroup
			seen := map[int]bool{}
			for i, s := range seqs { // the distributor (IBioSequence.Distribute)
				c := cl.Code(s)
				codes[i] = c
				if !seen[c] {
					seen[c] = true
					wg.Add(1)
					go func(c int) { // WriterDispatcher: one goroutine per new class asks for its value
						defer wg.Done()
						defer func() { recover() }()
						v := cl.Value(c)
						mu.Lock()
						vals[c] = v
						mu.Unlock()
					}(c)
				}
			}
			wg.Wait()
			byVal := map[string]int{}
			for i := range recs {
				total++
				v, ok := vals[codes[i]]
				got := "none"
				if ok {
					got = show(v)
				} else {
					lost++
				}
				if c, dup := byVal[got]; dup && c != codes[i] && ok {
					got += " (a second code for this class)"
				}
				byVal[got] = codes[i]
				if got != alone[i] {
					nbad++
					if first == "" {
						first = fmt.Sprintf("record %d (%s), run %d: alone %s, with the dispatcher running %s", i, c16Short(recs[i].r.show()), rd, alone[i], got)
					}
				}
			}
		}
		return "ok"
	})
	statMu.Lock()
	stats["conc:calls"] += total
	statMu.Unlock()
	if out != "ok" {
		fails = append(fails, Fail{"conc.panic", "the runs of distributor + dispatcher ended in " + out})
	}
	if lost > 0 {
		fails = append(fails, Fail{"conc.panic", fmt.Sprintf("%d of %d records: the goroutine asking for the value of their class did not return (panic or log.Fatal)", lost, total)})
	}
	if first != "" {
		fails = append(fails, Fail{"conc.differs", fmt.Sprintf("%d of %d classes differ from the class obtained alone; e.g. %s", nbad, total, first)})
	}
	_ = g
	return result, fails
}

// c16ConcRun (child process): the closure built once, every record alone, then the concurrent phase
func c16ConcRun(g, r int, inner string) (string, []Fail) {
	parts := strings.Split(inner, " | ")
	if len(parts) < 2 || len(parts) > 3 {
		return "bad-op", nil
	}
	head := strings.Fields(parts[0])
	recs, ok := c16ParseRecs(parts[1])
	if len(head) == 0 || !ok {
		return "bad-op", nil
	}
	defer func() {
		stat(fmt.Sprintf("conc:g%d", g))
		stat("conc:cases")
		stat("conc-kind:" + head[0])
	}()
	switch head[0] {
	case "grep", "annot":
		sp, ok := c16ParseSpec(head[1:])
		if !ok {
			return "bad-op", nil
		}
		sp.rawToks = head[1:]
		if sp.nosd || sp.lay != nil || sp.perm != nil {
			return "bad-op", nil
		}
		for _, n := range c16Uniq(sp.names) {
			if n != "long" {
				stat("conc-opt:" + n)
			}
		}
		if head[0] == "grep" {
			if sp.annotOnly() {
				return "bad-op", nil
			}
			for _, p := range recs {
				if (p.mate != nil) != sp.paired {
					return "bad-op", nil
				}
			}
			return c16ConcGrep(g, r, sp, recs)
		}
		if sp.paired || sp.pmSet {
			return "bad-op", nil
		}
		for _, p := range recs {
			if p.mate != nil {
				return "bad-op", nil
			}
		}
		return c16ConcAnnot(g, r, sp, recs)
	case "class":
		if len(head) != 4 || len(parts) != 2 {
			return "bad-op", nil
		}
		return c16ConcClass(g, r, head[1:], recs)
	}
	return "bad-op", nil
}

// c16ConcChild runs the conc case in a child process (this binary, exec mode); ran = false: no child could be run
func c16ConcChild(c string, race bool) (res string, fails []Fail, stderr string, ran bool) {
	bin, err := os.Executable()
	env := append(os.Environ(), "VERIF_C16_CONC=child")
	if race {
		bin = c16RaceBuild()
		env = append(env, "GORACE=halt_on_error=0")
		err = nil
		if bin == "" {
			return "", nil, "", false
		}
	}
	if err != nil {
		return "", nil, "", false
	}
	cmd := exec.Command(bin, "C16", "exec")
	cmd.Stdin = strings.NewReader(c + "\n")
	cmd.Env = env
	var so, se bytes.Buffer
	cmd.Stdout, cmd.Stderr = &so, &se
	if err := cmd.Start(); err != nil {
		return "", nil, "", false
	}
	ch := make(chan error, 1)
	go func() { ch <- cmd.Wait() }()
	select {
	case <-ch: // a -race build exits with 66 after reporting races: the C line says whether the case was run to its end
	case <-time.After(300 * time.Second * watchdogScale()):
		cmd.Process.Kill()
		<-ch
		return "", []Fail{{"conc.hang", "the process running the concurrent phase did not finish within the watchdog delay (hang)"}}, "", true
	}
	stderr = se.String()
	for _, l := range strings.Split(so.String(), "\n") {
		w := strings.Split(l, "\t")
		if w[0] == "C" && len(w) >= 3 {
			res = w[2]
		}
		if w[0] == "F" && len(w) >= 4 {
			fails = append(fails, Fail{w[1], w[3]})
		}
		if w[0] == "S" && len(w) == 3 && strings.HasPrefix(w[1], "conc") { // the statistics of the concurrent phase
			if n, err := strconv.Atoi(w[2]); err == nil {
				statMu.Lock()
				stats[w[1]] += n
				statMu.Unlock()
			}
		}
	}
	if res == "" {
		// the Go runtime ended the process: unrecoverable `fatal error:` (concurrent map read / write, …) or an unrecovered panic
		what, where := "", ""
		for _, l := range strings.Split(stderr, "\n") {
			t := strings.TrimSpace(l)
			if what == "" && (strings.HasPrefix(t, "fatal error:") || strings.HasPrefix(t, "panic:")) {
				what = t
			}
			if what != "" && where == "" && strings.Contains(t, "/pkg/") && strings.Contains(t, ".go:") {
				where = t[strings.LastIndex(t, "/pkg/")+1:]
				if k := strings.IndexByte(where, ' '); k > 0 {
					where = where[:k]
				}
			}
		}
		if what == "" { // killed from outside (memory, signal): not an observation about the code
			stat("conc:child-lost")
			return "", nil, stderr, false
		}
		fails = append(fails, Fail{"conc.crash", fmt.Sprintf("the process calling the closures from several goroutines was ended by the Go runtime: %s (at %s)", what, where)})
	}
	return res, fails, stderr, true
}

func c16ExecConc(c string) (string, []Fail) {
	race, prefix := false, ""
	if strings.HasPrefix(c, "race conc ") {
		race, c, prefix = true, strings.TrimPrefix(c, "race "), "race "
	}
	g, r, inner, ok := c16ParseConc(c)
	if !ok {
		caseTrivial = true
		return "bad-op", nil
	}
	if os.Getenv("VERIF_C16_CONC") == "child" {
		res, fails := c16ConcRun(g, r, inner)
		if c16Tmp != "" { // the scratch directory of this process (taxdump, id lists)
			os.RemoveAll(c16Tmp)
		}
		return res, fails
	}
	// every record alone, one after the other, with every oracle of the sequential case: the result line
	caseOverride = ""
	res, fails := c16{}.Exec(inner)
	if caseOverride != "" {
		caseOverride = fmt.Sprintf("%sconc %d %d %s", prefix, g, r, caseOverride)
	}
	if res == "bad-op" {
		caseTrivial = true
		return res, fails
	}
	if caseTrivial {
		return res, fails
	}
	cres, cfails, stderr, ran := c16ConcChild(c, race)
	if !ran {
		if race {
			stat("conc-race:unavailable")
			return res, fails
		}
		stat("conc:in-process")
		cres, cfails = c16ConcRun(g, r, inner)
	} else {
		stat("conc:child")
	}
	fails = append(fails, cfails...)
	if cres != "" && cres != res {
		a, b := strings.Fields(res), strings.Fields(cres)
		k := 0
		for k < len(a) && k < len(b) && a[k] == b[k] {
			k++
		}
		at := "the number of answers"
		if k < len(a) && k < len(b) {
			at = fmt.Sprintf("answer %d: %s in the sequential case, %s in the process of the concurrent phase", k+1, c16Short(a[k]), c16Short(b[k]))
		}
		fails = append(fails, Fail{"conc.alone", "the records run alone through the closure built once do not answer as the sequential case; " + at})
	}
	if race {
		stat("conc-race:replayed")
		if n, where := c16RaceReports(stderr); n > 0 {
			stat("conc-race:DATA-RACE")
			fails = append(fails, Fail{"conc.race", fmt.Sprintf("the Go race detector reports %d data race(s) in the code of the predicates / workers / classifier (at %s)", n, strings.Join(where, ", "))})
		}
	}
	return res, fails
}

// ---- race replay (thorough tier, first seed) ----

var (
	c16RaceBin  string
	c16RaceOnce sync.Once
)

func c16FirstSeed() bool {
	for i, a := range os.Args {
		if a == "-seed" && i+1 < len(os.Args) {
			s, err := strconv.Atoi(os.Args[i+1])
			return err == nil && s%1000 == 0
		}
	}
	return false
}

func c16RaceBuild() string {
	c16RaceOnce.Do(func() {
		root := os.Getenv("VERIF_ROOT")
		if root == "" {
			root = "/verif"
		}
		bin := filepath.Join(binDir(), "harness_C16_race")
		args := []string{"build", "-race", "-tags", "verif,c16", "-o", bin}
		repo := os.Getenv("VERIF_REPO")
		if repo != "" && repo != "/repo" {
			// a scratch tree is under check: the driver wrote go.alt.mod (module replaced by that tree)
			alt := filepath.Join(root, "harness", "go.alt.mod")
			if m := os.Getenv("VERIF_C16_ALTMOD"); m != "" { // a modfile of one's own (the shared one may be rewritten by a concurrent check)
				alt = m
			}
			if b, err := os.ReadFile(alt); err == nil && strings.Contains(string(b), "=> "+repo) {
				args = append(args, "-modfile", alt)
			} else {
				stat("conc-race-build:no-alt-mod")
				return
			}
		}
		build := exec.Command("go", append(args, ".")...)
		build.Dir = filepath.Join(root, "harness")
		build.Env = append(os.Environ(), "GOWORK=off", "GOFLAGS=-mod=mod", "GOPROXY=off", "GOSUMDB=off", "GOTOOLCHAIN=local", "CGO_CFLAGS=-w -O2 -g")
		if _, err := build.CombinedOutput(); err != nil {
			stat("conc-race-build:failed")
			return
		}
		stat("conc-race-build:ok")
		c16RaceBin = bin
	})
	return c16RaceBin
}

// c16RaceReports counts the reports whose racing access (first frame in /pkg/ of one of the two accesses) lies in the
// code of the predicates / workers / classifier
func c16RaceReports(stderr string) (int, []string) {
	ours := 0
	var where []string
	mine := func(t string) bool {
		if strings.Contains(t, "verif_hooks") {
			return false
		}
		for _, p := range []string{"/pkg/obiseq/", "/pkg/obitools/obigrep/", "/pkg/obitools/obiannotate/", "/pkg/obitools/obidistribute/",
			"/pkg/obiapat/", "/pkg/obicorazick/", "/pkg/obitax/", "/pkg/obiutils/"} {
			if strings.Contains(t, p) {
				return true
			}
		}
		return false
	}
	for _, block := range strings.Split(stderr, "==================") {
		if !strings.Contains(block, "WARNING: DATA RACE") {
			continue
		}
		inAccess, hit := false, false
		for _, l := range strings.Split(block, "\n") {
			t := strings.TrimSpace(l)
			switch {
			case strings.HasPrefix(t, "Read at"), strings.HasPrefix(t, "Write at"), strings.HasPrefix(t, "Previous read at"),
				strings.HasPrefix(t, "Previous write at"), strings.HasPrefix(t, "Atomic"), strings.HasPrefix(t, "Previous atomic"):
				inAccess = true
			case strings.HasPrefix(t, "Goroutine "):
				inAccess = false
			case inAccess && strings.Contains(t, ".go:"):
				// frames of the runtime / of a library (map access helpers, regexp, gval) come first: the first frame in /pkg/ is the access
				if !strings.Contains(t, "/pkg/") || strings.Contains(t, "/pkg/mod/") {
					continue
				}
				inAccess = false
				if mine(t) {
					hit = true
					loc := t[strings.LastIndex(t, "/pkg/")+1:]
					if k := strings.IndexByte(loc, ' '); k > 0 {
						loc = loc[:k]
					}
					dup := false
					for _, w := range where {
						dup = dup || w == loc
					}
					if !dup && len(where) < 4 {
						where = append(where, loc)
					}
				}
			}
		}
		if hit {
			ours++
		}
	}
	return ours, where
}

// ---- generator ----

var c16ConcFloats = []float64{0.5, 1.5, 2.25, 12.75, 100.125, -3.5, 7, 0.1, 17, 1e-05, 31.7}
var c16ConcAttrRes = []string{"7$", "^1", "^[0-9]+$", "true", "[.]", "^-?[0-9]", "[02468]$", "e", "^[a-zA-Z]", "1", "^.$", "5"}
var c16ConcStrs = []string{"seq1", "true", "12", "acg", "A", "x y", "", "B", "s1", "s27", "17", "wolf", "7", "1.5"}

func c16ConcVal(rng *rand.Rand, key string) c16Val {
	switch key {
	case "count":
		switch rng.Intn(10) {
		case 0:
			return c16Val{kind: 's', s: []string{"3", "17"}[rng.Intn(2)]}
		case 1:
			return c16Val{kind: 'b', b: rng.Intn(2) == 0}
		case 2:
			return c16Val{kind: 'i', n: 100 + rng.Intn(5000)}
		}
		return c16Val{kind: 'i', n: rng.Intn(40)}
	case "taxid", "taxref":
		if key == "taxid" && rng.Intn(10) == 0 {
			return c16Val{kind: 's', s: "12"}
		}
		return c16Val{kind: 'i', n: c16Taxids[rng.Intn(len(c16Taxids))]}
	case "definition":
		return c16Val{kind: 's', s: []string{"wolf sample", "x", "seq1 again", "Canis lupus A", "read 17 of A", ""}[rng.Intn(6)]}
	case "sample":
		return c16Val{kind: 's', s: []string{"A", "B", "s1", "A", "s27", "s17"}[rng.Intn(6)]}
	case "seq_length":
		return c16Val{kind: 'i', n: rng.Intn(60)}
	case "merged_taxid":
		m := map[string]int{}
		for k := 1 + rng.Intn(3); k > 0; k-- {
			m[strconv.Itoa([]int{12, 13, 21, 31, 11, 10, 2}[rng.Intn(7)])] = 1 + rng.Intn(3)
		}
		return c16Val{kind: 'm', s: c16MapText(m)}
	}
	switch rng.Intn(20) {
	case 0, 1, 2, 3, 4, 5:
		return c16Val{kind: 'i', n: rng.Intn(230) - 30}
	case 6, 7, 8, 9:
		return c16FromGo(c16ConcFloats[rng.Intn(len(c16ConcFloats))])
	case 10, 11, 12:
		return c16Val{kind: 'b', b: rng.Intn(2) == 0}
	}
	return c16Val{kind: 's', s: c16ConcStrs[rng.Intn(len(c16ConcStrs))]}
}

// records of mixed attribute types: ints, floats, booleans, strings, statistics maps
func c16ConcRec(rng *rand.Rand, id string, acgt, tax bool) c16Rec {
	n := rng.Intn(50)
	if rng.Intn(15) == 0 {
		n = 0
	}
	if acgt && n < 4 {
		n = 4 + rng.Intn(20)
	}
	r := c16Rec{id: id, seq: make([]byte, n), attrs: map[string]c16Val{}}
	for i := range r.seq {
		r.seq[i] = "acgt"[rng.Intn(4)]
	}
	if rng.Intn(25) == 0 && !tax {
		return r
	}
	for _, k := range c16Keys {
		if rng.Intn(100) < 45 {
			r.attrs[k] = c16ConcVal(rng, k)
		}
	}
	if rng.Intn(6) == 0 {
		r.attrs["merged_taxid"] = c16ConcVal(rng, "merged_taxid")
	}
	if tax && rng.Intn(12) != 0 {
		if _, ok := r.attrs["merged_taxid"]; !ok {
			r.attrs["taxid"] = c16Val{kind: 'i', n: []int{12, 13, 21, 31, 11, 10, 2, 1}[rng.Intn(8)]}
		}
	}
	return r
}

func c16ConcRecs(rng *rand.Rand, n int, paired, acgt, tax bool) []c16Pair {
	ps := make([]c16Pair, n)
	for i := range ps {
		id := fmt.Sprintf("%s_%d", c16Ids[rng.Intn(len(c16Ids))], i)
		ps[i].r = c16ConcRec(rng, id, acgt, tax)
		if paired {
			m := c16ConcRec(rng, id+"m", acgt, tax)
			ps[i].mate = &m
		}
	}
	return ps
}

// one option of the kind, on values the records of the case hold
func c16ConcOpt(rng *rand.Rand, kind string, recs []c16Pair) []string {
	pick := func(l []string) string { return l[rng.Intn(len(l))] }
	switch kind {
	case "long":
		return []string{"long"}
	case "a": // attribute regexps on keys holding non-string values (never the statistics map)
		// the verdict must depend on the value: among the records holding a non-string value under the key, 25..75% match
		k1, re1 := "", ""
		for try := 0; try < 40; try++ {
			k1, re1 = pick([]string{"count", "k", "a", "seq_length"}), pick(c16ConcAttrRes)
			rx := regexp.MustCompile(re1)
			n, m := 0, 0
			for _, p := range recs {
				if v, ok := p.r.attrs[k1]; ok && v.kind != 's' {
					n++
					if rx.MatchString(v.shown()) {
						m++
					}
				}
			}
			if n > 0 && 4*m >= n && 4*m <= 3*n {
				break
			}
		}
		out := []string{"a=" + hs(k1) + ":" + hs(re1)}
		if rng.Intn(2) == 0 {
			k2 := pick([]string{"b", "c", "taxid", "sample"})
			out = append(out, "a="+hs(k2)+":"+hs(pick([]string{"1", "^[0-9tf]", ".", "[a-z0-9]$", "2|5|A"})))
		}
		return out
	case "idl":
		var ids []string
		for _, p := range recs {
			if rng.Intn(5) < 3 {
				ids = append(ids, hs(p.r.id))
			}
		}
		if len(ids) == 0 {
			return []string{"idl=-"}
		}
		return []string{"idl=" + strings.Join(ids, ",")}
	case "I":
		return []string{"I=" + hs(pick([]string{"^seq", "[0-4]$", "_1", "A|b", "^(seq1|x|R)", "[13579]$"}))}
	case "s":
		return []string{"s=" + hs(pick([]string{"ACG", "^a", "tt+", "g$", "c.t", "[ag]{3}", "T.*A", "^[acgt]{10,}$"}))}
	case "p":
		return []string{"p=" + hs(pick([]string{"sequence.Len()>=20", `contains(annotations,"k")`, "len(sequence)<30", "sequence.Len()%2==0",
			`sequence.Id()!="x"&&sequence.Len()>5`, "true"}))}
	case "l", "L":
		return []string{fmt.Sprintf("%s=%d", kind, 10+rng.Intn(30))}
	case "c":
		return []string{fmt.Sprintf("c=%d", 2+rng.Intn(10))}
	case "C":
		return []string{fmt.Sprintf("C=%d", 15+rng.Intn(30))}
	case "tag":
		out := []string{"tag=" + hs("t1") + ":" + hs(pick([]string{"sequence.Len()*2", `printf("%s_x",sequence.Id())`, "sequence.Id()", "sequence.Len()"}))}
		if rng.Intn(2) == 0 {
			out = append(out, "tag="+hs("t2")+":"+hs(pick([]string{"annotations.t1", `printf("%v-%d",annotations.t1,sequence.Len())`, "sequence.Len()+1", `"7"`})))
		}
		return out
	case "setid":
		return []string{"setid=" + hs(pick([]string{`printf("%s_x",sequence.Id())`, `printf("%s_%d",sequence.Id(),sequence.Len())`}))}
	case "cut":
		return []string{fmt.Sprintf("cut=%d:%d", pick2(rng, 0, 1, 2, 3, 5), pick2(rng, -1, -2, -4, 12, 25, 40))}
	}
	return c16Opt(rng, kind, recs)
}

func pick2(rng *rand.Rand, l ...int) int { return l[rng.Intn(len(l))] }

func c16GenConc(rng *rand.Rand, tier string, emit func(string)) {
	type spec struct {
		op     string
		kinds  []string // option kinds, all of them
		some   []string // option kinds, nsome of them
		nsome  int
		n      int
		g, r   int
		paired bool
		bare   bool // records without attributes (cheap calls: many more of them overlap)
	}
	sel := []string{"s", "I", "idl", "l", "L", "c", "C", "A", "D"}
	edits := []string{"setid", "ren", "del", "len", "keep", "clear"}
	taxw := []string{"atrank", "path", "trank", "sci", "lca"}
	// every family of closures in every run: attribute regexps, expressions, the other selection criteria, approximate
	// pattern + taxonomy (paired), edit workers with expressions and --cut, library workers, the classifier
	specs := []spec{
		{op: "grep", kinds: []string{"a"}, some: []string{"v", "long", "C"}, nsome: 1, n: 160, g: 8, r: 100},
		{op: "grep", kinds: []string{"p"}, some: sel, nsome: 2, n: 160, g: 8, r: 25},
		{op: "grep", kinds: []string{"ap"}, some: []string{"r", "i", "rank", "A", "a"}, nsome: 1, n: 90, g: 8, r: 15, paired: true},
		{op: "annot", kinds: []string{"a", "tag", "cut"}, some: edits, nsome: 2, n: 140, g: 8, r: 20},
		{op: "annot", kinds: []string{"pat", "aho"}, some: taxw, nsome: 2, n: 110, g: 8, r: 12},
		{op: "annot", kinds: []string{"cut"}, some: []string{"len", "l"}, nsome: 1, n: 200, g: 8, r: 250, bare: true},
		{op: "class", n: 200, g: 8, r: 30},
	}
	if tier == "thorough" {
		specs = []spec{
			{op: "grep", kinds: []string{"a"}, some: []string{"v", "long", "C"}, nsome: 1, n: 300, g: 16, r: 60},
			{op: "grep", kinds: []string{"a"}, some: []string{"p", "s", "A"}, nsome: 1, n: 250, g: 12, r: 40, paired: true},
			{op: "grep", kinds: []string{"p"}, some: sel, nsome: 2, n: 300, g: 16, r: 40},
			{op: "grep", some: sel, nsome: 3, n: 300, g: 16, r: 40},
			{op: "grep", some: append([]string{"p", "a", "v"}, sel...), nsome: 3, n: 200, g: 8, r: 40, paired: true},
			{op: "grep", kinds: []string{"ap"}, some: []string{"r", "i", "rank", "A", "a"}, nsome: 1, n: 200, g: 16, r: 25, paired: true},
			{op: "grep", kinds: []string{"ap"}, some: []string{"v", "l", "s"}, nsome: 1, n: 250, g: 16, r: 25},
			{op: "grep", kinds: []string{"r"}, some: []string{"i", "rank", "idl", "I"}, nsome: 2, n: 250, g: 16, r: 30},
			{op: "annot", kinds: []string{"a", "tag", "cut"}, some: edits, nsome: 2, n: 250, g: 16, r: 30},
			{op: "annot", kinds: []string{"cut"}, some: []string{"len", "tag", "p", "l"}, nsome: 2, n: 250, g: 16, r: 30},
			{op: "annot", kinds: []string{"cut"}, some: []string{"len", "l"}, nsome: 1, n: 300, g: 16, r: 400, bare: true},
			{op: "annot", kinds: []string{"tag", "setid"}, some: append([]string{"p", "c"}, edits...), nsome: 3, n: 250, g: 12, r: 30},
			{op: "annot", kinds: []string{"pat", "aho"}, some: taxw, nsome: 2, n: 220, g: 16, r: 20},
			{op: "annot", kinds: []string{"pat"}, some: []string{"cut", "len", "c", "a", "keep"}, nsome: 2, n: 220, g: 16, r: 20},
			{op: "annot", kinds: []string{"lca"}, some: []string{"atrank", "sci", "path", "trank", "keep", "A"}, nsome: 3, n: 220, g: 16, r: 20},
			{op: "class", n: 400, g: 8, r: 40},
			{op: "class", n: 250, g: 8, r: 60},
		}
	}
	// the share of the records the selection options accept, by the reference interpreter (percent; -1: not a valid case)
	accepted := func(toks []string, recs []c16Pair) int {
		sp, ok := c16ParseSpec(toks)
		if !ok || len(recs) == 0 {
			return -1
		}
		tab := &c16Table{}
		acc := 0
		for _, p := range recs {
			if a, _ := c16Selects(sp, p, tab); a == "1" {
				acc++
			}
		}
		return 100 * acc / len(recs)
	}
	var lines []string
	for _, s := range specs {
		var l string
		if s.op == "class" {
			recs := c16ConcRecs(rng, s.n, false, false, false)
			k2 := "-"
			if rng.Intn(2) == 0 {
				k2 = hs([]string{"sample", "b", "taxid"}[rng.Intn(3)])
			}
			l = fmt.Sprintf("conc %d %d class %s %s %s | %s", s.g, s.r, hs([]string{"count", "k", "a", "c", "seq_length"}[rng.Intn(5)]), k2,
				hs([]string{"NA", "none", "x"}[rng.Intn(3)]), c16ShowRecs(recs))
		} else {
			// few criteria per case: in the And-chain a criterion is only asked about the records the previous ones accept
			kinds := append([]string{}, s.kinds...)
			for _, j := range rng.Perm(len(s.some))[:s.nsome] {
				kinds = append(kinds, s.some[j])
			}
			has := func(k string) bool {
				for _, x := range kinds {
					if x == k {
						return true
					}
				}
				return false
			}
			recs := c16ConcRecs(rng, s.n, s.paired, has("pat") || has("ap"), has("lca"))
			if s.bare {
				for j := range recs {
					recs[j].r.attrs = map[string]c16Val{}
				}
			}
			lo, hi := 20, 80
			if s.op == "annot" {
				lo, hi = 35, 100
			}
			var toks, best []string
			bestDist := 1000
			for try := 0; try < 12; try++ {
				toks = nil
				if s.paired {
					toks = append(toks, "paired", "pm="+hs(c16Modes[rng.Intn(6)]))
				}
				for _, k := range kinds {
					toks = append(toks, c16ConcOpt(rng, k, recs)...)
				}
				if rng.Intn(3) == 0 && !has("long") {
					toks = append(toks, "long")
				}
				a := accepted(toks, recs)
				if a >= lo && a <= hi {
					stat("gen:conc-balanced")
					best = toks
					break
				}
				if d := a - (lo+hi)/2; a >= 0 && d*d < bestDist*bestDist { // no balanced draw: the closest one
					best, bestDist = toks, d
				}
			}
			if best != nil {
				toks = best
			}
			l = fmt.Sprintf("conc %d %d %s", s.g, s.r, strings.TrimSpace(s.op+" "+strings.Join(toks, " "))+" | "+c16ShowRecs(recs))
		}
		lines = append(lines, l)
		emit(l)
		stat("gen:conc")
	}
	if tier == "thorough" && c16FirstSeed() {
		// under the race detector (slow: few goroutines and rounds)
		for _, i := range []int{0, 2, 5, 8, 10, 12, 15} {
			f := strings.SplitN(lines[i], " ", 4)
			emit("race conc 6 3 " + f[3])
			stat("gen:conc-race")
		}
	}
}
