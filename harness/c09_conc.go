//go:build c09

package main

// conc — the kernels under concurrent use.
//
// Who calls them in parallel, and what is shared (read in the commands):
//   - obiclean/graph.go buildSamplePairs: `workers` goroutines, D1Or0(son, father) on the SAME slice of sequences
//     (a father is read by all workers at once); extendSimilarityGraph: D1Or0 then FastLCSScore(son, father, step,
//     matrix) with ONE `var matrix []uint64` per goroutine, kept for the whole life of the worker;
//   - obitag / obitag2 FindClosests, obirefidx IndexSequence: one call per query from the parallel batch workers,
//     one `var matrix []uint64` per call, the reference sequences shared by all the workers;
//   - obilandmark MapOnLandmarkSequences: one `buffer := make([]uint64, 1000)` per goroutine, the library shared;
//     obigeomtag: the buffer handed to the worker;
//   - obiconsensus (buildSamplePairs-like loop), obicleandb, obirefidx family indexing: FastLCSScore(.., nil) - the
//     kernel allocates its own scratch - from parallel workers.
//
// So: shared = the BioSequence objects (read only) and the package-level tables of pkg/obialign (_iupac, _empty,
// _out, _notavail); per goroutine (or per call) = the scratch buffer; per call = everything else (the band geometry,
// pend / end of the end-gap-free mode, the indices of D1Or0).
//
//	conc <g> <r> <n>  n × [ <kind> <buf> <e> <A> <B> ]    -> <answer of sub-case 1> ; <answer of sub-case 2> ; ...
//
//	kind = lcs  FastLCSScore(A, B, e, buffer)      answer "score length"
//	       egf  FastLCSEGFScore(A, B, e, buffer)   answer "score length end"
//	       d1   D1Or0(A, B)  (buf = -, e = 0)      answer "verdict pos a1 a2"
//	buf  = w : the scratch buffer of the worker (one per goroutine, kept across all its calls, as in obiclean);
//	       n : nil (the kernel allocates, as obiconsensus / obicleandb / obirefidx do)
//
// The result line is what the n calls answer one after the other on fresh buffers (the model recomputes it with the
// sequential model: fastLCSEGFScoreByte / d1or0); the oracle then builds the BioSequence objects ONCE, runs the same n
// calls from g goroutines released together, r rounds, every goroutine starting at another sub-case, and demands the
// same answer from every call: a call shares no state with a call of another goroutine.
//
//	race <conc case>   (thorough tier, first seed) the same case replayed through a `go build -race` build of this
//	                   harness: a report of the race detector whose racing access lies in pkg/obialign is a failure.

import (
	"bytes"
	"fmt"
	"math/rand"
	"os"
	"os/exec"
	"path/filepath"
	"strconv"
	"strings"
	"sync"
	"time"

	"git.metabarcoding.org/obitools/obitools4/obitools4/pkg/obialign"
	"git.metabarcoding.org/obitools/obitools4/obitools4/pkg/obiseq"
)

type c09Sub struct {
	kind string // lcs | egf | d1
	nilb bool   // buffer = nil (else the worker's own)
	e    int
	a, b []byte
}

func (s c09Sub) String() string {
	short := func(x []byte) string {
		if len(x) > 24 {
			return fmt.Sprintf("%q…(%d bases)", x[:24], len(x))
		}
		return fmt.Sprintf("%q", x)
	}
	buf := "worker buffer"
	if s.nilb {
		buf = "nil buffer"
	}
	if s.kind == "d1" {
		return fmt.Sprintf("D1Or0 A=%s B=%s", short(s.a), short(s.b))
	}
	return fmt.Sprintf("%s A=%s B=%s e=%d %s", map[string]string{"lcs": "FastLCSScore", "egf": "FastLCSEGFScore"}[s.kind], short(s.a), short(s.b), s.e, buf)
}

func c09NoUpper(s []byte) bool {
	for _, c := range s {
		if c >= 'A' && c <= 'Z' {
			return false
		}
	}
	return true
}

func c09ParseConc(f []string) (g, r int, subs []c09Sub, ok bool) {
	if len(f) < 4 {
		return
	}
	g, e1 := strconv.Atoi(f[1])
	r, e2 := strconv.Atoi(f[2])
	n, e3 := strconv.Atoi(f[3])
	if e1 != nil || e2 != nil || e3 != nil || g < 1 || g > 64 || r < 1 || r > 200 || n < 1 || n > 32 || len(f) != 4+5*n {
		return
	}
	for i := 0; i < n; i++ {
		w := f[4+5*i : 9+5*i]
		e, e4 := strconv.Atoi(w[2])
		a, ok1 := unhx(w[3])
		b, ok2 := unhx(w[4])
		// the BioSequence stores the lower-cased sequence: the case line carries the stored bytes
		if e4 != nil || !ok1 || !ok2 || !c09NoUpper(a) || !c09NoUpper(b) || len(a) > 40000 || len(b) > 40000 {
			return
		}
		switch w[0] {
		case "lcs", "egf":
			if (w[1] != "w" && w[1] != "n") || e < -1 || e > 100000 {
				return
			}
		case "d1":
			if w[1] != "-" || e != 0 {
				return
			}
		default:
			return
		}
		subs = append(subs, c09Sub{w[0], w[1] == "n", e, a, b})
	}
	return g, r, subs, true
}

func c09ExecConc(f []string) (string, []Fail) {
	g, r, subs, ok := c09ParseConc(f)
	if !ok {
		return "bad-op", nil
	}
	var fails []Fail
	res := guardT(120*time.Second, func() string {
		// the shared objects: built once, read by every goroutine
		sa := make([]*obiseq.BioSequence, len(subs))
		sb := make([]*obiseq.BioSequence, len(subs))
		for i, s := range subs {
			sa[i] = obiseq.NewBioSequence(fmt.Sprintf("a%d", i), append([]byte{}, s.a...), "")
			sb[i] = obiseq.NewBioSequence(fmt.Sprintf("b%d", i), append([]byte{}, s.b...), "")
			if !bytes.Equal(sa[i].Sequence(), s.a) || !bytes.Equal(sb[i].Sequence(), s.b) {
				return "bad-op" // not the stored form
			}
		}
		call := func(i int, own *[]uint64) (out string) {
			defer func() {
				if rec := recover(); rec != nil {
					if _, isFatal := rec.(fatalExit); isFatal {
						out = "fatal"
					} else {
						out = "panic: " + fmt.Sprint(rec)
					}
				}
			}()
			s := subs[i]
			buf := own
			if s.nilb {
				buf = nil
			}
			switch s.kind {
			case "lcs":
				sc, l := obialign.FastLCSScore(sa[i], sb[i], s.e, buf)
				return fmt.Sprintf("%d %d", sc, l)
			case "egf":
				sc, l, end := obialign.FastLCSEGFScore(sa[i], sb[i], s.e, buf)
				return fmt.Sprintf("%d %d %d", sc, l, end)
			default:
				v, pos, a1, a2 := obialign.D1Or0(sa[i], sb[i])
				return fmt.Sprintf("%d %d %d %d", v, pos, a1, a2)
			}
		}
		alone := make([]string, len(subs))
		for i := range subs {
			alone[i] = call(i, nil)
			if strings.HasPrefix(alone[i], "panic") || alone[i] == "fatal" {
				fails = append(fails, Fail{"conc.alone-panic", fmt.Sprintf("sub-case %d (%s) run alone: %s", i, subs[i], alone[i])})
				alone[i] = "panic"
			}
		}
		// the same calls, from g goroutines released together; goroutine k starts at sub-case k
		type bad struct {
			i, k, round int
			got         string
		}
		var mu sync.Mutex
		var first *bad
		nbad, npanic, total := 0, 0, 0
		kinds := map[string]int{}
		start := make(chan struct{})
		var wg sync.WaitGroup
		for k := 0; k < g; k++ {
			wg.Add(1)
			go func(k int) {
				defer wg.Done()
				var matrix []uint64 // the scratch of this worker, kept across its calls
				<-start
				for round := 0; round < r; round++ {
					for j := range subs {
						i := (j + k + round*3) % len(subs)
						got := call(i, &matrix)
						mu.Lock()
						total++
						if got != alone[i] {
							nbad++
							if got == "fatal" || strings.HasPrefix(got, "panic") {
								npanic++
							}
							kinds[subs[i].kind]++
							if first == nil {
								first = &bad{i, k, round, got}
							}
						}
						mu.Unlock()
					}
				}
			}(k)
		}
		t0 := time.Now()
		close(start)
		wg.Wait()
		el := time.Since(t0)
		stat(fmt.Sprintf("conc:g%d r%d", g, r))
		stat(fmt.Sprintf("conc:sub-cases-%d", len(subs)))
		for _, s := range subs {
			b := ""
			if s.kind != "d1" {
				b = map[bool]string{true: " nil buffer", false: " worker buffer"}[s.nilb]
				if s.e == -1 {
					b += " no bound"
				}
			}
			stat("conc:sub " + s.kind + b)
		}
		switch {
		case el < 5*time.Millisecond:
			stat("conc:overlap-window < 5 ms")
		case el < 50*time.Millisecond:
			stat("conc:overlap-window 5..50 ms")
		default:
			stat("conc:overlap-window >= 50 ms")
		}
		// the shared sequences must come out as they went in
		for i, s := range subs {
			if !bytes.Equal(sa[i].Sequence(), s.a) || !bytes.Equal(sb[i].Sequence(), s.b) {
				fails = append(fails, Fail{"conc.input-modified", fmt.Sprintf("sub-case %d (%s): a shared sequence was modified by the calls", i, s)})
				break
			}
		}
		if total != g*r*len(subs) {
			fails = append(fails, Fail{"conc.panic", fmt.Sprintf("%d of %d concurrent calls did not finish", g*r*len(subs)-total, g*r*len(subs))})
		}
		if first != nil {
			sig := "conc.differs"
			if first.got == "fatal" || strings.HasPrefix(first.got, "panic") {
				sig = "conc.panic"
			}
			fails = append(fails, Fail{sig, fmt.Sprintf(
				"%d of %d concurrent calls (%d goroutines, %d rounds) differ from the same call run alone (%d panics; by kind %v); e.g. sub-case %d (%s) in goroutine %d round %d: alone %q, concurrently %q",
				nbad, total, g, r, npanic, kinds, first.i, subs[first.i], first.k, first.round, alone[first.i], first.got)})
		}
		return strings.Join(alone, " ; ")
	})
	return res, fails
}

// c09GenConc — called LAST by Gen. Every case mixes: bounded FastLCSScore on the worker buffer (obiclean / obitag:
// long sequences, narrow band), FastLCSScore with nil buffer (obiconsensus / obicleandb), one or two calls without
// bound (obilandmark / obigeomtag: the whole matrix), FastLCSEGFScore with a real overhang (end > 0) on both kinds
// of buffer, D1Or0 on long sequences whose difference sits in the middle (both scans run far), IUPAC codes in some.
func c09GenConc(rng *rand.Rand, tier string, emit func(string)) {
	ncase, g, r, scale := 4, 8, 6, 1
	if tier == "thorough" {
		ncase, g, r, scale = 10, 16, 10, 2
	}
	hexsub := func(kind, buf string, e int, a, b []byte) string {
		return fmt.Sprintf(" %s %s %d %s %s", kind, buf, e, hx(a), hx(b))
	}
	for c := 0; c < ncase; c++ {
		var subs []string
		iu := []int{0, 0, 20, 8}[rng.Intn(4)]
		// bounded, worker buffer / nil buffer, alternately; different lengths and bounds so that the bands differ
		nb := 4 + rng.Intn(3)
		for i := 0; i < nb; i++ {
			la := scale * (800 + rng.Intn(2400))
			e := 1 + rng.Intn(14)
			a := c09RandSeq(rng, la, iu)
			k := rng.Intn(e + 3) // within and beyond the bound
			b := c09Mutate(rng, a, k, iu)
			if rng.Intn(2) == 0 {
				a, b = b, a
			}
			subs = append(subs, hexsub("lcs", []string{"w", "n"}[i%2], e, a, b))
		}
		// no bound: the whole matrix
		nu := 1 + rng.Intn(2)
		for i := 0; i < nu; i++ {
			la := 150 + rng.Intn(200*scale)
			a := c09RandSeq(rng, la, iu)
			var b []byte
			if rng.Intn(2) == 0 {
				b = c09Mutate(rng, a, rng.Intn(30), iu)
			} else {
				b = c09RandSeq(rng, 100+rng.Intn(200), iu)
			}
			subs = append(subs, hexsub("lcs", []string{"n", "w"}[(i+c)%2], -1, a, b))
		}
		// end-gap-free: the shorter sequence is an edited factor of the longer one: free overhangs, end > 0
		ne := 2 + rng.Intn(2)
		for i := 0; i < ne; i++ {
			la := scale * (300 + rng.Intn(900))
			a := c09RandSeq(rng, la, iu)
			lo := rng.Intn(40)
			hi := la - rng.Intn(40)
			e := 1 + rng.Intn(8)
			b := c09Mutate(rng, a[lo:hi], rng.Intn(e+2), iu)
			if i == ne-1 && rng.Intn(2) == 0 {
				e = -1
				a = a[:200+rng.Intn(100)]
				b = c09Mutate(rng, a[rng.Intn(30):len(a)-rng.Intn(30)], rng.Intn(6), iu)
			}
			if rng.Intn(2) == 0 {
				a, b = b, a
			}
			subs = append(subs, hexsub("egf", []string{"n", "w"}[i%2], e, a, b))
		}
		// D1Or0: long, the difference in the middle (or none, or two)
		nd := 2 + rng.Intn(2)
		for i := 0; i < nd; i++ {
			la := scale * (4000 + rng.Intn(12000))
			a := c09RandSeq(rng, la, 0)
			b := append([]byte{}, a...)
			p := la/3 + rng.Intn(la/3)
			switch rng.Intn(5) {
			case 0: // substitution
				b[p] = "acgt"[(strings.IndexByte("acgt", b[p])+1+rng.Intn(3))%4]
			case 1: // insertion
				b = append(b[:p], append([]byte{"acgt"[rng.Intn(4)]}, b[p:]...)...)
			case 2: // deletion
				b = append(b[:p], b[p+1:]...)
			case 3: // two differences far apart
				b[p] = "acgt"[(strings.IndexByte("acgt", b[p])+1)%4]
				q := p / 2
				b[q] = "acgt"[(strings.IndexByte("acgt", b[q])+1)%4]
			default: // identical
			}
			if rng.Intn(2) == 0 {
				a, b = b, a
			}
			subs = append(subs, hexsub("d1", "-", 0, a, b))
		}
		rng.Shuffle(len(subs), func(i, j int) { subs[i], subs[j] = subs[j], subs[i] })
		line := fmt.Sprintf("conc %d %d %d%s", g, r, len(subs), strings.Join(subs, ""))
		emit(line)
		stat("gen:conc")
		if tier == "thorough" && c < 3 && c09FirstSeed() {
			emit("race " + line)
			stat("gen:race-replay")
		}
	}
}

// ---- replay under the race detector (thorough, first seed) ------------------------------------------------------

var (
	c09RaceBin   string
	c09RaceTried bool
)

func c09FirstSeed() bool {
	for i, a := range os.Args {
		if a == "-seed" && i+1 < len(os.Args) {
			s, err := strconv.Atoi(os.Args[i+1])
			return err == nil && s%1000 == 0
		}
	}
	return false
}

func c09RaceBuild() string {
	if c09RaceTried {
		return c09RaceBin
	}
	c09RaceTried = true
	root := os.Getenv("VERIF_ROOT")
	if root == "" {
		root = "/verif"
	}
	repo := os.Getenv("VERIF_REPO")
	if repo == "" {
		repo = "/repo"
	}
	bin := filepath.Join(binDir(), "harness_C09_race")
	args := []string{"build", "-race", "-tags", "verif,c09", "-o", bin}
	if repo != "/repo" {
		// a scratch tree is under check: the driver wrote go.alt.mod (module replaced by that tree)
		alt := filepath.Join(root, "harness", "go.alt.mod")
		if b, err := os.ReadFile(alt); err == nil && strings.Contains(string(b), "=> "+repo) {
			args = append(args, "-modfile", alt)
		} else {
			stat("race-build:no-alt-mod")
			return ""
		}
	}
	build := exec.Command("go", append(args, ".")...)
	build.Dir = filepath.Join(root, "harness")
	build.Env = append(os.Environ(), "GOWORK=off", "GOFLAGS=-mod=mod", "GOPROXY=off", "GOSUMDB=off", "GOTOOLCHAIN=local", "CGO_CFLAGS=-w -O2 -g")
	if _, err := build.CombinedOutput(); err != nil {
		stat("race-build:failed")
		return ""
	}
	stat("race-build:ok")
	c09RaceBin = bin
	return bin
}

func c09Race(inner string) (string, []Fail) {
	if os.Getenv("VERIF_C09_RACE") != "" { // we ARE the race-built binary
		return c09{}.Exec(inner)
	}
	bin := c09RaceBuild()
	if bin == "" {
		stat("race:unavailable")
		return c09{}.Exec(inner)
	}
	cmd := exec.Command(bin, "C09", "exec")
	cmd.Stdin = strings.NewReader(inner + "\n")
	cmd.Env = append(os.Environ(), "VERIF_C09_RACE=1", "GORACE=halt_on_error=0")
	var stdout, stderr bytes.Buffer
	cmd.Stderr = &stderr
	cmd.Stdout = &stdout
	_ = cmd.Run()
	res := "race-replay-failed"
	var fails []Fail
	for _, l := range strings.Split(stdout.String(), "\n") {
		f := strings.Split(l, "\t")
		if f[0] == "C" && len(f) >= 3 {
			res = f[2]
		}
		if f[0] == "F" && len(f) >= 4 {
			fails = append(fails, Fail{f[1], f[3]})
		}
	}
	stat("race-replay:done")
	// a report concerns this property when one of the two racing ACCESSES (innermost frame) lies in pkg/obialign
	ours, other := 0, 0
	var where []string
	for _, block := range strings.Split(stderr.String(), "==================") {
		if !strings.Contains(block, "WARNING: DATA RACE") {
			continue
		}
		inAccess, mine := false, false
		for _, l := range strings.Split(block, "\n") {
			t := strings.TrimSpace(l)
			switch {
			case strings.HasPrefix(t, "Read at"), strings.HasPrefix(t, "Write at"), strings.HasPrefix(t, "Previous read at"),
				strings.HasPrefix(t, "Previous write at"), strings.HasPrefix(t, "Atomic"), strings.HasPrefix(t, "Previous atomic"):
				inAccess = true
			case strings.HasPrefix(t, "Goroutine "):
				inAccess = false
			case inAccess && strings.Contains(t, ".go:"):
				inAccess = false
				if strings.Contains(t, "/pkg/obialign/") && !strings.Contains(t, "verif_hooks") {
					mine = true
					loc := t[strings.LastIndex(t, "/pkg/")+1:]
					if k := strings.IndexByte(loc, ' '); k > 0 {
						loc = loc[:k]
					}
					dup := false
					for _, w := range where {
						dup = dup || w == loc
					}
					if !dup && len(where) < 4 {
						where = append(where, loc)
					}
				}
			}
		}
		if mine {
			ours++
		} else {
			other++
		}
	}
	if other > 0 {
		stat("race-replay:race-elsewhere")
	}
	if ours > 0 {
		fails = append(fails, Fail{"race.detector", fmt.Sprintf("the Go race detector reports %d data race(s) in pkg/obialign (at %s)", ours, strings.Join(where, ", "))})
		stat("race-replay:DATA-RACE")
	} else {
		stat("race-replay:no race in pkg/obialign")
	}
	return res, fails
}
