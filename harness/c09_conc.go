//go:build c09

package main

// conc — the kernels under concurrent use.
//
// Who calls them in parallel, and what is shared (read in the commands):
//   - obiclean/graph.go buildSamplePairs: `workers` goroutines, D1Or0(son, father) on the SAME slice of sequences
//     (a father is read by all workers at once); extendSimilarityGraph: D1Or0 then FastLCSScore(son, father, step,
//     matrix) with ONE `var matrix []uint64` per goroutine, kept for the whole life of the worker;
//   - obitag / obitag2 FindClosests, obirefidx IndexSequence: one call per query from the parallel batch workers,
//     one `var matrix []uint64` per call, the reference sequences shared by all the workers;
//   - obilandmark MapOnLandmarkSequences: one `buffer := make([]uint64, 1000)` per goroutine, the library shared;
//     obigeomtag: the buffer handed to the worker;
//   - obiconsensus (buildSamplePairs-like loop), obicleandb, obirefidx family indexing: FastLCSScore(.., nil) - the
//     kernel allocates its own scratch - from parallel workers.
//
// So: shared = the BioSequence objects (read only) and the package-level tables of pkg/obialign (_iupac, _empty,
// _out, _notavail); per goroutine (or per call) = the scratch buffer; per call = everything else (the band geometry,
// pend / end of the end-gap-free mode, the indices of D1Or0).
//
//	conc <g> <r> <n>  n × [ <kind> <buf> <e> <A> <B> ]    -> <answer of sub-case 1> ; <answer of sub-case 2> ; ...
//
//	kind = lcs  FastLCSScore(A, B, e, buffer)      answer "score length"
//	       egf  FastLCSEGFScore(A, B, e, buffer)   answer "score length end"
//	       d1   D1Or0(A, B)  (buf = -, e = 0)      answer "verdict pos a1 a2"
//	buf  = w : the scratch buffer of the worker (one per goroutine, kept across all its calls, as in obiclean);
//	       n : nil (the kernel allocates, as obiconsensus / obicleandb / obirefidx do)
//
// The result line is what the n calls answer one after the other on fresh buffers (the model recomputes it with the
// sequential model: fastLCSEGFScoreByte / d1or0); the oracle then builds the BioSequence objects ONCE, runs the same n
// calls from g goroutines released together, r rounds, every goroutine starting at another sub-case, and demands the
// same answer from every call: a call shares no state with a call of another goroutine.
//
//	race <conc case>   (thorough tier, first seed) the same case replayed through a `go build -race` build of this
//	                   harness: a report of the race detector whose racing access lies in pkg/obialign is a failure.

import (
	"bytes"
	"context"
	"errors"
	"fmt"
	"math/rand"
	"os"
	"os/exec"
	"path/filepath"
	"strconv"
	"strings"
	"sync"
	"time"

	"git.metabarcoding.org/obitools/obitools4/obitools4/pkg/obialign"
	"git.metabarcoding.org/obitools/obitools4/obitools4/pkg/obiseq"
)

type c09Sub struct {
	kind string // lcs | egf | d1
	nilb bool   // buffer = nil (else the worker's own)
	e    int
	a, b []byte
}

func (s c09Sub) String() string {
	short := func(x []byte) string {
		if len(x) > 24 {
			return fmt.Sprintf("%q…(%d bases)", x[:24], len(x))
		}
		return fmt.Sprintf("%q", x)
	}
	buf := "worker buffer"
	if s.nilb {
		buf = "nil buffer"
	}
	if s.kind == "d1" {
		return fmt.Sprintf("D1Or0 A=%s B=%s", short(s.a), short(s.b))
	}
	return fmt.Sprintf("%s A=%s B=%s e=%d %s", map[string]string{"lcs": "FastLCSScore", "egf": "FastLCSEGFScore"}[s.kind], short(s.a), short(s.b), s.e, buf)
}

func c09NoUpper(s []byte) bool {
	for _, c := range s {
		if c >= 'A' && c <= 'Z' {
			return false
		}
	}
	return true
}

func c09ParseConc(f []string) (g, r int, subs []c09Sub, ok bool) {
	if len(f) < 4 {
		return
	}
	g, e1 := strconv.Atoi(f[1])
	r, e2 := strconv.Atoi(f[2])
	n, e3 := strconv.Atoi(f[3])
	if e1 != nil || e2 != nil || e3 != nil || g < 1 || g > 64 || r < 1 || r > 2000 || n < 1 || n > 32 || len(f) != 4+5*n {
		return
	}
	for i := 0; i < n; i++ {
		w := f[4+5*i : 9+5*i]
		e, e4 := strconv.Atoi(w[2])
		a, ok1 := unhx(w[3])
		b, ok2 := unhx(w[4])
		// the BioSequence stores the lower-cased sequence: the case line carries the stored bytes
		if e4 != nil || !ok1 || !ok2 || !c09NoUpper(a) || !c09NoUpper(b) || len(a) > 40000 || len(b) > 40000 {
			return
		}
		switch w[0] {
		case "lcs", "egf":
			if (w[1] != "w" && w[1] != "n") || e < -1 || e > 100000 {
				return
			}
		case "d1":
			if w[1] != "-" || e != 0 {
				return
			}
		default:
			return
		}
		subs = append(subs, c09Sub{w[0], w[1] == "n", e, a, b})
	}
	return g, r, subs, true
}

// c09ExecConc: the concurrent phase runs in a CHILD process (this binary, `C09 exec`, the case on stdin): what the Go
// runtime answers to some shared-state regressions ("fatal error: concurrent map writes", a corrupted heap) kills the
// process and cannot be recovered; the child dies, the parent reports the case (conc.crash) and goes on.
func c09ExecConc(f []string) (string, []Fail) {
	if _, _, _, ok := c09ParseConc(f); !ok {
		return "bad-op", nil
	}
	if os.Getenv("VERIF_C09_CHILD") != "" || os.Getenv("VERIF_C09_RACE") != "" {
		return c09ConcHere(f, true)
	}
	exe, err := os.Executable()
	if err != nil {
		stat("conc:in-process (no executable path)")
		return c09ConcHere(f, true)
	}
	ctx, cancel := context.WithTimeout(context.Background(), 150*time.Second*watchdogScale())
	defer cancel()
	cmd := exec.CommandContext(ctx, exe, "C09", "exec")
	cmd.Stdin = strings.NewReader(strings.Join(f, " ") + "\n")
	cmd.Env = append(os.Environ(), "VERIF_C09_CHILD=1")
	var stdout, stderr bytes.Buffer
	cmd.Stdout, cmd.Stderr = &stdout, &stderr
	runErr := cmd.Run()
	res, got := "", false
	var fails []Fail
	for _, l := range strings.Split(stdout.String(), "\n") {
		w := strings.Split(l, "\t")
		switch {
		case w[0] == "C" && len(w) >= 3:
			res, got = w[2], true
		case w[0] == "F" && len(w) >= 4:
			fails = append(fails, Fail{w[1], w[3]})
		case w[0] == "S" && len(w) == 3 && !strings.HasPrefix(w[1], "op:"):
			if n, err := strconv.Atoi(w[2]); err == nil {
				for ; n > 0; n-- {
					stat(w[1])
				}
			}
		}
	}
	if got && runErr == nil {
		stat("conc:child ok")
		return res, fails
	}
	if ctx.Err() != nil { // no answer within the time limit: "hang" (the driver runs such a case again, alone)
		stat("conc:child timed out")
		return "hang", nil
	}
	var ee *exec.ExitError
	if runErr != nil && !errors.As(runErr, &ee) { // the child could not be started (resources): not the code's doing
		stat("conc:in-process (child not started)")
		return c09ConcHere(f, true)
	}
	// the child died: the answers of the calls run alone are computed here, the death is the failure
	stat("conc:child DIED")
	res, fails = c09ConcHere(f, false)
	what := []string{}
	for _, l := range strings.Split(stderr.String(), "\n") {
		t := strings.TrimSpace(l)
		if strings.HasPrefix(t, "fatal error:") || strings.HasPrefix(t, "panic:") || strings.HasPrefix(t, "unexpected fault") ||
			strings.HasPrefix(t, "SIG") || (strings.Contains(t, "/pkg/obialign/") && strings.Contains(t, ".go:")) {
			if k := strings.LastIndex(t, "/pkg/"); k >= 0 && strings.Contains(t, ".go:") {
				t = t[k+1:]
			}
			if len(what) < 4 {
				what = append(what, t)
			}
		}
	}
	fails = append(fails, Fail{"conc.crash", fmt.Sprintf("the process running the calls concurrently died (%v): %s", runErr, strings.Join(what, " | "))})
	return res, fails
}

// c09ConcHere: the calls alone, then (concurrent = true) the same calls from g goroutines, in this process.
func c09ConcHere(f []string, concurrent bool) (string, []Fail) {
	g, r, subs, ok := c09ParseConc(f)
	if !ok {
		return "bad-op", nil
	}
	var fails []Fail
	res := guardT(120*time.Second, func() string {
		// the shared objects: built once, read by every goroutine. Set 0 serves the calls run alone; the concurrent
		// phase gets its own sets (one per round while the copies fit in 8 MB, at least 3, then the first again): as in
		// the commands, the workers meet pairs that no call has seen before (a memo warmed by the alone phase would
		// hide what it does with a new pair)
		bytesPerSet := 1
		for _, s := range subs {
			bytesPerSet += len(s.a) + len(s.b)
		}
		nsets := 1 + min(r, max(3, (8<<20)/bytesPerSet))
		if !concurrent {
			nsets = 1
		}
		sa := make([][]*obiseq.BioSequence, nsets)
		sb := make([][]*obiseq.BioSequence, nsets)
		for t := 0; t < nsets; t++ {
			sa[t] = make([]*obiseq.BioSequence, len(subs))
			sb[t] = make([]*obiseq.BioSequence, len(subs))
			for i, s := range subs {
				sa[t][i] = obiseq.NewBioSequence(fmt.Sprintf("a%d", i), append([]byte{}, s.a...), "")
				sb[t][i] = obiseq.NewBioSequence(fmt.Sprintf("b%d", i), append([]byte{}, s.b...), "")
				if !bytes.Equal(sa[t][i].Sequence(), s.a) || !bytes.Equal(sb[t][i].Sequence(), s.b) {
					return "bad-op" // not the stored form
				}
			}
		}
		call := func(t, i int, own *[]uint64) (out string) {
			defer func() {
				if rec := recover(); rec != nil {
					if _, isFatal := rec.(fatalExit); isFatal {
						out = "fatal"
					} else {
						out = "panic: " + fmt.Sprint(rec)
					}
				}
			}()
			s := subs[i]
			buf := own
			if s.nilb {
				buf = nil
			}
			switch s.kind {
			case "lcs":
				sc, l := obialign.FastLCSScore(sa[t][i], sb[t][i], s.e, buf)
				return fmt.Sprintf("%d %d", sc, l)
			case "egf":
				sc, l, end := obialign.FastLCSEGFScore(sa[t][i], sb[t][i], s.e, buf)
				return fmt.Sprintf("%d %d %d", sc, l, end)
			default:
				v, pos, a1, a2 := obialign.D1Or0(sa[t][i], sb[t][i])
				return fmt.Sprintf("%d %d %d %d", v, pos, a1, a2)
			}
		}
		alone := make([]string, len(subs))
		for i := range subs {
			alone[i] = call(0, i, nil)
			if strings.HasPrefix(alone[i], "panic") || alone[i] == "fatal" {
				fails = append(fails, Fail{"conc.alone-panic", fmt.Sprintf("sub-case %d (%s) run alone: %s", i, subs[i], alone[i])})
				alone[i] = "panic"
			}
		}
		if !concurrent {
			return strings.Join(alone, " ; ")
		}
		// the same calls, from g goroutines released together; goroutine k starts at sub-case k; in the odd rounds
		// every call is made twice in a row (a worker may well meet the same pair again). Each goroutine keeps its
		// own tally (no lock between two calls: nothing but the code under test orders the goroutines).
		type bad struct {
			i, k, round int
			got         string
		}
		type tally struct {
			first               *bad
			nbad, npanic, total int
			kinds               map[string]int
		}
		tallies := make([]tally, g)
		want := 0
		for round := 0; round < r; round++ {
			want += len(subs) * (1 + round%2)
		}
		want *= g
		start := make(chan struct{})
		var wg sync.WaitGroup
		for k := 0; k < g; k++ {
			wg.Add(1)
			go func(k int) {
				defer wg.Done()
				tl := &tallies[k]
				tl.kinds = map[string]int{}
				var matrix []uint64 // the scratch of this worker, kept across its calls
				<-start
				for round := 0; round < r; round++ {
					t := 1 + round%(nsets-1)
					for j := range subs {
						i := (j + k + round*3) % len(subs)
						for rep := 0; rep <= round%2; rep++ {
							got := call(t, i, &matrix)
							tl.total++
							if got != alone[i] {
								tl.nbad++
								if got == "fatal" || strings.HasPrefix(got, "panic") {
									tl.npanic++
								}
								tl.kinds[subs[i].kind]++
								if tl.first == nil {
									tl.first = &bad{i, k, round, got}
								}
							}
						}
					}
				}
			}(k)
		}
		t0 := time.Now()
		close(start)
		wg.Wait()
		el := time.Since(t0)
		var first *bad
		nbad, npanic, total := 0, 0, 0
		kinds := map[string]int{}
		for k := range tallies {
			tl := &tallies[k]
			nbad, npanic, total = nbad+tl.nbad, npanic+tl.npanic, total+tl.total
			for kd, n := range tl.kinds {
				kinds[kd] += n
			}
			if first == nil || (tl.first != nil && tl.first.round < first.round) {
				if tl.first != nil {
					first = tl.first
				}
			}
		}
		stat(fmt.Sprintf("conc:g%d r%d", g, r))
		stat(fmt.Sprintf("conc:sub-cases-%d", len(subs)))
		for _, s := range subs {
			b := ""
			if s.kind != "d1" {
				b = map[bool]string{true: " nil buffer", false: " worker buffer"}[s.nilb]
				if s.e == -1 {
					b += " no bound"
				}
			}
			stat("conc:sub " + s.kind + b)
		}
		switch {
		case el < 5*time.Millisecond:
			stat("conc:overlap-window < 5 ms")
		case el < 50*time.Millisecond:
			stat("conc:overlap-window 5..50 ms")
		default:
			stat("conc:overlap-window >= 50 ms")
		}
		// the shared sequences must come out as they went in
	modified:
		for t := range sa {
			for i, s := range subs {
				if !bytes.Equal(sa[t][i].Sequence(), s.a) || !bytes.Equal(sb[t][i].Sequence(), s.b) {
					fails = append(fails, Fail{"conc.input-modified", fmt.Sprintf("sub-case %d (%s): a shared sequence was modified by the calls", i, s)})
					break modified
				}
			}
		}
		if total != want {
			fails = append(fails, Fail{"conc.panic", fmt.Sprintf("%d of %d concurrent calls did not finish", want-total, want)})
		}
		if first != nil {
			sig := "conc.differs"
			if first.got == "fatal" || strings.HasPrefix(first.got, "panic") {
				sig = "conc.panic"
			}
			fails = append(fails, Fail{sig, fmt.Sprintf(
				"%d of %d concurrent calls (%d goroutines, %d rounds) differ from the same call run alone (%d panics; by kind %v); e.g. sub-case %d (%s) in goroutine %d round %d: alone %q, concurrently %q",
				nbad, total, g, r, npanic, kinds, first.i, subs[first.i], first.k, first.round, alone[first.i], first.got)})
		}
		return strings.Join(alone, " ; ")
	})
	return res, fails
}

// c09GenConc — called LAST by Gen. Three flavours of cases:
//
//	mixed : bounded FastLCSScore on the worker buffer (obiclean / obitag: long sequences, narrow band) and with nil
//	        buffer (obiconsensus / obicleandb), within and beyond the bound, one or two calls without bound
//	        (obilandmark / obigeomtag: the whole matrix), FastLCSEGFScore with real overhangs (end > 0) on both kinds
//	        of buffer, D1Or0 on long sequences, IUPAC codes in some;
//	d1    : D1Or0 only, 10000..30000 bases, the difference in the middle third (both scans run far), many rounds -
//	        a D1Or0 call is short, it overlaps another one only when the goroutines do nothing else;
//	egf   : FastLCSEGFScore only, long free overhangs on the right (the state pend / end is live for long);
//	short : sequences of 6..40 bases, hundreds of rounds: entry / exit of a call weigh as much as its body.
func c09GenConc(rng *rand.Rand, tier string, emit func(string)) {
	flavours := []string{"mixed", "d1", "egf", "mixed", "short", "mixed"}
	g, scale := 8, 1
	if tier == "thorough" {
		flavours = []string{"mixed", "d1", "egf", "mixed", "short", "mixed", "mixed", "d1", "mixed", "short", "egf", "mixed"}
		g, scale = 16, 2
	}
	hexsub := func(kind, buf string, e int, a, b []byte) string {
		return fmt.Sprintf(" %s %s %d %s %s", kind, buf, e, hx(a), hx(b))
	}
	bufs := []string{"w", "n"}
	for c, flavour := range flavours {
		var subs []string
		iu := []int{0, 0, 20, 8}[rng.Intn(4)]
		bounded := func(i int) {
			// different lengths and bounds so that the bands (and the buffer geometry) differ
			la := scale * (800 + rng.Intn(2400))
			e := 1 + rng.Intn(14)
			a := c09RandSeq(rng, la, iu)
			k := rng.Intn(e + 1)
			if rng.Intn(4) == 0 {
				k = e + 1 + rng.Intn(4) // beyond the bound
			}
			b := c09Mutate(rng, a, k, iu)
			if rng.Intn(2) == 0 {
				a, b = b, a
			}
			subs = append(subs, hexsub("lcs", bufs[i%2], e, a, b))
		}
		unbounded := func(i int) {
			la := 150 + rng.Intn(200*scale)
			a := c09RandSeq(rng, la, iu)
			var b []byte
			if rng.Intn(2) == 0 {
				b = c09Mutate(rng, a, rng.Intn(30), iu)
			} else {
				b = c09RandSeq(rng, 100+rng.Intn(200), iu)
			}
			subs = append(subs, hexsub("lcs", bufs[(i+c)%2], -1, a, b))
		}
		egf := func(i int, maxOver int) {
			// the shorter sequence is an edited factor of the longer one: free overhangs, end > 0
			la := 300 + rng.Intn(900)
			if flavour == "mixed" {
				la *= scale // (the end-gap-free band widens with the overhang: the egf flavour keeps to 300..1200 bases)
			}
			a := c09RandSeq(rng, la, iu)
			lo := rng.Intn(40)
			hi := la - rng.Intn(maxOver)
			e := 1 + rng.Intn(8)
			b := c09Mutate(rng, a[lo:hi], rng.Intn(e+2), iu)
			if i%4 == 3 { // no bound: the whole matrix, the last row is live during the whole second half
				e = -1
				a = a[:200+rng.Intn(100)]
				b = c09Mutate(rng, a[rng.Intn(30):len(a)-rng.Intn(60)], rng.Intn(6), iu)
			}
			if rng.Intn(2) == 0 {
				a, b = b, a
			}
			subs = append(subs, hexsub("egf", bufs[(i+1)%2], e, a, b))
		}
		d1 := func(minLen, spanLen int) {
			la := scale * (minLen + rng.Intn(spanLen))
			if la > 38000 {
				la = 38000
			}
			a := c09RandSeq(rng, la, 0)
			b := append([]byte{}, a...)
			p := la/3 + rng.Intn(la/3)
			switch rng.Intn(5) {
			case 0: // substitution
				b[p] = "acgt"[(strings.IndexByte("acgt", b[p])+1+rng.Intn(3))%4]
			case 1: // insertion
				b = append(b[:p], append([]byte{"acgt"[rng.Intn(4)]}, b[p:]...)...)
			case 2: // deletion
				b = append(b[:p], b[p+1:]...)
			case 3: // two differences far apart
				b[p] = "acgt"[(strings.IndexByte("acgt", b[p])+1)%4]
				q := p / 2
				b[q] = "acgt"[(strings.IndexByte("acgt", b[q])+1)%4]
			default: // identical
			}
			if rng.Intn(2) == 0 {
				a, b = b, a
			}
			subs = append(subs, hexsub("d1", "-", 0, a, b))
		}
		r := 8
		switch flavour {
		case "mixed":
			for i, n := 0, 4+rng.Intn(3); i < n; i++ {
				bounded(i)
			}
			for i, n := 0, 1+rng.Intn(2); i < n; i++ {
				unbounded(i)
			}
			for i, n := 0, 2+rng.Intn(2); i < n; i++ {
				egf(i+rng.Intn(4), 40)
			}
			for i, n := 0, 2+rng.Intn(2); i < n; i++ {
				d1(4000, 12000)
			}
		case "d1":
			iu = 0
			for i, n := 0, 6+rng.Intn(3); i < n; i++ {
				d1(10000, 10000)
			}
			r = 60
		case "egf":
			for i, n := 0, 8+rng.Intn(3); i < n; i++ {
				egf(i, 250)
			}
			r = 6
		case "short":
			// calls of a few hundred nanoseconds, many rounds: what a call does on entry and on exit (publishing a
			// result, taking / releasing something shared) is then a large part of it
			for i, n := 0, 10+rng.Intn(4); i < n; i++ {
				a := c09RandSeq(rng, 6+rng.Intn(30), iu)
				b := c09Mutate(rng, a, rng.Intn(4), iu)
				if rng.Intn(2) == 0 {
					a, b = b, a
				}
				switch i % 5 {
				case 0, 1, 2:
					subs = append(subs, hexsub("lcs", bufs[i%2], rng.Intn(5), a, b))
				case 3:
					subs = append(subs, hexsub("egf", bufs[rng.Intn(2)], rng.Intn(4), a, b))
				default:
					subs = append(subs, hexsub("d1", "-", 0, a, b))
				}
			}
			r = 400
		}
		if tier == "thorough" {
			r += r / 2
		}
		rng.Shuffle(len(subs), func(i, j int) { subs[i], subs[j] = subs[j], subs[i] })
		line := fmt.Sprintf("conc %d %d %d%s", g, r, len(subs), strings.Join(subs, ""))
		emit(line)
		stat("gen:conc " + flavour)
		if tier == "thorough" && c < 3 && c09FirstSeed() {
			// the detector needs no overlap in time (it works on the happens-before order): few goroutines and rounds
			emit(fmt.Sprintf("race conc %d %d %d%s", 4, min(r, 3), len(subs), strings.Join(subs, "")))
			stat("gen:race-replay")
		}
	}
}

// ---- replay under the race detector (thorough, first seed) ------------------------------------------------------

var (
	c09RaceBin   string
	c09RaceTried bool
)

func c09FirstSeed() bool {
	for i, a := range os.Args {
		if a == "-seed" && i+1 < len(os.Args) {
			s, err := strconv.Atoi(os.Args[i+1])
			return err == nil && s%1000 == 0
		}
	}
	return false
}

func c09RaceBuild() string {
	if c09RaceTried {
		return c09RaceBin
	}
	c09RaceTried = true
	root := os.Getenv("VERIF_ROOT")
	if root == "" {
		root = "/verif"
	}
	repo := os.Getenv("VERIF_REPO")
	if repo == "" {
		repo = "/repo"
	}
	bin := filepath.Join(binDir(), "harness_C09_race")
	args := []string{"build", "-race", "-tags", "verif,c09", "-o", bin}
	if repo != "/repo" {
		// a scratch tree is under check: an alternative go.mod (module replaced by that tree) next to its binaries
		// (harness/go.alt.mod is shared by every check of a scratch tree running at the moment: not relied upon)
		mod, err1 := os.ReadFile(filepath.Join(root, "harness", "go.mod"))
		sum, err2 := os.ReadFile(filepath.Join(root, "harness", "go.sum"))
		alt := filepath.Join(binDir(), "c09race.mod")
		if err1 != nil || err2 != nil || !strings.Contains(string(mod), "=> /repo") ||
			os.WriteFile(alt, []byte(strings.Replace(string(mod), "=> /repo", "=> "+repo, 1)), 0o644) != nil ||
			os.WriteFile(filepath.Join(binDir(), "c09race.sum"), sum, 0o644) != nil {
			stat("race-build:no-alt-mod")
			return ""
		}
		args = append(args, "-modfile", alt)
	}
	build := exec.Command("go", append(args, ".")...)
	build.Dir = filepath.Join(root, "harness")
	build.Env = append(os.Environ(), "GOWORK=off", "GOFLAGS=-mod=mod", "GOPROXY=off", "GOSUMDB=off", "GOTOOLCHAIN=local", "CGO_CFLAGS=-w -O2 -g")
	if _, err := build.CombinedOutput(); err != nil {
		stat("race-build:failed")
		return ""
	}
	stat("race-build:ok")
	c09RaceBin = bin
	return bin
}

func c09Race(inner string) (string, []Fail) {
	if os.Getenv("VERIF_C09_RACE") != "" { // we ARE the race-built binary
		return c09{}.Exec(inner)
	}
	bin := c09RaceBuild()
	if bin == "" {
		stat("race:unavailable")
		return c09{}.Exec(inner)
	}
	cmd := exec.Command(bin, "C09", "exec")
	cmd.Stdin = strings.NewReader(inner + "\n")
	cmd.Env = append(os.Environ(), "VERIF_C09_RACE=1", "GORACE=halt_on_error=0")
	var stdout, stderr bytes.Buffer
	cmd.Stderr = &stderr
	cmd.Stdout = &stdout
	_ = cmd.Run()
	res := "race-replay-failed"
	var fails []Fail
	for _, l := range strings.Split(stdout.String(), "\n") {
		f := strings.Split(l, "\t")
		if f[0] == "C" && len(f) >= 3 {
			res = f[2]
		}
		if f[0] == "F" && len(f) >= 4 {
			fails = append(fails, Fail{f[1], f[3]})
		}
	}
	stat("race-replay:done")
	if res == "race-replay-failed" {
		// the replay died before answering: the answers of the calls run alone come from this process
		res, _ = c09ConcHere(strings.Fields(inner), false)
		tail := strings.TrimSpace(stderr.String())
		if k := strings.Index(tail, "fatal error:"); k >= 0 {
			tail = tail[k:]
		}
		if len(tail) > 300 {
			tail = tail[:300]
		}
		fails = append(fails, Fail{"race.crash", "the replay under the race detector died: " + strings.ReplaceAll(tail, "\n", " | ")})
	}
	// a report concerns this property when one of the two racing ACCESSES (innermost frame) lies in pkg/obialign
	ours, other := 0, 0
	var where []string
	for _, block := range strings.Split(stderr.String(), "==================") {
		if !strings.Contains(block, "WARNING: DATA RACE") {
			continue
		}
		inAccess, mine := false, false
		for _, l := range strings.Split(block, "\n") {
			t := strings.TrimSpace(l)
			switch {
			case strings.HasPrefix(t, "Read at"), strings.HasPrefix(t, "Write at"), strings.HasPrefix(t, "Previous read at"),
				strings.HasPrefix(t, "Previous write at"), strings.HasPrefix(t, "Atomic"), strings.HasPrefix(t, "Previous atomic"):
				inAccess = true
			case strings.HasPrefix(t, "Goroutine "):
				inAccess = false
			case inAccess && strings.Contains(t, ".go:"):
				inAccess = false
				if strings.Contains(t, "/pkg/obialign/") && !strings.Contains(t, "verif_hooks") {
					mine = true
					loc := t[strings.LastIndex(t, "/pkg/")+1:]
					if k := strings.IndexByte(loc, ' '); k > 0 {
						loc = loc[:k]
					}
					dup := false
					for _, w := range where {
						dup = dup || w == loc
					}
					if !dup && len(where) < 4 {
						where = append(where, loc)
					}
				}
			}
		}
		if mine {
			ours++
		} else {
			other++
		}
	}
	if other > 0 {
		stat("race-replay:race-elsewhere")
	}
	if ours > 0 {
		fails = append(fails, Fail{"race.detector", fmt.Sprintf("the Go race detector reports %d data race(s) in pkg/obialign (at %s)", ours, strings.Join(where, ", "))})
		stat("race-replay:DATA-RACE")
	} else {
		stat("race-replay:no race in pkg/obialign")
	}
	return res, fails
}
