//go:build c14

package main

// conc — the taxonomy queries under concurrent use.
//
//	conc <g> <r> tax|taxd n… a… q…      -> the answers of the queries run one after the other (= the tax / taxd case)
//
// What the commands run in parallel (verified in pkg/obitools):
//   - obigrep: ONE predicate built once by CLITaxonomyFilterPredicate (Taxonomy.IsSubCladeOf(c) / IsSubCladeOfSlot(key) /
//     HasRequiredRank(r) closures combined by And / Or / Not) called by the nworkers goroutines of the filter, each on the
//     sequences of its own batch;
//   - obiannotate: ONE worker (AddTaxonAtRankWorker, MakeSetPathWorker, AddTaxonRankWorker, AddScientificNameWorker,
//     AddLCAWorker chained) run by SliceWorkerPipe from nworkers goroutines;
//   - obicleandb / obirefidx: Taxonomy.IsAValidTaxon(update).And(HasRequiredRank…) in FilterOn(…, nworkers), then
//     MakeSetSpeciesWorker / MakeSetGenusWorker / MakeSetFamilyWorker in MakeIWorker(…, nworkers);
//   - obitag / obirefidx: Taxonomy.Taxon, TaxNode.LCA, TaxNode.Path from the worker goroutines.
//
// Shared: the loaded Taxonomy (nodes map, alias map, the TaxNode objects) and the closure built once (with what it
// captured: the clade node, the rank, the map of the deprecated taxids already reported). Per call: the sequence (a worker
// owns the sequences of its batch), the path slice, the maps of Taxonomy.LCA.
//
// The oracle: every query is prepared once (closure / worker / predicate built exactly once, as the command does), run
// alone (answer + the attributes written, which must give the answer of the sequential query), then the same prepared
// queries are run from g goroutines released together, r rounds, every goroutine on fresh sequences of its own; every
// answer must be the one obtained alone (conc.differs), every call must return (conc.panic). The concurrent phase runs
// in a child process (this binary, `exec` mode): a crash of the Go runtime (`fatal error: concurrent map writes`, the
// usual end of an unsynchronised cache) is reported as conc.crash with the case line instead of ending the whole run.
// In the thorough tier (first seed) the cases are also replayed through a `go build -race` build: a report of the race
// detector whose racing access lies in pkg/obitax, pkg/obiformats/ncbitaxdump, obigrep or obiannotate is conc.race.

import (
	"bytes"
	"fmt"
	"math/rand"
	"os"
	"os/exec"
	"path/filepath"
	"runtime"
	"sort"
	"strconv"
	"strings"
	"sync"
	"time"

	"git.metabarcoding.org/obitools/obitools4/obitools4/pkg/obiseq"
	"git.metabarcoding.org/obitools/obitools4/obitools4/pkg/obitax"
	"git.metabarcoding.org/obitools/obitools4/obitools4/pkg/obitools/obiannotate"
	"git.metabarcoding.org/obitools/obitools4/obitools4/pkg/obitools/obigrep"
)

// c14ConcOps: the query kinds the conc op accepts
var c14ConcOps = map[string]bool{"path": true, "lca": true, "sub": true, "rank": true, "has": true, "res": true, "str": true, "name": true,
	"val": true, "vf": true, "rt": true, "ig": true, "rr": true, "flt": true, "rs": true, "rss": true, "sr": true, "sp": true, "hq": true,
	"sw": true, "sn": true, "tr": true, "tpath": true, "wl": true, "wls": true, "isub": true, "irank": true, "ibel": true, "itx": true}

func c14ParseConc(c string) (g, r int, inner string, ok bool) {
	f := strings.SplitN(c, " ", 4)
	if len(f) != 4 || f[0] != "conc" {
		return
	}
	g, e1 := strconv.Atoi(f[1])
	r, e2 := strconv.Atoi(f[2])
	if e1 != nil || e2 != nil || g < 1 || g > 64 || r < 1 || r > 500 || strconv.Itoa(g) != f[1] || strconv.Itoa(r) != f[2] {
		return
	}
	if !strings.HasPrefix(f[3], "tax ") && !strings.HasPrefix(f[3], "taxd ") {
		return
	}
	return g, r, f[3], true
}

// c14ConcPrep builds, ONCE, what the command builds once for the query (the predicate / the worker) and returns the
// function a worker goroutine runs on a sequence of its own: the answer word of the sequential query `f` and, after a
// '|', the other attributes the call wrote. msg != "": the preparation itself ended in msg (log.Fatal for an unknown
// clade or rank, …): there is nothing to run concurrently.
func c14ConcPrep(tax *obitax.Taxonomy, f []string, built map[string]*c14Built) (run func() string, msg string) {
	id := func(s string) int { n, _ := strconv.Atoi(s); return n }
	// one object per distinct option value in the case, as one run of the command has (key: what the options say)
	pred := func(key string, mk func() obiseq.SequencePredicate, seq func() *obiseq.BioSequence, ifNil string) (func() string, string) {
		b := built[key]
		if b == nil {
			b = &c14Built{}
			b.msg = guardT(10*time.Second, func() string { b.p = mk(); return "" })
			built[key] = b
			stat("conc-built:" + strings.SplitN(key, ":", 2)[0])
		}
		if b.msg != "" {
			return nil, b.msg
		}
		if b.p == nil {
			return nil, ifNil
		}
		p := b.p
		return func() string { return c14B(p(seq())) }, ""
	}
	worker := func(key string, mk func() obiseq.SeqWorker) (obiseq.SeqWorker, string) {
		b := built[key]
		if b == nil {
			b = &c14Built{}
			b.msg = guardT(10*time.Second, func() string { b.w = mk(); return "" })
			built[key] = b
			stat("conc-built:" + strings.SplitN(key, ":", 2)[0])
		}
		return b.w, b.msg
	}
	ids := func(l []int) string { sort.Ints(l); return c14IDs(l) }
	drain := func(it *obitax.ITaxonSet) string {
		sl := it.TaxonSlice()
		l := make([]int, sl.Len())
		for i := range l {
			l[i] = sl.Get(i).Taxid()
		}
		return ids(l)
	}
	strs := func(s string) []string { return c14Strs(s, func(x string) string { return x }) }
	switch {
	case f[0] == "path" && len(f) == 2:
		return func() string {
			p, err := tax.Path(id(f[1]))
			if err != nil {
				return "err"
			}
			l := make([]int, len(*p))
			for i, n := range *p {
				l[i] = n.Taxid()
			}
			return c14Join(l)
		}, ""
	case f[0] == "lca" && len(f) == 3:
		return func() string {
			t1, e1 := tax.Taxon(id(f[1]))
			t2, e2 := tax.Taxon(id(f[2]))
			if e1 != nil || e2 != nil {
				return "unk"
			}
			l, err := t1.LCA(t2)
			if err != nil {
				return "err"
			}
			return strconv.Itoa(l.Taxid())
		}, ""
	case f[0] == "sub" && len(f) == 3:
		return func() string {
			t1, e1 := tax.Taxon(id(f[1]))
			t2, e2 := tax.Taxon(id(f[2]))
			if e1 != nil || e2 != nil {
				return "unk"
			}
			return c14B(t1.IsSubCladeOf(t2))
		}, ""
	case (f[0] == "rank" || f[0] == "has") && len(f) == 3:
		rank := c14Unrank(f[2])
		return func() string {
			t1, e1 := tax.Taxon(id(f[1]))
			if e1 != nil {
				return "unk"
			}
			if f[0] == "has" {
				return c14B(t1.HasRankDefined(rank))
			}
			n := t1.TaxonAtRank(rank)
			if n == nil {
				return "nil"
			}
			return strconv.Itoa(n.Taxid())
		}, ""
	case f[0] == "res" && len(f) == 2:
		return func() string {
			t1, e1 := tax.Taxon(id(f[1]))
			if e1 != nil {
				return "unk"
			}
			t2, e2 := tax.Taxon("xx TX:" + f[1] + " [species]")
			if e2 != nil || t2 != t1 {
				return strconv.Itoa(t1.Taxid()) + "|string form differs"
			}
			return strconv.Itoa(t1.Taxid())
		}, ""
	case f[0] == "str" && len(f) == 2:
		str, ok := c14Unhex(f[1])
		if !ok {
			return nil, "bad-op"
		}
		return func() string {
			t1, e1 := tax.Taxon(str)
			if e1 != nil {
				if strings.HasPrefix(e1.Error(), "I cannot parse") {
					return "noparse"
				}
				return "unk"
			}
			return strconv.Itoa(t1.Taxid())
		}, ""
	case f[0] == "name" && len(f) == 2:
		return func() string {
			t1, e1 := tax.Taxon(id(f[1]))
			if e1 != nil {
				return "unk"
			}
			return c14Hex(t1.ScientificName())
		}, ""
	case f[0] == "val" && len(f) == 2:
		// obicleandb: ONE IsAValidTaxon closure for all the workers of FilterOn (it holds the map of the deprecated taxids already reported)
		return pred("val", func() obiseq.SequencePredicate { return tax.IsAValidTaxon() }, func() *obiseq.BioSequence { return c14Seq(f[1]) }, "panic")
	case f[0] == "vf" && len(f) == 2:
		b := built["vf"]
		if b == nil {
			b = &c14Built{}
			b.msg = guardT(10*time.Second, func() string { b.p = tax.IsAValidTaxon(true); return "" })
			built["vf"] = b
		}
		if b.msg != "" {
			return nil, b.msg
		}
		p := b.p
		return func() string {
			seq := c14Seq(f[1])
			b := p(seq)
			after := "-"
			if seq.HasAttribute("taxid") {
				after = strconv.Itoa(seq.Taxid())
			}
			return c14B(b) + ":" + after
		}, ""
	case f[0] == "rt" && len(f) == 3:
		return pred("rt:"+f[1], func() obiseq.SequencePredicate {
			obigrep.VerifSetTaxonomyOptions(tax, strs(f[1]), []int{}, []string{})
			return obigrep.CLIRestrictTaxonomyPredicate()
		}, func() *obiseq.BioSequence { return c14Seq(f[2]) }, "panic")
	case f[0] == "ig" && len(f) == 3:
		return pred("ig:"+f[1], func() obiseq.SequencePredicate {
			obigrep.VerifSetTaxonomyOptions(tax, []string{}, c14Ints(f[1]), []string{})
			return obigrep.CLIAvoidTaxonomyPredicate()
		}, func() *obiseq.BioSequence { return c14Seq(f[2]) }, "panic")
	case f[0] == "rr" && len(f) == 3:
		return pred("rr:"+f[1], func() obiseq.SequencePredicate {
			obigrep.VerifSetTaxonomyOptions(tax, []string{}, []int{}, c14Strs(f[1], c14Unrank))
			return obigrep.CLIHasRankDefinedPredicate()
		}, func() *obiseq.BioSequence { return c14Seq(f[2]) }, "panic")
	case f[0] == "flt" && len(f) == 5:
		run, m := pred("flt:"+f[1]+":"+f[2]+":"+f[3], func() obiseq.SequencePredicate {
			obigrep.VerifSetTaxonomyOptions(tax, strs(f[2]), c14Ints(f[3]), c14Strs(f[1], c14Unrank))
			return obigrep.CLITaxonomyFilterPredicate()
		}, func() *obiseq.BioSequence { return c14Seq(f[4]) }, "T")
		if m == "T" { // no taxonomic option: no predicate, every sequence passes
			return func() string { return "T" }, ""
		}
		return run, m
	case f[0] == "rs" && len(f) == 3:
		mk := func() *obiseq.BioSequence {
			seq := c14Seq(f[2])
			if f[1] != "-" {
				switch id(f[1]) % 3 {
				case 0:
					seq.SetAttribute("clade", id(f[1]))
				case 1:
					seq.SetAttribute("clade", "TX:"+f[1])
				default:
					seq.SetAttribute("clade", "Some name [TX:"+f[1]+"]")
				}
			} else if id(f[2])%2 == 1 {
				seq.SetAttribute("clade", "not a taxid")
			}
			return seq
		}
		return pred("slot", func() obiseq.SequencePredicate {
			obigrep.VerifSetTaxonomyOptions(tax, []string{"clade"}, []int{}, []string{})
			return obigrep.CLIRestrictTaxonomyPredicate()
		}, mk, "panic")
	case f[0] == "rss" && len(f) == 3:
		str, ok := c14Unhex(f[1])
		if !ok {
			return nil, "bad-op"
		}
		return pred("slot", func() obiseq.SequencePredicate {
			obigrep.VerifSetTaxonomyOptions(tax, []string{"clade"}, []int{}, []string{})
			return obigrep.CLIRestrictTaxonomyPredicate()
		}, func() *obiseq.BioSequence { seq := c14Seq(f[2]); seq.SetAttribute("clade", str); return seq }, "panic")
	case f[0] == "sp" && len(f) == 3:
		return pred("sp:"+f[1], func() obiseq.SequencePredicate { return tax.IsSubCladeOf(id(f[1])) }, func() *obiseq.BioSequence { return c14Seq(f[2]) }, "panic")
	case f[0] == "hq" && len(f) == 3:
		return pred("hq:"+f[1], func() obiseq.SequencePredicate { return tax.HasRequiredRank(c14Unrank(f[1])) }, func() *obiseq.BioSequence { return c14Seq(f[2]) }, "panic")
	case (f[0] == "sr" && len(f) == 3) || (f[0] == "sw" && len(f) == 3 && len(f[1]) >= 1):
		var rank string
		var mk func() obiseq.SeqWorker
		switch {
		case f[0] == "sr":
			rank = c14Unrank(f[1])
			mk = func() obiseq.SeqWorker { return obiannotate.AddTaxonAtRankWorker(tax, rank) }
		case f[1] == "sp":
			rank, mk = "species", tax.MakeSetSpeciesWorker
		case f[1] == "ge":
			rank, mk = "genus", tax.MakeSetGenusWorker
		case f[1] == "fa":
			rank, mk = "family", tax.MakeSetFamilyWorker
		case f[1][0] == 'r':
			rank = c14Unrank(f[1][1:])
			mk = func() obiseq.SeqWorker { return tax.MakeSetTaxonAtRankWorker(rank) }
		default:
			return nil, "bad-op"
		}
		w, m := worker(f[0]+":"+f[1], mk)
		if m != "" {
			return nil, m
		}
		return func() string {
			seq := c14Out(w, c14Seq(f[2]))
			v, ok := seq.GetAttribute(rank + "_taxid")
			if !ok {
				return "none"
			}
			n, _ := v.(int)
			name, _ := seq.GetStringAttribute(rank + "_name")
			if f[0] == "sr" {
				return strconv.Itoa(n) + "|" + c14Hex(name)
			}
			return fmt.Sprintf("%d/%s", n, c14Hex(name))
		}, ""
	case (f[0] == "sn" || f[0] == "tr" || f[0] == "tpath") && len(f) == 2:
		key := map[string]string{"sn": "scienctific_name", "tr": "taxonomic_rank", "tpath": "taxonomic_path"}[f[0]]
		w, m := worker(f[0], func() obiseq.SeqWorker {
			switch f[0] {
			case "sn":
				return obiannotate.AddScientificNameWorker(tax)
			case "tr":
				return obiannotate.AddTaxonRankWorker(tax)
			}
			return tax.MakeSetPathWorker()
		})
		if m != "" {
			return nil, m
		}
		return func() string {
			seq := c14Out(w, c14Seq(f[1]))
			v, _ := seq.GetStringAttribute(key)
			return c14Hex(v)
		}, ""
	case (f[0] == "wl" || f[0] == "wls") && len(f) == 2:
		mk := func() *obiseq.BioSequence {
			if f[0] == "wls" {
				return c14Seq(f[1])
			}
			seq := obiseq.NewBioSequence("s", []byte("acgt"), "")
			m := map[string]int{}
			if f[1] != "" {
				for _, kv := range strings.Split(f[1], ",") {
					p := strings.Split(kv, "=")
					if len(p) == 2 {
						m[p[0]] = id(p[1])
					}
				}
			}
			seq.SetAttribute("merged_taxid", m)
			return seq
		}
		w, m := worker("wl", func() obiseq.SeqWorker { return obitax.AddLCAWorker(tax, "lca", 1.0) })
		if m != "" {
			return nil, m
		}
		return func() string {
			l, rans, _ := tax.LCA(mk(), 1.0)
			if l == nil {
				return "nil"
			}
			seq := c14Out(w, mk()) // obiannotate --add-lca-in: the shared worker
			v, _ := seq.GetIntAttribute("lca_taxid")
			e, _ := seq.GetFloatAttribute("lca_error")
			n, _ := seq.GetStringAttribute("lca_name")
			return fmt.Sprintf("%d|%v %d %v %s", l.Taxid(), rans, v, e, c14Hex(n))
		}, ""
	case f[0] == "isub" && len(f) == 2:
		return func() string {
			c, e := tax.Taxon(id(f[1]))
			if e != nil {
				return "unk"
			}
			return drain(tax.IFilterOnSubcladeOf(c))
		}, ""
	case f[0] == "irank" && len(f) == 2:
		return func() string { return drain(tax.IFilterOnTaxRank(c14Unrank(f[1]))) }, ""
	case f[0] == "ibel" && len(f) == 2:
		return func() string {
			set := make(obitax.TaxonSet)
			for _, c := range c14Ints(f[1]) {
				n, e := tax.Taxon(c)
				if e != nil {
					return "unk"
				}
				set.Inserts(n)
			}
			return drain(tax.Iterator().IFilterBelongingSubclades(&set))
		}, ""
	case f[0] == "itx" && len(f) == 1:
		return func() string {
			sl := tax.Iterator().TaxonSlice()
			sum := 0
			for i := 0; i < sl.Len(); i++ {
				sum = (sum + sl.Get(i).Taxid()%1000003) % 1000003
			}
			return fmt.Sprintf("%d/%d", sl.Len(), sum)
		}, ""
	}
	return nil, "bad-op"
}

// c14Barrier: a reusable barrier for the goroutines still alive
type c14Barrier struct {
	mu      sync.Mutex
	cond    *sync.Cond
	n       int // participants
	waiting int
	gen     int
}

func (b *c14Barrier) wait() {
	b.mu.Lock()
	b.waiting++
	if b.waiting >= b.n {
		b.waiting = 0
		b.gen++
		b.cond.Broadcast()
	} else {
		for gen := b.gen; gen == b.gen; {
			b.cond.Wait()
		}
	}
	b.mu.Unlock()
}

// leave: a goroutine that ends (normally, by a panic or by log.Fatal) no longer takes part
func (b *c14Barrier) leave() {
	b.mu.Lock()
	b.n--
	if b.n > 0 && b.waiting >= b.n {
		b.waiting = 0
		b.gen++
		b.cond.Broadcast()
	}
	b.mu.Unlock()
}

// c14Out: the sequence the pipeline keeps after the worker (MakeIWorker forwards the slice the worker RETURNS)
func c14Out(w obiseq.SeqWorker, seq *obiseq.BioSequence) *obiseq.BioSequence {
	out, err := w(seq)
	runtime.Gosched() // the consumer of the slice is not the next instruction: let the other workers run in between
	if err != nil || len(out) != 1 || out[0] == nil {
		return obiseq.NewBioSequence("lost", []byte("a"), "")
	}
	return out[0]
}

// c14Built: a predicate or a worker built once for the case (or how building it ended)
type c14Built struct {
	p   obiseq.SequencePredicate
	w   obiseq.SeqWorker
	msg string
}

func c14Word(s string) string {
	if k := strings.IndexByte(s, '|'); k >= 0 {
		return s[:k]
	}
	return s
}

func c14Short(s string) string {
	if len(s) > 140 {
		return s[:140] + "…"
	}
	return s
}

// c14ConcRun: the prepared queries alone, then from g goroutines; the result is the list of the answers obtained alone
func c14ConcRun(g, r int, inner string) (string, []Fail) {
	mode, t, qs, ok := c14Parse(inner)
	if !ok || len(qs) == 0 {
		return "bad-op", nil
	}
	for _, q := range qs {
		if !c14ConcOps[strings.SplitN(q, ":", 2)[0]] {
			return "bad-op", nil
		}
	}
	var tax *obitax.Taxonomy
	if msg := guardT(30*time.Second, func() string {
		var m string
		tax, m = c14Build(mode, t)
		return m
	}); msg != "" {
		return msg, nil
	}
	var fails []Fail
	runs := make([]func() string, len(qs))
	alone := make([]string, len(qs))
	var live []int // the sub-cases that answer when run alone
	built := map[string]*c14Built{}
	for i, q := range qs {
		f := strings.Split(q, ":")
		run, msg := c14ConcPrep(tax, f, built)
		if msg == "bad-op" {
			return "bad-op", nil
		}
		if msg != "" {
			alone[i] = msg
			stat("conc-prep:" + msg)
			continue
		}
		runs[i] = run
		alone[i] = guardT(10*time.Second, run)
		switch alone[i] {
		case "panic", "fatal", "hang":
			stat("conc-alone:" + alone[i])
		default:
			live = append(live, i)
			stat("conc-op:" + f[0])
		}
	}
	words := make([]string, len(qs))
	for i := range alone {
		words[i] = c14Word(alone[i])
		if words[i] != alone[i] && strings.HasSuffix(alone[i], "|string form differs") {
			fails = append(fails, Fail{"conc.alone", "q" + qs[i] + ": Taxon(string) and Taxon(int) designate different taxa"})
		}
	}
	if len(live) == 0 {
		return strings.Join(words, " "), fails
	}
	// the concurrent phase is another run of the command: the predicates / workers are built afresh (those of the first
	// phase have seen every sequence already: a state they keep - the deprecated taxids already reported - is warm)
	built = map[string]*c14Built{}
	for _, i := range live {
		run, msg := c14ConcPrep(tax, strings.Split(qs[i], ":"), built)
		if msg != "" {
			return strings.Join(words, " "), append(fails, Fail{"conc.alone", "q" + qs[i] + ": building the predicate / worker a second time ends in " + msg})
		}
		runs[i] = run
	}
	// the calls of one kind side by side (a command runs ONE kind of call on every sequence), IsAValidTaxon first
	opOf := func(i int) string {
		op := strings.SplitN(qs[i], ":", 2)[0]
		if op == "val" || op == "vf" {
			return " " + op
		}
		return op
	}
	sort.SliceStable(live, func(a, b int) bool { return opOf(live[a]) < opOf(live[b]) })
	var blocks [][2]int // the runs of one kind in live
	for i := range live {
		if i == 0 || opOf(live[i]) != opOf(live[i-1]) {
			blocks = append(blocks, [2]int{i, i + 1})
		} else {
			blocks[len(blocks)-1][1] = i + 1
		}
	}
	bar := &c14Barrier{n: g}
	bar.cond = sync.NewCond(&bar.mu)
	// the same prepared queries from g goroutines released together, r rounds, each goroutine starting elsewhere in the list
	type bad struct {
		i, goroutine int
		got          string
	}
	var mu sync.Mutex
	var first *bad
	nbad, total, want := 0, 0, g*r*len(live)
	start := make(chan struct{})
	var wg sync.WaitGroup
	for k := 0; k < g; k++ {
		wg.Add(1)
		go func(k int) {
			defer wg.Done() // also runs when log.Fatal ends the goroutine (runtime.Goexit)
			defer func() { recover() }()
			<-start
			nb, nt := 0, 0
			var fb *bad
			defer func() {
				mu.Lock()
				total += nt
				nbad += nb
				if fb != nil && (first == nil || fb.i < first.i) {
					first = fb
				}
				mu.Unlock()
			}()
			call := func(i int) {
				got := runs[i]()
				nt++
				if got != alone[i] {
					nb++
					if fb == nil {
						fb = &bad{i, k, got}
					}
				}
			}
			defer bar.leave()
			for round := 0; round < r; round++ {
				if round%3 == 2 {
					// mixed round: the whole list, the odd goroutines from its head together, the even ones each from a place
					// of its own (calls of different kinds overlap)
					off := 0
					if k%2 == 0 {
						off = k * len(live) / g
					}
					for j := range live {
						call(live[(j+off)%len(live)])
					}
					continue
				}
				// wave round: what the workers of a command do: all the goroutines make the calls of ONE kind at the same time
				// (the same predicate / worker on different sequences, each goroutine starting elsewhere in the block)
				for _, bl := range blocks {
					bar.wait()
					n := bl[1] - bl[0]
					for j := 0; j < n; j++ {
						call(live[bl[0]+(j+k*n/g)%n])
					}
				}
			}
		}(k)
	}
	done := make(chan struct{})
	go func() { wg.Wait(); close(done) }()
	close(start)
	select {
	case <-done:
	case <-time.After(120 * time.Second * watchdogScale()):
		return strings.Join(words, " "), append(fails, Fail{"conc.hang", fmt.Sprintf("the %d concurrent calls did not finish within the watchdog delay (hang)", want)})
	}
	stat(fmt.Sprintf("conc:g%d", g))
	stat("conc:cases")
	if total != want {
		fails = append(fails, Fail{"conc.panic", fmt.Sprintf("%d of %d concurrent calls did not return (panic or log.Fatal in a worker goroutine)", want-total, want)})
	}
	if first != nil {
		fails = append(fails, Fail{"conc.differs", fmt.Sprintf(
			"%d of %d concurrent calls differ from the call made alone; e.g. q%s in goroutine %d: alone %s, concurrently %s",
			nbad, total, qs[first.i], first.goroutine, c14Short(alone[first.i]), c14Short(first.got))})
	}
	return strings.Join(words, " "), fails
}

// c14ConcChild runs the conc case in a child process (this binary, exec mode); ran = false: no child could be run
func c14ConcChild(c string, race bool) (res string, fails []Fail, stderr string, ran bool) {
	bin, err := os.Executable()
	env := append(os.Environ(), "VERIF_C14_CONC=child")
	if race {
		bin = c14RaceBuild()
		env = append(env, "GORACE=halt_on_error=0")
		err = nil
		if bin == "" {
			return "", nil, "", false
		}
	}
	if err != nil {
		return "", nil, "", false
	}
	cmd := exec.Command(bin, "C14", "exec")
	cmd.Stdin = strings.NewReader(c + "\n")
	cmd.Env = env
	var so, se bytes.Buffer
	cmd.Stdout, cmd.Stderr = &so, &se
	if err := cmd.Start(); err != nil {
		return "", nil, "", false
	}
	ch := make(chan error, 1)
	go func() { ch <- cmd.Wait() }()
	var werr error
	select {
	case werr = <-ch:
	case <-time.After(300 * time.Second * watchdogScale()):
		cmd.Process.Kill()
		<-ch
		return "", []Fail{{"conc.hang", "the process running the concurrent phase did not finish within the watchdog delay (hang)"}}, "", true
	}
	stderr = se.String()
	for _, l := range strings.Split(so.String(), "\n") {
		w := strings.Split(l, "\t")
		if w[0] == "C" && len(w) >= 3 {
			res = w[2]
		}
		if w[0] == "F" && len(w) >= 4 {
			fails = append(fails, Fail{w[1], w[3]})
		}
		if w[0] == "S" && len(w) == 3 && strings.HasPrefix(w[1], "conc") { // the statistics of the concurrent phase
			if n, err := strconv.Atoi(w[2]); err == nil {
				statMu.Lock()
				stats[w[1]] += n
				statMu.Unlock()
			}
		}
	}
	_ = werr // a -race build exits with 66 after reporting races: the C line says whether the case was run to its end
	if res == "" {
		// the Go runtime ended the process: unrecoverable `fatal error:` (concurrent map read / write, …) or an unrecovered panic
		what, where := "", ""
		for _, l := range strings.Split(stderr, "\n") {
			t := strings.TrimSpace(l)
			if what == "" && (strings.HasPrefix(t, "fatal error:") || strings.HasPrefix(t, "panic:")) {
				what = t
			}
			if what != "" && where == "" && strings.Contains(t, "/pkg/") && strings.Contains(t, ".go:") {
				where = t[strings.LastIndex(t, "/pkg/")+1:]
				if k := strings.IndexByte(where, ' '); k > 0 {
					where = where[:k]
				}
			}
		}
		if what == "" { // killed from outside (memory, signal): not an observation about the code
			stat("conc:child-lost")
			return "", nil, stderr, false
		}
		fails = append(fails, Fail{"conc.crash", fmt.Sprintf("the process running the queries from several goroutines was ended by the Go runtime: %s (at %s)", what, where)})
	}
	return res, fails, stderr, true
}

func c14ExecConc(c string) (string, []Fail) {
	race := false
	if strings.HasPrefix(c, "race conc ") {
		race, c = true, strings.TrimPrefix(c, "race ")
	}
	g, r, inner, ok := c14ParseConc(c)
	if !ok {
		caseTrivial = true
		return "bad-op", nil
	}
	if os.Getenv("VERIF_C14_CONC") == "child" {
		return c14ConcRun(g, r, inner)
	}
	// the queries one after the other, with every oracle of the sequential case: the result line
	res, fails := c14{}.Exec(inner)
	if caseTrivial {
		return res, fails
	}
	cres, cfails, stderr, ran := c14ConcChild(c, race)
	if !ran {
		if race {
			stat("conc-race:unavailable")
			return res, fails
		}
		stat("conc:in-process")
		cres, cfails = c14ConcRun(g, r, inner)
	} else {
		stat("conc:child")
	}
	fails = append(fails, cfails...)
	if cres == "bad-op" {
		caseTrivial = true
		return "bad-op", nil
	}
	if cres != "" && cres != res {
		a, b := strings.Fields(res), strings.Fields(cres)
		k := 0
		for k < len(a) && k < len(b) && a[k] == b[k] {
			k++
		}
		at := "the number of answers"
		if k < len(a) && k < len(b) {
			at = fmt.Sprintf("answer %d: %s through a fresh closure, %s through the closure built once", k+1, c14Short(a[k]), c14Short(b[k]))
		}
		fails = append(fails, Fail{"conc.alone", "the queries run alone through the predicate / worker built once do not answer as the sequential queries; " + at})
	}
	if race {
		stat("conc-race:replayed")
		if n, where := c14RaceReports(stderr); n > 0 {
			stat("conc-race:DATA-RACE")
			fails = append(fails, Fail{"conc.race", fmt.Sprintf("the Go race detector reports %d data race(s) in the taxonomy code (at %s)", n, strings.Join(where, ", "))})
		}
	}
	return res, fails
}

// ---- race replay (thorough tier, first seed) ----

var (
	c14RaceBin   string
	c14RaceTried bool
)

func c14FirstSeed() bool {
	for i, a := range os.Args {
		if a == "-seed" && i+1 < len(os.Args) {
			s, err := strconv.Atoi(os.Args[i+1])
			return err == nil && s%1000 == 0
		}
	}
	return false
}

func c14RaceBuild() string {
	if c14RaceTried {
		return c14RaceBin
	}
	c14RaceTried = true
	root := os.Getenv("VERIF_ROOT")
	if root == "" {
		root = "/verif"
	}
	bin := filepath.Join(binDir(), "harness_C14_race")
	args := []string{"build", "-race", "-tags", "verif,c14", "-o", bin}
	repo := os.Getenv("VERIF_REPO")
	if repo != "" && repo != "/repo" {
		// a scratch tree is under check: the driver wrote go.alt.mod (module replaced by that tree)
		alt := filepath.Join(root, "harness", "go.alt.mod")
		if m := os.Getenv("VERIF_C14_ALTMOD"); m != "" { // a modfile of one's own (the shared one may be rewritten by a concurrent check)
			alt = m
		}
		if b, err := os.ReadFile(alt); err == nil && strings.Contains(string(b), "=> "+repo) {
			args = append(args, "-modfile", alt)
		} else {
			stat("conc-race-build:no-alt-mod")
			return ""
		}
	}
	build := exec.Command("go", append(args, ".")...)
	build.Dir = filepath.Join(root, "harness")
	build.Env = append(os.Environ(), "GOWORK=off", "GOFLAGS=-mod=mod", "GOPROXY=off", "GOSUMDB=off", "GOTOOLCHAIN=local", "CGO_CFLAGS=-w -O2 -g")
	if _, err := build.CombinedOutput(); err != nil {
		stat("conc-race-build:failed")
		return ""
	}
	stat("conc-race-build:ok")
	c14RaceBin = bin
	return bin
}

// c14RaceReports counts the reports whose racing access (innermost frame of one of the two accesses) lies in the anchored code
func c14RaceReports(stderr string) (int, []string) {
	ours := 0
	var where []string
	mine := func(t string) bool {
		if strings.Contains(t, "verif_hooks") {
			return false
		}
		for _, p := range []string{"/pkg/obitax/", "/pkg/obiformats/ncbitaxdump/", "/pkg/obitools/obigrep/", "/pkg/obitools/obiannotate/", "/pkg/obitools/obifind/"} {
			if strings.Contains(t, p) {
				return true
			}
		}
		return false
	}
	for _, block := range strings.Split(stderr, "==================") {
		if !strings.Contains(block, "WARNING: DATA RACE") {
			continue
		}
		inAccess, hit := false, false
		for _, l := range strings.Split(block, "\n") {
			t := strings.TrimSpace(l)
			switch {
			case strings.HasPrefix(t, "Read at"), strings.HasPrefix(t, "Write at"), strings.HasPrefix(t, "Previous read at"),
				strings.HasPrefix(t, "Previous write at"), strings.HasPrefix(t, "Atomic"), strings.HasPrefix(t, "Previous atomic"):
				inAccess = true
			case strings.HasPrefix(t, "Goroutine "):
				inAccess = false
			case inAccess && strings.Contains(t, ".go:"):
				// frames of the runtime (map access helpers) come first: the first frame in /pkg/ is the access
				if !strings.Contains(t, "/pkg/") {
					continue
				}
				inAccess = false
				if mine(t) {
					hit = true
					loc := t[strings.LastIndex(t, "/pkg/")+1:]
					if k := strings.IndexByte(loc, ' '); k > 0 {
						loc = loc[:k]
					}
					dup := false
					for _, w := range where {
						dup = dup || w == loc
					}
					if !dup && len(where) < 4 {
						where = append(where, loc)
					}
				}
			}
		}
		if hit {
			ours++
		}
	}
	return ours, where
}

// ---- generator ----

// c14GenConc: trees of hundreds to thousands of nodes (deep ones: every Path / LCA / TaxonAtRank walks hundreds of parent
// links), many merged ids, a few hundred queries of the kinds the parallel commands run, the sequence level ones mostly on
// merged taxids (the closures then take their "deprecated taxid" branch)
func c14GenConc(rng *rand.Rand, tier string, emit func(string)) {
	type spec struct{ n, kind, nq, g, r int }
	specs := []spec{{1200, 3, 260, 8, 30}, {1500, 0, 260, 8, 60}, {400, 1, 220, 8, 15}, {700, 5, 240, 8, 15}}
	if tier == "thorough" {
		specs = []spec{{2500, 3, 400, 16, 25}, {3000, 0, 400, 16, 40}, {900, 1, 300, 12, 15}, {1500, 5, 350, 16, 20}, {2000, 6, 400, 8, 40}, {1200, 2, 300, 16, 40},
			{250, 3, 300, 16, 50}, {60, 0, 300, 16, 60}, {3500, 3, 300, 8, 20}, {1800, 4, 400, 12, 40}}
	}
	var lines []string
	for ci, s := range specs {
		n := s.n + rng.Intn(s.n/4+1)
		ranks := c14Ranks
		if ci%2 == 0 {
			ranks = c14Ranks[22:32] // few labels: the rank walks are long, the rank filters list many taxa
		}
		t := c14Label(rng, c14Shape(rng, n, s.kind), rng.Intn(3), ranks)
		c14Aliases(rng, t, 120+rng.Intn(200))
		var qs []string
		nlist := 0
		for len(qs) < s.nq/2 {
			for _, q := range c14RandQueries(rng, t, ranks, 40) {
				op := strings.SplitN(q, ":", 2)[0]
				if !c14ConcOps[op] {
					continue
				}
				if op == "isub" || op == "irank" || op == "ibel" || op == "itx" { // whole-taxonomy listings (two unbuffered channels per taxon): two or three
					if nlist >= 2+ci%2 {
						continue
					}
					nlist++
				}
				qs = append(qs, q)
			}
			for j := 0; j < 4; j++ {
				qs = append(qs, "val:"+c14SeqAttrA(rng, t), "vf:"+c14SeqAttrA(rng, t))
			}
		}
		// one run of a command: ONE option value (clade list, rank list) = one predicate / worker, and every sequence of the
		// run, each with a taxid of its own, goes through it (what a worker goroutine leaves in the closure is seen, if at all,
		// by a call on ANOTHER taxid)
		clade := func() int { // an inner node: part of the sequences are below it
			ch := t.getRef().chain(t.ids[rng.Intn(len(t.ids))])
			return ch[len(ch)/2]
		}
		rankOf := func() string { return c14Hex(t.rank[t.ids[rng.Intn(len(t.ids))]]) }
		sq := func() string {
			if rng.Intn(4) == 0 {
				return c14SeqAttrA(rng, t)
			}
			return strconv.Itoa(t.ids[rng.Intn(len(t.ids))])
		}
		ca, cb, cc := clade(), clade(), clade()
		r1, r2 := rankOf(), rankOf()
		for j := 0; j < s.nq/10; j++ {
			qs = append(qs, fmt.Sprintf("sp:%d:%s", ca, sq()), fmt.Sprintf("rt:%d,%d:%s", ca, cb, sq()), fmt.Sprintf("ig:%d:%s", cc, sq()),
				fmt.Sprintf("flt:%s:%d:%d:%s", r1, ca, cc, sq()), fmt.Sprintf("hq:%s:%s", r1, sq()), fmt.Sprintf("rr:%s,%s:%s", r1, r2, sq()),
				fmt.Sprintf("sr:%s:%s", r2, sq()), fmt.Sprintf("sw:%s:%s", []string{"sp", "ge", "fa", "r" + r1}[j%4], sq()),
				[]string{"sn:", "tr:", "tpath:"}[j%3]+strconv.Itoa(t.ids[rng.Intn(len(t.ids))]), fmt.Sprintf("rs:%d:%s", []int{ca, cb, cc}[j%3], sq()))
		}
		// obicleandb: ONE IsAValidTaxon() predicate sees every sequence of the run, many of them with a merged taxid it has not seen yet
		for _, j := range rng.Perm(len(t.aliases))[:100] {
			qs = append(qs, fmt.Sprintf("val:%d", t.aliases[j][0]))
		}
		rng.Shuffle(len(qs), func(i, j int) { qs[i], qs[j] = qs[j], qs[i] })
		mode := "tax"
		if n <= 300 && rng.Intn(2) == 0 {
			mode = "taxd"
		}
		l := fmt.Sprintf("conc %d %d ", s.g, s.r) + t.line(mode, qs)
		lines = append(lines, l)
		emit(l)
		stat("gen:conc")
	}
	if tier == "thorough" && c14FirstSeed() {
		// under the race detector (slow: the small ones)
		for _, i := range []int{6, 7, 2} {
			emit("race " + lines[i])
			stat("gen:conc-race")
		}
	}
}
