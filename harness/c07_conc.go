//go:build c07

package main

// conc — reverse complement, subsequence and copy under concurrent use.
//
// What runs concurrently in the commands and what it shares (read in /repo):
//   - obicomplement: MakeIWorker(obiseq.ReverseComplementWorker(true)) — ONE worker closure called by the parallel
//     workers, each on its own records;
//   - obimultiplex / obitagpcr (obingslibrary marker.go, multimatch.go, match.go), obipcr (obiapat/pcr.go), obiannotate,
//     obisplit, IFragments: Subsequence then ReverseComplement(true) / Copy / Recycle of DISTINCT records from the
//     parallel batch workers.  They share the byte-slice pool and the annotation pool of pkg/obiseq/pool.go
//     (sync.Pool: what one goroutine recycles is handed to another), the complement table and nothing else;
//   - obikmersim (seq.ReverseComplement(false) on a candidate found through the shared k-mer map),
//     obialign.ReadAlign (seqB.ReverseComplement(false)), obirefidx (references[i].Copy()), obijoin (index sequences):
//     READ-ONLY use (Copy, ReverseComplement(false), Subsequence) of ONE source sequence by several goroutines;
//   - Qualities() of a sequence without qualities (obijoin v.Qualities(), the aligners on FASTA input) is served
//     from ONE package-level lazily grown buffer (__default_qualities__, biosequence.go).
//
//	conc <g> <r> <n>  n × [ <kind> <shared> <seq> <qual> <mm> <from> <to> ]      -> <answer 1> ; <answer 2> ; ...
//
// kind: rc (ReverseComplement(false)), rci (the shared ReverseComplementWorker(true)), copy, sub / csub (Subsequence
// linear / circular), subrc (Subsequence then ReverseComplement(true) of the piece), dq (Copy of a sequence without
// qualities, then Qualities() of the copy: the default qualities).  shared = 1: the source object is built once and
// read by every goroutine (read-only kinds only); 0: every call builds its own source, as a parser does, and recycles
// it, as the writers / fragmenters do.
//
// The result line is what the n sub-cases answer one after the other, alone (the model recomputes it with rcW / subW
// of Model/SeqAnnot.lean); the oracle then runs the same sub-cases from g goroutines released together, r rounds, every
// derived object being shown twice (at once, and again after the next call of the same goroutine, while it is still
// live) and demands the same answer every time; the shared sources must show afterwards what they showed before.
// For dq the expected answer is the naive one (len × 40) and the concurrent phase runs BEFORE the answer alone is
// taken, so that the shared buffer grows while several goroutines ask (lengths grow from case to case).

import (
	"bytes"
	"fmt"
	"math/rand"
	"os"
	"os/exec"
	"path/filepath"
	"strconv"
	"strings"
	"sync"
	"time"

	"git.metabarcoding.org/obitools/obitools4/obitools4/pkg/obiseq"
)

type c07Sub struct {
	kind          string
	shared        bool
	seq, qual, mm string
	from, to      int
}

var c07ConcKinds = map[string]bool{"rc": true, "rci": true, "copy": true, "sub": true, "csub": true, "subrc": true, "dq": true}

func c07ParseConc(f []string) (g, r int, subs []c07Sub, ok bool) {
	if len(f) < 4 {
		return
	}
	g, e1 := strconv.Atoi(f[1])
	r, e2 := strconv.Atoi(f[2])
	n, e3 := strconv.Atoi(f[3])
	if e1 != nil || e2 != nil || e3 != nil || g < 1 || g > 64 || r < 1 || r > 5000 || n < 1 || n > 64 || len(f) != 4+7*n {
		return
	}
	for i := 0; i < n; i++ {
		w := f[4+7*i : 11+7*i]
		from, e4 := strconv.Atoi(w[5])
		to, e5 := strconv.Atoi(w[6])
		if !c07ConcKinds[w[0]] || (w[1] != "0" && w[1] != "1") || e4 != nil || e5 != nil {
			return
		}
		if w[1] == "1" && w[0] == "rci" { // the in-place worker owns its record
			return
		}
		if w[0] == "dq" { // the length is given by <from>: a run of that many a's, no qualities, no annotation
			if w[2] != "-" || w[3] != "-" || w[4] != "-" || from < 0 || from > 20000000 || to != 0 {
				return
			}
		} else if x, _, okw := c07MkW(w[2], w[3], w[4]); !okw {
			return
		} else {
			x.Recycle()
		}
		subs = append(subs, c07Sub{w[0], w[1] == "1", w[2], w[3], w[4], from, to})
	}
	return g, r, subs, true
}

// c07ConcShowRc prints a reverse complement as the `rcw` op does (two keys rewritten to one: Go map order decides)
func c07ConcShowRc(nin int, r *obiseq.BioSequence) string {
	if m, ok := r.GetIntMap("pairing_mismatches"); ok && len(m) < nin {
		return "collision"
	}
	return c07ShowW(r)
}

func c07Nmm(x *obiseq.BioSequence) int {
	if x.HasAnnotation() {
		if m, ok := x.GetIntMap("pairing_mismatches"); ok {
			return len(m)
		}
	}
	return -1
}

// c07DqShow: length and distinct values (hex, in order of first occurrence) of the qualities Qualities() serves
func c07DqShow(q []byte) string {
	var seen [256]bool
	var d []byte
	for _, b := range q {
		if !seen[b] {
			seen[b] = true
			d = append(d, b)
		}
	}
	return fmt.Sprintf("dq %d %s", len(q), hx(d))
}

// c07ConcCall runs one sub-case: the derived object (nil when there is none), the objects to recycle once the
// caller is done with the derived one, and a function printing the answer from the derived object.
func c07ConcCall(s *c07Sub, src *obiseq.BioSequence, rcWorker obiseq.SeqWorker) (show func() string, release func()) {
	x := src
	own := false
	if x == nil {
		if s.kind == "dq" {
			x = obiseq.NewBioSequence("x", bytes.Repeat([]byte{'a'}, s.from), "")
		} else {
			x, _, _ = c07MkW(s.seq, s.qual, s.mm)
		}
		own = true
	}
	var derived []*obiseq.BioSequence
	release = func() {
		for _, d := range derived {
			if d != nil && d != x {
				d.Recycle()
			}
		}
		if own {
			x.Recycle()
		}
	}
	constant := func(v string) func() string { return func() string { return v } }
	switch s.kind {
	case "rc":
		nin := c07Nmm(x)
		r := x.ReverseComplement(false)
		derived = append(derived, r)
		return func() string { return c07ConcShowRc(nin, r) }, release
	case "rci":
		// as obicomplement does: the shared worker applied to a batch of records through SeqToSliceWorker; every
		// record must come back itself (in place), reverse-complemented
		nin := c07Nmm(x)
		batch := obiseq.BioSequenceSlice{x}
		for len(batch) < 8 {
			y, _, _ := c07MkW(s.seq, s.qual, s.mm)
			batch = append(batch, y)
			derived = append(derived, y)
		}
		out, err := obiseq.SeqToSliceWorker(rcWorker, true)(batch)
		if err != nil || len(out) != len(batch) {
			return constant("worker-error"), release
		}
		for i := range out {
			if out[i] != batch[i] {
				return constant(fmt.Sprintf("the worker returned another record than record %d of its batch", i)), release
			}
		}
		return func() string {
			first := c07ConcShowRc(nin, out[0])
			for i := range out {
				if o := c07ConcShowRc(nin, out[i]); o != first {
					return "record " + strconv.Itoa(i) + " of the batch: " + o
				}
			}
			return first
		}, release
	case "copy":
		r := x.Copy()
		derived = append(derived, r)
		return func() string { return c07ShowW(r) }, release
	case "dq":
		r := x.Copy()
		derived = append(derived, r)
		return func() string { return c07DqShow(r.Qualities()) }, release
	case "sub", "csub":
		r, err := x.Subsequence(s.from, s.to, s.kind == "csub")
		if err != nil {
			return constant("err"), release
		}
		derived = append(derived, r)
		return func() string { return "ok " + c07ShowW(r) }, release
	case "subrc":
		p, err := x.Subsequence(s.from, s.to, false)
		if err != nil {
			return constant("err"), release
		}
		nin := c07Nmm(p)
		r := p.ReverseComplement(true)
		derived = append(derived, p)
		if r != p {
			derived = append(derived, r)
		}
		return func() string { return "ok " + c07ConcShowRc(nin, r) }, release
	}
	return constant("bad-op"), release
}

func c07ExecConc(f []string) (string, []Fail) {
	if len(f) >= 2 && f[1] == "race" {
		return c07Race(strings.Join(append([]string{"conc"}, f[2:]...), " "))
	}
	g, r, subs, ok := c07ParseConc(f)
	if !ok {
		return "bad-op", nil
	}
	var fails []Fail
	res := guardT(120*time.Second, func() string {
		rcWorker := obiseq.ReverseComplementWorker(true) // one closure for all the workers, as obicomplement does
		srcs := make([]*obiseq.BioSequence, len(subs))
		srcShow := make([]string, len(subs))
		for i := range subs {
			if subs[i].shared && subs[i].kind != "dq" {
				srcs[i], _, _ = c07MkW(subs[i].seq, subs[i].qual, subs[i].mm)
				srcShow[i] = c07ShowW(srcs[i])
			}
		}
		one := func(i int) (res string) {
			defer func() {
				if recover() != nil {
					res = "panic"
				}
			}()
			show, release := c07ConcCall(&subs[i], srcs[i], rcWorker)
			res = show()
			release()
			return res
		}
		expected := make([]string, len(subs))
		alone := make([]string, len(subs))
		hasDq := false
		for i := range subs {
			if subs[i].kind == "dq" {
				// naive expectation; the answer of the code alone is taken after the concurrent phase
				hasDq = true
				expected[i] = c07DqShow(bytes.Repeat([]byte{40}, subs[i].from))
			} else {
				alone[i] = one(i)
				expected[i] = alone[i]
			}
		}
		type bad struct {
			i, goroutine int
			got, when    string
		}
		var mu sync.Mutex
		var first *bad
		nbad, total, npanic := 0, 0, 0
		record := func(i, k int, got, when string) {
			mu.Lock()
			total++
			if got != expected[i] {
				nbad++
				if first == nil {
					first = &bad{i, k, got, when}
				}
			}
			mu.Unlock()
		}
		start := make(chan struct{})
		var wg sync.WaitGroup
		for k := 0; k < g; k++ {
			wg.Add(1)
			go func(k int) {
				defer wg.Done()
				<-start
				// the derived object of the previous call stays live during the next call and is shown again after it
				var prevShow func() string
				var prevRelease func()
				prevI := -1
				flush := func() {
					if prevI >= 0 {
						func() {
							defer func() {
								if recover() != nil {
									record(prevI, k, "panic", "shown again after the next call")
								}
							}()
							record(prevI, k, prevShow(), "shown again after the next call")
							prevRelease()
						}()
						prevI = -1
					}
				}
				for round := 0; round < r; round++ {
					for j := range subs {
						i := (j + k) % len(subs)
						func() {
							defer func() {
								if recover() != nil {
									mu.Lock()
									npanic++
									mu.Unlock()
									record(i, k, "panic", "at once")
								}
							}()
							show, release := c07ConcCall(&subs[i], srcs[i], rcWorker)
							record(i, k, show(), "at once")
							flush()
							prevShow, prevRelease, prevI = show, release, i
						}()
					}
				}
				flush()
			}(k)
		}
		close(start)
		wg.Wait()
		for i := range subs {
			if subs[i].kind == "dq" {
				alone[i] = one(i)
			}
		}
		stat(fmt.Sprintf("conc:g%d", g))
		stat("conc:cases")
		if hasDq {
			stat("conc:with-default-qualities")
		}
		for i := range subs {
			stat("conc:kind:" + subs[i].kind)
			if subs[i].shared {
				stat("conc:shared-source")
			}
			if l := len(subs[i].seq) / 2; subs[i].kind == "dq" {
			} else if l <= 1024 {
				stat("conc:len<=1024(pooled)")
			} else {
				stat("conc:len>1024")
			}
		}
		short := func(s string) string {
			if len(s) > 160 {
				return s[:160] + "…"
			}
			return s
		}
		if npanic > 0 {
			fails = append(fails, Fail{"conc.panic", fmt.Sprintf("%d of %d concurrent calls panicked (none does when the sub-cases are run alone)", npanic, g*r*len(subs))})
		}
		if first != nil {
			s := subs[first.i]
			nb := len(s.seq) / 2
			if s.kind == "dq" {
				nb = s.from
			}
			fails = append(fails, Fail{"conc.differs", fmt.Sprintf(
				"%d of %d answers obtained concurrently differ from the answer alone; e.g. sub-case %d (%s, %d bases, shared source %v, window %d..%d) in goroutine %d, %s: %s",
				nbad, total, first.i, s.kind, nb, s.shared, s.from, s.to, first.goroutine, first.when, c07DiffAt(expected[first.i], first.got))})
		}
		for i := range subs {
			if srcs[i] != nil {
				if now := c07ShowW(srcs[i]); now != srcShow[i] {
					fails = append(fails, Fail{"conc.source-changed", fmt.Sprintf(
						"sub-case %d (%s): the source read by %d goroutines shows %s afterwards, showed %s before", i, subs[i].kind, g, short(now), short(srcShow[i]))})
					break
				}
			}
		}
		return strings.Join(alone, " ; ")
	})
	return res, fails
}

// c07DiffAt shows two long answers around their first difference
func c07DiffAt(want, got string) string {
	d := 0
	for d < len(want) && d < len(got) && want[d] == got[d] {
		d++
	}
	win := func(s string) string {
		a, b := d-40, d+80
		pre, post := "…", "…"
		if a <= 0 {
			a, pre = 0, ""
		}
		if b >= len(s) {
			b, post = len(s), ""
		}
		return pre + s[a:b] + post
	}
	return fmt.Sprintf("first difference at character %d of the answer (%d / %d characters): alone %s, concurrently %s", d, len(want), len(got), win(want), win(got))
}

// ---- replay under the race detector (thorough tier, first seed) ----

var (
	c07RaceBin   string
	c07RaceTried bool
)

func c07RepoDir() string {
	if r := os.Getenv("VERIF_REPO"); r != "" {
		return r
	}
	return "/repo"
}

func c07FirstSeed() bool {
	for i, a := range os.Args {
		if a == "-seed" && i+1 < len(os.Args) {
			s, err := strconv.Atoi(os.Args[i+1])
			return err == nil && s%1000 == 0
		}
	}
	return false
}

func c07RaceBuild() string {
	if c07RaceTried {
		return c07RaceBin
	}
	c07RaceTried = true
	root := os.Getenv("VERIF_ROOT")
	if root == "" {
		root = "/verif"
	}
	bin := filepath.Join(binDir(), "harness_C07_race")
	args := []string{"build", "-race", "-tags", "verif,c07", "-o", bin}
	if repo := c07RepoDir(); repo != "/repo" {
		// a scratch tree is under check: the driver wrote go.alt.mod (module replaced by that tree)
		alt := filepath.Join(root, "harness", "go.alt.mod")
		if b, err := os.ReadFile(alt); err == nil && strings.Contains(string(b), "=> "+repo) {
			args = append(args, "-modfile", alt)
		} else {
			stat("race-build:no-alt-mod")
			return ""
		}
	}
	build := exec.Command("go", append(args, ".")...)
	build.Dir = filepath.Join(root, "harness")
	build.Env = append(os.Environ(), "GOWORK=off", "GOFLAGS=-mod=mod", "GOPROXY=off", "GOSUMDB=off", "GOTOOLCHAIN=local", "CGO_CFLAGS=-w -O2 -g")
	if _, err := build.CombinedOutput(); err != nil {
		stat("race-build:failed")
		return ""
	}
	stat("race-build:ok")
	c07RaceBin = bin
	return bin
}

// c07Race replays one conc case through a `go build -race` build of this harness; a report of the race detector one
// of whose two racing ACCESSES (innermost frame) lies in pkg/obiseq is a failure.
func c07Race(inner string) (string, []Fail) {
	if os.Getenv("VERIF_C07_RACE") != "" { // we ARE the race-built binary
		return c07ExecConc(strings.Fields(inner))
	}
	bin := c07RaceBuild()
	if bin == "" {
		stat("race:unavailable")
		return c07ExecConc(strings.Fields(inner))
	}
	cmd := exec.Command(bin, "C07", "exec")
	cmd.Stdin = strings.NewReader(inner + "\n")
	cmd.Env = append(os.Environ(), "VERIF_C07_RACE=1", "GORACE=halt_on_error=0", "VERIF_WATCHDOG_SCALE=10")
	var stdout, stderr bytes.Buffer
	cmd.Stderr = &stderr
	cmd.Stdout = &stdout
	_ = cmd.Run()
	res := "race-replay-failed"
	var fails []Fail
	for _, l := range strings.Split(stdout.String(), "\n") {
		f := strings.Split(l, "\t")
		if f[0] == "C" && len(f) >= 3 {
			res = f[2]
		}
		if f[0] == "F" && len(f) >= 4 {
			fails = append(fails, Fail{f[1], f[3]})
		}
	}
	stat("race-replay:done")
	ours, other := 0, 0
	var where []string
	for _, block := range strings.Split(stderr.String(), "==================") {
		if !strings.Contains(block, "WARNING: DATA RACE") {
			continue
		}
		inAccess, mine := false, false
		for _, l := range strings.Split(block, "\n") {
			t := strings.TrimSpace(l)
			switch {
			case strings.HasPrefix(t, "Read at"), strings.HasPrefix(t, "Write at"), strings.HasPrefix(t, "Previous read at"),
				strings.HasPrefix(t, "Previous write at"), strings.HasPrefix(t, "Atomic"), strings.HasPrefix(t, "Previous atomic"):
				inAccess = true
			case strings.HasPrefix(t, "Goroutine "):
				inAccess = false
			case inAccess && strings.Contains(t, ".go:"):
				inAccess = false
				if strings.Contains(t, "/pkg/obiseq/") && !strings.Contains(t, "verif_hooks") && !strings.Contains(t, "pool_poison_verif") {
					mine = true
					loc := t[strings.LastIndex(t, "/pkg/")+1:]
					if k := strings.IndexByte(loc, ' '); k > 0 {
						loc = loc[:k]
					}
					dup := false
					for _, w := range where {
						dup = dup || w == loc
					}
					if !dup && len(where) < 6 {
						where = append(where, loc)
					}
				}
			}
		}
		if mine {
			ours++
		} else {
			other++
		}
	}
	if other > 0 {
		stat("race-replay:race-elsewhere")
	}
	if ours > 0 {
		fails = append(fails, Fail{"conc.race-detector", fmt.Sprintf("the Go race detector reports %d data race(s) with an access in pkg/obiseq (at %s)", ours, strings.Join(where, ", "))})
		stat("race-replay:DATA-RACE")
	} else {
		stat("race-replay:quiet")
	}
	return res, fails
}

// ---- generator ----

var c07ConcDqLen = 0 // default-qualities lengths grow from case to case, so that every case makes the shared buffer grow

// c07GenConc: a mix of records served by the pool (<= 1024 bytes) and of long ones (long loops: the calls overlap),
// with / without qualities, 0-4 well-formed pairing_mismatches entries, windows anywhere, some sources shared.
func c07GenConc(rng *rand.Rand, tier string, emit func(string)) {
	ncase, g, r, long := 4, 8, 150, 6000
	if tier == "thorough" {
		ncase, g, r, long = 8, 16, 60, 20000
	}
	// all the goroutines ask for default qualities longer than any served before, together (no PRNG draw).  On the code
	// before notes/patches/C07-default-qualities-race.diff this line alone fails in 8 runs out of 10 (zeros among the
	// 40s, for ever after once it has happened, or slice bounds out of range).
	c07ConcDqLen += 23020
	emit(fmt.Sprintf("conc %d 50 1 dq 0 - - - %d 0", g, c07ConcDqLen))
	stat("gen:conc")
	for c := 0; c < ncase; c++ {
		n := 7 + rng.Intn(3)
		var b strings.Builder
		// every kind at least once, in any order
		kinds := []string{"rc", "rci", "copy", "sub", "csub", "subrc"}
		for len(kinds) < n {
			kinds = append(kinds, []string{"rc", "subrc", "sub", "rci", "csub"}[rng.Intn(5)])
		}
		rng.Shuffle(len(kinds), func(i, j int) { kinds[i], kinds[j] = kinds[j], kinds[i] })
		seenKind := map[string]bool{}
		fmt.Fprintf(&b, "conc %d %d %d", g, r, n+1)
		raceHead := fmt.Sprintf("conc race 6 3 %d ", n+1)
		for i := 0; i < n; i++ {
			kind := kinds[i%len(kinds)]
			l := 0
			switch rng.Intn(4) {
			case 0:
				l = 1 + rng.Intn(300) // fits the buffers the pool creates (cap 300)
			case 1, 2:
				l = 300 + rng.Intn(725) // pooled, reallocated by GetSlice when the item handed out is too small
			case 3:
				l = 1025 + rng.Intn(long) // never pooled
			}
			s := c07RandSeq(rng, l, true)
			q := "-"
			if rng.Intn(2) == 0 {
				q = c07RandQual(rng, l)
			}
			mm := "-"
			if rng.Intn(3) > 0 {
				mm = c07GenMm(rng, l, false)
			}
			// the first rc / sub / copy of a case read a source shared by all the goroutines, the first subrc owns its
			// source; the others: either
			shared := 0
			if kind != "rci" && rng.Intn(2) == 0 {
				shared = 1
			}
			if !seenKind[kind] {
				seenKind[kind] = true
				switch kind {
				case "rc", "sub", "copy":
					shared = 1
				case "subrc":
					shared = 0
				}
			}
			from, to := 0, 0
			switch kind {
			case "sub", "subrc":
				from = rng.Intn(l)
				to = from + 1 + rng.Intn(l-from)
			case "csub":
				from, to = rng.Intn(l), 1+rng.Intn(l)
				if rng.Intn(3) == 0 && from+1 < l { // wrapping
					to = 1 + rng.Intn(from+1)
				}
			}
			fmt.Fprintf(&b, " %s %d %s %s %s %d %d", kind, shared, hx(s), q, mm, from, to)
		}
		// default qualities: longer than anything asked before in this process
		c07ConcDqLen += 20000 + rng.Intn(5000)
		if tier == "thorough" {
			c07ConcDqLen += 60000
		}
		fmt.Fprintf(&b, " dq 0 - - - %d 0", c07ConcDqLen)
		emit(b.String())
		stat("gen:conc")
		if tier == "thorough" && c < 3 && c07FirstSeed() {
			// the detector needs the accesses, not the luck: few goroutines, few rounds (the instrumented build is slow)
			emit(raceHead + strings.TrimPrefix(b.String(), fmt.Sprintf("conc %d %d %d ", g, r, n+1)))
			stat("gen:conc-race")
		}
	}
}
