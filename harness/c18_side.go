//go:build c18

package main

// The side files of obiclean (Model/WriteSide.lean, Props/C18S.lean): `--save-ratio FILE` (a CSV table written by
// obiclean/graph.go EmpiricalDistCsv) and `--save-graph DIR` (one GML file per sample, SaveGMLGraphs). They are outputs
// the user asked for: a failure to create / write / close one of them must end the command with a non-zero status.
//
//	cmd obiclean <scenario> <n> <N> fasta     n = number of variants of the head sequence (2n rows in the table, n edges
//	    per graph); N = size of the side file at fault on a run without fault (measured first: data for the model)
//	  side-ratio-devfull   --save-ratio /dev/full (n large: the table is several times the 4 KiB of a bufio.Writer)
//	  side-ratio-nodir     --save-ratio <missing directory>/r.csv
//	  side-ratio-isdir     --save-ratio <a directory>
//	  side-graph-devfull   --save-graph DIR where DIR/A.gml is a symbolic link to /dev/full
//	  side-graph-isdir     --save-graph DIR where DIR/B.gml is a directory (the file cannot be created)
//	  side-graph-mkdir     --save-graph <a regular file>/g (the directory cannot be created: log.Panicf, already non-zero)
//	  nofault-side-ratio / nofault-side-graph / nofault-side-both : status 0 and the files hold what they have to hold
//	  both<S>-<g>-<r>      BOTH options at once, S = 2 | 3 samples (A, B, C); <g> = ok | full<X> (DIR/<X>.gml is a symbolic
//	                       link to /dev/full) | isdir<X> (DIR/<X>.gml is a directory); <r> = ok | full (/dev/full) | nodir:
//	                       graph faulted + table fine, graph fine + table faulted, both faulted, both fine. The status is 0
//	                       iff ALL the side files are written (Model/WriteSide.lean exitSide: `sides.any Side.bad`): the
//	                       success of a later side file must not erase the failure of an earlier one (seeded C18-m7). The
//	                       graphs are written in the order of a Go map: the faulted one is met first / in the middle / last
//	                       at random (statistic side-graph-fault-met-after-<k>-of-<S>, read from the files left behind).
//
// oracle signatures: cmd.obiclean.side-file.<scenario>[.content|.no-message]

import (
	"bytes"
	"fmt"
	"os"
	"os/exec"
	"path/filepath"
	"sort"
	"strconv"
	"strings"
	"syscall"
	"time"
)

var c18SideCommands = []string{"obiclean"}

// c18SideInput: one abundant sequence `h` present in samples A and B and n variants of it, each with ONE substitution
// at a position of its own: every variant is a son of `h` at distance 1 in both samples and of nobody else.
func c18SideInput(path string, n int, samples []string) (want []string) {
	l := n + 20
	if l < 60 {
		l = 60
	}
	head := make([]byte, l)
	for i := range head {
		head[i] = "acgt"[(i*7+i/4+i/9)%4]
	}
	next := map[byte]byte{'a': 'c', 'c': 'g', 'g': 't', 't': 'a'}
	var b strings.Builder
	// sample A: 200 reads of h and 4 of each variant; every other sample: 100 and 2
	ms := func(a, o int) (string, int) {
		var p []string
		tot := 0
		for _, sample := range samples {
			c := o
			if sample == "A" {
				c = a
			}
			tot += c
			p = append(p, fmt.Sprintf("\"%s\":%d", sample, c))
		}
		return strings.Join(p, ","), tot
	}
	hm, hc := ms(200, 100)
	vm, vc := ms(4, 2)
	fmt.Fprintf(&b, ">h {\"count\":%d,\"merged_sample\":{%s}}\n%s\n", hc, hm, head)
	for i := 0; i < n; i++ {
		p := 5 + i
		s := append([]byte{}, head...)
		s[p] = next[head[p]]
		fmt.Fprintf(&b, ">v%d {\"count\":%d,\"merged_sample\":{%s}}\n%s\n", i, vc, vm, s)
		for _, sample := range samples {
			want = append(want, fmt.Sprintf("%s,h,%c,%c,%d", sample, head[p], s[p], p))
		}
	}
	os.WriteFile(path, []byte(b.String()), 0o644)
	sort.Strings(want)
	return want
}

const c18RatioHeader = "Sample,Father_id,Father_status,From,To,Weight_from,Weight_to,Count_from,Count_to,Position,length,A,C,G,T"

// c18SideCsvOK: the header, 15 columns per row, and the rows (sample, father, from, to, position) that the input calls
// for, each once (weights / statuses are the subject of C13)
func c18SideCsvOK(path string, want []string) string {
	b, err := os.ReadFile(path)
	if err != nil {
		return "the ratio table does not exist: " + err.Error()
	}
	if len(b) == 0 || b[len(b)-1] != '\n' {
		return "the ratio table is empty or does not end with a newline"
	}
	lines := strings.Split(strings.TrimSuffix(string(b), "\n"), "\n")
	if lines[0] != c18RatioHeader {
		return "the ratio table starts with " + lines[0]
	}
	var got []string
	for _, l := range lines[1:] {
		c := strings.Split(l, ",")
		if len(c) != 15 {
			return "row with " + strconv.Itoa(len(c)) + " columns: " + l
		}
		got = append(got, strings.Join([]string{c[0], c[1], c[3], c[4], c[9]}, ","))
	}
	sort.Strings(got)
	if strings.Join(got, ";") != strings.Join(want, ";") {
		return fmt.Sprintf("the ratio table holds %d rows %v, expected %d rows %v", len(got), c18Tail(strings.Join(got, ";")), len(want), c18Tail(strings.Join(want, ";")))
	}
	return ""
}

// c18SideGmlOK: one well-formed graph per sample: `graph [` … `]` with balanced brackets, n+1 nodes, n edges
func c18SideGmlOK(dir string, n int, samples []string) string {
	for _, sample := range samples {
		b, err := os.ReadFile(filepath.Join(dir, sample+".gml"))
		if err != nil {
			return "graph file missing: " + err.Error()
		}
		t := strings.TrimSpace(string(b))
		if !strings.HasPrefix(t, "graph [") || !strings.HasSuffix(t, "]") {
			return "graph file of sample " + sample + " is not `graph [ … ]`: " + c18Tail(t)
		}
		depth := 0
		for _, ch := range t {
			switch ch {
			case '[':
				depth++
			case ']':
				depth--
				if depth < 0 {
					return "graph file of sample " + sample + ": unbalanced brackets"
				}
			}
		}
		nodes, edges := strings.Count(t, "node ["), strings.Count(t, "edge [")
		if depth != 0 || nodes != n+1 || edges != n {
			return fmt.Sprintf("graph file of sample %s: bracket depth %d at the end, %d nodes, %d edges; expected 0, %d, %d", sample, depth, nodes, edges, n+1, n)
		}
		if !strings.Contains(t, "Obiclean graph for sample "+sample) {
			return "graph file of sample " + sample + " does not name its sample"
		}
	}
	ents, _ := os.ReadDir(dir)
	if len(ents) != len(samples) {
		return fmt.Sprintf("%d files in the graph directory, expected %d", len(ents), len(samples))
	}
	return ""
}

// c18SideBoth parses the scenario `both<S>-<g>-<r>`: the samples, the kind of fault of the graph files (ok | full |
// isdir) and the sample whose graph is at fault, the kind of fault of the ratio table (ok | full | nodir)
func c18SideBoth(sc string) (samples []string, g, gs, r string, ok bool) {
	p := strings.Split(sc, "-")
	if len(p) != 3 || (p[0] != "both2" && p[0] != "both3") {
		return
	}
	samples = []string{"A", "B", "C"}[:int(p[0][4]-'0')]
	switch {
	case p[1] == "ok":
		g = "ok"
	case strings.HasPrefix(p[1], "full"):
		g, gs = "full", p[1][4:]
	case strings.HasPrefix(p[1], "isdir"):
		g, gs = "isdir", p[1][5:]
	default:
		return
	}
	if g != "ok" {
		known := false
		for _, s := range samples {
			known = known || s == gs
		}
		if !known {
			return
		}
	}
	r = p[2]
	ok = r == "ok" || r == "full" || r == "nodir"
	return
}

func c18CmdSide(f []string) (res c18Res) {
	res.over = strings.Join(f, " ")
	res.stats = map[string]int{}
	bad := func(sig, text string) c18Res {
		res.res = "bad-op"
		if sig != "" {
			res.fails = []Fail{{Sig: sig, Text: text}}
		}
		return res
	}
	if len(f) < 6 || f[5] != "fasta" {
		return bad("", "")
	}
	sc := f[2]
	n, e1 := strconv.Atoi(f[3])
	if _, e2 := strconv.Atoi(f[4]); e1 != nil || e2 != nil || n < 1 || n > 2000 {
		return bad("", "")
	}
	if err := c18BuildCommands(); err != nil {
		return bad("cmd.build", err.Error())
	}
	bin := filepath.Join(c18CmdDir(), "obiclean")
	dir, _ := os.MkdirTemp("", "c18side")
	defer os.RemoveAll(dir)
	in := filepath.Join(dir, "in.fasta")
	samples := []string{"A", "B"}
	bothS, bothG, bothGS, bothR, both := c18SideBoth(sc)
	if both {
		samples = bothS
	} else if strings.HasPrefix(sc, "both") {
		return bad("", "")
	}
	want := c18SideInput(in, n, samples)
	base := []string{"--min-eval-rate", "1", "--no-progressbar"}
	run := func(args []string) (string, string, string, bool) {
		cmd := exec.Command(bin, append(append(append([]string{}, base...), args...), in)...)
		var stderr, stdout bytes.Buffer
		cmd.Stderr, cmd.Stdout = &stderr, &stdout
		cmd.Env = c18CmdEnv()
		if err := cmd.Start(); err != nil {
			return "start-error", err.Error(), "", false
		}
		done := make(chan error, 1)
		go func() { done <- cmd.Wait() }()
		select {
		case err := <-done:
			if err == nil {
				return "exit0", stderr.String(), stdout.String(), false
			}
			sig := false
			if ee, ok := err.(*exec.ExitError); ok {
				if ws, ok := ee.Sys().(syscall.WaitStatus); ok && ws.Signaled() {
					sig = true
				}
			}
			return "exit-nonzero", stderr.String(), stdout.String(), sig
		case <-time.After(60 * time.Second):
			cmd.Process.Kill()
			return "hang", stderr.String(), stdout.String(), false
		}
	}
	// the run without fault: the sizes of the side files (data for the model) and the controls
	ref := filepath.Join(dir, "ref")
	os.Mkdir(ref, 0o755)
	refCsv, refG := filepath.Join(ref, "r.csv"), filepath.Join(ref, "g")
	r0, e0, _, _ := run([]string{"--save-ratio", refCsv, "--save-graph", refG, "-o", filepath.Join(ref, "out.fasta")})
	sig := "cmd.obiclean.side-file." + sc
	if r0 != "exit0" {
		return bad("cmd.obiclean.side-file.reference-run", "obiclean whose side files can be written ended with "+r0+": "+c18Tail(e0))
	}
	size := func(p string) int64 {
		st, err := os.Stat(p)
		if err != nil {
			return 0
		}
		return st.Size()
	}
	out := filepath.Join(dir, "out.fasta")
	csv, g := filepath.Join(dir, "r.csv"), filepath.Join(dir, "g")
	var args []string
	needed := int64(0)
	switch sc {
	case "side-ratio-devfull":
		args, needed = []string{"--save-ratio", "/dev/full"}, size(refCsv)
	case "side-ratio-nodir":
		args, needed = []string{"--save-ratio", filepath.Join(dir, "no", "such", "dir", "r.csv")}, size(refCsv)
	case "side-ratio-isdir":
		os.Mkdir(csv, 0o755)
		args, needed = []string{"--save-ratio", csv}, size(refCsv)
	case "side-graph-devfull":
		os.Mkdir(g, 0o755)
		os.Symlink("/dev/full", filepath.Join(g, "A.gml"))
		args, needed = []string{"--save-graph", g}, size(filepath.Join(refG, "A.gml"))
	case "side-graph-isdir":
		os.Mkdir(g, 0o755)
		os.Mkdir(filepath.Join(g, "B.gml"), 0o755)
		args, needed = []string{"--save-graph", g}, size(filepath.Join(refG, "B.gml"))
	case "side-graph-mkdir":
		os.WriteFile(filepath.Join(dir, "afile"), []byte("x"), 0o644)
		args, needed = []string{"--save-graph", filepath.Join(dir, "afile", "g")}, size(filepath.Join(refG, "A.gml"))
	case "nofault-side-ratio":
		args, needed = []string{"--save-ratio", csv}, size(refCsv)
	case "nofault-side-graph":
		args, needed = []string{"--save-graph", g}, size(filepath.Join(refG, "A.gml"))
	case "nofault-side-both":
		args, needed = []string{"--save-ratio", csv, "--save-graph", g}, size(refCsv)
	default:
		if !both {
			return bad("", "")
		}
		// both options; `needed` = the size of a side file at fault (the graph if there is one), of the table if none is
		os.Mkdir(g, 0o755)
		needed = size(refCsv)
		ratio := csv
		switch bothR {
		case "full":
			ratio = "/dev/full"
		case "nodir":
			ratio = filepath.Join(dir, "no", "such", "dir", "r.csv")
		}
		switch bothG {
		case "full":
			os.Symlink("/dev/full", filepath.Join(g, bothGS+".gml"))
			needed = size(filepath.Join(refG, bothGS+".gml"))
		case "isdir":
			os.Mkdir(filepath.Join(g, bothGS+".gml"), 0o755)
			needed = size(filepath.Join(refG, bothGS+".gml"))
		}
		args = []string{"--save-graph", g, "--save-ratio", ratio}
	}
	f[4] = strconv.FormatInt(needed, 10)
	res.over = strings.Join(f, " ")
	if needed <= 0 {
		return bad(sig, "the run without fault left an empty side file")
	}
	var errText, outText string
	var signaled bool
	res.res, errText, outText, signaled = run(append(args, "-o", out))
	res.stats["subprocess:"+sc]++
	res.stats["subprocess-cmd:obiclean"]++
	if needed > 4096 {
		res.stats["subprocess:side-file-larger-than-4KiB"]++
	}
	if both {
		kind := map[bool]string{true: "fine", false: "faulted"}
		res.stats["subprocess:side-both-graph-"+kind[bothG == "ok"]+"-ratio-"+kind[bothR == "ok"]]++
		if bothG != "ok" {
			// the graphs are written in map order and (unchanged code) the first failure ends the run: the graph files of
			// the other samples that exist were written before the faulted one was met
			before := 0
			for _, s := range samples {
				if s != bothGS && size(filepath.Join(g, s+".gml")) > 0 {
					before++
				}
			}
			res.stats[fmt.Sprintf("subprocess:side-graph-fault-met-after-%d-of-%d", before, len(samples))]++
		}
	}
	nofault := strings.HasPrefix(sc, "nofault") || (both && bothG == "ok" && bothR == "ok")
	if nofault {
		if res.res != "exit0" {
			res.fails = append(res.fails, Fail{Sig: sig, Text: "obiclean whose side files can all be written ended with " + res.res + ": " + c18Tail(errText)})
			return res
		}
		if sc != "nofault-side-graph" {
			if msg := c18SideCsvOK(csv, want); msg != "" {
				res.fails = append(res.fails, Fail{Sig: sig + ".content", Text: msg})
			} else if a, _ := os.ReadFile(csv); true {
				// the same input gives the same table (the reference run wrote it elsewhere)
				if b, _ := os.ReadFile(refCsv); !bytes.Equal(a, b) {
					res.fails = append(res.fails, Fail{Sig: sig + ".content", Text: "two runs on the same input wrote different ratio tables"})
				}
			}
		}
		if sc != "nofault-side-ratio" {
			if msg := c18SideGmlOK(g, n, samples); msg != "" {
				res.fails = append(res.fails, Fail{Sig: sig + ".content", Text: msg})
			}
		}
		if size(out) <= 0 {
			res.fails = append(res.fails, Fail{Sig: sig, Text: "obiclean ended with status 0 but its main output is missing or empty"})
		}
		return res
	}
	if res.res != "exit-nonzero" {
		res.fails = append(res.fails, Fail{Sig: sig, Text: fmt.Sprintf("obiclean %s: a side file of %d bytes that the user asked for cannot be written, and the command ended with %s (stdout: %q, stderr: %q)", strings.Join(args, " "), needed, res.res, c18Tail(outText), c18Tail(errText))})
	} else if !signaled {
		low := strings.ToLower(errText)
		if !strings.Contains(low, "fatal") && !strings.Contains(low, "cannot") && !strings.Contains(low, "error") && !strings.Contains(low, "panic") {
			res.fails = append(res.fails, Fail{Sig: sig + ".no-message", Text: "obiclean failed without reporting the failure on stderr: " + c18Tail(errText)})
		}
		res.stats["subprocess:reported-on-stderr"]++
	}
	return res
}
