//go:build c01

package main

// C01, glue pass: the records of SEVERAL input files through the command-level plumbing.
//
//	mread r=<readers> sync=<0|1> <kind>:<nrec>:<bufsz>:<workers>:<shuf> ...
//	      obiformats.ReadSequencesBatchFromFiles in-process.  The per-file reader is the composition the real readers make
//	      (ReadSeqFileChunk with a small buffer, N racing real parser workers, batches numbered by chunk, NOT re-sequenced),
//	      its batches handed over in file order (shuf 0), reversed (1) or shuffled (2); sync=1: the files read at the same
//	      moment are all open before the first batch of any of them is taken (barrier in the reader).
//	cli   rw=<strict read workers> pf=<ParallelFilesRead> cpu=<--max-cpu> m=<guess|fasta|fastq|genbank|embl> o=<0|1> p=<0|1> <kind>:<nrec>:<plain|gz> ...
//	      obiconvert.CLIReadBioSequences in-process, the option globals set by the real option parser from a real argv
//	      (--max-cpu, --no-order, --fasta …, --paired-with), rw / pf set as the main() of the commands do.
//	cmd   <obiconvert|obigrep> cpu=<n|e<n>> m=<…> o=<0|1> <kind>:<nrec>:<plain|gz> ...
//	      the real binary as a subprocess (e<n>: OBIMAXCPU in the environment), records read back from its output.
//	<kind> = fa | fq | gb | em | empty ; record k of input i has the identifier r<i>_<k> (c01BigRec / c01BigText).
//
// Exec appends the observation the model needs: `k=<batches of each file>` and `t=<file of the batch numbered 0,1,2,…>`; the
// model (Model/ReadGlue.lean of C17 through Driver/C01.lean) replays that trace as an execution of the transition system
// with the number of readers IT derives from the options.
// Oracle (independent of the model): batch numbers are exactly 0..k-1, every record of every file is delivered exactly once
// with the content its own text implies, in file order per file, in list order unless --no-order; an ordering consumer
// (the real SortBatches fed in arrival order) delivers every record.

import (
	"bytes"
	"compress/gzip"
	"fmt"
	"io"
	"math/rand"
	"os"
	"os/exec"
	"path/filepath"
	"runtime"
	"sort"
	"strconv"
	"strings"
	"sync"
	"sync/atomic"
	"time"

	"git.metabarcoding.org/obitools/obitools4/obitools4/pkg/obiformats"
	"git.metabarcoding.org/obitools/obitools4/obitools4/pkg/obiiter"
	"git.metabarcoding.org/obitools/obitools4/obitools4/pkg/obioptions"
	"git.metabarcoding.org/obitools/obitools4/obitools4/pkg/obiseq"
	"git.metabarcoding.org/obitools/obitools4/obitools4/pkg/obitools/obiconvert"
)

const c01GlueFlatLen = 70

type c01GIn struct {
	kind string // fa fq gb em empty
	nrec int
	a, b, c int    // mread: bufsz, workers, shuf
	tr   string // cli / cmd: plain | gz
}

func c01GlueKindOK(k string) bool { return k == "fa" || k == "fq" || k == "gb" || k == "em" }

func c01GlueText(idx int, in c01GIn) []byte {
	var b bytes.Buffer
	for k := 0; k < in.nrec; k++ {
		b.Write(c01BigText(in.kind, k, int64(idx), c01GlueFlatLen))
	}
	return b.Bytes()
}

var c01GlueExt = map[string]string{"fa": "fasta", "fq": "fastq", "gb": "gb", "em": "dat", "empty": "fasta"}

// c01GlueWrite writes input idx into dir and returns its path
func c01GlueWrite(dir string, idx int, in c01GIn) string {
	var data []byte
	if in.kind != "empty" {
		data = c01GlueText(idx, in)
	}
	name := fmt.Sprintf("f%d.%s", idx, c01GlueExt[in.kind])
	if in.tr == "gz" && len(data) > 0 {
		var z bytes.Buffer
		w := gzip.NewWriter(&z)
		w.Write(data)
		w.Close()
		data = z.Bytes()
		name += ".gz"
	}
	p := filepath.Join(dir, name)
	os.WriteFile(p, data, 0o644)
	return p
}

func c01GlueTmp() string {
	root := ""
	if st, err := os.Stat("/dev/shm"); err == nil && st.IsDir() {
		root = "/dev/shm"
	}
	dir, err := os.MkdirTemp(root, "c01g")
	if err != nil {
		dir, _ = os.MkdirTemp("", "c01g")
	}
	return dir
}

// what one delivered record is: (file, rank in its file), -1 when the identifier is not of the form r<i>_<k>
func c01GlueId(id string) (int, int) {
	if !strings.HasPrefix(id, "r") {
		return -1, -1
	}
	p := strings.SplitN(id[1:], "_", 2)
	if len(p) != 2 {
		return -1, -1
	}
	i, e1 := strconv.Atoi(p[0])
	k, e2 := strconv.Atoi(p[1])
	if e1 != nil || e2 != nil {
		return -1, -1
	}
	return i, k
}

// content of record (idx, k) of an input of kind `kind` against what its own text says
func c01GlueContent(kind string, idx, k int, s *obiseq.BioSequence) string {
	switch kind {
	case "fa", "fq":
		_, _, seq, qual := c01BigRec(kind, k, int64(idx))
		if string(s.Sequence()) != seq {
			return "sequence"
		}
		if kind == "fq" {
			if !s.HasQualities() || len(s.Qualities()) != len(qual) {
				return "quality"
			}
			for j, q := range s.Qualities() {
				if q != qual[j]-c01Shift {
					return "quality"
				}
			}
		}
	default:
		if string(s.Sequence()) != string(c01BigFlatSeq(k, c01GlueFlatLen)) {
			return "sequence"
		}
	}
	return ""
}

type c01GBatch struct {
	order int
	file  int   // -1: empty batch, -2: mixed / foreign records
	ranks []int // rank of each record in its file
	b     obiiter.BioSequenceBatch
}

// c01GlueCollect drains the iterator: batches in ARRIVAL order
func c01GlueCollect(it obiiter.IBioSequence, ins []c01GIn, paired bool, bad *string) []c01GBatch {
	var bs []c01GBatch
	for it.Next() {
		b := it.Get()
		g := c01GBatch{order: b.Order(), file: -1, b: b}
		for _, s := range b.Slice() {
			i, k := c01GlueId(s.Id())
			if i < 0 || i >= len(ins) {
				g.file = -2
				continue
			}
			if g.file == -1 {
				g.file = i
			} else if g.file != i {
				g.file = -2
			}
			g.ranks = append(g.ranks, k)
			if c := c01GlueContent(ins[i].kind, i, k, s); c != "" && *bad == "" {
				*bad = fmt.Sprintf("%s of record %s", c, s.Id())
			}
			if paired {
				m := s.PairedWith()
				if (m == nil || m.Id() != fmt.Sprintf("r1_%d", k) || c01GlueContent("fq", 1, k, m) != "") && *bad == "" {
					*bad = fmt.Sprintf("mate of record %s", s.Id())
				}
			}
		}
		bs = append(bs, g)
	}
	return bs
}

// c01GlueJudge: the oracle on the batches delivered (arrival order); returns `k=…` and `t=…`
func c01GlueJudge(bs []c01GBatch, ins []c01GIn, nfiles int, listOrder bool, fail func(sig, format string, a ...any)) (string, string, int) {
	byNum := append([]c01GBatch{}, bs...)
	sort.SliceStable(byNum, func(i, j int) bool { return byNum[i].order < byNum[j].order })
	// batch numbers: exactly 0..k-1
	numbersOK := true
	for i, g := range byNum {
		if i > 0 && g.order == byNum[i-1].order {
			fail("numbers.duplicate", "two batches carry the number %d (%d batches delivered): every ordering consumer keeps one of them", g.order, len(bs))
			numbersOK = false
			break
		}
	}
	if numbersOK {
		for i, g := range byNum {
			if g.order != i {
				fail("numbers.hole", "the %d batches are not numbered 0..%d (number %d missing)", len(bs), len(bs)-1, i)
				break
			}
		}
	}
	// every record of every file exactly once, in file order (batches taken in the order of their numbers)
	got := make([][]int, nfiles)
	kOf := make([]int, nfiles)
	var trace []string
	total := 0
	for _, g := range byNum {
		switch {
		case g.file == -2:
			fail("batch.mixed", "batch %d mixes records of several inputs or carries a foreign record", g.order)
			trace = append(trace, "x")
		case g.file == -1:
			trace = append(trace, "e")
		default:
			got[g.file] = append(got[g.file], g.ranks...)
			kOf[g.file]++
			trace = append(trace, strconv.Itoa(g.file))
			total += len(g.ranks)
		}
	}
	for i := 0; i < nfiles; i++ {
		want := 0
		if ins[i].kind != "empty" {
			want = ins[i].nrec
		}
		inOrder, seen := true, map[int]int{}
		for j, k := range got[i] {
			seen[k]++
			if k != j {
				inOrder = false
			}
		}
		dup, lost := 0, 0
		for k := 0; k < want; k++ {
			switch {
			case seen[k] == 0:
				lost++
			case seen[k] > 1:
				dup++
			}
		}
		switch {
		case lost > 0:
			fail("records.lost", "input %d holds %d records, %d of them are not delivered", i, want, lost)
		case dup > 0 || len(got[i]) != want:
			fail("records.duplicated", "input %d holds %d records, %d are delivered", i, want, len(got[i]))
		case !inOrder:
			fail("file-order", "the records of input %d are not delivered in the order of the file (batches taken in the order of their numbers)", i)
		}
	}
	if listOrder {
		last := -1
		for _, g := range byNum {
			if g.file >= 0 {
				if g.file < last {
					fail("list-order", "without --no-order the inputs are read one after the other: a batch of input %d comes after one of input %d", g.file, last)
					break
				}
				last = g.file
			}
		}
	}
	// what the user of any command sees: an ordering consumer (the real SortBatches) fed in arrival order
	in := obiiter.MakeIBioSequence()
	in.Add(1)
	go in.WaitAndClose()
	go func() {
		for _, g := range bs {
			in.Push(g.b)
		}
		in.Done()
	}()
	out := in.SortBatches()
	n := 0
	for out.Next() {
		n += out.Get().Len()
	}
	want := 0
	for i := 0; i < nfiles; i++ {
		if ins[i].kind != "empty" {
			want += ins[i].nrec
		}
	}
	if n != want {
		fail("consumer.records-lost", "the inputs hold %d records, SortBatches on the delivered batches releases %d", want, n)
	}
	ks := make([]string, nfiles)
	for i := range ks {
		ks[i] = strconv.Itoa(kOf[i])
	}
	t := strings.Join(trace, ",")
	if t == "" {
		t = "-"
	}
	return "k=" + strings.Join(ks, ","), "t=" + t, total
}

func c01GlueParseIns(toks []string, mread bool) ([]c01GIn, bool) {
	var ins []c01GIn
	for _, t := range toks {
		if strings.HasPrefix(t, "k=") || strings.HasPrefix(t, "t=") {
			continue // (the observation appended by a previous run: replay)
		}
		if t == "empty" {
			ins = append(ins, c01GIn{kind: "empty", tr: "plain"})
			continue
		}
		p := strings.Split(t, ":")
		if len(p) < 2 || !c01GlueKindOK(p[0]) {
			return nil, false
		}
		n, err := strconv.Atoi(p[1])
		if err != nil || n < 1 || n > 100000 {
			return nil, false
		}
		in := c01GIn{kind: p[0], nrec: n}
		if mread {
			if len(p) != 5 {
				return nil, false
			}
			var e1, e2, e3 error
			in.a, e1 = strconv.Atoi(p[2])
			in.b, e2 = strconv.Atoi(p[3])
			in.c, e3 = strconv.Atoi(p[4])
			if e1 != nil || e2 != nil || e3 != nil || in.a < 2 || in.b < 1 || in.b > 8 || in.c < 0 || in.c > 2 {
				return nil, false
			}
			in.tr = "plain"
		} else {
			if len(p) != 3 || (p[2] != "plain" && p[2] != "gz") {
				return nil, false
			}
			in.tr = p[2]
		}
		ins = append(ins, in)
	}
	return ins, len(ins) >= 1 && len(ins) <= 12
}

func c01GlueStrip(f []string) []string {
	var o []string
	for _, t := range f {
		if !strings.HasPrefix(t, "k=") && !strings.HasPrefix(t, "t=") {
			o = append(o, t)
		}
	}
	return o
}

func c01GlueKV(tok, key string) (int, bool) {
	if !strings.HasPrefix(tok, key+"=") {
		return 0, false
	}
	n, err := strconv.Atoi(tok[len(key)+1:])
	return n, err == nil && n >= 0 && n <= 4096
}

// ---------------------------------------------------------------------------------------------
// mread

func c01GlueMread(f []string, fail func(sig, format string, a ...any)) string {
	f = c01GlueStrip(f)
	if len(f) < 4 {
		return "bad-op"
	}
	nr, ok1 := c01GlueKV(f[1], "r")
	sy, ok2 := c01GlueKV(f[2], "sync")
	ins, ok3 := c01GlueParseIns(f[3:], true)
	if !ok1 || !ok2 || !ok3 || nr < 1 || nr > 8 || sy > 1 {
		return "bad-op"
	}
	for _, in := range ins {
		if in.kind == "empty" {
			return "bad-op"
		}
	}
	dir := c01GlueTmp()
	defer os.RemoveAll(dir)
	names := make([]string, len(ins))
	for i, in := range ins {
		names[i] = c01GlueWrite(dir, i, in)
	}
	stat(fmt.Sprintf("glue:mread:r=%d:sync=%d", nr, sy))
	stat(fmt.Sprintf("glue:mread:files=%d", len(ins)))
	need := int32(nr)
	if len(ins) < nr {
		need = int32(len(ins))
	}
	var arrived int32
	gate := make(chan struct{})
	var badOpen atomic.Bool
	reader := func(filename string, _ ...obiformats.WithOption) (obiiter.IBioSequence, error) {
		base := filepath.Base(filename)
		i, err := strconv.Atoi(strings.SplitN(strings.TrimPrefix(base, "f"), ".", 2)[0])
		if err != nil || i < 0 || i >= len(ins) {
			badOpen.Store(true)
			return obiiter.NilIBioSequence, fmt.Errorf("unknown file %s", filename)
		}
		in := ins[i]
		fm, _ := c01Format(map[string]string{"fa": "fa", "fq": "fq1", "gb": "gb0", "em": "em0"}[in.kind])
		fh, err := os.Open(filename)
		if err != nil {
			badOpen.Store(true)
			return obiiter.NilIBioSequence, err
		}
		ch := obiformats.ReadSeqFileChunk(filename, fh, make([]byte, in.a), c01Splitter(fm.split))
		out := obiiter.MakeIBioSequence()
		for w := 0; w < in.b; w++ {
			out.Add(1)
			go fm.worker(ch, out)
		}
		go out.WaitAndClose()
		var col []obiiter.BioSequenceBatch
		for out.Next() {
			col = append(col, out.Get())
		}
		fh.Close()
		// the order in which the parser workers of this file hand their batches over
		sort.SliceStable(col, func(a, b int) bool { return col[a].Order() < col[b].Order() })
		switch in.c {
		case 1:
			for a, b := 0, len(col)-1; a < b; a, b = a+1, b-1 {
				col[a], col[b] = col[b], col[a]
			}
		case 2:
			r := rand.New(rand.NewSource(int64(i*131 + len(col))))
			r.Shuffle(len(col), func(a, b int) { col[a], col[b] = col[b], col[a] })
		}
		if sy == 1 {
			if n := atomic.AddInt32(&arrived, 1); n == need {
				close(gate)
			} else if n < need {
				select {
				case <-gate:
				case <-time.After(2 * time.Second * watchdogScale()):
				}
			}
		}
		res := obiiter.MakeIBioSequence()
		res.Add(1)
		go res.WaitAndClose()
		go func() {
			for _, b := range col {
				res.Push(b)
			}
			res.Done()
		}()
		return res, nil
	}
	var bs []c01GBatch
	bad := ""
	res := guardT(30*time.Second, func() string {
		it := obiformats.ReadSequencesBatchFromFiles(names, reader, nr)
		bs = c01GlueCollect(it, ins, false, &bad)
		return ""
	})
	if res != "" || badOpen.Load() {
		fail("outcome", "ReadSequencesBatchFromFiles on %d well-formed files: %s", len(ins), res)
		return "failed"
	}
	if bad != "" {
		fail("content", "a delivered record differs from what its own text says: %s", bad)
	}
	k, t, total := c01GlueJudge(bs, ins, len(ins), nr == 1, fail)
	if len(bs) >= 2 {
		stat("glue:mread:multi-batch")
	}
	caseOverride = strings.Join(append(append([]string{}, f...), k, t), " ")
	return fmt.Sprintf("ok %d %d", len(bs), total)
}

// ---------------------------------------------------------------------------------------------
// cli (in-process)

var c01GlueModes = map[string]string{"guess": "", "fasta": "fa", "fastq": "fq", "genbank": "gb", "embl": "em"}

func c01GlueCli(f []string, fail func(sig, format string, a ...any)) string {
	f = c01GlueStrip(f)
	if len(f) < 8 {
		return "bad-op"
	}
	rw, ok1 := c01GlueKV(f[1], "rw")
	pf, ok2 := c01GlueKV(f[2], "pf")
	cpu, ok3 := c01GlueKV(f[3], "cpu")
	mode := strings.TrimPrefix(f[4], "m=")
	o, ok4 := c01GlueKV(f[5], "o")
	p, ok5 := c01GlueKV(f[6], "p")
	ins, ok6 := c01GlueParseIns(f[7:], false)
	forced, okm := c01GlueModes[mode]
	if !ok1 || !ok2 || !ok3 || !ok4 || !ok5 || !ok6 || !okm || !strings.HasPrefix(f[4], "m=") || cpu < 1 || cpu > 256 || o > 1 || p > 1 || rw > 16 || pf > 16 {
		return "bad-op"
	}
	for _, in := range ins {
		if forced != "" && in.kind != forced && in.kind != "empty" {
			return "bad-op"
		}
	}
	pairedUsed := p == 1 && len(ins) == 1
	if p == 1 && ins[0].kind != "fq" {
		return "bad-op"
	}
	dir := c01GlueTmp()
	defer os.RemoveAll(dir)
	names := make([]string, len(ins))
	for i, in := range ins {
		names[i] = c01GlueWrite(dir, i, in)
	}
	mate := ""
	if p == 1 {
		// the mate file: input number 1 of a one-file case (same number of reads); ignored by the code with several files
		md := filepath.Join(dir, "mate")
		os.Mkdir(md, 0o755)
		mate = c01GlueWrite(md, 1, c01GIn{kind: "fq", nrec: ins[0].nrec, tr: "plain"})
	}
	stat(fmt.Sprintf("glue:cli:files=%d:o=%d", len(ins), o))
	stat("glue:cli:mode=" + mode)
	// the state main() of a command leaves + the real option parser on a real argv
	obiconvert.VerifResetOptions()
	obiconvert.VerifResetInputOptions()
	obioptions.SetStrictReadWorker(rw)
	obioptions.SetParallelFilesRead(pf)
	obioptions.SetMaxCPU(runtime.NumCPU())
	prevProcs := runtime.GOMAXPROCS(0)
	defer func() {
		runtime.GOMAXPROCS(prevProcs)
		obioptions.SetMaxCPU(runtime.NumCPU())
		obioptions.SetStrictReadWorker(0)
		obioptions.SetParallelFilesRead(0)
		obiconvert.VerifResetInputOptions()
		obiconvert.VerifResetOptions()
	}()
	av := []string{"verif", "--max-cpu", strconv.Itoa(cpu)}
	if o == 1 {
		av = append(av, "--no-order")
	}
	if forced != "" {
		av = append(av, "--"+mode)
	}
	if p == 1 {
		av = append(av, "--paired-with", mate)
	}
	av = append(av, names...)
	var bs []c01GBatch
	bad := ""
	res := guardT(60*time.Second, func() string {
		_, rest := obioptions.GenerateOptionParser(obiconvert.OptionSet)(av)
		if len(rest) != len(names) {
			return "rest"
		}
		it, err := obiconvert.CLIReadBioSequences(rest...)
		if err != nil {
			return "err"
		}
		bs = c01GlueCollect(it, ins, pairedUsed, &bad)
		return ""
	})
	if res != "" {
		fail("outcome", "CLIReadBioSequences on %d well-formed files (%s): %s", len(ins), strings.Join(av[1:len(av)-len(names)], " "), res)
		return "failed"
	}
	if bad != "" {
		fail("content", "a delivered record differs from what its own text says: %s", bad)
	}
	k, t, total := c01GlueJudge(bs, ins, len(ins), o == 0, fail)
	if len(bs) > len(ins) {
		stat("glue:cli:multi-batch-file")
	}
	caseOverride = strings.Join(append(append([]string{}, f...), k, t), " ")
	return fmt.Sprintf("ok %d %d", len(bs), total)
}

// ---------------------------------------------------------------------------------------------
// cmd (subprocess)

var (
	c01CmdMu   sync.Mutex
	c01CmdPath = map[string]string{}
	c01CmdErr  = map[string]error{}
)

func c01RepoCommand(name string) (string, error) {
	c01CmdMu.Lock()
	defer c01CmdMu.Unlock()
	if p, ok := c01CmdPath[name]; ok {
		return p, c01CmdErr[name]
	}
	repo := os.Getenv("VERIF_REPO")
	if repo == "" {
		repo = "/repo"
	}
	out := filepath.Join(binDir(), "cmd01_"+name)
	// (several harness processes of a thorough run build the same binary: each links into its own file, then renames it
	// into place - a rename never meets a binary that is being executed)
	tmpOut := fmt.Sprintf("%s.%d.tmp", out, os.Getpid())
	defer os.Remove(tmpOut)
	cmd := exec.Command("go", "build", "-o", tmpOut, "./cmd/obitools/"+name)
	cmd.Dir = repo
	env := []string{}
	for _, e := range os.Environ() {
		if strings.HasPrefix(e, "GOFLAGS=") || strings.HasPrefix(e, "GOWORK=") {
			continue
		}
		env = append(env, e)
	}
	cmd.Env = append(env, "GOPROXY=off", "GOSUMDB=off", "GOTOOLCHAIN=local", "CGO_CFLAGS=-w -O2")
	var err error
	if b, e := cmd.CombinedOutput(); e != nil {
		err = fmt.Errorf("go build %s: %v: %s", name, e, b)
	} else if e := os.Rename(tmpOut, out); e != nil {
		err = fmt.Errorf("rename %s: %v", tmpOut, e)
	}
	c01CmdPath[name], c01CmdErr[name] = out, err
	return out, err
}

type c01CmdRes struct {
	res   string
	fails []Fail
	stats []string
}

var (
	c01BgMu      sync.Mutex
	c01BgPending = map[string]chan c01CmdRes{}
	c01BgSem     = make(chan struct{}, 3)
)

func c01CmdPrefetch(lines []string) {
	for _, l := range lines {
		l := l
		c01BgMu.Lock()
		if _, dup := c01BgPending[l]; dup {
			c01BgMu.Unlock()
			continue
		}
		ch := make(chan c01CmdRes, 1)
		c01BgPending[l] = ch
		c01BgMu.Unlock()
		go func() {
			c01BgSem <- struct{}{}
			r := c01GlueCmdRun(strings.Fields(l))
			<-c01BgSem
			ch <- r
		}()
	}
}

func c01GlueCmd(f []string) (string, []Fail) {
	line := strings.Join(f, " ")
	c01BgMu.Lock()
	ch, ok := c01BgPending[line]
	delete(c01BgPending, line)
	c01BgMu.Unlock()
	var r c01CmdRes
	if ok {
		r = <-ch
	} else {
		r = c01GlueCmdRun(f)
	}
	for _, s := range r.stats {
		stat(s)
	}
	return r.res, r.fails
}

func c01GlueCmdRun(f []string) (out c01CmdRes) {
	out.res = "bad-op"
	if len(f) < 6 || (f[1] != "obiconvert" && f[1] != "obigrep") || !strings.HasPrefix(f[2], "cpu=") || !strings.HasPrefix(f[3], "m=") {
		return
	}
	tool := f[1]
	cpuTok := strings.TrimPrefix(f[2], "cpu=")
	viaEnv := strings.HasPrefix(cpuTok, "e")
	cpu, err := strconv.Atoi(strings.TrimPrefix(cpuTok, "e"))
	mode := strings.TrimPrefix(f[3], "m=")
	forced, okm := c01GlueModes[mode]
	o, ok4 := c01GlueKV(f[4], "o")
	ins, ok6 := c01GlueParseIns(f[5:], false)
	if err != nil || cpu < 1 || cpu > 256 || !okm || !ok4 || o > 1 || !ok6 {
		return
	}
	for _, in := range ins {
		if forced != "" && in.kind != forced && in.kind != "empty" {
			return
		}
	}
	fail := func(sig, format string, a ...any) {
		out.fails = append(out.fails, Fail{Sig: "cmd." + sig, Text: fmt.Sprintf(format, a...)})
	}
	bin, err := c01RepoCommand(tool)
	if err != nil {
		fail("build", "%v", err)
		out.res = "failed"
		return
	}
	dir := c01GlueTmp()
	defer os.RemoveAll(dir)
	names := make([]string, len(ins))
	for i, in := range ins {
		names[i] = c01GlueWrite(dir, i, in)
	}
	out.stats = append(out.stats, fmt.Sprintf("glue:cmd:%s:files=%d:o=%d", tool, len(ins), o), "glue:cmd:mode="+mode)
	cl := []string{"--fasta-output"}
	if !viaEnv {
		cl = append(cl, "--max-cpu", strconv.Itoa(cpu))
	}
	if o == 1 {
		cl = append(cl, "--no-order")
	}
	if forced != "" {
		cl = append(cl, "--"+mode)
	}
	cmd := exec.Command(bin, append(cl, names...)...)
	cmd.Env = os.Environ()
	if viaEnv {
		cmd.Env = append(cmd.Env, "OBIMAXCPU="+strconv.Itoa(cpu))
	}
	var stdout bytes.Buffer
	cmd.Stdout = &stdout
	cmd.Stderr = io.Discard
	if err := cmd.Start(); err != nil {
		fail("start", "%v", err)
		out.res = "failed"
		return
	}
	done := make(chan error, 1)
	go func() { done <- cmd.Wait() }()
	select {
	case err := <-done:
		if err != nil {
			fail("clean-inputs-rejected", "%s %s on %d well-formed files ended with %v", tool, strings.Join(cl, " "), len(ins), err)
			out.res = "exit-nonzero"
			return
		}
	case <-time.After(90 * time.Second * watchdogScale()):
		cmd.Process.Kill()
		fail("hang", "%s %s on %d well-formed files did not end (watchdog)", tool, strings.Join(cl, " "), len(ins))
		out.res = "hang"
		return
	}
	// the records written, in the order of the output
	got := make([][]int, len(ins))
	last, listOK, n := -1, true, 0
	lines := bytes.Split(stdout.Bytes(), []byte("\n"))
	curFile, curRank := -1, -1
	var curSeq []byte
	bad := ""
	flush := func() {
		if curFile < 0 {
			return
		}
		want := ""
		if k := ins[curFile].kind; k == "fa" || k == "fq" {
			_, _, want, _ = c01BigRec(k, curRank, int64(curFile))
		} else {
			want = string(c01BigFlatSeq(curRank, c01GlueFlatLen))
		}
		if string(curSeq) != want && bad == "" {
			bad = fmt.Sprintf("r%d_%d", curFile, curRank)
		}
	}
	for _, l := range lines {
		if len(l) > 0 && l[0] == '>' {
			flush()
			id := string(l[1:])
			if k := strings.IndexAny(id, " \t"); k >= 0 {
				id = id[:k]
			}
			i, k := c01GlueId(id)
			n++
			curFile, curRank, curSeq = -1, -1, nil
			if i < 0 || i >= len(ins) || ins[i].kind == "empty" {
				fail("foreign-record", "the output holds a record %q that is in no input", id)
				continue
			}
			curFile, curRank = i, k
			got[i] = append(got[i], k)
			if i < last {
				listOK = false
			}
			last = i
		} else if curFile >= 0 {
			curSeq = append(curSeq, l...)
		}
	}
	flush()
	if bad != "" {
		fail("content", "the sequence written for record %s is not the one of its text", bad)
	}
	total := 0
	for i, in := range ins {
		want := 0
		if in.kind != "empty" {
			want = in.nrec
		}
		total += want
		seen, inOrder := map[int]int{}, true
		for j, k := range got[i] {
			seen[k]++
			if j != k {
				inOrder = false
			}
		}
		lost := 0
		for k := 0; k < want; k++ {
			if seen[k] == 0 {
				lost++
			}
		}
		switch {
		case lost > 0:
			fail("records.lost", "%s %s, status 0: input %d of %d holds %d records, %d of them are not written (%d records written in all)", tool, strings.Join(cl, " "), i, len(ins), want, lost, n)
		case len(got[i]) != want:
			fail("records.duplicated", "input %d holds %d records, %d are written", i, want, len(got[i]))
		case !inOrder:
			fail("file-order", "the records of input %d are not written in the order of the file", i)
		}
	}
	if o == 0 && !listOK {
		fail("list-order", "without --no-order the records are written in the order of the list of inputs")
	}
	out.res = fmt.Sprintf("exit0 %d", n)
	return
}

// ---------------------------------------------------------------------------------------------
// generator

func c01GlueGen(rng *rand.Rand, tier string) (inproc, cmds []string) {
	kinds := []string{"fa", "fq", "gb", "em"}
	thorough := tier == "thorough"
	pick := func(xs ...int) int { return xs[rng.Intn(len(xs))] }
	// ---- mread: corpus (the seeded regression C01-m6: numbering by rank in the file shifted by a running total)
	inproc = append(inproc,
		"mread r=2 sync=1 fa:6:200:2:0 fa:5:200:2:0",
		"mread r=3 sync=1 fa:9:150:2:0 fq:7:300:1:1 fa:12:150:3:2",
		"mread r=2 sync=1 fa:1:4096:1:0 fa:1:4096:1:0 fa:1:4096:1:0",
		"mread r=1 sync=0 fa:9:150:2:1 fq:7:300:1:2 fa:12:150:3:0",
		"mread r=1 sync=1 gb:4:600:2:1 em:3:500:2:1",
		"mread r=4 sync=1 fq:8:250:2:2 fq:8:250:2:2",
		"mread r=2 sync=0 fa:6:200:2:1",
		"mread r=8 sync=1 fa:3:100:1:0 fa:3:100:1:0 fa:3:100:1:0 fa:3:100:1:0 fa:3:100:1:0 fa:3:100:1:0 fa:3:100:1:0 fa:3:100:1:0 fa:3:100:1:0",
	)
	nm := 36
	if thorough {
		nm = 260
	}
	for i := 0; i < nm; i++ {
		nf := 1 + rng.Intn(6)
		if i%9 == 0 {
			nf = 7 + rng.Intn(4)
		}
		nr := pick(1, 1, 2, 2, 3, 4, 8)
		toks := make([]string, nf)
		for j := range toks {
			k := kinds[pick(0, 0, 0, 1, 1, 2, 3)]
			nrec := 1 + rng.Intn(14)
			buf := pick(90, 150, 200, 400, 1000, 100000)
			if k == "gb" || k == "em" {
				buf = pick(400, 600, 900, 100000)
			}
			toks[j] = fmt.Sprintf("%s:%d:%d:%d:%d", k, nrec, buf, 1+rng.Intn(4), rng.Intn(3))
		}
		inproc = append(inproc, fmt.Sprintf("mread r=%d sync=%d %s", nr, pick(0, 1, 1), strings.Join(toks, " ")))
	}
	// ---- cli: corpus
	inproc = append(inproc,
		"cli rw=2 pf=0 cpu=16 m=guess o=1 p=0 fa:2:plain fa:2:plain fa:2:plain", // obiconvert --no-order f0 f1 f2 (C01-m6)
		"cli rw=2 pf=0 cpu=16 m=guess o=0 p=0 fa:2:plain fa:2:plain fa:2:plain",
		"cli rw=2 pf=0 cpu=16 m=guess o=1 p=0 fa:9000:plain fa:9000:gz", // two-chunk files (1 MiB buffers)
		"cli rw=0 pf=0 cpu=16 m=guess o=1 p=0 fq:30:gz fa:20:plain gb:3:plain em:3:gz fa:1:plain", // obigrep & co: 4 readers
		"cli rw=0 pf=0 cpu=4 m=guess o=1 p=0 fa:5:plain fa:6:plain", // int(4 * 0.25) = 1 reader
		"cli rw=0 pf=0 cpu=3 m=guess o=1 p=0 fa:5:plain fa:6:plain", // int(0.75) = 0 -> 1 reader
		"cli rw=0 pf=0 cpu=1 m=guess o=1 p=0 fa:5:plain fa:6:plain", // --max-cpu 1 is turned into 2
		"cli rw=0 pf=3 cpu=16 m=fasta o=1 p=0 fa:5:plain fa:6:gz empty fa:2:plain",
		"cli rw=2 pf=0 cpu=8 m=fastq o=1 p=0 fq:5:plain fq:6:gz",
		"cli rw=2 pf=0 cpu=8 m=guess o=0 p=0 empty fa:3:plain empty",
		"cli rw=2 pf=0 cpu=8 m=guess o=1 p=0 empty empty",
		"cli rw=2 pf=0 cpu=8 m=guess o=0 p=0 fa:7:gz",
		"cli rw=2 pf=0 cpu=8 m=guess o=1 p=1 fq:12:plain",                 // --paired-with, one file
		"cli rw=2 pf=0 cpu=8 m=fastq o=0 p=1 fq:12:gz fq:5:plain",         // --paired-with is ignored with several files
		"cli rw=2 pf=0 cpu=8 m=genbank o=1 p=0 gb:3:plain gb:2:gz",
		"cli rw=2 pf=0 cpu=8 m=embl o=0 p=0 em:3:gz em:2:plain",
	)
	nc := 40
	if thorough {
		nc = 240
	}
	for i := 0; i < nc; i++ {
		nf := 1 + rng.Intn(6)
		if i%5 == 0 {
			nf = 2 + rng.Intn(9)
		}
		mode := "guess"
		if rng.Intn(3) == 0 {
			mode = []string{"fasta", "fastq"}[rng.Intn(2)]
		}
		flat := i%8 == 7 // the flat-file readers allocate 128 MiB per file: few of them
		if flat {
			nf = 2 + rng.Intn(2)
			mode = []string{"guess", "guess", "genbank", "embl"}[rng.Intn(4)]
		}
		toks := make([]string, nf)
		for j := range toks {
			k := "fa"
			switch {
			case mode == "genbank":
				k = "gb"
			case mode == "embl":
				k = "em"
			case flat:
				k = []string{"gb", "em"}[rng.Intn(2)]
			case mode == "fasta":
				k = "fa"
			case mode == "fastq":
				k = "fq"
			default:
				k = []string{"fa", "fa", "fq"}[rng.Intn(3)]
			}
			nrec := 1 + rng.Intn(40)
			if i%10 == 3 && j < 2 {
				nrec = 8500 + rng.Intn(2000) // more than one 1 MiB chunk
			}
			toks[j] = fmt.Sprintf("%s:%d:%s", k, nrec, []string{"plain", "gz"}[rng.Intn(2)])
			if !flat && rng.Intn(12) == 0 {
				toks[j] = "empty"
			}
		}
		rw, pf := pick(2, 2, 0, 0, 1, 3), 0
		if rng.Intn(6) == 0 {
			pf = pick(1, 2, 3, 5)
		}
		cpu := pick(1, 2, 3, 4, 7, 8, 12, 16, 16, 32)
		p := 0
		if nf <= 2 && toks[0] != "empty" && strings.HasPrefix(toks[0], "fq") && rng.Intn(2) == 0 {
			p = 1
		}
		inproc = append(inproc, fmt.Sprintf("cli rw=%d pf=%d cpu=%d m=%s o=%d p=%d %s", rw, pf, cpu, mode, pick(0, 1, 1), p, strings.Join(toks, " ")))
	}
	// ---- cmd: the real binaries
	cmds = append(cmds,
		"cmd obiconvert cpu=16 m=guess o=1 fa:2:plain fa:2:plain fa:2:plain", // C01-m6: `obiconvert --no-order f0 f1 f2`
		"cmd obiconvert cpu=16 m=guess o=0 fa:2:plain fa:2:plain fa:2:plain",
		"cmd obiconvert cpu=16 m=guess o=1 fa:9000:plain fa:8000:gz fq:20:plain",
		"cmd obigrep cpu=16 m=guess o=1 fa:30:gz fq:20:plain fa:10:plain fa:5:gz empty fa:1:plain",
		"cmd obigrep cpu=e8 m=fasta o=1 fa:30:gz fa:20:plain fa:10:plain",
		"cmd obigrep cpu=4 m=guess o=1 fa:30:gz fq:20:plain",
		"cmd obiconvert cpu=8 m=guess o=1 gb:3:plain em:2:gz fa:4:plain",
	)
	nx := 7
	if thorough {
		nx = 40
	}
	for i := 0; i < nx; i++ {
		nf := 2 + rng.Intn(5)
		mode := "guess"
		if rng.Intn(4) == 0 {
			mode = []string{"fasta", "fastq"}[rng.Intn(2)]
		}
		toks := make([]string, nf)
		for j := range toks {
			k := []string{"fa", "fa", "fq"}[rng.Intn(3)]
			if mode == "fasta" {
				k = "fa"
			} else if mode == "fastq" {
				k = "fq"
			} else if thorough && rng.Intn(15) == 0 {
				k = []string{"gb", "em"}[rng.Intn(2)]
			}
			nrec := 1 + rng.Intn(60)
			if thorough && i%8 == 0 && j == 0 {
				nrec = 8500 + rng.Intn(1500)
			}
			toks[j] = fmt.Sprintf("%s:%d:%s", k, nrec, []string{"plain", "gz"}[rng.Intn(2)])
		}
		cpu := []string{"4", "8", "16", "32", "e8", "e16", "2"}[rng.Intn(7)]
		cmds = append(cmds, fmt.Sprintf("cmd %s cpu=%s m=%s o=%d %s", []string{"obiconvert", "obigrep"}[rng.Intn(2)], cpu, mode, pick(0, 1, 1, 1), strings.Join(toks, " ")))
	}
	return
}
