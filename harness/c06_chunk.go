//go:build c06

package main

// C06, third pass: the chunk stage transcribed (dist / chunk cases), the goroutines of IUniqueSequence as a
// transition system run under a schedule (pipe cases), large generated inputs (big cases), the on-disk mode without
// a usable temporary directory (chunk diskfail).

import (
	"bytes"
	"fmt"
	"hash/crc32"
	"math/rand"
	"os"
	"sort"
	"strconv"
	"strings"
	"sync"
	"time"

	"git.metabarcoding.org/obitools/obitools4/obitools4/pkg/obichunk"
	"git.metabarcoding.org/obitools/obitools4/obitools4/pkg/obiiter"
	"git.metabarcoding.org/obitools/obitools4/obitools4/pkg/obioptions"
	"git.metabarcoding.org/obitools/obitools4/obitools4/pkg/obiseq"
)

func c06Feed(seqs []*obiseq.BioSequence, bsize int) obiiter.IBioSequence {
	it := obiiter.MakeIBioSequence()
	it.Add(1)
	go func() {
		order := 0
		for i := 0; i < len(seqs); i += bsize {
			j := i + bsize
			if j > len(seqs) {
				j = len(seqs)
			}
			sl := obiseq.MakeBioSequenceSlice()
			sl = append(sl, seqs[i:j]...)
			it.Push(obiiter.MakeBioSequenceBatch("src", order, sl))
			order++
		}
		it.Done()
	}()
	go it.WaitAndClose()
	return it
}

func c06Ids(sl obiseq.BioSequenceSlice) string {
	ids := make([]string, len(sl))
	for i, s := range sl {
		ids[i] = c06hs(s.Id())
	}
	if len(ids) == 0 {
		return "-"
	}
	return strings.Join(ids, ",")
}

func c06HashCode(seq []byte, chunks int) int {
	return int(crc32.ChecksumIEEE(bytes.ToLower(seq)) % uint32(chunks))
}

// parses `<op> [mode] c= b= s= recs...`
func c06ParseCBS(f []string) (chunks, bsize, size int, recs []c06Rec, ok bool) {
	if len(f) < 3 || !strings.HasPrefix(f[0], "c=") || !strings.HasPrefix(f[1], "b=") || !strings.HasPrefix(f[2], "s=") {
		return
	}
	var e1, e2, e3 error
	chunks, e1 = strconv.Atoi(f[0][2:])
	bsize, e2 = strconv.Atoi(f[1][2:])
	size, e3 = strconv.Atoi(f[2][2:])
	if e1 != nil || e2 != nil || e3 != nil || chunks < 1 || bsize < 1 || size < 0 {
		return
	}
	for _, rs := range f[3:] {
		r, o := c06ParseRec(rs)
		if !o {
			return
		}
		recs = append(recs, r)
	}
	ok = true
	return
}

// c06Dist: the real Distribute(HashClassifier(chunks), size): per code the batches its output delivers
func c06Dist(line string) (string, []Fail) {
	f := strings.Fields(line)
	chunks, bsize, size, recs, ok := c06ParseCBS(f[1:])
	if !ok {
		caseTrivial = true
		return "bad-op", nil
	}
	stat("dist")
	if size == 0 {
		stat("dist:size0")
	}
	got := map[int][]string{}
	total := 0
	res := guardT(30*time.Second, func() string {
		seqs := make([]*obiseq.BioSequence, len(recs))
		for i := range recs {
			seqs[i] = recs[i].build(i)
		}
		d := c06Feed(seqs, bsize).Distribute(obiseq.HashClassifier(chunks), size)
		var mu sync.Mutex
		var wg sync.WaitGroup
		for code := range d.News() {
			wg.Add(1)
			go func(code int) {
				defer wg.Done()
				out, err := d.Outputs(code)
				if err != nil {
					return
				}
				var bs []string
				n := 0
				for out.Next() {
					b := out.Get()
					bs = append(bs, c06Ids(b.Slice()))
					n += b.Len()
				}
				mu.Lock()
				got[code] = bs
				total += n
				mu.Unlock()
			}(code)
		}
		wg.Wait()
		codes := make([]int, 0, len(got))
		for c := range got {
			codes = append(codes, c)
		}
		sort.Ints(codes)
		p := []string{"T", strconv.Itoa(len(codes))}
		for _, c := range codes {
			p = append(p, fmt.Sprintf("%d:%s", c, strings.Join(got[c], "|")))
		}
		return strings.Join(p, " ")
	})
	if res == "panic" || res == "fatal" || res == "hang" {
		return res, []Fail{{"dist." + res, "Distribute ended with " + res}}
	}
	var fails []Fail
	// oracle: every record once, in the output of its code, in input order; no empty batch; full batches
	if total != len(recs) {
		fails = append(fails, Fail{"dist.loss", fmt.Sprintf("%d records in, %d out", len(recs), total)})
	}
	exp := map[int][]string{}
	for i := range recs {
		c := c06HashCode(recs[i].seq, chunks)
		exp[c] = append(exp[c], c06hs(recs[i].id))
	}
	for c, bs := range got {
		var flat []string
		for i, b := range bs {
			if b == "-" {
				fails = append(fails, Fail{"dist.empty-batch", fmt.Sprintf("code %d delivers an empty batch", c)})
				continue
			}
			ids := strings.Split(b, ",")
			if size > 0 && ((i < len(bs)-1 && len(ids) != size) || len(ids) > size) {
				fails = append(fails, Fail{"dist.batch-size", fmt.Sprintf("code %d batch %d has %d records (size %d)", c, i, len(ids), size)})
			}
			flat = append(flat, ids...)
		}
		if strings.Join(flat, ",") != strings.Join(exp[c], ",") {
			fails = append(fails, Fail{"dist.content", fmt.Sprintf("code %d: expected %v got %v", c, exp[c], flat)})
		}
	}
	if len(got) != len(exp) {
		fails = append(fails, Fail{"dist.codes", fmt.Sprintf("%d outputs for %d codes", len(got), len(exp))})
	}
	return res, fails
}

// c06Chunk: the real ISequenceChunk / ISequenceChunkOnDisk on HashClassifier(chunks)
func c06Chunk(line string) (string, []Fail) {
	f := strings.Fields(line)
	if len(f) < 2 {
		caseTrivial = true
		return "bad-op", nil
	}
	mode := f[1]
	chunks, bsize, size, recs, ok := c06ParseCBS(f[2:])
	if !ok || (mode != "mem" && mode != "disk" && mode != "diskfail") {
		caseTrivial = true
		return "bad-op", nil
	}
	stat("chunk:" + mode)
	if mode == "diskfail" {
		if os.Getenv("C06_CHILD") == "" {
			res, fails := c06Child(line)
			if res != "err" {
				fails = append(fails, Fail{"diskfail.not-an-error", "no usable temporary directory: expected outcome err, got " + res})
			}
			return res, fails
		}
		// child process: no usable temporary directory
		if chunks%2 == 1 {
			os.Setenv("TMPDIR", "/nonexistent/verif_c06_tmp")
			stat("diskfail:missing")
		} else {
			fn, err := os.CreateTemp("", "verif_c06_file_")
			if err != nil {
				return "harness-err", nil
			}
			fn.Close()
			defer os.Remove(fn.Name())
			os.Setenv("TMPDIR", fn.Name())
			stat("diskfail:not-a-dir")
		}
		res := guardT(30*time.Second, func() string {
			seqs := make([]*obiseq.BioSequence, len(recs))
			for i := range recs {
				seqs[i] = recs[i].build(i)
			}
			out, err := obichunk.IUniqueSequence(c06Feed(seqs, bsize),
				obichunk.OptionBatchCount(chunks), obichunk.OptionsParallelWorkers(2), obichunk.OptionSortOnDisk())
			if err != nil {
				return "err"
			}
			n := 0
			for out.Next() {
				n += out.Get().Len()
			}
			return fmt.Sprintf("delivered %d", n)
		})
		return res, nil
	}
	type ch struct {
		code int
		ids  string
	}
	var got []ch
	var reread []string
	total := 0
	allKeys := map[string]bool{}
	for i := range recs {
		for _, m := range recs[i].merged {
			allKeys[m.key] = true
		}
	}
	var keys []string
	for k := range allKeys {
		keys = append(keys, k)
	}
	sort.Strings(keys)
	orig := map[string]string{}
	res := guardT(60*time.Second, func() string {
		seqs := make([]*obiseq.BioSequence, len(recs))
		for i := range recs {
			seqs[i] = recs[i].build(i)
			orig[recs[i].id] = c06Canon(seqs[i], keys)
		}
		old := obioptions.CLIBatchSize()
		obioptions.SetBatchSize(size)
		defer obioptions.SetBatchSize(old)
		var out obiiter.IBioSequence
		var err error
		if mode == "mem" {
			out, err = obichunk.ISequenceChunk(c06Feed(seqs, bsize), obiseq.HashClassifier(chunks))
		} else {
			out, err = obichunk.ISequenceChunkOnDisk(c06Feed(seqs, bsize), obiseq.HashClassifier(chunks))
		}
		if err != nil {
			return "err"
		}
		for out.Next() {
			b := out.Get()
			code := -1
			if b.Len() > 0 {
				code = c06HashCode(b.Slice()[0].Sequence(), chunks)
			}
			ids := c06Ids(b.Slice())
			if mode == "disk" && b.Len() > 1 {
				// Load() appends the batches of the reader in arrival order: the order inside a re-read chunk
				// depends on the scheduling (the reader cuts the file before its last record)
				l := strings.Split(ids, ",")
				if !sort.StringsAreSorted(l) && strings.Join(l, ",") != "" {
					in := make([]string, 0, len(l))
					for i := range recs {
						if c06HashCode(recs[i].seq, chunks) == code {
							in = append(in, c06hs(recs[i].id))
						}
					}
					if strings.Join(in, ",") != ids {
						stat("chunk:disk:reordered-by-load")
					}
				}
				sort.Strings(l)
				ids = strings.Join(l, ",")
			}
			got = append(got, ch{code, ids})
			total += b.Len()
			if mode == "disk" {
				for _, s := range b.Slice() {
					if o, ok := orig[s.Id()]; !ok || o != c06Canon(s, keys) {
						reread = append(reread, fmt.Sprintf("%s: written %s re-read %s", s.Id(), o, c06Canon(s, keys)))
					}
				}
			}
		}
		if mode == "mem" {
			sort.SliceStable(got, func(i, j int) bool { return got[i].code < got[j].code })
		}
		p := []string{"K", strconv.Itoa(len(got))}
		for _, c := range got {
			p = append(p, fmt.Sprintf("%d:%s", c.code, c.ids))
		}
		return strings.Join(p, " ")
	})
	if res == "panic" || res == "fatal" || res == "hang" || res == "err" {
		return res, []Fail{{"chunk." + res + "." + mode, "the chunk stage ended with " + res}}
	}
	var fails []Fail
	if total != len(recs) {
		fails = append(fails, Fail{"chunk.loss." + mode, fmt.Sprintf("%d records in, %d in the chunks", len(recs), total)})
	}
	// every chunk holds exactly the records of one code, each code has one chunk
	exp := map[int][]string{}
	for i := range recs {
		c := c06HashCode(recs[i].seq, chunks)
		exp[c] = append(exp[c], c06hs(recs[i].id))
	}
	seen := map[int]bool{}
	for _, c := range got {
		if seen[c.code] {
			fails = append(fails, Fail{"chunk.split." + mode, fmt.Sprintf("two chunks for code %d", c.code)})
		}
		seen[c.code] = true
		e := append([]string{}, exp[c.code]...)
		if mode == "disk" {
			sort.Strings(e)
		}
		if c.ids != strings.Join(e, ",") {
			fails = append(fails, Fail{"chunk.content." + mode, fmt.Sprintf("code %d: expected %v got %s", c.code, exp[c.code], c.ids)})
		}
	}
	if len(seen) != len(exp) {
		fails = append(fails, Fail{"chunk.codes." + mode, fmt.Sprintf("%d chunks for %d codes", len(seen), len(exp))})
	}
	if len(reread) > 0 {
		fails = append(fails, Fail{"chunk.reread", strings.Join(reread[:1], "; ")})
	}
	return res, fails
}

// c06Pipe: `pipe c= w= sched= ns= na= cats= stats= recs` — the real IUniqueSequence in memory with w workers; the
// schedule only drives the transition system of the model (the real scheduling is whatever the Go runtime does)
func c06Pipe(line string) (string, []Fail) {
	f := strings.Fields(line)
	if len(f) < 8 || !strings.HasPrefix(f[3], "sched=") {
		caseTrivial = true
		return "bad-op", nil
	}
	// the same case as a `uniq mem` line
	u := append([]string{"uniq", "mem", f[1], f[2], "b=7"}, f[4:8]...)
	u = append(u, "dm=*")
	u = append(u, f[8:]...)
	stat("pipe")
	return c06{}.Exec(strings.Join(u, " "))
}

// c06Idem: `idem s=<k> <uniq case without the word uniq>`: the real obiuniq on (the real obiuniq of the first k records)
// followed by the other records; oracle: the recount of the whole input (dereplicating an already dereplicated part
// again changes nothing: counts, merged_ maps, kept annotations)
func c06Idem(line string) (string, []Fail) {
	f := strings.Fields(line)
	if len(f) < 3 || !strings.HasPrefix(f[1], "s=") {
		caseTrivial = true
		return "bad-op", nil
	}
	sp, err := strconv.Atoi(f[1][2:])
	c, ok := c06Parse("uniq " + strings.Join(f[2:], " "))
	if err != nil || !ok || sp < 0 || c.ns || c.hasDm {
		caseTrivial = true
		return "bad-op", nil
	}
	if sp > len(c.recs) {
		sp = len(c.recs)
	}
	if c.disk && os.Getenv("C06_CHILD") == "" {
		return c06Child(line)
	}
	stat("idem")
	var got []string
	res := guardT(60*time.Second, func() string {
		in := make([]*obiseq.BioSequence, len(c.recs))
		for i := range c.recs {
			in[i] = c.recs[i].build(i)
		}
		out1, err := c.runUniq(in[:sp])
		if err != nil {
			return "err"
		}
		out2, err := c.runUniq(append(append([]*obiseq.BioSequence{}, out1...), in[sp:]...))
		if err != nil {
			return "err"
		}
		got = make([]string, len(out2))
		for i, s := range out2 {
			got[i] = c06Canon(s, c.stats)
		}
		return c06ShowAll("U", append([]string{}, got...))
	})
	if res == "panic" || res == "fatal" || res == "hang" || res == "err" {
		return res, []Fail{{"idem." + res, "dereplication ended with " + res}}
	}
	var fails []Fail
	exp, _, _ := c.expected(c.recs)
	sort.Strings(got)
	if strings.Join(exp, " ") != strings.Join(got, " ") {
		fails = append(fails, Fail{"idem.differs", c06Diff(exp, got)})
	}
	return res, fails
}

// ---- big cases ---------------------------------------------------------------------------------------------

func c06BigClass(kind string, k, i int) int {
	switch kind {
	case "few":
		return i % k
	case "distinct":
		return i
	}
	j := (uint64(i) * 2654435761) % 4294967296
	switch {
	case j%2 == 0:
		return 0
	case j%4 == 1:
		return 1
	case j%8 == 3:
		return 2
	}
	return 3 + int((j/8)%uint64(k))
}

func c06BigSeq(class int) []byte {
	s := make([]byte, 12)
	for p := 11; p >= 0; p-- {
		s[p] = "acgt"[class%4]
		class /= 4
	}
	return s
}

// `big <mem|disk> c= w= b= kind= n= k=`
func c06Big(line string) (string, []Fail) {
	f := strings.Fields(line)
	if len(f) != 8 {
		caseTrivial = true
		return "bad-op", nil
	}
	get := func(s, pre string) (int, bool) {
		if !strings.HasPrefix(s, pre) {
			return 0, false
		}
		n, err := strconv.Atoi(s[len(pre):])
		return n, err == nil
	}
	chunks, o1 := get(f[2], "c=")
	workers, o2 := get(f[3], "w=")
	bsize, o3 := get(f[4], "b=")
	n, o4 := get(f[6], "n=")
	k, o5 := get(f[7], "k=")
	kind := strings.TrimPrefix(f[5], "kind=")
	if !(o1 && o2 && o3 && o4 && o5) || chunks < 1 || workers < 1 || bsize < 1 || k < 1 || n > 16000000 ||
		(kind != "few" && kind != "distinct" && kind != "skew") || (f[1] != "mem" && f[1] != "disk") {
		caseTrivial = true
		return "bad-op", nil
	}
	if f[1] == "disk" && os.Getenv("C06_CHILD") == "" {
		return c06Child(line)
	}
	stat("big:" + kind + ":" + f[1])
	exp := map[string]int{}
	var fails []Fail
	res := guardT(300*time.Second, func() string {
		seqs := make([]*obiseq.BioSequence, n)
		total := 0
		for i := 0; i < n; i++ {
			sq := c06BigSeq(c06BigClass(kind, k, i))
			s := obiseq.NewBioSequence("r"+strconv.Itoa(i), sq, "")
			s.SetAttribute("count", 1+i%3)
			exp[string(sq)] += 1 + i%3
			total += 1 + i%3
			seqs[i] = s
		}
		opts := []obichunk.WithOption{obichunk.OptionBatchCount(chunks), obichunk.OptionsParallelWorkers(workers),
			obichunk.OptionsWithSingleton()}
		if f[1] == "disk" {
			opts = append(opts, obichunk.OptionSortOnDisk())
		} else {
			opts = append(opts, obichunk.OptionSortOnMemory())
		}
		out, err := obichunk.IUniqueSequence(c06Feed(seqs, bsize), opts...)
		if err != nil {
			return "err"
		}
		seen := map[string]bool{}
		gotTotal, mx := 0, 0
		bad := 0
		for out.Next() {
			for _, s := range out.Get().Slice() {
				key := string(s.Sequence())
				if seen[key] {
					bad++
					if bad <= 2 {
						fails = append(fails, Fail{"big.duplicate-key", "two output records for sequence " + key})
					}
				}
				seen[key] = true
				if s.Count() != exp[key] {
					bad++
					if bad <= 2 {
						fails = append(fails, Fail{"big.count", fmt.Sprintf("sequence %s: expected count %d got %d", key, exp[key], s.Count())})
					}
				}
				gotTotal += s.Count()
				if s.Count() > mx {
					mx = s.Count()
				}
			}
		}
		if len(seen) != len(exp) {
			fails = append(fails, Fail{"big.classes", fmt.Sprintf("expected %d output records got %d", len(exp), len(seen))})
		}
		if gotTotal != total {
			fails = append(fails, Fail{"big.total", fmt.Sprintf("total count: expected %d got %d", total, gotTotal)})
		}
		return fmt.Sprintf("big classes=%d total=%d max=%d", len(seen), gotTotal, mx)
	})
	if res == "panic" || res == "fatal" || res == "hang" || res == "err" {
		fails = append(fails, Fail{"big." + res + "." + f[1], "dereplication ended with " + res})
	}
	return res, fails
}

// c06GenChunk emits the dist / chunk / pipe / big cases
func c06GenChunk(rng *rand.Rand, tier string, emit func(string)) {
	R := "61:61636774:-:-:- 62:61636774:3:73=s79:- 63:6161:2:-:73~78=1~7a=1 64:67:-:-:- 65:74:-:-:- 66:6163:-:-:-"
	for _, l := range []string{
		"dist c=7 b=2 s=1 " + R, "dist c=2 b=4 s=2 " + R, "dist c=1 b=1 s=0 " + R, "dist c=3 b=3 s=6 " + R, "dist c=3 b=3 s=5",
		"chunk mem c=7 b=2 s=2 " + R, "chunk disk c=13 b=2 s=2 " + R, "chunk mem c=1 b=6 s=5000", "chunk disk c=1 b=6 s=5000",
		"chunk diskfail c=13 b=2 s=2 " + R, "chunk diskfail c=2 b=2 s=2 " + R, "chunk diskfail c=3 b=1 s=1",
		"pipe c=3 w=2 sched=0,1,2,2,1,0,0,1 ns=0 na=4e41 cats=- stats=73 " + R,
		"pipe c=3 w=3 sched=- ns=1 na=4e41 cats=73 stats=73 " + R,
		"pipe c=1 w=16 sched=16,16,0,0,0 ns=0 na=4e41 cats=- stats=- " + R,
	} {
		emit(l)
	}
	recsLine := func(recs []c06Rec) string {
		p := make([]string, len(recs))
		for j := range recs {
			p[j] = recs[j].line()
		}
		return strings.Join(p, " ")
	}
	nd, nc, np := 60, 60, 60
	if tier == "thorough" {
		nd, nc, np = 200, 200, 150
	}
	for i := 0; i < nd; i++ {
		n := rng.Intn(40)
		if rng.Intn(6) == 0 {
			n = 100 + rng.Intn(400)
		}
		if rng.Intn(4) == 0 {
			c06ManyKeys = 5 + rng.Intn(40)
		}
		recs := c06GenRecs(rng, n, "NA", false)
		size := []int{0, 1, 2, 3, 5, 7, 5000}[rng.Intn(7)]
		if rng.Intn(4) == 0 {
			size = 1 + rng.Intn(n+2)
		}
		emit(fmt.Sprintf("dist c=%d b=%d s=%d %s", []int{1, 2, 3, 7, 16, 100}[rng.Intn(6)], 1+rng.Intn(n+2), size, recsLine(recs)))
	}
	for i := 0; i < nc; i++ {
		n := rng.Intn(40)
		if rng.Intn(6) == 0 {
			n = 100 + rng.Intn(300)
		}
		if rng.Intn(3) == 0 {
			c06ManyKeys = 5 + rng.Intn(60)
		}
		recs := c06GenRecs(rng, n, "NA", rng.Intn(2) == 0)
		mode := "mem"
		if rng.Intn(2) == 0 {
			mode = "disk"
		}
		size := []int{1, 2, 3, 7, 5000}[rng.Intn(5)]
		// chunk counts >= 10 on disk: the lexical order of the file names is not the numerical one
		emit(fmt.Sprintf("chunk %s c=%d b=%d s=%d %s", mode, []int{1, 2, 7, 13, 100, 1000}[rng.Intn(6)], 1+rng.Intn(n+2), size, recsLine(recs)))
	}
	for i := 0; i < 4; i++ {
		recs := c06GenRecs(rng, 1+rng.Intn(30), "NA", false)
		emit(fmt.Sprintf("chunk diskfail c=%d b=%d s=%d %s", 1+rng.Intn(20), 1+rng.Intn(8), 1+rng.Intn(8), recsLine(recs)))
	}
	for i := 0; i < np; i++ {
		n := rng.Intn(30)
		if rng.Intn(5) == 0 {
			c06ManyKeys = 5 + rng.Intn(30)
			n = 30 + rng.Intn(60)
		}
		na := []string{"NA", "", "x1"}[rng.Intn(3)]
		recs := c06GenRecs(rng, n, na, rng.Intn(2) == 0)
		w := 1 + rng.Intn(6)
		ns := 3 * (n + w)
		sch := make([]string, rng.Intn(ns+1))
		for j := range sch {
			// bursts: the same goroutine several times in a row
			sch[j] = strconv.Itoa(rng.Intn(w + 1))
			if j > 0 && rng.Intn(3) == 0 {
				sch[j] = sch[j-1]
			}
		}
		s := "-"
		if len(sch) > 0 {
			s = strings.Join(sch, ",")
		}
		nsf := 0
		if rng.Intn(4) == 0 {
			nsf = 1
		}
		emit(fmt.Sprintf("pipe c=%d w=%d sched=%s ns=%d na=%s cats=%s stats=%s %s", []int{1, 2, 3, 7, 16}[rng.Intn(5)], w, s, nsf,
			c06hs(na), c06List(c06Subset(rng, []string{"sample", "run", "n_lib"}, 2)),
			c06List(c06Subset(rng, []string{"sample", "tag", "n_lib", "run"}, 2)), recsLine(recs)))
	}
	// an already dereplicated part merged again with new records
	emit("idem s=3 mem c=7 w=2 b=2 ns=0 na=4e41 cats=- stats=73 dm=* 61:61636774:-:73=s78:- 62:61636774:3:73=s79,7a=i5:- 63:61636774:2:-:73~78=1~7a=1 64:6161:-:-:- 65:61636774:-:73=s78:-")
	ni := 50
	if tier == "thorough" {
		ni = 200
	}
	for i := 0; i < ni; i++ {
		na := []string{"NA", "", "x1"}[rng.Intn(3)]
		n := 1 + rng.Intn(40)
		recs := c06GenRecs(rng, n, na, rng.Intn(2) == 0)
		cc := c06Case{na: na, cats: c06Subset(rng, []string{"sample", "run", "n_lib"}, 2),
			stats: c06Subset(rng, []string{"sample", "tag", "n_lib", "run"}, 2), recs: recs,
			chunks: []int{1, 2, 7, 100}[rng.Intn(4)], workers: 1 + rng.Intn(8), bsize: 1 + rng.Intn(n+1), disk: rng.Intn(4) == 0}
		emit(fmt.Sprintf("idem s=%d %s", rng.Intn(n+1), strings.TrimPrefix(cc.line(), "uniq ")))
	}
	// large inputs: few classes / all distinct / heavy skew
	if tier == "thorough" {
		for _, l := range []string{
			"big mem c=100 w=8 b=5000 kind=skew n=1000000 k=1000",
			"big mem c=100 w=4 b=5000 kind=distinct n=300000 k=1",
			"big mem c=7 w=16 b=1000 kind=few n=500000 k=5",
			"big disk c=100 w=4 b=5000 kind=skew n=200000 k=1000",
			"big disk c=16 w=4 b=5000 kind=distinct n=100000 k=1",
			"big disk c=3 w=1 b=777 kind=few n=200000 k=3",
		} {
			emit(l)
		}
		emit(fmt.Sprintf("big mem c=%d w=%d b=%d kind=skew n=%d k=%d", 1+rng.Intn(200), 1+rng.Intn(16), 100+rng.Intn(9000), 100000+rng.Intn(200000), 1+rng.Intn(5000)))
	} else {
		emit("big mem c=100 w=4 b=5000 kind=skew n=30000 k=300")
		emit("big mem c=7 w=3 b=500 kind=distinct n=20000 k=1")
		emit("big disk c=16 w=2 b=1000 kind=few n=20000 k=4")
		emit(fmt.Sprintf("big mem c=%d w=%d b=%d kind=skew n=%d k=%d", 1+rng.Intn(200), 1+rng.Intn(16), 100+rng.Intn(900), 5000+rng.Intn(20000), 1+rng.Intn(500)))
	}
}
