//go:build c18

package main

// The glue between the commands and the four anchored writers (Model/WriteGlue.lean, Props/C18G.lean):
//
//	glue ws  fo=<auto|fasta|fastq|json> gz=<g> k=<k> cf=<c> zlen=<z> own=<o> ek=<kind> <order>:<nseq>:<q> …
//	    the real obiformats.WriteSequence (fo=auto) or WriteFasta / WriteFastq / WriteJSON over a sink failing after
//	    k bytes / at Close; the result may have NO batch at all (no chunk field), only empty batches, one record,
//	    several batches; q = the records of the batch carry qualities
//	glue cli fo=… gz=<g> k=<k> zlen=<z> zlen2=<z2> to=<file|stdout> paired=<p> <order>:<nseq>:<q> …
//	    the real obiconvert.CLIWriteBioSequences under a command line parsed by the real option parser; the fault is
//	    injected by the kernel: RLIMIT_FSIZE = k makes every write beyond byte k of a regular file fail (EFBIG)
//
// The printed case line carries, for the model, the texts the formatters make of every batch: :<fasta text>:<fastq
// text>:<json text> appended to <order>:<nseq>:<q>; the model makes the choice of the format.

import (
	"bytes"
	"fmt"
	"math/rand"
	"os"
	"os/signal"
	"path/filepath"
	"strconv"
	"strings"
	"syscall"
	"time"

	"git.metabarcoding.org/obitools/obitools4/obitools4/pkg/obiformats"
	"git.metabarcoding.org/obitools/obitools4/obitools4/pkg/obiiter"
	"git.metabarcoding.org/obitools/obitools4/obitools4/pkg/obioptions"
	"git.metabarcoding.org/obitools/obitools4/obitools4/pkg/obiseq"
	"git.metabarcoding.org/obitools/obitools4/obitools4/pkg/obitools/obiconvert"
)

type c18GB struct{ order, n, q int }

func c18ParseGB(fs []string) ([]c18GB, bool) {
	var r []c18GB
	for _, p := range fs {
		x := strings.Split(p, ":")
		if len(x) < 3 {
			return nil, false
		}
		o, e1 := strconv.Atoi(x[0])
		n, e2 := strconv.Atoi(x[1])
		q, e3 := strconv.Atoi(x[2])
		if e1 != nil || e2 != nil || e3 != nil || n < 0 || n > 100000 {
			return nil, false
		}
		r = append(r, c18GB{o, n, q})
	}
	return r, true
}

func c18GBStr(arr []c18GB) string {
	p := make([]string, len(arr))
	for i, a := range arr {
		p[i] = fmt.Sprintf("%d:%d:%d", a.order, a.n, a.q)
	}
	return strings.Join(p, " ")
}

func c18GlueBatch(b c18GB, mate bool) obiiter.BioSequenceBatch {
	off := 0
	if mate {
		off = 1000
	}
	sl := obiseq.MakeBioSequenceSlice()
	for j := 0; j < b.n; j++ {
		sl = append(sl, c18Record(b.order+off, j, b.q == 1))
	}
	return obiiter.MakeBioSequenceBatch("src", b.order, sl)
}

// c18GlueIter: the iterator delivering the batches in the given arrival order (none at all for an empty list)
func c18GlueIter(arr []c18GB, paired bool) obiiter.IBioSequence {
	it := obiiter.MakeIBioSequence()
	it.Add(1)
	go func() {
		for _, a := range arr {
			b := c18GlueBatch(a, false)
			if paired {
				m := c18GlueBatch(a, true)
				for j, s := range b.Slice() {
					s.PairTo(m.Slice()[j])
				}
			}
			it.Push(b)
		}
		it.Done()
	}()
	go it.WaitAndClose()
	if paired {
		it.MarkAsPaired()
	}
	return it
}

// c18GlueTexts: what the glue sees of every batch + the texts of the three formatters (data for the model)
func c18GlueTexts(arr []c18GB, mate bool, fo string) (fields []string, fa, fq, js [][]byte) {
	opt := obiformats.MakeOptions([]obiformats.WithOption{})
	for _, a := range arr {
		var tfa, tfq, tjs []byte
		if fo == "json" {
			tjs = obiformats.FormatJSONBatch(c18GlueBatch(a, mate))
		} else {
			tfa = obiformats.FormatFastaBatch(c18GlueBatch(a, mate), opt.FormatFastSeqHeader(), false).Bytes()
			tfq = obiformats.FormatFastqBatch(c18GlueBatch(a, mate), opt.FormatFastSeqHeader(), false).Bytes()
		}
		fa, fq, js = append(fa, tfa), append(fq, tfq), append(js, tjs)
		fields = append(fields, fmt.Sprintf("%d:%d:%d:%s:%s:%s", a.order, a.n, a.q, hx(tfa), hx(tfq), hx(tjs)))
	}
	return
}

// c18GlueWant: the complete result assembled without the glue and without the writers: NOTHING for a result with no
// batch under the guessed format; the format of the first batch that arrives (FASTQ iff it is not empty and its first
// record has qualities); an explicit format as asked.  ok = false: an arrival history the real channels cannot carry.
func c18GlueWant(arr []c18GB, fo string, fa, fq, js [][]byte) (want []byte, started bool, format string, ok bool) {
	format = fo
	if fo == "auto" {
		if len(arr) == 0 {
			return nil, false, "none", true
		}
		format = "fasta"
		if arr[0].n > 0 && arr[0].q == 1 {
			format = "fastq"
		}
	}
	by := make([][]byte, len(arr))
	seen := make([]bool, len(arr))
	for i, a := range arr {
		if a.order < 0 || a.order >= len(arr) || seen[a.order] {
			return nil, true, format, false
		}
		seen[a.order] = true
		switch format {
		case "fasta":
			by[a.order] = fa[i]
		case "fastq":
			by[a.order] = fq[i]
		case "json":
			by[a.order] = js[i]
		}
	}
	if format == "json" {
		want = append(want, "[\n"...)
		first := true
		for _, t := range by {
			if len(t) == 0 {
				continue
			}
			if !first {
				want = append(want, ",\n"...)
			}
			want = append(want, t...)
			first = false
		}
		want = append(want, "\n]\n"...)
		return want, true, format, true
	}
	for _, t := range by {
		want = append(want, t...)
	}
	return want, true, format, true
}

func c18GlueOpts(gz, own bool) []obiformats.WithOption {
	opts := []obiformats.WithOption{obiformats.OptionsParallelWorkers(1), obiformats.OptionsCompressed(gz)}
	if own {
		return append(opts, obiformats.OptionCloseFile())
	}
	return append(opts, obiformats.OptionDontCloseFile())
}

// c18GlueWsRun: the real glue over the sink, then what main() does
func c18GlueWsRun(fo string, gz, own bool, arr []c18GB, sink *failSink) string {
	return guardT(6*time.Second, func() string {
		it := c18GlueIter(arr, false)
		var ni obiiter.IBioSequence
		var err error
		switch fo {
		case "auto":
			ni, err = obiformats.WriteSequence(it, sink, c18GlueOpts(gz, own)...)
		case "fasta":
			ni, err = obiformats.WriteFasta(it, sink, c18GlueOpts(gz, own)...)
		case "fastq":
			ni, err = obiformats.WriteFastq(it, sink, c18GlueOpts(gz, own)...)
		case "json":
			ni, err = obiformats.WriteJSON(it, sink, c18GlueOpts(gz, own)...)
		default:
			return "bad-op"
		}
		if err != nil {
			return "fatal" // CLIWriteBioSequences: log.Fatalf("Write file error: %v", err)
		}
		ni.Recycle() // terminalAction
		obiiter.WaitForLastPipe()
		return "ok"
	})
}

func c18GlueFo(s string) (string, bool) {
	if !strings.HasPrefix(s, "fo=") {
		return "", false
	}
	switch s[3:] {
	case "auto", "fasta", "fastq", "json":
		return s[3:], true
	}
	return "", false
}

func c18ExecGlue(f []string) (string, []Fail) {
	if len(f) < 2 {
		return "bad-op", nil
	}
	if !c18IsChild() {
		return "bad-op", nil // the pipe registry is process wide: child processes only
	}
	switch f[1] {
	case "ws":
		return c18ExecGlueWs(f)
	case "cli":
		return c18ExecGlueCli(f)
	}
	return "bad-op", nil
}

func c18ExecGlueWs(f []string) (string, []Fail) {
	if len(f) < 9 {
		return "bad-op", nil
	}
	fo, ok0 := c18GlueFo(f[2])
	gz, ok1 := c18Get(f[3], "gz")
	cf, ok2 := c18Get(f[5], "cf")
	own, ok3 := c18Get(f[7], "own")
	ek, ok4 := c18Get(f[8], "ek")
	if !ok0 || !ok1 || !ok2 || !ok3 || !ok4 || !strings.HasPrefix(f[4], "k=") || !strings.HasPrefix(f[6], "zlen=") || ek < 0 || ek >= len(c18Kinds) {
		return "bad-op", nil
	}
	arr, ok := c18ParseGB(f[9:])
	if !ok {
		return "bad-op", nil
	}
	fields, fa, fq, js := c18GlueTexts(arr, false, fo)
	want, _, format, okw := c18GlueWant(arr, fo, fa, fq, js)
	if !okw {
		return "bad-op", nil
	}
	stat("glue:ws:" + fo)
	stat("glue:format:" + format)
	switch {
	case len(arr) == 0:
		stat("glue:result:no-batch")
	default:
		tot := 0
		for _, a := range arr {
			tot += a.n
		}
		if tot == 0 {
			stat("glue:result:empty-batches-only")
		} else if tot == 1 {
			stat("glue:result:one-record")
		} else {
			stat("glue:result:records")
		}
		if arr[0].n == 0 && tot > 0 {
			stat("glue:first-batch-empty")
		}
	}
	var fails []Fail
	ref := &failSink{limit: 1 << 30}
	if r := c18GlueWsRun(fo, gz == 1, own == 1, arr, ref); r != "ok" {
		return "bad-op", []Fail{{Sig: "glue.ws." + fo + ".reference-run", Text: "the glue fails on a sink that never fails: " + r}}
	}
	expected := append([]byte{}, ref.buf.Bytes()...)
	have := expected
	if gz == 1 && len(expected) > 0 {
		have = c18Gunzip(expected)
	}
	if !bytes.Equal(want, have) {
		fails = append(fails, Fail{Sig: "glue.ws." + fo + ".silent-loss.no-fault", Text: fmt.Sprintf("on a sink that never fails the command ended normally with %d of the %d bytes of the result written", len(have), len(want))})
	}
	zlen := len(expected)
	k, okk := c18ResolveK(f[4][2:], zlen)
	if !okk {
		return "bad-op", nil
	}
	caseOverride = strings.TrimSpace(fmt.Sprintf("glue ws fo=%s gz=%d k=%d cf=%d zlen=%d own=%d ek=%d %s", fo, gz, k, cf, zlen, own, ek, strings.Join(fields, " ")))
	sink := &failSink{limit: k, closeErr: cf == 1, ek: ek}
	out := c18GlueWsRun(fo, gz == 1, own == 1, arr, sink)
	sink.mu.Lock()
	got := append([]byte{}, sink.buf.Bytes()...)
	ncl := sink.closes
	sink.mu.Unlock()
	if k < zlen {
		stat("glue:fault-injected")
		if len(want) == 0 {
			stat("glue:fault-in-empty-result")
		}
	}
	class := "plain"
	if gz == 1 {
		class = "gz"
	}
	if len(want) == 0 {
		class += "-empty"
	}
	fails = append(fails, c18Judge("glue.ws."+fo, class, out, got, expected, gz == 1, cf == 1 && ncl > 0)...)
	if out == "ok" {
		return fmt.Sprintf("ok got=%d cl=%d", len(got), ncl), fails
	}
	return fmt.Sprintf("%s got=%d", out, len(got)), fails
}

// ---------------------------------------------------------------------------------------------
// CLIWriteBioSequences under a parsed command line, the fault injected by RLIMIT_FSIZE

func c18SetFsize(limit uint64) (restore func(), ok bool) {
	var old syscall.Rlimit
	if err := syscall.Getrlimit(syscall.RLIMIT_FSIZE, &old); err != nil {
		return nil, false
	}
	nl := old
	nl.Cur = limit
	if nl.Max < limit {
		return nil, false
	}
	if err := syscall.Setrlimit(syscall.RLIMIT_FSIZE, &nl); err != nil {
		return nil, false
	}
	return func() { syscall.Setrlimit(syscall.RLIMIT_FSIZE, &old) }, true
}

// c18GlueCliRun: one run of CLIWriteBioSequences; limit < 0: no fault.  Returns the outcome and the content of the files.
func c18GlueCliRun(fo string, gz, toFile, paired bool, arr []c18GB, limit int) (out string, f1, f2 []byte) {
	dir, e := os.MkdirTemp("", "c18g")
	if e != nil {
		return "tmp-err", nil, nil
	}
	defer os.RemoveAll(dir)
	obiconvert.VerifResetOptions()
	av := []string{"verif"}
	switch fo {
	case "fasta", "fastq", "json":
		av = append(av, "--"+fo+"-output")
	}
	if gz {
		av = append(av, "-Z")
	}
	outPath := filepath.Join(dir, "o.dat")
	p1, p2 := outPath, ""
	if toFile {
		av = append(av, "-o", outPath)
		if paired {
			p1, p2 = obiconvert.BuildPairedFileNames(outPath)
		}
	}
	_, rest := obioptions.GenerateOptionParser(obiconvert.OptionSet)(av)
	if len(rest) != 0 {
		return "rest", nil, nil
	}
	saved := os.Stdout
	if !toFile {
		so, err := os.Create(outPath)
		if err != nil {
			return "tmp-err", nil, nil
		}
		os.Stdout = so
	}
	restore := func() {}
	if limit >= 0 {
		var ok bool
		if restore, ok = c18SetFsize(uint64(limit)); !ok {
			os.Stdout = saved
			return "rlimit-err", nil, nil
		}
	}
	out = guardT(8*time.Second, func() string {
		it := c18GlueIter(arr, paired)
		if _, err := obiconvert.CLIWriteBioSequences(it, true); err != nil {
			return "fatal"
		}
		obiiter.WaitForLastPipe()
		return "ok"
	})
	restore()
	os.Stdout = saved
	f1, _ = os.ReadFile(p1)
	if p2 != "" {
		f2, _ = os.ReadFile(p2)
	}
	return out, f1, f2
}

func c18ExecGlueCli(f []string) (string, []Fail) {
	if len(f) < 9 {
		return "bad-op", nil
	}
	fo, ok0 := c18GlueFo(f[2])
	gz, ok1 := c18Get(f[3], "gz")
	pd, ok2 := c18Get(f[8], "paired")
	if !ok0 || !ok1 || !ok2 || !strings.HasPrefix(f[4], "k=") || !strings.HasPrefix(f[5], "zlen=") || !strings.HasPrefix(f[6], "zlen2=") ||
		(f[7] != "to=file" && f[7] != "to=stdout") {
		return "bad-op", nil
	}
	toFile := f[7] == "to=file"
	chunks := f[9:]
	for i, x := range chunks {
		if x == "/" { // augmented form: the mates follow
			chunks = chunks[:i]
			break
		}
	}
	arr, ok := c18ParseGB(chunks)
	if !ok {
		return "bad-op", nil
	}
	signal.Ignore(syscall.SIGXFSZ) // a write beyond RLIMIT_FSIZE then returns EFBIG instead of killing the process
	two := toFile && pd == 1
	fields, fa, fq, js := c18GlueTexts(arr, false, fo)
	want1, _, format, okw := c18GlueWant(arr, fo, fa, fq, js)
	if !okw {
		return "bad-op", nil
	}
	var fields2 []string
	var want2 []byte
	if two {
		var fa2, fq2, js2 [][]byte
		fields2, fa2, fq2, js2 = c18GlueTexts(arr, true, fo)
		want2, _, _, _ = c18GlueWant(arr, fo, fa2, fq2, js2)
	}
	stat("glue:cli:" + fo)
	stat("glue:cli:" + f[7])
	stat("glue:format:" + format)
	if two {
		stat("glue:cli:paired-files")
	}
	if len(arr) == 0 {
		stat("glue:result:no-batch")
	}
	var fails []Fail
	sig := "glue.cli." + fo
	r, e1, e2 := c18GlueCliRun(fo, gz == 1, toFile, pd == 1, arr, -1)
	if r != "ok" {
		return "bad-op", []Fail{{Sig: sig + ".reference-run", Text: "CLIWriteBioSequences fails although every output can be written: " + r}}
	}
	for i, p := range [][2][]byte{{want1, e1}, {want2, e2}} {
		if i == 1 && !two {
			break
		}
		have := p[1]
		if gz == 1 && len(have) > 0 {
			have = c18Gunzip(have)
		}
		if !bytes.Equal(p[0], have) {
			fails = append(fails, Fail{Sig: sig + ".silent-loss.no-fault", Text: fmt.Sprintf("output %d: the command ended normally with %d of the %d bytes of the result written", i+1, len(have), len(p[0]))})
		}
	}
	k, okk := c18ResolveK(f[4][2:], len(e1))
	if f[4] == "k=y-1" { // one byte short of the second file
		k, okk = len(e2)-1, len(e2) > 0
	}
	if !okk {
		return "bad-op", nil
	}
	over := strings.TrimSpace(fmt.Sprintf("glue cli fo=%s gz=%d k=%d zlen=%d zlen2=%d %s paired=%d %s", fo, gz, k, len(e1), len(e2), f[7], pd, strings.Join(fields, " ")))
	if two {
		over += " / " + strings.Join(fields2, " ")
	}
	caseOverride = over
	out, g1, g2 := c18GlueCliRun(fo, gz == 1, toFile, pd == 1, arr, k)
	if k < len(e1) || (two && k < len(e2)) {
		stat("glue:fault-injected")
		stat("glue:cli:fault-by-rlimit")
		if two && k < len(e1) && k >= len(e2) {
			stat("glue:cli:only-file-1-of-2-fails")
		}
		if two && k >= len(e1) && k < len(e2) {
			stat("glue:cli:only-file-2-of-2-fails")
		}
	}
	class := "plain"
	if gz == 1 {
		class = "gz"
	}
	if len(want1) == 0 {
		class += "-empty"
	}
	// the oracle, per file: a prefix always; a normal end only with every byte in every file
	for i, p := range [][2][]byte{{g1, e1}, {g2, e2}} {
		if i == 1 && !two {
			break
		}
		if !bytes.HasPrefix(p[1], p[0]) {
			fails = append(fails, Fail{Sig: sig + ".not-a-prefix." + class, Text: fmt.Sprintf("output %d holds %d bytes that are not a prefix of the %d bytes of the complete result", i+1, len(p[0]), len(p[1]))})
		}
		if out == "ok" && !bytes.Equal(p[0], p[1]) {
			fails = append(fails, Fail{Sig: sig + ".silent-loss." + class, Text: fmt.Sprintf("the command ended normally but output %d holds %d of %d bytes", i+1, len(p[0]), len(p[1]))})
		}
	}
	if out != "ok" && out != "fatal" {
		fails = append(fails, Fail{Sig: sig + ".outcome", Text: "neither completed nor reported: " + out})
	}
	res := fmt.Sprintf("%s got=%d", out, len(g1))
	if two && out == "ok" {
		res += fmt.Sprintf(" got2=%d", len(g2))
	}
	return res, fails
}

// ---------------------------------------------------------------------------------------------
// generation

func c18GenGlue(rng *rand.Rand, tier string, add func(string)) {
	ws := func(fo string, gz int, k string, cf, own, ek int, arr []c18GB) {
		add(strings.TrimSpace(fmt.Sprintf("glue ws fo=%s gz=%d k=%s cf=%d zlen=0 own=%d ek=%d %s", fo, gz, k, cf, own, ek, c18GBStr(arr))))
	}
	cli := func(fo string, gz int, k string, to string, paired int, arr []c18GB) {
		if fo == "auto" && paired == 1 && to == "file" {
			// the batches reach the writer of the mates in the order the workers of the first writer release them
			// (CLIWriteBioSequences runs several): the format guessed for the second file is that of whichever batch
			// comes first.  Keep that guess independent of the schedule: no empty batch among batches with qualities.
			arr = append([]c18GB{}, arr...)
			for i := range arr {
				if arr[i].n == 0 && arr[i].q == 1 {
					arr[i].n = 1
				}
			}
		}
		add(strings.TrimSpace(fmt.Sprintf("glue cli fo=%s gz=%d k=%s zlen=0 zlen2=0 to=%s paired=%d %s", fo, gz, k, to, paired, c18GBStr(arr))))
	}
	none := []c18GB{}
	emptyOne := []c18GB{{0, 0, 0}}
	emptyOnly := []c18GB{{1, 0, 1}, {0, 0, 0}, {2, 0, 0}}
	oneRec := []c18GB{{0, 1, 0}}
	oneRecQ := []c18GB{{0, 1, 1}}
	firstEmpty := []c18GB{{1, 0, 1}, {0, 2, 1}, {2, 3, 1}} // the batch that arrives first is empty: FASTA although all have qualities
	several := []c18GB{{1, 30, 1}, {0, 30, 1}, {2, 30, 1}}
	severalNoQ := []c18GB{{2, 4, 0}, {0, 30, 0}, {1, 0, 0}}
	several2 := []c18GB{{1, 4, 1}, {0, 1, 1}} // the file of the mates is the larger one
	fos := []string{"auto", "fasta", "fastq", "json"}
	// results with NO record (no batch / empty batches only): every byte offset of what has to be written, and Close
	for _, fo := range fos {
		for gz := 0; gz < 2; gz++ {
			for _, arr := range [][]c18GB{none, emptyOne, emptyOnly} {
				ks := []string{"0", "1", "z-1", "z"}
				if gz == 1 {
					ks = []string{"0", "1", "9", "10", "12", "z/2", "z-9", "z-8", "z-1", "z"}
				}
				if fo != "auto" && len(arr) > 0 { // the writers themselves on empty batches: a reduced sweep
					ks = []string{"0", "z-1", "z"}
					if gz == 1 {
						ks = []string{"0", "10", "z-8", "z-1", "z"}
					}
				}
				for _, k := range ks {
					ws(fo, gz, k, 0, 1, rng.Intn(len(c18Kinds)), arr)
				}
				ws(fo, gz, "1048576", 1, 1, rng.Intn(len(c18Kinds)), arr) // only Close fails (if it is ever called)
				ws(fo, gz, "0", 0, 0, 0, arr)
			}
		}
	}
	for _, fo := range fos {
		for _, arr := range [][]c18GB{oneRec, oneRecQ, firstEmpty, several, severalNoQ} {
			if fo == "fastq" && arr[0].q == 0 && len(arr) < 3 {
				continue
			}
			for _, k := range []string{"0", "1", "z/2", "z-1", "z"} {
				ws(fo, rng.Intn(2), k, 0, 1, rng.Intn(len(c18Kinds)), arr)
			}
			ws(fo, 0, "z", 1, 1, rng.Intn(len(c18Kinds)), arr)
			ws(fo, 1, "z-1", 0, 0, 0, arr)
		}
	}
	// the command line: file / stdout, -Z, every format option, paired files (one of the two fails: k between the sizes)
	for _, fo := range fos {
		for gz := 0; gz < 2; gz++ {
			for _, to := range []string{"file", "stdout"} {
				cli(fo, gz, "0", to, 0, none)
				cli(fo, gz, "z-1", to, 0, emptyOne)
				cli(fo, gz, "z", to, 0, none)
				cli(fo, gz, []string{"0", "1", "z/2", "z-1"}[rng.Intn(4)], to, 0, several)
			}
			cli(fo, gz, "0", "file", 1, none)
			cli(fo, gz, "z-1", "file", 1, oneRecQ)
			cli(fo, gz, "z", "file", 1, several)   // file 1 fits exactly; file 2 (other records) may not
			cli(fo, gz, "z-1", "file", 1, several) // only one of the two files fails
			cli(fo, gz, "y-1", "file", 1, several)
			cli(fo, gz, "z-1", "file", 1, several2)
			cli(fo, gz, "y-1", "file", 1, several2)
			cli(fo, gz, "1048576", "file", 1, firstEmpty)
			cli(fo, gz, "z/2", "stdout", 1, several) // a paired result on standard output
		}
	}
	n := 40
	if tier == "thorough" {
		n = 150
	}
	for i := 0; i < n; i++ {
		fo := fos[rng.Intn(4)]
		if rng.Intn(2) == 0 {
			fo = "auto"
		}
		nb := rng.Intn(5)
		perm := rng.Perm(nb)
		arr := make([]c18GB, nb)
		q := rng.Intn(2)
		for j, o := range perm {
			m := rng.Intn(12)
			if rng.Intn(3) == 0 {
				m = 0
			}
			arr[j] = c18GB{o, m, q}
		}
		k := []string{"0", "1", "z/2", "z-1", "z", "z+1", "z-8", "z-9", "10", strconv.Itoa(rng.Intn(3000)), "1048576"}[rng.Intn(11)]
		if rng.Intn(3) == 0 {
			cli(fo, rng.Intn(2), k, []string{"file", "stdout"}[rng.Intn(2)], rng.Intn(2), arr)
		} else {
			ws(fo, rng.Intn(2), k, rng.Intn(8)/7, 1-rng.Intn(6)/5, rng.Intn(len(c18Kinds)), arr)
		}
	}
}
