// Command harness is the Go side of the correspondence check: it generates cases from one PRNG
// state, executes them against the real obitools4 code (in-process, panics and log.Fatal recovered),
// and evaluates the property oracles directly on the real code.
//
//	harness <prop> run  -seed S -tier quick|thorough      generate + execute
//	harness <prop> exec                                  execute case lines read on stdin (replay)
//
// Output (stdout), tab separated:
//
//	C <case> <result>            correspondence line (the model must print the same <result>)
//	F <signature> <case> <text>  the property oracle fails on the real code for this case
//	S <key> <count>              generator / branch statistics
package main

import (
	"bufio"
	"flag"
	"fmt"
	"io"
	"math/rand"
	"os"
	"runtime"
	"runtime/debug"
	"sort"
	"strconv"
	"strings"
	"sync"
	"sync/atomic"
	"time"

	log "github.com/sirupsen/logrus"
)

// Fail is one oracle failure: the property does not hold on the real code for the case.
type Fail struct {
	Sig  string // stable signature: call site / operation class (matched against known_findings.json)
	Text string // expected / actual
}

// Prop is implemented once per property.
type Prop interface {
	// Gen emits case lines.
	Gen(rng *rand.Rand, tier string, emit func(string))
	// Exec runs one case line against the real code and the oracle.
	Exec(c string) (result string, fails []Fail)
}

var props = map[string]Prop{}

type fatalExit struct{ code int }

// caseOverride lets Exec replace the printed case line by an augmented one (same case, plus data the
// model needs, e.g. the text the real formatter produced); Exec must accept the augmented form too.
// caseTrivial marks the current case as trivial for the distinct_nontrivial count.
var (
	caseOverride string
	caseTrivial  bool
)

var (
	statMu sync.Mutex
	stats  = map[string]int{}
)

func stat(key string) {
	statMu.Lock()
	stats[key]++
	statMu.Unlock()
}

// fatalSeen is set by the logrus exit function: log.Fatal* anywhere (also in a goroutine started by
// the code under test) terminates the calling goroutine (runtime.Goexit) and is observed as the
// outcome "fatal" of the case being executed.
var fatalSeen atomic.Bool

// guard runs f, mapping panics and log.Fatal to outcome strings.
func guard(f func() string) (res string) {
	defer func() {
		if r := recover(); r != nil {
			res = "panic"
			if os.Getenv("VERIF_PANIC_TRACE") != "" { // debugging aid: where the code under test panicked
				fmt.Fprintf(os.Stderr, "panic: %v\n%s\n", r, debug.Stack())
			}
		}
	}()
	return f()
}

// guardT is guard with a watchdog; a case that does not finish is the outcome "hang"; a log.Fatal
// in any goroutine is the outcome "fatal".
func guardT(d time.Duration, f func() string) string {
	d *= watchdogScale()
	fatalSeen.Store(false)
	ch := make(chan string, 1)
	go func() {
		res := ""
		done := false
		defer func() {
			if !done { // the goroutine was terminated by log.Fatal (runtime.Goexit)
				res = "fatal"
			}
			ch <- res
		}()
		res = guard(f)
		done = true
	}()
	deadline := time.After(d)
	tick := time.NewTicker(5 * time.Millisecond)
	defer tick.Stop()
	for {
		select {
		case r := <-ch:
			if fatalSeen.Load() {
				return "fatal"
			}
			return r
		case <-tick.C:
			if fatalSeen.Load() {
				// a goroutine of the code under test died in log.Fatal; give the rest 50 ms to settle
				select {
				case <-ch:
				case <-time.After(50 * time.Millisecond):
				}
				return "fatal"
			}
		case <-deadline:
			return "hang"
		}
	}
}

// watchdogScale: VERIF_WATCHDOG_SCALE=<n> multiplies every watchdog delay; the check driver re-runs, alone and with a
// longer delay, the cases that ended in "hang" while the model expected an answer (a loaded machine is not a hang)
func watchdogScale() time.Duration {
	if v, err := strconv.Atoi(os.Getenv("VERIF_WATCHDOG_SCALE")); err == nil && v > 1 && v <= 100 {
		return time.Duration(v)
	}
	return 1
}

func clean(s string) string {
	s = strings.ReplaceAll(s, "\t", " ")
	s = strings.ReplaceAll(s, "\n", "\\n")
	return s
}

func main() {
	log.SetLevel(log.PanicLevel)
	log.StandardLogger().ExitFunc = func(code int) {
		fatalSeen.Store(true)
		runtime.Goexit()
	}
	log.SetOutput(io.Discard)

	if len(os.Args) < 3 {
		fmt.Fprintln(os.Stderr, "usage: harness <prop> run|exec [-seed S] [-tier T]")
		os.Exit(2)
	}
	p, ok := props[os.Args[1]]
	if !ok {
		fmt.Fprintln(os.Stderr, "unknown property", os.Args[1])
		os.Exit(2)
	}
	mode := os.Args[2]
	fs := flag.NewFlagSet("harness", flag.ExitOnError)
	seed := fs.Int64("seed", 1, "PRNG seed")
	tier := fs.String("tier", "quick", "quick|thorough")
	fs.Parse(os.Args[3:])

	out := bufio.NewWriterSize(os.Stdout, 1<<20)
	defer out.Flush()
	do := func(c string) {
		caseOverride, caseTrivial = "", false
		res, fails := p.Exec(c)
		if caseOverride != "" {
			c = caseOverride
		}
		flag := ""
		if caseTrivial {
			flag = "\tt"
		}
		fmt.Fprintf(out, "C\t%s\t%s%s\n", clean(c), clean(res), flag)
		for _, f := range fails {
			fmt.Fprintf(out, "F\t%s\t%s\t%s\n", clean(f.Sig), clean(c), clean(f.Text))
		}
	}
	switch mode {
	case "run":
		rng := rand.New(rand.NewSource(*seed))
		p.Gen(rng, *tier, do)
	case "exec":
		sc := bufio.NewScanner(os.Stdin)
		sc.Buffer(make([]byte, 1<<20), 1<<28)
		for sc.Scan() {
			l := sc.Text()
			if l != "" {
				do(l)
			}
		}
	default:
		fmt.Fprintln(os.Stderr, "unknown mode", mode)
		os.Exit(2)
	}
	keys := make([]string, 0, len(stats))
	for k := range stats {
		keys = append(keys, k)
	}
	sort.Strings(keys)
	for _, k := range keys {
		fmt.Fprintf(out, "S\t%s\t%d\n", k, stats[k])
	}
}
