//go:build c04

package main

import (
	"bytes"
	"compress/gzip"
	"encoding/csv"
	"encoding/hex"
	"encoding/json"
	"fmt"
	"io"
	"math/rand"
	"os"
	"os/exec"
	"path/filepath"
	"runtime"
	"strconv"
	"strings"
	"sync"
	"time"

	"git.metabarcoding.org/obitools/obitools4/obitools4/pkg/obiformats"
	"git.metabarcoding.org/obitools/obitools4/obitools4/pkg/obiiter"
	"git.metabarcoding.org/obitools/obitools4/obitools4/pkg/obioptions"
	"git.metabarcoding.org/obitools/obitools4/obitools4/pkg/obiseq"
	"git.metabarcoding.org/obitools/obitools4/obitools4/pkg/obitools/obiconvert"
)

// Case lines (generator form; Exec appends ` | <data for the model>` and ignores it on replay):
//
//	<writer> w=<workers> z=<0|1> se=<0|1> csv=<6 bits id,count,taxon,def,seq,qual> na=<hex> keys=<hex>/…|~ f=<flavour> p=<0|1> <order>:<n>:<L> …
//
// chunks are listed in arrival order; <n> records; <L> = 0 random sequence lengths 1..70, N = every sequence
// N bases long, b<d> = the first sequence is as long as needed for the formatted chunk to be the shortest one
// of at least 4096+d bytes (d written m<k> / p<k>): the chunk sizes straddle the bufio buffer of Wfile.
// p=1: the writer is reached through Write…ToFile with a paired file (two files kept in step); the result then
// carries out2=<second file> and the model line a section ` P <chunks of the mates>`.
// pl=<n> (n>0): the batches reach the writer through a real pipeline stage of n worker goroutines
// (IBioSequence.MakeISliceWorker) whose scheduling decides the arrival order: nothing is forced.
type c04 struct{}

func init() { props["C04"] = c04{} }

// sink is an in-memory io.WriteCloser recording the order of operations.
type sink struct {
	mu         sync.Mutex
	buf        bytes.Buffer
	closes     int
	afterClose int
	calls      []int // size of every Write call received (what bufio.Writer decided to hand over)
}

func (s *sink) Write(p []byte) (int, error) {
	s.mu.Lock()
	defer s.mu.Unlock()
	if s.closes > 0 {
		s.afterClose++
	}
	s.calls = append(s.calls, len(p))
	return s.buf.Write(p)
}
func (s *sink) Close() error {
	s.mu.Lock()
	s.closes++
	s.mu.Unlock()
	return nil
}

// ---- annotation values: a tree the harness can turn into Go values and into the model's encoding ----

type c04val struct {
	kind byte // s i b l m
	s    string
	i    int
	b    bool
	l    []c04val
	m    []c04kv // any order
	typ  int     // for l/m: which Go type carries it
}
type c04kv struct {
	k string
	v c04val
}

func vs(s string) c04val { return c04val{kind: 's', s: s} }
func vi(i int) c04val    { return c04val{kind: 'i', i: i} }
func vb(b bool) c04val   { return c04val{kind: 'b', b: b} }

func (v c04val) toGo() interface{} {
	switch v.kind {
	case 's':
		return v.s
	case 'i':
		return v.i
	case 'b':
		return v.b
	case 'l':
		allS, allI := true, true
		for _, e := range v.l {
			allS = allS && e.kind == 's'
			allI = allI && e.kind == 'i'
		}
		if allS && v.typ%2 == 0 {
			r := make([]string, len(v.l))
			for i, e := range v.l {
				r[i] = e.s
			}
			return r
		}
		if allI && v.typ%2 == 0 {
			r := make([]int, len(v.l))
			for i, e := range v.l {
				r[i] = e.i
			}
			return r
		}
		r := make([]interface{}, len(v.l))
		for i, e := range v.l {
			r[i] = e.toGo()
		}
		return r
	default:
		allS, allI := true, true
		for _, e := range v.m {
			allS = allS && e.v.kind == 's'
			allI = allI && e.v.kind == 'i'
		}
		if allI && v.typ%2 == 0 {
			r := map[string]int{}
			for _, e := range v.m {
				r[e.k] = e.v.i
			}
			return r
		}
		if allS && v.typ%2 == 0 {
			r := map[string]string{}
			for _, e := range v.m {
				r[e.k] = e.v.s
			}
			return r
		}
		r := map[string]interface{}{}
		for _, e := range v.m {
			r[e.k] = e.v.toGo()
		}
		return r
	}
}

func hx0(s string) string { return hex.EncodeToString([]byte(s)) }

func (v c04val) enc(sb *strings.Builder) {
	switch v.kind {
	case 's':
		sb.WriteString("s" + hx0(v.s) + ".")
	case 'i':
		if v.i < 0 {
			sb.WriteString("in" + strconv.Itoa(v.i)[1:] + ".")
		} else {
			sb.WriteString("i" + strconv.Itoa(v.i) + ".")
		}
	case 'b':
		if v.b {
			sb.WriteString("t")
		} else {
			sb.WriteString("f")
		}
	case 'l':
		sb.WriteString("l" + strconv.Itoa(len(v.l)) + ".")
		for _, e := range v.l {
			e.enc(sb)
		}
	default:
		sb.WriteString("m" + strconv.Itoa(len(v.m)) + ".")
		for _, e := range v.m {
			sb.WriteString(hx0(e.k) + ".")
			e.v.enc(sb)
		}
	}
}

type c04rec struct {
	id   string
	seq  []byte
	qual []byte // nil = none
	ann  []c04kv
}

func (r c04rec) build() *obiseq.BioSequence {
	s := obiseq.NewBioSequence(r.id, append([]byte{}, r.seq...), "")
	for _, e := range r.ann {
		s.SetAttribute(e.k, e.v.toGo())
	}
	if r.qual != nil {
		s.SetQualities(append([]byte{}, r.qual...))
	}
	return s
}

var c04nasty = []string{"a,b", "x\"y", " lead", "\ttab", "multi\nline", "cr\rlf", "crlf\r\nx", "\\.", "", "é", " nbsp",
	" ls", "<a&b>", "back\\slash", "],[", "{z}", "trail ", "\"\"", ",", "\n", "\"", "plain", "a b", "\r", "x\r\n", "　w", "'", "a;b:c"}

// strings on which the unrepaired JSONRecord produced invalid JSON / panicked
var c04hostile = []string{"a\x01b", "\b\f", "\x1f", "\x7f", "a\\u0041b", "a\\ub", "\\u", "\\\\u0031", "\x00", "\\u00e9\\n"}

// integers at the boundaries of the decimal printer (digit counts, sign, extremes of int64)
var c04ints = []int{0, -1, 1, 9, 10, -9, -10, 99, 100, 101, -100, 1000000, 999999, 1 << 31, -(1 << 31), 1<<53 + 1, 1<<63 - 1, -(1 << 63), 1234567890123456789}

var c04keys = []string{"note", "k,ey", "q\"k", "sample", "a b", "tag", "zz", "definition", "scientific_name", "é"}

func c04randVal(r *rand.Rand, flavour, depth int) c04val {
	pool := c04nasty
	if flavour >= 3 && r.Intn(2) == 0 {
		pool = c04hostile
	}
	switch k := r.Intn(10); {
	case k < 5 || depth > 2:
		return vs(pool[r.Intn(len(pool))])
	case k == 5:
		if r.Intn(3) == 0 {
			return vi(c04ints[r.Intn(len(c04ints))])
		}
		return vi(r.Intn(2000) - 1000)
	case k == 6:
		return vb(r.Intn(2) == 0)
	case k == 7 || k == 8:
		n := r.Intn(4)
		v := c04val{kind: 'l', typ: r.Intn(2)}
		hom := r.Intn(3)
		for i := 0; i < n; i++ {
			switch hom {
			case 0:
				v.l = append(v.l, vs(pool[r.Intn(len(pool))]))
			case 1:
				v.l = append(v.l, vi(r.Intn(100)-50))
			default:
				v.l = append(v.l, c04randVal(r, flavour, depth+1))
			}
		}
		return v
	default:
		n := r.Intn(4)
		v := c04val{kind: 'm', typ: r.Intn(2)}
		hom := r.Intn(3)
		for _, j := range r.Perm(len(c04keys))[:n] {
			var e c04val
			switch hom {
			case 0:
				e = vs(pool[r.Intn(len(pool))])
			case 1:
				e = vi(r.Intn(100) - 50)
			default:
				e = c04randVal(r, flavour, depth+1)
			}
			v.m = append(v.m, c04kv{c04keys[j], e})
		}
		return v
	}
}

// c04Record is record j of batch k: a pure function of (k, j, L, flavour, withQual).
func c04Record(k, j, L, flavour int, withQual bool) c04rec {
	r := rand.New(rand.NewSource(int64(k*100003 + j*17 + flavour + 7)))
	n := 1 + r.Intn(70)
	if r.Intn(5) == 0 {
		n = 59 + r.Intn(4)
	}
	if L > 0 {
		n = L
	}
	if L < 0 {
		n = 0 // empty sequence
	}
	sq := make([]byte, n)
	for i := range sq {
		sq[i] = "acgt"[r.Intn(4)]
	}
	rec := c04rec{id: fmt.Sprintf("s%d_%d", k, j), seq: sq}
	if flavour >= 2 && r.Intn(3) == 0 {
		rec.id += []string{",x", "\"q\"", ";", "é", "'", "\\"}[r.Intn(6)]
	}
	if flavour >= 1 {
		if r.Intn(2) == 0 {
			rec.ann = append(rec.ann, c04kv{"count", vi(1 + r.Intn(50))})
		}
		if r.Intn(3) == 0 {
			rec.ann = append(rec.ann, c04kv{"note", vs([]string{"a,b", "x\"y", "{z}", "plain", "],["}[r.Intn(5)])})
		}
	}
	if flavour >= 2 {
		if r.Intn(3) == 0 {
			rec.ann = append(rec.ann, c04kv{"taxid", vi(1 + r.Intn(3))})
		}
		has := map[string]bool{"note": true}
		for i := r.Intn(4); i > 0; i-- {
			k := c04keys[r.Intn(len(c04keys))]
			if has[k] {
				continue
			}
			has[k] = true
			rec.ann = append(rec.ann, c04kv{k, c04randVal(r, flavour, 0)})
		}
		r.Shuffle(len(rec.ann), func(a, b int) { rec.ann[a], rec.ann[b] = rec.ann[b], rec.ann[a] })
	}
	if withQual {
		q := make([]byte, n)
		for i := range q {
			q[i] = byte(r.Intn(42))
		}
		if flavour >= 2 && r.Intn(8) == 0 && n > 0 {
			q[r.Intn(n)] = byte(90 + r.Intn(20)) // above the clamp
		}
		rec.qual = q
	}
	return rec
}

type c04chunk struct {
	order, n int
	l        string
}

type c04case struct {
	w        string
	workers  int
	z        bool
	se       bool
	csvBits  string
	na       string
	keys     []string
	flavour  int
	paired   bool
	pl       int
	arrival  []c04chunk
	withQual bool
	au       bool // csv: CSVAutoColumn (obicsv --auto)
	cmd      bool // paired output through obiconvert.CLIWriteBioSequences with a parsed command line (child process)
	ap       int  // 1: the output file exists and is appended to; 2: it exists (longer than the output) and is overwritten
}

func (c *c04case) options() []obiformats.WithOption {
	o := []obiformats.WithOption{obiformats.OptionsParallelWorkers(c.workers), obiformats.OptionCloseFile(),
		obiformats.OptionsCompressed(c.z), obiformats.OptionsSkipEmptySequence(c.se)}
	if c.w == "csv" {
		b := func(i int) bool { return c.csvBits[i] == '1' }
		o = append(o, obiformats.CSVId(b(0)), obiformats.CSVCount(b(1)), obiformats.CSVTaxon(b(2)), obiformats.CSVDefinition(b(3)),
			obiformats.CSVSequence(b(4)), obiformats.CSVQuality(b(5)), obiformats.CSVNAValue(c.na), obiformats.CSVKeys(c.keys))
		if c.au {
			o = append(o, obiformats.CSVAutoColumn(true))
		}
	}
	if c.ap == 1 {
		o = append(o, obiformats.OptionsAppendFile(true))
	}
	return o
}

func c04parse(line string) (*c04case, bool) {
	f := strings.Fields(line)
	if len(f) < 1 {
		return nil, false
	}
	c := &c04case{w: f[0], workers: 1, csvBits: "100010", na: "NA"}
	switch c.w {
	case "fasta", "fastq", "json", "csv":
	default:
		return nil, false
	}
	c.withQual = c.w == "fastq"
	for _, t := range f[1:] {
		if t == "|" {
			break
		}
		if i := strings.IndexByte(t, '='); i > 0 {
			k, v := t[:i], t[i+1:]
			switch k {
			case "w":
				n, err := strconv.Atoi(v)
				if err != nil || n < 1 || n > 64 {
					return nil, false
				}
				c.workers = n
			case "z":
				c.z = v == "1"
			case "se":
				c.se = v == "1"
			case "p":
				c.paired = v == "1"
			case "au":
				c.au = v == "1"
			case "cmd":
				c.cmd = v == "1"
			case "ap":
				n, err := strconv.Atoi(v)
				if err != nil || n < 0 || n > 2 {
					return nil, false
				}
				c.ap = n
			case "pl":
				n, err := strconv.Atoi(v)
				if err != nil || n < 0 || n > 64 {
					return nil, false
				}
				c.pl = n
			case "q":
				c.withQual = v == "1"
			case "csv":
				if len(v) != 6 {
					return nil, false
				}
				c.csvBits = v
			case "na":
				b, ok := unhx(v)
				if !ok {
					return nil, false
				}
				c.na = string(b)
			case "keys":
				if v != "~" {
					for _, h := range strings.Split(v, "/") {
						b, ok := unhx(h)
						if !ok {
							return nil, false
						}
						c.keys = append(c.keys, string(b))
					}
				}
			case "f":
				n, err := strconv.Atoi(v)
				if err != nil {
					return nil, false
				}
				c.flavour = n
			default:
				return nil, false
			}
			continue
		}
		q := strings.Split(t, ":")
		if len(q) < 2 {
			return nil, false
		}
		o, e1 := strconv.Atoi(q[0])
		n, e2 := strconv.Atoi(q[1])
		if e1 != nil || e2 != nil || o < 0 || n < 0 {
			return nil, false
		}
		l := "0"
		if len(q) > 2 {
			l = q[2]
		}
		c.arrival = append(c.arrival, c04chunk{o, n, l})
	}
	if c.w == "fastq" {
		c.withQual = true
	}
	return c, true
}

// records of chunk ch (descriptions); the boundary form b<d> is resolved with the real formatter
func (c *c04case) records(ch c04chunk, opt obiformats.Options) []c04rec {
	mk := func(l0 int) []c04rec {
		rs := make([]c04rec, ch.n)
		for j := range rs {
			L := 0
			if j == 0 {
				L = l0
			}
			rs[j] = c04Record(ch.order, j, L, c.flavour, c.withQual)
		}
		return rs
	}
	if strings.HasPrefix(ch.l, "b") && ch.n > 0 {
		d, _ := strconv.Atoi(ch.l[2:])
		if ch.l[1] == 'm' {
			d = -d
		}
		target := 4096 + d
		lo, hi := 1, 9000
		for lo < hi {
			mid := (lo + hi) / 2
			t, _ := c.format(ch.order, mk(mid), opt)
			if len(t) >= target {
				hi = mid
			} else {
				lo = mid + 1
			}
		}
		return mk(lo)
	}
	if ch.l == "e" { // the second record (the first when alone) has an empty sequence
		rs := mk(0)
		if len(rs) > 0 {
			rs[len(rs)/2] = c04Record(ch.order, len(rs)/2, -1, c.flavour, c.withQual)
		}
		return rs
	}
	L, _ := strconv.Atoi(ch.l)
	rs := make([]c04rec, ch.n)
	for j := range rs {
		rs[j] = c04Record(ch.order, j, L, c.flavour, c.withQual)
	}
	return rs
}

// describe is the description of one batch for the model: <order>:<rec>;<rec>…
func (c *c04case) describe(order int, rs []c04rec, opt obiformats.Options) string {
	var sb strings.Builder
	fmt.Fprintf(&sb, "%d:", order)
	for j, rc := range rs {
		if j > 0 {
			sb.WriteByte(';')
		}
		q := "~"
		if rc.qual != nil && len(rc.qual) > 0 {
			q = hx(rc.qual)
		}
		info := ""
		if c.w == "fasta" || c.w == "fastq" {
			info = opt.FormatFastSeqHeader()(rc.build())
		}
		sb.WriteString(hx([]byte(rc.id)) + "," + hx(rc.seq) + "," + q + "," + hx([]byte(info)) + ",")
		c04val{kind: 'm', m: rc.ann}.enc(&sb)
	}
	return sb.String()
}

// c04drain consumes the iterator returned by the writer (batches in the order the formatting workers handed them to
// the writer goroutine) and records whether that order was the batch order.
func c04drain(c *c04case, ni obiiter.IBioSequence) {
	last, inOrder, seen := -1, true, 0
	for ni.Next() {
		o := ni.Get().Order()
		if o < last {
			inOrder = false
		}
		last = o
		seen++
	}
	if seen != len(c.arrival) {
		stat("writer:iterator lost or duplicated batches")
	}
	if c.pl > 0 || c.workers > 1 {
		if inOrder {
			stat("scheduled arrival: in batch order")
		} else {
			stat("scheduled arrival: out of batch order")
		}
	}
}

// c04jitter is the worker of the pipeline stage: it hands the batch on unchanged after a pseudo-random number of
// yields (and sometimes a short sleep), so that the worker goroutines overtake each other.
func c04jitter(sl obiseq.BioSequenceSlice) (obiseq.BioSequenceSlice, error) {
	h := uint32(2166136261)
	if len(sl) > 0 {
		for _, b := range []byte(sl[0].Id()) {
			h = (h ^ uint32(b)) * 16777619
		}
	}
	for i := uint32(0); i < h%7; i++ {
		runtime.Gosched()
	}
	if h%11 == 0 {
		time.Sleep(time.Duration(20+h%200) * time.Microsecond)
	}
	return sl, nil
}

func c04batch(order int, rs []c04rec) obiiter.BioSequenceBatch {
	sl := obiseq.MakeBioSequenceSlice()
	for _, r := range rs {
		sl = append(sl, r.build())
	}
	return obiiter.MakeBioSequenceBatch("src", order, sl)
}

// format runs the real per-batch formatter on fresh copies of the records
func (c *c04case) format(order int, rs []c04rec, opt obiformats.Options) ([]byte, string) {
	var t []byte
	res := guardT(10*time.Second, func() string {
		b := c04batch(order, rs)
		switch c.w {
		case "fasta":
			t = obiformats.FormatFastaBatch(b, opt.FormatFastSeqHeader(), opt.SkipEmptySequence()).Bytes()
		case "fastq":
			t = obiformats.FormatFastqBatch(b, opt.FormatFastSeqHeader(), opt.SkipEmptySequence()).Bytes()
		case "json":
			t = obiformats.FormatJSONBatch(b)
		case "csv":
			t = obiformats.FormatCVSBatch(b, opt)
		}
		return "ok"
	})
	return append([]byte{}, t...), res
}

func (c04) Gen(rng *rand.Rand, tier string, emit func(string)) {
	writers := []string{"fasta", "fastq", "json", "csv"}
	type gopt struct {
		workers, flavour int
		z, se, paired    bool
		csv              string
		pl               int
		au, cmd          bool
		ap               int
	}
	one := func(w string, g gopt, ch []c04chunk) {
		parts := make([]string, len(ch))
		for i, c := range ch {
			l := c.l
			if l == "" {
				l = "0"
			}
			parts[i] = fmt.Sprintf("%d:%d:%s", c.order, c.n, l)
		}
		b2 := func(b bool) int {
			if b {
				return 1
			}
			return 0
		}
		extra := ""
		if w == "csv" {
			extra = " " + g.csv
			if g.csv == "" {
				extra = " csv=100010 na=4e41 keys=~"
			}
		}
		if g.workers == 0 {
			g.workers = 1
		}
		pl := ""
		if g.pl > 0 {
			pl = fmt.Sprintf(" pl=%d", g.pl)
		}
		if g.au && w == "csv" {
			pl += " au=1"
		}
		if g.cmd && w != "csv" {
			pl += " cmd=1"
		}
		if g.ap > 0 {
			pl += fmt.Sprintf(" ap=%d", g.ap)
		}
		emit(fmt.Sprintf("%s w=%d z=%d se=%d%s f=%d p=%d%s %s", w, g.workers, b2(g.z), b2(g.se), extra, g.flavour, b2(g.paired), pl, strings.Join(parts, " ")))
	}
	simple := func(orders []int, sizes map[int]int) []c04chunk {
		ch := make([]c04chunk, len(orders))
		for i, o := range orders {
			ch[i] = c04chunk{o, sizes[o], "0"}
		}
		return ch
	}
	// adversarial arrival orders of n batches at the writer goroutine (one formatting worker: the order is forced)
	adversarial := func(kind, n int) []c04chunk {
		var orders []int
		switch kind {
		case 0: // reverse: everything is buffered, then one drain of n-1 chunks
			for k := n - 1; k >= 0; k-- {
				orders = append(orders, k)
			}
		case 1: // two interleaved runs 0,h,1,h+1,…: the buffer grows to n/2 and every second arrival drains nothing
			h := (n + 1) / 2
			for k := 0; k < h; k++ {
				orders = append(orders, k)
				if h+k < n {
					orders = append(orders, h+k)
				}
			}
		default: // last first, then in order
			orders = append(orders, n-1)
			for k := 0; k < n-1; k++ {
				orders = append(orders, k)
			}
		}
		ch := make([]c04chunk, n)
		for i, o := range orders {
			ch[i] = c04chunk{o, 1, "0"}
			if o%97 == 5 {
				ch[i].n = 0
			}
		}
		return ch
	}
	for wi, w := range writers {
		// column detection of obicsv --auto, command-level paired output, existing output files, adversarial orders
		sz := map[int]int{0: 2, 1: 3, 2: 1, 3: 0, 4: 2}
		if w == "csv" {
			for _, fl := range []int{1, 2, 3} {
				one(w, gopt{flavour: fl, au: true, csv: "csv=100010 na=4e41 keys=~"}, simple([]int{0, 1, 2, 3, 4}, sz))
				one(w, gopt{flavour: fl, au: true, csv: "csv=100010 na=2d keys=" + hx0("nope") + "/" + hx0("note")}, simple([]int{2, 0, 1, 4, 3}, sz))
				one(w, gopt{flavour: fl, au: true, workers: 4, z: fl == 2, csv: "csv=111111 na=4e41 keys=~"}, simple([]int{4, 3, 2, 1, 0}, sz))
				one(w, gopt{flavour: fl, au: true, csv: "csv=010000 na=4e41 keys=~"}, simple([]int{3, 0, 1, 2}, sz))
			}
			one(w, gopt{flavour: 0, au: true, csv: "csv=100010 na=4e41 keys=~"}, simple([]int{1, 0}, sz))
		} else {
			for _, se := range []bool{false, true} {
				one(w, gopt{flavour: 1, cmd: true, paired: true, se: se}, simple([]int{0, 1, 2}, sz))
				one(w, gopt{flavour: 2, cmd: true, paired: true, se: se, z: true}, simple([]int{2, 1, 0, 4, 3}, sz))
				one(w, gopt{flavour: 1, cmd: true, paired: true, se: se}, []c04chunk{{0, 2, "0"}, {1, 3, "e"}, {2, 1, "0"}})
			}
		}
		for ap := 1; ap <= 2; ap++ {
			one(w, gopt{flavour: 1, ap: ap, csv: "csv=100010 na=4e41 keys=~"}, simple([]int{1, 0, 2}, sz))
			one(w, gopt{flavour: 2, ap: ap, paired: true, z: ap == 1 && w != "csv", csv: "csv=100010 na=4e41 keys=~"}, simple([]int{2, 0, 1}, sz))
		}
		if tier == "thorough" {
			one(w, gopt{flavour: wi % 2, csv: "csv=100010 na=4e41 keys=~"}, adversarial((wi+rng.Intn(3))%3, 10000))
			one(w, gopt{flavour: 1, z: true, csv: "csv=100010 na=4e41 keys=~"}, adversarial((wi+1)%3, 2000))
		}
		for kind := 0; kind < 3; kind++ {
			one(w, gopt{flavour: kind % 2, z: kind == 2, csv: "csv=100010 na=4e41 keys=~"}, adversarial(kind, 300))
		}
	}
	randCsv := func() string {
		bits := []byte("100010")
		for i := range bits {
			if rng.Intn(3) == 0 {
				bits[i] = '0' + byte(rng.Intn(2))
			}
		}
		if rng.Intn(4) != 0 {
			bits[0] = '1'
		}
		pool := append([]string{"nope", "id", "sequence", "qualities", "count", "taxid"}, c04keys...)
		var ks []string
		for _, j := range rng.Perm(len(pool))[:rng.Intn(5)] {
			ks = append(ks, hx0(pool[j]))
		}
		keys := "~"
		if len(ks) > 0 {
			keys = strings.Join(ks, "/")
		}
		if string(bits) == "000000" && keys == "~" {
			bits[0] = '1'
		}
		na := []string{"NA", "NA", "", "n,a", " na", "\"", "-"}[rng.Intn(7)]
		return fmt.Sprintf("csv=%s na=%s keys=%s", bits, hx([]byte(na)), keys)
	}
	// corpus: the arrival orders that exercise drain-after-turn and empty batches
	for _, w := range writers {
		for _, z := range []bool{false, true} {
			g := gopt{flavour: 1, z: z}
			one(w, g, simple([]int{1, 0, 2}, map[int]int{0: 1, 1: 1, 2: 1}))
			one(w, g, simple([]int{2, 1, 0}, map[int]int{0: 2, 1: 0, 2: 1}))
			one(w, g, simple([]int{0, 1, 2}, map[int]int{0: 0, 1: 1, 2: 0}))
			one(w, g, simple([]int{1, 0}, map[int]int{0: 0, 1: 0}))
			one(w, g, simple([]int{}, map[int]int{}))
			one(w, g, simple([]int{0}, map[int]int{0: 0}))
			// header line / first element when the first batches are empty or arrive late
			one(w, g, simple([]int{2, 1, 0, 3}, map[int]int{0: 0, 1: 0, 2: 2, 3: 1}))
			one(w, g, simple([]int{3, 2, 1, 0}, map[int]int{0: 0, 1: 2, 2: 0, 3: 0}))
		}
		// records that broke the unrepaired JSON formatter (control characters, a literal backslash-u)
		one(w, gopt{flavour: 3}, simple([]int{1, 0}, map[int]int{0: 3, 1: 3}))
		one(w, gopt{flavour: 3, csv: "csv=111111 na=4e41 keys=" + hx0("note") + "/" + hx0("tag") + "/" + hx0("nope")}, simple([]int{0, 2, 1}, map[int]int{0: 4, 1: 4, 2: 4}))
		// empty sequences: skipped / fatal
		one(w, gopt{flavour: 1, se: true}, []c04chunk{{0, 3, "e"}, {1, 1, "e"}, {2, 2, "0"}})
		one(w, gopt{flavour: 1, se: false}, []c04chunk{{0, 3, "e"}})
		// chunk sizes straddling the 4096-byte buffer of the output wrapper: small/LARGE/small, LARGE/small/LARGE, boundary
		for _, z := range []bool{false, true} {
			g := gopt{flavour: 1, z: z}
			one(w, g, []c04chunk{{0, 1, "0"}, {1, 2, "3000"}, {2, 1, "0"}})
			one(w, g, []c04chunk{{1, 2, "3000"}, {0, 1, "0"}, {2, 1, "0"}})
			one(w, g, []c04chunk{{0, 2, "2500"}, {1, 1, "0"}, {2, 3, "2500"}})
			one(w, g, []c04chunk{{0, 0, "0"}, {1, 1, "5000"}, {2, 0, "0"}, {3, 1, "0"}})
			for _, b := range []string{"bm1", "bp0", "bp1", "bm2", "bp2"} {
				one(w, g, []c04chunk{{0, 1, "0"}, {1, 1, b}, {2, 2, "0"}})
				one(w, g, []c04chunk{{0, 1, b}, {1, 1, "0"}, {2, 1, b}})
			}
		}
		// many workers, large batches: a formatter handing out a buffer reused by another worker shows as corrupted text
		for _, nw := range []int{16, 5} {
			var ch []c04chunk
			for k := 0; k < 24; k++ {
				ch = append(ch, c04chunk{k, 12 + k%7, "0"})
			}
			one(w, gopt{workers: nw, flavour: 2, csv: "csv=111111 na=4e41 keys=" + hx0("note") + "/" + hx0("sample")}, ch)
		}
		// paired output with skipped empty sequences (files out of step by construction: compared with the model only)
		one(w, gopt{flavour: 1, paired: true, se: true}, []c04chunk{{1, 2, "e"}, {0, 3, "e"}, {2, 1, "0"}})
		one(w, gopt{flavour: 1, paired: true, se: false}, []c04chunk{{0, 2, "e"}})
		// paired output, late batch 0 and empty batches, records with annotations of every kind
		one(w, gopt{flavour: 3, paired: true, csv: "csv=111111 na=4e41 keys=" + hx0("note") + "/" + hx0("tag")}, simple([]int{3, 2, 1, 0, 4}, map[int]int{0: 2, 1: 0, 2: 3, 3: 1, 4: 0}))
		one(w, gopt{flavour: 2, paired: true, workers: 4, z: true, csv: "csv=010011 na=2d keys=" + hx0("sample")}, simple([]int{0, 1, 2, 3, 4, 5}, map[int]int{0: 0, 1: 2, 2: 2, 3: 0, 4: 3, 5: 1}))
		// paired output: two files kept in step
		one(w, gopt{flavour: 1, paired: true}, simple([]int{1, 0, 2}, map[int]int{0: 2, 1: 1, 2: 0}))
		one(w, gopt{flavour: 2, paired: true, z: true}, []c04chunk{{0, 1, "0"}, {2, 2, "3000"}, {1, 1, "0"}})
	}
	if tier == "thorough" {
		// every permutation of 0..n-1 for n <= 6 (n <= 5 with two emptiness patterns), one formatting worker
		for _, w := range writers {
			for n := 1; n <= 6; n++ {
				perm := make([]int, n)
				for i := range perm {
					perm[i] = i
				}
				var rec func(i int)
				rec = func(i int) {
					if i == n {
						npat := 2
						if n == 6 {
							npat = 1
						}
						for pat := 0; pat < npat; pat++ {
							sz := map[int]int{}
							for k := 0; k < n; k++ {
								if pat == 1 {
									sz[k] = 1
								} else {
									sz[k] = (k + rng.Intn(2)) % 2
								}
							}
							one(w, gopt{flavour: 1, z: n == 6 && rng.Intn(4) == 0}, simple(append([]int{}, perm...), sz))
						}
						return
					}
					for j := i; j < n; j++ {
						perm[i], perm[j] = perm[j], perm[i]
						rec(i + 1)
						perm[i], perm[j] = perm[j], perm[i]
					}
				}
				rec(0)
			}
			// empty batches at every position: every subset of empty batches of 5 batches, reversed and rotated arrival
			for mask := 0; mask < 32; mask++ {
				sz := map[int]int{}
				for k := 0; k < 5; k++ {
					if mask&(1<<k) == 0 {
						sz[k] = 1 + k%2
					}
				}
				one(w, gopt{flavour: 2, csv: randCsv()}, simple([]int{4, 3, 2, 1, 0}, sz))
				one(w, gopt{flavour: 2, csv: randCsv(), z: true}, simple([]int{2, 3, 4, 0, 1}, sz))
			}
			for nw := 1; nw <= 16; nw++ {
				var ch []c04chunk
				for k := 0; k < 20+nw; k++ {
					ch = append(ch, c04chunk{k, 8 + (k*nw)%9, "0"})
				}
				one(w, gopt{workers: nw, flavour: 2, z: nw%4 == 0, csv: randCsv()}, ch)
			}
		}
	}
	if tier == "thorough" {
		// writers fed by a real multi-worker pipeline stage (arrival order decided by the scheduler), plain and compressed,
		// up to 200 batches, with 1..16 formatting workers; some of them paired
		for _, w := range writers {
			for i, nbat := range []int{200, 200, 200, 200, 100, 100, 100, 100, 50, 50, 50, 50, 7, 3} {
				var ch []c04chunk
				for k := 0; k < nbat; k++ {
					c := c04chunk{k, rng.Intn(4), "0"}
					if rng.Intn(40) == 0 {
						c.l = strconv.Itoa(1500 + rng.Intn(3000))
					}
					ch = append(ch, c)
				}
				g := gopt{workers: []int{1, 3, 8, 16}[rng.Intn(4)], pl: []int{2, 4, 8, 16}[i%4], flavour: 1 + rng.Intn(3), z: i%2 == 1, csv: randCsv()}
				if i%5 == 4 {
					g.paired = true
				}
				one(w, g, ch)
			}
		}
	}
	n := 360
	if tier == "thorough" {
		n = 1500
	}
	for i := 0; i < n; i++ {
		w := writers[rng.Intn(4)]
		nb := rng.Intn(8)
		orders := rng.Perm(nb)
		ch := make([]c04chunk, nb)
		for i, k := range orders {
			ch[i] = c04chunk{k, 0, "0"}
			if rng.Intn(4) != 0 {
				ch[i].n = 1 + rng.Intn(3)
			}
			switch rng.Intn(12) {
			case 0:
				ch[i].l = strconv.Itoa(1500 + rng.Intn(3000))
			case 1:
				ch[i].l = []string{"bm1", "bp0", "bp1", "bm3", "bp7"}[rng.Intn(5)]
			case 2:
				ch[i].l = strconv.Itoa(58 + rng.Intn(5) + 60*rng.Intn(3))
			}
		}
		g := gopt{workers: 1, flavour: rng.Intn(4), z: rng.Intn(3) == 0, csv: randCsv()}
		if rng.Intn(4) == 0 {
			g.workers = 2 + rng.Intn(15)
		}
		if rng.Intn(10) == 0 {
			g.se = true
			if nb > 0 {
				ch[rng.Intn(nb)].l = "e"
			}
		}
		if rng.Intn(8) == 0 {
			// (with skipped empty sequences the two files of a pair may be out of step: then only the model comparison applies)
			g.paired = true
		}
		if tier == "thorough" && rng.Intn(6) == 0 {
			g.pl = 2 + rng.Intn(7)
		}
		if w == "csv" && g.pl == 0 && !g.paired && rng.Intn(3) == 0 {
			g.au = true
			for i := range ch {
				if strings.HasPrefix(ch[i].l, "b") {
					ch[i].l = "0"
				}
			}
		}
		one(w, g, ch)
	}
	c04gGen(rng, tier, emit) // the glue between the commands and the writers (c04_glue.go); last: the draws above are unchanged
}

func c04gunzip(b []byte) ([]byte, error) {
	zr, err := gzip.NewReader(bytes.NewReader(b))
	if err != nil {
		return nil, err
	}
	return io.ReadAll(zr)
}

// c04frame is the naive reference of the re-sequencing writer: texts in batch order with the framing of the writer.
func c04frame(w string, texts map[int][]byte, nb int) []byte {
	var out []byte
	if w == "json" {
		out = append(out, "[\n"...)
	}
	first := true
	for k := 0; k < nb; k++ {
		t := texts[k]
		if w == "json" {
			if len(t) == 0 {
				continue
			}
			if !first {
				out = append(out, ",\n"...)
			}
			first = false
		}
		out = append(out, t...)
	}
	if w == "json" {
		out = append(out, "\n]\n"...)
	}
	return out
}

func (c04) Exec(line string) (string, []Fail) {
	if strings.HasPrefix(line, "glue ") || line == "glue" {
		return c04gExec(line) // the glue between the commands and the writers (c04_glue.go)
	}
	c, ok := c04parse(line)
	if !ok {
		return "bad-op", nil
	}
	w := c.w
	stat("writer:" + w)
	if c.workers > 1 {
		stat("multi-worker")
	}
	if c.z {
		stat("compressed")
	}
	if c.paired {
		stat("paired")
	}
	stat(fmt.Sprintf("flavour:%d", c.flavour))
	opts := c.options()
	opt := obiformats.MakeOptions(opts)
	if c.au && c.w == "csv" && len(c.arrival) > 0 {
		// naive reference of the column detection: sorted union of the non-map attribute keys of the first batch delivered
		auto := c04autoKeys(c.records(c.arrival[0], opt))
		opt = obiformats.MakeOptions(append(append([]obiformats.WithOption{}, opts...), obiformats.CSVKeys(auto)))
		stat("csv-auto")
		if len(auto) > 1 {
			stat("csv-auto: >=2 detected columns")
		}
		if len(c.keys) > 0 {
			stat("csv-auto: with explicit keys")
		}
		if c.arrival[0].order != 0 {
			stat("csv-auto: first batch delivered is not batch 0")
		}
	}
	if c.cmd {
		stat("command-level paired output")
		if os.Getenv("C04_CHILD") != "" {
			return c04cmdChild(c), nil
		}
	}
	if c.ap > 0 {
		stat(fmt.Sprintf("existing output file: mode %d", c.ap))
	}
	nb := len(c.arrival)
	shift := int(obioptions.OutputQualityShift())

	// the records, their description for the model, and the chunk texts of the real formatter (single thread, fresh copies)
	descs := make([][]c04rec, nb)   // arrival order
	byOrder := make([][]c04rec, nb) // batch order
	texts := map[int][]byte{}
	var model, modelMates []string
	mateDescs := make([][]c04rec, nb)
	matesByOrder := make([][]c04rec, nb)
	fatalFmt := false
	small, large := false, false
	for i, a := range c.arrival {
		rs := c.records(a, opt)
		descs[i] = rs
		if a.order < nb {
			byOrder[a.order] = rs
		}
		t, r := c.format(a.order, rs, opt)
		if r != "ok" {
			fatalFmt = true
		}
		texts[a.order] = t
		switch {
		case len(t) == 0:
			stat("chunk:empty")
		case len(t) < 4096:
			stat("chunk:<4096")
			small = true
		default:
			stat("chunk:>=4096")
			large = true
		}
		if len(t) >= 4094 && len(t) <= 4098 {
			stat(fmt.Sprintf("chunk:len=%d", len(t)))
		}
		model = append(model, c.describe(a.order, rs, opt))
		if c.paired {
			// the mate of record (k, j) is record (k+1000, j) under the identifier of (k, j)
			ms := make([]c04rec, len(rs))
			for j := range ms {
				ms[j] = c04Record(a.order+1000, j, 0, c.flavour, c.withQual)
				ms[j].id = rs[j].id
			}
			mateDescs[i] = ms
			if a.order < nb {
				matesByOrder[a.order] = ms
			}
			if _, r := c.format(a.order, ms, opt); r != "ok" {
				fatalFmt = true
			}
			modelMates = append(modelMates, c.describe(a.order, ms, opt))
		}
	}
	if small && large {
		stat("case:small+large chunks")
		if c.z {
			stat("case:small+large chunks compressed")
		}
	}
	var pairedOut []byte
	keys := "~"
	if len(c.keys) > 0 {
		hk := make([]string, len(c.keys))
		for i, k := range c.keys {
			hk[i] = hx0(k)
		}
		keys = strings.Join(hk, "/")
	}
	se := 0
	if c.se {
		se = 1
	}
	gen := line
	if i := strings.Index(line, " | "); i >= 0 {
		gen = line[:i]
	}
	caseOverride = fmt.Sprintf("%s | sh=%d se=%d csv=%s na=%s keys=%s C %s", gen, shift, se, c.csvBits, hx([]byte(c.na)), keys, strings.Join(model, " "))
	if c.paired {
		caseOverride += " P " + strings.Join(modelMates, " ")
	}
	if c.pl > 0 {
		stat("pipeline-fed")
		if c.z {
			stat("pipeline-fed compressed")
		}
		if nb >= 100 {
			stat("pipeline-fed >=100 batches")
		}
	}
	if nb < 2 {
		caseTrivial = true
	}
	anyEmpty := false
	for i := range descs {
		for _, r := range descs[i] {
			anyEmpty = anyEmpty || len(r.seq) == 0
		}
		if c.paired {
			for _, r := range mateDescs[i] {
				anyEmpty = anyEmpty || len(r.seq) == 0
			}
		}
	}
	if c.cmd {
		// the real command line in a child process (a fatal outcome leaves goroutines and pipe registrations behind)
		res := c04cmdParent(gen)
		var fails []Fail
		seqw := w == "fasta" || w == "fastq"
		switch {
		case res == "fatal":
			if !(seqw && anyEmpty) {
				fails = append(fails, Fail{Sig: w + ".cmd-paired.fatal", Text: "the command died although no sequence is empty"})
			}
		case strings.HasPrefix(res, "closes="):
			if seqw && anyEmpty {
				fails = append(fails, Fail{Sig: w + ".cmd-paired.out-of-step", Text: "a sequence is empty and the command wrote the pair of files: a record is missing from one file only"})
			}
			for _, t := range strings.Fields(res) {
				if strings.HasPrefix(t, "out2=") {
					pairedOut, _ = unhx(t[5:])
				}
			}
			fails = append(fails, c04Oracle(c, opt, res, byOrder, matesByOrder, texts, nil, pairedOut)...)
		default:
			fails = append(fails, Fail{Sig: w + ".outcome", Text: "command did not complete: " + res})
		}
		return res, fails
	}
	if fatalFmt {
		// a formatter dies (log.Fatalf on an empty sequence): the whole-writer run would leave its goroutines behind
		stat("formatter-fatal")
		return "fatal", nil
	}

	var rows [][]string
	res := guardT(c04timeout(nb), func() string {
		it := obiiter.MakeIBioSequence()
		it.Add(1)
		go func() {
			for i, a := range c.arrival {
				b := c04batch(a.order, descs[i])
				if c.paired {
					mb := c04batch(a.order, mateDescs[i])
					for j, s := range b.Slice() {
						s.PairTo(mb.Slice()[j])
					}
				}
				it.Push(b)
			}
			it.Done()
		}()
		go it.WaitAndClose()
		if c.paired {
			it.MarkAsPaired()
		}
		src := it
		if c.pl > 0 {
			src = it.MakeISliceWorker(c04jitter, false, c.pl)
		}
		var ni obiiter.IBioSequence
		var err error
		var raw []byte
		closes, afterClose := 1, 0
		var calls []int
		old := []byte("OLD\n")
		if c.ap == 2 {
			old = bytes.Repeat([]byte("stale bytes of a previous run\n"), 4000)
		}
		if c.paired || c.ap > 0 {
			dir, e := os.MkdirTemp("", "c04p")
			if e != nil {
				return "tmp-err"
			}
			defer os.RemoveAll(dir)
			f1, f2 := filepath.Join(dir, "fwd"), filepath.Join(dir, "rev")
			po := append([]obiformats.WithOption{}, opts...)
			if c.paired {
				po = append(po, obiformats.WritePairedReadsTo(f2))
			}
			if c.ap > 0 {
				os.WriteFile(f1, old, 0644)
				if c.paired {
					os.WriteFile(f2, old, 0644)
				}
			}
			switch w {
			case "fasta":
				ni, err = obiformats.WriteFastaToFile(src, f1, po...)
			case "fastq":
				ni, err = obiformats.WriteFastqToFile(src, f1, po...)
			case "json":
				ni, err = obiformats.WriteJSONToFile(src, f1, po...)
			case "csv":
				ni, err = obiformats.WriteCSVToFile(src, f1, po...)
			}
			if err != nil {
				return "err"
			}
			c04drain(c, ni)
			obiiter.WaitForLastPipe()
			raw, _ = os.ReadFile(f1)
			if c.paired {
				pairedOut, _ = os.ReadFile(f2)
			}
			if c.ap == 1 {
				// append mode: what was in the files stays in front of the output
				if !bytes.HasPrefix(raw, old) || (c.paired && !bytes.HasPrefix(pairedOut, old)) {
					return "append-lost-old-content"
				}
				raw = raw[len(old):]
				if c.paired {
					pairedOut = pairedOut[len(old):]
				}
			}
		} else {
			out := &sink{}
			switch w {
			case "fasta":
				ni, err = obiformats.WriteFasta(src, out, opts...)
			case "fastq":
				ni, err = obiformats.WriteFastq(src, out, opts...)
			case "json":
				ni, err = obiformats.WriteJSON(src, out, opts...)
			case "csv":
				ni, err = obiformats.WriteCSV(src, out, opts...)
			}
			if err != nil {
				return "err"
			}
			c04drain(c, ni)
			obiiter.WaitForLastPipe()
			out.mu.Lock()
			defer out.mu.Unlock()
			raw = append([]byte{}, out.buf.Bytes()...)
			closes, afterClose = out.closes, out.afterClose
			calls = append([]int{}, out.calls...)
		}
		if c.z {
			var e error
			if raw, e = c04gunzip(raw); e != nil {
				return fmt.Sprintf("closes=%d out=gunzip-error", closes)
			}
			if c.paired {
				if pairedOut, e = c04gunzip(pairedOut); e != nil {
					return fmt.Sprintf("closes=%d out=gunzip-error-paired", closes)
				}
			}
		}
		r := fmt.Sprintf("closes=%d out=%s", closes, hx(raw))
		if afterClose > 0 {
			r = fmt.Sprintf("closes=%d write-after-close out=%s", closes, hx(raw))
		}
		if w == "csv" {
			rd, err := csv.NewReader(bytes.NewReader(raw)).ReadAll()
			rows = rd
			if err != nil {
				r += " rows=error"
			} else if len(rd) == 0 {
				r += " rows=~"
			} else {
				rr := make([]string, len(rd))
				for i, row := range rd {
					ff := make([]string, len(row))
					for j, f := range row {
						ff[j] = hx([]byte(f))
					}
					rr[i] = strings.Join(ff, ",")
				}
				r += " rows=" + strings.Join(rr, "/")
			}
		}
		if w == "json" {
			if t, ok := c04compactJSON(raw); ok {
				r += " dec=" + hx([]byte(t))
			} else {
				r += " dec=error"
			}
		}
		if c.paired {
			r += " out2=" + hx(pairedOut)
		}
		if !c.z && !c.paired && c.ap == 0 {
			// the Write calls received by the output: the buffering decisions of Wfile's bufio.Writer
			ws := make([]string, len(calls))
			direct := false
			for i, n := range calls {
				ws[i] = strconv.Itoa(n)
				if n > 4096 {
					direct = true
				}
			}
			if direct {
				stat("wfile: chunk written directly (buffer empty, chunk > 4096)")
			}
			if len(calls) > 1 {
				stat("wfile: several Write calls reach the output")
			}
			if len(ws) == 0 {
				r += " wr=~"
			} else {
				r += " wr=" + strings.Join(ws, ",")
			}
		}
		return r
	})
	var fails []Fail
	if strings.HasPrefix(res, "closes=") {
		fails = c04Oracle(c, opt, res, byOrder, matesByOrder, texts, rows, pairedOut)
	} else {
		fails = []Fail{{Sig: w + ".outcome", Text: "writer did not complete: " + res}}
	}
	return res, fails
}

// c04compactJSON: what encoding/json decodes from the text, printed back in the compact canonical form of the
// model (Json.encVal): members in file order, number literals as written, strings with the escapes of the C02 encoder.
func c04compactJSON(raw []byte) (string, bool) {
	dec := json.NewDecoder(bytes.NewReader(raw))
	dec.UseNumber()
	var sb strings.Builder
	if err := c04compactVal(dec, &sb); err != nil {
		return "", false
	}
	if _, err := dec.Token(); err != io.EOF {
		return "", false
	}
	return sb.String(), true
}

func c04compactStr(sb *strings.Builder, s string) {
	sb.WriteByte('"')
	for i := 0; i < len(s); i++ {
		c := s[i]
		switch {
		case c == '"':
			sb.WriteString("\\\"")
		case c == '\\':
			sb.WriteString("\\\\")
		case c == '\n':
			sb.WriteString("\\n")
		case c == '\r':
			sb.WriteString("\\r")
		case c == '\t':
			sb.WriteString("\\t")
		case c < 0x20:
			fmt.Fprintf(sb, "\\u00%02x", c)
		case c == 0xE2 && i+2 < len(s) && s[i+1] == 0x80 && (s[i+2] == 0xA8 || s[i+2] == 0xA9):
			fmt.Fprintf(sb, "\\u202%d", 8+int(s[i+2]-0xA8))
			i += 2
		default:
			sb.WriteByte(c)
		}
	}
	sb.WriteByte('"')
}

func c04compactVal(dec *json.Decoder, sb *strings.Builder) error {
	t, err := dec.Token()
	if err != nil {
		return err
	}
	switch v := t.(type) {
	case json.Delim:
		switch v {
		case '[':
			sb.WriteByte('[')
			for first := true; dec.More(); first = false {
				if !first {
					sb.WriteByte(',')
				}
				if err := c04compactVal(dec, sb); err != nil {
					return err
				}
			}
			if _, err := dec.Token(); err != nil {
				return err
			}
			sb.WriteByte(']')
		case '{':
			sb.WriteByte('{')
			for first := true; dec.More(); first = false {
				if !first {
					sb.WriteByte(',')
				}
				k, err := dec.Token()
				if err != nil {
					return err
				}
				ks, ok := k.(string)
				if !ok {
					return fmt.Errorf("key")
				}
				c04compactStr(sb, ks)
				sb.WriteByte(':')
				if err := c04compactVal(dec, sb); err != nil {
					return err
				}
			}
			if _, err := dec.Token(); err != nil {
				return err
			}
			sb.WriteByte('}')
		default:
			return fmt.Errorf("delim")
		}
	case string:
		c04compactStr(sb, v)
	case json.Number:
		sb.WriteString(v.String())
	case bool:
		if v {
			sb.WriteString("true")
		} else {
			sb.WriteString("false")
		}
	case nil:
		sb.WriteString("null")
	}
	return nil
}

func c04collapse(s string) string { return strings.ReplaceAll(s, "\r\n", "\n") }

func c04Oracle(c *c04case, opt obiformats.Options, res string, records, mates [][]c04rec, texts map[int][]byte, rows [][]string, pairedOut []byte) []Fail {
	w := c.w
	var fails []Fail
	f := strings.Fields(res)
	if f[0] != "closes=1" || strings.Contains(res, "write-after-close") {
		fails = append(fails, Fail{Sig: w + ".close", Text: "output must be closed exactly once after the last write: " + f[0]})
	}
	var h string
	for _, t := range f {
		if strings.HasPrefix(t, "out=") {
			h = t[4:]
		}
	}
	var out []byte
	if h != "-" {
		var err error
		out, err = hex.DecodeString(h)
		if err != nil {
			return append(fails, Fail{Sig: w + ".gzip", Text: "compressed output cannot be read back: " + h})
		}
	}
	// every batch once, in increasing batch number: the texts of the formatter (run alone) with the writer's framing
	if ref := c04frame(w, texts, len(records)); !bytes.Equal(ref, out) {
		at := 0
		for at < len(ref) && at < len(out) && ref[at] == out[at] {
			at++
		}
		sig := w + ".order"
		if c.z {
			sig = w + ".order.compressed"
		}
		fails = append(fails, Fail{Sig: sig, Text: fmt.Sprintf("output (%d bytes) is not the chunks 0..%d in order (%d bytes); first difference at byte %d", len(out), len(records)-1, len(ref), at)})
	}
	var all, allMates []c04rec
	skipped := false
	for k, b := range records {
		for j, r := range b {
			if len(r.seq) == 0 && (w == "fasta" || w == "fastq") {
				skipped = true
				continue // skipped (se=1)
			}
			all = append(all, r)
			if c.paired {
				allMates = append(allMates, mates[k][j])
			}
		}
	}
	if c.paired {
		if skipped {
			// a record left out of the first file while its mate is written: the files are out of step by
			// construction (Props.C04.paired_skip_empty_out_of_step); both files are still compared with the model
			stat("paired:skip-empty (files out of step, model comparison only)")
		} else if !c04csvBlankRow(c, opt, all, allMates) {
			fails = append(fails, c04Paired(c, out, pairedOut, all, allMates)...)
		}
	}
	switch w {
	case "json":
		var arr []map[string]interface{}
		if err := json.Unmarshal(out, &arr); err != nil {
			return append(fails, Fail{Sig: "json.invalid", Text: "output is not a valid JSON array: " + err.Error()})
		}
		if len(arr) != len(all) {
			return append(fails, Fail{Sig: "json.records", Text: fmt.Sprintf("%d objects for %d records", len(arr), len(all))})
		}
		for i, o := range arr {
			sq, _ := o["sequence"].(string)
			if o["id"] != all[i].id || sq != string(all[i].seq) {
				return append(fails, Fail{Sig: "json.records", Text: fmt.Sprintf("object %d is %v, expected record %s", i, o["id"], all[i].id)})
			}
			wantQ := ""
			if len(all[i].qual) > 0 {
				wantQ = all[i].build().QualitiesString()
			}
			if q, _ := o["qualities"].(string); q != wantQ {
				return append(fails, Fail{Sig: "json.records", Text: fmt.Sprintf("object %d has qualities %q, expected %q", i, q, wantQ)})
			}
			nkeys := 1
			for _, k := range []string{"sequence", "qualities", "annotations"} {
				if _, ok := o[k]; ok {
					nkeys++
				}
			}
			if len(o) != nkeys {
				return append(fails, Fail{Sig: "json.records", Text: fmt.Sprintf("object %d has unexpected members: %d", i, len(o))})
			}
			ann, _ := o["annotations"].(map[string]interface{})
			if len(ann) != len(all[i].ann) {
				return append(fails, Fail{Sig: "json.annotations", Text: fmt.Sprintf("object %d has %d annotations, record %s has %d", i, len(ann), all[i].id, len(all[i].ann))})
			}
			for _, e := range all[i].ann {
				if !c04sameValue(ann[e.k], e.v) {
					stat("json:annotation-mismatch")
					return append(fails, Fail{Sig: "json.annotations", Text: fmt.Sprintf("object %d key %q is %v, expected %v", i, e.k, ann[e.k], e.v.toGo())})
				}
			}
		}
	case "csv":
		if len(records) == 0 {
			return fails // the property speaks of streams of at least one batch
		}
		if strings.Contains(res, "rows=error") {
			return append(fails, Fail{Sig: "csv.invalid", Text: "encoding/csv cannot read the output back"})
		}
		header := obiformats.CSVHeader(opt)
		if len(header) == 1 {
			// a one-column row holding the empty string is an empty line: not a record for any CSV reader
			for _, r := range all {
				if s := r.build(); len(obiformats.CSVRecord(s, opt)[0]) == 0 {
					return fails
				}
			}
		}
		if len(rows) != len(all)+1 {
			return append(fails, Fail{Sig: "csv.rows", Text: fmt.Sprintf("%d rows for %d records (+1 header); first=%v", len(rows), len(all), rows[:min(1, len(rows))])})
		}
		if strings.Join(rows[0], "\x00") != strings.Join(header, "\x00") {
			return append(fails, Fail{Sig: "csv.header", Text: fmt.Sprintf("first row is %q, expected the header %q", rows[0], header)})
		}
		for i, r := range rows[1:] {
			want := obiformats.CSVRecord(all[i].build(), opt)
			for j := range want {
				want[j] = c04collapse(want[j])
			}
			if strings.Join(r, "\x00") != strings.Join(want, "\x00") {
				return append(fails, Fail{Sig: "csv.rows", Text: fmt.Sprintf("row %d is %q expected %q", i, r, want)})
			}
		}
	case "fasta", "fastq":
		ids, seqs := c04readSeqFile(w, out)
		if len(ids) != len(all) {
			return append(fails, Fail{Sig: w + ".records", Text: fmt.Sprintf("%d records read back for %d records written", len(ids), len(all))})
		}
		for i, id := range ids {
			if id != all[i].id || seqs[i] != string(all[i].seq) {
				return append(fails, Fail{Sig: w + ".records", Text: fmt.Sprintf("record %d is %s (%d bases) expected %s (%d bases)", i, id, len(seqs[i]), all[i].id, len(all[i].seq))})
			}
		}
	}
	return fails
}

// c04readSeqFile is a naive line reader: FASTA = '>' title lines + sequence lines; FASTQ = four-line records.
func c04readSeqFile(w string, out []byte) (ids, seqs []string) {
	lines := strings.Split(string(out), "\n")
	if w == "fastq" {
		for i := 0; i+3 < len(lines); i += 4 {
			if len(lines[i]) == 0 || lines[i][0] != '@' || lines[i+2] != "+" || len(lines[i+3]) != len(lines[i+1]) {
				return append(ids, "<malformed at line "+strconv.Itoa(i)+">"), append(seqs, "")
			}
			ids = append(ids, strings.SplitN(lines[i][1:], " ", 2)[0])
			seqs = append(seqs, lines[i+1])
		}
		return
	}
	for _, l := range lines {
		if len(l) > 0 && l[0] == '>' {
			ids = append(ids, strings.SplitN(l[1:], " ", 2)[0])
			seqs = append(seqs, "")
		} else if len(ids) > 0 {
			seqs[len(seqs)-1] += l
		} else if len(l) > 0 {
			return []string{"<text before the first title line>"}, []string{""}
		}
	}
	return
}

// c04csvBlankRow: a one-column CSV row holding the empty string is an empty line, which no CSV reader sees as a record
func c04csvBlankRow(c *c04case, opt obiformats.Options, lists ...[]c04rec) bool {
	if c.w != "csv" || len(obiformats.CSVHeader(opt)) != 1 {
		return false
	}
	for _, l := range lists {
		for _, r := range l {
			if len(obiformats.CSVRecord(r.build(), opt)[0]) == 0 {
				stat("csv:blank one-column row (reader oracle skipped)")
				return true
			}
		}
	}
	return false
}

// c04sameValue: the value decoded by encoding/json is the annotation value (numbers by value, nested lists and maps)
func c04sameValue(got interface{}, want c04val) bool {
	switch want.kind {
	case 's':
		g, ok := got.(string)
		return ok && g == want.s
	case 'i':
		g, ok := got.(float64)
		return ok && g == float64(want.i)
	case 'b':
		g, ok := got.(bool)
		return ok && g == want.b
	case 'l':
		g, ok := got.([]interface{})
		if !ok || len(g) != len(want.l) {
			return false
		}
		for i := range g {
			if !c04sameValue(g[i], want.l[i]) {
				return false
			}
		}
		return true
	default:
		g, ok := got.(map[string]interface{})
		if !ok || len(g) != len(want.m) {
			return false
		}
		for _, e := range want.m {
			x, ok := g[e.k]
			if !ok || !c04sameValue(x, e.v) {
				return false
			}
		}
		return true
	}
}

// c04Paired: the two files hold the same number of records; record i of the second file is the mate of record i
// of the first one (same identifier, the mate's sequence).
func c04Paired(c *c04case, fwd, rev []byte, all, mates []c04rec) []Fail {
	n := len(all)
	// identifiers and sequences of a file (seqs nil when the format does not show them)
	read := func(b []byte) (ids, seqs []string, ok bool) {
		switch c.w {
		case "fasta", "fastq":
			ids, seqs = c04readSeqFile(c.w, b)
			return ids, seqs, true
		case "json":
			var arr []map[string]interface{}
			if json.Unmarshal(b, &arr) != nil {
				return nil, nil, false
			}
			for _, o := range arr {
				s, _ := o["id"].(string)
				q, _ := o["sequence"].(string)
				ids = append(ids, s)
				seqs = append(seqs, q)
			}
			return ids, seqs, true
		default:
			rows, err := csv.NewReader(bytes.NewReader(b)).ReadAll()
			if err != nil || len(rows) == 0 {
				return nil, nil, err == nil && n == 0
			}
			idc, sqc := -1, -1
			for j, h := range rows[0] {
				if h == "id" && idc < 0 && c.csvBits[0] == '1' && j == 0 {
					idc = j
				}
			}
			if c.csvBits[4] == '1' {
				sqc = len(rows[0]) - 1
				if c.csvBits[5] == '1' {
					sqc--
				}
			}
			for _, r := range rows[1:] {
				if idc >= 0 {
					ids = append(ids, r[idc])
				}
				if sqc >= 0 {
					seqs = append(seqs, r[sqc])
				}
			}
			if idc < 0 {
				ids = nil
			}
			if sqc < 0 {
				seqs = nil
			}
			if idc < 0 && sqc < 0 {
				return nil, nil, len(rows)-1 == n
			}
			return ids, seqs, true
		}
	}
	a, sa, ok1 := read(fwd)
	b, sb, ok2 := read(rev)
	if !ok1 || !ok2 {
		return []Fail{{Sig: c.w + ".paired", Text: "a file of the pair cannot be read back"}}
	}
	if a != nil || c.w != "csv" {
		if len(a) != len(b) || len(a) != n {
			return []Fail{{Sig: c.w + ".paired", Text: fmt.Sprintf("forward file has %d records, reverse file %d, %d written", len(a), len(b), n)}}
		}
		for i := range a {
			if a[i] != b[i] || a[i] != all[i].id {
				return []Fail{{Sig: c.w + ".paired", Text: fmt.Sprintf("record %d: forward %s, reverse %s, written %s", i, a[i], b[i], all[i].id)}}
			}
		}
	}
	if sa != nil || c.w != "csv" {
		if len(sa) != n || len(sb) != n {
			return []Fail{{Sig: c.w + ".paired", Text: fmt.Sprintf("forward file has %d sequences, reverse file %d, %d written", len(sa), len(sb), n)}}
		}
		for i := range sa {
			if sa[i] != string(all[i].seq) || sb[i] != string(mates[i].seq) {
				stat("paired:mate-mismatch")
				return []Fail{{Sig: c.w + ".paired", Text: fmt.Sprintf("record %d (%s): the second file does not hold the mate of the record of the first file", i, all[i].id)}}
			}
		}
		stat("paired:mates checked")
	}
	return nil
}

func c04timeout(nb int) time.Duration {
	if nb > 1000 {
		return 120 * time.Second
	}
	return 20 * time.Second
}

// c04autoKeys is the naive reference of `obicsv --auto`: the attribute keys of the records whose value is not a map, sorted
func c04autoKeys(rs []c04rec) []string {
	seen := map[string]bool{}
	var ks []string
	for _, r := range rs {
		for _, e := range r.ann {
			if e.v.kind != 'm' && !seen[e.k] {
				seen[e.k] = true
				ks = append(ks, e.k)
			}
		}
	}
	for i := 1; i < len(ks); i++ { // insertion sort, byte order
		for j := i; j > 0 && ks[j] < ks[j-1]; j-- {
			ks[j], ks[j-1] = ks[j-1], ks[j]
		}
	}
	return ks
}

// c04cmdParent runs the case in a child process of this harness and returns the child's result
func c04cmdParent(gen string) string {
	exe, err := os.Executable()
	if err != nil {
		return "child-err"
	}
	cmd := exec.Command(exe, "C04", "exec")
	cmd.Env = append(os.Environ(), "C04_CHILD=1")
	cmd.Stdin = strings.NewReader(gen + "\n")
	outb, err := cmd.Output()
	if err != nil {
		return "child-err"
	}
	for _, l := range strings.Split(string(outb), "\n") {
		if strings.HasPrefix(l, "C\t") {
			f := strings.Split(l, "\t")
			if len(f) >= 3 {
				return f[2]
			}
		}
	}
	return "child-no-result"
}

// c04cmdChild: the paired stream written by obiconvert.CLIWriteBioSequences under a command line parsed by the real
// option parser (`--skip-empty` when se=1, the output format, `--compress` when z=1, `--out`)
func c04cmdChild(c *c04case) string {
	dir, e := os.MkdirTemp("", "c04c")
	if e != nil {
		return "tmp-err"
	}
	defer os.RemoveAll(dir)
	ext := map[string]string{"fasta": "fasta", "fastq": "fastq", "json": "json"}[c.w]
	if ext == "" {
		return "bad-op"
	}
	av := []string{"verif", "--" + c.w + "-output", "--out", filepath.Join(dir, "o."+ext)}
	if c.se {
		av = append(av, "--skip-empty")
	}
	if c.z {
		av = append(av, "--compress")
	}
	opt := obiformats.MakeOptions(c.options())
	return guardT(20*time.Second, func() string {
		_, rest := obioptions.GenerateOptionParser(obiconvert.OptionSet)(av)
		if len(rest) != 0 {
			return "rest"
		}
		it := obiiter.MakeIBioSequence()
		it.Add(1)
		go func() {
			for _, a := range c.arrival {
				rs := c.records(a, opt)
				b := c04batch(a.order, rs)
				mb := make([]c04rec, len(rs))
				for j := range mb {
					mb[j] = c04Record(a.order+1000, j, 0, c.flavour, c.withQual)
					mb[j].id = rs[j].id
				}
				m := c04batch(a.order, mb)
				for j, s := range b.Slice() {
					s.PairTo(m.Slice()[j])
				}
				it.Push(b)
			}
			it.Done()
		}()
		go it.WaitAndClose()
		it.MarkAsPaired()
		if _, err := obiconvert.CLIWriteBioSequences(it, true); err != nil {
			return "err"
		}
		obiiter.WaitForLastPipe()
		f1, f2 := obiconvert.BuildPairedFileNames(filepath.Join(dir, "o."+ext))
		raw, _ := os.ReadFile(f1)
		rev, _ := os.ReadFile(f2)
		if c.z {
			var e error
			if raw, e = c04gunzip(raw); e != nil {
				return "closes=1 out=gunzip-error"
			}
			if rev, e = c04gunzip(rev); e != nil {
				return "closes=1 out=gunzip-error-paired"
			}
		}
		r := "closes=1 out=" + hx(raw)
		if c.w == "json" {
			if t, ok := c04compactJSON(raw); ok {
				r += " dec=" + hx([]byte(t))
			} else {
				r += " dec=error"
			}
		}
		return r + " out2=" + hx(rev)
	})
}
