//go:build c04

package main

import (
	"bytes"
	"encoding/csv"
	"encoding/hex"
	"encoding/json"
	"fmt"
	"math/rand"
	"strconv"
	"strings"
	"sync"
	"time"

	"git.metabarcoding.org/obitools/obitools4/obitools4/pkg/obiformats"
	"git.metabarcoding.org/obitools/obitools4/obitools4/pkg/obiiter"
	"git.metabarcoding.org/obitools/obitools4/obitools4/pkg/obiseq"
)

type c04 struct{}

func init() { props["C04"] = c04{} }

// sink is an in-memory io.WriteCloser recording the order of operations.
type sink struct {
	mu         sync.Mutex
	buf        bytes.Buffer
	closes     int
	afterClose int
}

func (s *sink) Write(p []byte) (int, error) {
	s.mu.Lock()
	defer s.mu.Unlock()
	if s.closes > 0 {
		s.afterClose++
	}
	return s.buf.Write(p)
}
func (s *sink) Close() error {
	s.mu.Lock()
	s.closes++
	s.mu.Unlock()
	return nil
}

// c04Record is record j of batch k: content is a pure function of (k, j).
func c04Record(k, j int, withQual bool) *obiseq.BioSequence {
	r := rand.New(rand.NewSource(int64(k*1000 + j + 7)))
	n := 1 + r.Intn(70)
	if r.Intn(5) == 0 {
		n = 59 + r.Intn(4)
	}
	sq := make([]byte, n)
	for i := range sq {
		sq[i] = "acgt"[r.Intn(4)]
	}
	s := obiseq.NewBioSequence(fmt.Sprintf("s%d_%d", k, j), sq, "")
	if r.Intn(2) == 0 {
		s.SetAttribute("count", 1+r.Intn(50))
	}
	if r.Intn(3) == 0 {
		s.SetAttribute("note", []string{"a,b", "x\"y", "{z}", "plain", "],["}[r.Intn(5)])
	}
	if withQual {
		q := make([]byte, n)
		for i := range q {
			q[i] = byte(r.Intn(42))
		}
		s.SetQualities(q)
	}
	return s
}

func c04Batch(k, n int, withQual bool) obiiter.BioSequenceBatch {
	sl := obiseq.MakeBioSequenceSlice()
	for j := 0; j < n; j++ {
		sl = append(sl, c04Record(k, j, withQual))
	}
	return obiiter.MakeBioSequenceBatch("src", k, sl)
}

func (c04) Gen(rng *rand.Rand, tier string, emit func(string)) {
	writers := []string{"fasta", "fastq", "json", "csv"}
	one := func(w string, workers int, orders []int, sizes map[int]int) {
		parts := make([]string, len(orders))
		for i, o := range orders {
			parts[i] = fmt.Sprintf("%d:%d:-", o, sizes[o])
		}
		emit(fmt.Sprintf("%s w=%d %s", w, workers, strings.Join(parts, " ")))
	}
	// corpus: the arrival orders that exercise drain-after-turn and empty batches
	for _, w := range writers {
		one(w, 1, []int{1, 0, 2}, map[int]int{0: 1, 1: 1, 2: 1})
		one(w, 1, []int{2, 1, 0}, map[int]int{0: 2, 1: 0, 2: 1})
		one(w, 1, []int{0, 1, 2}, map[int]int{0: 0, 1: 1, 2: 0})
		one(w, 1, []int{1, 0}, map[int]int{0: 0, 1: 0})
		one(w, 1, []int{}, map[int]int{})
		one(w, 1, []int{0}, map[int]int{0: 0})
	}
	if tier == "thorough" {
		// every permutation of 0..n-1 for n <= 5 with two emptiness patterns, one formatting worker
		for _, w := range writers {
			for n := 1; n <= 5; n++ {
				perm := make([]int, n)
				for i := range perm {
					perm[i] = i
				}
				var rec func(i int)
				rec = func(i int) {
					if i == n {
						for pat := 0; pat < 2; pat++ {
							sz := map[int]int{}
							for k := 0; k < n; k++ {
								if pat == 0 {
									sz[k] = 1
								} else {
									sz[k] = (k + rng.Intn(2)) % 2
								}
							}
							one(w, 1, append([]int{}, perm...), sz)
						}
						return
					}
					for j := i; j < n; j++ {
						perm[i], perm[j] = perm[j], perm[i]
						rec(i + 1)
						perm[i], perm[j] = perm[j], perm[i]
					}
				}
				rec(0)
			}
		}
	}
	n := 400
	if tier == "thorough" {
		n = 1500
	}
	for i := 0; i < n; i++ {
		w := writers[rng.Intn(4)]
		nb := rng.Intn(8)
		orders := rng.Perm(nb)
		sizes := map[int]int{}
		for k := 0; k < nb; k++ {
			switch rng.Intn(4) {
			case 0:
				sizes[k] = 0
			default:
				sizes[k] = 1 + rng.Intn(3)
			}
		}
		workers := 1
		if rng.Intn(4) == 0 {
			workers = 2 + rng.Intn(3)
		}
		one(w, workers, orders, sizes)
	}
}

func (c04) Exec(c string) (string, []Fail) {
	f := strings.Fields(c)
	if len(f) < 2 || !strings.HasPrefix(f[1], "w=") {
		return "bad-op", nil
	}
	w := f[0]
	workers, err := strconv.Atoi(f[1][2:])
	if err != nil || workers < 1 {
		return "bad-op", nil
	}
	type arr struct{ order, n int }
	var arrival []arr
	for _, p := range f[2:] {
		q := strings.Split(p, ":")
		if len(q) < 2 {
			return "bad-op", nil
		}
		o, e1 := strconv.Atoi(q[0])
		n, e2 := strconv.Atoi(q[1])
		if e1 != nil || e2 != nil {
			return "bad-op", nil
		}
		arrival = append(arrival, arr{o, n})
	}
	withQual := w == "fastq"
	stat("writer:" + w)
	if workers > 1 {
		stat("multi-worker")
	}
	opts := []obiformats.WithOption{obiformats.OptionsParallelWorkers(workers), obiformats.OptionCloseFile(),
		obiformats.OptionsCompressed(false)}

	// the chunk texts as the real formatter produces them (data for the model)
	texts := make([]string, len(arrival))
	var records [][]*obiseq.BioSequence // in batch order
	nb := len(arrival)
	records = make([][]*obiseq.BioSequence, nb)
	res := guardT(10*time.Second, func() string {
		opt := obiformats.MakeOptions(opts)
		for i, a := range arrival {
			b := c04Batch(a.order, a.n, withQual)
			if a.order < nb {
				records[a.order] = b.Slice()
			}
			var t []byte
			switch w {
			case "fasta":
				t = obiformats.FormatFastaBatch(b, opt.FormatFastSeqHeader(), false).Bytes()
			case "fastq":
				t = obiformats.FormatFastqBatch(b, opt.FormatFastSeqHeader(), false).Bytes()
			case "json":
				t = obiformats.FormatJSONBatch(b)
			case "csv":
				t = obiformats.FormatCVSBatch(b, opt)
			default:
				return "bad-op"
			}
			texts[i] = fmt.Sprintf("%d:%d:%s", a.order, a.n, hx(t))
		}
		out := &sink{}
		it := obiiter.MakeIBioSequence()
		it.Add(1)
		go func() {
			for _, a := range arrival {
				it.Push(c04Batch(a.order, a.n, withQual))
			}
			it.Done()
		}()
		go it.WaitAndClose()
		var ni obiiter.IBioSequence
		var err error
		switch w {
		case "fasta":
			ni, err = obiformats.WriteFasta(it, out, opts...)
		case "fastq":
			ni, err = obiformats.WriteFastq(it, out, opts...)
		case "json":
			ni, err = obiformats.WriteJSON(it, out, opts...)
		case "csv":
			ni, err = obiformats.WriteCSV(it, out, opts...)
		}
		if err != nil {
			return "err"
		}
		ni.Consume()
		obiiter.WaitForLastPipe()
		out.mu.Lock()
		defer out.mu.Unlock()
		if out.afterClose > 0 {
			return fmt.Sprintf("closes=%d write-after-close out=%s", out.closes, hx(out.buf.Bytes()))
		}
		return fmt.Sprintf("closes=%d out=%s", out.closes, hx(out.buf.Bytes()))
	})
	if res == "bad-op" {
		return res, nil
	}
	caseLine := fmt.Sprintf("%s w=%d %s", w, workers, strings.Join(texts, " "))
	// the case is rewritten so that the model sees the chunk texts
	caseOverride = caseLine
	if len(arrival) < 2 {
		caseTrivial = true
	}
	var fails []Fail
	if strings.HasPrefix(res, "closes=") {
		fails = c04Oracle(w, res, records)
	} else {
		fails = []Fail{{Sig: w + ".outcome", Text: "writer did not complete: " + res}}
	}
	return res, fails
}

func c04Oracle(w, res string, records [][]*obiseq.BioSequence) []Fail {
	var fails []Fail
	f := strings.Fields(res)
	if f[0] != "closes=1" || strings.Contains(res, "write-after-close") {
		fails = append(fails, Fail{Sig: w + ".close", Text: "output must be closed exactly once after the last write: " + f[0]})
	}
	h := strings.TrimPrefix(f[len(f)-1], "out=")
	var out []byte
	if h != "-" {
		out, _ = hex.DecodeString(h)
	}
	var all []*obiseq.BioSequence
	for _, b := range records {
		all = append(all, b...)
	}
	switch w {
	case "json":
		var arr []map[string]interface{}
		if err := json.Unmarshal(out, &arr); err != nil {
			return append(fails, Fail{Sig: "json.invalid", Text: "output is not a valid JSON array: " + err.Error()})
		}
		if len(arr) != len(all) {
			return append(fails, Fail{Sig: "json.records", Text: fmt.Sprintf("%d objects for %d records", len(arr), len(all))})
		}
		for i, o := range arr {
			if o["id"] != all[i].Id() || o["sequence"] != all[i].String() {
				return append(fails, Fail{Sig: "json.records", Text: fmt.Sprintf("object %d is %v, expected record %s", i, o["id"], all[i].Id())})
			}
		}
	case "csv":
		rows, err := csv.NewReader(bytes.NewReader(out)).ReadAll()
		if len(records) == 0 {
			return fails // property speaks of streams of at least one batch
		}
		if err != nil {
			return append(fails, Fail{Sig: "csv.invalid", Text: err.Error()})
		}
		if len(rows) != len(all)+1 || rows[0][0] != "id" {
			return append(fails, Fail{Sig: "csv.rows", Text: fmt.Sprintf("%d rows for %d records (+1 header); first=%v", len(rows), len(all), rows[:min(1, len(rows))])})
		}
		for i, r := range rows[1:] {
			if r[0] != all[i].Id() {
				return append(fails, Fail{Sig: "csv.rows", Text: fmt.Sprintf("row %d is %s expected %s", i, r[0], all[i].Id())})
			}
		}
	case "fasta", "fastq":
		mark := byte('>')
		if w == "fastq" {
			mark = '@'
		}
		var ids []string
		for _, l := range strings.Split(string(out), "\n") {
			if len(l) > 0 && l[0] == mark && strings.HasPrefix(l[1:], "s") {
				ids = append(ids, strings.Fields(l[1:])[0])
			}
		}
		if len(ids) != len(all) {
			return append(fails, Fail{Sig: w + ".records", Text: fmt.Sprintf("%d title lines for %d records", len(ids), len(all))})
		}
		for i, id := range ids {
			if id != all[i].Id() {
				return append(fails, Fail{Sig: w + ".records", Text: fmt.Sprintf("record %d is %s expected %s", i, id, all[i].Id())})
			}
		}
	}
	return fails
}
