//go:build c20

package main

import (
	"fmt"
	"math/big"
	"math/rand"
	"reflect"
	"strconv"
	"strings"
	"sync/atomic"
	"time"

	"git.metabarcoding.org/obitools/obitools4/obitools4/pkg/obifp"
	log "github.com/sirupsen/logrus"
)

// c20WarnHook counts the logrus warnings (log.Warnf of the narrowing casts and of LeftShift64/RightShift64) logged
// while a case runs: the warning is an outcome component of the model (` warn=<k>` suffix of the result line).
type c20WarnHook struct{}

var c20Warns atomic.Int64
var c20WarnMsg atomic.Value // last message

func (c20WarnHook) Levels() []log.Level { return []log.Level{log.WarnLevel} }
func (c20WarnHook) Fire(e *log.Entry) error {
	c20Warns.Add(1)
	c20WarnMsg.Store(e.Message)
	return nil
}

func init() { log.AddHook(c20WarnHook{}) }

type c20 struct{}

func init() { props["C20"] = c20{} }

var c20Boundary []uint64

func init() {
	set := map[uint64]bool{}
	add := func(v uint64) { set[v] = true }
	for _, k := range []uint{0, 1, 2, 7, 8, 31, 32, 33, 62, 63} {
		add(uint64(1) << k)
		add(uint64(1)<<k - 1)
		add(uint64(1)<<k + 1)
	}
	add(0)
	add(^uint64(0))
	add(^uint64(0) - 1)
	add(0xaaaaaaaaaaaaaaaa)
	add(0x5555555555555555)
	add(0x8000000000000001)
	for v := range set {
		c20Boundary = append(c20Boundary, v)
	}
	// deterministic order
	for i := 0; i < len(c20Boundary); i++ {
		for j := i + 1; j < len(c20Boundary); j++ {
			if c20Boundary[j] < c20Boundary[i] {
				c20Boundary[i], c20Boundary[j] = c20Boundary[j], c20Boundary[i]
			}
		}
	}
}

func c20Limb(rng *rand.Rand) uint64 {
	switch rng.Intn(10) {
	case 0, 1, 2:
		return 0
	case 3, 4, 5, 6:
		return c20Boundary[rng.Intn(len(c20Boundary))]
	case 7:
		return uint64(rng.Intn(16))
	default:
		return rng.Uint64()
	}
}

func c20Val(rng *rand.Rand, limbs int) []uint64 {
	v := make([]uint64, limbs)
	// choose how many high limbs are zero so that products/sums near the top are frequent
	z := rng.Intn(limbs + 1)
	for i := range v {
		if i < z && rng.Intn(4) != 0 {
			v[i] = 0
		} else {
			v[i] = c20Limb(rng)
		}
	}
	return v
}

func u64s(v []uint64) string {
	s := make([]string, len(v))
	for i, x := range v {
		s[i] = strconv.FormatUint(x, 10)
	}
	return strings.Join(s, " ")
}

var c20Ops = map[int][]string{
	1: {"shl", "shr", "shl64", "shr64", "add", "sub", "mul", "cmp", "and", "or", "xor", "not", "to64", "to128", "to256",
		"add64", "sub64", "mul64", "zero", "max", "iszero", "set64", "asu64", "eq", "lt", "gt", "le", "ge", "from64"},
	2: {"shl", "shr", "add", "add64", "sub", "mul", "mul64", "quorem", "quorem64", "cmp", "cmp64", "and", "or", "xor", "not",
		"to64", "to128", "to256", "div", "mod", "div64", "mod64", "zero", "max", "iszero", "set64", "asu64",
		"eq", "lt", "gt", "le", "ge", "from64"},
	4: {"shl", "shr", "add", "sub", "mul", "div", "cmp", "and", "or", "xor", "not", "to64", "to128", "to256",
		"zero", "max", "iszero", "set64", "asu64", "eq", "lt", "gt", "le", "ge", "from64"},
}

// binary operations (two operands of the receiver's width) and unary operations, per width: used by the boundary corpus
var c20Binary = map[int][]string{
	1: {"add", "sub", "mul", "cmp", "and", "or", "xor", "eq", "lt", "gt", "le", "ge", "mul64"},
	2: {"add", "sub", "mul", "quorem", "div", "mod", "cmp", "and", "or", "xor", "eq", "lt", "gt", "le", "ge"},
	4: {"add", "sub", "mul", "div", "cmp", "and", "or", "xor", "eq", "lt", "gt", "le", "ge"},
}
var c20Unary = []string{"not", "to64", "to128", "to256", "zero", "max", "iszero", "asu64"}

// operations taking a 64-bit word as second operand
var c20Word = map[int][]string{
	1: {"set64"},
	2: {"add64", "mul64", "quorem64", "div64", "mod64", "cmp64", "set64"},
	4: {"set64"},
}

// shift amounts around every limb boundary, the width, and far beyond (the Go parameter is a `uint`)
var c20Shifts = []uint64{0, 1, 31, 63, 64, 65, 127, 128, 129, 191, 192, 193, 255, 256, 257, 300, 319, 320, 1 << 32, 1 << 63, ^uint64(0)}

// c20BoundaryVals returns the word-boundary values of a width: 2^k-1, 2^k, 2^k+1 around every limb boundary, the
// extremes and two alternating patterns (quick: the short list asked for by the property text; thorough: all)
func c20BoundaryVals(limbs int, tier string) [][]uint64 {
	bitsW := uint(64 * limbs)
	one := big.NewInt(1)
	mod := new(big.Int).Lsh(one, bitsW)
	seen := map[string]bool{}
	var out [][]uint64
	add := func(b *big.Int) {
		if b.Sign() < 0 || b.Cmp(mod) >= 0 {
			return
		}
		k := b.String()
		if !seen[k] {
			seen[k] = true
			out = append(out, fromBig(b, limbs))
		}
	}
	add(big.NewInt(0))
	add(big.NewInt(1))
	add(big.NewInt(2))
	add(new(big.Int).Sub(mod, one))
	add(new(big.Int).Sub(mod, big.NewInt(2)))
	ks := []uint{63, 64, 127, 128, 191, 192, 255}
	if tier == "thorough" {
		ks = []uint{1, 31, 32, 33, 62, 63, 64, 65, 95, 126, 127, 128, 129, 190, 191, 192, 193, 254, 255}
	}
	for _, k := range ks {
		if k >= bitsW {
			continue
		}
		p := new(big.Int).Lsh(one, k)
		add(new(big.Int).Sub(p, one))
		add(p)
		if tier == "thorough" || k%64 == 0 {
			add(new(big.Int).Add(p, one))
		}
	}
	if limbs == 1 {
		for _, k := range []uint{31, 32, 33} {
			p := new(big.Int).Lsh(one, k)
			add(p)
			add(new(big.Int).Sub(p, one))
		}
	}
	if tier == "thorough" {
		pat := make([]uint64, limbs)
		for i := range pat {
			pat[i] = 0xaaaaaaaaaaaaaaaa
		}
		add(toBig(pat))
		for i := range pat {
			pat[i] = 0x5555555555555555
		}
		add(toBig(pat))
		for i := 0; i < limbs; i++ { // all-ones in exactly one limb
			q := make([]uint64, limbs)
			q[i] = ^uint64(0)
			add(toBig(q))
		}
	}
	return out
}

// c20Corpus: the fixed, boundary-heavy part of the case stream (every exported method on every boundary value /
// pair of boundary values, every boundary shift amount)
// keep(limbs, op) thins the pair cases: the Lean transcription of the quadratic shift-and-subtract Uint256.Div needs
// milliseconds per boundary pair (quotients of 200+ bits), everything else is microseconds.  Quick: every pair for
// every method, except Uint256.Div on one pair in two (drawn from the seed).  Thorough: the quick list likewise,
// then the extended value list with one pair in three per seed (8 seeds: a given pair is missed by all of them
// with probability (2/3)^8 = 4 %).
func c20Corpus(tier string, keep func(limbs int, op string) bool, emit func(string)) {
	words := []uint64{0, 1, 2, 1<<32 - 1, 1 << 32, 1<<63 - 1, 1 << 63, ^uint64(0) - 1, ^uint64(0)}
	for _, limbs := range []int{1, 2, 4} {
		w := c20Name(limbs)
		vals := c20BoundaryVals(limbs, tier)
		for _, op := range []string{"zerouint", "oneuint"} {
			emit(fmt.Sprintf("%s %s", w, op))
		}
		for _, x := range words {
			emit(fmt.Sprintf("%s from64 %d", w, x))
		}
		for _, a := range vals {
			for _, op := range c20Unary {
				emit(fmt.Sprintf("%s %s %s", w, op, u64s(a)))
			}
			for _, sh := range c20Shifts {
				emit(fmt.Sprintf("%s shl %s %d", w, u64s(a), sh))
				emit(fmt.Sprintf("%s shr %s %d", w, u64s(a), sh))
			}
			for _, op := range c20Word[limbs] {
				for _, x := range words {
					emit(fmt.Sprintf("%s %s %s %d", w, op, u64s(a), x))
				}
			}
			for _, b := range vals {
				for _, op := range c20Binary[limbs] {
					if keep(limbs, op) {
						emit(fmt.Sprintf("%s %s %s %s", w, op, u64s(a), u64s(b)))
					}
				}
			}
		}
		if limbs == 1 {
			carries := []uint64{0, 1, 1 << 63, ^uint64(0), 0xaaaaaaaaaaaaaaaa, 0x8000000000000001}
			for _, a := range vals {
				for _, sh := range c20Shifts {
					for _, c := range carries {
						emit(fmt.Sprintf("u64 shl64 %s %d %d", u64s(a), sh, c))
						emit(fmt.Sprintf("u64 shr64 %s %d %d", u64s(a), sh, c))
					}
				}
				for _, b := range vals {
					for c := 0; c <= 1; c++ { // bits.Add64/Sub64: the carry input must be 0 or 1
						emit(fmt.Sprintf("u64 add64 %s %s %d", u64s(a), u64s(b), c))
						emit(fmt.Sprintf("u64 sub64 %s %s %d", u64s(a), u64s(b), c))
					}
				}
			}
		}
	}
}

func c20Name(limbs int) string { return map[int]string{1: "u64", 2: "u128", 4: "u256"}[limbs] }

// c20Method maps every exported obifp method to the case-line operation that exercises it; Gen compares the table
// with the method sets found by reflection, so that a method added to the package later shows up in the statistics
// (methods-uncovered:<type>.<name>) instead of silently staying outside the check.
var c20Method = map[string]string{
	"Zero": "zero", "MaxValue": "max", "IsZero": "iszero", "Uint64": "to64", "Uint128": "to128", "Uint256": "to256",
	"Set64": "set64", "LeftShift64": "shl64", "RightShift64": "shr64", "Add64": "add64", "Sub64": "sub64", "Mul64": "mul64",
	"LeftShift": "shl", "RightShift": "shr", "Add": "add", "Sub": "sub", "Mul": "mul", "Cmp": "cmp", "Cmp64": "cmp64",
	"Equals": "eq", "LessThan": "lt", "GreaterThan": "gt", "LessThanOrEqual": "le", "GreaterThanOrEqual": "ge",
	"And": "and", "Or": "or", "Xor": "xor", "Not": "not", "AsUint64": "asu64", "QuoRem": "quorem", "QuoRem64": "quorem64",
	"Div": "div", "Div64": "div64", "Mod": "mod", "Mod64": "mod64",
}

func c20MethodCoverage() {
	for limbs, t := range map[int]reflect.Type{1: reflect.TypeOf(obifp.Uint64{}), 2: reflect.TypeOf(obifp.Uint128{}), 4: reflect.TypeOf(obifp.Uint256{})} {
		for i := 0; i < t.NumMethod(); i++ {
			name := t.Method(i).Name
			if strings.HasPrefix(name, "Verif") { // hooks of verif_hooks.go
				continue
			}
			op, ok := c20Method[name]
			if ok {
				ok = false
				for _, o := range c20Ops[limbs] {
					ok = ok || o == op
				}
			}
			if ok {
				stat("methods-covered:" + t.Name())
			} else {
				stat("methods-uncovered:" + t.Name() + "." + name)
			}
		}
	}
}

func (c20) Gen(rng *rand.Rand, tier string, emit func(string)) {
	c20MethodCoverage()
	n := 12000
	if tier == "thorough" {
		n = 400000
	}
	// fixed corpus first: the word-boundary shifts for every width (all amounts 0..width+64 on three values)
	for _, limbs := range []int{1, 2, 4} {
		for _, base := range [][]uint64{{1}, {^uint64(0)}, {0x8000000000000001}} {
			v := make([]uint64, limbs)
			for i := range v {
				v[i] = base[0]
			}
			for sh := 0; sh <= limbs*64+64; sh++ {
				emit(fmt.Sprintf("%s shl %s %d", c20Name(limbs), u64s(v), sh))
				emit(fmt.Sprintf("%s shr %s %d", c20Name(limbs), u64s(v), sh))
			}
		}
	}
	c20Corpus("quick", func(limbs int, op string) bool { return !(limbs == 4 && op == "div") || rng.Intn(2) == 0 }, emit)
	if tier == "thorough" {
		c20Corpus(tier, func(limbs int, op string) bool { return rng.Intn(3) == 0 }, emit)
	}
	c20Frontier(rng, tier, emit)
	for i := 0; i < n; i++ {
		limbs := []int{1, 2, 4}[rng.Intn(3)]
		ops := c20Ops[limbs]
		op := ops[rng.Intn(len(ops))]
		if tier == "thorough" && limbs == 4 && op == "div" && rng.Intn(2) == 0 {
			// the Lean transcription of the quadratic Uint256.Div costs ~8 ms per case and the model runs in one process:
			// 90k such cases over the 8 seeds were 12 of the 17 minutes of a thorough run; half of the random ones become Mul
			op = "mul"
		}
		a := c20Val(rng, limbs)
		var c string
		switch op {
		case "shl", "shr":
			sh := uint64(rng.Intn(limbs*64 + 65))
			if rng.Intn(8) == 0 {
				sh = c20Shifts[rng.Intn(len(c20Shifts))]
			}
			c = fmt.Sprintf("%s %s %s %d", c20Name(limbs), op, u64s(a), sh)
		case "shl64", "shr64":
			c = fmt.Sprintf("%s %s %s %d %d", c20Name(limbs), op, u64s(a), rng.Intn(140), c20Limb(rng))
		case "not", "to64", "to128", "to256", "zero", "max", "iszero", "asu64":
			c = fmt.Sprintf("%s %s %s", c20Name(limbs), op, u64s(a))
		case "from64":
			c = fmt.Sprintf("%s %s %d", c20Name(limbs), op, c20Limb(rng))
		case "quorem64", "cmp64", "div64", "mod64", "set64":
			c = fmt.Sprintf("%s %s %s %d", c20Name(limbs), op, u64s(a), c20Limb(rng))
		case "add64", "mul64", "sub64":
			switch {
			case limbs == 1 && op == "mul64":
				c = fmt.Sprintf("u64 mul64 %s %d", u64s(a), c20Limb(rng))
			case limbs == 1: // carry forms: bits.Add64/Sub64 define the carry input for 0 and 1 only
				c = fmt.Sprintf("u64 %s %s %d %d", op, u64s(a), c20Limb(rng), rng.Intn(2))
			default:
				c = fmt.Sprintf("%s %s %s %d", c20Name(limbs), op, u64s(a), c20Limb(rng))
			}
		default:
			b := c20Val(rng, limbs)
			if rng.Intn(6) == 0 { // near-equal operands: cmp/sub/div edge cases
				copy(b, a)
				if rng.Intn(2) == 0 {
					b[limbs-1] ^= uint64(rng.Intn(3))
				}
			}
			c = fmt.Sprintf("%s %s %s %s", c20Name(limbs), op, u64s(a), u64s(b))
		}
		emit(c)
	}
}

// c20Frontier emits operand pairs lying on the FRONTIER of the overflow / underflow / exact-division conditions:
// a*b, a+b within a few units of 2^W (both sides), a-b around 0, a = q*b + r with r in {0, 1, b-1}. Random and
// word-boundary operands almost never land there (a product that overflows by a carry out of the last partial
// sum, a quotient digit that needs its correction step), yet that is where a wrong carry test shows.
func c20Frontier(rng *rand.Rand, tier string, emit func(string)) {
	rounds := 250
	if tier == "thorough" {
		rounds = 6000
	}
	one := big.NewInt(1)
	for _, limbs := range []int{1, 2, 4} {
		w := uint(limbs * 64)
		max := new(big.Int).Sub(new(big.Int).Lsh(one, w), one) // 2^W - 1
		name := c20Name(limbs)
		fits := func(x *big.Int) bool { return x.Sign() >= 0 && x.Cmp(max) <= 0 }
		for r := 0; r < rounds; r++ {
			// a multiplier of 1..W bits, the other factor next to (2^W-1)/a
			var a *big.Int
			if rng.Intn(2) == 0 {
				a = new(big.Int).SetUint64(c20Limb(rng))
			} else {
				a = toBig(c20Val(rng, limbs))
			}
			if a.Sign() == 0 {
				a.SetInt64(int64(rng.Intn(5) + 1))
			}
			q := new(big.Int).Div(max, a)
			for d := int64(-2); d <= 2; d++ {
				b := new(big.Int).Add(q, big.NewInt(d))
				if !fits(b) {
					continue
				}
				stat("frontier:mul")
				{
					emit(fmt.Sprintf("%s mul %s %s", name, u64s(fromBig(a, limbs)), u64s(fromBig(b, limbs))))
					emit(fmt.Sprintf("%s mul %s %s", name, u64s(fromBig(b, limbs)), u64s(fromBig(a, limbs))))
				}
				if a.IsUint64() && limbs == 2 {
					emit(fmt.Sprintf("%s mul64 %s %d", name, u64s(fromBig(b, limbs)), a.Uint64()))
				}
				if a.IsUint64() && b.IsUint64() && limbs == 1 {
					emit(fmt.Sprintf("u64 mul64 %d %d", b.Uint64(), a.Uint64()))
				}
			}
			// sums next to 2^W, differences next to 0
			x := toBig(c20Val(rng, limbs))
			for d := int64(-2); d <= 2; d++ {
				y := new(big.Int).Sub(new(big.Int).Add(max, big.NewInt(d)), x) // x + y = 2^W - 1 + d
				if fits(y) {
					stat("frontier:add")
					emit(fmt.Sprintf("%s add %s %s", name, u64s(fromBig(x, limbs)), u64s(fromBig(y, limbs))))
					if y.IsUint64() && limbs == 2 {
						emit(fmt.Sprintf("%s add64 %s %d", name, u64s(fromBig(x, limbs)), y.Uint64()))
					}
				}
				z := new(big.Int).Add(x, big.NewInt(d)) // x - z = -d
				if fits(z) {
					stat("frontier:sub")
					emit(fmt.Sprintf("%s sub %s %s", name, u64s(fromBig(x, limbs)), u64s(fromBig(z, limbs))))
				}
			}
			// exact and nearly exact divisions (quotient digit corrections)
			if limbs == 2 || (limbs == 4 && tier != "thorough" && r%4 == 0) || (limbs == 4 && tier == "thorough" && r%8 == 0) {
				dv := toBig(c20Val(rng, limbs))
				if rng.Intn(2) == 0 {
					dv = new(big.Int).SetUint64(c20Limb(rng))
				}
				if dv.Sign() == 0 {
					dv.SetInt64(3)
				}
				qq := new(big.Int).Div(toBig(c20Val(rng, limbs)), dv)
				base := new(big.Int).Mul(qq, dv)
				for _, rem := range []*big.Int{big.NewInt(0), big.NewInt(1), new(big.Int).Sub(dv, one)} {
					u := new(big.Int).Add(base, rem)
					if !fits(u) {
						continue
					}
					stat("frontier:div")
					op := "quorem"
					if limbs == 4 {
						op = "div"
					}
					emit(fmt.Sprintf("%s %s %s %s", name, op, u64s(fromBig(u, limbs)), u64s(fromBig(dv, limbs))))
					if dv.IsUint64() && limbs == 2 {
						emit(fmt.Sprintf("%s quorem64 %s %d", name, u64s(fromBig(u, limbs)), dv.Uint64()))
					}
				}
			}
		}
	}
}

func toBig(v []uint64) *big.Int {
	r := new(big.Int)
	for _, x := range v {
		r.Lsh(r, 64)
		r.Or(r, new(big.Int).SetUint64(x))
	}
	return r
}

func fromBig(b *big.Int, limbs int) []uint64 {
	v := make([]uint64, limbs)
	t := new(big.Int).Set(b)
	mask := new(big.Int).SetUint64(^uint64(0))
	for i := limbs - 1; i >= 0; i-- {
		v[i] = new(big.Int).And(t, mask).Uint64()
		t.Rsh(t, 64)
	}
	return v
}

func okv(v []uint64) string { return "ok " + u64s(v) }

func (c20) Exec(c string) (string, []Fail) {
	f := strings.Fields(c)
	if len(f) < 2 {
		return "bad-op", nil
	}
	limbs := map[string]int{"u64": 1, "u128": 2, "u256": 4}[f[0]]
	if limbs == 0 {
		return "bad-op", nil
	}
	op := f[1]
	var a []uint64
	for _, s := range f[2:] {
		x, err := strconv.ParseUint(s, 10, 64)
		if err != nil {
			return "bad-op", nil
		}
		a = append(a, x)
	}
	stat("op:" + f[0] + "." + op)
	c20BranchStats(limbs, op, a)
	// main() sets the logrus level to Panic (and the output to io.Discard): warnings reach the hook only at Warn level
	log.SetLevel(log.WarnLevel)
	c20Warns.Store(0)
	res := guardT(2*time.Second, func() string { return c20Run(limbs, op, a) })
	warns := c20Warns.Load()
	log.SetLevel(log.PanicLevel)
	stat("outcome:" + strings.Fields(res)[0])
	fails := c20Oracle(limbs, f[0], op, a, res)
	fails = append(fails, c20WarnOracle(limbs, f[0], op, a, res, warns)...)
	if warns > 0 && res != "bad-op" {
		stat("warn:" + f[0] + "." + op)
		res += fmt.Sprintf(" warn=%d", warns)
	}
	return res, fails
}

// c20WarnOracle: the narrowing casts log one "overflow" warning iff the value does not fit the target width
// (the doc comments of Uint128.Uint64 / Uint256.Uint64 / Uint256.Uint128: "A Warning will be logged if an overflow
// occurs"); evaluated with math/big on the real code, independently of the model.
func c20WarnOracle(limbs int, w, op string, a []uint64, res string, warns int64) []Fail {
	tl := map[string]int{"to64": 1, "to128": 2, "to256": 4}[op]
	if tl == 0 || res == "bad-op" || len(a) != limbs {
		return nil
	}
	fits := toBig(a[:limbs]).BitLen() <= 64*tl
	want := int64(1)
	if fits {
		want = 0
	}
	if warns != want {
		return []Fail{{Sig: w + "." + op + ".warn", Text: fmt.Sprintf("value fits the target width: %v, expected %d overflow warning(s), %d logged", fits, want, warns)}}
	}
	if warns == 1 {
		msg, _ := c20WarnMsg.Load().(string)
		if !strings.Contains(msg, "overflow") {
			return []Fail{{Sig: w + "." + op + ".warn", Text: "the warning logged is not an overflow warning: " + msg}}
		}
	}
	return nil
}

func c20B(b bool) string {
	if b {
		return "b true"
	}
	return "b false"
}

// c20BranchStats records which branch of the anchored code a case reaches (shift amount classes, QuoRem paths)
func c20BranchStats(limbs int, op string, a []uint64) {
	switch op {
	case "shl", "shr", "shl64", "shr64":
		idx := limbs
		if op == "shl64" || op == "shr64" {
			idx = 1
		}
		if len(a) <= idx {
			return
		}
		n, w := a[idx], uint64(64*limbs)
		cl := ""
		switch {
		case n == 0:
			cl = "n=0"
		case n < 64:
			cl = "0<n<64"
		case n%64 == 0 && n < w:
			cl = "whole-limbs<w"
		case n < w:
			cl = "64<n<w"
		case n == w:
			cl = "n=w"
		case n < w+64:
			cl = "w<n<w+64"
		default:
			cl = "n>=w+64"
		}
		stat("branch:" + op + ":" + cl)
	case "quorem", "div", "mod":
		if limbs == 2 && len(a) == 4 {
			switch {
			case a[2] == 0 && a[3] == 0:
				stat("branch:quorem:v=0")
			case a[2] == 0 && a[0] < a[3]:
				stat("branch:quorem:v.w1=0,one-Div64")
			case a[2] == 0:
				stat("branch:quorem:v.w1=0,two-Div64")
			default:
				// trial quotient path; the correction step runs iff the trial quotient is one too small
				u, v := toBig(a[:2]), toBig(a[2:])
				q := new(big.Int).Quo(u, v)
				n := uint(0)
				for x := a[2]; x>>63 == 0; x <<= 1 {
					n++
				}
				v1 := new(big.Int).Rsh(new(big.Int).Lsh(v, n), 64) // high limb of v << n
				tq := new(big.Int).Quo(new(big.Int).Rsh(u, 1), v1)
				tq.Rsh(tq, 63-n)
				if tq.Sign() != 0 {
					tq.Sub(tq, big.NewInt(1))
				}
				if tq.Cmp(q) == 0 {
					stat("branch:quorem:trial-exact")
				} else {
					stat("branch:quorem:trial-corrected")
				}
			}
		}
		if limbs == 4 && len(a) == 8 && op == "div" {
			u, v := toBig(a[:4]), toBig(a[4:])
			switch {
			case v.Sign() == 0:
				stat("branch:div256:v=0")
			case u.Cmp(v) < 0:
				stat("branch:div256:u<v")
			case v.Cmp(big.NewInt(1)) == 0:
				stat("branch:div256:v=1")
			case u.Bit(255) == 1:
				stat("branch:div256:loop,top-bit-set")
			default:
				stat("branch:div256:loop")
			}
		}
	}
}

func c20Run(limbs int, op string, a []uint64) string {
	bad := "bad-op"
	// unint.go: the generic constructors, instantiated at the three widths
	switch {
	case op == "zerouint" && len(a) == 0:
		switch limbs {
		case 1:
			return okv(obifp.ZeroUint[obifp.Uint64]().VerifLimbs())
		case 2:
			return okv(obifp.ZeroUint[obifp.Uint128]().VerifLimbs())
		case 4:
			return okv(obifp.ZeroUint[obifp.Uint256]().VerifLimbs())
		}
	case op == "oneuint" && len(a) == 0:
		switch limbs {
		case 1:
			return okv(obifp.OneUint[obifp.Uint64]().VerifLimbs())
		case 2:
			return okv(obifp.OneUint[obifp.Uint128]().VerifLimbs())
		case 4:
			return okv(obifp.OneUint[obifp.Uint256]().VerifLimbs())
		}
	case op == "from64" && len(a) == 1:
		switch limbs {
		case 1:
			return okv(obifp.From64[obifp.Uint64](a[0]).VerifLimbs())
		case 2:
			return okv(obifp.From64[obifp.Uint128](a[0]).VerifLimbs())
		case 4:
			return okv(obifp.From64[obifp.Uint256](a[0]).VerifLimbs())
		}
	}
	switch limbs {
	case 1:
		if len(a) < 1 {
			return bad
		}
		u := obifp.VerifNew64(a[0])
		var v obifp.Uint64
		if len(a) >= 2 {
			v = obifp.VerifNew64(a[1])
		}
		need := func(n int) bool { return len(a) == n }
		switch {
		case op == "shl" && need(2):
			return okv(u.LeftShift(uint(a[1])).VerifLimbs())
		case op == "shr" && need(2):
			return okv(u.RightShift(uint(a[1])).VerifLimbs())
		case op == "shl64" && need(3):
			x, y := u.LeftShift64(uint(a[1]), a[2])
			return okv([]uint64{x, y})
		case op == "shr64" && need(3):
			x, y := u.RightShift64(uint(a[1]), a[2])
			return okv([]uint64{x, y})
		case op == "add" && need(2):
			return okv(u.Add(v).VerifLimbs())
		case op == "sub" && need(2):
			return okv(u.Sub(v).VerifLimbs())
		case op == "mul" && need(2):
			return okv(u.Mul(v).VerifLimbs())
		case op == "cmp" && need(2):
			return fmt.Sprintf("i %d", u.Cmp(v))
		case op == "and" && need(2):
			return okv(u.And(v).VerifLimbs())
		case op == "or" && need(2):
			return okv(u.Or(v).VerifLimbs())
		case op == "xor" && need(2):
			return okv(u.Xor(v).VerifLimbs())
		case op == "not" && need(1):
			return okv(u.Not().VerifLimbs())
		case op == "to64" && need(1):
			return okv(u.Uint64().VerifLimbs())
		case op == "to128" && need(1):
			return okv(u.Uint128().VerifLimbs())
		case op == "to256" && need(1):
			return okv(u.Uint256().VerifLimbs())
		case op == "add64" && need(3):
			x, y := u.Add64(v, a[2])
			return okv([]uint64{x, y})
		case op == "sub64" && need(3):
			x, y := u.Sub64(v, a[2])
			return okv([]uint64{x, y})
		case op == "mul64" && need(2):
			x, y := u.Mul64(v)
			return okv([]uint64{x, y})
		case op == "zero" && need(1):
			return okv(u.Zero().VerifLimbs())
		case op == "max" && need(1):
			return okv(u.MaxValue().VerifLimbs())
		case op == "iszero" && need(1):
			return c20B(u.IsZero())
		case op == "set64" && need(2):
			return okv(u.Set64(a[1]).VerifLimbs())
		case op == "asu64" && need(1):
			return okv([]uint64{u.AsUint64()})
		case op == "eq" && need(2):
			return c20B(u.Equals(v))
		case op == "lt" && need(2):
			return c20B(u.LessThan(v))
		case op == "gt" && need(2):
			return c20B(u.GreaterThan(v))
		case op == "le" && need(2):
			return c20B(u.LessThanOrEqual(v))
		case op == "ge" && need(2):
			return c20B(u.GreaterThanOrEqual(v))
		}
	case 2:
		if len(a) < 2 {
			return bad
		}
		u := obifp.VerifNew128(a[0], a[1])
		var v obifp.Uint128
		if len(a) == 4 {
			v = obifp.VerifNew128(a[2], a[3])
		}
		need := func(n int) bool { return len(a) == n }
		switch {
		case op == "shl" && need(3):
			return okv(u.LeftShift(uint(a[2])).VerifLimbs())
		case op == "shr" && need(3):
			return okv(u.RightShift(uint(a[2])).VerifLimbs())
		case op == "add" && need(4):
			return okv(u.Add(v).VerifLimbs())
		case op == "add64" && need(3):
			return okv(u.Add64(a[2]).VerifLimbs())
		case op == "sub" && need(4):
			return okv(u.Sub(v).VerifLimbs())
		case op == "mul" && need(4):
			return okv(u.Mul(v).VerifLimbs())
		case op == "mul64" && need(3):
			return okv(u.Mul64(a[2]).VerifLimbs())
		case op == "quorem" && need(4):
			q, r := u.QuoRem(v)
			return okv(append(q.VerifLimbs(), r.VerifLimbs()...))
		case op == "quorem64" && need(3):
			q, r := u.QuoRem64(a[2])
			return okv(append(q.VerifLimbs(), r))
		case op == "cmp" && need(4):
			return fmt.Sprintf("i %d", u.Cmp(v))
		case op == "cmp64" && need(3):
			return fmt.Sprintf("i %d", u.Cmp64(a[2]))
		case op == "and" && need(4):
			return okv(u.And(v).VerifLimbs())
		case op == "or" && need(4):
			return okv(u.Or(v).VerifLimbs())
		case op == "xor" && need(4):
			return okv(u.Xor(v).VerifLimbs())
		case op == "not" && need(2):
			return okv(u.Not().VerifLimbs())
		case op == "to64" && need(2):
			return okv(u.Uint64().VerifLimbs())
		case op == "to128" && need(2):
			return okv(u.Uint128().VerifLimbs())
		case op == "to256" && need(2):
			return okv(u.Uint256().VerifLimbs())
		case op == "div" && need(4):
			return okv(u.Div(v).VerifLimbs())
		case op == "mod" && need(4):
			return okv(u.Mod(v).VerifLimbs())
		case op == "div64" && need(3):
			return okv(u.Div64(a[2]).VerifLimbs())
		case op == "mod64" && need(3):
			return okv([]uint64{u.Mod64(a[2])})
		case op == "zero" && need(2):
			return okv(u.Zero().VerifLimbs())
		case op == "max" && need(2):
			return okv(u.MaxValue().VerifLimbs())
		case op == "iszero" && need(2):
			return c20B(u.IsZero())
		case op == "set64" && need(3):
			return okv(u.Set64(a[2]).VerifLimbs())
		case op == "asu64" && need(2):
			return okv([]uint64{u.AsUint64()})
		case op == "eq" && need(4):
			return c20B(u.Equals(v))
		case op == "lt" && need(4):
			return c20B(u.LessThan(v))
		case op == "gt" && need(4):
			return c20B(u.GreaterThan(v))
		case op == "le" && need(4):
			return c20B(u.LessThanOrEqual(v))
		case op == "ge" && need(4):
			return c20B(u.GreaterThanOrEqual(v))
		}
	case 4:
		if len(a) < 4 {
			return bad
		}
		u := obifp.VerifNew256(a[0], a[1], a[2], a[3])
		var v obifp.Uint256
		if len(a) == 8 {
			v = obifp.VerifNew256(a[4], a[5], a[6], a[7])
		}
		need := func(n int) bool { return len(a) == n }
		switch {
		case op == "shl" && need(5):
			return okv(u.LeftShift(uint(a[4])).VerifLimbs())
		case op == "shr" && need(5):
			return okv(u.RightShift(uint(a[4])).VerifLimbs())
		case op == "add" && need(8):
			return okv(u.Add(v).VerifLimbs())
		case op == "sub" && need(8):
			return okv(u.Sub(v).VerifLimbs())
		case op == "mul" && need(8):
			return okv(u.Mul(v).VerifLimbs())
		case op == "div" && need(8):
			return okv(u.Div(v).VerifLimbs())
		case op == "cmp" && need(8):
			return fmt.Sprintf("i %d", u.Cmp(v))
		case op == "and" && need(8):
			return okv(u.And(v).VerifLimbs())
		case op == "or" && need(8):
			return okv(u.Or(v).VerifLimbs())
		case op == "xor" && need(8):
			return okv(u.Xor(v).VerifLimbs())
		case op == "not" && need(4):
			return okv(u.Not().VerifLimbs())
		case op == "to64" && need(4):
			return okv(u.Uint64().VerifLimbs())
		case op == "to128" && need(4):
			return okv(u.Uint128().VerifLimbs())
		case op == "to256" && need(4):
			return okv(u.Uint256().VerifLimbs())
		case op == "zero" && need(4):
			return okv(u.Zero().VerifLimbs())
		case op == "max" && need(4):
			return okv(u.MaxValue().VerifLimbs())
		case op == "iszero" && need(4):
			return c20B(u.IsZero())
		case op == "set64" && need(5):
			return okv(u.Set64(a[4]).VerifLimbs())
		case op == "asu64" && need(4):
			return okv([]uint64{u.AsUint64()})
		case op == "eq" && need(8):
			return c20B(u.Equals(v))
		case op == "lt" && need(8):
			return c20B(u.LessThan(v))
		case op == "gt" && need(8):
			return c20B(u.GreaterThan(v))
		case op == "le" && need(8):
			return c20B(u.LessThanOrEqual(v))
		case op == "ge" && need(8):
			return c20B(u.GreaterThanOrEqual(v))
		}
	}
	return bad
}

// c20Oracle evaluates the property statement with math/big on the real result.
func c20Oracle(limbs int, w, op string, a []uint64, res string) []Fail {
	if res == "bad-op" {
		return nil
	}
	mod := new(big.Int).Lsh(big.NewInt(1), uint(64*limbs))
	fail := func(class, format string, args ...any) []Fail {
		sig := w + "." + op
		if class != "" {
			sig += "." + class
		}
		return []Fail{{Sig: sig, Text: fmt.Sprintf(format, args...)}}
	}
	expectVal := func(class string, want *big.Int) []Fail {
		if want.Sign() < 0 || want.Cmp(mod) >= 0 {
			if res != "panic" {
				return fail(class+"nofit", "result does not fit: overflow/underflow must be signalled, got %s", res)
			}
			return nil
		}
		exp := okv(fromBig(want, limbs))
		if res != exp {
			return fail(class+"fit", "expected %s got %s", exp, res)
		}
		return nil
	}
	switch op {
	case "shl", "shr":
		x := toBig(a[:limbs])
		n := uint(a[limbs])
		var want *big.Int
		switch {
		case a[limbs] >= uint64(64*limbs): // every bit is moved out (amounts up to 2^64-1: do not build x<<n)
			want = new(big.Int)
		case op == "shl":
			want = new(big.Int).Lsh(x, n)
			want.Mod(want, mod)
		default:
			want = new(big.Int).Rsh(x, n)
		}
		class := "n<=64"
		if n > 64 {
			class = "n>64"
		}
		exp := okv(fromBig(want, limbs))
		if res != exp {
			return fail(class, "expected %s got %s", exp, res)
		}
	case "add", "sub", "mul":
		x, y := toBig(a[:limbs]), toBig(a[limbs:])
		var want *big.Int
		switch op {
		case "add":
			want = new(big.Int).Add(x, y)
		case "sub":
			want = new(big.Int).Sub(x, y)
		default:
			want = new(big.Int).Mul(x, y)
			if limbs == 2 && a[0] != 0 && a[2] != 0 {
				return expectVal("hh-", want) // both high limbs non-zero
			}
		}
		return expectVal("", want)
	case "add64", "sub64", "mul64":
		if limbs == 1 { // carry forms of Uint64: (value, carry)
			var v, cy uint64
			if n, _ := fmt.Sscanf(res, "ok %d %d", &v, &cy); n != 2 {
				return fail("", "expected a (value, carry) pair, got %s", res)
			}
			x, y := new(big.Int).SetUint64(a[0]), new(big.Int).SetUint64(a[1])
			got := new(big.Int).SetUint64(v)
			hi := new(big.Int).Lsh(new(big.Int).SetUint64(cy), 64)
			var want *big.Int
			switch op {
			case "add64": // value + carry*2^64 = x + y + carryIn
				want = new(big.Int).Add(new(big.Int).Add(x, y), new(big.Int).SetUint64(a[2]))
				got.Add(got, hi)
			case "sub64": // value - borrow*2^64 = x - y - borrowIn
				want = new(big.Int).Sub(new(big.Int).Sub(x, y), new(big.Int).SetUint64(a[2]))
				got.Sub(got, hi)
				if cy > 1 {
					return fail("", "borrow out %d is not 0 or 1", cy)
				}
			default: // value + carry*2^64 = x * y
				want = new(big.Int).Mul(x, y)
				got.Add(got, hi)
			}
			if got.Cmp(want) != 0 {
				return fail("", "(value, carry) = %s encodes %s, exact result %s", res, got, want)
			}
			return nil
		}
		x, y := toBig(a[:limbs]), new(big.Int).SetUint64(a[limbs])
		if op == "add64" {
			return expectVal("", new(big.Int).Add(x, y))
		}
		return expectVal("", new(big.Int).Mul(x, y))
	case "shl64", "shr64":
		// the pair is one 128-bit register: LeftShift64 -> carry:value, RightShift64 -> value:carry.
		// Stated for n < 128 (beyond that the Go code logs an overflow warning and returns 0, 0).
		w, n, cin := new(big.Int).SetUint64(a[0]), a[1], new(big.Int).SetUint64(a[2])
		if n >= 128 {
			return nil
		}
		var v, cy uint64
		if k, _ := fmt.Sscanf(res, "ok %d %d", &v, &cy); k != 2 {
			return fail("", "expected a (value, carry) pair, got %s", res)
		}
		m128 := new(big.Int).Lsh(big.NewInt(1), 128)
		var got, want *big.Int
		class := "n<64"
		if n >= 64 {
			class = "n>=64"
		}
		if op == "shl64" {
			// carry*2^64 + value = (w*2^n + carryIn mod 2^n) mod 2^128
			got = new(big.Int).Add(new(big.Int).Lsh(new(big.Int).SetUint64(cy), 64), new(big.Int).SetUint64(v))
			low := new(big.Int).Mod(cin, new(big.Int).Lsh(big.NewInt(1), uint(n)))
			want = new(big.Int).Add(new(big.Int).Lsh(w, uint(n)), low)
			want.Mod(want, m128)
		} else {
			// value*2^64 + carry = (w*2^64) >> n  +  (the high n bits of carryIn, in place)*2^64
			got = new(big.Int).Add(new(big.Int).Lsh(new(big.Int).SetUint64(v), 64), new(big.Int).SetUint64(cy))
			k := uint(0)
			if n < 64 {
				k = uint(64 - n)
			}
			top := new(big.Int).Lsh(new(big.Int).Rsh(cin, k), k)
			want = new(big.Int).Add(new(big.Int).Rsh(new(big.Int).Lsh(w, 64), uint(n)), new(big.Int).Lsh(top, 64))
		}
		if got.Cmp(want) != 0 {
			return fail(class, "(value, carry) = %s encodes %s, exact result %s", res, got, want)
		}
	case "mod":
		x, y := toBig(a[:limbs]), toBig(a[limbs:])
		if y.Sign() == 0 {
			return nil
		}
		if exp := okv(fromBig(new(big.Int).Rem(x, y), limbs)); res != exp {
			return fail("", "expected %s got %s", exp, res)
		}
	case "div64", "mod64":
		x, y := toBig(a[:limbs]), new(big.Int).SetUint64(a[limbs])
		if y.Sign() == 0 {
			return nil
		}
		q, r := new(big.Int).QuoRem(x, y, new(big.Int))
		exp := okv(fromBig(q, limbs))
		if op == "mod64" {
			exp = okv([]uint64{r.Uint64()})
		}
		if res != exp {
			return fail("", "expected %s got %s", exp, res)
		}
	case "zero", "max", "zerouint", "oneuint", "from64", "set64":
		var want *big.Int
		switch op {
		case "zero", "zerouint":
			want = big.NewInt(0)
		case "oneuint":
			want = big.NewInt(1)
		case "max":
			want = new(big.Int).Sub(mod, big.NewInt(1))
		default:
			want = new(big.Int).SetUint64(a[len(a)-1])
		}
		if exp := okv(fromBig(want, limbs)); res != exp {
			return fail("", "expected %s got %s", exp, res)
		}
	case "iszero":
		if exp := c20B(toBig(a[:limbs]).Sign() == 0); res != exp {
			return fail("", "expected %s got %s", exp, res)
		}
	case "eq", "lt", "gt", "le", "ge":
		k := toBig(a[:limbs]).Cmp(toBig(a[limbs:]))
		want := map[string]bool{"eq": k == 0, "lt": k < 0, "gt": k > 0, "le": k <= 0, "ge": k >= 0}[op]
		if exp := c20B(want); res != exp {
			return fail("", "expected %s got %s", exp, res)
		}
	case "asu64":
		x := toBig(a[:limbs])
		if x.BitLen() <= 64 { // value fits: must be preserved
			if exp := okv(fromBig(x, 1)); res != exp {
				return fail("", "expected %s got %s", exp, res)
			}
		}
	case "div":
		x, y := toBig(a[:limbs]), toBig(a[limbs:])
		if y.Sign() == 0 {
			return nil
		}
		class := "top-bit-clear"
		if x.Bit(limbs*64-1) == 1 {
			class = "top-bit-set"
		}
		exp := okv(fromBig(new(big.Int).Quo(x, y), limbs))
		if res != exp {
			return fail(class, "expected %s got %s", exp, res)
		}
	case "quorem":
		x, y := toBig(a[:limbs]), toBig(a[limbs:])
		if y.Sign() == 0 {
			return nil
		}
		q, r := new(big.Int).QuoRem(x, y, new(big.Int))
		exp := okv(append(fromBig(q, limbs), fromBig(r, limbs)...))
		if res != exp {
			return fail("", "expected %s got %s", exp, res)
		}
	case "quorem64":
		x, y := toBig(a[:limbs]), new(big.Int).SetUint64(a[limbs])
		if y.Sign() == 0 {
			return nil
		}
		q, r := new(big.Int).QuoRem(x, y, new(big.Int))
		exp := okv(append(fromBig(q, limbs), r.Uint64()))
		if res != exp {
			return fail("", "expected %s got %s", exp, res)
		}
	case "cmp", "cmp64":
		x := toBig(a[:limbs])
		var y *big.Int
		if op == "cmp" {
			y = toBig(a[limbs:])
		} else {
			y = new(big.Int).SetUint64(a[limbs])
		}
		exp := fmt.Sprintf("i %d", x.Cmp(y))
		if res != exp {
			return fail("", "expected %s got %s", exp, res)
		}
	case "and", "or", "xor":
		x, y := toBig(a[:limbs]), toBig(a[limbs:])
		var want *big.Int
		switch op {
		case "and":
			want = new(big.Int).And(x, y)
		case "or":
			want = new(big.Int).Or(x, y)
		default:
			want = new(big.Int).Xor(x, y)
		}
		if exp := okv(fromBig(want, limbs)); res != exp {
			return fail("", "expected %s got %s", exp, res)
		}
	case "not":
		x := toBig(a[:limbs])
		want := new(big.Int).Sub(new(big.Int).Sub(mod, big.NewInt(1)), x)
		if exp := okv(fromBig(want, limbs)); res != exp {
			return fail("", "expected %s got %s", exp, res)
		}
	case "to64", "to128", "to256":
		tl := map[string]int{"to64": 1, "to128": 2, "to256": 4}[op]
		x := toBig(a[:limbs])
		if x.BitLen() <= 64*tl { // value fits the target width: must be preserved
			if exp := okv(fromBig(x, tl)); res != exp {
				return fail("", "expected %s got %s", exp, res)
			}
		}
	}
	return nil
}
