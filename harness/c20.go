//go:build c20

package main

import (
	"fmt"
	"math/big"
	"math/rand"
	"strconv"
	"strings"
	"time"

	"git.metabarcoding.org/obitools/obitools4/obitools4/pkg/obifp"
)

type c20 struct{}

func init() { props["C20"] = c20{} }

var c20Boundary []uint64

func init() {
	set := map[uint64]bool{}
	add := func(v uint64) { set[v] = true }
	for _, k := range []uint{0, 1, 2, 7, 8, 31, 32, 33, 62, 63} {
		add(uint64(1) << k)
		add(uint64(1)<<k - 1)
		add(uint64(1)<<k + 1)
	}
	add(0)
	add(^uint64(0))
	add(^uint64(0) - 1)
	add(0xaaaaaaaaaaaaaaaa)
	add(0x5555555555555555)
	add(0x8000000000000001)
	for v := range set {
		c20Boundary = append(c20Boundary, v)
	}
	// deterministic order
	for i := 0; i < len(c20Boundary); i++ {
		for j := i + 1; j < len(c20Boundary); j++ {
			if c20Boundary[j] < c20Boundary[i] {
				c20Boundary[i], c20Boundary[j] = c20Boundary[j], c20Boundary[i]
			}
		}
	}
}

func c20Limb(rng *rand.Rand) uint64 {
	switch rng.Intn(10) {
	case 0, 1, 2:
		return 0
	case 3, 4, 5, 6:
		return c20Boundary[rng.Intn(len(c20Boundary))]
	case 7:
		return uint64(rng.Intn(16))
	default:
		return rng.Uint64()
	}
}

func c20Val(rng *rand.Rand, limbs int) []uint64 {
	v := make([]uint64, limbs)
	// choose how many high limbs are zero so that products/sums near the top are frequent
	z := rng.Intn(limbs + 1)
	for i := range v {
		if i < z && rng.Intn(4) != 0 {
			v[i] = 0
		} else {
			v[i] = c20Limb(rng)
		}
	}
	return v
}

func u64s(v []uint64) string {
	s := make([]string, len(v))
	for i, x := range v {
		s[i] = strconv.FormatUint(x, 10)
	}
	return strings.Join(s, " ")
}

var c20Ops = map[int][]string{
	1: {"shl", "shr", "shl64", "shr64", "add", "sub", "mul", "cmp", "and", "or", "xor", "not", "to128", "to256"},
	2: {"shl", "shr", "add", "add64", "sub", "mul", "mul64", "quorem", "quorem64", "cmp", "cmp64", "and", "or", "xor", "not", "to64", "to256"},
	4: {"shl", "shr", "add", "sub", "mul", "div", "cmp", "and", "or", "xor", "not", "to64", "to128"},
}

func c20Name(limbs int) string { return map[int]string{1: "u64", 2: "u128", 4: "u256"}[limbs] }

func (c20) Gen(rng *rand.Rand, tier string, emit func(string)) {
	n := 12000
	if tier == "thorough" {
		n = 400000
	}
	// fixed corpus first: the word-boundary shifts for every width (all amounts 0..width+64 on three values)
	for _, limbs := range []int{1, 2, 4} {
		for _, base := range [][]uint64{{1}, {^uint64(0)}, {0x8000000000000001}} {
			v := make([]uint64, limbs)
			for i := range v {
				v[i] = base[0]
			}
			for sh := 0; sh <= limbs*64+64; sh++ {
				emit(fmt.Sprintf("%s shl %s %d", c20Name(limbs), u64s(v), sh))
				emit(fmt.Sprintf("%s shr %s %d", c20Name(limbs), u64s(v), sh))
			}
		}
	}
	for i := 0; i < n; i++ {
		limbs := []int{1, 2, 4}[rng.Intn(3)]
		ops := c20Ops[limbs]
		op := ops[rng.Intn(len(ops))]
		a := c20Val(rng, limbs)
		var c string
		switch op {
		case "shl", "shr":
			c = fmt.Sprintf("%s %s %s %d", c20Name(limbs), op, u64s(a), rng.Intn(limbs*64+65))
		case "shl64", "shr64":
			c = fmt.Sprintf("%s %s %s %d %d", c20Name(limbs), op, u64s(a), rng.Intn(140), c20Limb(rng))
		case "not", "to64", "to128", "to256":
			c = fmt.Sprintf("%s %s %s", c20Name(limbs), op, u64s(a))
		case "add64", "mul64", "quorem64", "cmp64":
			c = fmt.Sprintf("%s %s %s %d", c20Name(limbs), op, u64s(a), c20Limb(rng))
		default:
			b := c20Val(rng, limbs)
			if rng.Intn(6) == 0 { // near-equal operands: cmp/sub/div edge cases
				copy(b, a)
				if rng.Intn(2) == 0 {
					b[limbs-1] ^= uint64(rng.Intn(3))
				}
			}
			c = fmt.Sprintf("%s %s %s %s", c20Name(limbs), op, u64s(a), u64s(b))
		}
		emit(c)
	}
}

func toBig(v []uint64) *big.Int {
	r := new(big.Int)
	for _, x := range v {
		r.Lsh(r, 64)
		r.Or(r, new(big.Int).SetUint64(x))
	}
	return r
}

func fromBig(b *big.Int, limbs int) []uint64 {
	v := make([]uint64, limbs)
	t := new(big.Int).Set(b)
	mask := new(big.Int).SetUint64(^uint64(0))
	for i := limbs - 1; i >= 0; i-- {
		v[i] = new(big.Int).And(t, mask).Uint64()
		t.Rsh(t, 64)
	}
	return v
}

func okv(v []uint64) string { return "ok " + u64s(v) }

func (c20) Exec(c string) (string, []Fail) {
	f := strings.Fields(c)
	if len(f) < 3 {
		return "bad-op", nil
	}
	limbs := map[string]int{"u64": 1, "u128": 2, "u256": 4}[f[0]]
	if limbs == 0 {
		return "bad-op", nil
	}
	op := f[1]
	var a []uint64
	for _, s := range f[2:] {
		x, err := strconv.ParseUint(s, 10, 64)
		if err != nil {
			return "bad-op", nil
		}
		a = append(a, x)
	}
	stat("op:" + f[0] + "." + op)
	res := guardT(2*time.Second, func() string { return c20Run(limbs, op, a) })
	stat("outcome:" + strings.Fields(res)[0])
	return res, c20Oracle(limbs, f[0], op, a, res)
}

func c20Run(limbs int, op string, a []uint64) string {
	bad := "bad-op"
	switch limbs {
	case 1:
		if len(a) < 1 {
			return bad
		}
		u := obifp.VerifNew64(a[0])
		var v obifp.Uint64
		if len(a) >= 2 {
			v = obifp.VerifNew64(a[1])
		}
		need := func(n int) bool { return len(a) == n }
		switch {
		case op == "shl" && need(2):
			return okv(u.LeftShift(uint(a[1])).VerifLimbs())
		case op == "shr" && need(2):
			return okv(u.RightShift(uint(a[1])).VerifLimbs())
		case op == "shl64" && need(3):
			x, y := u.LeftShift64(uint(a[1]), a[2])
			return okv([]uint64{x, y})
		case op == "shr64" && need(3):
			x, y := u.RightShift64(uint(a[1]), a[2])
			return okv([]uint64{x, y})
		case op == "add" && need(2):
			return okv(u.Add(v).VerifLimbs())
		case op == "sub" && need(2):
			return okv(u.Sub(v).VerifLimbs())
		case op == "mul" && need(2):
			return okv(u.Mul(v).VerifLimbs())
		case op == "cmp" && need(2):
			return fmt.Sprintf("i %d", u.Cmp(v))
		case op == "and" && need(2):
			return okv(u.And(v).VerifLimbs())
		case op == "or" && need(2):
			return okv(u.Or(v).VerifLimbs())
		case op == "xor" && need(2):
			return okv(u.Xor(v).VerifLimbs())
		case op == "not" && need(1):
			return okv(u.Not().VerifLimbs())
		case op == "to128" && need(1):
			return okv(u.Uint128().VerifLimbs())
		case op == "to256" && need(1):
			return okv(u.Uint256().VerifLimbs())
		}
	case 2:
		if len(a) < 2 {
			return bad
		}
		u := obifp.VerifNew128(a[0], a[1])
		var v obifp.Uint128
		if len(a) == 4 {
			v = obifp.VerifNew128(a[2], a[3])
		}
		need := func(n int) bool { return len(a) == n }
		switch {
		case op == "shl" && need(3):
			return okv(u.LeftShift(uint(a[2])).VerifLimbs())
		case op == "shr" && need(3):
			return okv(u.RightShift(uint(a[2])).VerifLimbs())
		case op == "add" && need(4):
			return okv(u.Add(v).VerifLimbs())
		case op == "add64" && need(3):
			return okv(u.Add64(a[2]).VerifLimbs())
		case op == "sub" && need(4):
			return okv(u.Sub(v).VerifLimbs())
		case op == "mul" && need(4):
			return okv(u.Mul(v).VerifLimbs())
		case op == "mul64" && need(3):
			return okv(u.Mul64(a[2]).VerifLimbs())
		case op == "quorem" && need(4):
			q, r := u.QuoRem(v)
			return okv(append(q.VerifLimbs(), r.VerifLimbs()...))
		case op == "quorem64" && need(3):
			q, r := u.QuoRem64(a[2])
			return okv(append(q.VerifLimbs(), r))
		case op == "cmp" && need(4):
			return fmt.Sprintf("i %d", u.Cmp(v))
		case op == "cmp64" && need(3):
			return fmt.Sprintf("i %d", u.Cmp64(a[2]))
		case op == "and" && need(4):
			return okv(u.And(v).VerifLimbs())
		case op == "or" && need(4):
			return okv(u.Or(v).VerifLimbs())
		case op == "xor" && need(4):
			return okv(u.Xor(v).VerifLimbs())
		case op == "not" && need(2):
			return okv(u.Not().VerifLimbs())
		case op == "to64" && need(2):
			return okv(u.Uint64().VerifLimbs())
		case op == "to256" && need(2):
			return okv(u.Uint256().VerifLimbs())
		}
	case 4:
		if len(a) < 4 {
			return bad
		}
		u := obifp.VerifNew256(a[0], a[1], a[2], a[3])
		var v obifp.Uint256
		if len(a) == 8 {
			v = obifp.VerifNew256(a[4], a[5], a[6], a[7])
		}
		need := func(n int) bool { return len(a) == n }
		switch {
		case op == "shl" && need(5):
			return okv(u.LeftShift(uint(a[4])).VerifLimbs())
		case op == "shr" && need(5):
			return okv(u.RightShift(uint(a[4])).VerifLimbs())
		case op == "add" && need(8):
			return okv(u.Add(v).VerifLimbs())
		case op == "sub" && need(8):
			return okv(u.Sub(v).VerifLimbs())
		case op == "mul" && need(8):
			return okv(u.Mul(v).VerifLimbs())
		case op == "div" && need(8):
			return okv(u.Div(v).VerifLimbs())
		case op == "cmp" && need(8):
			return fmt.Sprintf("i %d", u.Cmp(v))
		case op == "and" && need(8):
			return okv(u.And(v).VerifLimbs())
		case op == "or" && need(8):
			return okv(u.Or(v).VerifLimbs())
		case op == "xor" && need(8):
			return okv(u.Xor(v).VerifLimbs())
		case op == "not" && need(4):
			return okv(u.Not().VerifLimbs())
		case op == "to64" && need(4):
			return okv(u.Uint64().VerifLimbs())
		case op == "to128" && need(4):
			return okv(u.Uint128().VerifLimbs())
		}
	}
	return bad
}

// c20Oracle evaluates the property statement with math/big on the real result.
func c20Oracle(limbs int, w, op string, a []uint64, res string) []Fail {
	if res == "bad-op" {
		return nil
	}
	mod := new(big.Int).Lsh(big.NewInt(1), uint(64*limbs))
	fail := func(class, format string, args ...any) []Fail {
		sig := w + "." + op
		if class != "" {
			sig += "." + class
		}
		return []Fail{{Sig: sig, Text: fmt.Sprintf(format, args...)}}
	}
	expectVal := func(class string, want *big.Int) []Fail {
		if want.Sign() < 0 || want.Cmp(mod) >= 0 {
			if res != "panic" {
				return fail(class+"nofit", "result does not fit: overflow/underflow must be signalled, got %s", res)
			}
			return nil
		}
		exp := okv(fromBig(want, limbs))
		if res != exp {
			return fail(class+"fit", "expected %s got %s", exp, res)
		}
		return nil
	}
	switch op {
	case "shl", "shr":
		x := toBig(a[:limbs])
		n := uint(a[limbs])
		var want *big.Int
		if op == "shl" {
			want = new(big.Int).Lsh(x, n)
			want.Mod(want, mod)
		} else {
			want = new(big.Int).Rsh(x, n)
		}
		class := "n<=64"
		if n > 64 {
			class = "n>64"
		}
		exp := okv(fromBig(want, limbs))
		if res != exp {
			return fail(class, "expected %s got %s", exp, res)
		}
	case "add", "sub", "mul":
		x, y := toBig(a[:limbs]), toBig(a[limbs:])
		var want *big.Int
		switch op {
		case "add":
			want = new(big.Int).Add(x, y)
		case "sub":
			want = new(big.Int).Sub(x, y)
		default:
			want = new(big.Int).Mul(x, y)
			if limbs == 2 && a[0] != 0 && a[2] != 0 {
				return expectVal("hh-", want) // both high limbs non-zero
			}
		}
		return expectVal("", want)
	case "add64", "mul64":
		x, y := toBig(a[:limbs]), new(big.Int).SetUint64(a[limbs])
		if op == "add64" {
			return expectVal("", new(big.Int).Add(x, y))
		}
		return expectVal("", new(big.Int).Mul(x, y))
	case "div":
		x, y := toBig(a[:limbs]), toBig(a[limbs:])
		if y.Sign() == 0 {
			return nil
		}
		class := "top-bit-clear"
		if x.Bit(limbs*64-1) == 1 {
			class = "top-bit-set"
		}
		exp := okv(fromBig(new(big.Int).Quo(x, y), limbs))
		if res != exp {
			return fail(class, "expected %s got %s", exp, res)
		}
	case "quorem":
		x, y := toBig(a[:limbs]), toBig(a[limbs:])
		if y.Sign() == 0 {
			return nil
		}
		q, r := new(big.Int).QuoRem(x, y, new(big.Int))
		exp := okv(append(fromBig(q, limbs), fromBig(r, limbs)...))
		if res != exp {
			return fail("", "expected %s got %s", exp, res)
		}
	case "quorem64":
		x, y := toBig(a[:limbs]), new(big.Int).SetUint64(a[limbs])
		if y.Sign() == 0 {
			return nil
		}
		q, r := new(big.Int).QuoRem(x, y, new(big.Int))
		exp := okv(append(fromBig(q, limbs), r.Uint64()))
		if res != exp {
			return fail("", "expected %s got %s", exp, res)
		}
	case "cmp", "cmp64":
		x := toBig(a[:limbs])
		var y *big.Int
		if op == "cmp" {
			y = toBig(a[limbs:])
		} else {
			y = new(big.Int).SetUint64(a[limbs])
		}
		exp := fmt.Sprintf("i %d", x.Cmp(y))
		if res != exp {
			return fail("", "expected %s got %s", exp, res)
		}
	case "and", "or", "xor":
		x, y := toBig(a[:limbs]), toBig(a[limbs:])
		var want *big.Int
		switch op {
		case "and":
			want = new(big.Int).And(x, y)
		case "or":
			want = new(big.Int).Or(x, y)
		default:
			want = new(big.Int).Xor(x, y)
		}
		if exp := okv(fromBig(want, limbs)); res != exp {
			return fail("", "expected %s got %s", exp, res)
		}
	case "not":
		x := toBig(a[:limbs])
		want := new(big.Int).Sub(new(big.Int).Sub(mod, big.NewInt(1)), x)
		if exp := okv(fromBig(want, limbs)); res != exp {
			return fail("", "expected %s got %s", exp, res)
		}
	case "to64", "to128", "to256":
		tl := map[string]int{"to64": 1, "to128": 2, "to256": 4}[op]
		x := toBig(a[:limbs])
		if x.BitLen() <= 64*tl { // value fits the target width: must be preserved
			if exp := okv(fromBig(x, tl)); res != exp {
				return fail("", "expected %s got %s", exp, res)
			}
		}
	}
	return nil
}
