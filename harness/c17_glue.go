//go:build c17

package main

// Fifth pass of C17: the glue between the commands and the readers.  `glue` cases run the real obiconvert as a
// subprocess on SEVERAL inputs (files given as arguments, a directory, a mix, --no-order, a forced format,
// --paired-with), one of them possibly cut / damaged (at open time: within the first decompressed MiB; in mid-stream:
// beyond it), missing, a dangling link or empty.
//
//	glue m=<guess|fasta|fastq> r=<1|n> l=<args|dir|mix|paired> <input> <input> ...
//	<input> = <codec>:<format>:<nrec>:<damage>   codec plain|gz|bz2|xz|zst, format fasta|fastq, damage of c17ApplyDamage
//	        | empty | missing | dangling
//
// Exec appends to every file input the verdict of the decompression LIBRARY on its bytes (`:n=<bytes>:e=<class>:len=<bytes
// of the intact text>`), which is data for the model (Model/ReadGlue.lean), as in the `file` cases.
// Result: `exit0 <records written>[ inorder]` | `exit-nonzero` | `hang` | `lib-clean` (the library hides the damage: no opinion).
// Oracle (independent of the model): exit 0 only when no input is faulted, and then with ALL records of ALL inputs.

import (
	"bytes"
	"fmt"
	"io"
	"math/rand"
	"os"
	"os/exec"
	"path/filepath"
	"sort"
	"strconv"
	"strings"
	"sync"
	"time"
)

type c17GlueIn struct {
	tok                   string
	kind                  string // file | empty | missing | dangling
	codec, format, damage string
	nrec                  int
}

func c17GlueParseIn(tok string) (in c17GlueIn, ok bool) {
	in.tok = tok
	switch tok {
	case "empty", "missing", "dangling":
		in.kind = tok
		return in, true
	}
	p := strings.Split(tok, ":")
	if len(p) != 4 && len(p) != 7 {
		return in, false
	}
	n, err := strconv.Atoi(p[2])
	if err != nil || n < 1 || n > 200000 {
		return in, false
	}
	switch p[0] {
	case "plain", "gz", "bz2", "xz", "zst":
	default:
		return in, false
	}
	if p[1] != "fasta" && p[1] != "fastq" {
		return in, false
	}
	in.kind, in.codec, in.format, in.nrec, in.damage = "file", p[0], p[1], n, p[3]
	in.tok = strings.Join(p[:4], ":")
	return in, true
}

// c17GlueData: the text of input number idx: identifiers g<idx>_<i>, distinct across the inputs of a case
func c17GlueData(idx int, format string, nrec int) []byte {
	var b bytes.Buffer
	x := uint32(idx*7919 + nrec + 1)
	seq := make([]byte, 60)
	for i := 0; i < nrec; i++ {
		for j := range seq {
			x = x*1664525 + 1013904223
			seq[j] = "acgt"[x>>30]
		}
		if format == "fastq" {
			fmt.Fprintf(&b, "@g%d_%d\n%s\n+\n%s\n", idx, i, seq, strings.Repeat("I", len(seq)))
		} else {
			fmt.Fprintf(&b, ">g%d_%d\n%s\n", idx, i, seq)
		}
	}
	return b.Bytes()
}

var (
	c17GlueZMu sync.Mutex
	c17GlueZ   = map[string][]byte{}
)

// c17GlueFile: the intact (compressed) file of an input
func c17GlueFile(idx int, in c17GlueIn) (z, full []byte) {
	full = c17GlueData(idx, in.format, in.nrec)
	if in.codec == "plain" {
		return full, full
	}
	key := fmt.Sprintf("%d/%s/%s/%d", idx, in.codec, in.format, in.nrec)
	c17GlueZMu.Lock()
	z, ok := c17GlueZ[key]
	c17GlueZMu.Unlock()
	if !ok {
		z = c17Compress(in.codec, full)
		c17GlueZMu.Lock()
		c17GlueZ[key] = z
		c17GlueZMu.Unlock()
	}
	return z, full
}

type c17GlueRes struct {
	line  string // the case line with the library verdicts
	res   string
	fails []Fail
	stats []string
}

var (
	c17GlueMu      sync.Mutex
	c17GluePending = map[string]chan c17GlueRes{}
)

// c17BgStart runs a subprocess case in the background (at most 3 at a time): these cases use no state of the harness
// and overlap with the in-process cases, which have to run one at a time
var c17BgSem = make(chan struct{}, 3)

func c17BgStart(line string, run func() c17GlueRes) {
	c17GlueMu.Lock()
	if _, dup := c17GluePending[line]; dup {
		c17GlueMu.Unlock()
		return
	}
	ch := make(chan c17GlueRes, 1)
	c17GluePending[line] = ch
	c17GlueMu.Unlock()
	go func() {
		c17BgSem <- struct{}{}
		r := run()
		<-c17BgSem
		ch <- r
	}()
}

// c17BgTake: the result of a case started in the background, if it was
func c17BgTake(line string) (c17GlueRes, bool) {
	c17GlueMu.Lock()
	ch, ok := c17GluePending[line]
	delete(c17GluePending, line)
	c17GlueMu.Unlock()
	if !ok {
		return c17GlueRes{}, false
	}
	return <-ch, true
}

func c17GluePrefetch(lines []string) {
	for _, l := range lines {
		l := l
		c17BgStart(l, func() c17GlueRes { return c17GlueRun(strings.Fields(l)) })
	}
}

func c17Glue(f []string) (string, []Fail) {
	r, ok := c17BgTake(strings.Join(f, " "))
	if !ok {
		r = c17GlueRun(f)
	}
	for _, s := range r.stats {
		stat(s)
	}
	if r.line != "" {
		caseOverride = r.line
	}
	return r.res, r.fails
}

func c17GlueRun(f []string) (out c17GlueRes) {
	out.res = "bad-op"
	if len(f) < 5 || f[0] != "glue" {
		return
	}
	mode, nr, layout := strings.TrimPrefix(f[1], "m="), strings.TrimPrefix(f[2], "r="), strings.TrimPrefix(f[3], "l=")
	if (mode != "guess" && mode != "fasta" && mode != "fastq") || (nr != "1" && nr != "n") ||
		(layout != "args" && layout != "dir" && layout != "mix" && layout != "paired") {
		return
	}
	var ins []c17GlueIn
	for _, t := range f[4:] {
		in, ok := c17GlueParseIn(t)
		if !ok {
			return
		}
		ins = append(ins, in)
	}
	if layout == "paired" && (len(ins) != 2 || nr != "1") {
		return
	}
	bin, err := repoCommandC17("obiconvert")
	if err != nil {
		out.fails = []Fail{{Sig: "cmd.build", Text: err.Error()}}
		return
	}
	root := ""
	if st, err := os.Stat("/dev/shm"); err == nil && st.IsDir() {
		root = "/dev/shm"
	}
	dir, err := os.MkdirTemp(root, "c17g")
	if err != nil {
		dir, _ = os.MkdirTemp("", "c17g")
	}
	defer os.RemoveAll(dir)
	sub := filepath.Join(dir, "in")
	os.Mkdir(sub, 0o755)
	st := func(s string) { out.stats = append(out.stats, s) }
	st("glue-layout:" + layout + ":" + strconv.Itoa(len(ins)))
	st("glue-mode:" + mode + ":r=" + nr)

	// the inputs: files written, the library's verdict on each
	var args, toks []string
	var want [][]string // the identifiers each input must contribute, in order
	fault, faultAt, noOpinion := "", -1, false
	dirGiven := false
	for i, in := range ins {
		inDir := layout == "dir" || (layout == "mix" && i >= len(ins)/2)
		where := dir
		if inDir {
			where = sub
		}
		// (a name with a suffix accepted inside directories; the codec is recognised from the magic number, not the name)
		format := in.format
		if format == "" {
			format = "fasta" // (empty / dangling: without a known suffix the path would not be an input inside a directory)
		}
		name := fmt.Sprintf("f%d.%s", i, format)
		path := filepath.Join(where, name)
		tok := in.tok
		switch in.kind {
		case "missing":
			// nothing written (inside a directory a missing file is no input at all: not generated)
			if fault == "" {
				fault, faultAt = "missing", i
			}
		case "dangling":
			os.Symlink(filepath.Join(dir, "nowhere"), path)
			if fault == "" {
				fault, faultAt = "dangling", i
			}
		case "empty":
			os.WriteFile(path, nil, 0o644)
		default:
			z0, full := c17GlueFile(i, in)
			z, _, ok := c17ApplyDamage(z0, in.damage)
			if !ok {
				return
			}
			os.WriteFile(path, z, 0o644)
			decoded, class := full, "eof"
			if in.codec != "plain" {
				decoded, class = c17LibScan(z)
			} else if in.damage != "none" {
				return // a damaged plain text is another text, not a fault
			}
			tok += fmt.Sprintf(":n=%d:e=%s:len=%d", len(decoded), class, len(full))
			switch {
			case class == "raw" || (class == "eof" && !bytes.Equal(decoded, full)):
				noOpinion = true // the library itself hides the damage (known findings D22x, D22y; formats without checksum)
				st("glue-library-hides-damage:" + in.codec)
			case class != "eof":
				kind := "open-time"
				if len(decoded) >= 1<<20 || mode != "guess" {
					kind = "mid-stream"
				}
				if len(decoded) == 0 {
					kind = "first-byte"
				}
				st("glue-fault:" + kind + ":" + in.codec)
				st(fmt.Sprintf("glue-fault-position:%d/%d", i+1, len(ins)))
				if fault == "" {
					fault, faultAt = kind+" "+class+" ("+in.damage+")", i
				}
			}
			ids := make([]string, in.nrec)
			for k := range ids {
				ids[k] = fmt.Sprintf("g%d_%d", i, k)
			}
			want = append(want, ids)
		}
		toks = append(toks, tok)
		if layout == "paired" && i == 1 {
			continue
		}
		if inDir {
			if !dirGiven {
				args = append(args, sub)
				dirGiven = true
			}
		} else {
			args = append(args, path)
		}
	}
	out.line = strings.Join(append(append([]string{}, f[:4]...), toks...), " ")

	cl := []string{"--fasta-output"}
	if mode != "guess" {
		cl = append(cl, "--"+mode)
	}
	if nr == "n" {
		cl = append(cl, "--no-order")
	}
	outPrefix := filepath.Join(dir, "out.fasta")
	if layout == "paired" {
		cl = append(cl, "--paired-with", filepath.Join(dir, fmt.Sprintf("f1.%s", ins[1].format)), "-o", outPrefix)
	}
	cmd := exec.Command(bin, append(cl, args...)...)
	var stdout bytes.Buffer
	cmd.Stdout = &stdout
	cmd.Stderr = io.Discard
	done := make(chan error, 1)
	if err := cmd.Start(); err != nil {
		out.fails = []Fail{{Sig: "cmd.start", Text: err.Error()}}
		return
	}
	go func() { done <- cmd.Wait() }()
	status := ""
	select {
	case err := <-done:
		if err == nil {
			status = "exit0"
		} else {
			status = "exit-nonzero"
		}
	case <-time.After(60 * time.Second * watchdogScale()):
		cmd.Process.Kill()
		status = "hang"
	}
	// the records written
	text := stdout.Bytes()
	if layout == "paired" {
		r1, _ := os.ReadFile(filepath.Join(dir, "out_R1.fasta"))
		r2, _ := os.ReadFile(filepath.Join(dir, "out_R2.fasta"))
		text = append(append([]byte{}, r1...), r2...)
	}
	var got []string
	for _, l := range bytes.Split(text, []byte("\n")) {
		if len(l) > 0 && l[0] == '>' {
			id := string(l[1:])
			if k := strings.IndexAny(id, " \t"); k >= 0 {
				id = id[:k]
			}
			got = append(got, id)
		}
	}
	var all []string
	for _, w := range want {
		all = append(all, w...)
	}
	sig := "glue." + layout + "."
	switch {
	case noOpinion:
		out.res = "lib-clean"
		return
	case status == "hang":
		out.res = "hang"
		out.fails = append(out.fails, Fail{Sig: sig + "hang", Text: "obiconvert on " + strconv.Itoa(len(ins)) + " inputs did not end (watchdog)"})
		return
	case fault != "":
		st("glue-outcome:faulted:" + status)
		out.res = status
		if status == "exit0" {
			out.fails = append(out.fails, Fail{Sig: sig + "faulted-input-accepted", Text: fmt.Sprintf(
				"input %d of %d (%s) is faulted: %s; obiconvert %s ended with status 0 after writing %d of the %d records of the inputs",
				faultAt+1, len(ins), ins[faultAt].tok, fault, strings.Join(cl, " "), len(got), len(all))})
		}
		return
	}
	st("glue-outcome:clean:" + status)
	if status != "exit0" {
		out.res = status
		out.fails = append(out.fails, Fail{Sig: sig + "clean-inputs-rejected", Text: "every input is complete (an empty file is legal) but obiconvert ended with " + status})
		return
	}
	out.res = fmt.Sprintf("exit0 %d", len(got))
	inorder := strings.Join(got, ",") == strings.Join(all, ",")
	a, b := append([]string{}, got...), append([]string{}, all...)
	sort.Strings(a)
	sort.Strings(b)
	if strings.Join(a, ",") != strings.Join(b, ",") {
		out.fails = append(out.fails, Fail{Sig: sig + "records-missing", Text: fmt.Sprintf("status 0 with %d records written, the inputs hold %d (first written %.40q)", len(got), len(all), strings.Join(got, ","))})
	} else if nr == "1" && layout != "paired" {
		// one reader: the records come in the order of the list of files
		if inorder {
			out.res += " inorder"
		} else {
			out.fails = append(out.fails, Fail{Sig: sig + "order-lost", Text: "one reader, but the records are not written in the order of the inputs"})
		}
	}
	return
}

// c17GlueGen: the `glue` case lines of a run
func c17GlueGen(rng *rand.Rand, tier string) []string {
	var lines []string
	codecs := []string{"gz", "bz2", "xz", "zst"}
	small, big := 40, 20000 // 20000 records of 60 bases: 1.4 MB of text (the peek of the format guesser is 1 MiB)
	intact := func(i int) string {
		c := append([]string{"plain"}, codecs...)[rng.Intn(5)]
		f := "fasta"
		if rng.Intn(4) == 0 {
			f = "fastq"
		}
		return fmt.Sprintf("%s:%s:%d:none", c, f, small+i)
	}
	// a damaged input: kind 0 = cut at open time, 1 = bit flip / byte at open time, 2 = cut in mid-stream (big file),
	// 3 = cut of a big file within the first decompressed MiB
	damaged := func(i, kind int, codec, format string) string {
		nrec := small + i
		if kind >= 2 {
			nrec = big
		}
		in := c17GlueIn{kind: "file", codec: codec, format: format, nrec: nrec}
		z, _ := c17GlueFile(i, in)
		lo := 40 // beyond the magic numbers and the first block header (xz: known finding D22x)
		d := ""
		switch kind {
		case 0:
			if codec != "gz" && rng.Intn(3) > 0 {
				// a small bzip2 / xz / zstd file is a single block: only a cut in its last bytes (trailer, checksum) leaves
				// decoded bytes in front of the error; an earlier cut is met by Ropen itself (first byte)
				d = fmt.Sprintf("cut=%d", len(z)-1-rng.Intn(6))
			} else {
				d = fmt.Sprintf("cut=%d", lo+rng.Intn(len(z)-lo))
			}
		case 1:
			if rng.Intn(2) == 0 {
				d = fmt.Sprintf("flip=%d", lo*8+rng.Intn((len(z)-lo-12)*8))
			} else {
				d = fmt.Sprintf("byte=%d", lo+rng.Intn(len(z)-lo-12))
			}
		case 2:
			d = fmt.Sprintf("cut=%d", len(z)*80/100+rng.Intn(len(z)*19/100))
		default:
			d = fmt.Sprintf("cut=%d", len(z)*10/100+rng.Intn(len(z)*50/100))
		}
		return fmt.Sprintf("%s:%s:%d:%s", codec, format, nrec, d)
	}
	build := func(mode, nr, layout string, n, pos int, bad string) string {
		toks := make([]string, n)
		for i := range toks {
			toks[i] = intact(i)
			if mode != "guess" {
				p := strings.Split(toks[i], ":")
				p[1] = mode
				toks[i] = strings.Join(p, ":")
			}
		}
		if pos >= 0 {
			toks[pos] = bad
		}
		return fmt.Sprintf("glue m=%s r=%s l=%s %s", mode, nr, layout, strings.Join(toks, " "))
	}
	layouts := []string{"args", "dir", "mix"}
	// corpus: the seeded regression C17-m6 (a file faulted at open time among several is skipped with a warning)
	lines = append(lines,
		"glue m=guess r=1 l=args plain:fasta:40:none gz:fasta:60:cut=300",
		"glue m=guess r=1 l=dir plain:fasta:40:none gz:fasta:60:cut=300",
		"glue m=guess r=1 l=args gz:fasta:60:cut=300 plain:fasta:40:none",
		"glue m=guess r=n l=args plain:fasta:40:none zst:fasta:60:byte=200 bz2:fasta:33:none",
		"glue m=guess r=1 l=args plain:fasta:40:none gz:fasta:60:none",
		"glue m=guess r=1 l=args plain:fasta:40:none empty gz:fastq:25:none",
		"glue m=guess r=1 l=args plain:fasta:40:none missing",
		"glue m=guess r=1 l=args dangling plain:fasta:40:none",
		"glue m=guess r=1 l=dir plain:fasta:40:none dangling gz:fasta:30:none",
		"glue m=guess r=1 l=dir empty empty",
		"glue m=guess r=1 l=paired plain:fastq:30:none gz:fastq:30:none",
		"glue m=guess r=1 l=paired plain:fastq:30:none gz:fastq:30:cut=200",
		"glue m=guess r=1 l=paired gz:fastq:30:cut=200 plain:fastq:30:none",
		"glue m=fastq r=1 l=paired plain:fastq:30:none zst:fastq:30:cut=150",
	)
	// every position of the faulted input in lists of 2..5 inputs, for the kinds of fault
	kinds := []int{0, 1, 2}
	maxN := 5
	for n := 2; n <= maxN; n++ {
		for pos := 0; pos < n; pos++ {
			for _, kind := range kinds {
				if kind == 2 && tier != "thorough" && (n+pos)%3 != int(rng.Intn(3)) {
					continue // quick: a third of the mid-stream cases (1.4 MB files)
				}
				codec := codecs[rng.Intn(4)]
				format := "fasta"
				if kind < 2 && rng.Intn(4) == 0 {
					format = "fastq"
				}
				nr := "1"
				if rng.Intn(3) == 0 {
					nr = "n"
				}
				lines = append(lines, build("guess", nr, layouts[rng.Intn(3)], n, pos, damaged(pos, kind, codec, format)))
			}
		}
	}
	// thorough: every codec x kind x layout x reader count on 3 inputs, every position; a big file cut within its first MiB
	if tier == "thorough" {
		for _, codec := range codecs {
			for _, kind := range []int{0, 1, 2, 3} {
				for _, layout := range layouts {
					for _, nr := range []string{"1", "n"} {
						if kind >= 2 && (layout == "mix" || rng.Intn(2) == 0) {
							continue
						}
						pos := rng.Intn(3)
						lines = append(lines, build("guess", nr, layout, 3, pos, damaged(pos, kind, codec, "fasta")))
					}
				}
			}
		}
	} else {
		for i, codec := range codecs {
			lines = append(lines, build("guess", []string{"1", "n"}[rng.Intn(2)], layouts[rng.Intn(3)], 3, i%3, damaged(i%3, 3, codec, "fasta")))
		}
	}
	// a forced format: the readers ReadFastaFromFile / ReadFastqFromFile have no peek, every fault is met in mid-stream
	nf := 4
	if tier == "thorough" {
		nf = 24
	}
	for i := 0; i < nf; i++ {
		mode := []string{"fasta", "fastq"}[rng.Intn(2)]
		n := 2 + rng.Intn(3)
		pos := rng.Intn(n)
		nr := []string{"1", "n"}[rng.Intn(2)]
		lines = append(lines, build(mode, nr, layouts[rng.Intn(3)], n, pos, damaged(pos, rng.Intn(2), codecs[rng.Intn(4)], mode)))
	}
	// clean runs (all records of all inputs, in order with one reader), empty files among the inputs
	nc := 4
	if tier == "thorough" {
		nc = 20
	}
	for i := 0; i < nc; i++ {
		n := 2 + rng.Intn(4)
		pos, bad := -1, ""
		if rng.Intn(2) == 0 {
			pos, bad = rng.Intn(n), "empty"
		}
		lines = append(lines, build("guess", []string{"1", "n"}[rng.Intn(2)], layouts[rng.Intn(3)], n, pos, bad))
	}
	// missing / dangling paths in every position of 3 arguments
	for pos := 0; pos < 3; pos++ {
		lines = append(lines, build("guess", "1", "args", 3, pos, "missing"))
		if tier == "thorough" || pos == int(rng.Intn(3)) {
			lines = append(lines, build("guess", "1", []string{"args", "dir"}[rng.Intn(2)], 3, pos, "dangling"))
		}
	}
	return lines
}
