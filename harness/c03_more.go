//go:build c03

package main

// Second deepening round of C03: consumers that are slow / bursty / absent, chains of 5-6 combinators,
// streams of 10^5 records (implicit), the nil branches of the record-to-slice adapters, the real
// obiuniq chain on streams holding empty batches, and an instrumented SortBatches run whose event trace
// is checked by the Lean model to be an execution of the transition system of Model/ReseqSteps.lean.

import (
	"fmt"
	"math/rand"
	"sort"
	"strconv"
	"strings"
	"sync"
	"time"

	"git.metabarcoding.org/obitools/obitools4/obitools4/pkg/obichunk"
	"git.metabarcoding.org/obitools/obitools4/obitools4/pkg/obiiter"
	"git.metabarcoding.org/obitools/obitools4/obitools4/pkg/obiseq"
)

// c03Pace makes the consumer slow (a pause per batch) or bursty (a long pause every 7th batch).
func c03Pace(mode string, rank int) {
	switch mode {
	case "slow":
		time.Sleep(150 * time.Microsecond)
	case "burst":
		if rank%7 == 6 {
			time.Sleep(2 * time.Millisecond)
		}
	}
}

func c03DrainMode(it obiiter.IBioSequence, mode string) []c03Batch {
	var out []c03Batch
	rank := 0
	for it.Next() {
		b := it.Get()
		cb := c03Batch{order: b.Order()}
		for _, s := range b.Slice() {
			cb.ids = append(cb.ids, c03Id(s))
		}
		out = append(out, cb)
		c03Pace(mode, rank)
		rank++
	}
	return out
}

// c03ConsumeBursty drains an output nobody looks at, late and in bursts (the "other" output of
// DivideOn / CopyTee inside a pipeline).
func c03ConsumeBursty(it obiiter.IBioSequence) {
	time.Sleep(3 * time.Millisecond)
	rank := 0
	for it.Next() {
		it.Get()
		c03Pace("burst", rank)
		rank++
	}
}

var c03UniqSeqs = []string{"acgtacgt", "ttttacgt", "ggggcccc"}

func c03UniqSeq(id int) *obiseq.BioSequence {
	return obiseq.NewBioSequence("r"+strconv.Itoa(id), []byte(c03UniqSeqs[id%3]), "")
}

// c03Uniq pushes the stream (empty batches included) through the real obiuniq chain
// (Distribute -> chunks -> sub-chunks -> IMergeSequenceBatch) and counts the reads per distinct sequence.
func c03Uniq(bs []c03Batch, fail func(sig, format string, a ...any), onDisk ...bool) string {
	var opts []obichunk.WithOption
	if len(onDisk) > 0 && onDisk[0] {
		opts = append(opts, obichunk.OptionSortOnDisk())
	}
	it, err := obichunk.IUniqueSequence(c03IterWith(bs, c03UniqSeq), opts...)
	if err != nil {
		return "err"
	}
	counts := map[string]int{}
	variants := map[string]int{}
	for it.Next() {
		b := it.Get()
		if b.Len() == 0 {
			fail("empty-batch", "IMergeSequenceBatch delivered an empty batch")
		}
		for _, s := range b.Slice() {
			counts[s.String()] += s.Count()
			variants[s.String()]++
		}
	}
	var parts []string
	for c, sq := range c03UniqSeqs {
		if variants[sq] > 1 {
			fail("variants", "sequence class %d delivered %d times", c, variants[sq])
		}
		if counts[sq] > 0 {
			parts = append(parts, fmt.Sprintf("c%d=%d", c, counts[sq]))
		}
	}
	return strings.Join(parts, " ")
}

// ---- instrumented SortBatches run ----
//
// N pusher goroutines (the worker goroutines of a MakeISliceWorker stage, reduced to their Push) take the
// batches of the arrival list in turn and push them on the iterator SortBatches reads; the consumer drains
// the sorted iterator.  Every pusher logs "b<k>" before and "e<k>" after its Push (the unbuffered send
// completes when the sorter has received the batch), the consumer logs "d<k>" after receiving batch k and
// "x" when Next() returns false; pushers log "q" after Done().  The log is totally ordered by a mutex.
func c03Trace(bs []c03Batch, nw int, mode string) (events []string, out []c03Batch) {
	var mu sync.Mutex
	logev := func(e string) {
		mu.Lock()
		events = append(events, e)
		mu.Unlock()
	}
	mid := obiiter.MakeIBioSequence()
	mid.Add(nw)
	var next int
	var nmu sync.Mutex
	take := func() (c03Batch, bool) {
		nmu.Lock()
		defer nmu.Unlock()
		if next >= len(bs) {
			return c03Batch{}, false
		}
		b := bs[next]
		next++
		return b, true
	}
	for w := 0; w < nw; w++ {
		go func() {
			for {
				b, ok := take()
				if !ok {
					break
				}
				sl := obiseq.MakeBioSequenceSlice()
				for _, id := range b.ids {
					sl = append(sl, c03Seq(id))
				}
				logev("b" + strconv.Itoa(b.order))
				mid.Push(obiiter.MakeBioSequenceBatch("src", b.order, sl))
				logev("e" + strconv.Itoa(b.order))
			}
			mid.Done()
			logev("q")
		}()
	}
	go mid.WaitAndClose()
	sorted := mid.SortBatches()
	rank := 0
	for sorted.Next() {
		b := sorted.Get()
		logev("d" + strconv.Itoa(b.Order()))
		cb := c03Batch{order: b.Order()}
		for _, s := range b.Slice() {
			cb.ids = append(cb.ids, c03Id(s))
		}
		out = append(out, cb)
		c03Pace(mode, rank)
		rank++
	}
	logev("x")
	mu.Lock()
	events = append([]string{}, events...)
	mu.Unlock()
	return events, out
}

// c03BigStream: nrec records 1..nrec in batches of bs, arrival order = windows of 8 batches reversed.
func c03BigStream(nrec, bs int) obiiter.IBioSequence {
	nb := (nrec + bs - 1) / bs
	orderOf := make([]int, 0, nb)
	for w := 0; w < nb; w += 8 {
		hi := w + 8
		if hi > nb {
			hi = nb
		}
		for k := hi - 1; k >= w; k-- {
			orderOf = append(orderOf, k)
		}
	}
	it := obiiter.MakeIBioSequence()
	it.Add(1)
	go func() {
		for _, k := range orderOf {
			lo, hi := k*bs+1, (k+1)*bs
			if hi > nrec {
				hi = nrec
			}
			sl := obiseq.MakeBioSequenceSlice()
			for id := lo; id <= hi; id++ {
				sl = append(sl, c03Seq(id))
			}
			it.Push(obiiter.MakeBioSequenceBatch("src", k, sl))
		}
		it.Done()
	}()
	go it.WaitAndClose()
	return it
}

func c03SortedCopy(a []int) []int {
	b := append([]int{}, a...)
	sort.Ints(b)
	return b
}

// c03GenMore: the cases of the second deepening round (kept apart so that the random sequence of the
// earlier cases is unchanged for a given seed).
func c03GenMore(rng *rand.Rand, tier string, emit func(string)) {
	thorough := tier == "thorough"
	for _, c := range []string{
		"divideabs 2 | 0:3,6,9", "divideabs 2 | ", "divideabs 3 | 1:12 0:3,6 2:", "divideabs 2 | 0:3,6,1", "divideabs 1 | 0:1",
		"divideslow 2 | 0:1,2,3,4,5,6,9", "divideslow 1 | 1:3,4 0:1,2", "divideslow 3 | ",
		"adaptnil w boe=0 3,c,0 | 0:1,2,3", "adaptnil w boe=1 3,c,2 | 0:", "adaptnil c boe=0 3,c,0 | 0:1,2,3", "adaptnil c boe=1 2,c,3 | 0:1,2,3",
		"adaptnil cw boe=0 3,c,0 | 0:1,2,3,4,5,6", "adaptnil cw boe=1 3,c,2 | 0:1,3,5,6,9", "adaptnil cw boe=0 0,c,0 | 0:", "adaptnil cwn boe=1 9,m,2 | 0:1,2,3",
		"adaptnil chainl boe=0 4,c,0 | 0:1,2", "adaptnil chainl boe=1 4,c,2 | 0:1,2", "adaptnil chainr boe=0 7,m,0 | 0:1,2,3", "adaptnil chainr boe=0 2,c,3 | 0:1,2,3", "adaptnil chainnn boe=0 2,c,0 | 0:1",
		"pipec w=16 c=slow sort,worker,divt:2,tee,iworker:2:c,rebatch:3 | 1:3,4,7 0:9,6 2:5,12", "pipec w=9 c=burst filteron:1,tee,complete,iworker:3:m,filterempty,rebatch:2 | 2: 0:3,6 1:9",
		"pipec w=1 c=fast divt:1,divt:2,tee,tee,sort,limitmem | ", "pipec w=3 c=burst worker,divt:1,complete,tee,rebatch:1 | 0:3 1:6 2:9 3:12 4:15 5:18 6:21",
		"uniq | 1:3,4 0:1,2", "uniq | ", "uniq | 0: 1: 2:", "uniq | 2:5 0: 1:1,2,3,4 3:", "uniq | 0:3 1: 2:3",
		"trace w=2 c=fast | 1:3 0:4", "trace w=1 c=fast | ", "trace w=3 c=slow | 2:1 1:2 0:3", "trace w=8 c=burst | 0: 1:1 2: 3:2 4:3 5: 6:4 7:5", "trace w=2 c=fast | 3:1 2:2 1:3 0:4",
		"big w=4 c=fast n=0 bs=10 sort,rebatch:7 | ", "big w=3 c=burst n=1001 bs=100 worker,filteron:13,rebatch:50 | ",
	} {
		emit(c)
	}
	ids := func(first, n, step int) []int {
		v := make([]int, n)
		for i := range v {
			v[i] = first + i*step
		}
		return v
	}
	rstream := func(maxrec int) []c03Batch {
		nrec := rng.Intn(maxrec + 1)
		nb := rng.Intn(7)
		if nb == 0 {
			nrec = 0
		}
		return c03Shuffle(rng, c03Partition(rng, 1, nrec, nb))
	}
	// DivideOn with the second output never consumed: streams whose records all satisfy the predicate (the
	// first output must be served to the end) and a few where the second output gets a batch (hang)
	nabs, nhang := 10, 4
	if thorough {
		nabs, nhang = 40, 8
	}
	for i := 0; i < nabs; i++ {
		nb := 1 + rng.Intn(5)
		var bs []c03Batch
		first := 3
		for k := 0; k < nb; k++ {
			m := rng.Intn(5)
			bs = append(bs, c03Batch{order: k, ids: ids(first, m, 3)})
			first += 3 * m
		}
		emit(fmt.Sprintf("divideabs %d | %s", 1+rng.Intn(4), c03Show(c03Shuffle(rng, bs))))
	}
	for i := 0; i < nhang; i++ {
		nb := 1 + rng.Intn(4)
		st := c03Shuffle(rng, c03Partition(rng, 1, 2+rng.Intn(20), nb))
		emit(fmt.Sprintf("divideabs %d | %s", 1+rng.Intn(4), c03Show(st)))
	}
	nslow := 15
	if thorough {
		nslow = 60
	}
	for i := 0; i < nslow; i++ {
		emit(fmt.Sprintf("divideslow %d | %s", 1+rng.Intn(5), c03Show(rstream(40))))
	}
	// nil branches of the adapters
	nnil := 8
	if thorough {
		nnil = 40
	}
	for i := 0; i < nnil; i++ {
		for _, v := range []string{"w", "c", "cw", "cwn", "chainl", "chainr"} {
			m := rng.Intn(9)
			e := 0
			if rng.Intn(3) == 0 {
				e = 2 + rng.Intn(4)
			}
			emit(fmt.Sprintf("adaptnil %s boe=%d %d,%s,%d | 0:%s", v, rng.Intn(2), rng.Intn(8), []string{"c", "m"}[rng.Intn(2)], e, c03ShowIds(ids(1+rng.Intn(3), m, 1+rng.Intn(2)))))
		}
	}
	// chains of 5-6 combinators, 1..16 workers, fast / slow / bursty consumer
	npipe := 160
	if thorough {
		npipe = 900
	}
	for i := 0; i < npipe; i++ {
		ns := 5 + rng.Intn(2)
		var st []string
		niw := 0
		for k := 0; k < ns; k++ {
			switch rng.Intn(10) {
			case 0:
				st = append(st, "sort")
			case 1:
				st = append(st, "filterempty")
			case 2:
				st = append(st, "limitmem")
			case 3:
				st = append(st, "worker")
			case 4:
				st = append(st, fmt.Sprintf("rebatch:%d", 1+rng.Intn(5)))
			case 5:
				st = append(st, fmt.Sprintf("filteron:%d", 1+rng.Intn(5)))
			case 6:
				if niw < 2 {
					niw++
					st = append(st, fmt.Sprintf("iworker:%d:%s", rng.Intn(4), []string{"c", "m"}[rng.Intn(2)]))
				} else {
					st = append(st, "sort")
				}
			case 7:
				st = append(st, "tee")
			case 8:
				st = append(st, "complete")
			case 9:
				st = append(st, fmt.Sprintf("divt:%d", 1+rng.Intn(4)))
			}
		}
		emit(fmt.Sprintf("pipec w=%d c=%s %s | %s", 1+rng.Intn(16), []string{"fast", "slow", "burst"}[rng.Intn(3)], strings.Join(st, ","), c03Show(rstream(40))))
	}
	// the real obiuniq chain on streams with empty batches
	nuniq := 25
	if thorough {
		nuniq = 120
	}
	for i := 0; i < nuniq; i++ {
		emit("uniq | " + c03Show(rstream(30)))
	}
	// instrumented SortBatches runs
	ntrace := 80
	if thorough {
		ntrace = 500
	}
	for i := 0; i < ntrace; i++ {
		nb := rng.Intn(10)
		st := c03Shuffle(rng, c03Partition(rng, 1, rng.Intn(20), nb))
		if rng.Intn(3) == 0 { // nearly sorted arrival: the common case in a command
			st = c03Partition(rng, 1, rng.Intn(20), nb)
			if nb > 1 {
				i, j := rng.Intn(nb), rng.Intn(nb)
				st[i], st[j] = st[j], st[i]
			}
		}
		emit(fmt.Sprintf("trace w=%d c=%s | %s", 1+rng.Intn(8), []string{"fast", "slow", "burst"}[rng.Intn(3)], c03Show(st)))
	}
	// long streams
	nrec, nbig := 20000, 3
	if thorough {
		nrec, nbig = 100000, 3
	}
	for i := 0; i < nbig; i++ {
		var st []string
		switch i {
		case 0:
			st = []string{"worker", fmt.Sprintf("filteron:%d", 20+rng.Intn(80)), "tee", fmt.Sprintf("divt:%d", 10+rng.Intn(90)), "limitmem", fmt.Sprintf("rebatch:%d", 50+rng.Intn(450))}
		case 1:
			st = []string{"sort", "iworker:2:m", "filterempty", "worker", fmt.Sprintf("rebatch:%d", 30+rng.Intn(100)), fmt.Sprintf("rebatch:%d", 50+rng.Intn(450))}
		default:
			st = []string{fmt.Sprintf("rebatch:%d", 1+rng.Intn(50)), "worker", "iworker:1:c", "sort", fmt.Sprintf("rebatch:%d", 50+rng.Intn(450))}
		}
		emit(fmt.Sprintf("big w=%d c=%s n=%d bs=%d %s | ", 1+rng.Intn(16), []string{"fast", "slow", "burst"}[i%3], nrec-rng.Intn(100), 50+rng.Intn(950), strings.Join(st, ",")))
	}
}
