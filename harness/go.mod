module verifharness

go 1.23.1

require (
	git.metabarcoding.org/obitools/obitools4/obitools4 v0.0.0
	github.com/sirupsen/logrus v1.9.3
)

require golang.org/x/sys v0.17.0 // indirect

replace git.metabarcoding.org/obitools/obitools4/obitools4 => /repo
