//go:build c12

package main

import (
	"sync"
	"fmt"
	"math/rand"
	"sort"
	"strconv"
	"strings"
	"time"

	"git.metabarcoding.org/obitools/obitools4/obitools4/pkg/obiapat"
	"git.metabarcoding.org/obitools/obitools4/obitools4/pkg/obiformats"
	"git.metabarcoding.org/obitools/obitools4/obitools4/pkg/obingslibrary"
	"git.metabarcoding.org/obitools/obitools4/obitools4/pkg/obiseq"
)

// C12 — demultiplexing.
//
// case lines (byte strings in hex, "-" = empty):
//
//	ham <a> <b> | lev <a> <b> | look <seq> <delim> | rescue <seq> <delim> <taglen> <border> <indel>
//	demux <fmt o|c> <style> <e> <indel> <K>
//	      K × [ <fp> <rp> <fsp> <rsp> <fdl> <rdl> <fin> <rin> <mode s|h|i> <ferr> <rerr> <fpi> <rpi> <ns>
//	            ns × [ <ftag> <rtag> <sample> <experiment> <extra> ] ]
//	      <id> <seq>
//	      cls <free|cN>   exp <n> n × [ <barcode> <dir> <marker> <sample> <ftag> <rtag> <fmatch> <rmatch> <ferr> <rerr> ]
//	      [hits K × [ 4 × ( <n> n × [ <begin> <end> <mismatches> ] ) ]]      appended by Exec (primer hits of the real matcher)
//
// The sample sheet text is a deterministic function of <fmt> <style> and the markers (c12Sheet); it is read by the real
// ReadNGSFilter.  The markers are kept sorted by (forward primer, reverse primer): this is the numbering order of the model.
// "cls cN": the read was built from the sheet with N primer sites within budget and the expectation list applies (as long as
// the real matcher reports exactly N hits); "cls free": no expectation, correspondence + safety + determinism only.

type c12 struct{}

var (
	c12LastKey    string
	c12LastLib    *obingslibrary.NGSLibrary
	c12LastWorker obiseq.SeqSliceWorker
)

func init() { props["C12"] = c12{} }

type c12Sample struct{ ftag, rtag, name, exp, extra string }

type c12Marker struct {
	fp, rp     string
	fsp, rsp   int
	fdl, rdl   byte
	fin, rin   int
	mode       string
	ferr, rerr int
	fpi, rpi   bool
	samples    []c12Sample
}

type c12Exp struct {
	barcode, dir   string
	mk             int
	sample         string // "" = must carry an error
	ftag, rtag     string
	fmatch, rmatch string
	ferr, rerr     int
}

type c12Case struct {
	format  string
	style   int
	e       int
	indel   bool
	markers []c12Marker
	id      string
	seq     []byte
	cls     string
	exps    []c12Exp
}

func c12b(x bool) int {
	if x {
		return 1
	}
	return 0
}

func c12h(s string) string { return hx([]byte(s)) }

// ------------------------------------------------------------------------------------------------
// case line <-> structure
// ------------------------------------------------------------------------------------------------

func (c *c12Case) sortMarkers() {
	// expectations refer to markers by index: remap
	idx := make([]int, len(c.markers))
	for i := range idx {
		idx[i] = i
	}
	sort.SliceStable(idx, func(a, b int) bool {
		ma, mb := c.markers[idx[a]], c.markers[idx[b]]
		if ma.fp != mb.fp {
			return ma.fp < mb.fp
		}
		return ma.rp < mb.rp
	})
	nm := make([]c12Marker, len(idx))
	pos := make([]int, len(idx))
	for newi, old := range idx {
		nm[newi] = c.markers[old]
		pos[old] = newi
	}
	c.markers = nm
	for i := range c.exps {
		c.exps[i].mk = pos[c.exps[i].mk]
	}
}

func (c *c12Case) line() string {
	var b strings.Builder
	fmt.Fprintf(&b, "demux %s %d %d %d %d", c.format, c.style, c.e, c12b(c.indel), len(c.markers))
	for _, m := range c.markers {
		fmt.Fprintf(&b, " %s %s %d %d %d %d %d %d %s %d %d %d %d %d", c12h(m.fp), c12h(m.rp), m.fsp, m.rsp, m.fdl, m.rdl, m.fin, m.rin,
			m.mode, m.ferr, m.rerr, c12b(m.fpi), c12b(m.rpi), len(m.samples))
		for _, s := range m.samples {
			fmt.Fprintf(&b, " %s %s %s %s %s", c12h(s.ftag), c12h(s.rtag), c12h(s.name), c12h(s.exp), c12h(s.extra))
		}
	}
	fmt.Fprintf(&b, " %s %s cls %s exp %d", c12h(c.id), hx(c.seq), c.cls, len(c.exps))
	for _, e := range c.exps {
		fmt.Fprintf(&b, " %s %s %d %s %s %s %s %s %d %d", c12h(e.barcode), e.dir, e.mk, c12h(e.sample), c12h(e.ftag), c12h(e.rtag),
			c12h(e.fmatch), c12h(e.rmatch), e.ferr, e.rerr)
	}
	return b.String()
}

type c12Toks struct {
	t   []string
	bad bool
}

func (p *c12Toks) next() string {
	if len(p.t) == 0 {
		p.bad = true
		return ""
	}
	x := p.t[0]
	p.t = p.t[1:]
	return x
}
func (p *c12Toks) int() int {
	v, err := strconv.Atoi(p.next())
	if err != nil {
		p.bad = true
	}
	return v
}
func (p *c12Toks) hex() string {
	b, ok := unhx(p.next())
	if !ok {
		p.bad = true
	}
	return string(b)
}

// c12ParseMarkers reads K marker descriptions
func c12ParseMarkers(p *c12Toks, c *c12Case, k int) bool {
	for i := 0; i < k; i++ {
		var m c12Marker
		m.fp, m.rp = p.hex(), p.hex()
		m.fsp, m.rsp = p.int(), p.int()
		m.fdl, m.rdl = byte(p.int()), byte(p.int())
		m.fin, m.rin = p.int(), p.int()
		m.mode = p.next()
		m.ferr, m.rerr = p.int(), p.int()
		m.fpi, m.rpi = p.int() == 1, p.int() == 1
		ns := p.int()
		if p.bad || ns < 0 || ns > 64 || (m.mode != "s" && m.mode != "h" && m.mode != "i") {
			return false
		}
		for j := 0; j < ns; j++ {
			m.samples = append(m.samples, c12Sample{p.hex(), p.hex(), p.hex(), p.hex(), p.hex()})
		}
		c.markers = append(c.markers, m)
	}
	return true
}

func c12Parse(f []string) (*c12Case, bool) {
	p := &c12Toks{t: f}
	c := &c12Case{}
	c.format = p.next()
	c.style = p.int()
	c.e = p.int()
	c.indel = p.int() == 1
	k := p.int()
	if p.bad || k < 0 || k > 16 || (c.format != "o" && c.format != "c") {
		return nil, false
	}
	if !c12ParseMarkers(p, c, k) {
		return nil, false
	}
	c.id = p.hex()
	c.seq = []byte(p.hex())
	if p.next() != "cls" {
		return nil, false
	}
	c.cls = p.next()
	if p.next() != "exp" {
		return nil, false
	}
	n := p.int()
	if p.bad || n < 0 || n > 16 {
		return nil, false
	}
	for i := 0; i < n; i++ {
		var e c12Exp
		e.barcode, e.dir, e.mk = p.hex(), p.next(), p.int()
		e.sample, e.ftag, e.rtag, e.fmatch, e.rmatch = p.hex(), p.hex(), p.hex(), p.hex(), p.hex()
		e.ferr, e.rerr = p.int(), p.int()
		if e.mk < 0 || e.mk >= len(c.markers) {
			return nil, false
		}
		c.exps = append(c.exps, e)
	}
	if p.bad {
		return nil, false
	}
	// an optional "hits" section (recomputed anyway)
	if len(p.t) > 0 && p.t[0] != "hits" {
		return nil, false
	}
	return c, true
}

// ------------------------------------------------------------------------------------------------
// the sample sheet text
// ------------------------------------------------------------------------------------------------

func c12Tags(s c12Sample, style int, up func(string) string) string {
	f, r := s.ftag, s.rtag
	if f == r && f != "" && style&1 != 0 {
		return up(f)
	}
	if f == "" {
		f = "-"
	}
	if r == "" {
		r = "-"
	}
	return up(f) + ":" + up(r)
}

func c12Delim(d byte, up func(string) string) string {
	if d == 0 {
		return "0"
	}
	return up(string([]byte{d}))
}

// c12Sheet renders the sample sheet: old ngsfilter text ("o", default parameters only) or CSV with @param lines ("c").
// style bits: 1 short tag form, 2 comments / blank lines, 4 upper case, 8 permuted CSV columns, 16 write defaults
// explicitly, 32 per-primer parameter form.
func c12Sheet(c *c12Case) string {
	up := func(s string) string { return s }
	if c.style&4 != 0 {
		up = strings.ToUpper
	}
	var b strings.Builder
	if c.format == "o" {
		if c.style&2 != 0 {
			b.WriteString("# experiment sample tags forward reverse extra\n\n")
		}
		for _, m := range c.markers {
			for _, s := range m.samples {
				fmt.Fprintf(&b, "%s\t%s  %s %s\t%s F", s.exp, s.name, c12Tags(s, c.style, up), up(m.fp), up(m.rp))
				if s.extra != "" {
					fmt.Fprintf(&b, " @ note=%s;", s.extra)
				} else if c.style&16 != 0 {
					b.WriteString(" @")
				}
				b.WriteString("\n")
				if c.style&2 != 0 {
					b.WriteString("   \n#comment\n")
				}
			}
		}
		return b.String()
	}
	ms := c.markers
	type kind struct {
		global, fwd, rev string
		f, r             func(m c12Marker) string
		def              string
	}
	kinds := []kind{
		{"spacer", "forward_spacer", "reverse_spacer", func(m c12Marker) string { return strconv.Itoa(m.fsp) }, func(m c12Marker) string { return strconv.Itoa(m.rsp) }, "0"},
		{"tag_delimiter", "forward_tag_delimiter", "reverse_tag_delimiter", func(m c12Marker) string { return c12Delim(m.fdl, up) }, func(m c12Marker) string { return c12Delim(m.rdl, up) }, "0"},
		{"tag_indels", "forward_tag_indels", "reverse_tag_indels", func(m c12Marker) string { return strconv.Itoa(m.fin) }, func(m c12Marker) string { return strconv.Itoa(m.rin) }, "0"},
		{"primer_mismatches", "forward_mismatches", "reverse_mismatches", func(m c12Marker) string { return strconv.Itoa(m.ferr) }, func(m c12Marker) string { return strconv.Itoa(m.rerr) }, "2"},
		{"indels", "forward_indels", "reverse_indels", func(m c12Marker) string { return strconv.FormatBool(m.fpi) }, func(m c12Marker) string { return strconv.FormatBool(m.rpi) }, "false"},
	}
	if c.style&2 != 0 {
		b.WriteString("# parameters\n")
	}
	for _, k := range kinds {
		uniform := true
		for _, m := range ms {
			if k.f(m) != k.f(ms[0]) || k.r(m) != k.r(ms[0]) {
				uniform = false
			}
		}
		switch {
		case uniform && c.style&32 == 0:
			F, R := k.f(ms[0]), k.r(ms[0])
			if F == R {
				if F != k.def || c.style&16 != 0 {
					fmt.Fprintf(&b, "@param,%s,%s\n", k.global, F)
				}
			} else {
				fmt.Fprintf(&b, "@param,%s,%s\n@param,%s,%s\n", k.fwd, F, k.rev, R)
			}
		default:
			for _, m := range ms {
				fmt.Fprintf(&b, "@param,%s,%s,%s\n@param,%s,%s,%s\n", k.global, up(m.fp), k.f(m), k.global, up(m.rp), k.r(m))
			}
		}
	}
	mode := map[string]string{"s": "strict", "h": "hamming", "i": "indel"}[ms[0].mode]
	if mode != "strict" || c.style&16 != 0 {
		fmt.Fprintf(&b, "@param,matching,%s\n", mode)
	}
	extra := false
	for _, m := range ms {
		for _, s := range m.samples {
			if s.extra != "" {
				extra = true
			}
		}
	}
	cols := []string{"experiment", "sample", "sample_tag", "forward_primer", "reverse_primer"}
	if extra {
		cols = append(cols, "note")
	}
	if c.style&8 != 0 {
		for i, j := 0, len(cols)-1; i < j; i, j = i+1, j-1 {
			cols[i], cols[j] = cols[j], cols[i]
		}
	}
	b.WriteString(strings.Join(cols, ",") + "\n")
	for _, m := range ms {
		for _, s := range m.samples {
			if c.style&2 != 0 {
				b.WriteString("# a comment\n")
			}
			val := map[string]string{"experiment": s.exp, "sample": s.name, "sample_tag": c12Tags(s, c.style, up),
				"forward_primer": up(m.fp), "reverse_primer": up(m.rp), "note": s.extra}
			row := make([]string, len(cols))
			for i, cn := range cols {
				row[i] = val[cn]
			}
			b.WriteString(strings.Join(row, ",") + "\n")
		}
	}
	return b.String()
}

// ------------------------------------------------------------------------------------------------
// independent references
// ------------------------------------------------------------------------------------------------

func c12RefHamming(a, b string) int {
	if len(a) != len(b) {
		if len(a) > len(b) {
			return len(a)
		}
		return len(b)
	}
	n := 0
	for i := range a {
		if a[i] != b[i] {
			n++
		}
	}
	return n
}

// textbook recursive edit distance (on suffixes, memoised)
func c12RefLev(a, b string) int {
	memo := map[[2]int]int{}
	var d func(i, j int) int
	d = func(i, j int) int {
		if i == len(a) {
			return len(b) - j
		}
		if j == len(b) {
			return len(a) - i
		}
		k := [2]int{i, j}
		if v, ok := memo[k]; ok {
			return v
		}
		c := 1
		if a[i] == b[j] {
			c = 0
		}
		v := d(i+1, j+1) + c
		if x := d(i+1, j) + 1; x < v {
			v = x
		}
		if x := d(i, j+1) + 1; x < v {
			v = x
		}
		memo[k] = v
		return v
	}
	return d(0, 0)
}

// c12RefSide: the declared tag identified by an extracted tag under the mode; ok=false when it identifies none
func c12RefSide(mode, obs string, declared []string) (string, bool) {
	if obs == "" {
		return "", true
	}
	if mode == "s" {
		return obs, true
	}
	dist := c12RefHamming
	if mode == "i" {
		dist = c12RefLev
	}
	best, at, n := -1, "", 0
	seen := map[string]bool{}
	for _, t := range declared {
		if seen[t] {
			continue
		}
		seen[t] = true
		d := dist(t, obs)
		if best < 0 || d < best {
			best, at, n = d, t, 1
		} else if d == best {
			n++
		}
	}
	if n != 1 {
		return "", false
	}
	return at, true
}

// c12RefIdent: the sample identified by the extracted tag pair ("" = none)
func c12RefIdent(m c12Marker, ft, rt string) (sample string, why string) {
	var fs, rs []string
	for _, s := range m.samples {
		fs = append(fs, s.ftag)
		rs = append(rs, s.rtag)
	}
	f, okf := c12RefSide(m.mode, ft, fs)
	r, okr := c12RefSide(m.mode, rt, rs)
	if !okf {
		return "", "forward tag " + ft + " has no unique nearest declared tag"
	}
	if !okr {
		return "", "reverse tag " + rt + " has no unique nearest declared tag"
	}
	for _, s := range m.samples {
		if s.ftag == f && s.rtag == r {
			return s.name, ""
		}
	}
	return "", "pair (" + f + ":" + r + ") not declared"
}

var c12Comp = map[byte]byte{'a': 't', 'c': 'g', 'g': 'c', 't': 'a'}

func c12Rc(s string) string {
	b := make([]byte, len(s))
	for i := 0; i < len(s); i++ {
		c, ok := c12Comp[s[i]]
		if !ok {
			c = 'n'
		}
		b[len(s)-1-i] = c
	}
	return string(b)
}

// ------------------------------------------------------------------------------------------------
// running the real code
// ------------------------------------------------------------------------------------------------

type c12Rec struct {
	id, seq string
	ann     map[string]string
}

func c12Render(rs obiseq.BioSequenceSlice) ([]c12Rec, string) {
	var recs []c12Rec
	parts := make([]string, 0, len(rs))
	for _, r := range rs {
		rec := c12Rec{id: r.Id(), seq: r.String(), ann: map[string]string{}}
		keys := []string{}
		if r.HasAnnotation() {
			for k, v := range r.Annotations() {
				rec.ann[k] = fmt.Sprint(v)
				keys = append(keys, k)
			}
		}
		sort.Strings(keys)
		kv := make([]string, len(keys))
		for i, k := range keys {
			kv[i] = k + "=" + rec.ann[k]
		}
		recs = append(recs, rec)
		parts = append(parts, rec.id+"|"+hx([]byte(rec.seq))+"|"+strings.Join(kv, ";"))
	}
	return recs, fmt.Sprintf("ok %d ## %s", len(rs), strings.Join(parts, " ## "))
}

func c12HitList(p obiapat.ApatPattern, aseq obiapat.ApatSequence, begin int) (string, [][3]int) {
	locs := p.AllMatches(aseq, begin, -1)
	var b strings.Builder
	fmt.Fprintf(&b, " %d", len(locs))
	for _, l := range locs {
		fmt.Fprintf(&b, " %d %d %d", l[0], l[1], l[2])
	}
	return b.String(), locs
}

// c12GateTie: the model `gate` of the symmetry theorems (the hits of the complemented partner that START after the first hit
// of the primer = the hits of the WHOLE read filtered by position) against the real call AllMatches(aseq, begin, -1).
// *gate = filter* is NOT a property of the matcher: AllMatches goes through FilterBestMatch, which keeps one representative per
// chain of overlapping raw hits, and the chains seen from `begin` are not the chains seen from 0 when a raw hit further left
// overlaps the first ones (Lemmas/DemuxGate.lean: gate_is_not_filter_with_overlaps).  It holds when the raw hits of the pattern
// are pairwise non-overlapping in FilterBestMatch's sense (gate_is_filter_of_separated) and the raw search from `begin` is the
// filter of the raw search from 0 (mismatch-only patterns; with indels an alignment of the truncated read may start at `begin`
// where the whole read has a longer one starting before).  None of this is a clause of C12 and the model of demultiplexing takes
// the hit lists of the REAL gated calls as data: the classes are COUNTED (statistics), never reported as failures.
func c12GateTie(p obiapat.ApatPattern, aseq obiapat.ApatSequence, begin int, gated [][3]int, indels bool, bad *string) {
	var want [][3]int
	for _, l := range p.AllMatches(aseq, 0, -1) {
		if l[0] >= begin {
			want = append(want, l)
		}
	}
	if fmt.Sprint(want) == fmt.Sprint(gated) {
		stat("demux.gate-is-filter")
		return
	}
	if indels {
		stat("demux.gate-differs-indel-pattern")
		return
	}
	raw := p.FindAllIndex(aseq, 0, -1)
	separated := true
	for i := range raw {
		for j := i + 1; j < len(raw); j++ {
			if !(raw[i][1]+raw[i][2] <= raw[j][0]-raw[j][2]) {
				separated = false
			}
		}
	}
	var rawWant [][3]int
	for _, l := range raw {
		if l[0] >= begin {
			rawWant = append(rawWant, l)
		}
	}
	rawGate := fmt.Sprint(rawWant) == fmt.Sprint(p.FindAllIndex(aseq, begin, -1))
	switch {
	case !separated && rawGate:
		stat("demux.gate-is-not-filter.overlapping-raw-hits") // the class of gate_is_not_filter_with_overlaps
	case !rawGate:
		stat("demux.gate-is-not-filter.raw-search-not-a-filter") // the matcher itself (C10), mismatch-only pattern
	default:
		stat("demux.gate-is-not-filter.UNEXPLAINED-separated-raw-hits") // would contradict gate_is_filter_of_separated
	}
	_ = bad
}

func (c12) execDemux(f []string) (string, []Fail) {
	c, ok := c12Parse(f)
	if !ok {
		return "bad-op", nil
	}
	c.sortMarkers()
	var fails []Fail
	sheet := c12Sheet(c)
	var lib *obingslibrary.NGSLibrary
	var worker obiseq.SeqSliceWorker
	// the reads of one library follow each other: the sheet is read (and the worker built) once per run of identical
	// (sheet, options) — every call of ReadNGSFilter registers one more CSV detector in the mimetype tree and slows the next ones
	key := fmt.Sprintf("%d %v\n%s", c.e, c.indel, sheet)
	st := "ok"
	if key == c12LastKey && c12LastLib != nil {
		lib, worker = c12LastLib, c12LastWorker
		stat("demux.sheet-reused")
	} else {
		st = guardT(10*time.Second, func() string {
			l, err := obiformats.ReadNGSFilter(strings.NewReader(sheet))
			if err != nil {
				return "sheet-error"
			}
			lib = l
			worker = lib.ExtractMultiBarcodeSliceWorker(
				obingslibrary.OptionAllowedMismatches(c.e),
				obingslibrary.OptionAllowedIndel(c.indel))
			return "ok"
		})
		c12LastKey, c12LastLib, c12LastWorker = "", nil, nil
		if st == "ok" {
			c12LastKey, c12LastLib, c12LastWorker = key, lib, worker
		}
	}
	if st != "ok" {
		if st == "sheet-error" {
			stat("demux.sheet-error")
		}
		caseOverride = c.line() + " hits" + strings.Repeat(" 0 0 0 0", len(c.markers))
		return st, nil
	}

	// the sheet as read: every declared marker / sample must be there with the declared parameters
	mks := make([]*obingslibrary.Marker, len(c.markers))
	for i, m := range c.markers {
		mk, ok := lib.Markers[obingslibrary.PrimerPair{Forward: m.fp, Reverse: m.rp}]
		if !ok {
			return "bad-op", []Fail{{"sheet.marker", "declared marker missing from the library read by ReadNGSFilter: " + m.fp + "," + m.rp}}
		}
		mks[i] = mk
		got := fmt.Sprintf("%d %d %d %d %d %d %s %s", mk.Forward_spacer, mk.Reverse_spacer, mk.Forward_tag_delimiter, mk.Reverse_tag_delimiter,
			mk.Forward_tag_indels, mk.Reverse_tag_indels, mk.Forward_matching, mk.Reverse_matching)
		mode := map[string]string{"s": "strict", "h": "hamming", "i": "indel"}[m.mode]
		want := fmt.Sprintf("%d %d %d %d %d %d %s %s", m.fsp, m.rsp, m.fdl, m.rdl, m.fin, m.rin, mode, mode)
		if got != want {
			fails = append(fails, Fail{"sheet.params", fmt.Sprintf("marker %s,%s: parameters read %q, declared %q", m.fp, m.rp, got, want)})
		}
		ferr, rerr, fpi, rpi := m.ferr, m.rerr, m.fpi, m.rpi
		if c.e > 0 {
			ferr, rerr = c.e, c.e
		}
		if c.indel {
			fpi, rpi = true, true
		}
		if mk.Forward_error != ferr || mk.Reverse_error != rerr || mk.Forward_allows_indels != fpi || mk.Reverse_allows_indels != rpi {
			fails = append(fails, Fail{"sheet.primer-params", fmt.Sprintf("marker %s,%s: primer errors/indels read %d %d %v %v, declared %d %d %v %v", m.fp, m.rp,
				mk.Forward_error, mk.Reverse_error, mk.Forward_allows_indels, mk.Reverse_allows_indels, ferr, rerr, fpi, rpi)})
		}
		smp := mk.VerifSamples()
		if len(smp) != len(m.samples) {
			fails = append(fails, Fail{"sheet.samples", fmt.Sprintf("marker %s,%s: %d tag pairs read, %d declared", m.fp, m.rp, len(smp), len(m.samples))})
		}
		for _, s := range m.samples {
			pcr, ok := smp[obingslibrary.TagPair{Forward: s.ftag, Reverse: s.rtag}]
			if !ok || pcr.Sample != s.name || pcr.Experiment != s.exp {
				fails = append(fails, Fail{"sheet.samples", fmt.Sprintf("marker %s,%s: tag pair (%s:%s) not read as sample %s", m.fp, m.rp, s.ftag, s.rtag, s.name)})
			}
		}
	}
	if len(lib.Markers) != len(c.markers) {
		fails = append(fails, Fail{"sheet.marker", fmt.Sprintf("%d markers read, %d declared", len(lib.Markers), len(c.markers))})
	}

	// primer hits of the real matcher, with the calls of ExtractMultiBarcode
	built := map[string]bool{} // the primer instances the generator put in the read
	for _, e := range c.exps {
		built[e.fmatch], built[e.rmatch] = true, true
	}
	delete(built, "")
	foreign := false // a hit that is not a built primer instance
	hits := " hits"
	gateBad := ""
	nhits := 0 // hits of the four patterns of every marker over the whole read (both strands): every built site gives one
	hst := guardT(10*time.Second, func() string {
		seq := obiseq.NewBioSequence(c.id, append([]byte{}, c.seq...), "")
		aseq, err := obiapat.MakeApatSequence(seq, false)
		if err != nil {
			return "fatal"
		}
		for _, mk := range mks {
			pf, pcf, pr, pcr := mk.VerifPatterns()
			s, locs := c12HitList(pf, aseq, 0)
			hits += s
			begin := 0
			if len(locs) > 0 {
				begin = locs[0][0] + 1
			}
			s, gated := c12HitList(pcr, aseq, begin)
			hits += s
			c12GateTie(pcr, aseq, begin, gated, mk.Forward_allows_indels || mk.Reverse_allows_indels, &gateBad)
			s, locs = c12HitList(pr, aseq, 0)
			hits += s
			begin = 0
			if len(locs) > 0 {
				begin = locs[0][0] + 1
			}
			s, gated = c12HitList(pcf, aseq, begin)
			hits += s
			c12GateTie(pcf, aseq, begin, gated, mk.Forward_allows_indels || mk.Reverse_allows_indels, &gateBad)
			for k, pat := range []obiapat.ApatPattern{pf, pcf, pr, pcr} {
				for _, l := range pat.AllMatches(aseq, 0, -1) {
					nhits++
					if l[0] < 0 || l[1] > len(c.seq) || l[0] > l[1] {
						foreign = true
						continue
					}
					w := string(c.seq[l[0]:l[1]])
					if k == 1 || k == 3 {
						w = c12Rc(w)
					}
					if !built[w] {
						foreign = true
					}
				}
			}
		}
		return "ok"
	})
	if hst != "ok" {
		hits = " hits" + strings.Repeat(" 0 0 0 0", len(c.markers))
	}
	caseOverride = c.line() + hits
	_ = gateBad // the gate classes are statistics (c12GateTie): `gate = filter` is not a property of the matcher, nor a clause of C12

	run := func(seq []byte, viaWorker bool) (recs []c12Rec, res string) {
		res = guardT(10*time.Second, func() string {
			s := obiseq.NewBioSequence(c.id, append([]byte{}, seq...), "")
			var out obiseq.BioSequenceSlice
			var err error
			if viaWorker {
				out, err = worker(obiseq.BioSequenceSlice{s})
			} else {
				out, err = lib.ExtractMultiBarcode(s)
			}
			if err != nil {
				return "error"
			}
			var r string
			recs, r = c12Render(out)
			return r
		})
		return
	}
	recs, res := run(c.seq, true)
	if hst != "ok" && res != hst {
		fails = append(fails, Fail{"demux.hits", "primer hits could not be computed: " + hst})
	}

	// determinism: the result must not depend on the iteration order of Go maps
	for k := 0; k < 4; k++ {
		_, r2 := run(c.seq, false)
		if r2 != res {
			fails = append(fails, Fail{"demux.nondeterministic", "two runs on the same read differ: " + res + "  VERSUS  " + r2})
			stat("demux.nondeterministic")
			break
		}
	}
	if !strings.HasPrefix(res, "ok ") {
		stat("demux.abort." + res)
		fails = append(fails, Fail{"demux.abort." + res, "ExtractMultiBarcode aborted (" + res + ") on a sheet accepted by ReadNGSFilter"})
		return res, fails
	}

	// safety: never a sample unless the extracted tags identify it under the declared mode; else an error flag
	find := func(fp, rp string) *c12Marker {
		for i := range c.markers {
			if c.markers[i].fp == fp && c.markers[i].rp == rp {
				return &c.markers[i]
			}
		}
		return nil
	}
	for _, r := range recs {
		smp, has := r.ann["sample"]
		_, flagged := r.ann["obimultiplex_error"]
		if !has {
			if !flagged {
				fails = append(fails, Fail{"safety.unflagged", "record " + r.id + " has neither a sample nor an error annotation"})
			}
			continue
		}
		stat("demux.assigned")
		if flagged {
			fails = append(fails, Fail{"safety.both", "record " + r.id + " has a sample and an error annotation"})
		}
		m := find(r.ann["obimultiplex_forward_primer"], r.ann["obimultiplex_reverse_primer"])
		if m == nil {
			fails = append(fails, Fail{"safety.marker", "record " + r.id + " assigned with undeclared primers"})
			continue
		}
		want, why := c12RefIdent(*m, r.ann["obimultiplex_forward_tag"], r.ann["obimultiplex_reverse_tag"])
		if want == "" || want != smp {
			fails = append(fails, Fail{"safety.wrong-sample." + m.mode, fmt.Sprintf("record %s assigned to sample %q but its tags (%s:%s) identify %q %s",
				r.id, smp, r.ann["obimultiplex_forward_tag"], r.ann["obimultiplex_reverse_tag"], want, why)})
		}
	}

	// expectation of the generator + strand symmetry
	if strings.HasPrefix(c.cls, "c") {
		n, _ := strconv.Atoi(c.cls[1:])
		if n != nhits || foreign {
			stat("demux.accidental-hits")
		} else {
			stat("demux.expectation-checked")
			// reads containing lone priming sites are reported under their own signatures
			part := ""
			for _, e := range c.exps {
				if e.dir == "x" {
					part = "-partial"
				}
			}
			fails = append(fails, c12Check(c, recs, "built"+part, false)...)
			rseq := []byte(c12Rc(string(c.seq)))
			// on the other strand too the matcher must report the built primer instances only (among overlapping
			// alignments of the same cost it keeps the leftmost one, which is not the same on both strands)
			rforeign := false
			guardT(10*time.Second, func() string {
				s := obiseq.NewBioSequence(c.id, append([]byte{}, rseq...), "")
				aseq, err := obiapat.MakeApatSequence(s, false)
				if err != nil {
					rforeign = true
					return ""
				}
				for _, mk := range mks {
					pf, pcf, pr, pcr := mk.VerifPatterns()
					for k, pat := range []obiapat.ApatPattern{pf, pcf, pr, pcr} {
						for _, l := range pat.AllMatches(aseq, 0, -1) {
							if l[0] < 0 || l[1] > len(rseq) || l[0] > l[1] {
								rforeign = true
								continue
							}
							w := string(rseq[l[0]:l[1]])
							if k == 1 || k == 3 {
								w = c12Rc(w)
							}
							if !built[w] {
								rforeign = true
							}
						}
					}
				}
				return ""
			})
			if rforeign {
				stat("demux.accidental-hits-rc")
			} else {
				rrecs, rres := run(rseq, true)
				if !strings.HasPrefix(rres, "ok ") {
					fails = append(fails, Fail{"symmetry" + part + ".abort", "reverse-complemented read: " + rres})
				} else {
					fails = append(fails, c12Check(c, rrecs, "symmetry"+part, true)...)
				}
			}
		}
	} else {
		stat("demux.free")
	}
	if len(recs) > 1 {
		stat("demux.chimera-out")
	}
	return res, fails
}

// c12Check compares the records with the generator's intent (flipped: the read was reverse-complemented, the amplicons
// come out in the opposite order with the opposite direction)
func c12Check(c *c12Case, recs []c12Rec, sig string, flipped bool) (fails []Fail) {
	var exps []c12Exp
	for _, e := range c.exps {
		if e.dir != "x" {
			exps = append(exps, e)
		}
	}
	if flipped {
		for i, j := 0, len(exps)-1; i < j; i, j = i+1, j-1 {
			exps[i], exps[j] = exps[j], exps[i]
		}
	}
	if len(exps) == 0 {
		if len(recs) != 1 || recs[0].ann["obimultiplex_error"] != "No barcode identified" || recs[0].ann["sample"] != "" {
			fails = append(fails, Fail{sig + ".none", "no complete amplicon was built, expected the read flagged 'No barcode identified'"})
		}
		return
	}
	if len(recs) != len(exps) {
		return []Fail{{sig + ".count", fmt.Sprintf("%d amplicons built, %d records returned", len(exps), len(recs))}}
	}
	for i, e := range exps {
		r := recs[i]
		m := c.markers[e.mk]
		dir := map[string]string{"f": "forward", "r": "reverse"}[e.dir]
		if flipped {
			dir = map[string]string{"f": "reverse", "r": "forward"}[e.dir]
		}
		chk := func(what, got, want string) {
			if got != want {
				fails = append(fails, Fail{sig + "." + what, fmt.Sprintf("amplicon %d: %s is %q, expected %q", i+1, what, got, want)})
			}
		}
		chk("barcode", r.seq, e.barcode)
		chk("direction", r.ann["obimultiplex_direction"], dir)
		chk("primer", r.ann["obimultiplex_forward_primer"]+","+r.ann["obimultiplex_reverse_primer"], m.fp+","+m.rp)
		chk("match", r.ann["obimultiplex_forward_match"]+","+r.ann["obimultiplex_reverse_match"], e.fmatch+","+e.rmatch)
		chk("error-count", r.ann["obimultiplex_forward_error"]+","+r.ann["obimultiplex_reverse_error"], fmt.Sprintf("%d,%d", e.ferr, e.rerr))
		chk("tags", r.ann["obimultiplex_forward_tag"]+":"+r.ann["obimultiplex_reverse_tag"], e.ftag+":"+e.rtag)
		chk("sample", r.ann["sample"], e.sample)
		chk("rank", r.ann["obimultiplex_amplicon_rank"], fmt.Sprintf("%d/%d", i+1, len(exps)))
		if e.sample == "" && r.ann["obimultiplex_error"] == "" {
			fails = append(fails, Fail{sig + ".unflagged", fmt.Sprintf("amplicon %d: no sample expected, and no error annotation", i+1)})
		}
	}
	return
}

// The mimetype tree is process-global and BOTH guessers of obiformats extend it, in front, at every call: the reader chosen by
// ReadNGSFilter depends on whether a sequence file was opened before in the process (OBIMimeTypeGuesser attaches FASTA / FASTQ /
// EMBL / GenBank / ecoPCR and a csv detector to the ROOT, where they are asked even for "binary" data).  obimultiplex opens
// its input before it reads the sample sheet: the harness pins that state once, so that every case — also a single replayed
// one — sees the sheet as the command does (Model/NgsFilterBytes.lean whichReader).
var c12PinMime sync.Once

func (p c12) Exec(cl string) (string, []Fail) {
	c12PinMime.Do(func() {
		guardT(10*time.Second, func() string {
			obiformats.OBIMimeTypeGuesser(strings.NewReader(">s\nacgt\n"))
			return ""
		})
	})
	f := strings.Fields(cl)
	if len(f) == 0 {
		return "bad-op", nil
	}
	switch f[0] {
	case "ham", "lev":
		if len(f) != 3 {
			return "bad-op", nil
		}
		a, ok1 := unhx(f[1])
		b, ok2 := unhx(f[2])
		if !ok1 || !ok2 {
			return "bad-op", nil
		}
		var got, want int
		res := guardT(5*time.Second, func() string {
			if f[0] == "ham" {
				got, want = obingslibrary.Hamming(string(a), string(b)), c12RefHamming(string(a), string(b))
			} else {
				got, want = obingslibrary.Levenshtein(string(a), string(b)), c12RefLev(string(a), string(b))
			}
			return strconv.Itoa(got)
		})
		if res == strconv.Itoa(got) && got != want {
			return res, []Fail{{f[0] + ".value", fmt.Sprintf("distance %d, reference %d", got, want)}}
		}
		return res, nil
	case "look":
		if len(f) != 3 {
			return "bad-op", nil
		}
		s, ok := unhx(f[1])
		d, err := strconv.Atoi(f[2])
		if !ok || err != nil || d < 0 || d > 255 {
			return "bad-op", nil
		}
		return guardT(5*time.Second, func() string { return hx([]byte(obingslibrary.VerifLookForTag(string(s), byte(d)))) }), nil
	case "rescue":
		if len(f) != 6 {
			return "bad-op", nil
		}
		s, ok := unhx(f[1])
		var v [4]int
		for i := 0; i < 4; i++ {
			x, err := strconv.Atoi(f[2+i])
			if err != nil {
				return "bad-op", nil
			}
			v[i] = x
		}
		if !ok || v[0] < 0 || v[0] > 255 {
			return "bad-op", nil
		}
		return guardT(5*time.Second, func() string {
			return "ok " + hx([]byte(obingslibrary.VerifLookForRescueTag(string(s), byte(v[0]), v[1], v[2], v[3])))
		}), nil
	case "demux":
		return p.execDemux(f[1:])
	case "sheet":
		return p.execSheet(f[1:])
	case "multi":
		return p.execMulti(f[1:])
	case "sheetb":
		return p.execSheetB(f[1:])
	case "wk":
		return p.execWk(f[1:])
	case "conc":
		return p.execConc(f[1:], false)
	case "race":
		if len(f) > 1 && f[1] == "conc" {
			return p.execConc(f[2:], true)
		}
	}
	return "bad-op", nil
}

// ------------------------------------------------------------------------------------------------
// the sample sheet as read by ReadNGSFilter, compared with the model of the reader (Model/NgsFilter.lean)
// ------------------------------------------------------------------------------------------------

// sheet c <style> <nrec> nrec × [ <nf> nf × <field> ]     CSV records (fields in hex); style: 1 leading blanks before some
//                                                          fields, 2 comment / blank lines, 4 CRLF, 8 no final newline
// sheet o <nlines> nlines × <line>                         the lines of an old-format sheet
func c12SheetText(f []string) (string, bool) {
	p := &c12Toks{t: f}
	var b strings.Builder
	switch p.next() {
	case "c":
		style := p.int()
		n := p.int()
		if p.bad || n < 0 || n > 200 {
			return "", false
		}
		nl := "\n"
		if style&4 != 0 {
			nl = "\r\n"
		}
		for i := 0; i < n; i++ {
			nf := p.int()
			if p.bad || nf < 1 || nf > 40 {
				return "", false
			}
			if style&2 != 0 && i%2 == 1 {
				b.WriteString("# a comment, with a comma" + nl + nl)
			}
			for j := 0; j < nf; j++ {
				fld := p.hex()
				if strings.ContainsAny(fld, ",\"\r\n") || strings.HasPrefix(fld, " ") || (j == 0 && (strings.HasPrefix(fld, "#") || (nf == 1 && fld == ""))) {
					return "", false
				}
				if j > 0 {
					b.WriteString(",")
					if style&1 != 0 && (i+j)%3 == 0 {
						b.WriteString("  ")
					}
				}
				b.WriteString(fld)
			}
			if i+1 < n || style&8 == 0 {
				b.WriteString(nl)
			}
		}
	case "o":
		n := p.int()
		if p.bad || n < 0 || n > 200 {
			return "", false
		}
		for i := 0; i < n; i++ {
			l := p.hex()
			if strings.ContainsAny(l, "\r\n") {
				return "", false
			}
			b.WriteString(l + "\n")
		}
	default:
		return "", false
	}
	if p.bad || len(p.t) != 0 {
		return "", false
	}
	return b.String(), true
}

func c12Dump(lib *obingslibrary.NGSLibrary) string {
	var ms []string
	for pp, mk := range lib.Markers {
		var smp []string
		for tp, pcr := range mk.VerifSamples() {
			var an []string
			for k, v := range pcr.Annotations {
				an = append(an, c12h(k)+"="+c12h(fmt.Sprint(v)))
			}
			sort.Strings(an)
			smp = append(smp, c12h(tp.Forward)+":"+c12h(tp.Reverse)+"="+c12h(pcr.Sample)+"/"+c12h(pcr.Experiment)+"["+strings.Join(an, ",")+"]")
		}
		sort.Strings(smp)
		head := fmt.Sprintf("%s %s %d %d %d %d %d %d %s %s %d %d %d %d %d %d %d", c12h(pp.Forward), c12h(pp.Reverse), mk.Forward_spacer, mk.Reverse_spacer,
			mk.Forward_tag_delimiter, mk.Reverse_tag_delimiter, mk.Forward_tag_indels, mk.Reverse_tag_indels, mk.Forward_matching, mk.Reverse_matching,
			mk.Forward_error, mk.Reverse_error, c12b(mk.Forward_allows_indels), c12b(mk.Reverse_allows_indels), mk.Forward_tag_length, mk.Reverse_tag_length, len(smp))
		ms = append(ms, strings.Join(append([]string{head}, smp...), " "))
	}
	sort.Strings(ms)
	var b strings.Builder
	fmt.Fprintf(&b, "ok %d", len(ms))
	for _, m := range ms {
		b.WriteString(" ## " + m)
	}
	return b.String()
}

func (c12) execSheet(f []string) (string, []Fail) {
	text, ok := c12SheetText(f)
	if !ok {
		return "bad-op", nil
	}
	run := func() string {
		return guardT(10*time.Second, func() string {
			lib, err := obiformats.ReadNGSFilter(strings.NewReader(text))
			if err != nil {
				return "sheet-error"
			}
			return c12Dump(lib)
		})
	}
	res := run()
	stat("sheet." + f[0] + "." + strings.SplitN(res, " ", 2)[0])
	var fails []Fail
	// the result must not depend on the iteration order of the Go maps of the library
	for k := 0; k < 1; k++ {
		if r2 := run(); r2 != res {
			fails = append(fails, Fail{"sheet.nondeterministic", "two readings of the same sheet differ: " + res + "  VERSUS  " + r2})
			break
		}
	}
	return res, fails
}

// ------------------------------------------------------------------------------------------------
// generators
// ------------------------------------------------------------------------------------------------

func c12Rand(rng *rand.Rand, n int, alpha string) string {
	b := make([]byte, n)
	for i := range b {
		b[i] = alpha[rng.Intn(len(alpha))]
	}
	return string(b)
}

var c12Iupac = map[byte]string{'a': "a", 'c': "c", 'g': "g", 't': "t", 'r': "ag", 'y': "ct", 'm': "ac", 'k': "gt", 's': "cg", 'w': "at",
	'b': "cgt", 'd': "agt", 'h': "act", 'v': "acg", 'n': "acgt"}

// an instance of a primer with exactly nmis mismatching positions (chosen among the a/c/g/t positions of the primer)
func c12Instance(rng *rand.Rand, primer string, nmis int) (string, int) {
	b := make([]byte, len(primer))
	var plain []int
	for i := 0; i < len(primer); i++ {
		set := c12Iupac[primer[i]]
		b[i] = set[rng.Intn(len(set))]
		if len(set) == 1 {
			plain = append(plain, i)
		}
	}
	rng.Shuffle(len(plain), func(i, j int) { plain[i], plain[j] = plain[j], plain[i] })
	if nmis > len(plain) {
		nmis = len(plain)
	}
	for _, p := range plain[:nmis] {
		for {
			x := "acgt"[rng.Intn(4)]
			if x != primer[p] {
				b[p] = x
				break
			}
		}
	}
	return string(b), nmis
}

func c12Mutate(rng *rand.Rand, s string, alpha string, indel bool) string {
	if len(s) == 0 {
		return s
	}
	b := []byte(s)
	p := rng.Intn(len(b))
	switch {
	case indel && rng.Intn(3) == 0:
		b = append(b[:p], b[p+1:]...)
	case indel && rng.Intn(2) == 0:
		b = append(b[:p], append([]byte{alpha[rng.Intn(len(alpha))]}, b[p:]...)...)
	default:
		for {
			x := alpha[rng.Intn(len(alpha))]
			if x != b[p] {
				b[p] = x
				break
			}
		}
	}
	return string(b)
}

func c12Without(alpha string, d byte) string {
	if d == 0 {
		return alpha
	}
	return strings.ReplaceAll(alpha, string([]byte{d}), "")
}

// a random library
func c12Library(rng *rand.Rand) *c12Case {
	c := &c12Case{format: "c", style: rng.Intn(64), e: -1, id: "read1"}
	if rng.Intn(4) == 0 {
		c.e = []int{0, 1, 3, 4}[rng.Intn(4)]
	}
	c.indel = rng.Intn(12) == 0
	k := 1 + rng.Intn(3)
	mode := "s"
	switch rng.Intn(5) {
	case 0, 1:
		mode = "h"
	case 2:
		mode = "i"
	}
	plain := rng.Intn(3) == 0 // default parameters only: both formats possible
	uniform := rng.Intn(2) == 0
	extra := rng.Intn(3) == 0
	var proto c12Marker
	for i := 0; i < k; i++ {
		var m c12Marker
		alpha := "acgt"
		if rng.Intn(5) == 0 {
			alpha = "acgtacgtacgtacgtrymkswbdhvn"
		}
		m.fp = c12Rand(rng, 16+rng.Intn(9), alpha)
		m.rp = c12Rand(rng, 16+rng.Intn(9), alpha)
		m.mode, m.ferr, m.rerr = mode, 2, 2
		if !plain {
			if i > 0 && uniform {
				p := proto
				p.fp, p.rp, p.samples = m.fp, m.rp, nil
				m = p
			} else {
				m.fsp, m.rsp = rng.Intn(4), rng.Intn(4)
				if rng.Intn(3) == 0 {
					m.rsp = m.fsp
				}
				if rng.Intn(4) == 0 {
					m.fdl = "acgt"[rng.Intn(4)]
					m.rdl = m.fdl
					if rng.Intn(3) == 0 {
						m.rdl = "acgt"[rng.Intn(4)]
					}
					if rng.Intn(4) == 0 {
						m.rdl = 0
					}
					if rng.Intn(2) == 0 {
						m.fin, m.rin = 1+rng.Intn(2), 1+rng.Intn(2)
					}
					if m.fsp == 0 {
						m.fsp = 1
					}
					if m.rsp == 0 {
						m.rsp = 1
					}
				}
				m.ferr, m.rerr = rng.Intn(4), rng.Intn(4)
				if rng.Intn(2) == 0 {
					m.rerr = m.ferr
				}
				if rng.Intn(10) == 0 {
					m.fpi = true
					m.rpi = rng.Intn(2) == 0
				}
			}
			proto = m
		}
		// tags: common lengths per side, 0 = untagged side
		fl, rl := 0, 0
		if rng.Intn(6) != 0 {
			fl = 3 + rng.Intn(7)
		}
		if rng.Intn(6) != 0 {
			rl = 3 + rng.Intn(7)
			if rng.Intn(2) == 0 && fl > 0 {
				rl = fl
			}
		}
		ns := 1 + rng.Intn(6)
		if fl == 0 && rl == 0 {
			ns = 1
		}
		fa, ra := c12Without("acgt", m.fdl), c12Without("acgt", m.rdl)
		seen := map[string]bool{}
		var ftags, rtags []string
		for j := 0; j < 3; j++ {
			ftags = append(ftags, c12Rand(rng, fl, fa))
			rtags = append(rtags, c12Rand(rng, rl, ra))
		}
		for j := 0; j < ns; j++ {
			s := c12Sample{name: fmt.Sprintf("s%d_%d", i, j), exp: fmt.Sprintf("exp%d", rng.Intn(2))}
			// either fresh tags or a combination of already used ones (same forward tag with several reverse tags)
			if rng.Intn(2) == 0 {
				s.ftag, s.rtag = ftags[rng.Intn(3)], rtags[rng.Intn(3)]
			} else {
				s.ftag, s.rtag = c12Rand(rng, fl, fa), c12Rand(rng, rl, ra)
				if rng.Intn(3) == 0 && fl > 0 {
					s.ftag = c12Mutate(rng, ftags[0], fa, false) // a close neighbour
				}
			}
			if seen[s.ftag+":"+s.rtag] {
				continue
			}
			seen[s.ftag+":"+s.rtag] = true
			if extra {
				s.extra = "v" + c12Rand(rng, 3, "xyzq")
			}
			m.samples = append(m.samples, s)
		}
		c.markers = append(c.markers, m)
	}
	if plain && rng.Intn(3) != 0 {
		c.format = "o"
		if mode != "s" {
			for i := range c.markers {
				c.markers[i].mode = "s"
			}
		}
	}
	return c
}

type c12Built struct {
	lone  *c12Exp // a lone priming site within budget (dir "x"): only its primer instance is recorded
	text  string
	exp   *c12Exp // nil: no complete amplicon within budget
	sites int     // primer sites within budget
	kinds string  // the sites in read order: F forward primer, c complemented reverse primer (R / C once reverse-complemented)
}

// one amplicon built from a declared sample
func c12Amplicon(rng *rand.Rand, c *c12Case, mi int, class int) c12Built {
	m := c.markers[mi]
	s := m.samples[rng.Intn(len(m.samples))]
	fbud, rbud := m.ferr, m.rerr
	if c.e > 0 {
		fbud, rbud = c.e, c.e
	}
	nf, nr := 0, 0
	if class != 0 || rng.Intn(2) == 0 {
		nf, nr = rng.Intn(fbud+1), rng.Intn(rbud+1)
	}
	dropF, dropR := false, false
	ftag, rtag := s.ftag, s.rtag
	switch class {
	case 2: // a primer beyond its budget
		if rng.Intn(2) == 0 {
			nf = fbud + 1 + rng.Intn(2)
		} else {
			nr = rbud + 1 + rng.Intn(2)
		}
	case 3: // a missing priming site
		if rng.Intn(2) == 0 {
			dropF = true
		} else {
			dropR = true
		}
	case 4: // tag errors
		// a tie: another sample declares a forward tag one substitution away; the observed tag takes a third base there
		if rng.Intn(3) == 0 {
			for _, s2 := range m.samples {
				if len(s2.ftag) == len(ftag) && c12RefHamming(s2.ftag, ftag) == 1 {
					b := []byte(ftag)
					for p := range b {
						if b[p] != s2.ftag[p] {
							for _, x := range []byte("acgt") {
								if x != b[p] && x != s2.ftag[p] && x != m.fdl {
									b[p] = x
									break
								}
							}
						}
					}
					ftag = string(b)
					stat("demux.tie-built")
					break
				}
			}
		}
		indel := m.mode == "i" && rng.Intn(2) == 0
		if rng.Intn(3) != 0 {
			ftag = c12Mutate(rng, ftag, c12Without("acgt", m.fdl), indel && m.fdl != 0)
		}
		if rng.Intn(3) != 0 {
			rtag = c12Mutate(rng, rtag, c12Without("acgt", m.rdl), indel && m.rdl != 0)
		}
		if rng.Intn(4) == 0 {
			ftag = c12Mutate(rng, ftag, c12Without("acgt", m.fdl), false)
		}
	}
	pf, nf := c12Instance(rng, m.fp, nf)
	pr, nr := c12Instance(rng, m.rp, nr)
	bc := c12Rand(rng, 1+rng.Intn(60), "acgt")
	side := func(tag string, sp int, dl byte) string {
		if len(tag) == 0 && dl == 0 {
			return c12Rand(rng, sp, "acgt")
		}
		if dl == 0 {
			return tag + c12Rand(rng, sp, "acgt")
		}
		d := string([]byte{dl})
		return strings.Repeat(d, sp) + tag + strings.Repeat(d, sp)
	}
	left := side(ftag, m.fsp, m.fdl) + pf
	right := side(rtag, m.rsp, m.rdl) + pr
	if dropF {
		left = side(ftag, m.fsp, m.fdl)
	}
	if dropR {
		right = side(rtag, m.rsp, m.rdl)
	}
	text := left + bc + c12Rc(right)
	b := c12Built{text: text}
	okF, okR := !dropF && nf <= fbud, !dropR && nr <= rbud
	if okF {
		b.sites++
		b.kinds += "F"
	}
	if okR {
		b.sites++
		b.kinds += "c"
	}
	if okF != okR {
		b.lone = &c12Exp{dir: "x", mk: mi}
		if okF {
			b.lone.fmatch = pf
		} else {
			b.lone.rmatch = pr
		}
	}
	if okF && okR {
		oft, ort := ftag, rtag
		if len(s.ftag) == 0 {
			oft = ""
		}
		if len(s.rtag) == 0 {
			ort = ""
		}
		want, _ := c12RefIdent(m, oft, ort)
		b.exp = &c12Exp{barcode: bc, dir: "f", mk: mi, sample: want, ftag: oft, rtag: ort, fmatch: pf, rmatch: pr, ferr: nf, rerr: nr}
	}
	return b
}

type c12Site struct {
	mk   int
	kind rune
}

func c12Read(rng *rand.Rand, c *c12Case) {
	namp := 1
	switch rng.Intn(10) {
	case 0:
		namp = 2
	case 1:
		namp = 3
	}
	var sb strings.Builder
	lflank, rflank := rng.Intn(25), rng.Intn(25)
	if rng.Intn(6) == 0 { // the outermost tag touches the read end
		lflank = 0
		stat("demux.no-left-flank")
	}
	if rng.Intn(6) == 0 {
		rflank = 0
		stat("demux.no-right-flank")
	}
	sb.WriteString(c12Rand(rng, lflank, "acgt"))
	sites := 0
	expect := true
	c.exps = nil
	var allSites []c12Site
	for a := 0; a < namp; a++ {
		mi := rng.Intn(len(c.markers))
		m := c.markers[mi]
		class := 0
		switch x := rng.Intn(20); {
		case x < 8:
			class = 0 // exact or within budget
		case x < 11:
			class = 1
		case x < 13:
			class = 2
		case x < 15:
			class = 3
		default:
			class = 4
		}
		b := c12Amplicon(rng, c, mi, class)
		// expectations are stated for fixed-length or delimited tags (theorem constructed_read_any_tags) and mismatch-only
		// primer matching; not for the rescue extractors (delimiter + tag indels)
		if (m.fdl != 0 && m.fin != 0) || (m.rdl != 0 && m.rin != 0) || m.fpi || m.rpi || c.indel {
			expect = false
		}
		if m.fdl != 0 || m.rdl != 0 {
			stat("demux.delimited-marker")
		}
		text := b.text
		kinds := b.kinds
		if rng.Intn(2) == 0 {
			text = c12Rc(text)
			if b.exp != nil {
				b.exp.dir = "r"
			}
			kinds = map[string]string{"": "", "F": "C", "c": "R", "Fc": "RC"}[b.kinds]
		}
		// a lone site followed by the matching complementary lone site of another amplicon of the same marker delimits a
		// barcode nobody built: no expectation then
		for _, k := range kinds {
			if len(allSites) > 0 && !(len(kinds) == 2 && k == rune(kinds[1])) {
				last := allSites[len(allSites)-1]
				if last.mk == mi && ((last.kind == 'F' && k == 'c') || (last.kind == 'R' && k == 'C')) {
					expect = false
				}
			}
			allSites = append(allSites, c12Site{mi, k})
		}
		sb.WriteString(text)
		sites += b.sites
		if b.exp != nil {
			c.exps = append(c.exps, *b.exp)
		}
		if b.lone != nil {
			c.exps = append(c.exps, *b.lone)
		}
		if a+1 < namp {
			sb.WriteString(c12Rand(rng, rng.Intn(12), "acgt"))
		}
	}
	sb.WriteString(c12Rand(rng, rflank, "acgt"))
	c.seq = []byte(sb.String())
	if rng.Intn(25) == 0 && len(c.seq) > 10 { // truncated read
		c.seq = c.seq[rng.Intn(10) : len(c.seq)-rng.Intn(10)]
		expect = false
	}
	if expect {
		c.cls = fmt.Sprintf("c%d", sites)
	} else {
		c.cls = "free"
		c.exps = nil
	}
}

// ------------------------------------------------------------------------------------------------
// generator of sample sheets for the reader (`sheet` cases)
// ------------------------------------------------------------------------------------------------

func c12Pick(rng *rand.Rand, xs ...string) string { return xs[rng.Intn(len(xs))] }

func c12MaybeUp(rng *rand.Rand, s string) string {
	if rng.Intn(4) == 0 {
		return strings.ToUpper(s)
	}
	return s
}

type c12Row struct{ exp, smp, tags, fp, rp string }

// rows of 1..3 markers; nasty: the row set contains, rarely, a duplicated tag pair, a primer used by two markers, a marker
// with twice the same primer, tags of different lengths
func c12SheetRows(rng *rand.Rand, nasty bool) (rows []c12Row, primers []string) {
	bad := func(n int) bool { return nasty && rng.Intn(n) == 0 }
	k := 1 + rng.Intn(3)
	for i := 0; i < k; i++ {
		fp, rp := c12Rand(rng, 6+rng.Intn(4), "acgt"), c12Rand(rng, 6+rng.Intn(4), "acgt")
		if i > 0 && bad(8) {
			fp = primers[rng.Intn(len(primers))]
		}
		if bad(12) {
			rp = fp
		}
		primers = append(primers, fp, rp)
		lens := []int{0, 2, 3, 4, 5, 6}
		fl, rl := lens[rng.Intn(6)], lens[rng.Intn(6)]
		if rng.Intn(3) == 0 {
			rl = fl
		}
		ns := 1 + rng.Intn(4)
		if fl+rl == 0 && !nasty {
			ns = 1
		}
		for j := 0; j < ns; j++ {
			f, r := c12Rand(rng, fl, "acgt"), c12Rand(rng, rl, "acgt")
			if bad(12) {
				f += "a"
			}
			var tags string
			switch {
			case f == "" && r == "":
				tags = c12Pick(rng, "-:-", "", ":", "-:")
			case f == "":
				tags = "-:" + r
			case r == "":
				tags = f + c12Pick(rng, ":-", ":")
			case fl == rl && rng.Intn(2) == 0: // the short form: the same tag on both sides
				tags = f
			case rng.Intn(20) == 0:
				tags = f + ":" + r + ":" + r
			default:
				tags = f + ":" + r
			}
			if bad(15) {
				tags = "-"
			}
			rows = append(rows, c12Row{fmt.Sprintf("e%d", rng.Intn(2)), fmt.Sprintf("s%d_%d", i, j), c12MaybeUp(rng, tags), c12MaybeUp(rng, fp), c12MaybeUp(rng, rp)})
			if bad(12) {
				rows = append(rows, rows[len(rows)-1])
			}
		}
	}
	rng.Shuffle(len(rows), func(i, j int) { rows[i], rows[j] = rows[j], rows[i] })
	return
}

var c12ParamNames = []string{"spacer", "forward_spacer", "reverse_spacer", "tag_delimiter", "forward_tag_delimiter", "reverse_tag_delimiter",
	"matching", "primer_mismatches", "forward_mismatches", "reverse_mismatches", "tag_indels", "forward_tag_indels", "reverse_tag_indels",
	"indels", "forward_indels", "reverse_indels"}

func c12ParamValue(rng *rand.Rand, name string, nasty bool) string {
	nasty = nasty && rng.Intn(4) == 0
	switch {
	case name == "matching":
		if nasty {
			return c12Pick(rng, "Hamming", "x", "", "strict ")
		}
		return c12Pick(rng, "strict", "hamming", "indel")
	case strings.Contains(name, "delimiter"):
		if nasty {
			return c12Pick(rng, "n", "N", "", "at", "1", "-")
		}
		return c12Pick(rng, "a", "c", "g", "t", "A", "T", "0", "0", "gg")
	case name == "indels" || name == "forward_indels" || name == "reverse_indels":
		if nasty {
			return c12Pick(rng, "TRUE", "yes", "1", "")
		}
		return c12Pick(rng, "true", "false")
	case name == "zzz_unknown":
		return c12Pick(rng, "1", "x", "")
	default:
		if nasty {
			return c12Pick(rng, "x", "3 ", "", "1.5", "1_0", "0x2", "99999999999999999999", "-", "+")
		}
		return c12Pick(rng, "0", "1", "2", "3", "4", "+2", "-1", "007", "12")
	}
}

func c12ParamRecord(rng *rand.Rand, primers []string, nasty bool) []string {
	name := c12ParamNames[rng.Intn(len(c12ParamNames))]
	if rng.Intn(20) == 0 {
		name = c12Pick(rng, "zzz_unknown", "Spacer", "")
	}
	if name == "matching" && !nasty && rng.Intn(2) == 0 { // (a lone bad value is fatal: keep most sheets alive)
		name = "spacer"
	}
	rec := []string{"@param", name}
	family := name == "spacer" || name == "tag_delimiter" || name == "primer_mismatches" || name == "tag_indels" || name == "indels"
	switch x := rng.Intn(40); {
	case x == 0 && nasty: // no value
		if rng.Intn(3) == 0 {
			return []string{"@param"}
		}
		return rec
	case x == 1 && (nasty || name == "tag_indels"): // three values
		return append(rec, c12Pick(rng, primers...), c12ParamValue(rng, name, nasty), c12ParamValue(rng, name, nasty))
	case x < 20 && (family || (nasty && x < 6)): // per-primer form (when nasty: also for the names that do not accept it)
		pr := c12MaybeUp(rng, c12Pick(rng, primers...))
		if rng.Intn(10) == 0 {
			pr = c12Pick(rng, "acgtacgt", "", "nnnn")
		}
		return append(rec, pr, c12ParamValue(rng, name, nasty))
	}
	return append(rec, c12ParamValue(rng, name, nasty))
}

func c12EncodeRecords(style int, recs [][]string) (string, bool) {
	var b strings.Builder
	fmt.Fprintf(&b, "sheet c %d %d", style, len(recs))
	for _, r := range recs {
		fmt.Fprintf(&b, " %d", len(r))
		for j, f := range r {
			if j == 0 && (strings.HasPrefix(f, "#") || (len(r) == 1 && f == "")) {
				return "", false
			}
			b.WriteString(" " + c12h(f))
		}
	}
	return b.String(), true
}

func c12GenCsvSheet(rng *rand.Rand) (string, bool) {
	nastyRows, nastyParams, nastyShape := rng.Intn(5) == 0, rng.Intn(4) == 0, rng.Intn(6) == 0
	rows, primers := c12SheetRows(rng, nastyRows)
	var recs [][]string
	for n := []int{0, 1, 2, 3, 5, 8, 12}[rng.Intn(7)]; n > 0; n-- {
		recs = append(recs, c12ParamRecord(rng, primers, nastyParams))
	}
	cols := []string{"experiment", "sample", "sample_tag", "forward_primer", "reverse_primer"}
	for n := rng.Intn(3); n > 0; n-- {
		cols = append(cols, c12Pick(rng, "note", "site", "note", "Sample", "x"))
	}
	rng.Shuffle(len(cols), func(i, j int) { cols[i], cols[j] = cols[j], cols[i] })
	switch rng.Intn(20) {
	case 0:
		if nastyShape {
			cols = cols[:len(cols)-1] // (possibly) a required column is missing
		}
	case 1:
		cols = append(cols, c12Pick(rng, "sample", "forward_primer", "sample_tag")) // a required column twice: the last one wins
	}
	recs = append(recs, cols)
	if nastyShape && rng.Intn(6) == 0 {
		rows = nil // header only
	}
	for i, r := range rows {
		val := map[string]string{"experiment": r.exp, "sample": r.smp, "sample_tag": r.tags, "forward_primer": r.fp, "reverse_primer": r.rp}
		rec := make([]string, len(cols))
		seen := map[string]int{}
		for j, cn := range cols {
			if v, ok := val[cn]; ok {
				rec[j] = v
				if seen[cn] > 0 { // the second column of the same name carries another value
					rec[j] = v + "x"
				}
				seen[cn]++
			} else {
				rec[j] = c12Pick(rng, "v"+c12Rand(rng, 2, "xyz"), "", "two words", "v"+strconv.Itoa(i))
			}
		}
		if nastyShape {
			switch rng.Intn(15) {
			case 0:
				rec = rec[:len(rec)-1]
			case 1:
				rec = append(rec, "extra")
			case 2:
				recs = append(recs, c12ParamRecord(rng, primers, false)) // an @param line after the header
			}
		}
		recs = append(recs, rec)
	}
	return c12EncodeRecords(rng.Intn(16), recs)
}

func c12GenOldSheet(rng *rand.Rand) string {
	nasty := rng.Intn(4) == 0
	rows, _ := c12SheetRows(rng, nasty && rng.Intn(2) == 0)
	var lines []string
	sep := func() string { return c12Pick(rng, " ", "\t", "  ", " \t ") }
	for _, r := range rows {
		if rng.Intn(6) == 0 {
			lines = append(lines, c12Pick(rng, "# a comment", "", "   ", "#", "\t", "  # indented comment"))
		}
		fl := []string{r.exp, r.smp, r.tags, r.fp, r.rp, c12Pick(rng, "F", "T", "x")}
		if r.tags == "" {
			fl[2] = "-:-"
		}
		if nasty {
			switch rng.Intn(15) {
			case 0:
				fl = fl[:5]
			case 1:
				fl = append(fl, "G")
			}
		}
		var l strings.Builder
		l.WriteString(c12Pick(rng, "", "", " ", "\t"))
		for j, f := range fl {
			if j > 0 {
				l.WriteString(sep())
			}
			l.WriteString(f)
		}
		switch rng.Intn(8) {
		case 0:
			l.WriteString(" @")
		case 1:
			l.WriteString(" @ note=v" + c12Rand(rng, 3, "xyzq") + ";")
		case 2:
			l.WriteString("@site=v" + c12Rand(rng, 2, "xyzq") + "; note=v" + c12Rand(rng, 2, "xyzq") + ";")
		case 3:
			l.WriteString(" @ note=vab; note=vcd;")
		case 4:
			l.WriteString("  ")
		}
		lines = append(lines, l.String())
	}
	var b strings.Builder
	fmt.Fprintf(&b, "sheet o %d", len(lines))
	for _, l := range lines {
		b.WriteString(" " + c12h(l))
	}
	return b.String()
}

func (c12) Gen(rng *rand.Rand, tier string, emit func(string)) {
	h := func(s string) string { return hx([]byte(s)) }
	// ---- hand-picked unit cases ---------------------------------------------------------------
	for _, p := range [][2]string{{"", ""}, {"a", ""}, {"", "acgt"}, {"acgt", "acgt"}, {"acgt", "aggt"}, {"acgt", "acg"}, {"kitten", "sitting"},
		{"flaw", "lawn"}, {"aaaa", "tttt"}, {"acgtacgt", "cgtacgta"}, {"ab", "ba"}, {"abc", "c"}} {
		emit("ham " + h(p[0]) + " " + h(p[1]))
		emit("lev " + h(p[0]) + " " + h(p[1]))
	}
	for _, s := range []string{"", "a", "aa", "c", "cca", "acca", "accacc", "aaccaagg", "ccaaccaagg", "accaaccaa", "accaaccaagg", "aacc", "caac", "ggaccgtaagg"} {
		emit(fmt.Sprintf("look %s %d", h(s), 'a'))
		for _, prm := range [][3]int{{2, 1, 1}, {2, 2, 1}, {3, 1, 2}, {2, 0, 1}, {2, 0, 3}, {-1, 1, 1}, {4, 2, 0}, {1, 1, 5}} {
			emit(fmt.Sprintf("rescue %s %d %d %d %d", h(s), 'a', prm[0], prm[1], prm[2]))
		}
	}
	// ---- hand-picked sheets --------------------------------------------------------------------
	mk := func(fp, rp string, smp ...c12Sample) c12Marker {
		return c12Marker{fp: fp, rp: rp, mode: "s", ferr: 2, rerr: 2, samples: smp}
	}
	P1, P2, P3, P4 := "ggtcaacaaatcataaagatattgg", "taaacttcagggtgaccaaaaaatca", "gggcaatcctgagccaa", "ccattgagtctctgcacctatc"
	bc := "ttagccatgacgtagctagctaggatc"
	build := func(ft string, sp1 string, p1 string, bc string, p2 string, sp2 string, rt string) string {
		return "acgtac" + ft + sp1 + p1 + bc + c12Rc(rt+sp2+p2) + "ttgaca"
	}
	corpus := []*c12Case{}
	add := func(c *c12Case) { corpus = append(corpus, c) }
	// 1. plain sheet, both formats, forward and reverse reads
	for _, f := range []string{"o", "c"} {
		for _, st := range []int{0, 1, 7, 31} {
			c := &c12Case{format: f, style: st, e: -1, id: "r", markers: []c12Marker{
				mk(P1, P2, c12Sample{"aacctt", "ggttaa", "s1", "e", ""}, c12Sample{"aaccta", "ggttaa", "s2", "e", ""}, c12Sample{"ccggaa", "ccggaa", "s3", "e", map[string]string{"o": "vx", "c": ""}[f]}),
				mk(P3, P4, c12Sample{"", "tgca", "s4", "e", ""})}}
			c.seq = []byte(build("aacctt", "", P1, bc, P2, "", "ggttaa"))
			c.cls = "c2"
			c.exps = []c12Exp{{bc, "f", 0, "s1", "aacctt", "ggttaa", P1, P2, 0, 0}}
			add(c)
			c2 := *c
			c2.seq = []byte(c12Rc(string(c.seq)))
			c2.exps = []c12Exp{{bc, "r", 0, "s1", "aacctt", "ggttaa", P1, P2, 0, 0}}
			add(&c2)
			c3 := *c
			c3.seq = []byte(build("", "", P3, bc, P4, "", "tgca"))
			c3.exps = []c12Exp{{bc, "f", 1, "s4", "", "tgca", P3, P4, 0, 0}}
			add(&c3)
		}
	}
	// 2. tie between two declared tags under hamming in a sheet where another sample has no forward tag (delimited tags:
	//    the tag lengths are never used): the tie is returned as "" and "" is looked up as a declared tag
	{
		m := mk(P1, P2, c12Sample{"ccgg", "ggtt", "sA", "e", ""}, c12Sample{"ccgt", "ggtt", "sB", "e", ""}, c12Sample{"", "ggtt", "sNOTAG", "e", ""})
		m.mode, m.fdl, m.rdl, m.fsp, m.rsp = "h", 'a', 'a', 3, 7
		c := &c12Case{format: "c", style: 0, e: -1, id: "r", markers: []c12Marker{m}, cls: "free"}
		c.seq = []byte("gtgtgt" + "aaa" + "ccgc" + "aaa" + P1 + bc + c12Rc("aaaaaaa"+"ggtt"+"aaaaaaa"+P2) + "gtgtgt")
		add(c)
		// the same with fixed-length tags: CheckTagLength reports an error that nobody reads, the tag length is -1
		m2 := m
		m2.fdl, m2.rdl, m2.fsp, m2.rsp = 0, 0, 0, 0
		c2 := &c12Case{format: "c", style: 0, e: -1, id: "r", markers: []c12Marker{m2}, cls: "free"}
		c2.seq = []byte(build("ccgc", "", P1, bc, P2, "", "ggtt"))
		add(c2)
		c3 := *c2
		c3.format = "o"
		m3 := m2
		m3.mode = "s"
		c3.markers = []c12Marker{m3}
		add(&c3)
	}
	// 3. two markers sharing the forward primer (reported by CheckPrimerUnicity, ignored): map order decides
	{
		c := &c12Case{format: "o", style: 0, e: -1, id: "r", cls: "c3", markers: []c12Marker{
			mk(P1, P2, c12Sample{"aacc", "ggtt", "s1", "e", ""}), mk(P1, P4, c12Sample{"aacc", "ggtt", "s2", "e", ""})}}
		c.seq = []byte(build("aacc", "", P1, bc, P4, "", "ggtt"))
		c.exps = []c12Exp{{bc, "f", 1, "s2", "aacc", "ggtt", P1, P4, 0, 0}}
		add(c)
		c2 := *c
		c2.seq = []byte(build("aacc", "", P1, bc, P2, "", "ggtt"))
		c2.exps = []c12Exp{{bc, "f", 0, "s1", "aacc", "ggtt", P1, P2, 0, 0}}
		add(&c2)
		c2b := c2
		c2b.format = "c"
		add(&c2b)
		// two markers whose forward primers differ by one base: both hit at the same position
		P1b := "ggtcaacaaatcataaagatattgc"
		c3 := &c12Case{format: "o", style: 0, e: -1, id: "r", cls: "free", markers: []c12Marker{
			mk(P1, P2, c12Sample{"aacc", "ggtt", "s1", "e", ""}), mk(P1b, P4, c12Sample{"aacc", "ggtt", "s2", "e", ""})}}
		c3.seq = []byte(build("aacc", "", P1, bc, P2, "", "ggtt"))
		add(c3)
		c4 := *c3
		c4.seq = []byte(build("aacc", "", P1b, bc, P4, "", "ggtt"))
		add(&c4)
	}
	// 4. duplicated tag pair, empty reads, read = primer only, overlapping primers
	{
		c := &c12Case{format: "c", style: 0, e: -1, id: "r", cls: "free", markers: []c12Marker{
			mk(P1, P2, c12Sample{"aacc", "ggtt", "s1", "e", ""}, c12Sample{"aacc", "ggtt", "s2", "e", ""})}}
		c.seq = []byte(build("aacc", "", P1, bc, P2, "", "ggtt"))
		add(c)
		for _, s := range []string{"", "a", P1, P1 + c12Rc(P2), "aacc" + P1 + c12Rc(P2) + "aacc", P1 + bc + c12Rc(P2), "acc" + P1 + bc + c12Rc(P2) + "aac",
			c12Rc(P2) + bc + P1, P1 + bc + P1 + bc + c12Rc(P2) + bc + c12Rc(P2)} {
			c2 := &c12Case{format: "c", style: 0, e: -1, id: "r", cls: "free", markers: []c12Marker{
				mk(P1, P2, c12Sample{"aacc", "ggtt", "s1", "e", ""}, c12Sample{"aacg", "ggtt", "s2", "e", ""})}, seq: []byte(s)}
			add(c2)
		}
	}
	for _, c := range corpus {
		emit(c.line())
	}
	// 6. lone sites F .. CF .. CR: the complemented-forward hit in between is not collected (no reverse hit) and F..CR comes
	//    out as a barcode on the read itself
	emit("demux c 13 -1 0 3 63747474746161637467746161616761616774677463 637461636363676163616363636363636374637463 3 3 0 0 0 0 i 0 1 0 0 5 6767747461 677463616767 73315f30 65787030 - 7474636763 616767677463 73315f31 65787031 - 7463677474 636374746761 73315f32 65787031 - 7463617474 677461616763 73315f33 65787031 - 7467617474 616767677463 73315f34 65787031 - 67746167636174746361746761637467 7474616161636174636167746374746774616774 3 3 0 0 0 0 i 0 1 0 0 4 6763747474746767 6161746161 73325f30 65787031 - 7463746761747474 6174617474 73325f31 65787030 - 6174746161616774 6174746367 73325f32 65787030 - 6174746161616774 6774676174 73325f33 65787031 - 74747467616763677463747463636174 74636161637474676767676374636767746767 3 3 0 0 0 0 i 0 1 0 0 5 7467677474 63616763 73305f30 65787031 - 6363677474 63676763 73305f31 65787031 - 6367677474 63636367 73305f32 65787030 - 6367677474 67637467 73305f33 65787031 - 7474676363 61636374 73305f34 65787030 - 7265616431 746774636774616163616767676174747463676363746363747474746161637467746161616761616774677463746163676361636163676367746367636767616361636167746361617463676161677467676167636761676767676767677467746367676774616161636767616363637463747463676763746361676767746374636163616761676363676761676361676774637474746774616774616167616361637474637474746163616774746161616167746167616174636161636761616374746363746767747461676167637474747461616374677474616167616167746774636174747461637463676374746163676774636361636361676761676167676767676767746774636767677461676163676363746761636774677461746174 cls c3 exp 3 - x 0 - - - 63747474746161637467746161616761616774677463 - 0 0 - x 0 - - - 63747474746161637467746161616761616774677463 - 0 0 - x 0 - - - - 637461636363676163616363636363636374637463 0 0")
	// 5. three lone sites F .. R .. CR of one marker: nothing is extracted from the read, but on its reverse complement the
	//    complemented-reverse hits are not even collected (no forward hit there) and F..CR comes out as a barcode
	emit("demux c 16 0 0 1 74616163616161616363636161616163676763 67676174746361617461676167676174747467636163 2 0 0 0 0 0 h 1 1 0 0 2 746367746763 747461616367 73305f30 65787030 - 676167676763 616174676367 73305f31 65787031 - 7265616431 747474746763636361617467676761676767636163746161636161616163636361616161636767636367616761616161746374676363676367636161676361616363676361747467637461676367637474616163676767617474636161746167616767617474746763616363616361747463616361746367746763617461677467617461676363677474747467616374747474677474616761676361636761746361617467676167676763616774616167616161746363636161616163676774636774636763616363637463747467637467746167677467616367636763636774636374677474676167636361616167636767616367677467636161617463637463746174746761617463636367636174746774637474676374676361676763 cls c3 exp 3 - x 0 - - - 74616163616161616363636161616163676763 - 0 0 - x 0 - - - - 67676174746361617461676167676174747467636163 0 0 - x 0 - - - - 67676174746361617461676167676174747467636163 0 0")

	// 7. four lone sites R .. CR .. CF .. F of one marker (both direct primers hit): the CR hit lies before the first F hit and is
	//    not collected, so R .. CF comes out as a barcode; on the reverse complement the mirrored F hit (a CF hit) lies before the
	//    first R hit and is dropped, the mirrored CR hit is kept and separates the pair: nothing (Props/C12M.lean
	//    positional_gating_breaks_symmetry: the part of the gating that a fix limited to "the direct primer misses" leaves)
	{
		c := &c12Case{format: "c", style: 0, e: -1, id: "read1", cls: "c4", markers: []c12Marker{
			mk(P1, P2, c12Sample{"aacc", "ggtt", "s1", "e", ""}, c12Sample{"aacg", "ggtt", "s2", "e", ""})}}
		c.seq = []byte("ttgacatg" + P2 + "acgtgtcatgcatgac" + c12Rc(P2) + "tgcatgactgatcgat" + c12Rc(P1) + "gatcgtagctagcatg" + P1 + "acgtacgt")
		c.exps = []c12Exp{{"", "x", 0, "", "", "", "", P2, 0, 0}, {"", "x", 0, "", "", "", "", P2, 0, 0}, {"", "x", 0, "", "", "", P1, "", 0, 0}, {"", "x", 0, "", "", "", P1, "", 0, 0}}
		emit(c.line())
	}

	// ---- sample sheets: hand-picked --------------------------------------------------------------
	{
		hdr := []string{"experiment", "sample", "sample_tag", "forward_primer", "reverse_primer"}
		r1 := []string{"e", "s1", "aacc:ggtt", "ACGTACGT", "ttgattga"}
		r2 := []string{"e", "s2", "aacg:ggtt", "acgtacgt", "TTGATTGA"}
		r3 := []string{"e", "s3", "cc:gg", "ggggcccc", "aaaatttt"}
		one := func(recs ...[]string) {
			if l, ok := c12EncodeRecords(0, recs); ok {
				emit(l)
			}
		}
		P := func(f ...string) []string { return append([]string{"@param"}, f...) }
		one(hdr, r1, r2, r3)
		one(hdr, r1)
		one(hdr)
		one(P("spacer", "3"), hdr)
		one(P("spacer", "3"), hdr, r1, r2)
		one(P("spacer", "3"), P("spacer", "ACGTACGT", "1"), P("spacer", "ttgattga", "2"), P("spacer", "aaaatttt", "5"), P("spacer", "cccc", "9"), hdr, r1, r2, r3)
		one(P("spacer", "ACGTACGT", "1"), P("spacer", "3"), hdr, r1, r2, r3)
		one(P("forward_spacer", "1"), P("reverse_spacer", "2"), P("tag_delimiter", "A"), P("tag_delimiter", "ggggcccc", "0"), P("tag_indels", "1"), hdr, r1, r3)
		one(P("tag_delimiter", "N"), hdr, r1)
		one(P("tag_delimiter", ""), hdr, r1)
		one(P("tag_delimiter", "cccc", "N"), hdr, r1)
		one(P("tag_delimiter", "acgtacgt", "N"), hdr, r1)
		one(P("matching", "hamming"), P("primer_mismatches", "0"), P("primer_mismatches", "ttgattga", "4"), P("indels", "true"), P("indels", "acgtacgt", "false"), hdr, r1, r2)
		one(P("matching", "Hamming"), hdr, r1)
		one(P("matching", "acgtacgt", "indel"), hdr, r1)
		one(P("tag_indels", "1", "2", "3"), hdr, r1)
		one(P("spacer", "1", "2", "3"), hdr, r1)
		one(P("forward_spacer", "acgtacgt", "2"), hdr, r1)
		one(P("spacer"), hdr, r1)
		one(P(), hdr, r1)
		one(P("unknown", "1"), P("spacer", "x"), hdr, r1)
		one(P("spacer", "3 "), hdr, r1)
		one(P("spacer", "+3"), P("reverse_spacer", "-1"), hdr, r1)
		one(hdr, r1, r1)
		one(hdr, r1, []string{"e", "s2", "aac:ggtt", "acgtacgt", "ttgattga"})
		one(hdr, r1, []string{"e", "s2", "aacc:ggtt", "acgtacgt", "aaaatttt"})
		one(hdr, r1, []string{"e", "s2", "aacc:ggtt", "ggggcccc", "ggggcccc"})
		one(hdr, r1, []string{"e", "s2", "aacc:ggtt", "acgtacgt"})
		one(hdr, r1, P("spacer", "3", "x", "y"))
		one(append([]string{"note"}, hdr...), append([]string{"vx"}, r1...), append([]string{"vy"}, r2...))
		one([]string{"experiment", "sample", "sample_tag", "forward_primer"}, []string{"e", "s1", "aacc:ggtt", "acgtacgt"}, []string{"e", "s2", "aacg:ggtt", "acgtacgt"})
		one([]string{"sample", "experiment", "sample", "sample_tag", "forward_primer", "reverse_primer"}, []string{"first", "e", "second", "-:gg", "acgtacgt", "ttgattga"}, []string{"first", "e", "third", "-", "ggggcccc", "aaaatttt"})
		for _, ls := range [][]string{
			{"e s1 aacc:ggtt acgtacgt ttgattga F", "e\ts2  aacg:ggtt ACGTACGT\tTTGATTGA F @ note=vx;"},
			{"# comment", "", "   ", "e s1 aacc acgtacgt ttgattga F @", " e s2 -:gg ggggcccc aaaatttt F@note=vx; site=vy;"},
			{"e s1 aacc:ggtt acgtacgt ttgattga"},
			{"e s1 aacc:ggtt acgtacgt ttgattga F G"},
			{"e s1 aacc:ggtt acgtacgt ttgattga F", "e s2 aacc:ggtt acgtacgt ttgattga F"},
			{"e s1 aacc:ggtt acgtacgt ttgattga F", "e s2 aac:ggtt acgtacgt ttgattga F"},
			{"e s1 aacc:ggtt acgtacgt ttgattga F", "e s2 aacc:ggtt ttgattga ggggcccc F"},
			{},
			{"# only a comment"},
		} {
			l := fmt.Sprintf("sheet o %d", len(ls))
			for _, x := range ls {
				l += " " + h(x)
			}
			emit(l)
		}
	}

	// ---- random cases ----------------------------------------------------------------------------
	nlib, nread, nunit, nsheet := 300, 12, 1500, 900
	if tier == "thorough" {
		nlib, nread, nunit, nsheet = 400, 12, 2500, 2500
	}
	for i := 0; i < nunit; i++ {
		alpha := []string{"acgt", "ac", "a"}[rng.Intn(3)]
		a := c12Rand(rng, rng.Intn(12), alpha)
		b := c12Rand(rng, rng.Intn(12), alpha)
		if rng.Intn(2) == 0 {
			b = a
			for k := rng.Intn(4); k > 0; k-- {
				b = c12Mutate(rng, b, alpha+"g", true)
			}
		}
		switch rng.Intn(4) {
		case 0:
			emit("ham " + h(a) + " " + h(b))
		case 1:
			emit("lev " + h(a) + " " + h(b))
		case 2:
			emit(fmt.Sprintf("look %s %d", h(c12Rand(rng, rng.Intn(24), "aacg")), 'a'))
		default:
			emit(fmt.Sprintf("rescue %s %d %d %d %d", h(c12Rand(rng, rng.Intn(24), "aaacg")), 'a', rng.Intn(7)-1, rng.Intn(4), rng.Intn(4)))
		}
	}
	for i := 0; i < nlib; i++ {
		c := c12Library(rng)
		for j := 0; j < nread; j++ {
			c12Read(rng, c)
			emit(c.line())
		}
	}
	// histories of reads on one library object + the whole obimultiplex stage (c12_multi.go)
	c12GenMulti(rng, tier, emit)
	// the sample sheets last: every call of ReadNGSFilter registers one more copy of the CSV detector in the mimetype tree
	// (OBIMimeNGSFilterTypeGuesser), which makes the later readings of old-format sheets slower and slower
	for i := 0; i < nsheet; i++ {
		if rng.Intn(4) == 0 {
			emit(c12GenOldSheet(rng))
		} else if l, ok := c12GenCsvSheet(rng); ok {
			emit(l)
		}
	}
	// the sheets from their bytes, worker constructions on one library object (c12_bytes.go)
	c12GenBytes(rng, tier, emit)
	// demultiplexing from several goroutines sharing one library (c12_conc.go); LAST: the cases above keep their PRNG draws
	c12GenConc(rng, tier, emit)
}
