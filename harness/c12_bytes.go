//go:build c12

package main

// C12 — the sample sheet from its BYTES (Model/NgsFilterBytes.lean) and worker constructions on one library object
// (Model/DemuxState.lean).
//
//	sheetb <text>                                    ReadNGSFilter on the bytes of a sheet; result: the library dump of `sheet`
//	wk <K> K × [ marker ] W <n> n × [ <e> <indel> ]  n × ExtractMultiBarcodeSliceWorker(e, indel) on ONE library object read from the
//	                                                 sheet of the markers; result: `<fp> <rp> ferr rerr fpi rpi` of every marker
//	                                                 after each construction, ` >> ` between constructions
//
// The texts of `sheetb` are renderings of generated CSV records / old-format lines with byte-level decorations the record
// level cannot express: mixed LF / CRLF, a lone CR at the end, no final newline, blank-only lines (a RECORD of one empty field
// for encoding/csv), blanks (space, tab, VT, FF) before fields — before the FIRST field too, where the reader (TrimLeadingSpace)
// and the two detectors (no trimming) see different records —, blanks after fields (kept), indented comments (records),
// double quotes inside bare fields (LazyQuotes), trailing commas, tab-separated old sheets (detected as TSV), and sheets longer
// than the 3072 bytes the detectors look at (inconsistent rows before / after the limit, a line cut by the limit).  Never
// generated: a field STARTING with a double quote (outcome `unmodelled` of the model).

import (
	"fmt"
	"math/rand"
	"sort"
	"strconv"
	"strings"
	"time"

	"git.metabarcoding.org/obitools/obitools4/obitools4/pkg/obiformats"
	"git.metabarcoding.org/obitools/obitools4/obitools4/pkg/obingslibrary"
	"git.metabarcoding.org/obitools/obitools4/obitools4/pkg/obitools/obimultiplex"
)

func (c12) execSheetB(f []string) (string, []Fail) {
	if len(f) != 1 {
		return "bad-op", nil
	}
	raw, ok := unhx(f[0])
	if !ok {
		return "bad-op", nil
	}
	text := string(raw)
	run := func() string {
		return guardT(10*time.Second, func() string {
			lib, err := obiformats.ReadNGSFilter(strings.NewReader(text))
			if err != nil {
				return "sheet-error"
			}
			return c12Dump(lib)
		})
	}
	res := run()
	stat("sheetb." + strings.SplitN(res, " ", 2)[0])
	if len(text) >= 3072 {
		stat("sheetb.beyond-detector-limit")
	}
	var fails []Fail
	// `obimultiplex --template` prints CLIConfigTemplate(): the printed example must be a sheet the reader accepts, with the
	// marker and the four samples it shows and the default parameters it spells out (it is longer than the 3072 bytes the
	// detectors look at: they only see comments and @param lines)
	if text == obimultiplex.CLIConfigTemplate() {
		stat("sheetb.template")
		if !strings.HasPrefix(res, "ok 1 ## "+c12h("ttagataccccactatgc")+" "+c12h("tagaacaggctcctctag")+" 0 0 0 0 0 0 strict strict 2 2 0 0 7 7 4 ") {
			fails = append(fails, Fail{"template.not-accepted", "the sheet printed by --template is read as: " + res})
		}
	}
	// determinism over a second reading: one text in four (a reading is expensive at this point of the run, see c12GenBytes)
	if len(text)%4 == 0 {
		if r2 := run(); r2 != res {
			fails = append(fails, Fail{"sheet.nondeterministic", "two readings of the same sheet differ: " + res + "  VERSUS  " + r2})
		}
	}
	return res, fails
}

func c12WkDump(lib *obingslibrary.NGSLibrary) string {
	var ms []string
	for pp, mk := range lib.Markers {
		ms = append(ms, fmt.Sprintf("%s %s %d %d %d %d", c12h(pp.Forward), c12h(pp.Reverse), mk.Forward_error, mk.Reverse_error,
			c12b(mk.Forward_allows_indels), c12b(mk.Reverse_allows_indels)))
	}
	sort.Strings(ms)
	return strings.Join(ms, " ## ")
}

func (c12) execWk(f []string) (string, []Fail) {
	p := &c12Toks{t: f}
	c := &c12Case{format: "c"}
	k := p.int()
	if p.bad || k < 1 || k > 16 || !c12ParseMarkers(p, c, k) {
		return "bad-op", nil
	}
	if p.next() != "W" {
		return "bad-op", nil
	}
	n := p.int()
	if p.bad || n < 0 || n > 8 {
		return "bad-op", nil
	}
	type wo struct {
		e     int
		indel bool
	}
	var ws []wo
	for i := 0; i < n; i++ {
		ws = append(ws, wo{p.int(), p.int() == 1})
	}
	if p.bad || len(p.t) != 0 {
		return "bad-op", nil
	}
	c.sortMarkers()
	sheet := c12Sheet(c)
	var fails []Fail
	var out []string
	res := guardT(20*time.Second, func() string {
		lib, err := obiformats.ReadNGSFilter(strings.NewReader(sheet))
		if err != nil {
			return "sheet-error"
		}
		for _, w := range ws {
			before := c12Dump(lib)
			lib.ExtractMultiBarcodeSliceWorker(obingslibrary.OptionAllowedMismatches(w.e), obingslibrary.OptionAllowedIndel(w.indel))
			out = append(out, c12WkDump(lib))
			// oracle (statement of the options): a positive -e is the budget of both primers of every marker, --with-indels
			// allows indels everywhere; nothing but these four parameters changes
			for _, mk := range lib.Markers {
				if w.e > 0 && (mk.Forward_error != w.e || mk.Reverse_error != w.e) {
					fails = append(fails, Fail{"wk.budget", fmt.Sprintf("-e %d but budgets %d / %d", w.e, mk.Forward_error, mk.Reverse_error)})
				}
				if w.indel && !(mk.Forward_allows_indels && mk.Reverse_allows_indels) {
					fails = append(fails, Fail{"wk.indels", "--with-indels but a primer without indels"})
				}
			}
			if w.e <= 0 && !w.indel && c12Dump(lib) != before {
				fails = append(fails, Fail{"wk.default-options-write", "a worker with the default options changed the library: " + before + "  VERSUS  " + c12Dump(lib)})
			}
		}
		return "ok"
	})
	stat("wk." + res)
	if res != "ok" {
		return res, fails
	}
	return strings.Join(out, " >> "), fails
}

func c12WkLine(c *c12Case, ws [][2]int) string {
	var b strings.Builder
	fmt.Fprintf(&b, "wk %d", len(c.markers))
	for _, mk := range c.markers {
		fmt.Fprintf(&b, " %s %s %d %d %d %d %d %d %s %d %d %d %d %d", c12h(mk.fp), c12h(mk.rp), mk.fsp, mk.rsp, mk.fdl, mk.rdl, mk.fin, mk.rin,
			mk.mode, mk.ferr, mk.rerr, c12b(mk.fpi), c12b(mk.rpi), len(mk.samples))
		for _, s := range mk.samples {
			fmt.Fprintf(&b, " %s %s %s %s %s", c12h(s.ftag), c12h(s.rtag), c12h(s.name), c12h(s.exp), c12h(s.extra))
		}
	}
	fmt.Fprintf(&b, " W %d", len(ws))
	for _, w := range ws {
		fmt.Fprintf(&b, " %d %d", w[0], w[1])
	}
	return b.String()
}

// ------------------------------------------------------------------------------------------------
// generators
// ------------------------------------------------------------------------------------------------

// c12Decorate re-renders the lines of a sheet text with byte-level decorations.  csv: the lines are CSV records.
func c12Decorate(rng *rand.Rand, text string, csv bool) string {
	lines := strings.Split(strings.TrimSuffix(text, "\n"), "\n")
	heavy := rng.Intn(3) == 0
	blank := func() string { return c12Pick(rng, " ", "  ", "\t", " \t", "\v", "\f ") }
	var b strings.Builder
	for i, l := range lines {
		l = strings.TrimSuffix(l, "\r")
		if rng.Intn(7) == 0 {
			b.WriteString(c12Pick(rng, "\n", "\r\n", "   \n", "\t\r\n", "# c, \"q\" x\n", "#\n", "#,,,,,\r\n", " # indented, comment\n", "\r\r\n"))
		}
		if csv && heavy && !strings.HasPrefix(l, "#") && l != "" {
			fs := strings.Split(l, ",")
			for j := range fs {
				switch rng.Intn(14) {
				case 0:
					fs[j] = blank() + fs[j]
				case 1:
					fs[j] = fs[j] + c12Pick(rng, " ", "\t")
				case 2:
					if strings.TrimLeft(fs[j], " \t\v\f\r") != "" { // never a field STARTING with a quote
						fs[j] = fs[j] + "\"" + c12Pick(rng, "", "x", "\"")
					}
				}
			}
			l = strings.Join(fs, ",")
			if rng.Intn(25) == 0 {
				l += ","
			}
		} else if !csv && heavy {
			switch rng.Intn(10) {
			case 0:
				l = blank() + l
			case 1:
				l = l + c12Pick(rng, " ", "\t", " \r")
			case 2:
				l = strings.Join(strings.Fields(l), "\t") // single tabs: with two such lines the text is detected as TSV
			}
		}
		b.WriteString(l)
		last := i == len(lines)-1
		switch {
		case last && rng.Intn(4) == 0:
			b.WriteString(c12Pick(rng, "", "\r", "\n\n", "\n   \n", "\n \n\t"))
		case rng.Intn(5) == 0:
			b.WriteString("\r\n")
		default:
			b.WriteString("\n")
		}
	}
	return b.String()
}

// c12Pad makes a CSV / old sheet text cross the 3072-byte window of the detectors: comment lines or more rows before the
// interesting part, so that the inconsistency (or the cut line) falls before / at / after the limit
func c12Pad(rng *rand.Rand, text string, csv bool) string {
	target := 3072 - len(text) + rng.Intn(2*len(text)+40) - 20
	if rng.Intn(5) == 0 {
		target = 3072 - len(text) // the file has exactly readLimit bytes when the filler fits
	}
	if target < 0 {
		target = 0
	}
	var pad strings.Builder
	for {
		rest := target - pad.Len()
		if rest < 2 {
			break
		}
		l := "# filler " + strings.Repeat("x", rng.Intn(60))
		if len(l)+1 > rest {
			l = "#" + strings.Repeat("y", rest-2)
		}
		pad.WriteString(l + "\n")
	}
	if rng.Intn(2) == 0 || !csv {
		return pad.String() + text
	}
	// the filler after the @param lines / the header: in the middle of the sheet
	i := strings.Index(text, "\n")
	if i < 0 {
		return pad.String() + text
	}
	return text[:i+1] + pad.String() + text[i+1:]
}

func c12GenBytes(rng *rand.Rand, tier string, emit func(string)) {
	hb := func(s string) { emit("sheetb " + hx([]byte(s))) }
	// hand-picked texts
	hdr := "experiment,sample,sample_tag,forward_primer,reverse_primer\n"
	r1, r2 := "e,s1,aacc:ggtt,acgtacgt,ttgattga\n", "e,s2,aacg:ggtt,ACGTACGT,TTGATTGA\n"
	for _, t := range []string{
		"", "\n", "   \n", "#\n", "# only a comment\n", "\r\n\r\n",
		hdr + r1 + r2, hdr + r1, hdr, hdr + r1[:len(r1)-1], hdr + r1 + "\r",
		strings.ReplaceAll(hdr+r1+r2, "\n", "\r\n"), hdr + "\r\n" + r1 + "\n\n" + r2,
		"@param,spacer,3\n" + hdr + r1, " @param,spacer,3\n" + hdr + r1, "@param, spacer,\t3\n" + hdr + r1 + r2,
		"@param,spacer,3 \n" + hdr + r1, "@param ,spacer,3\n" + hdr + r1,
		" @param,spacer,3,4,5\n" + hdr + r1 + r2, "@param,spacer,3,4,5\n" + hdr + r1 + r2,
		hdr + r1 + "   \n" + r2, hdr + r1 + " # not a comment\n" + r2, hdr + r1 + "#,a,b,c,d\n" + r2,
		hdr + "e,s1,aacc:ggtt,acgt\"acgt,ttgattga\n", hdr + "e,s\"1\",aacc:ggtt,acgtacgt,ttgattga\n" + r2,
		hdr + r1 + "e,s2,aacg:ggtt,acgtacgt,ttgattga,\n", hdr + "e , s1 ,aacc:ggtt , acgtacgt,\tttgattga\n" + r2,
		"experiment,sample,sample_tag,forward_primer,reverse_primer", "a,b\nc,d\n", "a,b\n", "a\nb\n", "a,b\nc\n",
		"e s1 aacc:ggtt acgtacgt ttgattga F\ne s2 aacg:ggtt acgtacgt ttgattga F\n",
		"e\ts1\taacc:ggtt\tacgtacgt\tttgattga\tF\ne\ts2\taacg:ggtt\tacgtacgt\tttgattga\tF\n",
		"e\ts1\taacc:ggtt\tacgtacgt\tttgattga\tF\ne\ts2\taacg:ggtt\tacgtacgt\tttgattga\tF @ note=vx;\n",
		"e s1 aacc:ggtt acgtacgt ttgattga F", "  e s1 aacc:ggtt acgtacgt ttgattga F  \r\n\r\n   \n", "e s1 aacc:ggtt acgtacgt ttgattga F\n   ",
		"e,s1 aacc:ggtt acgtacgt ttgattga F\ne,s2 aacg:ggtt acgtacgt ttgattga F\n",
		"e s1 aacc:ggtt acgtacgt ttgattga F,x\ne s2 aacg:ggtt acgtacgt ttgattga F,y\n",
		"e s1 aacc:ggtt acgtacgt ttgattga F @ a=vb,c\ne s2 aacg:ggtt acgtacgt ttgattga F @ a=vb,d\n",
		// the detectors attached to the root of the mimetype tree by the sequence reader: FASTQ (`@x…` on two lines, or a line
		// starting with `+`), FASTA, EMBL, GenBank, ecoPCR look-alikes; "binary data bytes" (VT) with constant / varying widths
		"@param,spacer,3\n" + hdr, "@param,spacer,3\n" + hdr[:len(hdr)-1], "@param,spacer,3\n" + hdr + r1, "@param,a,b\n@param,c,d\n",
		"@param,spacer,3\n" + hdr + "+,s1,aacc:ggtt,acgtacgt,ttgattga\n", "@param,spacer,3\n" + hdr + r1 + "+,s2,aacg:ggtt,acgtacgt,ttgattga\n",
		"@ param,spacer,3\n" + hdr + r1, "@\n" + hdr, ">experiment,sample,sample_tag,forward_primer,reverse_primer\n" + r1 + r2,
		"> experiment,sample,sample_tag,forward_primer,reverse_primer\n" + r1 + r2, "ID   ,sample,sample_tag,forward_primer,reverse_primer\n" + r1,
		"LOCUS       ,b\nc,d\n", "#@ecopcr-v2\n" + hdr + r1 + r2, "#@ecopcr\n" + hdr + r1 + r2,
		hdr + "e,s1,\vaacc:ggtt,acgtacgt,ttgattga\n", "@param,spacer,3\n" + hdr + "e,s1,\vaacc:ggtt,acgtacgt,ttgattga\n" + r2,
		hdr + "e,s1,\x01aacc:ggtt,acgtacgt,ttgattga\n", "@param,spacer,3\n" + hdr + "e,s1,aacc:ggtt,acgtacgt,ttgattga\x1f\n" + r2,
		"e s1 aacc:ggtt acgtacgt ttgattga F\v\ne s2 aacg:ggtt acgtacgt ttgattga F\n",
	} {
		hb(t)
	}
	hb(obimultiplex.CLIConfigTemplate())
	hb(strings.ReplaceAll(obimultiplex.CLIConfigTemplate(), "\n", "\r\n"))
	// (every ReadNGSFilter call adds a detector to the process-global mimetype tree and the later readings run all of them: these
	// cases come last, when a reading costs ~25 ms; the thorough tier runs 8 seeds, the volume per seed stays the one of quick)
	n := 500
	if tier == "thorough" {
		n = 600
	}
	for i := 0; i < n; i++ {
		csv := rng.Intn(4) != 0
		var line string
		if csv {
			l, ok := c12GenCsvSheet(rng)
			if !ok {
				continue
			}
			line = l
		} else {
			line = c12GenOldSheet(rng)
		}
		text, ok := c12SheetText(strings.Fields(line)[1:])
		if !ok {
			continue
		}
		if rng.Intn(3) != 0 {
			text = c12Decorate(rng, text, csv)
		}
		if rng.Intn(6) == 0 && len(text) > 0 && len(text) < 3000 {
			text = c12Pad(rng, text, csv)
			stat("sheetb.padded")
		}
		if csv {
			stat("sheetb.made-csv")
		} else {
			stat("sheetb.made-old")
		}
		hb(text)
	}
	// worker constructions on one library object
	nw := 60
	if tier == "thorough" {
		nw = 80
	}
	for i := 0; i < nw; i++ {
		c := c12Library(rng)
		c.sortMarkers()
		var ws [][2]int
		for k := 1 + rng.Intn(3); k > 0; k-- {
			ws = append(ws, [2]int{[]int{-1, -1, 0, 1, 2, 3, 4}[rng.Intn(7)], rng.Intn(3) / 2})
		}
		emit(c12WkLine(c, ws))
	}
	_ = strconv.Itoa
}
