//go:build c16

package main

// C16 — pipeline-level cases: the record-level semantics of obigrep / obiannotate / obidistribute
// observed through the real command code path (option parser, CLIFilterSequence /
// CLIAnnotationPipeline / CLIDistributeSequence, the writers) on multi-batch iterators.
//
//	grepio  <options> bs=<n> w=<n> [nosd] [lay=a.b.c] [perm=i.j.k] | <records> | T …
//	annotio <options> bs=<n> w=<n> [lay=…] [perm=…]               | <records> | T …
//	distio  <dist options> bs=<n> w=<n> [lay=…] [perm=…]          | <records>
//	        (pat=<hex prefix>:<hex suffix> = the pattern prefix%ssuffix, or rawpat=<hex> = the pattern as it is typed)
//
// lay = sizes of the input batches (a batch may be empty), perm = order in which the batches are
// pushed (arrival order); the result never depends on them (that is the theorem): the model ignores
// them, the harness uses them to build the input iterator.  The generator groups the records the
// reference interpreter rejects into whole batches placed at the beginning / middle / end.

import (
	"bufio"
	"compress/gzip"
	"fmt"
	"hash/crc32"
	"io"
	"io/fs"
	"math/rand"
	"os"
	"path/filepath"
	"regexp"
	"sort"
	"strconv"
	"strings"
	"time"

	"git.metabarcoding.org/obitools/obitools4/obitools4/pkg/obiiter"
	"git.metabarcoding.org/obitools/obitools4/obitools4/pkg/obioptions"
	"git.metabarcoding.org/obitools/obitools4/obitools4/pkg/obiseq"
	"git.metabarcoding.org/obitools/obitools4/obitools4/pkg/obitools/obiannotate"
	"git.metabarcoding.org/obitools/obitools4/obitools4/pkg/obitools/obiconvert"
	"git.metabarcoding.org/obitools/obitools4/obitools4/pkg/obitools/obidistribute"
)

// "a.b.c": canonical non-negative integers
func c16IntList(x string) ([]int, bool) {
	var out []int
	for _, w := range strings.Split(x, ".") {
		n, err := strconv.Atoi(w)
		if err != nil || !c16CanonInt(w) || n < 0 || n > 1000 {
			return nil, false
		}
		out = append(out, n)
	}
	return out, len(out) > 0 && len(out) <= 64
}

func c16ShowIntList(l []int) string {
	p := make([]string, len(l))
	for i, n := range l {
		p[i] = strconv.Itoa(n)
	}
	return strings.Join(p, ".")
}

// the sizes of the input batches of a case
func c16BatchSizes(bs int, lay []int, n int) []int {
	if lay != nil {
		return lay
	}
	var out []int
	for n > 0 {
		k := bs
		if k > n {
			k = n
		}
		out = append(out, k)
		n -= k
	}
	return out
}

func c16LayPermOK(bs int, lay, perm []int, n int) bool {
	if lay != nil {
		sum := 0
		for _, k := range lay {
			sum += k
		}
		if sum != n {
			return false
		}
	}
	if perm != nil {
		k := len(c16BatchSizes(bs, lay, n))
		if len(perm) != k {
			return false
		}
		seen := make([]bool, k)
		for _, i := range perm {
			if i < 0 || i >= k || seen[i] {
				return false
			}
			seen[i] = true
		}
	}
	return true
}

func c16LayoutOK(sp *c16Spec, n int) bool { return c16LayPermOK(sp.bs, sp.lay, sp.perm, n) }

// the input iterator of a pipeline case: explicit batches numbered 0,1,2,… pushed in the order perm
func c16SourceOf(bs int, lay, perm []int, sl []*obiseq.BioSequence) obiiter.IBioSequence {
	sizes := c16BatchSizes(bs, lay, len(sl))
	batches := make([]obiiter.BioSequenceBatch, len(sizes))
	at := 0
	for i, k := range sizes {
		b := obiseq.MakeBioSequenceSlice()
		b = append(b, sl[at:at+k]...)
		batches[i] = obiiter.MakeBioSequenceBatch("verif", i, b)
		at += k
	}
	order := perm
	if order == nil {
		order = make([]int, len(sizes))
		for i := range order {
			order[i] = i
		}
	}
	it := obiiter.MakeIBioSequence()
	it.Add(1)
	go func() {
		for _, i := range order {
			it.Push(batches[i])
		}
		it.Done()
	}()
	go it.WaitAndClose()
	return it
}

func c16Source(sp *c16Spec, sl []*obiseq.BioSequence) obiiter.IBioSequence {
	return c16SourceOf(sp.bs, sp.lay, sp.perm, sl)
}

var c16IdRe = regexp.MustCompile(`^[A-Za-z0-9_]+$`)

func c16SeqOK(q []byte) bool {
	if len(q) == 0 {
		return false
	}
	for _, b := range q {
		if b < 'a' || b > 'z' {
			return false
		}
	}
	return true
}

func c16NewDir(what string) string {
	c16Serial++
	dir := filepath.Join(c16TmpDir(), fmt.Sprintf("%s%d", what, c16Serial))
	os.MkdirAll(dir, 0o755)
	return dir
}

// ---------------------------------------------------------------------------------------------
// obiannotate end to end: CLIAnnotationPipeline piped on the input, CLIWriteBioSequences

func (c16) execAnnotIO(sp *c16Spec, recs []c16Pair) (string, []Fail) {
	tab := &c16Table{}
	ren, tag := c16SortedPairs(sp.ren), c16SortedPairs(sp.tag)
	if !c16LayoutOK(sp, len(recs)) || !c16PatSeqOK(sp, recs) {
		return "bad-op", nil
	}
	var exp []string
	runnable := true
	for _, p := range recs {
		if !c16IdRe.MatchString(p.r.id) || !c16SeqOK(p.r.seq) {
			return "bad-op", nil
		}
		acc, _ := c16Selects(sp, c16Pair{r: p.r}, tab)
		ed := c16RefAnnot(sp, p.r, tab, ren, tag)
		switch {
		case acc == "0":
		case acc == "1" && ed == "absent":
		case acc == "1" && strings.HasPrefix(ed, "out:"):
			exp = append(exp, ed)
		default:
			runnable = false // a panic or a log.Fatal inside a worker goroutine: not an end-to-end case
		}
	}
	caseOverride = "annotio " + strings.Join(sp.toks(), " ") + " | " + c16ShowRecs(recs) + " | " + tab.String()
	if !runnable {
		return "bad-op", nil
	}
	dir := c16NewDir("an")
	defer os.RemoveAll(dir)
	outFn := filepath.Join(dir, "out.fasta")
	sp.io, sp.nosd, sp.out = true, true, outFn
	if st := c16Parse(sp, true); st != "ok" {
		return st, nil
	}
	var got []string
	var fails []Fail
	st := guardT(20*time.Second, func() string {
		sl := make([]*obiseq.BioSequence, len(recs))
		for i, p := range recs {
			sl[i] = p.r.bio()
		}
		it := c16Source(sp, sl)
		annotator := obiannotate.CLIAnnotationPipeline()
		written, err := obiconvert.CLIWriteBioSequences(it.Pipe(annotator), false)
		if err != nil {
			return "error"
		}
		byOrder := map[int][]string{}
		n := 0
		for written.Next() {
			b := written.Get()
			if _, dup := byOrder[b.Order()]; dup {
				fails = append(fails, Fail{Sig: "annotio.order", Text: fmt.Sprintf("two output batches carry the number %d", b.Order())})
			}
			var l []string
			for _, s := range b.Slice() {
				r := c16FromBio(s)
				for _, v := range r.attrs {
					if v.kind == 'x' {
						return "unsupported"
					}
				}
				l = append(l, "out:"+r.show())
			}
			byOrder[b.Order()] = l
			n++
		}
		obiiter.WaitForLastPipe()
		for i := 0; i < n; i++ {
			l, ok := byOrder[i]
			if !ok {
				fails = append(fails, Fail{Sig: "annotio.order", Text: fmt.Sprintf("the output batches are not numbered 0..%d: %d is missing", n-1, i)})
			}
			got = append(got, l...)
		}
		return "ok"
	})
	if st != "ok" {
		return st, []Fail{{Sig: "annotio." + st, Text: "the annotation pipeline ended with " + st}}
	}
	show := func(l []string) string {
		if len(l) == 0 {
			return "-"
		}
		return strings.Join(l, " ")
	}
	if show(got) != show(exp) {
		fails = append(fails, Fail{Sig: "annotio.records." + c16Kinds(sp), Text: fmt.Sprintf("records delivered: %s, expected %s", show(got), show(exp))})
	}
	// the file holds the same records in the same order (ids compared when they survive a FASTA header)
	var expIds []string
	idsOK := true
	for _, e := range exp {
		r, _ := c16ParseRec(strings.TrimPrefix(e, "out:"))
		idsOK = idsOK && c16IdRe.MatchString(r.id)
		expIds = append(expIds, r.id)
	}
	if idsOK {
		ids, ok := c16ReadIds(outFn)
		if !ok {
			fails = append(fails, Fail{Sig: "annotio.missing-file", Text: "output file not written"})
		} else if strings.Join(ids, ",") != strings.Join(expIds, ",") {
			fails = append(fails, Fail{Sig: "annotio.file." + c16Kinds(sp), Text: fmt.Sprintf("file: %v, expected %v", ids, expIds)})
		}
	}
	caseTrivial = len(recs) == 0
	return show(got), fails
}

// ---------------------------------------------------------------------------------------------
// obidistribute end to end

type c16Dist struct {
	cl, dir, na    string
	naSet          bool
	n, h           int
	pre, suf       string
	z, long        bool
	bs, w          int
	lay, perm      []int
	toks           []string
	app            bool                // --append
	raw            string              // rawpat=: the pattern as it is typed (any mix of text, %% and verbs)
	hasRaw, rawOK  bool                // rawOK: the reference accepts it (text, %%, exactly one %s)
	old            [][2]string         // files present before the run: name, ids joined by '.'
}

var c16PatRe = regexp.MustCompile(`^[A-Za-z0-9_.]*$`)

// a pattern as it is typed: text, '%', and what a formatting verb may hold
var c16RawPatRe = regexp.MustCompile(`^[A-Za-z0-9_][A-Za-z0-9_.%\[\]+-]*$`)

// reference reading of a typed pattern (independent of fmt): text, %% = a percent sign, exactly one %s;
// anything else does not print the class value once and in full and must be refused
func c16SplitPattern(p string) (pre, suf string, ok bool) {
	verbs := 0
	var cur strings.Builder
	for i := 0; i < len(p); i++ {
		if p[i] != '%' {
			cur.WriteByte(p[i])
			continue
		}
		if i+1 >= len(p) {
			return "", "", false
		}
		i++
		switch p[i] {
		case '%':
			cur.WriteByte('%')
		case 's':
			verbs++
			if verbs > 1 {
				return "", "", false
			}
			pre = cur.String()
			cur.Reset()
		default:
			return "", "", false
		}
	}
	return pre, cur.String(), verbs == 1
}

// class values that are plain file name parts (a dot is allowed after the first character: x.gz)
var c16KeyRe = regexp.MustCompile(`^[A-Za-z0-9_][A-Za-z0-9_.:]*$`)

// directory values: plain names, ':' allowed after the first character
var c16DirRe = regexp.MustCompile(`^[A-Za-z0-9_][A-Za-z0-9_:]*$`)

// identifiers of the records present before the run (the records of a case never start with "old")
var c16OldIdRe = regexp.MustCompile(`^old[0-9]+$`)

// a file present before the run: plain name or dir/name
var c16OldNameRe = regexp.MustCompile(`^([A-Za-z0-9_]+/)?[A-Za-z0-9_][A-Za-z0-9_.]*$`)

func c16ParseDist(ws []string) (*c16Dist, bool) {
	d := &c16Dist{na: "NA", bs: 3, w: 2, toks: ws}
	seen := map[string]bool{}
	for _, w := range ws {
		kv := strings.SplitN(w, "=", 2)
		if seen[kv[0]] {
			return nil, false
		}
		seen[kv[0]] = true
		if len(kv) == 1 {
			switch w {
			case "z":
				d.z = true
			case "long":
				d.long = true
			case "A":
				d.app = true
			default:
				return nil, false
			}
			continue
		}
		x := kv[1]
		num := func(lo, hi int) (int, bool) {
			n, err := strconv.Atoi(x)
			return n, err == nil && c16CanonInt(x) && n >= lo && n <= hi
		}
		ok := true
		switch kv[0] {
		case "cl":
			d.cl, ok = c16Ascii(x)
			ok = ok && c16ArgOK(d.cl)
		case "dir":
			d.dir, ok = c16Ascii(x)
			ok = ok && c16ArgOK(d.dir)
		case "na":
			d.na, ok = c16Ascii(x)
			ok = ok && c16ArgOK(d.na)
			d.naSet = true
		case "n":
			d.n, ok = num(1, 64)
		case "H":
			d.h, ok = num(1, 64)
		case "bs":
			d.bs, ok = num(1, 50)
		case "w":
			d.w, ok = num(1, 8)
		case "lay":
			d.lay, ok = c16IntList(x)
		case "perm":
			d.perm, ok = c16IntList(x)
		case "old":
			for _, f := range strings.Split(x, ",") {
				q := strings.Split(f, ":")
				if len(q) != 2 {
					return nil, false
				}
				name, ok1 := c16Ascii(q[0])
				if !ok1 || !c16OldNameRe.MatchString(name) {
					return nil, false
				}
				for _, o := range d.old {
					if o[0] == name {
						return nil, false
					}
				}
				var ids []string
				if q[1] != "-" {
					for _, h := range strings.Split(q[1], ".") {
						id, ok2 := c16Ascii(h)
						if !ok2 || !c16OldIdRe.MatchString(id) {
							return nil, false
						}
						ids = append(ids, id)
					}
				}
				d.old = append(d.old, [2]string{name, strings.Join(ids, ".")})
			}
			seenOld := map[string]bool{}
			for _, o := range d.old {
				if o[1] == "" {
					continue
				}
				for _, id := range strings.Split(o[1], ".") {
					if seenOld[id] {
						return nil, false
					}
					seenOld[id] = true
				}
			}
		case "rawpat":
			d.raw, ok = c16Ascii(x)
			ok = ok && c16RawPatRe.MatchString(d.raw)
			d.hasRaw = true
			d.pre, d.suf, d.rawOK = c16SplitPattern(d.raw)
		case "pat":
			p := strings.Split(x, ":")
			if len(p) != 2 {
				return nil, false
			}
			var ok1, ok2 bool
			d.pre, ok1 = c16Ascii(p[0])
			d.suf, ok2 = c16Ascii(p[1])
			ok = ok1 && ok2 && c16PatRe.MatchString(d.pre) && c16PatRe.MatchString(d.suf) && d.pre != "" && d.pre[0] != '.'
		default:
			return nil, false
		}
		if !ok {
			return nil, false
		}
	}
	if seen["pat"] == seen["rawpat"] || (d.cl == "" && d.n == 0 && d.h == 0) || (d.dir != "" && d.cl == "") {
		return nil, false
	}
	return d, true
}

func (d *c16Dist) argv() []string {
	av := []string{"verif"}
	opt := func(short, long, val string) {
		if d.long || short == "" {
			av = append(av, "--"+long+"="+val)
		} else {
			av = append(av, "-"+short, val)
		}
	}
	if d.hasRaw {
		opt("p", "pattern", d.raw)
	} else {
		opt("p", "pattern", d.pre+"%s"+d.suf)
	}
	if d.cl != "" {
		opt("c", "classifier", d.cl)
	}
	if d.dir != "" {
		opt("d", "directory", d.dir)
	}
	if d.naSet {
		opt("", "na-value", d.na)
	}
	if d.n > 0 {
		opt("n", "batches", strconv.Itoa(d.n))
	}
	if d.h > 0 {
		opt("H", "hash", strconv.Itoa(d.h))
	}
	if d.z {
		if d.long {
			av = append(av, "--compress")
		} else {
			av = append(av, "-Z")
		}
	}
	if d.app {
		if d.long {
			av = append(av, "--append")
		} else {
			av = append(av, "-A")
		}
	}
	opt("", "batch-size", strconv.Itoa(d.bs))
	if d.w == 1 {
		av = append(av, "--force-one-cpu")
	} else {
		opt("", "max-cpu", strconv.Itoa(d.w))
	}
	return av
}

// reference: the output file of the record of rank i, from the options and the record alone
func (d *c16Dist) refFile(i int, r c16Rec) (string, bool) {
	key, dir := "", ""
	switch {
	case d.cl != "":
		key = d.na
		if v, ok := r.attrs[d.cl]; ok {
			key = v.shown()
		}
		if d.dir != "" && len(r.attrs) > 0 { // a record without any annotation has no directory (as the code does)
			dir = d.na
			if v, ok := r.attrs[d.dir]; ok {
				dir = v.shown()
			}
		}
	case d.n > 0:
		key = strconv.Itoa(i%d.n + 1)
	default:
		key = strconv.Itoa(int(crc32.ChecksumIEEE(r.seq) % uint32(d.h)))
	}
	if !c16KeyRe.MatchString(key) || (dir != "" && !c16DirRe.MatchString(dir)) {
		return "", false
	}
	// compressed output: every file name ends with .gz — the pattern says so itself, or .gz is appended
	name := d.pre + key + d.suf
	pattern := d.pre + "%s" + d.suf
	if d.hasRaw {
		pattern = d.raw
	}
	if d.z && !strings.HasSuffix(pattern, ".gz") {
		name += ".gz"
	}
	if dir != "" {
		name = dir + "/" + name
	}
	return name, true
}

func c16ReadIdsZ(fn string) ([]string, bool) {
	f, err := os.Open(fn)
	if err != nil {
		return nil, false
	}
	defer f.Close()
	br := bufio.NewReader(f)
	var rd io.Reader = br
	if magic, err := br.Peek(2); err == nil && magic[0] == 0x1f && magic[1] == 0x8b {
		gz, err := gzip.NewReader(br)
		if err != nil {
			return nil, false
		}
		rd = gz
	}
	var ids []string
	sc := bufio.NewScanner(rd)
	sc.Buffer(make([]byte, 1<<16), 1<<24)
	for sc.Scan() {
		l := sc.Text()
		if strings.HasPrefix(l, ">") || strings.HasPrefix(l, "@") {
			ids = append(ids, strings.Fields(l[1:] + " ")[0])
		}
	}
	return ids, true
}

func (c16) execDistIO(ws []string, recs []c16Pair) (string, []Fail) {
	d, ok := c16ParseDist(ws)
	if !ok || !c16LayPermOK(d.bs, d.lay, d.perm, len(recs)) {
		return "bad-op", nil
	}
	expFiles := map[string][]string{}
	seenId := map[string]bool{}
	for i, p := range recs {
		if p.mate != nil || !c16IdRe.MatchString(p.r.id) || !c16SeqOK(p.r.seq) || seenId[p.r.id] || strings.HasPrefix(p.r.id, "old") {
			return "bad-op", nil
		}
		seenId[p.r.id] = true
		fn, ok := d.refFile(i, p.r)
		if !ok {
			return "bad-op", nil // a class value that is not a plain file name
		}
		expFiles[fn] = append(expFiles[fn], p.r.id)
	}
	// a typed pattern that does not print the class value once and in full: the command must stop (no file,
	// no record silently lost); if it runs all the same, the property still asks for every record exactly once
	refused := d.hasRaw && !d.rawOK
	if refused && (d.app || len(d.old) > 0) {
		return "bad-op", nil
	}
	// --append: the old content of a file of the run is kept in front; without it, it is lost; the files the
	// run does not write are untouched
	for _, o := range d.old {
		var ids []string
		if o[1] != "" {
			ids = strings.Split(o[1], ".")
		}
		if routed, ok := expFiles[o[0]]; ok {
			if d.app {
				expFiles[o[0]] = append(append([]string{}, ids...), routed...)
			}
		} else {
			expFiles[o[0]] = ids
		}
	}
	dir := c16NewDir("di")
	defer os.RemoveAll(dir)
	for _, o := range d.old {
		fn := filepath.Join(dir, o[0])
		os.MkdirAll(filepath.Dir(fn), 0o755)
		var b strings.Builder
		if o[1] != "" {
			for _, id := range strings.Split(o[1], ".") {
				b.WriteString(">" + id + "\nacgt\n")
			}
		}
		data := []byte(b.String())
		if d.z { // without -Z the writers write plain text whatever the name of the file
			var zb strings.Builder
			zw := gzip.NewWriter(&zb)
			zw.Write(data)
			zw.Close()
			data = []byte(zb.String())
		}
		os.WriteFile(fn, data, 0o644)
	}
	cwd, err := os.Getwd()
	if err != nil || os.Chdir(dir) != nil {
		return "bad-op", nil
	}
	defer os.Chdir(cwd)
	c16Reset()
	obidistribute.VerifResetOptions()
	st := guardT(20*time.Second, func() string {
		_, rest := obioptions.GenerateOptionParser(obidistribute.OptionSet)(d.argv())
		if len(rest) != 0 {
			return "rest"
		}
		if d.hasRaw {
			// CLIDistributeSequence calls CLIFileNamePattern (a function of the option globals alone) once the
			// pipeline is started; in the command its panic ends the process.  Here it is called first, so that
			// a refused pattern does not leave a started pipeline behind in the harness process.
			obidistribute.CLIFileNamePattern()
		}
		sl := make([]*obiseq.BioSequence, len(recs))
		for i, p := range recs {
			sl[i] = p.r.bio()
		}
		obidistribute.CLIDistributeSequence(c16SourceOf(d.bs, d.lay, d.perm, sl))
		obiiter.WaitForLastPipe()
		return "ok"
	})
	if refused && st == "panic" {
		stat("distio.pattern-refused")
		return "panic", nil
	}
	if st != "ok" {
		return st, []Fail{{Sig: "distio." + st, Text: "obidistribute ended with " + st}}
	}
	got := map[string][]string{}
	var names []string
	filepath.WalkDir(dir, func(path string, e fs.DirEntry, err error) error {
		if err == nil && !e.IsDir() {
			rel, _ := filepath.Rel(dir, path)
			ids, _ := c16ReadIdsZ(path)
			got[rel] = ids
			names = append(names, rel)
		}
		return nil
	})
	sort.Strings(names)
	var fails []Fail
	show := func(ids []string) string {
		if len(ids) == 0 {
			return "-"
		}
		return strings.Join(ids, ",")
	}
	var res []string
	count := map[string]int{}
	for _, n := range names {
		res = append(res, n+"="+show(got[n]))
		for _, id := range got[n] {
			count[id]++
		}
		if _, ok := expFiles[n]; !ok && !refused {
			fails = append(fails, Fail{Sig: "distio.unexpected-file", Text: "file " + n + " is not the file of any record"})
		}
	}
	for _, p := range recs {
		if count[p.r.id] != 1 {
			fails = append(fails, Fail{Sig: "distio.partition", Text: fmt.Sprintf("record %s is written %d times", p.r.id, count[p.r.id])})
			break
		}
	}
	for n, ids := range expFiles {
		if refused {
			break
		}
		if show(got[n]) != show(ids) {
			fails = append(fails, Fail{Sig: "distio.routing", Text: fmt.Sprintf("file %s: %s, expected %s", n, show(got[n]), show(ids))})
			break
		}
	}
	caseTrivial = len(recs) == 0
	if len(res) == 0 {
		return "-", fails
	}
	return strings.Join(res, " "), fails
}

// ---------------------------------------------------------------------------------------------
// generator of the pipeline cases

// n records with distinct identifiers and non-empty sequences
func c16ManyRecs(rng *rand.Rand, paired bool, n int) []c16Pair {
	ps := make([]c16Pair, n)
	for i := range ps {
		id := c16Ids[rng.Intn(len(c16Ids))]
		if i >= 0 {
			id = fmt.Sprintf("%s_%d", id, i)
		}
		ps[i].r = c16RandRec(rng, id)
		if len(ps[i].r.seq) == 0 {
			ps[i].r.seq = []byte("a")
		}
		if paired {
			m := c16RandRec(rng, id+"m")
			if len(m.seq) == 0 {
				m.seq = []byte("tt")
			}
			ps[i].mate = &m
		}
	}
	return ps
}

// c16Blocks reorders the records so that those rejected (verdict false) fill whole batches placed
// according to a pattern (R = a batch of rejected records only, M = a batch with at least one kept
// record, 0 = an empty batch), and returns the records and the sizes of the batches.
func c16Blocks(rng *rand.Rand, recs []c16Pair, keep []bool) ([]c16Pair, []int, string) {
	var K, R []c16Pair
	for i, p := range recs {
		if keep[i] {
			K = append(K, p)
		} else {
			R = append(R, p)
		}
	}
	patterns := []string{"RM", "MR", "MRM", "RMR", "MRRM", "RRM", "MRR", "RMRM", "MRMRM", "R0M", "M0RM", "MR0"}
	pat := patterns[rng.Intn(len(patterns))]
	nR, nM := strings.Count(pat, "R"), strings.Count(pat, "M")
	if len(K) < nM || len(R) < nR {
		return nil, nil, ""
	}
	var out []c16Pair
	var lay []int
	for _, c := range pat {
		switch c {
		case '0':
			lay = append(lay, 0)
		case 'R':
			nR--
			k := 1 + rng.Intn(3)
			if k > len(R)-nR { // one record at least is left for each R batch to come
				k = len(R) - nR
			}
			if nR == 0 && nM == 0 {
				k = len(R)
			}
			out = append(out, R[:k]...)
			R = R[k:]
			lay = append(lay, k)
		case 'M':
			nM--
			k := 1 + rng.Intn(2)
			if k > len(K)-nM {
				k = len(K) - nM
			}
			if nM == 0 {
				k = len(K)
			}
			b := append([]c16Pair{}, K[:k]...)
			K = K[k:]
			j := 0
			if rng.Intn(3) == 0 {
				j = rng.Intn(len(R) - nR + 1)
			}
			if nM == 0 && nR == 0 {
				j = len(R)
			}
			b = append(b, R[:j]...)
			R = R[j:]
			rng.Shuffle(len(b), func(x, y int) { b[x], b[y] = b[y], b[x] })
			out = append(out, b...)
			lay = append(lay, len(b))
		}
	}
	if len(K) > 0 || len(out) != len(recs)-len(R) {
		return nil, nil, ""
	}
	if len(R) > 0 { // pattern ending with R batches and rejected records left: they join the last batch
		out = append(out, R...)
		lay[len(lay)-1] += len(R)
		if pat[len(pat)-1] == '0' {
			return nil, nil, ""
		}
	}
	return out, lay, pat
}

func c16RandPerm(rng *rand.Rand, k int) []int {
	if k < 2 || rng.Intn(2) == 0 {
		return nil
	}
	return rng.Perm(k)
}

// one grepio / annotio case with fully rejected batches; "" when the draw has no rejected or no kept record
func c16BlockCase(rng *rand.Rand, op string, join func(string, []string, []c16Pair) string) string {
	paired := op == "grepio" && rng.Intn(3) == 0
	recs := c16ManyRecs(rng, paired, 7+rng.Intn(10))
	var toks []string
	if paired {
		toks = append(toks, "paired", "pm="+hs(c16Modes[rng.Intn(6)]))
	}
	kinds := []string{"l", "L", "c", "C", "s", "I", "A", "a", "idl", "v", "D", "l", "A"}
	nk := 1 + rng.Intn(2)
	for _, i := range rng.Perm(len(kinds))[:nk] {
		toks = append(toks, c16Opt(rng, kinds[i], recs)...)
	}
	sel := append([]string{}, toks...)
	if op == "annotio" {
		ek := []string{"clear", "setid", "del", "keep", "ren", "len", "tag", "cut"}
		for _, i := range rng.Perm(len(ek))[:1+rng.Intn(2)] {
			toks = append(toks, c16Opt(rng, ek[i], recs)...)
		}
	}
	sp, ok := c16ParseSpec(sel)
	if !ok {
		return ""
	}
	tab := &c16Table{}
	keep := make([]bool, len(recs))
	for i, p := range recs {
		acc, _ := c16Selects(sp, p, tab)
		if acc != "0" && acc != "1" {
			return ""
		}
		keep[i] = acc == "1"
	}
	bs := 1 + rng.Intn(4)
	var out []c16Pair
	var lay []int
	if paired {
		// PairTo re-batches both inputs by --batch-size: with batches of one pair every rejected pair is a
		// batch entirely rejected; with two, when both pairs of a batch are
		bs = 1 + rng.Intn(2)
		nk := 0
		for _, k := range keep {
			if k {
				nk++
			}
		}
		if nk == 0 || nk == len(keep) {
			return ""
		}
		out = recs
		stat(op + ".blocks.paired")
	} else {
		var pat string
		out, lay, pat = c16Blocks(rng, recs, keep)
		if out == nil {
			return ""
		}
		stat(op + ".blocks." + pat)
	}
	toks = append(toks, fmt.Sprintf("bs=%d", bs), fmt.Sprintf("w=%d", 1+rng.Intn(8)))
	nb := len(lay)
	if lay != nil {
		toks = append(toks, "lay="+c16ShowIntList(lay))
	} else {
		nb = len(c16BatchSizes(bs, nil, len(out)))
	}
	if pm := c16RandPerm(rng, nb); pm != nil {
		toks = append(toks, "perm="+c16ShowIntList(pm))
	}
	if op == "grepio" && rng.Intn(4) != 0 {
		toks = append(toks, "nosd")
	}
	return join(op, toks, out)
}

// one grepio case for two given predicate builders (and -v / a paired mode) on a multi-batch input: whole
// batches of rejected records when the draw has both kept and rejected records, a random layout otherwise;
// "" when an expression cannot be evaluated on a record of the draw
func c16PairCase(rng *rand.Rand, k1, k2 string, invert bool, mode string, join func(string, []string, []c16Pair) string) (string, bool) {
	paired := mode != ""
	recs := c16ManyRecs(rng, paired, 6+rng.Intn(8))
	if k1 == "r" || k1 == "i" || k1 == "rank" || k2 == "r" || k2 == "i" || k2 == "rank" {
		for j := range recs { // most records carry a taxid
			if rng.Intn(4) != 0 {
				recs[j].r.attrs["taxid"] = c16Val{kind: 'i', n: c16Taxids[rng.Intn(len(c16Taxids))]}
			}
			if paired && rng.Intn(4) != 0 {
				recs[j].mate.attrs["taxid"] = c16Val{kind: 'i', n: c16Taxids[rng.Intn(len(c16Taxids))]}
			}
		}
	}
	var toks []string
	if paired {
		toks = append(toks, "paired", "pm="+hs(mode))
	}
	toks = append(toks, c16Opt(rng, k1, recs)...)
	if k2 != k1 {
		toks = append(toks, c16Opt(rng, k2, recs)...)
	}
	if invert && k1 != "v" && k2 != "v" {
		toks = append(toks, "v")
	}
	// single-valued tokens may come from both builders (pe / indel / fwd of two ap draws)
	seen := map[string]bool{}
	var uniq []string
	for _, t := range toks {
		k := strings.SplitN(t, "=", 2)[0]
		if (k == "pe" || k == "indel" || k == "fwd" || k == "v" || k == "l" || k == "L" || k == "c" || k == "C" || k == "idl") && seen[k] {
			continue
		}
		seen[k] = true
		uniq = append(uniq, t)
	}
	toks = uniq
	sp, ok := c16ParseSpec(toks)
	if !ok {
		return "", false
	}
	tab := &c16Table{}
	keep := make([]bool, len(recs))
	nk := 0
	for i, p := range recs {
		acc, _ := c16Selects(sp, p, tab)
		if acc != "0" && acc != "1" {
			return "", false
		}
		for _, e := range sp.p {
			if tab.evalBool(e, p.r) == "E" || (p.mate != nil && tab.evalBool(e, *p.mate) == "E") {
				return "", false
			}
		}
		keep[i] = acc == "1"
		if keep[i] {
			nk++
		}
	}
	mixed := nk > 0 && nk < len(recs)
	if !paired {
		if out, lay, pat := c16Blocks(rng, recs, keep); out != nil {
			toks = append(toks, fmt.Sprintf("bs=%d", 1+rng.Intn(4)), fmt.Sprintf("w=%d", 1+rng.Intn(8)), "lay="+c16ShowIntList(lay))
			if pm := c16RandPerm(rng, len(lay)); pm != nil {
				toks = append(toks, "perm="+c16ShowIntList(pm))
			}
			_ = pat
			recs = out
		} else {
			toks = append(toks, c16RandLayout(rng, len(recs))...)
		}
	} else {
		// PairTo re-batches both inputs by --batch-size
		bs := 1 + rng.Intn(3)
		toks = append(toks, fmt.Sprintf("bs=%d", bs), fmt.Sprintf("w=%d", 1+rng.Intn(8)))
		if pm := c16RandPerm(rng, len(c16BatchSizes(bs, nil, len(recs)))); pm != nil {
			toks = append(toks, "perm="+c16ShowIntList(pm))
		}
	}
	if rng.Intn(2) == 0 {
		toks = append(toks, "nosd")
	}
	return join("grepio", toks, recs), mixed
}

func c16GenPipe(rng *rand.Rand, tier string, emit func(string), join func(string, []string, []c16Pair) string) {
	// corpus: whole batches rejected at the beginning / middle / end, with and without --save-discarded
	for _, c := range []string{
		"grepio l=3 bs=2 w=1 nosd lay=2.2.2 | 61,6163,- ; 62,61,- ; 63,61636774,- ; 64,616374,- ; 65,6161,- ; 66,74,-",
		"grepio l=3 bs=2 w=2 nosd lay=2.2.2 | 61,61636774,- ; 62,616374,- ; 63,6163,- ; 64,61,- ; 65,616161,- ; 66,74747474,-",
		"grepio l=3 bs=2 w=4 nosd lay=2.2.2 | 61,61636774,- ; 62,616374,- ; 63,616163,- ; 64,61616161,- ; 65,61,- ; 66,74,-",
		"grepio l=3 bs=3 w=8 nosd lay=1.0.2.1 perm=3.1.0.2 | 61,61636774,- ; 62,61,- ; 63,6363,- ; 64,74747474,-",
		"grepio l=3 bs=2 w=2 lay=2.2.2 | 61,61636774,- ; 62,616374,- ; 63,6163,- ; 64,61,- ; 65,616161,- ; 66,74747474,-",
		"grepio l=3 v bs=2 w=3 nosd lay=2.2 | 61,61636774,- ; 62,616374,- ; 63,6163,- ; 64,61,-",
		"grepio paired pm=616e64 l=3 bs=1 w=3 nosd | 61,61636774,- + 616d,616367,- ; 62,61,- + 626d,61616161,- ; 63,61616161,- + 636d,616161,-",
		"grepio paired pm=786f72 l=3 bs=2 w=2 nosd perm=1.0 | 61,61636774,- + 616d,616367,- ; 62,6161,- + 626d,61,- ; 63,61616161,- + 636d,61,- ; 64,61,- + 646d,616161,-",
		"annotio l=3 len bs=2 w=2 lay=2.2.2 | 61,61636774,- ; 62,616374,- ; 63,6163,- ; 64,61,- ; 65,616161,- ; 66,74747474,-",
		"annotio l=3 tag=74:73657175656e63652e4c656e2829 bs=2 w=4 lay=2.2.2 perm=2.0.1 | 61,6163,- ; 62,61,- ; 63,616161,- ; 64,74747474,- ; 65,6161,- ; 66,74,-",
		"annotio cut=2:3 bs=1 w=2 | 61,61636774,- ; 62,61,- ; 63,616374,-",
		"annotio clear bs=3 w=1 | 61,61636774,6b=i3 ; 62,6163,73616d706c65=s41",
		"distio pat=6f75745f:2e6661737461 cl=73616d706c65 bs=2 w=2 | 61,6163,73616d706c65=s41 ; 62,6163,- ; 63,6163,6b=i1 ; 64,6163,73616d706c65=s42 ; 65,61,73616d706c65=s41",
		"distio pat=6f75745f:2e6661737461 cl=73616d706c65 dir=6b na=6e6f6e65 bs=2 w=2 lay=1.3.1 perm=2.0.1 | 61,6163,73616d706c65=s41;6b=i2 ; 62,6163,- ; 63,6163,6b=i1 ; 64,6163,73616d706c65=s42 ; 65,61,73616d706c65=s41;6b=i2",
		"distio pat=62:- n=3 bs=2 w=2 lay=0.4.3 perm=2.1.0 | 61,6163,- ; 62,6163,- ; 63,6163,- ; 64,6163,- ; 65,61,- ; 66,63,- ; 67,67,-",
		"distio pat=68:2e6661 H=4 z bs=2 w=2 | 61,6163,- ; 62,61636774,- ; 63,74,- ; 64,6163,- ; 65,61,-",
		"distio pat=68:2e66612e677a H=1 z long bs=5 w=1 | 61,6163,- ; 62,61636774,-",
		// -Z and a pattern that does not end with .gz: the classes x and x.gz had the same file (the decision to
		// append .gz was taken on the formatted name)
		"distio pat=61:- cl=73616d706c65 z bs=2 w=2 | 72315f30,61636774,73616d706c65=s78 ; 72325f31,61636774,73616d706c65=s782e677a ; 72335f32,6163,73616d706c65=s78 ; 72345f33,6767,73616d706c65=s782e677a",
		"distio pat=61:2e66 cl=73616d706c65 z bs=1 w=2 | 72315f30,61636774,73616d706c65=s78 ; 72325f31,61636774,73616d706c65=s782e677a",
		// class values holding a separator: (S1, lib:A) and (S1:lib, A) are two classes
		"distio pat=6f5f:2e6661 cl=73616d706c65 dir=72756e bs=2 w=2 | 72315f30,61636774,73616d706c65=s5331;72756e=s6c69623a41 ; 72325f31,61636774,73616d706c65=s53313a6c6962;72756e=s41 ; 72335f32,6163,73616d706c65=s5331;72756e=s6c69623a41 ; 72345f33,6767,73616d706c65=s53313a6c6962;72756e=s41",
		"distio pat=6f5f:2e6661 cl=73616d706c65 dir=72756e bs=2 w=2 perm=1.0 | 72325f31,61636774,73616d706c65=s53313a6c6962;72756e=s41 ; 72315f30,61636774,73616d706c65=s5331;72756e=s6c69623a41 ; 72335f32,6163,73616d706c65=s5331;72756e=s6c69623a41",
		// --append: old content kept in front / lost without it; untouched files stay
		"distio pat=6f75745f:2e6661737461 cl=73616d706c65 A old=6f75745f412e6661737461:6f6c6431.6f6c6432,6f746865722e6661737461:6f6c6433 bs=2 w=2 | 61,6163,73616d706c65=s41 ; 62,6163,- ; 63,6163,73616d706c65=s41",
		"distio pat=6f75745f:2e6661737461 cl=73616d706c65 old=6f75745f412e6661737461:6f6c6431.6f6c6432,6f746865722e6661737461:6f6c6433 bs=2 w=2 | 61,6163,73616d706c65=s41 ; 62,6163,- ; 63,6163,73616d706c65=s41",
		"distio pat=62:- n=2 z A old=62312e677a:6f6c6431 bs=2 w=2 | 61,6163,- ; 62,6163,- ; 63,6163,-",
		// the pattern as it is typed: text, %% and exactly one %s are accepted; anything else (no verb: the unrepaired code wrote out.fasta%!(EXTRA string=A)...;
		// %.0s / %[2]s: every class got the same file and the records of all classes but one were lost) must stop the command
		"distio rawpat=6f75745f25732e6661737461 cl=73616d706c65 z bs=2 w=2 | 61,6163,73616d706c65=s41 ; 62,6163,- ; 63,6163,6b=i1 ; 64,6163,73616d706c65=s42 ; 65,61,73616d706c65=s41",
		"distio rawpat=6f75745f25732e6661737461 n=2 bs=2 w=3 | 61,6163,73616d706c65=s41 ; 62,6163,- ; 63,6163,6b=i1 ; 64,6163,73616d706c65=s42 ; 65,61,73616d706c65=s41",
		"distio rawpat=7025255f25732e6661 cl=73616d706c65 z bs=2 w=2 | 61,6163,73616d706c65=s41 ; 62,6163,- ; 63,6163,6b=i1 ; 64,6163,73616d706c65=s42 ; 65,61,73616d706c65=s41",
		"distio rawpat=7025255f25732e6661 n=2 bs=2 w=3 | 61,6163,73616d706c65=s41 ; 62,6163,- ; 63,6163,6b=i1 ; 64,6163,73616d706c65=s42 ; 65,61,73616d706c65=s41",
		"distio rawpat=78257325252e677a cl=73616d706c65 z bs=2 w=2 | 61,6163,73616d706c65=s41 ; 62,6163,- ; 63,6163,6b=i1 ; 64,6163,73616d706c65=s42 ; 65,61,73616d706c65=s41",
		"distio rawpat=78257325252e677a n=2 bs=2 w=3 | 61,6163,73616d706c65=s41 ; 62,6163,- ; 63,6163,6b=i1 ; 64,6163,73616d706c65=s42 ; 65,61,73616d706c65=s41",
		"distio rawpat=5225252573 cl=73616d706c65 z bs=2 w=2 | 61,6163,73616d706c65=s41 ; 62,6163,- ; 63,6163,6b=i1 ; 64,6163,73616d706c65=s42 ; 65,61,73616d706c65=s41",
		"distio rawpat=5225252573 n=2 bs=2 w=3 | 61,6163,73616d706c65=s41 ; 62,6163,- ; 63,6163,6b=i1 ; 64,6163,73616d706c65=s42 ; 65,61,73616d706c65=s41",
		"distio rawpat=6f75742e6661737461 cl=73616d706c65 bs=2 w=2 | 61,6163,73616d706c65=s41 ; 62,6163,- ; 63,6163,6b=i1 ; 64,6163,73616d706c65=s42 ; 65,61,73616d706c65=s41",
		"distio rawpat=6f7574252e30732e6661737461 cl=73616d706c65 bs=2 w=2 | 61,6163,73616d706c65=s41 ; 62,6163,- ; 63,6163,6b=i1 ; 64,6163,73616d706c65=s42 ; 65,61,73616d706c65=s41",
		"distio rawpat=6f75745f255b325d732e6661 cl=73616d706c65 bs=2 w=2 | 61,6163,73616d706c65=s41 ; 62,6163,- ; 63,6163,6b=i1 ; 64,6163,73616d706c65=s42 ; 65,61,73616d706c65=s41",
		"distio rawpat=6f252e31732e6661 cl=73616d706c65 bs=2 w=2 | 61,6163,73616d706c65=s41 ; 62,6163,- ; 63,6163,6b=i1 ; 64,6163,73616d706c65=s42 ; 65,61,73616d706c65=s41",
		"distio rawpat=6f5f2525732e6661 cl=73616d706c65 bs=2 w=2 | 61,6163,73616d706c65=s41 ; 62,6163,- ; 63,6163,6b=i1 ; 64,6163,73616d706c65=s42 ; 65,61,73616d706c65=s41",
		"distio rawpat=6f5f25642e6661 cl=73616d706c65 bs=2 w=2 | 61,6163,73616d706c65=s41 ; 62,6163,- ; 63,6163,6b=i1 ; 64,6163,73616d706c65=s42 ; 65,61,73616d706c65=s41",
		"distio rawpat=6f5f25735f25732e6661 cl=73616d706c65 bs=2 w=2 | 61,6163,73616d706c65=s41 ; 62,6163,- ; 63,6163,6b=i1 ; 64,6163,73616d706c65=s42 ; 65,61,73616d706c65=s41",
		"distio rawpat=6f5f2535732e6661 cl=73616d706c65 bs=2 w=2 | 61,6163,73616d706c65=s41 ; 62,6163,- ; 63,6163,6b=i1 ; 64,6163,73616d706c65=s42 ; 65,61,73616d706c65=s41",
		"distio rawpat=6f5f252d33732e6661 cl=73616d706c65 bs=2 w=2 | 61,6163,73616d706c65=s41 ; 62,6163,- ; 63,6163,6b=i1 ; 64,6163,73616d706c65=s42 ; 65,61,73616d706c65=s41",
		"distio rawpat=6f5f25762e6661 cl=73616d706c65 bs=2 w=2 | 61,6163,73616d706c65=s41 ; 62,6163,- ; 63,6163,6b=i1 ; 64,6163,73616d706c65=s42 ; 65,61,73616d706c65=s41",
		"distio rawpat=6f25 cl=73616d706c65 bs=2 w=2 | 61,6163,73616d706c65=s41 ; 62,6163,- ; 63,6163,6b=i1 ; 64,6163,73616d706c65=s42 ; 65,61,73616d706c65=s41",
		"distio rawpat=6f2525 cl=73616d706c65 bs=2 w=2 | 61,6163,73616d706c65=s41 ; 62,6163,- ; 63,6163,6b=i1 ; 64,6163,73616d706c65=s42 ; 65,61,73616d706c65=s41",
		"distio rawpat=6f5f252b73 cl=73616d706c65 bs=2 w=2 | 61,6163,73616d706c65=s41 ; 62,6163,- ; 63,6163,6b=i1 ; 64,6163,73616d706c65=s42 ; 65,61,73616d706c65=s41",
		// %.1s: the classes B and B1 share the file oB.fa in the unrepaired code
		"distio rawpat=6f252e31732e6661 cl=73616d706c65 bs=1 w=2 | 61,6163,73616d706c65=s42 ; 62,6163,73616d706c65=s4231 ; 63,6163,73616d706c65=s42 ; 64,61,73616d706c65=s4231",
		"distio rawpat=6f7574252e30732e6661737461 H=3 bs=2 w=2 | 61,6163,73616d706c65=s41 ; 62,6163,- ; 63,6163,6b=i1 ; 64,6163,73616d706c65=s42 ; 65,61,73616d706c65=s41",
		"distio rawpat=6f75742e6661 n=2 bs=1 w=2 | 61,6163,73616d706c65=s41 ; 62,6163,- ; 63,6163,6b=i1 ; 64,6163,73616d706c65=s42 ; 65,61,73616d706c65=s41",
	} {
		emit(c)
	}
	n := 120
	if tier == "thorough" {
		n = 700
	}
	for i := 0; i < n; i++ {
		op := "grepio"
		if i%3 == 2 {
			op = "annotio"
		}
		for try := 0; try < 6; try++ {
			if c := c16BlockCase(rng, op, join); c != "" {
				emit(c)
				stat(op + ".blocks")
				break
			}
		}
	}
	// every predicate builder with every other one (and with itself = alone), plain / -v / a paired mode,
	// through CLIFilterSequence on multi-batch inputs
	kinds := []string{"l", "L", "c", "C", "s", "D", "I", "A", "a", "p", "idl", "r", "i", "rank", "ap"}
	nth := 0
	for i, k1 := range kinds {
		for _, k2 := range kinds[i:] {
			variants := []int{nth % 3}
			if tier == "thorough" {
				variants = []int{0, 1, 2}
			}
			for _, v := range variants {
				mode := ""
				if v == 2 {
					mode = c16Modes[(nth/3+i)%6]
				}
				// prefer a draw with kept and rejected records
				best, mixed := "", false
				for try := 0; try < 12 && !mixed; try++ {
					if c, m := c16PairCase(rng, k1, k2, v == 1 || (v == 2 && nth%2 == 0), mode, join); c != "" && (best == "" || m) {
						best, mixed = c, m
					}
				}
				if best != "" {
					emit(best)
					stat(fmt.Sprintf("grepio.pairwise.v%d", v))
					if mixed {
						stat("grepio.pairwise.mixed")
					} else {
						stat("grepio.pairwise.uniform")
					}
				}
			}
			nth++
		}
	}
	// obiannotate end to end on arbitrary layouts
	for i := 0; i < n/3; i++ {
		recs := c16ManyRecs(rng, false, 2+rng.Intn(9))
		var toks []string
		ek := []string{"clear", "setid", "del", "keep", "ren", "len", "tag", "cut", "atrank", "aho", "pat"}
		for _, i := range rng.Perm(len(ek))[:1+rng.Intn(3)] {
			toks = append(toks, c16Opt(rng, ek[i], recs)...)
		}
		if rng.Intn(2) == 0 {
			toks = append(toks, c16Opt(rng, []string{"l", "c", "A", "I", "s", "v", "a"}[rng.Intn(7)], recs)...)
		}
		toks = append(toks, c16RandLayout(rng, len(recs))...)
		emit(join("annotio", toks, recs))
		stat("annotio")
	}
	// obidistribute end to end
	for i := 0; i < n/2; i++ {
		recs := c16ManyRecs(rng, false, 1+rng.Intn(12))
		for j := range recs { // class values that are file names
			for k, v := range recs[j].r.attrs {
				if !c16IdRe.MatchString(v.shown()) {
					recs[j].r.attrs[k] = c16Val{kind: 's', s: []string{"A", "B", "s1", "x_9"}[rng.Intn(4)]}
				}
			}
		}
		if rng.Intn(8) == 0 { // class / directory values holding ':' that collide when concatenated
			a, b, c := []string{"S1", "x", "A"}[rng.Intn(3)], []string{"lib", "y", "B"}[rng.Intn(3)], []string{"A", "z", "q_1"}[rng.Intn(3)]
			for j := range recs {
				switch rng.Intn(3) {
				case 0:
					recs[j].r.attrs["sample"], recs[j].r.attrs["k"] = c16Val{kind: 's', s: a}, c16Val{kind: 's', s: b + ":" + c}
				case 1:
					recs[j].r.attrs["sample"], recs[j].r.attrs["k"] = c16Val{kind: 's', s: a + ":" + b}, c16Val{kind: 's', s: c}
				}
			}
			stat("distio.colon-values")
		}
		if rng.Intn(8) == 0 { // class values ending with .gz next to the same value without it
			for j := range recs {
				if v, ok := recs[j].r.attrs["sample"]; ok && rng.Intn(2) == 0 {
					recs[j].r.attrs["sample"] = c16Val{kind: 's', s: v.shown() + ".gz"}
				}
			}
			stat("distio.gz-values")
		}
		pre := []string{"out_", "b", "x.y_", "R"}[rng.Intn(4)]
		suf := []string{".fasta", "", ".fa.gz", ".gz", "_z.fa"}[rng.Intn(5)]
		toks := []string{"pat=" + hs(pre) + ":" + hs(suf)}
		mode := rng.Intn(4)
		switch mode {
		case 0, 1:
			toks = append(toks, "cl="+hs(c16Keys[rng.Intn(len(c16Keys))]))
			if rng.Intn(2) == 0 {
				toks = append(toks, "dir="+hs(c16Keys[rng.Intn(len(c16Keys))]))
			}
			if rng.Intn(2) == 0 {
				toks = append(toks, "na="+hs([]string{"none", "x", "NA", "n_a"}[rng.Intn(4)]))
			}
			if rng.Intn(5) == 0 { // the classifier tag has priority over --batches / --hash
				toks = append(toks, fmt.Sprintf("n=%d", 1+rng.Intn(3)))
			}
			stat("distio.classifier")
		case 2:
			toks = append(toks, fmt.Sprintf("n=%d", 1+rng.Intn(5)))
			if rng.Intn(5) == 0 { // --batches has priority over --hash
				toks = append(toks, fmt.Sprintf("H=%d", 1+rng.Intn(3)))
			}
			stat("distio.batches")
		default:
			toks = append(toks, fmt.Sprintf("H=%d", 1+rng.Intn(6)))
			stat("distio.hash")
		}
		isZ := rng.Intn(4) == 0
		if isZ {
			toks = append(toks, "z")
		}
		if rng.Intn(3) == 0 {
			toks = append(toks, "long")
		}
		if rng.Intn(3) == 0 {
			// files present before the run: some of the files the run writes, and one it does not
			if d0, ok := c16ParseDist(append(append([]string{}, toks...), "bs=1")); ok {
				var olds []string
				seen := map[string]bool{}
				n := 0
				for i, p := range recs {
					fn, ok := d0.refFile(i, p.r)
					if !ok || seen[fn] || rng.Intn(2) == 0 {
						continue
					}
					seen[fn] = true
					ids := "-"
					if k := rng.Intn(3); k > 0 {
						var l []string
						for j := 0; j < k; j++ {
							n++
							l = append(l, hs(fmt.Sprintf("old%d", n)))
						}
						ids = strings.Join(l, ".")
					}
					olds = append(olds, hs(fn)+":"+ids)
				}
				if rng.Intn(2) == 0 {
					olds = append(olds, hs("untouched.fasta")+":"+hs("old99"))
				}
				if len(olds) > 0 {
					toks = append(toks, "old="+strings.Join(olds, ","))
					stat("distio.old")
				}
			}
			if rng.Intn(3) != 0 {
				toks = append(toks, "A")
				stat("distio.append")
			}
		} else if rng.Intn(8) == 0 {
			toks = append(toks, "A")
		}
		toks = append(toks, c16RandLayout(rng, len(recs))...)
		emit("distio " + strings.Join(toks, " ") + " | " + c16ShowRecs(recs))
	}
	// obidistribute: the pattern as it is typed (accepted: text, %% and one %s; refused: everything else)
	rawGood := []string{"out_%s.fasta", "b%s", "p%%_%s.fa", "x%s%%.gz", "a%s.fa.gz", "R%%%s", "q%s.gz", "w%%%%%s_"}
	rawBad := []string{"out.fasta", "out%.0s.fa", "o_%[2]s.fa", "o%.1s.fa", "o_%%s.fa", "o_%d.fa", "o_%s_%s.fa", "o_%5s.fa", "o_%v.fa", "o%", "o_%-3s.fa", "o%%", "o_%[1]s", "o_%s%"}
	for i := 0; i < n/10; i++ {
		recs := c16ManyRecs(rng, false, 1+rng.Intn(10))
		for j := range recs {
			for k, v := range recs[j].r.attrs {
				if !c16IdRe.MatchString(v.shown()) {
					recs[j].r.attrs[k] = c16Val{kind: 's', s: []string{"A", "B", "s1", "x_9"}[rng.Intn(4)]}
				}
			}
		}
		raw := rawGood[rng.Intn(len(rawGood))]
		if i%6 == 5 {
			raw = rawBad[rng.Intn(len(rawBad))]
			stat("distio.rawpat.bad")
		} else {
			stat("distio.rawpat.good")
		}
		toks := []string{"rawpat=" + hs(raw)}
		switch rng.Intn(3) {
		case 0:
			toks = append(toks, "cl="+hs(c16Keys[rng.Intn(len(c16Keys))]))
			if rng.Intn(2) == 0 {
				toks = append(toks, "dir="+hs(c16Keys[rng.Intn(len(c16Keys))]))
			}
		case 1:
			toks = append(toks, fmt.Sprintf("n=%d", 1+rng.Intn(5)))
		default:
			toks = append(toks, fmt.Sprintf("H=%d", 1+rng.Intn(6)))
		}
		if rng.Intn(3) == 0 {
			toks = append(toks, "z")
		}
		if rng.Intn(3) == 0 {
			toks = append(toks, "long")
		}
		toks = append(toks, c16RandLayout(rng, len(recs))...)
		emit("distio " + strings.Join(toks, " ") + " | " + c16ShowRecs(recs))
	}
}

// bs / w / lay / perm tokens for n records
func c16RandLayout(rng *rand.Rand, n int) []string {
	bs := 1 + rng.Intn(4)
	toks := []string{fmt.Sprintf("bs=%d", bs), fmt.Sprintf("w=%d", 1+rng.Intn(8))}
	var lay []int
	if rng.Intn(2) == 0 {
		left := n
		for left > 0 {
			k := rng.Intn(4)
			if k > left {
				k = left
			}
			lay = append(lay, k)
			left -= k
		}
		if rng.Intn(4) == 0 || lay == nil {
			lay = append(lay, 0)
		}
		toks = append(toks, "lay="+c16ShowIntList(lay))
	}
	if pm := c16RandPerm(rng, len(c16BatchSizes(bs, lay, n))); pm != nil {
		toks = append(toks, "perm="+c16ShowIntList(pm))
	}
	return toks
}
