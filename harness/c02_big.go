//go:build c02

package main

// C02, fourth pass: SIZES AT AND ABOVE THE BUFFER BOUNDARIES.
//
//	big rt|file|cli<flags> fasta|fastq j|g <so> <si> <n> (<idspec> <seqlen> <q|-> <annspec>)*n
//
// A record is given by sizes only; the harness and the Lean driver (Driver/C02.lean, bigRecs) expand it by the same rules:
//
//	idspec   <alpha><len>          identifier of record k = pat(alpha, k, len)           (alpha p plain, g hostile without blank)
//	seqlen   n                     sequence of record k = "acgtrymkswbdn"[(i+k)%13], qualities (flag q) = (7i+k)%94
//	annspec  entries joined by ';' ('-' = none); entry number e:
//	         s.<klen>.<alpha><n>                 key(e,klen) -> string pat(alpha, e, n)    (alpha p, h hostile ASCII, u = é repeated)
//	         i.<klen>.<int>                      key(e,klen) -> int
//	         mi.<klen>.<nkeys>.<mklen>           key(e,klen) -> map[string]int    { key(j,mklen): 37j%1000+1 }
//	         ms.<klen>.<nkeys>.<mklen>.<alpha><n> key(e,klen) -> map[string]string { key(j,mklen): pat(alpha, j, n) }
//	         d.<alpha><n>                        definition = pat(alpha, e, n)
//	key(j,klen) = pat(p,0,klen-w) ++ the decimal digits of j (mod 10^w) zero-padded to w = min(klen,7)
//
// rt   = the rt op on the expanded records (real Format*Batch -> *ChunkParser -> header parser, all its oracles);
// file = the same with the written text going through a real file, the format guesser and ReadSequencesFromFile
//
//	(1 MiB chunks cut by EndOfLastFasta/FastqEntry, parallel parsers, the header parser as the reader's option);
//
// cli  = the cli op (obiconvert as a subprocess, flags z s g as there).
// Results: the rt / cli result with every byte string replaced by <length>:<FNV-1a 64> (the oracles of Exec compare
// the bytes themselves); the model recomputes them with the linear functions of Model/HeaderFast.lean.

import (
	"fmt"
	"hash/fnv"
	"math/rand"
	"os"
	"path/filepath"
	"strconv"
	"strings"

	"git.metabarcoding.org/obitools/obitools4/obitools4/pkg/obiformats"
	"git.metabarcoding.org/obitools/obitools4/obitools4/pkg/obiseq"
)

var (
	c02BigMode bool // rt runs without the go-json span table (writer-made headers: the model decodes them itself)
	c02BigFile bool // rt reads the written text back through a real file and ReadSequencesFromFile
)

func c02Alpha(a byte) string {
	switch a {
	case 'h':
		return "a\"\\{}[];=>@:,' b"
	case 'g':
		return "a\"\\{}[];=>@:,'|#"
	}
	return "abcdefghijklmnopqrstuvwxyz0123456789_"
}

func c02Pat(a byte, seed, n int) []byte {
	b := make([]byte, n)
	if a == 'u' {
		odd := n % 2
		for i := range b {
			switch {
			case i < odd:
				b[i] = 'x'
			case (i-odd)%2 == 0:
				b[i] = 0xC3
			default:
				b[i] = 0xA9
			}
		}
		return b
	}
	al := c02Alpha(a)
	for i := range b {
		b[i] = al[(i+seed)%len(al)]
	}
	return b
}

func c02BigKey(j, klen int) []byte {
	w := min(klen, 7)
	m := 1
	for i := 0; i < w; i++ {
		m *= 10
	}
	ds := strconv.Itoa(j % m)
	return append(append(c02Pat('p', 0, klen-w), []byte(strings.Repeat("0", w-len(ds)))...), ds...)
}

func c02AlphaLen(w string) (byte, int, bool) {
	if len(w) < 2 {
		return 0, 0, false
	}
	n, err := strconv.Atoi(w[1:])
	return w[0], n, err == nil && n >= 0 && strings.IndexByte("phgu", w[0]) >= 0
}

func c02hexE(b []byte) string { return strings.TrimPrefix(hx(b), "-") }

// c02BigAnn: size annspec -> the annspec of the rt / cli ops
func c02BigAnn(spec string) (string, bool) {
	if spec == "-" {
		return "-", true
	}
	var out []string
	for e, w := range strings.Split(spec, ";") {
		p := strings.Split(w, ".")
		atoi := func(s string) int {
			n, err := strconv.Atoi(s)
			if err != nil || n < 0 {
				return -1
			}
			return n
		}
		switch {
		case p[0] == "s" && len(p) == 3:
			kl := atoi(p[1])
			a, n, ok := c02AlphaLen(p[2])
			if kl < 1 || !ok {
				return "", false
			}
			out = append(out, "s."+hx(c02BigKey(e, kl))+"."+c02hexE(c02Pat(a, e, n)))
		case p[0] == "i" && len(p) == 3:
			kl := atoi(p[1])
			v, err := strconv.ParseInt(p[2], 10, 64)
			if kl < 1 || err != nil {
				return "", false
			}
			out = append(out, fmt.Sprintf("i.%s.%d", hx(c02BigKey(e, kl)), v))
		case p[0] == "mi" && len(p) == 4:
			kl, nk, mkl := atoi(p[1]), atoi(p[2]), atoi(p[3])
			if kl < 1 || nk < 0 || mkl < 1 {
				return "", false
			}
			kv := make([]string, nk)
			for j := range kv {
				kv[j] = fmt.Sprintf("%s=%d", hx(c02BigKey(j, mkl)), j*37%1000+1)
			}
			out = append(out, "mi."+hx(c02BigKey(e, kl))+"."+strings.Join(kv, ","))
		case p[0] == "ms" && len(p) == 5:
			kl, nk, mkl := atoi(p[1]), atoi(p[2]), atoi(p[3])
			a, n, ok := c02AlphaLen(p[4])
			if kl < 1 || nk < 0 || mkl < 1 || !ok {
				return "", false
			}
			kv := make([]string, nk)
			for j := range kv {
				kv[j] = hx(c02BigKey(j, mkl)) + "=" + c02hexE(c02Pat(a, j, n))
			}
			out = append(out, "ms."+hx(c02BigKey(e, kl))+"."+strings.Join(kv, ","))
		case p[0] == "d" && len(p) == 2:
			a, n, ok := c02AlphaLen(p[1])
			if !ok {
				return "", false
			}
			out = append(out, "s."+hx([]byte("definition"))+"."+c02hexE(c02Pat(a, e, n)))
		default:
			return "", false
		}
	}
	return strings.Join(out, ";"), true
}

// c02BigExpand: the 4n record fields by sizes -> the 4n fields of the rt / cli ops
func c02BigExpand(f []string, n int) ([]string, bool) {
	if len(f) != 4*n {
		return nil, false
	}
	const sq = "acgtrymkswbdn"
	var out []string
	for k := 0; k < n; k++ {
		a, il, ok := c02AlphaLen(f[4*k])
		sl, err := strconv.Atoi(f[4*k+1])
		if !ok || il < 1 || err != nil || sl < 1 || (a != 'p' && a != 'g') {
			return nil, false
		}
		s := make([]byte, sl)
		for i := range s {
			s[i] = sq[(i+k)%len(sq)]
		}
		q := "-"
		switch f[4*k+2] {
		case "q":
			qb := make([]byte, sl)
			for i := range qb {
				qb[i] = byte((i*7 + k) % 94)
			}
			q = hx(qb)
		case "-":
		default:
			return nil, false
		}
		ann, ok := c02BigAnn(f[4*k+3])
		if !ok {
			return nil, false
		}
		out = append(out, hx(c02Pat(a, k, il)), hx(s), q, ann)
	}
	return out, true
}

func c02Dg(b []byte) string {
	h := fnv.New64a()
	h.Write(b)
	return fmt.Sprintf("%d:%x", len(b), h.Sum64())
}

// c02Compact: every hex byte string of an rt / cli result -> <length>:<digest>
func c02Compact(res string) string {
	ws := strings.Split(res, " ")
	for i, w := range ws {
		for _, pre := range []string{"w=", "id=", "seq=", "q=", "t1=", "t2=", "def=d"} {
			if !strings.HasPrefix(w, pre) {
				continue
			}
			v := w[len(pre):]
			if v == "" || v == "-" {
				break
			}
			if b, ok := unhx(v); ok {
				ws[i] = pre + c02Dg(b)
			}
			break
		}
	}
	return strings.Join(ws, " ")
}

func c02ExecBig(c string, f []string) (string, []Fail) {
	if len(f) < 7 {
		return "bad-op", nil
	}
	mode, fm, hp := f[1], f[2], f[3]
	so, e1 := strconv.Atoi(f[4])
	si, e2 := strconv.Atoi(f[5])
	n, e3 := strconv.Atoi(f[6])
	if e1 != nil || e2 != nil || e3 != nil || n < 1 || (fm != "fasta" && fm != "fastq") || (hp != "j" && hp != "g") {
		return "bad-op", nil
	}
	recs, ok := c02BigExpand(f[7:], n)
	if !ok {
		return "bad-op", nil
	}
	var line string
	switch {
	case mode == "rt" || mode == "file":
		line = fmt.Sprintf("rt %s %s %d %d %d %s", fm, hp, so, si, n, strings.Join(recs, " "))
	case strings.HasPrefix(mode, "cli"):
		flags := mode[3:]
		if flags == "" || strings.Trim(flags, "zsg-") != "" || so != 33 || si != 33 {
			return "bad-op", nil
		}
		line = fmt.Sprintf("cli %s %s %d %s", fm, flags, n, strings.Join(recs, " "))
	default:
		return "bad-op", nil
	}
	stat("big:" + strings.TrimRight(mode, "zsg-") + ":" + fm)
	c02BigMode, c02BigFile = true, mode == "file"
	res, fails := c02{}.Exec(line)
	c02BigMode, c02BigFile = false, false
	caseOverride = "" // the case printed is the big line itself: the model expands the sizes like the harness
	caseTrivial = false
	for i := range fails {
		fails[i].Sig = "big." + fails[i].Sig
		if len(fails[i].Text) > 600 {
			fails[i].Text = fails[i].Text[:300] + " … " + fails[i].Text[len(fails[i].Text)-200:]
		}
		fails[i].Text = "[" + c[:min(len(c), 160)] + "] " + fails[i].Text
	}
	return c02Compact(res), fails
}

// c02ReadViaFile: text -> a real file -> ReadSequencesFromFile (format guesser, 1 MiB chunks, parallel parsers,
// header parser as option) -> the records in file order
func c02ReadViaFile(fm, hp, text string) (obiseq.BioSequenceSlice, string) {
	dir, err := os.MkdirTemp("", "c02big")
	if err != nil {
		return nil, "err:io"
	}
	defer os.RemoveAll(dir)
	p := filepath.Join(dir, "in."+fm)
	if err := os.WriteFile(p, []byte(text), 0o644); err != nil {
		return nil, "err:io"
	}
	it, err := obiformats.ReadSequencesFromFile(p, obiformats.OptionsFastSeqHeaderParser(c02HeaderParser(hp)),
		obiformats.OptionsParallelWorkers(4), obiformats.OptionsReadQualities(true))
	if err != nil {
		return nil, "err:" + strings.ReplaceAll(err.Error(), " ", "_")
	}
	// the batches of the parallel header parsers arrive in any order: their consumers (the writers) put them back in
	// order with Order(), and so does this reader
	byOrder := map[int]obiseq.BioSequenceSlice{}
	nb := 0
	for it.Next() {
		b := it.Get()
		if _, dup := byOrder[b.Order()]; dup {
			return nil, "err:batch-order-twice"
		}
		byOrder[b.Order()] = b.Slice()
		nb++
	}
	var back obiseq.BioSequenceSlice
	for i := 0; i < nb; i++ {
		sl, ok := byOrder[i]
		if !ok {
			return nil, "err:batch-order-gap"
		}
		back = append(back, sl...)
	}
	return back, ""
}

// ---------------------------------------------------------------- generator

const c02MiB = 1 << 20

// c02BigShape: the record whose component `shape` has size T (bytes); fm decides the quality flag
func c02BigShape(shape string, T int, fm string) string {
	q := "-"
	if fm == "fastq" {
		q = "q"
	}
	switch shape {
	case "title": // identifier 3 + blank + {"k0":"…"} = T bytes after > / @
		return fmt.Sprintf("p3 70 %s s.2.p%d", q, T-13)
	case "info": // the JSON object alone = T bytes
		return fmt.Sprintf("p5 70 %s s.2.p%d", q, T-9)
	case "id":
		return fmt.Sprintf("p%d 61 %s i.5.3", T, q)
	case "idg":
		return fmt.Sprintf("g%d 60 %s -", T, q)
	case "def":
		return fmt.Sprintf("p4 59 %s i.5.-7;d.p%d", q, T)
	case "defh":
		return fmt.Sprintf("p4 59 %s d.h%d", q, T)
	case "str":
		return fmt.Sprintf("p5 120 %s s.5.h%d;i.5.12", q, T)
	case "stru":
		return fmt.Sprintf("p5 121 %s s.6.u%d", q, T)
	case "mapmany": // "kkkkkk":nnn, = about 13 bytes a member
		return fmt.Sprintf("p5 119 %s i.5.1;mi.13.%d.6", q, T/13+1)
	case "mapkeys":
		return fmt.Sprintf("p5 60 %s mi.6.3.%d", q, T)
	case "mapvals":
		return fmt.Sprintf("p5 60 %s ms.6.3.4.h%d;d.p9", q, T)
	case "seq":
		return fmt.Sprintf("p6 %d %s s.3.h9", T, q)
	case "seq60": // the multiple of the folding width next to T
		return fmt.Sprintf("p6 %d %s -", T/60*60, q)
	case "seq60+":
		return fmt.Sprintf("p6 %d %s i.3.5", T/60*60+1, q)
	case "seq60-":
		return fmt.Sprintf("p6 %d %s -", T/60*60-1, q)
	}
	return ""
}

var c02BigShapes = []string{"title", "info", "id", "idg", "def", "defh", "str", "stru", "mapmany", "mapkeys", "mapvals", "seq", "seq60", "seq60+", "seq60-"}

// c02BigTextLen: the length of the text the writer prints for a record with an identifier of idlen bytes, no
// annotation and a sequence of L bytes
func c02BigTextLen(fm string, idlen, L int) int {
	if fm == "fastq" {
		return 1 + idlen + 2 + L + 3 + L + 1
	}
	return 1 + idlen + 2 + L + (L+59)/60
}

// c02BigFill: an unannotated record whose text is exactly X bytes long
func c02BigFill(fm string, X int) string {
	for idlen := 3; idlen < 9; idlen++ {
		L := X / 2
		if fm == "fasta" {
			L = X * 60 / 61
		}
		for d := -80; d <= 80; d++ {
			if L+d >= 1 && c02BigTextLen(fm, idlen, L+d) == X {
				q := "-"
				if fm == "fastq" {
					q = "q"
				}
				return fmt.Sprintf("p%d %d %s -", idlen, L+d, q)
			}
		}
	}
	return ""
}

func c02GenBig(rng *rand.Rand, tier string, emit func(string)) {
	thorough := tier == "thorough"
	small := []int{4095, 4096, 4097, 8191, 8192, 8193}
	mid := []int{65535, 65536, 65537}
	big := []int{c02MiB - 1, c02MiB, c02MiB + 1, 2*c02MiB + 1}
	k := 0
	rt := func(fm, rec string, sh int) {
		k++
		hp := []string{"j", "g"}[k%2]
		switch k % 3 {
		case 0: // the big record between two ordinary ones: nothing leaks from one record to the next
			q := map[string]string{"fasta": "-", "fastq": "q"}[fm]
			emit(fmt.Sprintf("big rt %s %s %d %d 3 p7 61 %s s.4.h12;d.p5 %s g5 3 %s i.2.4", fm, hp, sh, sh, q, rec, q))
		default:
			emit(fmt.Sprintf("big rt %s %s %d %d 1 %s", fm, hp, sh, sh, rec))
		}
	}
	for _, fm := range []string{"fasta", "fastq"} {
		for _, shape := range c02BigShapes {
			// every boundary of the 4096 / 8192 buffers
			for _, T := range small {
				rt(fm, c02BigShape(shape, T, fm), 33)
			}
			if shape == "title" || shape == "info" || shape == "def" {
				// one and two bytes further: a buffer of 4096 bytes filled after the first byte(s) of the line were taken
				for _, T := range []int{4098, 4099, 4100, 4104, 4105} {
					rt(fm, c02BigShape(shape, T, fm), 33)
				}
			}
			// bufio.Scanner's token limit / the 64 KiB buffers of xopen
			ms := mid
			if !thorough {
				ms = []int{mid[rng.Intn(3)]}
			}
			for _, T := range ms {
				if shape == "mapmany" && T > 20000 {
					// many members: 4 keys of 40 bytes a value keep the model's member sort short
					k++
					emit(fmt.Sprintf("big rt %s j 33 33 1 p5 90 %s ms.13.%d.7.p36", fm, map[string]string{"fasta": "-", "fastq": "q"}[fm], T/50))
					continue
				}
				rt(fm, c02BigShape(shape, T, fm), []int{33, 33, 64}[rng.Intn(3)])
			}
		}
	}
	// the 1 MiB chunk of the file reader: lines of 1 MiB - 1 … 2 MiB + 1
	type bigCase struct{ fm, shape string }
	var bcs []bigCase
	for _, fm := range []string{"fasta", "fastq"} {
		for _, shape := range []string{"title", "id", "def", "str", "mapkeys", "mapvals", "seq", "seq60+"} {
			bcs = append(bcs, bigCase{fm, shape})
		}
	}
	nb := 2
	if thorough {
		nb = len(bcs)
	}
	for _, i := range rng.Perm(len(bcs))[:nb] {
		T := big[rng.Intn(len(big))]
		mode := []string{"rt", "file"}[rng.Intn(2)]
		// one member instead of three in the maps: a single line of T bytes is the point here
		rec := strings.NewReplacer("ms.6.3.4.", "ms.6.1.4.", "mi.6.3.", "mi.6.1.").Replace(c02BigShape(bcs[i].shape, T, bcs[i].fm))
		emit(fmt.Sprintf("big %s %s %s 33 33 1 %s", mode, bcs[i].fm, []string{"j", "g"}[rng.Intn(2)], rec))
	}
	// through a real file and ReadSequencesFromFile: the boundaries again …
	for _, fm := range []string{"fasta", "fastq"} {
		for _, sc := range [][2]string{{"title", "4097"}, {"str", "8193"}, {"seq", "65537"}, {"def", "65536"}, {"mapmany", "4096"}} {
			T, _ := strconv.Atoi(sc[1])
			// second record of three: the first title line stays inside the window of the format guesser
			q := map[string]string{"fasta": "-", "fastq": "q"}[fm]
			emit(fmt.Sprintf("big file %s g 33 33 3 p7 61 %s s.4.h12 %s g5 3 %s -", fm, q, c02BigShape(sc[0], T, fm), q))
		}
		// … the first title line longer than the window of the format guesser (3072 bytes)
		for _, T := range []int{3070, 3071, 3072, 4097} {
			emit(fmt.Sprintf("big file %s j 33 33 1 %s", fm, c02BigShape("title", T, fm)))
		}
		// … and files longer than a chunk: the first record ends d bytes before the 1 MiB cut, the title line / the
		// sequence / the quality line of the second one straddles it; then a title line longer than a chunk
		ds := []int{1, 700}
		if thorough {
			ds = []int{0, 1, 2, 6, 700, 4090, 5200}
		} else {
			ds = []int{ds[rng.Intn(2)]}
		}
		for _, d := range ds {
			first := c02BigFill(fm, c02MiB-d)
			q := map[string]string{"fasta": "-", "fastq": "q"}[fm]
			emit(fmt.Sprintf("big file %s g 33 33 3 %s p3 700 %s s.2.p5000;mi.6.40.8 g5 3 %s d.h30", fm, first, q, q))
		}
		if thorough {
			q := map[string]string{"fasta": "-", "fastq": "q"}[fm]
			emit(fmt.Sprintf("big file %s j 33 33 3 p7 61 %s i.3.1 %s g5 3 %s d.h30", fm, q, c02BigShape("title", c02MiB+4097, fm), q))
			emit(fmt.Sprintf("big file %s g 33 33 40 %s", fm, strings.TrimSpace(strings.Repeat(c02BigShape("seq", 60000, fm)+" ", 40))))
		}
	}
	// the command line: file argument, stdin (kseq), -Z, gzip fed back
	type cliCase struct {
		flags, shape string
		T            int
	}
	cl := []cliCase{{"-", "title", 4097}, {"s", "str", 8193}, {"z", "seq", 65537}, {"-", "mapmany", 65536}}
	if thorough {
		cl = append(cl, cliCase{"zs", "title", 65537}, cliCase{"zg", "def", 8192}, cliCase{"zsg", "mapvals", 4096}, cliCase{"s", "id", 4097},
			cliCase{"-", "seq", c02MiB + 1}, cliCase{"s", "title", c02MiB + 1}, cliCase{"-", "title", 2*c02MiB + 1}, cliCase{"s", "seq60+", 2 * c02MiB},
			cliCase{"-", "idg", 65536}, cliCase{"z", "stru", 65535}, cliCase{"z", "seq", c02MiB + 1}, cliCase{"zg", "title", c02MiB + 1})
	}
	cliFm := rng.Intn(2)
	for _, fm := range []string{"fasta", "fastq"} {
		for _, cc := range cl {
			emit(fmt.Sprintf("big cli%s %s g 33 33 1 %s", cc.flags, fm, c02BigShape(cc.shape, cc.T, fm)))
		}
		// a file longer than a chunk through the command, the big record second (quick: one of the two formats)
		q := map[string]string{"fasta": "-", "fastq": "q"}[fm]
		if !thorough && (fm == "fasta") != (cliFm == 0) {
			continue
		}
		emit(fmt.Sprintf("big cli- %s g 33 33 3 %s p3 700 %s s.2.p5000 g5 3 %s d.h30", fm, c02BigFill(fm, c02MiB-1), q, q))
	}
}
