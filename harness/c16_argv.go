//go:build c16

package main

// C16 — tie of the option parsing: an option specification is turned into an argv vector in one of
// three spellings (short options with separate values, --long=value, --long value), pushed through the
// real parser (obioptions.GenerateOptionParser + go-getoptions), and the resulting option globals
// (verif hooks VerifOptionState) are compared with the option state of the model.
//
//	argv grep|annot <form> <option tokens> | -
//	argv dist <form> <dist tokens> | -

import (
	"math/rand"
	"regexp"
	"strings"

	"git.metabarcoding.org/obitools/obitools4/obitools4/pkg/obioptions"
	"git.metabarcoding.org/obitools/obitools4/obitools4/pkg/obitools/obiannotate"
	"git.metabarcoding.org/obitools/obitools4/obitools4/pkg/obitools/obidistribute"
	"git.metabarcoding.org/obitools/obitools4/obitools4/pkg/obitools/obigrep"
)

// --long=value -> --long value (when the value cannot be taken for an option)
func c16Separate(av []string) []string {
	out := []string{av[0]}
	for _, w := range av[1:] {
		if i := strings.Index(w, "="); strings.HasPrefix(w, "--") && i > 0 && i+1 < len(w) && w[i+1] != '-' {
			out = append(out, w[:i], w[i+1:])
		} else {
			out = append(out, w)
		}
	}
	return out
}

var c16FileOpt = regexp.MustCompile(`\b(id-list|taxdump|aho-corasick)=[0-9a-f]+`)

func (c16) execArgv(ws []string) (string, []Fail) {
	if len(ws) < 2 || (ws[1] != "0" && ws[1] != "1" && ws[1] != "2") {
		return "bad-op", nil
	}
	form := ws[1]
	var av []string
	switch ws[0] {
	case "grep", "annot":
		for _, w := range ws[2:] {
			if w == "long" || strings.HasPrefix(w, "bs=") || strings.HasPrefix(w, "w=") || strings.HasPrefix(w, "lay=") ||
				strings.HasPrefix(w, "perm=") || w == "nosd" {
				return "bad-op", nil
			}
		}
		sp, ok := c16ParseSpec(ws[2:])
		if !ok {
			return "bad-op", nil
		}
		annotOnly := sp.annotOnly()
		if ws[0] == "grep" && annotOnly {
			return "bad-op", nil
		}
		sp.long = form != "0"
		av = sp.argv()
	case "dist":
		for _, w := range ws[2:] {
			if w == "long" || strings.HasPrefix(w, "lay=") || strings.HasPrefix(w, "perm=") || strings.HasPrefix(w, "rawpat=") {
				return "bad-op", nil
			}
		}
		d, ok := c16ParseDist(ws[2:])
		if !ok {
			return "bad-op", nil
		}
		d.long = form != "0"
		av = d.argv()
	default:
		return "bad-op", nil
	}
	if form == "2" {
		av = c16Separate(av)
	}
	c16Reset()
	obidistribute.VerifResetOptions()
	var state string
	st := guardT(c16TO, func() string {
		var rest []string
		switch ws[0] {
		case "grep":
			_, rest = obioptions.GenerateOptionParser(obigrep.OptionSet)(av)
			state = obigrep.VerifOptionState()
		case "annot":
			_, rest = obioptions.GenerateOptionParser(obiannotate.OptionSet)(av)
			state = obigrep.VerifOptionState() + " " + obiannotate.VerifOptionState()
		default:
			_, rest = obioptions.GenerateOptionParser(obidistribute.OptionSet)(av)
			state = obidistribute.VerifOptionState()
		}
		if len(rest) != 0 {
			return "rest"
		}
		return "ok"
	})
	if st != "ok" {
		return st, []Fail{{Sig: "argv." + st, Text: "the option parser ended with " + st + " on " + strings.Join(av, " ")}}
	}
	// names of scratch files are not part of the comparison
	return c16FileOpt.ReplaceAllString(state, "$1=set"), nil
}

func c16GenArgv(rng *rand.Rand, tier string, emit func(string)) {
	n := 60
	if tier == "thorough" {
		n = 300
	}
	form := func() string { return []string{"0", "1", "2"}[rng.Intn(3)] }
	for _, k := range append(append([]string{}, c16GrepKinds...), "pm") {
		for _, f := range []string{"0", "1", "2"} {
			recs := c16RandRecs(rng, false)
			toks := c16Opt(rng, k, recs)
			if k == "pm" {
				toks = []string{"pm=" + hs(c16Modes[rng.Intn(6)])}
			}
			emit("argv grep " + f + " " + strings.Join(toks, " ") + " | -")
			stat("argv.grep")
		}
	}
	for _, k := range append(append([]string{}, c16AnnotKinds...), c16LibKinds...) {
		for _, f := range []string{"0", "1", "2"} {
			recs := c16RandRecs(rng, false)
			emit("argv annot " + f + " " + strings.Join(c16Opt(rng, k, recs), " ") + " | -")
			stat("argv.annot")
		}
	}
	for i := 0; i < n; i++ {
		recs := c16RandRecs(rng, false)
		var toks []string
		for _, j := range rng.Perm(len(c16GrepKinds))[:1+rng.Intn(4)] {
			toks = append(toks, c16Opt(rng, c16GrepKinds[j], recs)...)
		}
		op := "grep"
		if rng.Intn(2) == 0 {
			op = "annot"
			all := append(append([]string{}, c16AnnotKinds...), c16LibKinds...)
			for _, j := range rng.Perm(len(all))[:1+rng.Intn(4)] {
				toks = append(toks, c16Opt(rng, all[j], recs)...)
			}
		}
		// a token may occur once only for the single-valued options of the specification
		seen := map[string]bool{}
		var uniq []string
		for _, t := range toks {
			k := strings.SplitN(t, "=", 2)[0]
			single := map[string]bool{"l": true, "L": true, "c": true, "C": true, "pe": true, "idl": true, "setid": true, "cut": true,
				"pat": true, "patname": true, "aho": true, "v": true, "indel": true, "fwd": true, "clear": true, "len": true,
				"path": true, "trank": true, "sci": true, "pm": true}
			if single[k] && seen[k] {
				continue
			}
			seen[k] = true
			uniq = append(uniq, t)
		}
		emit("argv " + op + " " + form() + " " + strings.Join(uniq, " ") + " | -")
		stat("argv." + op)
	}
	for i := 0; i < n/2; i++ {
		toks := []string{"pat=" + hs([]string{"out_", "b"}[rng.Intn(2)]) + ":" + hs([]string{".fasta", "", ".gz"}[rng.Intn(3)])}
		if rng.Intn(2) == 0 {
			toks = append(toks, "cl="+hs(c16Keys[rng.Intn(len(c16Keys))]))
			if rng.Intn(2) == 0 {
				toks = append(toks, "dir="+hs(c16Keys[rng.Intn(len(c16Keys))]))
			}
		}
		if rng.Intn(2) == 0 {
			toks = append(toks, "na="+hs([]string{"none", "x", "NA"}[rng.Intn(3)]))
		}
		if rng.Intn(2) == 0 || len(toks) == 1 {
			toks = append(toks, []string{"n=3", "n=1", "H=7", "H=2"}[rng.Intn(4)])
		}
		if rng.Intn(3) == 0 {
			toks = append(toks, "z")
		}
		emit("argv dist " + form() + " " + strings.Join(toks, " ") + " | -")
		stat("argv.dist")
	}
}
