//go:build c05

package main

// C05, third pass: commands whose output is a function of GROUPS of input records (obiuniq: classes of equal
// (sequence, categories); obiclean: the samples of a data set) and obitag (a per-record command against a fixed
// reference data base). Their model is not "every record alone": the section of the case line holds the INPUT
// records and the Lean driver runs the model of the command itself (C06: `Uniq.uniqCRC`, C13: `cleanDataset` +
// `cliOutput`) on them.
//
//	| uniq <mem|disk> c=100 w= b= ns= na= cats= stats= dm=* <rec> …      (protocol of Driver/C06.lean)
//	| clean c <workers> <d> <p> <q> <head> <hexseq>/<s>=<n>,… …           (protocol of Driver/C13.lean)
//
// The real output is put in the canonical form of those drivers (tokens joined by `;`).

import (
	"bytes"
	"encoding/json"
	"fmt"
	"math/rand"
	"os"
	"path/filepath"
	"sort"
	"strconv"
	"strings"
)

// c05Fa is one FASTA record as the commands print it (`>id {json}` then the sequence lines)
type c05Fa struct {
	id    string
	annot map[string]interface{}
	seq   string
	bad   bool
}

// c05ParseFasta : the records of a FASTA text with JSON title annotations (numbers kept as json.Number)
func c05ParseFasta(out []byte) []c05Fa {
	var recs []c05Fa
	for _, rec := range bytes.Split(append([]byte("\n"), out...), []byte("\n>")) {
		if len(bytes.TrimSpace(rec)) == 0 {
			continue
		}
		nl := bytes.IndexByte(rec, '\n')
		title := rec
		body := []byte{}
		if nl >= 0 {
			title, body = rec[:nl], rec[nl+1:]
		}
		r := c05Fa{annot: map[string]interface{}{}}
		t := string(title)
		if k := strings.IndexByte(t, ' '); k >= 0 {
			r.id = t[:k]
			js := strings.TrimSpace(t[k+1:])
			if js != "" {
				dec := json.NewDecoder(strings.NewReader(js))
				dec.UseNumber()
				if err := dec.Decode(&r.annot); err != nil {
					r.bad = true
				}
			}
		} else {
			r.id = t
		}
		r.seq = strings.ReplaceAll(string(body), "\n", "")
		recs = append(recs, r)
	}
	return recs
}

func c05Hs(s string) string { return hx([]byte(s)) }

// c05ValStr : the rendering of an annotation value the C06 model uses (fmt.Sprint of the Go value)
func c05ValStr(v interface{}) string {
	switch t := v.(type) {
	case string:
		return t
	case json.Number:
		return t.String()
	case bool:
		if t {
			return "true"
		}
		return "false"
	default:
		b, _ := json.Marshal(v)
		return string(b)
	}
}

func c05IntMap(v interface{}) (map[string]int, bool) {
	m, ok := v.(map[string]interface{})
	if !ok {
		return nil, false
	}
	res := map[string]int{}
	for k, x := range m {
		n, ok := x.(json.Number)
		if !ok {
			return nil, false
		}
		i, err := strconv.Atoi(n.String())
		if err != nil {
			return nil, false
		}
		res[k] = i
	}
	return res, true
}

// c05UniqOpts : the functional options of an obiuniq scenario, read from its argument list
type c05UniqOpts struct {
	mem   bool
	ns    bool
	cats  []string
	stats []string
}

func c05UniqOptsOf(sc *c05Scenario) c05UniqOpts {
	var o c05UniqOpts
	for i := 0; i < len(sc.args); i++ {
		switch sc.args[i] {
		case "--in-memory":
			o.mem = true
		case "--no-singleton":
			o.ns = true
		case "-c":
			i++
			o.cats = append(o.cats, sc.args[i])
		case "-m":
			i++
			o.stats = append(o.stats, sc.args[i])
		}
	}
	return o
}

// c05UniqCanon : the output of obiuniq in the canonical form of Driver/C06.lean (`U n rec…`, records sorted, a record =
// `seq:count:attrs:merged` with the attributes other than count / merged_* sorted and the requested merged_ maps):
// a multiset of (sequence, count, categories and every other surviving attribute, merged maps); identifiers and order
// are not part of it
func c05UniqCanon(out []byte, stats []string) string {
	recs := c05ParseFasta(out)
	lines := make([]string, 0, len(recs))
	for _, r := range recs {
		if r.bad {
			lines = append(lines, "!unparsable-title")
			continue
		}
		count := 1
		var as, ms []string
		for k, v := range r.annot {
			switch {
			case k == "count":
				if n, ok := v.(json.Number); ok {
					count, _ = strconv.Atoi(n.String())
				}
			case strings.HasPrefix(k, "merged_"):
			default:
				as = append(as, c05Hs(k)+"="+c05Hs(c05ValStr(v)))
			}
		}
		for _, k := range stats {
			v, ok := r.annot["merged_"+k]
			if !ok {
				continue
			}
			m, ok := c05IntMap(v)
			if !ok {
				ms = append(ms, c05Hs(k)+"~3f=0")
				continue
			}
			es := make([]string, 0, len(m))
			for val, w := range m {
				es = append(es, c05Hs(val)+"="+strconv.Itoa(w))
			}
			sort.Strings(es)
			ms = append(ms, strings.Join(append([]string{c05Hs(k)}, es...), "~"))
		}
		sort.Strings(as)
		sort.Strings(ms)
		a, m := "-", "-"
		if len(as) > 0 {
			a = strings.Join(as, ",")
		}
		if len(ms) > 0 {
			m = strings.Join(ms, ",")
		}
		lines = append(lines, fmt.Sprintf("%s:%d:%s:%s", hx([]byte(r.seq)), count, a, m))
	}
	sort.Strings(lines)
	return strings.Join(append([]string{"U", strconv.Itoa(len(lines))}, lines...), ";")
}

// c05UniqSection : the input records in the protocol of Driver/C06.lean
func c05UniqSection(sc *c05Scenario, recs [][2]string) string {
	o := c05UniqOptsOf(sc)
	mode, ns := "disk", 0
	if o.mem {
		mode = "mem"
	}
	if o.ns {
		ns = 1
	}
	list := func(l []string) string {
		if len(l) == 0 {
			return "-"
		}
		p := make([]string, len(l))
		for i, s := range l {
			p[i] = c05Hs(s)
		}
		return strings.Join(p, ",")
	}
	var sb strings.Builder
	fmt.Fprintf(&sb, "uniq %s c=100 w=3 b=7 ns=%d na=%s cats=%s stats=%s dm=*", mode, ns, c05Hs("NA"), list(o.cats), list(o.stats))
	for _, rc := range recs {
		for _, r := range c05ParseFasta([]byte(rc[0])) {
			cnt := "-"
			var as []string
			keys := make([]string, 0, len(r.annot))
			for k := range r.annot {
				keys = append(keys, k)
			}
			sort.Strings(keys)
			for _, k := range keys {
				v := r.annot[k]
				if k == "count" {
					cnt = c05ValStr(v)
					continue
				}
				switch t := v.(type) {
				case string:
					as = append(as, c05Hs(k)+"=s"+c05Hs(t))
				case json.Number:
					as = append(as, c05Hs(k)+"=i"+t.String())
				}
			}
			a := "-"
			if len(as) > 0 {
				a = strings.Join(as, ",")
			}
			sb.WriteString(" " + c05Hs(r.id) + ":" + hx([]byte(r.seq)) + ":" + cnt + ":" + a + ":-")
		}
	}
	return sb.String()
}

// ---- obiclean ----

type c05CleanOpts struct {
	d, p, q int
	head    bool
}

func c05CleanOptsOf(sc *c05Scenario) c05CleanOpts {
	o := c05CleanOpts{d: 1, p: 1, q: 1}
	for i := 0; i < len(sc.args); i++ {
		switch sc.args[i] {
		case "-d":
			i++
			o.d, _ = strconv.Atoi(sc.args[i])
		case "-r":
			i++
			switch sc.args[i] {
			case "0.5":
				o.p, o.q = 1, 2
			case "0.25":
				o.p, o.q = 1, 4
			case "1":
				o.p, o.q = 1, 1
			}
		case "-H":
			o.head = true
		}
	}
	return o
}

func c05KV(v interface{}) []string {
	m, _ := v.(map[string]interface{})
	r := make([]string, 0, len(m))
	for k, x := range m {
		r = append(r, k+"="+c05ValStr(x))
	}
	sort.Strings(r)
	return r
}

// c05CleanCanon : the records obiclean wrote, in output order, as Driver/C13.lean prints them for its op `c`:
// `orig:head/headcount/internalcount/singletoncount/samplecount/status…/weight…/mutation…`
func c05CleanCanon(out []byte) string {
	recs := c05ParseFasta(out)
	if len(recs) == 0 {
		return "-"
	}
	parts := make([]string, len(recs))
	num := func(v interface{}) int {
		if n, ok := v.(json.Number); ok {
			i, _ := strconv.Atoi(n.String())
			return i
		}
		return 0
	}
	for i, r := range recs {
		orig, err := strconv.Atoi(strings.TrimPrefix(r.id, "s"))
		if err != nil || r.bad {
			parts[i] = "!unparsable:" + c05Hs(r.id)
			continue
		}
		head := 0
		if b, ok := r.annot["obiclean_head"].(bool); ok && b {
			head = 1
		}
		parts[i] = fmt.Sprintf("%d:%d/%d/%d/%d/%d/%s/%s/%s", orig, head, num(r.annot["obiclean_headcount"]), num(r.annot["obiclean_internalcount"]),
			num(r.annot["obiclean_singletoncount"]), num(r.annot["obiclean_samplecount"]),
			strings.Join(c05KV(r.annot["obiclean_status"]), ","), strings.Join(c05KV(r.annot["obiclean_weight"]), ","),
			strings.Join(c05KV(r.annot["obiclean_mutation"]), ","))
	}
	return strings.Join(parts, ";")
}

// c05CleanSection : the data set in the protocol of Driver/C13.lean (op `c`)
func c05CleanSection(sc *c05Scenario, recs [][2]string) string {
	o := c05CleanOptsOf(sc)
	h := 0
	if o.head {
		h = 1
	}
	var sb strings.Builder
	fmt.Fprintf(&sb, "clean c 4 %d %d %d %d", o.d, o.p, o.q, h)
	for _, rc := range recs {
		for _, r := range c05ParseFasta([]byte(rc[0])) {
			m, _ := c05IntMap(r.annot["merged_sample"])
			kv := make([]string, 0, len(m))
			for k, n := range m {
				kv = append(kv, k+"="+strconv.Itoa(n))
			}
			sort.Strings(kv)
			sb.WriteString(" " + hx([]byte(r.seq)) + "/" + strings.Join(kv, ","))
		}
	}
	return sb.String()
}

// ---- generators ----

// c05CleanRecords : a dereplicated data set: distinct sequences (hubs, their one- and two-difference variants, unrelated
// ones), each with its merged_sample map over the samples a, b, c; identifiers s0, s1, …
func c05CleanRecords(r *rand.Rand, nrec int) [][2]string {
	recs := make([][2]string, 0, nrec)
	seen := map[string]bool{}
	var hubs [][]byte
	for len(recs) < nrec {
		var s []byte
		if len(hubs) == 0 || r.Intn(6) == 0 {
			s = c05Dna(r, 24+r.Intn(16))
			hubs = append(hubs, s)
		} else {
			h := hubs[r.Intn(len(hubs))]
			s = append([]byte{}, h...)
			for k := 0; k <= r.Intn(2); k++ {
				p := r.Intn(len(s))
				switch r.Intn(4) {
				case 0:
					s = append(s[:p], s[p+1:]...)
				case 1:
					s = append(s[:p], append([]byte{"acgt"[r.Intn(4)]}, s[p:]...)...)
				default:
					s[p] = "acgt"[r.Intn(4)]
				}
			}
			if r.Intn(5) == 0 {
				hubs = append(hubs, s)
			}
		}
		if seen[string(s)] || len(s) < 8 {
			continue
		}
		seen[string(s)] = true
		var kv []string
		for _, name := range []string{"a", "b", "c"} {
			if r.Intn(3) > 0 {
				n := 1 + r.Intn(3)
				if r.Intn(3) == 0 {
					n = 5 + r.Intn(60)
				}
				kv = append(kv, fmt.Sprintf("%q:%d", name, n))
			}
		}
		if len(kv) == 0 {
			kv = append(kv, fmt.Sprintf("%q:%d", "a", 1+r.Intn(9)))
		}
		var sb strings.Builder
		fmt.Fprintf(&sb, ">s%d {\"merged_sample\":{%s}}\n", len(recs), strings.Join(kv, ","))
		c05Fold(&sb, s)
		recs = append(recs, [2]string{sb.String(), ""})
	}
	return recs
}

// c05UniqCatRecords : few distinct sequences x few values of the category attributes, MANY records per class (the
// classes of one sequence are sub-classified record by record by the category stage: a classifier shared between
// workers, a lost update or a Reset between two records of one class splits it)
func c05UniqCatRecords(r *rand.Rand, nrec int) [][2]string {
	nseq := max(3, nrec/33)
	seqs := make([][]byte, nseq)
	for i := range seqs {
		seqs[i] = c05Dna(r, 24+r.Intn(17))
	}
	recs := make([][2]string, nrec)
	for i := range recs {
		var kv []string
		if r.Intn(3) == 0 {
			kv = append(kv, fmt.Sprintf("\"count\":%d", 1+r.Intn(3)))
		}
		if r.Intn(2) == 0 {
			kv = append(kv, fmt.Sprintf("\"k\":\"%s\"", []string{"v", "w"}[r.Intn(2)]))
		}
		if r.Intn(4) == 0 {
			kv = append(kv, fmt.Sprintf("\"n\":%d", r.Intn(3)))
		}
		if r.Intn(10) > 0 {
			kv = append(kv, fmt.Sprintf("\"sample\":\"s%d\"", r.Intn(4)))
		}
		s := seqs[r.Intn(nseq)]
		if r.Intn(40) == 0 {
			s = c05Dna(r, 20+r.Intn(10)) // a singleton
		}
		var sb strings.Builder
		if len(kv) > 0 {
			fmt.Fprintf(&sb, ">r%d {%s}\n", i, strings.Join(kv, ","))
		} else {
			fmt.Fprintf(&sb, ">r%d\n", i)
		}
		c05Fold(&sb, s)
		recs[i][0] = sb.String()
	}
	return recs
}

// ---- obitag: a small taxonomy and reference data base, the same for every run ----

const c05TaxBase = "ccgtaatgccgttccataacagagtttttcgaaccggtgtcgtcgagcgacggaattagatcagttacatggcagcaaac"

func c05Mut(r *rand.Rand, s []byte, k int) []byte {
	s = append([]byte{}, s...)
	for ; k > 0; k-- {
		s[r.Intn(len(s))] = "acgt"[r.Intn(4)]
	}
	return s
}

// c05TagFiles writes nodes.dmp / names.dmp / merged.dmp and the reference data base (with ties: references that are
// equally distant from many queries, two of them identical with different taxa) into dir
func c05TagFiles(dir string) (taxdir, refs string) {
	taxdir = filepath.Join(dir, "tax")
	os.MkdirAll(taxdir, 0o755)
	nodes := [][3]interface{}{{1, 1, "no rank"}, {2, 1, "kingdom"}, {3, 2, "family"}, {4, 2, "family"}, {5, 3, "genus"}, {6, 3, "genus"}, {7, 4, "genus"},
		{8, 5, "species"}, {9, 5, "species"}, {10, 6, "species"}, {11, 7, "species"}, {12, 7, "species"}}
	var nb, mb strings.Builder
	for _, n := range nodes {
		fmt.Fprintf(&nb, "%d\t|\t%d\t|\t%s\t|\t\n", n[0], n[1], n[2])
		fmt.Fprintf(&mb, "%d\t|\ttaxon%d\t|\t\t|\tscientific name\t|\n", n[0], n[0])
	}
	os.WriteFile(filepath.Join(taxdir, "nodes.dmp"), []byte(nb.String()), 0o644)
	os.WriteFile(filepath.Join(taxdir, "names.dmp"), []byte(mb.String()), 0o644)
	os.WriteFile(filepath.Join(taxdir, "merged.dmp"), nil, 0o644)
	r := rand.New(rand.NewSource(424242))
	var rb strings.Builder
	taxa := []int{8, 8, 9, 10, 11, 12, 12, 9, 10, 11, 8, 12, 10, 9}
	var prev []byte
	for i, t := range taxa {
		s := c05Mut(r, []byte(c05TaxBase), r.Intn(5))
		if i%5 == 4 {
			s = prev // the same sequence under another taxon: a tie on every score
		}
		prev = s
		fmt.Fprintf(&rb, ">ref%02d {\"taxid\":%d}\n%s\n", i, t, s)
	}
	refs = filepath.Join(dir, "refs.fasta")
	os.WriteFile(refs, []byte(rb.String()), 0o644)
	return taxdir, refs
}

func c05TagRecords(r *rand.Rand, nrec int) [][2]string {
	recs := make([][2]string, nrec)
	for i := range recs {
		s := c05Mut(r, []byte(c05TaxBase), r.Intn(9))
		if r.Intn(8) == 0 {
			s = c05Dna(r, 60+r.Intn(30)) // unrelated: identity below the threshold
		}
		recs[i][0] = fmt.Sprintf(">q%04d {\"count\":%d}\n%s\n", i, 1+r.Intn(4), s)
	}
	return recs
}
