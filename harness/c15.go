//go:build c15

package main

// C15 — assignment search is lossless: k-mer prefilters never change the answer.
//
// Case lines (sequences in lower-case hex, "-" = empty sequence, "_" = empty list):
//
//	cw  <A> <B>                       Common4Mer(Count4Mer(A), Count4Mer(B))             -> "n"
//	fc1 <Q> <R1,R2,...>               obitag.FindClosests(Q, refs, counts, false)
//	fc2 <Q> <R1,R2,...>               obitag2.FindClosests                                -> "maxe num/den bestmatch idx,idx,..."
//	ix  <s> <R1,..> <T1,..> <TAXO>    obirefidx.IndexSequence(s, refs, counts, taxa, taxo) -> "d:taxid d:taxid ..."
//	id1 <Q> <R1,..> <T1,..> <TAXO>    obitag.Identify                                     -> "taxid bestmatch count"
//	id2 <Q> <R1,..> <T1,..> <TAXO>    obitag2.FindClosests + Obitag2RefDB.BestConsensus on a data base indexed by
//	                                  obirefidx.IndexSequence (first stage of obitag2.Identify)
//	sl1|sl2 <Q> <R1,..> <T1,..> <TAXO> <I1;I2;..>  obitag.Identify / obitag2.FindClosests + BestConsensus on references
//	                                  carrying the GIVEN indices Ij = k=hex(text),... ("_" empty map, "-" no index,
//	                                  sl2 only): the selection loop on arbitrary indices, fallback branches, blank and
//	                                  malformed entries, non-termination (observed through the loop's own debug line)
//	id3 <Q> <R1,..> <T1,..> <TAXO> <H> <C1,..>  obitag2.CLIAssignTaxonomy on a family-indexed data base (H = one 0/1 per
//	                                  reference: reffamidx_clusterhead; Ck = Count(); family_taxid by the real SetFamily;
//	                                  obitag_ref_index of the cluster heads and reffamidx_in of the families by the real
//	                                  IndexSequence), the query pushed through the returned iterator: exact-match table and
//	                                  two-stage obitag2.Identify                      -> "taxid bestmatch weight exact|lcs"
//	fv1|fv2, iv, dv1|dv2, iv3         the same real calls as fc1|fc2, ix, id1|id2, id3; the MODEL runs its verbatim
//	                                  transcriptions of the kernels (FastLCSEGFScoreByte on the shared scratch buffer,
//	                                  D1Or0, byte comparison; Model/TagV.lean, Model/TagTV.lean: findClosestsV,
//	                                  indexSequenceV, identifyTextV, identify2V) and is handed NOTHING measured on the
//	                                  real kernels: only the candidate orders of the real unstable sort
//	qg  <A> <maxlen>                  every B over {a,c,g,t} of length <= maxlen against A   -> "count minslack sumslack"
//	qgn <A> <k>                       every B obtained from A by k (1 or 2) single-base edits -> "count minslack sumslack"
//	                                  slack = common4mers + 3 + 4*distance - max(|A|,|B|)  (the q-gram bound says >= 0)
//
// TAXO = id:parent,id:parent,... (root 1 is its own parent); Ti = taxid of reference i.
//
// Exec appends after " | " the data the Lean model takes as parameters: the candidate order produced by
// obiutils.Reverse(obiutils.IntOrder(cw), true) (sort.Sort is not stable: the order among equal counts is the
// code's) and, per candidate, "lcs:alilength" returned by the real obialign.FastLCSScore WITHOUT bound (the LCS
// kernel is property C09's). For id1/id2 one more section per reference gives the same data for
// IndexSequence run on that reference. Everything after the first " | " is ignored when a line is replayed.
//
// Oracles (real code against brute force): the answer of FindClosests = the set of ALL references at minimal
// unbounded LCS distance and that distance; every entry d -> taxon of the index = LCA (naive ancestor sets on the
// parent table) of the taxa of all references within distance d; the assigned taxon is an ancestor-or-self of
// the taxon of every brute-force best reference; bestId = the largest identity lcs/alilength among the brute-force
// best references and bestmatch = the FIRST of them, in the scan order of the code, reaching it (acgt inputs: theorem
// bestmatch_verbatim); two calls on the same input give the same answer (sort.Sort is unstable but has no random
// state: the candidate order is a function of the counts). Hypotheses of the Lean theorems validated on every pair met:
// the q-gram bound (hyp.qgram) and exactness of the bounded kernels (hyp.bounded-lcs, hyp.d1or0).

import (
	"fmt"
	"math"
	"math/rand"
	"os"
	"runtime"
	"sort"
	"strconv"
	"strings"
	"time"

	"git.metabarcoding.org/obitools/obitools4/obitools4/pkg/obialign"
	"git.metabarcoding.org/obitools/obitools4/obitools4/pkg/obiiter"
	"git.metabarcoding.org/obitools/obitools4/obitools4/pkg/obikmer"
	"git.metabarcoding.org/obitools/obitools4/obitools4/pkg/obiseq"
	"git.metabarcoding.org/obitools/obitools4/obitools4/pkg/obitax"
	"git.metabarcoding.org/obitools/obitools4/obitools4/pkg/obitools/obirefidx"
	"git.metabarcoding.org/obitools/obitools4/obitools4/pkg/obitools/obitag"
	"git.metabarcoding.org/obitools/obitools4/obitools4/pkg/obitools/obitag2"
	"git.metabarcoding.org/obitools/obitools4/obitools4/pkg/obiutils"
	log "github.com/sirupsen/logrus"
)

type c15 struct{}

func init() { props["C15"] = c15{} }

// ---------------------------------------------------------------------------------------------
// case lines

func c15List(l [][]byte) string {
	if len(l) == 0 {
		return "_"
	}
	p := make([]string, len(l))
	for i, s := range l {
		p[i] = hx(s)
	}
	return strings.Join(p, ",")
}

func c15Ints(l []int) string {
	if len(l) == 0 {
		return "_"
	}
	p := make([]string, len(l))
	for i, s := range l {
		p[i] = strconv.Itoa(s)
	}
	return strings.Join(p, ",")
}

func c15Taxo(t [][2]int) string {
	if len(t) == 0 {
		return "_"
	}
	p := make([]string, len(t))
	for i, s := range t {
		p[i] = fmt.Sprintf("%d:%d", s[0], s[1])
	}
	return strings.Join(p, ",")
}

func c15ParseList(s string) ([][]byte, bool) {
	if s == "_" {
		return nil, true
	}
	var out [][]byte
	for _, w := range strings.Split(s, ",") {
		b, ok := unhx(w)
		if !ok || w != strings.ToLower(w) || w == "" {
			return nil, false
		}
		out = append(out, b)
	}
	return out, true
}

func c15ParseInts(s string) ([]int, bool) {
	if s == "_" {
		return nil, true
	}
	var out []int
	for _, w := range strings.Split(s, ",") {
		n, err := strconv.Atoi(w)
		if err != nil || n < 0 || strconv.Itoa(n) != w {
			return nil, false
		}
		out = append(out, n)
	}
	return out, true
}

func c15ParseTaxo(s string) ([][2]int, bool) {
	if s == "_" {
		return nil, true
	}
	var out [][2]int
	for _, w := range strings.Split(s, ",") {
		ab := strings.Split(w, ":")
		if len(ab) != 2 {
			return nil, false
		}
		a, e1 := strconv.Atoi(ab[0])
		b, e2 := strconv.Atoi(ab[1])
		if e1 != nil || e2 != nil || a < 0 || b < 0 || strconv.Itoa(a) != ab[0] || strconv.Itoa(b) != ab[1] {
			return nil, false
		}
		out = append(out, [2]int{a, b})
	}
	return out, true
}

// ---------------------------------------------------------------------------------------------
// naive references

// c15Parents walks the parent table: ancestors-or-self of x, x first, root last (nil if ill-formed)
func c15Anc(par map[int]int, x int) []int {
	var p []int
	for n := 0; n <= len(par)+1; n++ {
		q, ok := par[x]
		if !ok {
			return nil
		}
		p = append(p, x)
		if q == x {
			return p
		}
		x = q
	}
	return nil
}

func c15IsAnc(par map[int]int, a, x int) bool {
	for _, y := range c15Anc(par, x) {
		if y == a {
			return true
		}
	}
	return false
}

// c15LcaSet: deepest common ancestor of a non-empty set of taxa, by ancestor sets
func c15LcaSet(par map[int]int, xs []int) int {
	first := c15Anc(par, xs[0]) // xs[0] first ... root last
	for _, a := range first {
		ok := true
		for _, x := range xs[1:] {
			if !c15IsAnc(par, a, x) {
				ok = false
				break
			}
		}
		if ok {
			return a
		}
	}
	return -1
}

// c15WellFormed: root 1 is its own parent and the only such node; every node reaches it
func c15WellFormed(t [][2]int) (map[int]int, bool) {
	par := map[int]int{}
	for _, e := range t {
		if _, dup := par[e[0]]; dup {
			return nil, false
		}
		par[e[0]] = e[1]
	}
	if p, ok := par[1]; !ok || p != 1 {
		return nil, false
	}
	for x, p := range par {
		if p == x && x != 1 {
			return nil, false
		}
		a := c15Anc(par, x)
		if a == nil || a[len(a)-1] != 1 {
			return nil, false
		}
	}
	return par, true
}

// naive shared 4-mer count on {a,c,g,t} words (multiset intersection of the 4-letter windows)
func c15NaiveCommon(a, b []byte) int {
	ca := map[string]int{}
	for i := 0; i+4 <= len(a); i++ {
		ca[string(a[i:i+4])]++
	}
	cb := map[string]int{}
	for i := 0; i+4 <= len(b); i++ {
		cb[string(b[i:i+4])]++
	}
	n := 0
	for k, v := range ca {
		n += min(v, cb[k])
	}
	return n
}

func c15Acgt(s []byte) bool {
	for _, b := range s {
		if b != 'a' && b != 'c' && b != 'g' && b != 't' {
			return false
		}
	}
	return true
}

// ---------------------------------------------------------------------------------------------
// pair data measured on the real kernels

type c15Pair struct {
	cw, lcs, ali int
}

func (p c15Pair) dist() int { return p.ali - p.lcs }

type c15Ctx struct {
	fails []Fail
	seen  map[string]bool
	iupac bool // some sequence of the case holds a letter other than a c g t
	hypKO bool // iupac case on which a kernel hypothesis of the model (hyp.d1or0, hyp.bounded-lcs) does not hold
	verb  bool // fv/iv/dv: the model runs the verbatim kernels itself; only the candidate orders are handed over
}

// done: an IUPAC case on which the real kernels do not behave as the model reads them (D1Or0 compares bytes,
// FastLCSScore matches ambiguity codes) is outside the domain of the model: it is not compared (printed as an
// operation the model does not know, which it answers by bad-op; Exec accepts the prefixed line on replay); the
// oracle failures found on the real code are reported (signature suffix .iupac)
func (x *c15Ctx) done(base, res string) (string, []Fail) {
	if x.iupac && x.hypKO && x.verb {
		stat("iupac:kernel-hypothesis-fails:compared-with-verbatim-kernels")
	}
	if x.iupac && x.hypKO && !x.verb {
		stat("iupac:kernel-hypothesis-fails:not-compared")
		caseOverride = "iupac-kernel-hyp " + base
		caseTrivial = true
		return "bad-op", x.fails
	}
	return res, x.fails
}

// spin detection for the selection loop of Identify / BestConsensus: every outer iteration that does not find an
// entry logs "Problem in identification line" at debug level; the model decides the loop within 3 iterations, so 64
// such lines in one call is the loop repeating itself: the hook ends the goroutine (runtime.Goexit) and the case is
// the outcome "hang"
var (
	c15HookOn    bool
	c15SpinCount int
	c15Spin      bool
)

type c15Hook struct{}

func (c15Hook) Levels() []log.Level { return []log.Level{log.DebugLevel} }
func (c15Hook) Fire(e *log.Entry) error {
	if c15HookOn && strings.HasPrefix(e.Message, "Problem in identification line") {
		c15SpinCount++
		if c15SpinCount > 64 {
			c15Spin = true
			runtime.Goexit()
		}
	}
	return nil
}

func init() { log.AddHook(c15Hook{}) }

type c15Given struct {
	isNil bool
	m     map[int]string
}

func c15ParseGiven(s string) ([]c15Given, bool) {
	var out []c15Given
	for _, w := range strings.Split(s, ";") {
		switch w {
		case "-":
			out = append(out, c15Given{isNil: true})
			continue
		case "_":
			out = append(out, c15Given{m: map[int]string{}})
			continue
		}
		m := map[int]string{}
		for _, kv := range strings.Split(w, ",") {
			ab := strings.Split(kv, "=")
			if len(ab) != 2 {
				return nil, false
			}
			k, err := strconv.Atoi(ab[0])
			v, ok := unhx(ab[1])
			if err != nil || k < 0 || strconv.Itoa(k) != ab[0] || !ok || ab[1] == "" || ab[1] != strings.ToLower(ab[1]) {
				return nil, false
			}
			for _, b := range v {
				if b >= 0x80 {
					return nil, false
				}
			}
			if _, dup := m[k]; dup {
				return nil, false
			}
			m[k] = string(v)
		}
		out = append(out, c15Given{m: m})
	}
	return out, true
}

func c15ShowGiven(g []c15Given) string {
	p := make([]string, len(g))
	for i, x := range g {
		switch {
		case x.isNil:
			p[i] = "-"
		case len(x.m) == 0:
			p[i] = "_"
		default:
			keys := make([]int, 0, len(x.m))
			for k := range x.m {
				keys = append(keys, k)
			}
			sort.Ints(keys)
			kv := make([]string, len(keys))
			for j, k := range keys {
				kv[j] = fmt.Sprintf("%d=%s", k, hx([]byte(x.m[k])))
			}
			p[i] = strings.Join(kv, ",")
		}
	}
	return strings.Join(p, ";")
}

func (x *c15Ctx) addf(sig, format string, a ...interface{}) {
	if x.iupac {
		// a symbol outside a c g t in the query or a reference: outside the assumptions of the losslessness theorems
		// (Encode4mer counts it as a, D1Or0 compares bytes, FastLCSScore matches ambiguity codes); the property text
		// quantifies over every query and data base, so the failure is reported, under the signature + ".iupac"
		// (known finding C15-iupac-prefilter)
		if strings.HasPrefix(sig, "hyp.d1or0") || strings.HasPrefix(sig, "hyp.bounded-lcs") {
			x.hypKO = true
		}
		sig += ".iupac"
	}
	if x.seen == nil {
		x.seen = map[string]bool{}
	}
	if x.seen[sig] { // one failure per signature and case
		return
	}
	x.seen[sig] = true
	x.fails = append(x.fails, Fail{sig, fmt.Sprintf(format, a...)})
}

func c15Seq(id string, s []byte) *obiseq.BioSequence {
	return obiseq.NewBioSequence(id, append([]byte{}, s...), "")
}

// measure runs the real Count4Mer/Common4Mer and the real unbounded FastLCSScore on (a, b) and validates the
// hypotheses the theorems take on the pair.
func (x *c15Ctx) measure(a, b []byte, checkHyp bool) c15Pair {
	sa, sb := c15Seq("a", a), c15Seq("b", b)
	cw := obikmer.Common4Mer(obikmer.Count4Mer(sa, nil, nil), obikmer.Count4Mer(sb, nil, nil))
	lcs, ali := obialign.FastLCSScore(sa, sb, -1, nil)
	p := c15Pair{cw, lcs, ali}
	if !checkHyp {
		return p
	}
	d := p.dist()
	if c15Acgt(a) && c15Acgt(b) {
		if n := c15NaiveCommon(a, b); n != cw {
			x.addf("cw.naive", "Common4Mer(%s,%s)=%d, naive multiset intersection %d", a, b, cw, n)
		}
		if cw < max(len(a), len(b))-3-4*d {
			x.addf("hyp.qgram", "q-gram bound fails: %s %s common=%d distance=%d", a, b, cw, d)
		}
	}
	// exactness of the bounded kernel for the bounds the search loops can pass (>= 2)
	for _, e := range []int{2, 3, 4, 5, d - 2, d - 1, d, d + 1, d + 3} {
		if e < 2 {
			continue
		}
		l, al := obialign.FastLCSScore(sa, sb, e, nil)
		if d <= e {
			if l != lcs || al != ali {
				x.addf("hyp.bounded-lcs", "FastLCSScore(%s,%s,%d)=(%d,%d), unbounded (%d,%d)", a, b, e, l, al, lcs, ali)
			}
		} else if l >= 0 {
			// the band of the kernel is wider than the bound: a pair farther than the bound may be answered; the
			// search loops compare alilength-lcs with the bound, so such an answer is ignored iff it is above it
			if al-l <= e {
				x.addf("hyp.bounded-lcs", "FastLCSScore(%s,%s,%d)=(%d,%d) but the unbounded distance is %d", a, b, e, l, al, d)
			} else {
				stat("kernel:answer-above-bound")
			}
		}
	}
	d1, _, _, _ := obialign.D1Or0(sa, sb)
	want := -1
	if d <= 1 {
		want = d
	}
	if d1 != want {
		x.addf("hyp.d1or0", "D1Or0(%s,%s)=%d, unbounded LCS distance %d", a, b, d1, d)
	}
	if d <= 1 && ali != max(len(a), len(b)) {
		x.addf("hyp.d1or0", "distance %d but alignment length %d != max length (%s,%s)", d, ali, a, b)
	}
	return p
}

// c15Order is the candidate order of the code: obiutils.Reverse(obiutils.IntOrder(cw), true)
func c15Order(cw []int) []int {
	c := append([]int{}, cw...)
	return obiutils.Reverse(obiutils.IntOrder(c), true)
}

// row = data of one scan (query or indexed reference against all references)
func (x *c15Ctx) row(q []byte, refs [][]byte) ([]c15Pair, string) {
	ps := make([]c15Pair, len(refs))
	cws := make([]int, len(refs))
	la := make([]string, len(refs))
	for i, r := range refs {
		ps[i] = x.measure(q, r, true)
		cws[i] = ps[i].cw
		la[i] = fmt.Sprintf("%d:%d", ps[i].lcs, ps[i].ali)
	}
	l := "_"
	if len(la) > 0 {
		l = strings.Join(la, ",")
	}
	if x.verb { // nothing measured is handed to the model
		return ps, c15Ints(c15Order(cws))
	}
	return ps, c15Ints(c15Order(cws)) + " " + l
}

// bestId as a reduced fraction (floats are never printed): the identities are quotients of integers
// below 2^20, distinct reduced fractions give distinct doubles
func c15Frac(v float64, maxDen int) string {
	if math.IsNaN(v) {
		return "nan"
	}
	for den := 1; den <= maxDen; den++ {
		num := math.Round(v * float64(den))
		if float64(num)/float64(den) == v {
			return fmt.Sprintf("%d/%d", int(num), den)
		}
	}
	return "float"
}

func c15BuildTaxo(t [][2]int) *obitax.Taxonomy {
	tax := obitax.NewTaxonomy()
	for _, e := range t {
		if _, err := tax.AddNewTaxa(e[0], e[1], c15Rank(e[0]), false, true); err != nil {
			return nil
		}
	}
	if tax.ReindexParent() != nil {
		return nil
	}
	class := "scientific name"
	for _, e := range t {
		name := c15Name(e[0])
		tax.AddNewName(e[0], &name, &class)
	}
	return tax
}

// c15Name: scientific name given to a taxon (some contain the separator of the index entries)
func c15Name(t int) string {
	if t%5 == 0 {
		return fmt.Sprintf("sp@%d", t)
	}
	return fmt.Sprintf("taxon %d", t)
}

func c15Rank(t int) string {
	if t%3 == 0 {
		return "family"
	}
	return "no rank"
}

func c15IdxOf(id string) string {
	return strings.TrimPrefix(id, "r")
}

func c15ShowIndex(x *c15Ctx, idx map[int]string, par map[int]int) string {
	keys := make([]int, 0, len(idx))
	for k := range idx {
		keys = append(keys, k)
	}
	sort.Ints(keys)
	out := make([]string, 0, len(keys))
	for _, k := range keys {
		parts := strings.Split(idx[k], "@")
		t, err := strconv.Atoi(parts[0])
		if err != nil || idx[k] != fmt.Sprintf("%d@%s@%s", t, c15Name(t), c15Rank(t)) {
			x.addf("ix.format", "index entry %d -> %q is not taxid@scientific name@rank of a taxon", k, idx[k])
		}
		if _, known := par[t]; !known {
			x.addf("ix.format", "index entry %d -> %q: taxid not in the taxonomy", k, idx[k])
		}
		out = append(out, fmt.Sprintf("%d:%s", k, idx[k]))
	}
	if len(out) == 0 {
		return "empty"
	}
	return strings.Join(out, " ")
}

// ---------------------------------------------------------------------------------------------
// Exec

func (c15) Exec(c string) (string, []Fail) {
	base := c
	if i := strings.Index(c, " | "); i >= 0 {
		base = c[:i]
	}
	base = strings.TrimPrefix(base, "iupac-kernel-hyp ")
	w := strings.Fields(base)
	if len(w) == 0 {
		return "bad-op", nil
	}
	x := &c15Ctx{}
	op := w[0]
	// the verbatim-kernel operations run the same real code; the model side differs (Model/TagV.lean)
	if v, ok := map[string]string{"fv1": "fc1", "fv2": "fc2", "iv": "ix", "dv1": "id1", "dv2": "id2", "iv3": "id3"}[op]; ok {
		x.verb = true
		stat("op:" + op)
		op = v
	}
	switch op {
	case "cl1", "rx", "s2", "fw": // the set-up code around the searches (c15_setup.go)
		return c15ExecSetup(x, op, base, w)
	case "conc": // the searches under concurrent use (c15_conc.go)
		return c15ExecConc(base)
	case "race":
		if len(w) < 2 || w[1] != "conc" {
			return "bad-op", nil
		}
		return c15Race(strings.TrimPrefix(base, "race "))
	case "cw":
		if len(w) != 3 {
			return "bad-op", nil
		}
		a, ok1 := unhx(w[1])
		b, ok2 := unhx(w[2])
		if !ok1 || !ok2 {
			return "bad-op", nil
		}
		stat("op:cw")
		res := guardT(5*time.Second, func() string {
			return strconv.Itoa(obikmer.Common4Mer(obikmer.Count4Mer(c15Seq("a", a), nil, nil), obikmer.Count4Mer(c15Seq("b", b), nil, nil)))
		})
		if c15Acgt(a) && c15Acgt(b) {
			if n := strconv.Itoa(c15NaiveCommon(a, b)); n != res {
				x.addf("cw.naive", "Common4Mer=%s naive=%s", res, n)
			}
		}
		return res, x.fails
	case "fc1", "fc2":
		if len(w) != 3 {
			return "bad-op", nil
		}
		q, ok1 := unhx(w[1])
		refs, ok2 := c15ParseList(w[2])
		if !ok1 || !ok2 {
			return "bad-op", nil
		}
		return c15ExecFC(x, op, base, q, refs)
	case "ix", "id1", "id2":
		if len(w) != 5 {
			return "bad-op", nil
		}
		refs, ok2 := c15ParseList(w[2])
		taxids, ok3 := c15ParseInts(w[3])
		taxo, ok4 := c15ParseTaxo(w[4])
		if !ok2 || !ok3 || !ok4 || len(taxids) != len(refs) {
			return "bad-op", nil
		}
		par, wf := c15WellFormed(taxo)
		if !wf {
			return "bad-op", nil
		}
		for _, t := range taxids {
			if _, ok := par[t]; !ok {
				return "bad-op", nil
			}
		}
		if op == "ix" {
			s, err := strconv.Atoi(w[1])
			if err != nil || s < 0 || s >= len(refs) || strconv.Itoa(s) != w[1] {
				return "bad-op", nil
			}
			return c15ExecIX(x, base, s, refs, taxids, taxo, par)
		}
		q, ok1 := unhx(w[1])
		if !ok1 {
			return "bad-op", nil
		}
		return c15ExecID(x, op, base, q, refs, taxids, taxo, par)
	case "sl1", "sl2":
		if len(w) != 6 {
			return "bad-op", nil
		}
		q, ok1 := unhx(w[1])
		refs, ok2 := c15ParseList(w[2])
		taxids, ok3 := c15ParseInts(w[3])
		taxo, ok4 := c15ParseTaxo(w[4])
		given, ok5 := c15ParseGiven(w[5])
		if !ok1 || !ok2 || !ok3 || !ok4 || !ok5 || len(taxids) != len(refs) || len(given) != len(refs) || len(refs) == 0 {
			return "bad-op", nil
		}
		par, wf := c15WellFormed(taxo)
		if !wf {
			return "bad-op", nil
		}
		for _, t := range taxids {
			if _, ok := par[t]; !ok {
				return "bad-op", nil
			}
		}
		for _, g := range given {
			if g.isNil && op == "sl1" {
				return "bad-op", nil
			}
		}
		return c15ExecSL(x, op, base, q, refs, taxids, taxo, par, given)
	case "id3":
		if len(w) != 7 {
			return "bad-op", nil
		}
		q, ok1 := unhx(w[1])
		refs, ok2 := c15ParseList(w[2])
		taxids, ok3 := c15ParseInts(w[3])
		taxo, ok4 := c15ParseTaxo(w[4])
		counts, ok5 := c15ParseInts(w[6])
		if !ok1 || !ok2 || !ok3 || !ok4 || !ok5 || len(taxids) != len(refs) || len(counts) != len(refs) || len(w[5]) != len(refs) ||
			len(refs) == 0 || strings.Trim(w[5], "01") != "" || !c15Acgt(q) || len(q) == 0 {
			return "bad-op", nil
		}
		for _, r := range refs {
			if !c15Acgt(r) || len(r) == 0 {
				return "bad-op", nil
			}
		}
		par, wf := c15WellFormed(taxo)
		if !wf {
			return "bad-op", nil
		}
		for _, t := range taxids {
			if _, ok := par[t]; !ok {
				return "bad-op", nil
			}
		}
		return c15ExecID3(x, base, q, refs, taxids, taxo, par, w[5], counts)
	case "qg", "qgn":
		if len(w) != 3 {
			return "bad-op", nil
		}
		a, ok1 := unhx(w[1])
		n, err := strconv.Atoi(w[2])
		if !ok1 || err != nil || n < 0 || strconv.Itoa(n) != w[2] || !c15Acgt(a) {
			return "bad-op", nil
		}
		if (op == "qg" && n > 8) || (op == "qgn" && (n < 1 || n > 2)) {
			return "bad-op", nil
		}
		stat("op:" + op)
		return c15ExecQG(x, op, a, n)
	}
	return "bad-op", nil
}

func c15MakeRefs(refs [][]byte) (obiseq.BioSequenceSlice, []*obikmer.Table4mer) {
	rs := make(obiseq.BioSequenceSlice, len(refs))
	counts := make([]*obikmer.Table4mer, len(refs))
	for i, r := range refs {
		rs[i] = c15Seq(fmt.Sprintf("r%d", i), r)
		counts[i] = obikmer.Count4Mer(rs[i], nil, nil)
	}
	return rs, counts
}

func c15MaxLen(q []byte, refs [][]byte) int {
	m := len(q)
	for _, r := range refs {
		m = max(m, len(r))
	}
	return m
}

// brute force: minimal unbounded distance and ALL references at that distance (ascending index)
func c15Brute(ps []c15Pair) (int, []int) {
	best := -1
	var set []int
	for i, p := range ps {
		d := p.dist()
		if best == -1 || d < best {
			best = d
			set = set[:0]
		}
		if d == best {
			set = append(set, i)
		}
	}
	return best, set
}

func c15SetIupac(x *c15Ctx, q []byte, refs [][]byte) {
	x.iupac = !c15Acgt(q)
	for _, r := range refs {
		if !c15Acgt(r) {
			x.iupac = true
		}
	}
	if x.iupac {
		stat("gen:iupac-case")
	}
}

func c15ExecFC(x *c15Ctx, op, base string, q []byte, refs [][]byte) (string, []Fail) {
	stat("op:" + op)
	c15SetIupac(x, q, refs)
	ps, rowdata := x.row(q, refs)
	caseOverride = base + " | " + rowdata
	rs, counts := c15MakeRefs(refs)
	qs := c15Seq("q", q)
	var gotMaxe int
	var gotIdx []int
	var gotBestId float64
	var gotBM string
	res := guardT(20*time.Second, func() string {
		var bests obiseq.BioSequenceSlice
		var maxe int
		var bestId float64
		var bestmatch string
		var idxs []int
		if op == "fc1" {
			bests, maxe, bestId, bestmatch, idxs = obitag.FindClosests(qs, rs, counts, false)
		} else {
			bests, maxe, bestId, bestmatch, idxs = obitag2.FindClosests(qs, rs, counts, false)
		}
		if len(bests) != len(idxs) {
			x.addf(op+".bests-idx", "len(bests)=%d len(bestidxs)=%d", len(bests), len(idxs))
		} else {
			for i := range bests {
				if bests[i] != rs[idxs[i]] {
					x.addf(op+".bests-idx", "bests[%d] is not references[%d]", i, idxs[i])
				}
			}
		}
		gotMaxe, gotIdx, gotBestId, gotBM = maxe, append([]int{}, idxs...), bestId, c15IdxOf(bestmatch)
		r1 := fmt.Sprintf("%d %s %s %s", maxe, c15Frac(bestId, 2*c15MaxLen(q, refs)+2), c15IdxOf(bestmatch), c15Ints(idxs))
		// determinism: a second call on the same input (fresh scratch buffer, same counts) gives the same answer —
		// the unstable sort.Sort has no random state
		var m2 int
		var id2 float64
		var bm2 string
		var ix2 []int
		if op == "fc1" {
			_, m2, id2, bm2, ix2 = obitag.FindClosests(qs, rs, counts, false)
		} else {
			_, m2, id2, bm2, ix2 = obitag2.FindClosests(qs, rs, counts, false)
		}
		if r2 := fmt.Sprintf("%d %s %s %s", m2, c15Frac(id2, 2*c15MaxLen(q, refs)+2), c15IdxOf(bm2), c15Ints(ix2)); r2 != r1 {
			x.addf(op+".not-deterministic", "two calls on the same input: %s then %s", r1, r2)
		}
		return r1
	})
	if len(refs) == 0 {
		stat("fc:empty-db")
		caseTrivial = true
		return x.done(base, res)
	}
	if res == "panic" || res == "hang" || res == "fatal" {
		x.addf(op+"."+res, "FindClosests: %s", res)
		return x.done(base, res)
	}
	wantD, wantSet := c15Brute(ps)
	sorted := append([]int{}, gotIdx...)
	sort.Ints(sorted)
	class := c15Class(q, refs, ps, wantD, wantSet)
	if gotMaxe != wantD {
		x.addf(op+".distance."+class, "minimal distance %d, returned %d", wantD, gotMaxe)
	} else if c15Ints(sorted) != c15Ints(wantSet) {
		x.addf(op+".ties."+class, "references at minimal distance %d: %s, returned %s", wantD, c15Short(wantSet), c15Short(sorted))
	}
	// bestId / bestmatch (theorem bestmatch_verbatim): among the brute-force best references, bestId is the largest
	// identity lcs/alilength and bestmatch the FIRST one, in the scan order of the code, that reaches it
	if !x.iupac && len(q) > 0 && gotMaxe == wantD && c15Ints(sorted) == c15Ints(wantSet) {
		inBest := map[int]bool{}
		for _, b := range wantSet {
			inBest[b] = true
		}
		cws := make([]int, len(ps))
		for i, p := range ps {
			cws[i] = p.cw
		}
		wantBM, wantId, nMax := -1, 0.0, 0
		for _, i := range c15Order(cws) {
			if !inBest[i] {
				continue
			}
			id := float64(ps[i].lcs) / float64(ps[i].ali)
			if wantBM < 0 || id > wantId {
				wantBM, wantId, nMax = i, id, 1
			} else if id == wantId {
				nMax++
			}
		}
		if gotBM != strconv.Itoa(wantBM) || gotBestId != wantId {
			x.addf(op+".bestmatch", "first best reference of largest identity in scan order: %d (identity %v), reported bestmatch %s bestId %v", wantBM, wantId, gotBM, gotBestId)
		}
		if nMax > 1 {
			stat("fc:bestmatch-decided-by-scan-order")
		}
	}
	if len(wantSet) > 1 {
		stat("fc:ties")
	}
	if wantD <= 1 {
		stat("fc:best<=1")
	}
	if len(q) < 4 {
		stat("fc:query<4")
	}
	// the pruning threshold at its boundary: a best reference sharing exactly |q|-3-4*d 4-mers (q-gram bound tight)
	for _, b := range wantSet {
		if ps[b].cw == max(0, len(q)-3-4*wantD) {
			stat("fc:best-at-threshold")
			break
		}
	}
	// unstable order: several candidates share the count of a best reference
	for _, b := range wantSet {
		n := 0
		for _, p := range ps {
			if p.cw == ps[b].cw {
				n++
			}
		}
		if n > 1 {
			stat("fc:best-in-count-tie")
			break
		}
	}
	return x.done(base, res)
}

// c15Class names the input class of a failing search (stable signature)
func c15Class(q []byte, refs [][]byte, ps []c15Pair, wantD int, wantSet []int) string {
	if len(refs) > 1001 {
		return "more-than-1001-candidates"
	}
	longer := false
	for _, r := range refs {
		if len(r) > len(q) {
			longer = true
		}
	}
	if longer {
		return "reference-longer-than-query"
	}
	return "other"
}

func c15Taxa(tax *obitax.Taxonomy, taxids []int) obitax.TaxonSet {
	taxa := make(obitax.TaxonSet, len(taxids))
	for i, t := range taxids {
		taxa[i], _ = tax.Taxon(t)
	}
	return taxa
}

// the statement on one index: every recorded d maps to the LCA of the taxa of all references within d
func c15CheckIndex(x *c15Ctx, sig string, idx map[int]string, ps []c15Pair, taxids []int, par map[int]int, lseq int) {
	// what Identify reads: for a distance D below the length of the indexed sequence, the entry of the largest
	// recorded distance <= D is the LCA of the taxa of all references within D
	for D := 0; D < lseq; D++ {
		k := D
		for k >= 0 {
			if _, ok := idx[k]; ok {
				break
			}
			k--
		}
		if k < 0 {
			x.addf(sig+".lookup-no-entry", "no entry <= %d in %v", D, idx)
			break
		}
		t, err := strconv.Atoi(strings.Split(idx[k], "@")[0])
		if err != nil {
			continue
		}
		var within []int
		for j, p := range ps {
			if p.dist() <= D {
				within = append(within, taxids[j])
			}
		}
		if len(within) > 0 {
			if want := c15LcaSet(par, within); want != t {
				x.addf(sig+".lookup-not-lca", "distance %d selects entry %d -> taxon %d, LCA of the references within %d is %d", D, k, t, D, want)
			}
		}
	}
	for d, v := range idx {
		t, err := strconv.Atoi(strings.Split(v, "@")[0])
		if err != nil {
			continue
		}
		var within []int
		for j, p := range ps {
			if p.dist() <= d {
				within = append(within, taxids[j])
			}
		}
		if len(within) == 0 {
			x.addf(sig+".no-reference-within", "entry %d -> %d but no reference is within distance %d", d, t, d)
			continue
		}
		if want := c15LcaSet(par, within); want != t {
			x.addf(sig+".entry-not-lca", "entry %d -> taxon %d, LCA of the references within %d is %d", d, t, d, want)
		}
	}
}

func c15ExecIX(x *c15Ctx, base string, s int, refs [][]byte, taxids []int, taxo [][2]int, par map[int]int) (string, []Fail) {
	stat("op:ix")
	c15SetIupac(x, nil, refs)
	ps, rowdata := x.row(refs[s], refs)
	caseOverride = base + " | " + rowdata
	rs, counts := c15MakeRefs(refs)
	tax := c15BuildTaxo(taxo)
	if tax == nil {
		return "bad-op", nil
	}
	taxa := c15Taxa(tax, taxids)
	var idx map[int]string
	res := guardT(20*time.Second, func() string {
		idx = obirefidx.IndexSequence(s, rs, &counts, &taxa, tax)
		return c15ShowIndex(x, idx, par)
	})
	if res == "panic" || res == "hang" || res == "fatal" {
		x.addf("ix."+res, "IndexSequence: %s", res)
		return x.done(base, res)
	}
	c15CheckIndex(x, "ix", idx, ps, taxids, par, len(refs[s]))
	if len(idx) > 1 {
		stat("ix:entries>1")
	}
	if len(idx) > 2 {
		stat("ix:entries>2")
	}
	return x.done(base, res)
}

func c15ExecID(x *c15Ctx, op, base string, q []byte, refs [][]byte, taxids []int, taxo [][2]int, par map[int]int) (string, []Fail) {
	stat("op:" + op)
	c15SetIupac(x, q, refs)
	ps, rowdata := x.row(q, refs)
	aug := base + " | " + rowdata
	rows := make([][]c15Pair, len(refs))
	for j := range refs {
		var rd string
		rows[j], rd = x.row(refs[j], refs)
		aug += " | " + rd
	}
	caseOverride = aug
	if len(refs) == 0 {
		caseTrivial = true
	}
	rs, counts := c15MakeRefs(refs)
	tax := c15BuildTaxo(taxo)
	if tax == nil {
		return "bad-op", nil
	}
	taxa := c15Taxa(tax, taxids)
	qs := c15Seq("q", q)
	assigned := -1
	res := guardT(20*time.Second, func() string {
		if op == "id1" {
			obitag.Identify(qs, rs, counts, taxa, tax, false)
			assigned = qs.Taxid()
			bm, _ := qs.GetStringAttribute("obitag_bestmatch")
			n, _ := qs.GetIntAttribute("obitag_match_count")
			for j, r := range rs { // the indices built lazily by Identify obey the index statement too
				if idx := r.OBITagRefIndex(); idx != nil {
					c15CheckIndex(x, "id1.index", idx, rows[j], taxids, par, len(refs[j]))
				}
			}
			return fmt.Sprintf("%d %s %d", assigned, c15IdxOf(bm), n)
		}
		// obitag2: the data base is indexed beforehand (obireffamidx), then FindClosests + BestConsensus
		for j := range rs {
			rs[j].SetOBITagRefIndex(obirefidx.IndexSequence(j, rs, &counts, &taxa, tax))
		}
		db := &obitag2.Obitag2RefDB{Taxonomy: tax}
		bests, differences, identity, bestmatch, _ := obitag2.FindClosests(qs, rs, counts, false)
		var taxon *obitax.TaxNode
		if identity >= 0.5 && differences >= 0 {
			taxon = db.BestConsensus(bests, differences, "obitag_ref_index")
		} else {
			taxon, _ = tax.Taxon(1)
		}
		assigned = taxon.Taxid()
		return fmt.Sprintf("%d %s %d", assigned, c15IdxOf(bestmatch), bests.Len())
	})
	if len(refs) == 0 {
		return x.done(base, res)
	}
	if res == "panic" || res == "hang" || res == "fatal" {
		x.addf(op+"."+res, "Identify: %s", res)
		return x.done(base, res)
	}
	_, wantSet := c15Brute(ps)
	for _, b := range wantSet {
		if !c15IsAnc(par, assigned, taxids[b]) {
			x.addf(op+".assigned-not-ancestor", "assigned taxon %d is not an ancestor-or-self of taxon %d of best reference %d", assigned, taxids[b], b)
		}
	}
	// exactness (theorem assigned_taxon_is_exact_lca): with an identity of the best match >= 0.5 and the minimal
	// distance m below the length of every best reference, the assigned taxon IS the LCA of the taxa of all the
	// references within m of some best reference (an assignment that is merely "high enough" - the root - fails here)
	if wantD, _ := c15Brute(ps); !x.iupac && len(q) > 0 {
		ok := true
		bestIdent := 0.0
		var tx []int
		for _, b := range wantSet {
			if wantD >= len(refs[b]) {
				ok = false
			}
			bestIdent = math.Max(bestIdent, float64(ps[b].lcs)/float64(ps[b].ali))
			for j := range refs {
				if rows[b][j].dist() <= wantD {
					tx = append(tx, taxids[j])
				}
			}
		}
		if ok && bestIdent >= 0.5 {
			stat(op + ":exact-lca-checked")
			if want := c15LcaSet(par, tx); want != assigned {
				x.addf(op+".assigned-not-lca", "LCA of the taxa of the references within %d of a best reference: %d, assigned %d", wantD, want, assigned)
			}
		} else if ok && assigned != 1 {
			x.addf(op+".assigned-not-root", "identity of the best match %v < 0.5 but taxon %d assigned", bestIdent, assigned)
		}
	}
	if assigned != 1 {
		stat(op + ":assigned-below-root")
	}
	return x.done(base, res)
}

// c15ExecSL: the selection loop on given indices
func c15ExecSL(x *c15Ctx, op, base string, q []byte, refs [][]byte, taxids []int, taxo [][2]int, par map[int]int, given []c15Given) (string, []Fail) {
	stat("op:" + op)
	c15SetIupac(x, q, refs)
	_, rowdata := x.row(q, refs)
	caseOverride = base + " | " + rowdata
	rs, counts := c15MakeRefs(refs)
	tax := c15BuildTaxo(taxo)
	if tax == nil {
		return "bad-op", nil
	}
	taxa := c15Taxa(tax, taxids)
	for j := range rs {
		if !given[j].isNil {
			m := map[int]string{}
			for k, v := range given[j].m {
				m[k] = v
			}
			rs[j].SetOBITagRefIndex(m)
		}
	}
	qs := c15Seq("q", q)
	c15SpinCount, c15Spin, c15HookOn = 0, false, true
	log.SetLevel(log.DebugLevel)
	res := guardT(30*time.Second, func() string {
		if op == "sl1" {
			obitag.Identify(qs, rs, counts, taxa, tax, false)
			bm, _ := qs.GetStringAttribute("obitag_bestmatch")
			n, _ := qs.GetIntAttribute("obitag_match_count")
			return fmt.Sprintf("%d %s %d", qs.Taxid(), c15IdxOf(bm), n)
		}
		db := &obitag2.Obitag2RefDB{Taxonomy: tax}
		bests, differences, identity, bestmatch, _ := obitag2.FindClosests(qs, rs, counts, false)
		var taxon *obitax.TaxNode
		if identity >= 0.5 && differences >= 0 {
			taxon = db.BestConsensus(bests, differences, "obitag_ref_index")
		} else {
			taxon, _ = tax.Taxon(1)
		}
		return fmt.Sprintf("%d %s %d", taxon.Taxid(), c15IdxOf(bestmatch), bests.Len())
	})
	log.SetLevel(log.PanicLevel)
	c15HookOn = false
	if c15Spin {
		res = "hang"
	}
	switch res {
	case "hang":
		stat("sl:hang")
	case "panic":
		stat("sl:panic")
	case "fatal":
		stat("sl:fatal")
	default:
		stat("sl:assigned")
	}
	return x.done(base, res)
}

// c15Block: the sections of one searched list (cluster heads or one family) for the model: the row of the query and the
// row of every member against the members
func (x *c15Ctx) block(q []byte, refs [][]byte, members []int) ([]c15Pair, string) {
	mrefs := make([][]byte, len(members))
	for i, m := range members {
		mrefs[i] = refs[m]
	}
	ps, rd := x.row(q, mrefs)
	out := " | " + rd
	for i := range mrefs {
		_, rd := x.row(mrefs[i], mrefs)
		out += " | " + rd
	}
	return ps, out
}

// c15ExecID3: obitag2.CLIAssignTaxonomy + Identify on a data base prepared as obireffamidx does (with the real pieces)
func c15ExecID3(x *c15Ctx, base string, q []byte, refs [][]byte, taxids []int, taxo [][2]int, par map[int]int, heads string, cnts []int) (string, []Fail) {
	stat("op:id3")
	tax := c15BuildTaxo(taxo)
	if tax == nil {
		return "bad-op", nil
	}
	rs, counts := c15MakeRefs(refs)
	var clusters []int
	famOrder := []int{}
	famMembers := map[int][]int{}
	prep := guardT(30*time.Second, func() string {
		for i := range rs {
			rs[i].SetTaxid(taxids[i])
			rs[i].SetCount(cnts[i])
			rs[i].SetAttribute("reffamidx_clusterhead", heads[i] == '1')
			tax.SetFamily(rs[i]) // family_taxid (-1: no family), as obireffamidx does
			f, _ := rs[i].GetIntAttribute("family_taxid")
			if _, ok := famMembers[f]; !ok {
				famOrder = append(famOrder, f)
			}
			famMembers[f] = append(famMembers[f], i)
			if heads[i] == '1' {
				clusters = append(clusters, i)
			}
		}
		index := func(members []int, set func(s *obiseq.BioSequence, idx map[int]string)) {
			sl := make(obiseq.BioSequenceSlice, len(members))
			km := make([]*obikmer.Table4mer, len(members))
			ta := make(obitax.TaxonSet, len(members))
			for i, m := range members {
				sl[i], km[i] = rs[m], counts[m]
				ta[i], _ = tax.Taxon(taxids[m])
			}
			for i := range members {
				set(sl[i], obirefidx.IndexSequence(i, sl, &km, &ta, tax))
			}
		}
		index(clusters, func(s *obiseq.BioSequence, idx map[int]string) { s.SetOBITagRefIndex(idx) })
		for _, f := range famOrder {
			index(famMembers[f], func(s *obiseq.BioSequence, idx map[int]string) { s.SetAttribute("reffamidx_in", idx) })
		}
		return "ok"
	})
	if prep != "ok" {
		x.addf("id3.prepare."+prep, "preparation of the data base: %s", prep)
		return prep, x.fails
	}
	// sections for the model
	aug := base + " | C " + c15Ints(clusters)
	psC, sec := x.block(q, refs, clusters)
	aug += sec
	psF := map[int][]c15Pair{}
	for _, f := range famOrder {
		if f < 0 {
			continue
		}
		aug += fmt.Sprintf(" | F %d %s", f, c15Ints(famMembers[f]))
		var sec string
		psF[f], sec = x.block(q, refs, famMembers[f])
		aug += sec
	}
	caseOverride = aug
	// does the query hit the exact-match table?
	var same []int
	for i, r := range refs {
		if string(r) == string(q) {
			same = append(same, i)
		}
	}
	qs := c15Seq("q", q)
	// A panic inside the worker goroutines of the iterator cannot be recovered: the same steps are first run here, with
	// the real public pieces, to know whether Identify will reach a nil dereference / index out of range; such a case
	// is answered "panic" without going through the pipeline (counted)
	lastSet, lastPs := clusters, psC
	predicted := ""
	if len(same) == 0 {
		if len(clusters) == 0 {
			predicted = "panic" // references[o[0]] on the empty list of cluster heads
		} else {
			cl := make(obiseq.BioSequenceSlice, len(clusters))
			kc := make([]*obikmer.Table4mer, len(clusters))
			for i, m := range clusters {
				cl[i], kc[i] = rs[m], counts[m]
			}
			db := &obitag2.Obitag2RefDB{Taxonomy: tax}
			pre := guardT(30*time.Second, func() string {
				bests, differences, identity, _, _ := obitag2.FindClosests(c15Seq("q", q), cl, kc, false)
				if identity >= 0.5 && differences >= 0 {
					ft := db.BestConsensus(bests, differences, "obitag_ref_index")
					if fam := ft.TaxonAtRank("family"); fam != nil {
						if _, ok := famMembers[fam.Taxid()]; !ok {
							return "panic" // (*db.Families)[ftaxid] is nil
						}
						lastSet, lastPs = famMembers[fam.Taxid()], psF[fam.Taxid()]
						stat("id3:family-stage")
					} else {
						stat("id3:no-family")
					}
				} else {
					stat("id3:identity<0.5")
				}
				return ""
			})
			predicted = pre
		}
	} else {
		stat("id3:exact-hit")
	}
	if predicted != "" {
		stat("id3:predicted-" + predicted + ":pipeline-not-run")
		return predicted, x.fails
	}
	assigned, weight, method := -1, -1, ""
	res := guardT(30*time.Second, func() string {
		out := obitag2.CLIAssignTaxonomy(obiiter.IBatchOver("q", obiseq.BioSequenceSlice{qs}, 1), rs, tax)
		n := 0
		var got *obiseq.BioSequence
		for out.Next() {
			for _, s := range out.Get().Slice() {
				got = s
				n++
			}
		}
		if n != 1 {
			return fmt.Sprintf("%d-sequences", n)
		}
		assigned = got.Taxid()
		bm, _ := got.GetStringAttribute("obitag_bestmatch")
		weight, _ = got.GetIntAttribute("obitag_match_count")
		method, _ = got.GetStringAttribute("obitag_similarity_method")
		m := "lcs"
		if method == "exact match" {
			m = "exact"
		}
		return fmt.Sprintf("%d %s %d %s", assigned, c15IdxOf(bm), weight, m)
	})
	if res == "panic" || res == "hang" || res == "fatal" {
		x.addf("id3."+res, "CLIAssignTaxonomy / Identify: %s", res)
		return res, x.fails
	}
	if len(same) > 0 {
		// the exact-match table: LCA of the taxa of ALL the references holding the bytes of the query, summed counts
		var tx []int
		w := 0
		for _, i := range same {
			tx = append(tx, taxids[i])
			w += cnts[i]
		}
		if want := c15LcaSet(par, tx); want != assigned || method != "exact match" {
			x.addf("id3.exact-not-lca", "query = references %v of taxa %v: LCA %d, assigned %d (%s)", same, tx, want, assigned, method)
		}
		if w != weight {
			x.addf("id3.exact-weight", "sum of the counts %d, obitag_match_count %d", w, weight)
		}
	} else {
		// the assigned taxon is an ancestor-or-self of the taxon of every best reference of the list searched last
		_, wantSet := c15Brute(lastPs)
		for _, b := range wantSet {
			if !c15IsAnc(par, assigned, taxids[lastSet[b]]) {
				x.addf("id3.assigned-not-ancestor", "assigned taxon %d is not an ancestor-or-self of taxon %d of best reference %d of the list searched last", assigned, taxids[lastSet[b]], lastSet[b])
			}
		}
	}
	return res, x.fails
}

// ---- q-gram bound on whole neighbourhoods

func c15Slack(x *c15Ctx, a, b []byte) int {
	p := x.measure(a, b, false)
	s := p.cw + 3 + 4*p.dist() - max(len(a), len(b))
	if s < 0 {
		x.addf("hyp.qgram", "q-gram bound fails: %s %s common=%d distance=%d", a, b, p.cw, p.dist())
	}
	return s
}

// c15Edits1: every sequence obtained from a by one substitution (by a different base), one insertion or one
// deletion, in a fixed order (with repetitions)
func c15Edits1(a []byte, f func([]byte)) {
	const al = "acgt"
	for i := range a {
		for k := 0; k < 4; k++ {
			if al[k] != a[i] {
				b := append([]byte{}, a...)
				b[i] = al[k]
				f(b)
			}
		}
	}
	for i := 0; i <= len(a); i++ {
		for k := 0; k < 4; k++ {
			b := make([]byte, 0, len(a)+1)
			b = append(b, a[:i]...)
			b = append(b, al[k])
			b = append(b, a[i:]...)
			f(b)
		}
	}
	for i := range a {
		b := make([]byte, 0, len(a))
		b = append(b, a[:i]...)
		b = append(b, a[i+1:]...)
		f(b)
	}
}

func c15ExecQG(x *c15Ctx, op string, a []byte, n int) (string, []Fail) {
	count, minS, sumS := 0, 1<<30, 0
	visit := func(b []byte) {
		s := c15Slack(x, a, b)
		count++
		sumS += s
		if s < minS {
			minS = s
		}
	}
	res := guardT(120*time.Second, func() string {
		if op == "qg" {
			for l := 0; l <= n; l++ {
				b := make([]byte, l)
				var rec func(i int)
				rec = func(i int) {
					if i == l {
						visit(b)
						return
					}
					for k := 0; k < 4; k++ {
						b[i] = "acgt"[k]
						rec(i + 1)
					}
				}
				rec(0)
			}
		} else if n == 1 {
			c15Edits1(a, visit)
		} else {
			c15Edits1(a, func(b []byte) { c15Edits1(append([]byte{}, b...), visit) })
		}
		return fmt.Sprintf("%d %d %d", count, minS, sumS)
	})
	return res, x.fails
}

// ---------------------------------------------------------------------------------------------
// generators

type c15Gen struct {
	rng *rand.Rand
}

func (g *c15Gen) word(n int, alpha string) []byte {
	b := make([]byte, n)
	for i := range b {
		b[i] = alpha[g.rng.Intn(len(alpha))]
	}
	return b
}

func (g *c15Gen) other(b byte) byte {
	for {
		c := "acgt"[g.rng.Intn(4)]
		if c != b {
			return c
		}
	}
}

// spreadSubs: k substitutions at least 4 apart (each destroys four 4-mers: fewest shared 4-mers per difference)
func (g *c15Gen) spreadSubs(s []byte, k int) []byte {
	b := append([]byte{}, s...)
	if len(b) == 0 {
		return b
	}
	pos := 3 + g.rng.Intn(3)
	for i := 0; i < k && pos < len(b); i++ {
		b[pos] = g.other(b[pos])
		pos += 4 + g.rng.Intn(2)
	}
	return b
}

func (g *c15Gen) endIns(s []byte, k int) []byte {
	if g.rng.Intn(2) == 0 {
		return append(append([]byte{}, s...), g.word(k, "acgt")...)
	}
	return append(g.word(k, "acgt"), s...)
}

func (g *c15Gen) endDel(s []byte, k int) []byte {
	k = min(k, len(s))
	if g.rng.Intn(2) == 0 {
		return append([]byte{}, s[:len(s)-k]...)
	}
	return append([]byte{}, s[k:]...)
}

func (g *c15Gen) randEdits(s []byte, k int) []byte {
	b := append([]byte{}, s...)
	for i := 0; i < k; i++ {
		switch g.rng.Intn(3) {
		case 0:
			if len(b) > 0 {
				p := g.rng.Intn(len(b))
				b[p] = g.other(b[p])
			}
		case 1:
			p := g.rng.Intn(len(b) + 1)
			b = append(b[:p], append([]byte{"acgt"[g.rng.Intn(4)]}, b[p:]...)...)
		case 2:
			if len(b) > 1 {
				p := g.rng.Intn(len(b))
				b = append(b[:p], b[p+1:]...)
			}
		}
	}
	return b
}

// longTail: a prefix of s followed by unrelated bases (many shared 4-mers, long, far)
func (g *c15Gen) longTail(s []byte) []byte {
	k := len(s)/2 + g.rng.Intn(len(s)/2+1)
	return append(append([]byte{}, s[:k]...), g.word(len(s)/2+g.rng.Intn(2*len(s)+1), "acgt")...)
}

func (g *c15Gen) variant(s []byte) []byte {
	k := g.rng.Intn(6)
	switch g.rng.Intn(12) {
	case 0:
		return append([]byte{}, s...)
	case 1, 2, 3:
		return g.spreadSubs(s, k)
	case 4, 5:
		return g.endIns(s, k)
	case 6:
		return g.endDel(s, k)
	case 7, 8:
		return g.randEdits(s, k)
	case 9:
		return g.longTail(s)
	case 10:
		return g.endIns(g.spreadSubs(s, k), g.rng.Intn(5))
	default:
		return g.word(max(1, len(s)-5+g.rng.Intn(11)), "acgt")
	}
}

func (g *c15Gen) baseSeq() []byte {
	var n int
	switch g.rng.Intn(10) {
	case 0:
		n = 1 + g.rng.Intn(8)
	case 1, 2, 3:
		n = 8 + g.rng.Intn(16)
	case 4, 5, 6, 7:
		n = 20 + g.rng.Intn(30)
	default:
		n = 40 + g.rng.Intn(60)
	}
	alpha := "acgt"
	if g.rng.Intn(6) == 0 {
		alpha = "ac"
	}
	return g.word(n, alpha)
}

func (g *c15Gen) refSet(base []byte, n int) [][]byte {
	refs := make([][]byte, n)
	for i := range refs {
		if i > 0 && g.rng.Intn(8) == 0 {
			refs[i] = g.variant(refs[g.rng.Intn(i)]) // variant of a variant: clusters
		} else {
			refs[i] = g.variant(base)
		}
		if len(refs[i]) == 0 {
			refs[i] = []byte("a")
		}
	}
	return refs
}

// taxonomy: root 1, other taxids arbitrary (increasing), shapes: uniform / chain / star / deep
func (g *c15Gen) taxo(n int) [][2]int {
	ids := make([]int, n)
	ids[0] = 1
	for i := 1; i < n; i++ {
		ids[i] = ids[i-1] + 1 + g.rng.Intn(3)
	}
	kind := g.rng.Intn(4)
	t := make([][2]int, n)
	t[0] = [2]int{1, 1}
	for i := 1; i < n; i++ {
		var p int
		switch kind {
		case 0:
			p = g.rng.Intn(i)
		case 1:
			p = i - 1
		case 2:
			p = 0
		default:
			if g.rng.Intn(4) > 0 {
				p = i - 1
			} else {
				p = g.rng.Intn(i)
			}
		}
		t[i] = [2]int{ids[i], ids[p]}
	}
	return t
}

func (g *c15Gen) taxids(t [][2]int, n int) []int {
	out := make([]int, n)
	for i := range out {
		if g.rng.Intn(3) == 0 {
			out[i] = t[len(t)-1-g.rng.Intn(min(3, len(t)))][0] // deep nodes
		} else {
			out[i] = t[g.rng.Intn(len(t))][0]
		}
	}
	return out
}

// iupacify: one to three bases replaced by ambiguity codes
// tiedFamily: references = the word w with ONE substitution (anywhere: near an end it keeps more 4-mers than an
// interior indel and is scanned first), ONE interior insertion, ONE interior deletion and a second interior indel:
// all at LCS distance 1 of the query w, with different shared counts (a regression that mishandles indels in a
// prefilter - C15-m3: a bound on the LCS computed from the 4-mers, wrong across a gap - loses a tied reference
// as soon as an indel variant is scanned after another best reference)
func (g *c15Gen) tiedFamily(w []byte) [][]byte {
	n := len(w)
	interior := func() int { return 2 + g.rng.Intn(n-4) }
	sub := append([]byte{}, w...)
	i := g.rng.Intn(n)
	sub[i] = g.other(sub[i])
	insAt := func(i int) []byte {
		r := append([]byte{}, w[:i]...)
		r = append(r, "acgt"[g.rng.Intn(4)])
		return append(r, w[i:]...)
	}
	delAt := func(i int) []byte {
		r := append([]byte{}, w[:i]...)
		return append(r, w[i+1:]...)
	}
	fam := [][]byte{sub, insAt(interior()), delAt(interior())}
	if g.rng.Intn(2) == 0 {
		fam = append(fam, insAt(interior()))
	} else {
		fam = append(fam, delAt(interior()))
	}
	return fam
}

func c15Perms(n int, f func([]int)) {
	p := make([]int, n)
	for i := range p {
		p[i] = i
	}
	var rec func(k int)
	rec = func(k int) {
		if k == n {
			f(p)
			return
		}
		for i := k; i < n; i++ {
			p[k], p[i] = p[i], p[k]
			rec(k + 1)
			p[k], p[i] = p[i], p[k]
		}
	}
	rec(0)
}

func (g *c15Gen) iupacify(s []byte) []byte {
	b := append([]byte{}, s...)
	for i := 0; i < 1+g.rng.Intn(3) && len(b) > 0; i++ {
		b[g.rng.Intn(len(b))] = "nrywsmkbdhv"[g.rng.Intn(11)]
	}
	return b
}

// given: an arbitrary index for the selection loop: mostly well-formed entries at small keys, sometimes blank or
// malformed entries, keys around the bounds of the two scans, an empty map, no index at all
func (g *c15Gen) given(t [][2]int, allowNil bool) c15Given {
	switch g.rng.Intn(16) {
	case 0:
		return c15Given{m: map[int]string{}}
	case 1:
		if allowNil {
			return c15Given{isNil: true}
		}
	}
	m := map[int]string{}
	for i := 0; i < 1+g.rng.Intn(4); i++ {
		var k int
		switch g.rng.Intn(8) {
		case 0:
			k = []int{999, 1000, 1001, 1002, 2000}[g.rng.Intn(5)]
		case 1:
			k = 10 + g.rng.Intn(60)
		default:
			k = g.rng.Intn(8)
		}
		id := t[g.rng.Intn(len(t))][0]
		v := fmt.Sprintf("%d@%s@%s", id, c15Name(id), c15Rank(id))
		switch g.rng.Intn(24) {
		case 0:
			v = ""
		case 1:
			v = "@" + c15Name(id) + "@" + c15Rank(id)
		case 2:
			v = "x" + v
		case 3:
			v = "+" + v
		case 4:
			v = "00" + v
		case 5:
			v = fmt.Sprintf("%d", id)
		case 6:
			v = fmt.Sprintf("%d@a@b", 100000+id)
		}
		m[k] = v
	}
	return c15Given{m: m}
}

func c15Hex(s string) string { return hx([]byte(s)) }

func c15Short(l []int) string {
	if len(l) <= 12 {
		return fmt.Sprint(l)
	}
	return fmt.Sprintf("%v... (%d references)", l[:12], len(l))
}

// c15SeedPart: the thorough tier runs the seeds 1000*s+i, i = 0..7, in parallel: i selects one eighth of the
// exhaustive enumerations
func c15SeedPart() int {
	for i, a := range os.Args {
		if (a == "-seed" || a == "--seed") && i+1 < len(os.Args) {
			if v, err := strconv.Atoi(os.Args[i+1]); err == nil && v >= 0 {
				return v % 8
			}
		}
	}
	return 0
}

func (c15) Gen(rng *rand.Rand, tier string, emit func(string)) {
	g := &c15Gen{rng}
	if tier == "thorough" && c15FirstSeed() {
		go c15RaceBuild() // the -race build of this harness for the last case (c15_conc.go), meanwhile
	}
	// ---- corpus
	// D14 (found by this check on the unrepaired FindClosests): the best-so-far reference r0 is longer than the
	// query (3 bases appended: distance 3, 27 shared 4-mers), the tied reference r1 (3 spread substitutions:
	// distance 3, 15 shared 4-mers) was pruned by wordmin = max(|q|,|r0|)-3-4*3 = 18
	q30 := "acgtagctagcatcgatcgactagctacga"
	d14r0 := q30 + "ttg"
	d14r1 := []byte(q30)
	d14r1[4], d14r1[12], d14r1[20] = 'c', 'a', 't'
	emit("fc1 " + c15Hex(q30) + " " + c15Hex(d14r0) + "," + hx(d14r1))
	emit("fc2 " + c15Hex(q30) + " " + c15Hex(d14r0) + "," + hx(d14r1))
	// D15 (found on the unrepaired IndexSequence): r0 (taxon 5, path 1>2>4>5) is indexed; r1 (taxon 7: root level)
	// is at distance 5; at level 2 the long candidate r2 (61 bases, 19 shared 4-mers) made the loop break
	// (wordmin = max(30,61)-3-4*5 = 38) before r3 (distance 3, 15 shared 4-mers) was looked at; r4 (taxon 4,
	// distance 4) then records 4 -> taxon 4 although r3 (taxon 2) is within 4
	{
		s := q30
		sub := func(pos []int, to string) []byte {
			b := []byte(s)
			for i, p := range pos {
				if b[p] == to[i] {
					panic("c15 corpus: not a substitution")
				}
				b[p] = to[i]
			}
			return b
		}
		r1 := sub([]int{3, 8, 13, 18, 23}, "acgtc")
		r2 := s[:22] + "ttgacctgaccgtaatgccaatgcatgcattgacgtacc"
		r3 := sub([]int{5, 13, 21}, "tag")
		r4 := sub([]int{4, 10, 16, 25}, "cgca")
		refs := c15Hex(s) + "," + hx(r1) + "," + c15Hex(r2) + "," + hx(r3) + "," + hx(r4)
		emit("ix 0 " + refs + " 5,7,2,2,4 1:1,2:1,4:2,5:4,7:1")
		q := sub([]int{4, 10, 16, 26}, "cgcg") // distance 4 from r0, 2 from r4
		emit("id1 " + hx(q) + " " + refs + " 5,7,2,2,4 1:1,2:1,4:2,5:4,7:1")
		emit("id2 " + hx(q) + " " + refs + " 5,7,2,2,4 1:1,2:1,4:2,5:4,7:1")
		// the same without r4: no recorded entry is wrong, but the entry 3 -> taxon 2 is missing
		refs = c15Hex(s) + "," + hx(r1) + "," + c15Hex(r2) + "," + hx(r3)
		emit("ix 0 " + refs + " 5,7,2,2 1:1,2:1,4:2,5:4,7:1")
	}
	for _, c := range []string{
		"cw " + c15Hex("acgtacgt") + " " + c15Hex("cgtacgta"),
		"cw " + c15Hex("acg") + " " + c15Hex("acg"),
		"cw - -",
		"cw " + c15Hex("aaaaaaaaaa") + " " + c15Hex("aaaaaa"),
		"cw " + c15Hex("acgtnacgt") + " " + c15Hex("acgtaacgt"), // n is counted as a
		"fc1 " + c15Hex("acgtacgtac") + " _",                    // empty data base
		"fc2 " + c15Hex("acgtacgtac") + " _",
		"fc1 " + c15Hex("acgtacgtac") + " " + c15Hex("acgtacgtac"),
		"fc1 " + c15Hex("acgtacgtac") + " " + c15Hex("acgtacgtac") + "," + c15Hex("acgtacgtac") + "," + c15Hex("acgtacgtaa"),
		"fc2 " + c15Hex("acgtacgtac") + " " + c15Hex("acgtacgtaa") + "," + c15Hex("acgtacgtac") + "," + c15Hex("acgtacgtac"),
		"fc1 " + c15Hex("acgtacgtac") + " " + c15Hex("acgtacgta") + "," + c15Hex("acgtacgtacc") + "," + c15Hex("acgaacgtac"), // three ties at distance 1
		"fc1 " + c15Hex("aca") + " " + c15Hex("tgt") + "," + c15Hex("a") + "," + c15Hex("ca"),
		"fc1 " + c15Hex("acgtacgt") + " " + c15Hex("tttttttttttttttttt"), // nothing in common: identity 0
		"fc1 " + c15Hex("acgtacgtacgtacgt") + " " + c15Hex("acgtacgt") + "," + c15Hex("acgtacgtacgtacgtacgtacgtacgtacgt"),
		"ix 0 " + c15Hex("acgtacgtac") + " 1 1:1",
		"ix 1 " + c15Hex("acgtacgtac") + "," + c15Hex("acgtacgtac") + " 2,3 1:1,2:1,3:1",
		"ix 0 " + c15Hex("acgtacgtac") + "," + c15Hex("acgtacgtaa") + "," + c15Hex("acgtaggtaa") + " 4,5,3 1:1,2:1,3:1,4:2,5:2",
		"ix 0 " + c15Hex("acg") + "," + c15Hex("ac") + "," + c15Hex("tttt") + " 2,2,1 1:1,2:1",
		"id1 " + c15Hex("acgtacgtac") + " " + c15Hex("acgtacgtac") + "," + c15Hex("acgtacgtaa") + "," + c15Hex("acgtaggtaa") + " 4,5,3 1:1,2:1,3:1,4:2,5:2",
		"id1 " + c15Hex("acgtacgtaa") + " " + c15Hex("acgtacgtac") + "," + c15Hex("acgtacgtag") + "," + c15Hex("acgtaggtaa") + " 4,5,3 1:1,2:1,3:1,4:2,5:2",
		"id2 " + c15Hex("acgtacgtaa") + " " + c15Hex("acgtacgtac") + "," + c15Hex("acgtacgtag") + "," + c15Hex("acgtaggtaa") + " 4,5,3 1:1,2:1,3:1,4:2,5:2",
		"id1 " + c15Hex("tttttttttt") + " " + c15Hex("acgacgacga") + " 2 1:1,2:1",     // identity < 0.5: root
		"id1 " + c15Hex("acgtacgtacgtacgt") + " " + c15Hex("acgtacgt") + " 2 1:1,2:1", // identity 0.5, distance = |ref|
		"qg " + c15Hex("acgtacg") + " 4",
		"qg - 3",
		"qgn " + c15Hex("acgtagctagca") + " 1",
		"qgn " + c15Hex("acgtagctagca") + " 2",
		"qgn " + c15Hex("aaaaaaaaaa") + " 2",
	} {
		emit(c)
	}
	// obitag2 only: candidates beyond the 1001st are never examined (`i > 1000`)
	{
		q := "acgtagctagcatcgatcgactagctacgatcgatcgtagctagctagcatcgat"
		far := []byte(q) // the last 5 bases replaced: 47 shared 4-mers, distance 4
		for p := 50; p < 55; p++ {
			far[p] = map[byte]byte{'a': 'c', 'c': 'a', 'g': 't', 't': 'g'}[far[p]]
		}
		refs := make([][]byte, 0, 1003)
		for i := 0; i < 1001; i++ {
			refs = append(refs, far)
		}
		near := []byte(q) // 3 spread differences: 40 shared 4-mers, distance 3 (the copies of far: 47 and 4)
		near[10], near[20], near[30] = 't', 'a', 'c'
		refs = append(refs, near)
		emit("fc2 " + c15Hex(q) + " " + c15List(refs))
		emit("fc1 " + c15Hex(q) + " " + c15List(refs))
		// 1003 tied references
		refs = refs[:0]
		for i := 0; i < 1003; i++ {
			refs = append(refs, near)
		}
		emit("fc2 " + c15Hex(q) + " " + c15List(refs))
	}

	// ---- selection loop on given indices (sl1 = obitag.Identify, sl2 = obitag2 FindClosests + BestConsensus): the
	// query is at distance 1 of the single reference
	{
		Q, R, T := c15Hex("acgtacgtaa"), c15Hex("acgtacgtac"), "1:1,2:1,3:1,4:2,5:2"
		for _, op := range []string{"sl1", "sl2"} {
			for _, ix := range []string{
				"0=" + c15Hex("4@taxon 4@no rank"),            // downward scan
				"1=" + c15Hex("4@taxon 4@no rank"),            // hit at the observed distance
				"5=" + c15Hex("2@taxon 2@no rank"),            // upward scan
				"1000=" + c15Hex("5@@"),                       // last key of the upward scan
				"1001=" + c15Hex("2@x@y"),                     // found by the downward scan of the second outer iteration
				"1002=" + c15Hex("2@x@y"),                     // never found: the loop spins
				"_",                                           // empty index: spins
				"1=-",                                         // blank entry at the observed distance: spins
				"0=" + c15Hex("@x@y"),                         // blank entry at key 0 below it: loop left by d < 0, Atoi("")
				"1=-,0=" + c15Hex("4@a@b"),                    // blank entry hides the entry 0: spins
				"2=-,0=" + c15Hex("4@a@b"),                    // blank entry above the observed distance: not looked at
				"3=" + c15Hex("abc@x@y"),                      // Atoi fails
				"1=" + c15Hex("+2@x@y"), "1=" + c15Hex("002"), // Atoi accepts a sign, leading zeros, no separator
				"1=" + c15Hex("99@a@b"), "1=" + c15Hex("-3@a@b"), // no such taxon
				"0=" + c15Hex("5@sp@5@family@x"), // separators in the name
			} {
				emit(op + " " + Q + " " + R + " 4 " + T + " " + ix)
			}
		}
		emit("sl2 " + Q + " " + R + " 4 " + T + " -") // obitag2 on a data base that is not indexed: log.Fatalf
		emit("sl1 " + Q + " " + R + "," + c15Hex("acgtacgtat") + " 4,5 " + T + " 0=" + c15Hex("4@a@b") + ";1=" + c15Hex("5@a@b"))
		emit("sl2 " + Q + " " + R + "," + c15Hex("acgtacgtat") + " 4,5 " + T + " 0=" + c15Hex("4@a@b") + ";-") // second best reference not indexed
		emit("sl1 " + c15Hex("tttttttttt") + " " + R + " 4 " + T + " _")                                       // identity < 0.5: the index is not read
	}
	// obitag2.CLIAssignTaxonomy + Identify (taxa 3 and 6 are families): exact hits (two references with the bytes of the
	// query and different taxa; one; a cluster head), the family stage, a query close to the other family, identity < 0.5,
	// no cluster head at all (index out of range), a cluster head list without the family of the query
	{
		R := c15Hex("acgtacgtac") + "," + c15Hex("acgtacgtaa") + "," + c15Hex("ttgcattgca") + "," + c15Hex("acgtacgtac")
		T := "1:1,2:1,3:2,4:3,5:3,6:1,7:6"
		for _, q := range []string{"acgtacgtac", "acgtacgtaa", "acgtacgtag", "ttgcattgcc", "gggggggggg", "ttgcattgca"} {
			emit("id3 " + c15Hex(q) + " " + R + " 4,5,7,5 " + T + " 1010 1,2,3,4")
		}
		emit("id3 " + c15Hex("acgtacgtag") + " " + R + " 4,5,7,5 " + T + " 0000 1,2,3,4")
		emit("id3 " + c15Hex("acgtacgtag") + " " + R + " 4,5,7,5 " + T + " 0100 1,2,3,4")
		emit("id3 " + c15Hex("acgtacgtag") + " " + R + " 4,5,7,5 " + T + " 0010 1,2,3,4")
		emit("id3 " + c15Hex("acgtacgtag") + " " + R + " 4,5,2,1 1:1,2:1,4:2,5:2 1111 1,1,1,1") // no family in the taxonomy
		emit("id3 " + c15Hex("acgtacgtag") + " " + R + " 9,9,6,3 1:1,3:1,6:3,9:6 1111 1,1,1,1") // two families on one lineage
		// the same with the model running everything verbatim (identify2V)
		for _, q := range []string{"acgtacgtac", "acgtacgtaa", "acgtacgtag", "ttgcattgcc", "gggggggggg", "ttgcattgca"} {
			emit("iv3 " + c15Hex(q) + " " + R + " 4,5,7,5 " + T + " 1010 1,2,3,4")
		}
		emit("iv3 " + c15Hex("acgtacgtag") + " " + R + " 4,5,7,5 " + T + " 0000 1,2,3,4")
		emit("iv3 " + c15Hex("acgtacgtag") + " " + R + " 4,5,7,5 " + T + " 0100 1,2,3,4")
		emit("iv3 " + c15Hex("acgtacgtag") + " " + R + " 4,5,2,1 1:1,2:1,4:2,5:2 1111 1,1,1,1")
		emit("iv3 " + c15Hex("acgtacgtag") + " " + R + " 9,9,6,3 1:1,3:1,6:3,9:6 1111 1,1,1,1")
	}
	// identical references with different taxa; queries shorter than 4 bases; ambiguity codes
	for _, c := range []string{
		"id1 " + c15Hex("acgtacgtac") + " " + c15Hex("acgtacgtac") + "," + c15Hex("acgtacgtac") + "," + c15Hex("acgtacgtac") + " 4,5,3 1:1,2:1,3:1,4:2,5:2",
		"id2 " + c15Hex("acgtacgtac") + " " + c15Hex("acgtacgtac") + "," + c15Hex("acgtacgtac") + " 4,5 1:1,2:1,3:1,4:2,5:2",
		"ix 0 " + c15Hex("acgtacgtac") + "," + c15Hex("acgtacgtac") + "," + c15Hex("acgtacgtaa") + " 4,3,5 1:1,2:1,3:1,4:2,5:2",
		"id1 " + c15Hex("ac") + " " + c15Hex("ac") + "," + c15Hex("acg") + "," + c15Hex("a") + " 4,5,3 1:1,2:1,3:1,4:2,5:2",
		"id2 " + c15Hex("acg") + " " + c15Hex("ac") + "," + c15Hex("acgt") + "," + c15Hex("tcg") + " 4,5,3 1:1,2:1,3:1,4:2,5:2",
		"fc1 " + c15Hex("a") + " " + c15Hex("a") + "," + c15Hex("c") + "," + c15Hex("aa"),
		"fc2 " + c15Hex("acgtnacgtacgt") + " " + c15Hex("acgtaacgtacgt") + "," + c15Hex("acgtcacgtacgt"),
		"fc1 " + c15Hex("acgtacgtacgtacgtacgt") + " " + c15Hex("acgtacgtacgtacgtacgt") + "," + c15Hex("nnnnnnnnnnnnnnnnnnnn"),
		"ix 0 " + c15Hex("acgtrcgtac") + "," + c15Hex("acgtacgtac") + " 4,5 1:1,2:1,3:1,4:2,5:2",
		// known finding C15-iupac-prefilter (found by the random IUPAC cases): three identical references at distance 1 of
		// the query ktagatak (FastLCSScore matches k with t); the first is compared without bound, the two others by
		// D1Or0, which compares bytes: two mismatches, dropped although tied
		"fc1 " + c15Hex("ktagatak") + " " + c15Hex("atagatat") + "," + c15Hex("atagatat") + "," + c15Hex("atagatat"),
		"fc2 " + c15Hex("ktagatak") + " " + c15Hex("atagatat") + "," + c15Hex("atagatat") + "," + c15Hex("atagatat"),
	} {
		emit(c)
	}

	// ---- ties at distance 1 across interior indels, in every data-base order (seed C15-m3: an LCS bound derived from
	// the shared 4-mers skipped tied references that differ from the query by an interior insertion / deletion)
	{
		w := []byte("acgtagctagcatcgatcgactag")
		sub := append([]byte{}, w...)
		sub[1] = 'a' // near the end: 22 - 2 shared 4-mers, scanned before the interior indels
		ins := []byte("acgtagctagcaatcgatcgactag")
		del := []byte("acgtagctagctcgatcgactag")
		fam := [][]byte{sub, ins, del}
		T := "1:1,2:1,3:2,4:2,5:1"
		k := 0
		c15Perms(3, func(p []int) {
			refs := [][]byte{fam[p[0]], fam[p[1]], fam[p[2]]}
			tx := []int{3 + p[0], 3 + p[1], 3 + p[2]}
			emit(fmt.Sprintf("fc%d %s %s", 1+k%2, hx(w), c15List(refs)))
			emit(fmt.Sprintf("fv%d %s %s", 2-k%2, hx(w), c15List(refs)))
			emit(fmt.Sprintf("id%d %s %s %s %s", 1+k%2, hx(w), c15List(refs), c15Ints(tx), T))
			emit(fmt.Sprintf("dv%d %s %s %s %s", 2-k%2, hx(w), c15List(refs), c15Ints(tx), T))
			k++
		})
		// verbatim-kernel twins of corpus cases: D14, three ties at distance 1, ambiguity codes (the verbatim kernels are
		// compared on them too), the D15 data base
		emit("fv1 " + c15Hex(q30) + " " + c15Hex(d14r0) + "," + hx(d14r1))
		emit("fv2 " + c15Hex(q30) + " " + c15Hex(d14r0) + "," + hx(d14r1))
		emit("fv1 " + c15Hex("acgtacgtac") + " " + c15Hex("acgtacgta") + "," + c15Hex("acgtacgtacc") + "," + c15Hex("acgaacgtac"))
		emit("fv1 " + c15Hex("ktagatak") + " " + c15Hex("atagatat") + "," + c15Hex("atagatat") + "," + c15Hex("atagatat"))
		emit("fv2 " + c15Hex("acgtnacgtacgt") + " " + c15Hex("acgtaacgtacgt") + "," + c15Hex("acgtcacgtacgt"))
		emit("fv1 " + c15Hex("a") + " " + c15Hex("a") + "," + c15Hex("c") + "," + c15Hex("aa"))
		emit("fv2 " + c15Hex("acgtacgtac") + " _")
		emit("iv 0 " + c15Hex("acgtacgtac") + "," + c15Hex("acgtacgtaa") + "," + c15Hex("acgtaggtaa") + " 4,5,3 1:1,2:1,3:1,4:2,5:2")
		emit("iv 0 " + c15Hex("acgtrcgtac") + "," + c15Hex("acgtacgtac") + " 4,5 1:1,2:1,3:1,4:2,5:2")
		emit("dv1 " + c15Hex("acgtacgtaa") + " " + c15Hex("acgtacgtac") + "," + c15Hex("acgtacgtag") + "," + c15Hex("acgtaggtaa") + " 4,5,3 1:1,2:1,3:1,4:2,5:2")
		emit("dv2 " + c15Hex("acgtacgtaa") + " " + c15Hex("acgtacgtac") + "," + c15Hex("acgtacgtag") + "," + c15Hex("acgtaggtaa") + " 4,5,3 1:1,2:1,3:1,4:2,5:2")
		emit("dv1 " + c15Hex("tttttttttt") + " " + c15Hex("acgacgacga") + " 2 1:1,2:1")
	}

	// ---- random cases
	n := 1500
	if tier == "thorough" {
		n = 5000
	}
	for it := 0; it < n; it++ {
		base := g.baseSeq()
		nref := 1 + g.rng.Intn(12)
		if g.rng.Intn(10) == 0 {
			nref = 12 + g.rng.Intn(30)
		}
		refs := g.refSet(base, nref)
		q := g.variant(base)
		if len(q) == 0 {
			q = []byte("c")
		}
		if g.rng.Intn(5) == 0 { // the query is a variant of a reference
			q = g.variant(refs[g.rng.Intn(len(refs))])
			if len(q) == 0 {
				q = []byte("g")
			}
		}
		switch g.rng.Intn(30) {
		case 0: // a query shorter than 4 bases: no 4-mer at all
			q = g.word(1+g.rng.Intn(3), "acgt")
		case 1: // identical references (their taxa are drawn independently)
			k := g.rng.Intn(len(refs))
			refs = append(refs, append([]byte{}, refs[k]...), append([]byte{}, refs[k]...))
		case 2: // ambiguity codes (outside the assumptions of the theorems: oracle failures are only counted)
			if g.rng.Intn(2) == 0 {
				q = g.iupacify(q)
			} else {
				k := g.rng.Intn(len(refs))
				refs[k] = g.iupacify(refs[k])
			}
		case 3: // many candidates tied on the shared 4-mer count (unstable sort) and on the distance
			k := g.rng.Intn(len(refs))
			for i := 0; i < 6; i++ {
				refs = append(refs, g.spreadSubs(refs[k], 1))
			}
		case 4, 5: // a family tied at distance 1 of the query across interior indels, shuffled into the data base
			if len(q) >= 8 && c15Acgt(q) {
				stat("gen:tied-indel-family")
				refs = append(refs, g.tiedFamily(q)...)
				g.rng.Shuffle(len(refs), func(i, j int) { refs[i], refs[j] = refs[j], refs[i] })
				if g.rng.Intn(3) == 0 { // nothing but the family: the tie is at the best distance
					refs = g.tiedFamily(q)
					g.rng.Shuffle(len(refs), func(i, j int) { refs[i], refs[j] = refs[j], refs[i] })
				}
			}
		}
		t := g.taxo(1 + g.rng.Intn(12))
		tx := g.taxids(t, len(refs))
		if g.rng.Intn(11) == 0 && c15Acgt(q) { // obitag2: exact-match table and two-stage Identify
			if len(refs) > 8 {
				refs, tx = refs[:8], tx[:8]
			}
			ok := true
			for _, r := range refs {
				ok = ok && c15Acgt(r)
			}
			if ok {
				if g.rng.Intn(3) == 0 { // the query has the bytes of a reference (and maybe of several)
					q = append([]byte{}, refs[g.rng.Intn(len(refs))]...)
				}
				heads := make([]byte, len(refs))
				cn := make([]int, len(refs))
				pHead := 1 + g.rng.Intn(4)
				for i := range refs {
					heads[i] = '0'
					if g.rng.Intn(4) < pHead {
						heads[i] = '1'
					}
					cn[i] = 1 + g.rng.Intn(9)
				}
				op3 := "id3"
				if g.rng.Intn(3) == 0 { // the model runs everything verbatim (identify2V)
					op3 = "iv3"
				}
				emit(fmt.Sprintf("%s %s %s %s %s %s %s", op3, hx(q), c15List(refs), c15Ints(tx), c15Taxo(t), heads, c15Ints(cn)))
				continue
			}
		}
		if g.rng.Intn(12) == 0 { // the selection loop on arbitrary indices
			if len(refs) > 4 {
				refs, tx = refs[:4], tx[:4]
			}
			op := "sl1"
			if g.rng.Intn(2) == 0 {
				op = "sl2"
			}
			giv := make([]c15Given, len(refs))
			for j := range giv {
				giv[j] = g.given(t, op == "sl2")
			}
			emit(fmt.Sprintf("%s %s %s %s %s %s", op, hx(q), c15List(refs), c15Ints(tx), c15Taxo(t), c15ShowGiven(giv)))
			continue
		}
		// one case in three is run by the model with the VERBATIM kernels (fv / iv / dv: Model/TagV.lean)
		// (thorough: one in four, and smaller data bases for dv - the verbatim kernels in the compiled model are the
		// slowest part of the run)
		verb := g.rng.Intn(3) == 0
		if tier != "quick" {
			verb = g.rng.Intn(4) == 0
		}
		switch r := g.rng.Intn(20); {
		case r < 7:
			if verb {
				emit(fmt.Sprintf("fv%d %s %s", 1+g.rng.Intn(2), hx(q), c15List(refs)))
			} else {
				emit(fmt.Sprintf("fc%d %s %s", 1+g.rng.Intn(2), hx(q), c15List(refs)))
			}
		case r < 13:
			if verb {
				emit(fmt.Sprintf("iv %d %s %s %s", g.rng.Intn(len(refs)), c15List(refs), c15Ints(tx), c15Taxo(t)))
			} else {
				emit(fmt.Sprintf("ix %d %s %s %s", g.rng.Intn(len(refs)), c15List(refs), c15Ints(tx), c15Taxo(t)))
			}
		case r < 18:
			if len(refs) > 14 {
				refs, tx = refs[:14], tx[:14]
			}
			if verb && tier != "quick" && len(refs) > 10 {
				refs, tx = refs[:10], tx[:10]
			}
			if verb {
				emit(fmt.Sprintf("dv%d %s %s %s %s", 1+g.rng.Intn(2), hx(q), c15List(refs), c15Ints(tx), c15Taxo(t)))
			} else {
				emit(fmt.Sprintf("id%d %s %s %s %s", 1+g.rng.Intn(2), hx(q), c15List(refs), c15Ints(tx), c15Taxo(t)))
			}
		case r < 19:
			emit(fmt.Sprintf("cw %s %s", hx(q), hx(refs[0])))
		default:
			a := g.word(8+g.rng.Intn(20), "acgt")
			if g.rng.Intn(3) == 0 {
				emit(fmt.Sprintf("qgn %s 2", hx(a[:min(len(a), 16)])))
			} else {
				emit(fmt.Sprintf("qgn %s 1", hx(a)))
			}
		}
	}
	// ---- q-gram bound, exhaustive on short words: every A of length <= 4 (quick) against every B of length <= 5;
	// thorough: every A of length <= 5 against every B of length <= 6 (partitioned over the seeds), samples of length 6, 7
	enumA := func(l int, f func([]byte)) {
		b := make([]byte, l)
		var rec func(i int)
		rec = func(i int) {
			if i == l {
				f(b)
				return
			}
			for k := 0; k < 4; k++ {
				b[i] = "acgt"[k]
				rec(i + 1)
			}
		}
		rec(0)
	}
	if tier == "quick" {
		for l := 0; l <= 3; l++ {
			enumA(l, func(a []byte) { emit(fmt.Sprintf("qg %s 5", hx(a))) })
		}
		for i := 0; i < 30; i++ {
			emit(fmt.Sprintf("qg %s 6", hx(g.word(6, "acgt"))))
		}
	} else {
		part := c15SeedPart()
		k := 0
		for l := 0; l <= 5; l++ {
			enumA(l, func(a []byte) {
				if k%8 == part {
					emit(fmt.Sprintf("qg %s 6", hx(a)))
				}
				k++
			})
		}
		for i := 0; i < 40; i++ {
			emit(fmt.Sprintf("qg %s 6", hx(g.word(6, "acgt"))))
		}
		for i := 0; i < 8; i++ {
			emit(fmt.Sprintf("qg %s 7", hx(g.word(7, "acgt"))))
		}
		// every query over {a,c} of length 8..10 against one fixed reference set over {a,c} (search exhaustive in the query)
		refs := make([][]byte, 6)
		for i := range refs {
			refs[i] = g.word(8+g.rng.Intn(4), "ac")
		}
		for l := 8; l <= 10; l++ {
			for v := 0; v < 1<<l; v++ {
				if v%8 != part {
					continue
				}
				q := make([]byte, l)
				for i := range q {
					q[i] = "ac"[(v>>i)&1]
				}
				emit(fmt.Sprintf("fc%d %s %s", 1+v%2, hx(q), c15List(refs)))
			}
		}
	}
	// ---- the set-up code around the searches and its error paths (c15_setup.go; its own PRNG)
	c15GenSetup(tier, emit)
	// ---- the searches under concurrent use (LAST: the cases above keep their PRNG draws)
	c15GenConc(rng, tier, emit)
}
