//go:build c02

package main

// conc — the writers, the chunk parsers and the header parsers under concurrent use.
//
// The commands never call this code from one goroutine: WriteFasta / WriteFastq start ParallelWorkers() formatting
// goroutines (FormatFastaBatch / FormatFastqBatch -> FormatFasta / _formatFastq -> FormatFastSeqJsonHeader ->
// obiutils.JsonMarshalByteBuffer -> go-json encoder, QualitiesString), ReadFasta / ReadFastq start ParallelWorkers()
// _ParseFastaFile / _ParseFastqFile goroutines (each one its OWN parser closure made by FastaChunkParser() /
// FastqChunkParser(shift, true); buffers local to one call) and IParseFastSeqHeaderBatch starts ParallelWorkers() header
// parsing goroutines applying the same function value (ParseFastSeqJsonHeader / ParseGuessedFastSeqHeader ->
// _parse_json_header_ -> go-json decoder); obiuniq's on-disk mode runs writers and readers at the same time. What the
// goroutines share: the two quality offsets of pkg/obioptions (set once, before the workers start), the sync.Pools of
// pkg/obiseq (byte slices of capacity <= 1024, annotation maps), go-json's encoder / decoder caches and context pools,
// the compiled regular expressions of the OBI header parser. A record belongs to one batch, a batch to one worker.
//
//	conc <g> <r> <so> <si> <n>  n × [ fasta|fastq j|g <nr> (<id-hex> <seq-hex> <qual-hex|-> <annspec>)*nr ]
//	                            [+ n × [ <floats> (<info-hex> <lib>)*nr ]]         -> <rt result 1> ; <rt result 2> ; ...
//
// Sub-case i is exactly the case `rt <fm> <hp> <so> <si> <nr> …` (same result, same data for the model, same oracles): the
// result line is what the n round trips answer one after the other, so the model side is the existing sequential model.
// The oracle then runs the same n round trips (build the records, Format*Batch, chunk parser, header parser on every
// record, dump; then Format*Batch of the re-read records) from g goroutines released together, r rounds, every
// goroutine with its own parser closures and its own records — exactly what a real worker owns — and demands from every
// one of them the answer obtained alone. The odd goroutines recycle the records they are done with (as the filter
// workers of obigrep do with the records they discard while the reader workers build new ones), so that the pools
// hand buffers from one goroutine to another.
//
//	race conc …      (thorough tier, first seed) the same case through a `go build -race` build of this harness: a report
//	                 of the race detector whose racing access lies in pkg/obiformats, pkg/obiseq, pkg/obiutils or
//	                 pkg/obioptions is the failure race.detector

import (
	"bytes"
	"fmt"
	"io"
	"math/rand"
	"os"
	"os/exec"
	"path/filepath"
	"strconv"
	"strings"
	"sync"
	"time"

	"git.metabarcoding.org/obitools/obitools4/obitools4/pkg/obiformats"
	"git.metabarcoding.org/obitools/obitools4/obitools4/pkg/obioptions"
	"git.metabarcoding.org/obitools/obitools4/obitools4/pkg/obiseq"
)

type c02CRec struct {
	id, seq, q []byte
	hasQ       bool
	ann        obiseq.Annotation // parsed once in the main goroutine; the values are only read afterwards
}

type c02CSub struct {
	fm, hp string
	recs   []c02CRec
	words  []string // the words of the sub-case after <nr> (for the `rt` line)
}

func c02ParseConc(f []string) (g, r, so, si int, subs []c02CSub, ok bool) {
	if len(f) < 6 {
		return
	}
	var e [5]error
	g, e[0] = strconv.Atoi(f[1])
	r, e[1] = strconv.Atoi(f[2])
	so, e[2] = strconv.Atoi(f[3])
	si, e[3] = strconv.Atoi(f[4])
	n, e4 := strconv.Atoi(f[5])
	e[4] = e4
	for _, x := range e {
		if x != nil {
			return
		}
	}
	if g < 1 || g > 64 || r < 1 || r > 50 || so < 0 || so > 255 || si < 0 || si > 255 || n < 1 || n > 32 {
		return
	}
	p := 6
	for i := 0; i < n; i++ {
		if p+3 > len(f) || (f[p] != "fasta" && f[p] != "fastq") || (f[p+1] != "j" && f[p+1] != "g") {
			return
		}
		nr, err := strconv.Atoi(f[p+2])
		if err != nil || nr < 1 || nr > 5000 || p+3+4*nr > len(f) {
			return
		}
		sub := c02CSub{fm: f[p], hp: f[p+1], words: f[p+3 : p+3+4*nr]}
		for j := 0; j < nr; j++ {
			w := f[p+3+4*j : p+7+4*j]
			id, ok1 := unhx(w[0])
			sq, ok2 := unhx(w[1])
			var q []byte
			ok3, hasQ := true, w[2] != "-"
			if hasQ {
				q, ok3 = unhx(w[2])
			}
			ann, ok4 := c02ParseAnn(w[3])
			if !ok1 || !ok2 || !ok3 || !ok4 || len(id) == 0 || (hasQ && len(q) != len(sq)) {
				return
			}
			sub.recs = append(sub.recs, c02CRec{id, sq, q, hasQ, ann})
		}
		subs = append(subs, sub)
		p += 3 + 4*nr
	}
	if p != len(f) {
		return
	}
	return g, r, so, si, subs, true
}

// c02CAnswer: what one round trip of a sub-case gives (the `rt` result + the second writing)
type c02CAnswer struct {
	res string // w=<written text> r=<records read back>
	w2  string // Format*Batch of the re-read records
}

// c02CWorker: what one real worker owns (its parser closures) and the round trip it runs
type c02CWorker struct {
	fasta   func(string, io.Reader) (obiseq.BioSequenceSlice, error)
	fastq   func(string, io.Reader) (obiseq.BioSequenceSlice, error)
	recycle bool
}

func c02NewWorker(recycle bool) *c02CWorker {
	// as _ParseFastaFile / _ParseFastqFile do: one parser closure per worker, the offset read once
	return &c02CWorker{
		fasta:   obiformats.FastaChunkParser(),
		fastq:   obiformats.FastqChunkParser(obioptions.InputQualityShift(), true),
		recycle: recycle,
	}
}

func (w *c02CWorker) run(sub *c02CSub) c02CAnswer {
	var orig obiseq.BioSequenceSlice
	for _, rc := range sub.recs {
		s := obiseq.NewBioSequence(string(rc.id), rc.seq, "")
		if rc.hasQ {
			s.SetQualities(rc.q)
		}
		for k, v := range rc.ann {
			s.Annotations()[k] = v
		}
		orig = append(orig, s)
	}
	text := c02Write(sub.fm, orig)
	var back obiseq.BioSequenceSlice
	if sub.fm == "fastq" {
		back, _ = w.fastq("src", bytes.NewBufferString(text))
	} else {
		back, _ = w.fasta("src", bytes.NewBufferString(text))
	}
	hparser := c02HeaderParser(sub.hp)
	parts := make([]string, 0, len(back))
	for _, s := range back {
		hparser(s)
		parts = append(parts, c02RecDump(s))
	}
	a := c02CAnswer{res: "w=" + hx([]byte(text)) + " r=" + strings.TrimSpace(strconv.Itoa(len(back))+" "+strings.Join(parts, " | "))}
	a.w2 = c02Write(sub.fm, back)
	if w.recycle {
		for _, s := range orig {
			s.Recycle()
		}
		for _, s := range back {
			s.Recycle()
		}
	}
	return a
}

func c02Short(s string) string {
	if len(s) > 200 {
		return s[:200] + "…"
	}
	return s
}

// c02FirstDiff: where two answers part (for the failure text)
func c02FirstDiff(a, b string) string {
	i := 0
	for i < len(a) && i < len(b) && a[i] == b[i] {
		i++
	}
	from := i - 40
	if from < 0 {
		from = 0
	}
	cut := func(s string) string {
		to := i + 80
		if to > len(s) {
			to = len(s)
		}
		if from > len(s) {
			return ""
		}
		return s[from:to]
	}
	return fmt.Sprintf("at byte %d: alone …%s… concurrently …%s…", i, cut(a), cut(b))
}

func c02ExecConc(c string, f []string) (string, []Fail) {
	g, r, so, si, subs, ok := c02ParseConc(f)
	if !ok {
		return "bad-op", nil
	}
	var fails []Fail
	// 1. every sub-case alone, through the `rt` op itself: result, data for the model, round-trip oracles
	results := make([]string, len(subs))
	augs := make([]string, len(subs))
	runnable := true
	for i, sub := range subs {
		line := fmt.Sprintf("rt %s %s %d %d %d %s", sub.fm, sub.hp, so, si, len(sub.recs), strings.Join(sub.words, " "))
		caseOverride = ""
		res, fs := c02{}.Exec(line)
		if res == "bad-op" || !strings.HasPrefix(caseOverride, line+" + ") {
			caseOverride = ""
			caseTrivial = true
			return "bad-op", nil
		}
		augs[i] = strings.TrimPrefix(caseOverride, line+" + ")
		results[i] = res
		for _, x := range fs {
			fails = append(fails, Fail{x.Sig, fmt.Sprintf("sub-case %d: %s", i, x.Text)})
		}
		if !strings.HasPrefix(res, "w=") || strings.HasPrefix(res, "w=fatal") || strings.HasPrefix(res, "w=panic") || strings.HasPrefix(res, "w=hang") ||
			strings.HasSuffix(res, " r=fatal") || strings.HasSuffix(res, " r=panic") || strings.HasSuffix(res, " r=hang") {
			runnable = false
		}
	}
	caseOverride = c + " + " + strings.Join(augs, " ")
	caseTrivial = false
	result := strings.Join(results, " ; ")
	if !runnable || len(fails) > 0 {
		stat("conc:not-run")
		return result, fails
	}
	obioptions.SetOutputQualityShift(so)
	obioptions.SetInputQualityShift(si)
	defer func() {
		obioptions.SetOutputQualityShift(33)
		obioptions.SetInputQualityShift(33)
	}()
	// 2. the same round trips by one worker, twice: the answers the concurrent runs must reproduce
	alone := make([]c02CAnswer, len(subs))
	st := guardT(60*time.Second, func() string {
		w := c02NewWorker(false)
		for i := range subs {
			alone[i] = w.run(&subs[i])
		}
		w = c02NewWorker(true)
		for i := range subs {
			again := w.run(&subs[i])
			if again != alone[i] {
				return fmt.Sprintf("again %d", i)
			}
		}
		return "ok"
	})
	if st != "ok" {
		fails = append(fails, Fail{"conc.alone-" + strings.Fields(st)[0], fmt.Sprintf("the round trips run one after the other by one worker: %s", st)})
		return result, fails
	}
	for i := range subs {
		if alone[i].res != results[i] {
			fails = append(fails, Fail{"conc.alone-differs", fmt.Sprintf("sub-case %d run alone a second time answers differently: %s", i, c02FirstDiff(results[i], alone[i].res))})
			return result, fails
		}
	}
	// 3. the same round trips, from g goroutines released together
	type bad struct {
		i, k, round int
		what        string
	}
	var mu sync.Mutex
	var first *bad
	nbad, total, died := 0, 0, 0
	st = guardT(180*time.Second, func() string {
		start := make(chan struct{})
		var wg sync.WaitGroup
		for k := 0; k < g; k++ {
			wg.Add(1)
			go func(k int) {
				cur, round, finished := -1, 0, false
				defer func() {
					rec := recover()
					if !finished { // panic, or log.Fatalf (runtime.Goexit) inside the code under test
						mu.Lock()
						died++
						nbad++
						if first == nil {
							why := "log.Fatalf"
							if rec != nil {
								why = fmt.Sprintf("panic: %v", rec)
							}
							first = &bad{cur, k, round, "the goroutine died (" + c02Short(why) + ")"}
						}
						mu.Unlock()
					}
					wg.Done()
				}()
				w := c02NewWorker(k%2 == 1)
				<-start
				for round = 0; round < r; round++ {
					for j := range subs {
						cur = j // odd rounds: every goroutine on the same sub-case (the same title lines) at the same time
						if round%2 == 0 {
							cur = (j + k) % len(subs) // even rounds: different formats / parsers at the same time
						}
						got := w.run(&subs[cur])
						mu.Lock()
						total++
						if got != alone[cur] {
							nbad++
							if first == nil {
								if got.res != alone[cur].res {
									first = &bad{cur, k, round, c02FirstDiff(alone[cur].res, got.res)}
								} else {
									first = &bad{cur, k, round, "second writing (of the re-read records) " + c02FirstDiff(hx([]byte(alone[cur].w2)), hx([]byte(got.w2)))}
								}
							}
						}
						mu.Unlock()
					}
				}
				finished = true
			}(k)
		}
		close(start)
		wg.Wait()
		return "ok"
	})
	fatalSeen.Store(false)
	stat(fmt.Sprintf("conc:g%d", g))
	stat("conc:run")
	mu.Lock()
	defer mu.Unlock()
	for _, sub := range subs {
		stat("conc:sub:" + sub.fm + ":" + sub.hp)
	}
	want := g * r * len(subs)
	if st == "hang" {
		fails = append(fails, Fail{"conc.hang", fmt.Sprintf("the %d concurrent round trips did not finish (%d done)", want, total)})
		return result, fails
	}
	if died > 0 || total != want {
		fails = append(fails, Fail{"conc.panic", fmt.Sprintf("%d of %d goroutines died, %d of %d concurrent round trips done; first: sub-case %d (%s %s, %d records) in goroutine %d round %d: %s",
			died, g, total, want, first.i, subs[max0(first.i)].fm, subs[max0(first.i)].hp, len(subs[max0(first.i)].recs), first.k, first.round, first.what)})
	} else if first != nil {
		fails = append(fails, Fail{"conc.differs", fmt.Sprintf(
			"%d of %d concurrent round trips differ from the round trip run alone; e.g. sub-case %d (%s %s, %d records) in goroutine %d round %d: %s",
			nbad, total, first.i, subs[first.i].fm, subs[first.i].hp, len(subs[first.i].recs), first.k, first.round, first.what)})
	}
	return result, fails
}

func max0(i int) int {
	if i < 0 {
		return 0
	}
	return i
}

// ---------------------------------------------------------------- generator

// c02ConcRecord: one legal record (sequence of length >= 1; lengths below and above the 1024-byte limit of the slice pool)
func c02ConcRecord(rng *rand.Rand, idx int, withQ bool, long bool) string {
	n := []int{1, 59, 60, 61, 120, 121, 180, 300, 301}[rng.Intn(9)]
	switch rng.Intn(4) {
	case 0:
		n = 1 + rng.Intn(40)
	case 1:
		n = 100 + rng.Intn(400)
	}
	if long && rng.Intn(6) == 0 {
		n = 1000 + rng.Intn(60) // around the capacity limit (1024) of the pooled slices
	}
	q := "-"
	if withQ {
		qb := make([]byte, n)
		for i := range qb {
			if rng.Intn(12) == 0 {
				qb[i] = byte(rng.Intn(256))
			} else {
				qb[i] = byte(rng.Intn(94))
			}
		}
		q = hx(qb)
	}
	// distinct identifiers: a record that takes the place of another shows in the dump
	id := fmt.Sprintf("%s_%04d", []string{"seq", "M01334:147:000000000-LBRVD:1:1101", "r", "id{1}", "x;y=z", "é漢"}[rng.Intn(6)], idx)
	ann := c02RandAnn(rng, 6)
	if rng.Intn(3) != 0 {
		// the annotations every obitools file carries, distinct from one record to the next
		extra := fmt.Sprintf("i.636f756e74.%d;mi.6d65726765645f73616d706c65.%s=%d,%s=%d;s.7461786964.%s", 1+idx*7+rng.Intn(5),
			hx([]byte(fmt.Sprintf("sample_%d", idx%13))), 1+rng.Intn(1000), hx([]byte(fmt.Sprintf("s%d", idx%7+20))), idx+1,
			hx([]byte(fmt.Sprintf("taxon:%d [Homo \"sapiens\" {%d}]@species", 9606+idx, idx))))
		if ann == "-" {
			ann = extra
		} else if !strings.Contains(ann, ".636f756e74.") && !strings.Contains(ann, ".6d65726765645f73616d706c65.") && !strings.Contains(ann, ".7461786964.") {
			ann += ";" + extra
		}
	}
	return fmt.Sprintf("%s %s %s %s", hx([]byte(id)), hx(c02RandSeq(rng, n)), q, ann)
}

func c02ConcCase(rng *rand.Rand, g, r, nsub, nrec int) string {
	so := 33
	if rng.Intn(4) == 0 {
		so = 64
	}
	var b strings.Builder
	fmt.Fprintf(&b, "conc %d %d %d %d %d", g, r, so, so, nsub)
	for i := 0; i < nsub; i++ {
		fm := []string{"fastq", "fasta"}[(i+rng.Intn(2))%2]
		if i < 2 {
			fm = []string{"fastq", "fasta"}[i] // both formats in every case
		}
		hp := []string{"j", "g"}[rng.Intn(2)]
		nr := nrec/2 + rng.Intn(nrec/2+1)
		fmt.Fprintf(&b, " %s %s %d", fm, hp, nr)
		for j := 0; j < nr; j++ {
			withQ := fm == "fastq" && rng.Intn(12) != 0 || fm == "fasta" && rng.Intn(10) == 0
			b.WriteString(" " + c02ConcRecord(rng, i*1000+j, withQ, true))
		}
	}
	return b.String()
}

// c02GenConc is called LAST by Gen (the cases before it keep their PRNG draws)
func c02GenConc(rng *rand.Rand, tier string, emit func(string)) {
	saved := c02MaxDepth
	c02MaxDepth = 3
	defer func() { c02MaxDepth = saved }()
	// a hand-made case: two small records per format, to keep the protocol readable
	emit("conc 4 2 33 33 2 fastq j 2 73 6163 1f1f i.61.1 74 6163 1f00 s.62.40 fasta g 1 75 " + hx(bytes.Repeat([]byte("acgtn"), 13)) + " - s.6b.785c227d79")
	stat("gen:conc")
	ncase, g, r, nsub, nrec := 5, 8, 4, 4, 48
	if tier == "thorough" {
		ncase, g, r, nsub, nrec = 5, 16, 6, 5, 90
	}
	for c := 0; c < ncase; c++ {
		line := c02ConcCase(rng, g, r, nsub, nrec)
		emit(line)
		stat("gen:conc")
		if tier == "thorough" && c == 0 && c02FirstSeed() {
			emit("race " + line)
			stat("gen:race")
		}
	}
}

// ---------------------------------------------------------------- replay under the race detector

func c02FirstSeed() bool {
	for i, a := range os.Args {
		if a == "-seed" && i+1 < len(os.Args) {
			s, err := strconv.Atoi(os.Args[i+1])
			return err == nil && s%1000 == 0
		}
	}
	return false
}

var (
	c02RaceBin   string
	c02RaceTried bool
)

func c02RaceBuild() string {
	if c02RaceTried {
		return c02RaceBin
	}
	c02RaceTried = true
	root := os.Getenv("VERIF_ROOT")
	if root == "" {
		root = "/verif"
	}
	repo := os.Getenv("VERIF_REPO")
	if repo == "" {
		repo = "/repo"
	}
	bin := filepath.Join(binDir(), "harness_C02_race")
	tmp := fmt.Sprintf("%s.%d", bin, os.Getpid())
	args := []string{"build", "-race", "-tags", "verif,c02", "-o", tmp}
	if repo != "/repo" {
		// a scratch tree is under check: a private module file (module replaced by that tree) next to the binaries of that
		// tree — the driver's go.alt.mod is shared by every check running at the same time
		mod, err1 := os.ReadFile(filepath.Join(root, "harness", "go.mod"))
		sum, err2 := os.ReadFile(filepath.Join(repo, "go.sum"))
		alt := filepath.Join(binDir(), "go.c02race.mod")
		if err1 != nil || err2 != nil || !strings.Contains(string(mod), "=> /repo") ||
			os.WriteFile(alt, []byte(strings.Replace(string(mod), "=> /repo", "=> "+repo, 1)), 0o644) != nil ||
			os.WriteFile(filepath.Join(binDir(), "go.c02race.sum"), sum, 0o644) != nil {
			stat("race-build:no-alt-mod")
			return ""
		}
		args = append(args, "-modfile", alt)
	}
	build := exec.Command("go", append(args, ".")...)
	build.Dir = filepath.Join(root, "harness")
	build.Env = append(os.Environ(), "GOWORK=off", "GOFLAGS=-mod=mod", "GOPROXY=off", "GOSUMDB=off", "GOTOOLCHAIN=local", "CGO_CFLAGS=-w -O2 -g")
	if _, err := build.CombinedOutput(); err != nil {
		stat("race-build:failed")
		return ""
	}
	if err := os.Rename(tmp, bin); err != nil {
		stat("race-build:failed")
		return ""
	}
	stat("race-build:ok")
	c02RaceBin = bin
	return bin
}

// c02Race replays one case in the race-built harness. The result and the data for the model are those of the inner case.
func c02Race(inner string) (string, []Fail) {
	if os.Getenv("VERIF_C02_RACE") != "" { // we ARE the race-built binary
		return c02{}.Exec(inner)
	}
	bin := c02RaceBuild()
	if bin == "" {
		stat("race:unavailable")
		return c02{}.Exec(inner)
	}
	cmd := exec.Command(bin, "C02", "exec")
	cmd.Stdin = strings.NewReader(inner + "\n")
	cmd.Env = append(os.Environ(), "VERIF_C02_RACE=1", "GORACE=halt_on_error=0")
	var stdout, stderr bytes.Buffer
	cmd.Stderr = &stderr
	cmd.Stdout = &stdout
	_ = cmd.Run()
	res := "race-replay-failed"
	var fails []Fail
	for _, l := range strings.Split(stdout.String(), "\n") {
		f := strings.Split(l, "\t")
		if f[0] == "C" && len(f) >= 3 {
			res = f[2]
			if i := strings.Index(f[1], " + "); i >= 0 {
				caseOverride = "race " + f[1]
			}
		}
		if f[0] == "F" && len(f) >= 4 {
			fails = append(fails, Fail{f[1], f[3]})
		}
	}
	stat("race-replay:done")
	// a report concerns this property when one of the two racing ACCESSES (innermost frame) lies in the anchored packages
	ours, other := 0, 0
	var where []string
	for _, block := range strings.Split(stderr.String(), "==================") {
		if !strings.Contains(block, "WARNING: DATA RACE") {
			continue
		}
		inAccess, mine := false, false
		for _, l := range strings.Split(block, "\n") {
			t := strings.TrimSpace(l)
			switch {
			case strings.HasPrefix(t, "Read at"), strings.HasPrefix(t, "Write at"), strings.HasPrefix(t, "Previous read at"),
				strings.HasPrefix(t, "Previous write at"), strings.HasPrefix(t, "Atomic"), strings.HasPrefix(t, "Previous atomic"):
				inAccess = true
			case strings.HasPrefix(t, "Goroutine "):
				inAccess = false
			case inAccess && strings.Contains(t, ".go:"):
				inAccess = false
				anchored := false
				for _, p := range []string{"/pkg/obiformats/", "/pkg/obiseq/", "/pkg/obiutils/", "/pkg/obioptions/"} {
					anchored = anchored || strings.Contains(t, p)
				}
				if anchored && !strings.Contains(t, "verif_hooks") {
					mine = true
					loc := t[strings.LastIndex(t, "/pkg/")+1:]
					if k := strings.IndexByte(loc, ' '); k > 0 {
						loc = loc[:k]
					}
					dup := false
					for _, w := range where {
						dup = dup || w == loc
					}
					if !dup && len(where) < 4 {
						where = append(where, loc)
					}
				}
			}
		}
		if mine {
			ours++
		} else {
			other++
		}
	}
	if other > 0 {
		stat("race-replay:race-elsewhere")
	}
	if ours > 0 {
		fails = append(fails, Fail{"race.detector", fmt.Sprintf("the Go race detector reports %d data race(s) in the anchored packages (at %s)", ours, strings.Join(where, ", "))})
		stat("race-replay:DATA-RACE")
	} else {
		stat("race-replay:clean")
	}
	return res, fails
}
