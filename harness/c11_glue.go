//go:build c11

package main

// glue — obipcr from the command line to the amplicons (the code between the user and the kernel).
//
//	glue <bs> <nw> <argv> <tpl>[,<tpl>...]
//	     argv = the words of the command line after `obipcr`, each in hex, "," separated; bs = batch size of the source
//	     iterator (and of obioptions), nw = obioptions.SetMaxCPU; the templates (ids t0, t1, …; template k carries the
//	     annotations of c11SetTplAnnot(k)) go through ONE obipcr.CLIPCR
//	     -> v=<forward>/<reverse>/<e>/<l>/<L>/<D>/<only-complete>/<circular>/<fragmented> (the option variables the getters
//	        read, after the REAL parser: getoptions + obipcr.OptionSet, variables reset to their built-in defaults first)
//	        then " " and per template ("|") the sorted records of a `cli` line; `parse-error` when the parser refuses
//
// What lies between the user and _Pcr (pkg/obitools/obipcr/options.go, pcr.go; verified in the code):
//  1. getoptions fills _ForwardPrimer, _ReversePrimer, _AllowedMismatch (-e), _MinimumLength (-l, default 0),
//     _MaximumLength (-L, default -1, required), _Delta (-D, default -1), _OnlyFull, _Circular (-c), _Fragmented;
//  2. the getters: CLIForwardPrimer / CLIReversePrimer compile the string (log.Fatalf when it is not a primer) and return
//     the STRING; CLIWithExtension = delta >= 0;
//  3. CLIPCR builds the option list (both primers with the same budget, only-full, min length only when > 0, extension
//     only when CLIWithExtension, max length always, circular only when set) for obiapat.PCRSliceWorker -> MakeOptions;
//  4. no pre-filter: every template, whatever its length (0, shorter than a primer, shorter than the product), reaches the
//     worker;
//  5. --fragmented without --circular: IFragments(1000 L, 100 L, overlap = L + len(forward STRING) + len(reverse STRING)
//     + 2 delta): the string lengths are upper bounds of the pattern lengths (# [ ] ! consume no template symbol): safe
//     for an overlap;
//  6. LimitMemory(0.5).MakeISliceWorker(worker, false, nworkers): each batch through _PCRSlice.
//
// Oracle (independent of 1..6): the argv is read by a reader written from the documentation of the options, the amplicons
// of EVERY template are the brute-force pairs of sites of c11Expected with these values. A template whose amplicons are
// missing is glue.missing (with the length of the template and of the primer strings / patterns in the text).
//
// Generators: primers of the whole grammar (# [ ] ! IUPAC) x templates that are exactly the product (both orientations),
// the product minus its first / last symbol, plus 1..3 symbols, plus flanks, shorter than the primer strings but longer
// than the patterns, shorter than a pattern, of 0 and 1 symbols, in first / middle / last position of a batch, batches of
// 1..7 templates cut in source batches of 1..4, 1..4 workers; -l absent / 0 / negative / g-1 / g / g+1, -L g-1 / g / g+1 /
// large / 0 / negative / absent (refused), -D absent / negative / 0 / 1 / 3 / beyond the ends, --only-complete-flanking,
// --circular, --fragmented (with primers whose string is longer than the pattern); every option in its long form, its
// alias, with `=` and as two words.

import (
	"fmt"
	"math/rand"
	"sort"
	"strconv"
	"strings"
	"time"
	_ "unsafe"

	"git.metabarcoding.org/obitools/obitools4/obitools4/pkg/obiiter"
	"git.metabarcoding.org/obitools/obitools4/obitools4/pkg/obioptions"
	"git.metabarcoding.org/obitools/obitools4/obitools4/pkg/obiseq"
	"git.metabarcoding.org/obitools/obitools4/obitools4/pkg/obitools/obipcr"
	"github.com/DavidGamba/go-getoptions"
)

// the primer strings as the parser left them (the getters CLIForwardPrimer / CLIReversePrimer end the program when the string
// does not compile): read directly, no hook file in /repo, so that the harness also builds against a scratch worktree
//
//go:linkname c11PcrForward git.metabarcoding.org/obitools/obitools4/obitools4/pkg/obitools/obipcr._ForwardPrimer
var c11PcrForward string

//go:linkname c11PcrReverse git.metabarcoding.org/obitools/obitools4/obitools4/pkg/obitools/obipcr._ReversePrimer
var c11PcrReverse string

type c11GlueVars struct {
	fwd, rev          string
	e, mn, mx, delta  int
	full, circ, frag  bool
	hasFwd, hasRev, hasMx bool
}

func c11B(x bool) int {
	if x {
		return 1
	}
	return 0
}

func (v c11GlueVars) show() string {
	return fmt.Sprintf("v=%s/%s/%d/%d/%d/%d/%d/%d/%d", hx([]byte(v.fwd)), hx([]byte(v.rev)), v.e, v.mn, v.mx, v.delta, c11B(v.full), c11B(v.circ), c11B(v.frag))
}

// what the documentation of obipcr says the words mean (independent of getoptions and of options.go).
// status: "ok", "refused" (a required option is missing, a value is missing or is not an integer), "unsupported" (a word
// the generator never writes: unknown option, option given twice, stray argument)
func c11GlueMeaning(argv []string) (v c11GlueVars, status string) {
	v = c11GlueVars{mx: -1, delta: -1}
	long := map[string]string{"forward": "F", "reverse": "R", "allowed-mismatches": "e", "min-length": "l", "max-length": "L",
		"delta": "D", "only-complete-flanking": "full", "circular": "c", "fragmented": "frag"}
	short := map[string]string{"e": "e", "l": "l", "L": "L", "D": "D", "c": "c"}
	seen := map[string]bool{}
	for i := 0; i < len(argv); i++ {
		w := argv[i]
		var key, val string
		hasVal := false
		switch {
		case strings.HasPrefix(w, "--"):
			name := w[2:]
			if p := strings.Index(name, "="); p >= 0 {
				name, val, hasVal = name[:p], name[p+1:], true
			}
			key = long[name]
		case strings.HasPrefix(w, "-") && len(w) == 2:
			key = short[w[1:]]
		}
		if key == "" || seen[key] {
			return v, "unsupported"
		}
		seen[key] = true
		switch key {
		case "full", "c", "frag":
			if hasVal {
				return v, "unsupported"
			}
			switch key {
			case "full":
				v.full = true
			case "c":
				v.circ = true
			default:
				v.frag = true
			}
			continue
		}
		if !hasVal {
			if i+1 >= len(argv) {
				return v, "refused"
			}
			i++
			val = argv[i]
			if strings.HasPrefix(val, "-") {
				return v, "unsupported" // a word that looks like an option where a value is expected: never written
			}
		}
		if val == "" {
			return v, "unsupported"
		}
		switch key {
		case "F":
			v.fwd, v.hasFwd = val, true
		case "R":
			v.rev, v.hasRev = val, true
		default:
			n, err := strconv.Atoi(val)
			if err != nil {
				return v, "refused"
			}
			switch key {
			case "e":
				v.e = n
			case "l":
				v.mn = n
			case "L":
				v.mx, v.hasMx = n, true
			case "D":
				v.delta = n
			}
		}
	}
	if !v.hasFwd || !v.hasRev || !v.hasMx {
		return v, "refused"
	}
	return v, "ok"
}

type c11GlueRec struct {
	a     c11Amp
	frag  string
	a0, b0 int // the piece (0-based, end exclusive); whole: 0, len
}

func c11ExecGlue(c string) (string, []Fail) {
	f := strings.Fields(c)
	var fails []Fail
	fail := func(sig, format string, a ...any) {
		fails = append(fails, Fail{Sig: sig, Text: fmt.Sprintf(format, a...)})
	}
	if len(f) != 5 {
		return "bad-op", nil
	}
	bs, err1 := strconv.Atoi(f[1])
	nw, err2 := strconv.Atoi(f[2])
	if err1 != nil || err2 != nil || bs < 1 || bs > 1000 || nw < 1 || nw > 64 {
		return "bad-op", nil
	}
	var argv []string
	for _, h := range strings.Split(f[3], ",") {
		w, ok := unhx(h)
		if !ok || len(w) == 0 {
			return "bad-op", nil
		}
		argv = append(argv, string(w))
	}
	var tpls [][]byte
	for _, h := range strings.Split(f[4], ",") {
		t, ok := unhx(h)
		if !ok {
			return "bad-op", nil
		}
		tpls = append(tpls, t)
	}
	want, status := c11GlueMeaning(argv)
	if status == "unsupported" {
		return "bad-op", nil
	}
	if status == "ok" {
		if len(want.fwd) >= c11MaxPatLen || len(want.rev) >= c11MaxPatLen || want.e < 0 || want.e > 63 {
			return "bad-op", nil
		}
		if want.frag && !want.circ {
			if want.mx < 1 {
				return "bad-op", nil // IFragments with a length of 0: log.Panicln (not covered, see level_note)
			}
			overlap := want.mx + len(want.fwd) + len(want.rev)
			if want.delta >= 0 {
				overlap += 2 * want.delta
			}
			if want.mx*100-overlap < 1 {
				return "bad-op", nil // IFragments does not advance
			}
		}
	}
	F, okF := c11Primer(want.fwd)
	R, okR := c11Primer(want.rev)
	n := len(tpls)
	got := make([][]c11GlueRec, n)
	var seen c11GlueVars
	parsed := false
	problem := ""
	c11AnnotBad = nil
	// the options as the oracle reads them, for the annotation check
	o := c11Opt{fwd: want.fwd, rev: want.rev, ef: want.e, er: want.e, min: max(want.mn, 0), max: want.mx, ext: max(want.delta, -1), full: want.full, circ: want.circ}
	res := guardT(60*time.Second, func() string {
		// the built-in defaults of options.go, then the real parser on the real option set of the command
		obipcr.VerifSetOptions("", "", 0, 0, -1, -1, false, false, false)
		opt := getoptions.New()
		obipcr.OptionSet(opt)
		rest, err := opt.Parse(argv)
		if err != nil {
			return "parse-error"
		}
		if len(rest) > 0 {
			return "parse-rest"
		}
		parsed = true
		seen = c11GlueVars{fwd: c11PcrForward, rev: c11PcrReverse, e: obipcr.CLIAllowedMismatch(), mn: obipcr.CLIMinLength(),
			mx: obipcr.CLIMaxLength(), delta: obipcr.CLIExtension(), full: obipcr.CLIOnlyFull(), circ: obipcr.CLICircular(), frag: obipcr.CLIFragmented()}
		obioptions.SetBatchSize(bs)
		obioptions.SetMaxCPU(nw)
		batch := make(obiseq.BioSequenceSlice, n)
		for k, t := range tpls {
			batch[k] = obiseq.NewBioSequence("t"+strconv.Itoa(k), append([]byte{}, t...), "")
			c11SetTplAnnot(batch[k], k)
		}
		it, err := obipcr.CLIPCR(obiiter.IBatchOver("x", batch, bs))
		if err != nil {
			return "error"
		}
		for it.Next() {
			for _, s := range it.Get().Slice() {
				id := s.Id()
				p := strings.LastIndex(id, "_sub[")
				first := strings.Index(id, "_sub[")
				if p < 0 || !strings.HasSuffix(id, "]") || !strings.HasPrefix(id, "t") {
					problem = "bad-id:" + id
					continue
				}
				k, err := strconv.Atoi(id[1:first])
				coord := id[p+5 : len(id)-1]
				dots := strings.Index(coord, "..")
				if err != nil || k < 0 || k >= n || dots < 0 {
					problem = "bad-id:" + id
					continue
				}
				from1, _ := strconv.Atoi(coord[:dots])
				r := c11GlueRec{frag: "whole", a0: 0, b0: len(tpls[k])}
				if first < p {
					r.frag = id[first+5 : p-1]
					d := strings.Index(r.frag, "..")
					if d < 0 {
						problem = "bad-id:" + id
						continue
					}
					r.a0, _ = strconv.Atoi(r.frag[:d])
					r.a0--
					r.b0, _ = strconv.Atoi(r.frag[d+2:])
				}
				c11CheckAnnot(s, o, k)
				r.a = c11Amp{from: r.a0 + from1 - 1, amp: string(s.Sequence())}
				c11ReadAnnot(s, &r.a)
				got[k] = append(got[k], r)
			}
		}
		if problem != "" {
			return problem
		}
		per := make([]string, n)
		for k := range got {
			xs := make([]string, len(got[k]))
			for i, g := range got[k] {
				xs[i] = fmt.Sprintf("%c/%s/%d/%s/%s", g.a.dir, g.frag, g.a.from+1, hx([]byte(g.a.amp)), g.a.annotFields())
			}
			sort.Strings(xs)
			per[k] = "-"
			if len(xs) > 0 {
				per[k] = strings.Join(xs, ",")
			}
		}
		return seen.show() + " " + strings.Join(per, "|")
	})
	stat("glue:status:" + status)
	// ---- the parser
	if status == "refused" {
		if res != "parse-error" {
			fail("glue.parser.accepted", "the command line %q lacks a required option or has a malformed value and is not refused: %s", argv, c11Short(res))
		}
		return res, fails
	}
	if res == "parse-error" || res == "parse-rest" {
		fail("glue.parser.refused", "the command line %q is refused (%s)", argv, res)
		return res, fails
	}
	if parsed {
		w := want
		w.hasFwd, w.hasRev, w.hasMx = false, false, false
		if seen != w {
			fail("glue.parser.value", "command line %q: the option variables are %s, the documented meaning is %s", argv, seen.show(), w.show())
		}
	}
	if !okF || !okR {
		// not a primer of the documented grammar: no oracle (the model says `fatal` when the string does not compile)
		stat("glue:not-a-primer-of-the-grammar")
		return res, fails
	}
	if res == "fatal" || res == "panic" || res == "hang" || res == "error" || strings.HasPrefix(res, "bad-id:") {
		fail("glue."+strings.SplitN(res, ":", 2)[0], "obipcr %q ends in %s", argv, c11Short(res))
		return res, fails
	}
	if len(c11AnnotBad) > 0 {
		fail("glue.annot", "annotations of the amplicons: %s", strings.Join(c11AnnotBad, " ; "))
	}
	// ---- every template: the amplicons the primers define
	k4 := len(want.fwd) - len(F) + len(want.rev) - len(R)
	if k4 > 0 {
		stat("glue:primer-string-longer-than-pattern")
	}
	for k, t := range tpls {
		low := c11Lower(t)
		exp := c11Expected(o, F, R, low)
		L := len(t)
		switch {
		case L == 0:
			stat("glue:tpl:empty")
		case L < len(F) || L < len(R):
			stat("glue:tpl:shorter-than-a-pattern")
		case L < len(F)+len(R)+1:
			stat("glue:tpl:shorter-than-both-patterns")
		case L < len(want.fwd)+len(want.rev)+max(want.mn, 1):
			stat("glue:tpl:shorter-than-strings+min")
			if len(exp) > 0 {
				stat("glue:tpl:shorter-than-strings+min:with-amplicon")
			}
		}
		if len(exp) > 0 {
			stat("glue:tpl:with-amplicon")
			if exp[0].lo == 0 && exp[0].hi == L {
				stat("glue:tpl:is-the-product")
			}
		}
		for q := range exp {
			if exp[q].over {
				exp[q].amp = exp[q].alt // circular window longer than the circle: open finding, left to the pcr cases
			}
		}
		var gl []c11Amp
		fragmented := false
		for _, g := range got[k] {
			gl = append(gl, g.a)
			if g.frag != "whole" {
				fragmented = true
			}
		}
		where := fmt.Sprintf("template %d of %d (%d symbols; primer strings %d + %d characters, patterns %d + %d positions, -l %d -L %d -D %d)",
			k+1, n, L, len(want.fwd), len(want.rev), len(F), len(R), want.mn, want.mx, want.delta)
		ek, gk := c11Keys(exp, true, false), c11Keys(gl, true, false)
		if fragmented || (want.frag && !want.circ && L > want.mx*1000) {
			stat("glue:tpl:fragmented")
			m, s := c11Diff(c11Uniq(ek), c11Uniq(gk))
			if len(m) > 0 {
				fail("glue.missing.frag", "%s: amplicons of the template found on no fragment: %s", where, c11Cut(m))
			}
			if len(s) > 0 {
				fail("glue.spurious.frag", "%s: reported on a fragment but not an amplicon of the template: %s", where, c11Cut(s))
			}
			// every report comes from a piece that contains the sites and the window of the amplicon; an amplicon is
			// reported once per such piece: never twice by the same piece
			type pk struct{ key, frag string }
			cnt := map[pk]int{}
			mult := map[string]int{}
			for _, e := range exp {
				mult[e.key(true)]++
			}
			for _, g := range got[k] {
				cnt[pk{g.a.key(true), g.frag}]++
			}
			for x, c := range cnt {
				if c > mult[x.key] && mult[x.key] > 0 {
					fail("glue.count", "%s: amplicon %s reported %d times by the piece %s", where, x.key, c, x.frag)
					break
				}
			}
			continue
		}
		m, s := c11Diff(ek, gk)
		if len(m) > 0 {
			sig := "glue.missing"
			if len(got[k]) == 0 {
				sig = "glue.missing.template-dropped" // nothing at all for a template that holds amplicons
			}
			fail(sig, "%s: amplicons of the template not reported: %s", where, c11Cut(m))
		}
		if len(s) > 0 {
			fail("glue.spurious", "%s: reported but not an amplicon of the template: %s", where, c11Cut(s))
		}
	}
	return res, fails
}

// ---- generators

func c11GlueLine(bs, nw int, argv []string, tpls [][]byte) string {
	hs := make([]string, len(argv))
	for i, w := range argv {
		hs[i] = hx([]byte(w))
	}
	ts := make([]string, len(tpls))
	for i, t := range tpls {
		ts[i] = hx(t)
	}
	return fmt.Sprintf("glue %d %d %s %s", bs, nw, strings.Join(hs, ","), strings.Join(ts, ","))
}

// one option in one of its spellings
func c11GlueOpt(rng *rand.Rand, long, alias, val string) []string {
	forms := 2
	if alias != "" {
		forms = 3
	}
	if strings.HasPrefix(val, "-") {
		return []string{"--" + long + "=" + val} // a negative value: only the `=` form is not read as an option
	}
	switch rng.Intn(forms) {
	case 0:
		return []string{"--" + long, val}
	case 1:
		return []string{"--" + long + "=" + val}
	}
	return []string{"-" + alias, val}
}

// a primer with at least `minExtra` characters that consume no template symbol (# [ ] !), n positions
func c11GluePrimer(rng *rand.Rand, n, minExtra int) string {
	for try := 0; ; try++ {
		var sb strings.Builder
		for i := 0; i < n; i++ {
			if rng.Intn(8) == 0 {
				sb.WriteByte('!')
			}
			switch rng.Intn(8) {
			case 0:
				k := 1 + rng.Intn(3)
				sb.WriteByte('[')
				for q := 0; q < k; q++ {
					sb.WriteByte("ACGTRYW"[rng.Intn(7)])
				}
				sb.WriteByte(']')
			case 1:
				sb.WriteByte("RYMKSWBDHVN"[rng.Intn(11)])
			default:
				sb.WriteByte("ACGT"[rng.Intn(4)])
			}
			if rng.Intn(4) == 0 || (i >= n-3 && rng.Intn(2) == 0) { // the 3' end closed to mismatches: the usual use of #
				sb.WriteByte('#')
			}
		}
		p := sb.String()
		if toks, ok := c11Primer(p); ok && len(p)-len(toks) >= minExtra {
			return p
		}
	}
}

// a product: site of D, gap symbols, site of C
func c11GlueProduct(rng *rand.Rand, D, C []c11Tok, gap, e int) []byte {
	out := append([]byte{}, c11Instance(rng, D, rng.Intn(e+1))...)
	out = append(out, c11RandSeq(rng, gap, "acgt")...)
	return append(out, c11Instance(rng, C, rng.Intn(e+1))...)
}

func c11GenGlue(rng *rand.Rand, tier string, emit func(string)) {
	S := func(s string) []byte { return []byte(s) }
	// ---- corpus
	// the seeded pre-filter on the primer STRINGS (seeded/C11-m6): 3' ends closed to mismatches, the template is the product
	emit(c11GlueLine(10, 2, []string{"--forward", "GGGCAATCCTG#A#G#", "--reverse", "CCATTGAGTCTC#T#G#", "-e", "1", "-l", "20", "-L", "40"},
		[][]byte{S("gggcaatcctgag" + "acgtacgtacgtacgtacgtac" + "cagagactcaatgg"), S("ccattgagtctctg" + "acgtacgtacgtacgtacgt" + "ctcaggattgccc"),
			S("a" + "gggcaatcctgag" + "acgtacgtacgtacgtacgtac" + "cagagactcaatgg" + "t"), S("gggcaatcctgag"), S("")}))
	// default -l, a product with a barcode of one symbol, classes and negations
	emit(c11GlueLine(1, 1, []string{"--forward=[AT]C#G!A", "--reverse=G#G#A", "-L", "5"}, [][]byte{S("acgc" + "t" + "tcc"), S(""), S("tcgt" + "ga" + "tcc"), S("acgctc")}))
	emit(c11GlueLine(2, 3, []string{"--reverse=G#G#A", "--forward=[AT]C#G!A", "--max-length=5", "--min-length=2", "-D", "1", "--only-complete-flanking"},
		[][]byte{S("acgc" + "tt" + "tcc"), S("g" + "acgc" + "tt" + "tcc" + "a"), S("acgc" + "t" + "tcc")}))
	emit(c11GlueLine(3, 2, []string{"--forward", "ACG", "--reverse", "GGA", "-L", "5", "-c", "-D", "2"}, [][]byte{S("tacgttccaa"), S("acgttcc"), S("ac")}))
	// refused: -L is mandatory (built-in default -1), so are the primers; a value that is not a number
	emit(c11GlueLine(1, 1, []string{"--forward", "ACG", "--reverse", "GGA"}, [][]byte{S("tacgttccaa")}))
	emit(c11GlueLine(1, 1, []string{"--forward", "ACG", "-L", "5"}, [][]byte{S("tacgttccaa")}))
	emit(c11GlueLine(1, 1, []string{"--reverse", "ACG", "-L", "5"}, [][]byte{S("tacgttccaa")}))
	emit(c11GlueLine(1, 1, []string{"--forward", "ACG", "--reverse", "GGA", "-L", "x"}, [][]byte{S("tacgttccaa")}))
	// a negative / zero -L given explicitly; a primer that is not a primer
	emit(c11GlueLine(1, 1, []string{"--forward", "ACG", "--reverse", "GGA", "--max-length=-1"}, [][]byte{S("tacgttccaa")}))
	emit(c11GlueLine(1, 1, []string{"--forward", "ACG", "--reverse", "GGA", "-L", "0"}, [][]byte{S("tacgttccaa")}))
	emit(c11GlueLine(1, 1, []string{"--forward", "AC[G", "--reverse", "GGA", "-L", "5"}, [][]byte{S("tacgttccaa")}))
	emit(c11GlueLine(1, 1, []string{"--forward", "ACG", "--reverse", "GXA", "-L", "5"}, [][]byte{S("tacgttccaa")}))

	nrand := 70
	if tier == "thorough" {
		nrand = 260
	}
	for it := 0; it < nrand; it++ {
		fl, rl := 3+rng.Intn(8), 3+rng.Intn(8)
		if rng.Intn(6) == 0 {
			fl, rl = 12+rng.Intn(8), 12+rng.Intn(8)
		}
		var fw, rv string
		switch rng.Intn(8) {
		case 0: // plain primers: the string is the pattern
			fw, rv = c11RandPrimer(rng, fl, 10), c11RandPrimer(rng, rl, 10)
		case 1:
			fw, rv = c11GluePrimer(rng, fl, 1), c11RandPrimer(rng, rl, 0)
		case 2:
			fw, rv = c11RandPrimer(rng, fl, 0), c11GluePrimer(rng, rl, 1)
		default:
			fw, rv = c11GluePrimer(rng, fl, 1+rng.Intn(3)), c11GluePrimer(rng, rl, 1+rng.Intn(3))
		}
		if len(fw) >= c11MaxPatLen || len(rv) >= c11MaxPatLen {
			continue
		}
		F, _ := c11Primer(fw)
		R, _ := c11Primer(rv)
		extra := len(fw) - len(F) + len(rv) - len(R)
		e := []int{0, 0, 1, 1, 2}[rng.Intn(5)]
		gap := 1 + rng.Intn(6)
		switch rng.Intn(4) {
		case 0:
			gap = 1 + rng.Intn(max(extra, 1)) // below the number of grammar characters
		case 1:
			gap = 8 + rng.Intn(30)
		}
		circ := rng.Intn(7) == 0
		frag := rng.Intn(12) == 0
		if frag && gap > 6 {
			gap = 1 + rng.Intn(6)
		}
		// the options
		mnS := []string{"", "", "0", "-2", strconv.Itoa(gap), strconv.Itoa(gap), strconv.Itoa(gap - 1), strconv.Itoa(gap + 1), "1"}[rng.Intn(9)]
		mx := []int{gap, gap, gap + 1, gap + 7, max(gap-1, 1), 60}[rng.Intn(6)]
		if rng.Intn(25) == 0 && !frag {
			mx = []int{0, -1, -5}[rng.Intn(3)]
		}
		if frag { // templates of more than 1000 x L symbols: L stays small (the model costs microseconds per template symbol)
			mx = max(gap, 2) + rng.Intn(3)
		}
		deltaS := []string{"", "", "", "-1", "-3", "0", "1", "3", "50"}[rng.Intn(9)]
		if frag && deltaS == "50" {
			deltaS = "2"
		}
		full := rng.Intn(4) == 0
		var groups [][]string
		groups = append(groups, c11GlueOpt(rng, "forward", "", fw), c11GlueOpt(rng, "reverse", "", rv), c11GlueOpt(rng, "max-length", "L", strconv.Itoa(mx)))
		if e > 0 || rng.Intn(4) == 0 {
			groups = append(groups, c11GlueOpt(rng, "allowed-mismatches", "e", strconv.Itoa(e)))
		}
		if mnS != "" {
			groups = append(groups, c11GlueOpt(rng, "min-length", "l", mnS))
		}
		if deltaS != "" {
			groups = append(groups, c11GlueOpt(rng, "delta", "D", deltaS))
		}
		if full {
			groups = append(groups, []string{"--only-complete-flanking"})
		}
		if circ {
			groups = append(groups, []string{[]string{"--circular", "-c"}[rng.Intn(2)]})
		}
		if frag {
			groups = append(groups, []string{"--fragmented"})
		}
		if rng.Intn(30) == 0 { // a required option left out
			groups = groups[1+rng.Intn(2):]
			if rng.Intn(2) == 0 {
				groups = groups[:len(groups)-1]
			}
		}
		rng.Shuffle(len(groups), func(i, j int) { groups[i], groups[j] = groups[j], groups[i] })
		var argv []string
		for _, g := range groups {
			argv = append(argv, g...)
		}
		// the templates
		nt := 1 + rng.Intn(7)
		tpls := make([][]byte, 0, nt)
		for q := 0; q < nt; q++ {
			D, C := F, c11RcSets(R)
			if rng.Intn(2) == 0 {
				D, C = R, c11RcSets(F)
			}
			g := gap
			if rng.Intn(5) == 0 {
				g = max(gap+rng.Intn(3)-1, 1)
			}
			prod := c11GlueProduct(rng, D, C, g, e)
			var t []byte
			switch rng.Intn(12) {
			case 0:
				t = nil // empty
			case 1:
				t = c11RandSeq(rng, 1+rng.Intn(len(D)), "acgt") // shorter than a pattern
			case 2:
				t = prod[1:] // the product without its first symbol
			case 3:
				t = prod[:len(prod)-1] // … without its last symbol
			case 4, 5:
				t = prod // exactly the product
			case 6: // the product + 1..3 symbols, on one side or the other
				x := c11RandSeq(rng, 1+rng.Intn(3), "acgt")
				if rng.Intn(2) == 0 {
					t = append(x, prod...)
				} else {
					t = append(prod, x...)
				}
			case 7: // as long as the strings + min allow: one below / at / above the bound a filter on the strings would use
				want := len(fw) + len(rv) + max(g, 1) + rng.Intn(3) - 1
				x := max(want-len(prod), 0)
				a := rng.Intn(x + 1)
				t = append(append(c11RandSeq(rng, a, "acgt"), prod...), c11RandSeq(rng, x-a, "acgt")...)
			case 8: // shorter than the primer strings, longer than the patterns, no product
				t = c11RandSeq(rng, len(D)+len(C)+rng.Intn(extra+1), "acgt")
			case 9: // upper case / ambiguous symbols in the flanks
				t = append(append(c11RandSeq(rng, rng.Intn(4), "ACGTn"), prod...), c11RandSeq(rng, rng.Intn(4), "ACGTn")...)
			default: // flanks
				t = append(append(c11RandSeq(rng, rng.Intn(12), "acgt"), prod...), c11RandSeq(rng, rng.Intn(12), "acgt")...)
			}
			tpls = append(tpls, t)
		}
		if frag { // one template long enough to be cut, products around the piece ends; the short ones stay whole
			L := mx*1000 + 1 + rng.Intn(mx*150)
			t := c11RandSeq(rng, L, "acgt")
			step := mx*100 - (mx + len(fw) + len(rv))
			for k := 1; k*step+mx*100 < L && k < 14; k++ {
				D, C := F, c11RcSets(R)
				if k%3 == 2 {
					D, C = R, c11RcSets(F)
				}
				c11Plant(t, k*step-1-k%4, c11GlueProduct(rng, D, C, mx, 0), false)
			}
			c11Plant(t, 0, c11GlueProduct(rng, F, c11RcSets(R), mx, 0), false)
			p := c11GlueProduct(rng, R, c11RcSets(F), mx, 0)
			c11Plant(t, L-len(p), p, false)
			tpls[rng.Intn(len(tpls))] = t
		}
		emit(c11GlueLine(1+rng.Intn(4), 1+rng.Intn(4), argv, tpls))
	}
	c11GenGlueLongFlanks(rng, tier, emit) // LAST: the cases above keep their draws
}

// --fragmented with flanks that are LONG for the pieces (seeded/C11-m7: an overlap clamped to half a piece): -L 2..20, --delta
// 10 x L .. 45 x L (the overlap L + both primer strings + 2 delta goes from a fifth of a piece of 100 x L to nearly the whole piece; at
// 50 x L and beyond the cutting loop of IFragments does not advance on the unchanged tree: refused by Exec, not generated), with / without
// --only-complete-flanking, one template of more than 1000 x L symbols. The products (of the maximal length and shorter) are planted across
// the piece ends the code computes (starts k x step, ends k x step + 100 x L, step = 100 x L - overlap): the window product + flanks, or
// the product itself, starts / ends at the boundary + {0, +-1, +-delta/2, +-delta}; also at both ends of the template and at random. The
// sizes keep the number of symbols of all the pieces (what the model pays for) below ~70 000 per case.
func c11GenGlueLongFlanks(rng *rand.Rand, tier string, emit func(string)) {
	Ls := []int{2, 3, 5, 20, 4, 8}
	if tier == "thorough" {
		Ls = []int{2, 3, 5, 20, 4, 8, 2, 6, 10, 3, 12, 16, 2, 7}
	}
	mults := []int{30, 45, 10, 30, 38, 25, 20, 42, 34, 49, 27, 40, 15, 45}
	for it, L := range Ls {
		fl, rl := 8+rng.Intn(6), 8+rng.Intn(6)
		var fw, rv string
		if it%2 == 0 {
			fw, rv = c11RandPrimer(rng, fl, 8), c11RandPrimer(rng, rl, 8)
		} else {
			fw, rv = c11GluePrimer(rng, fl, 1), c11GluePrimer(rng, rl, 1)
		}
		if len(fw) >= c11MaxPatLen || len(rv) >= c11MaxPatLen {
			fw, rv = c11RandPrimer(rng, fl, 0), c11RandPrimer(rng, rl, 0)
		}
		F, _ := c11Primer(fw)
		R, _ := c11Primer(rv)
		length := 100 * L
		// the smallest step the budget of the model allows (pieces x 100 L <= ~70 000 symbols), never below the products + 1
		minStep := max(2*L*L, 8)
		delta := mults[it%len(mults)] * L
		if it >= len(mults)/2 {
			delta += rng.Intn(L+1) - L/2
		}
		if top := (length - minStep - L - len(fw) - len(rv)) / 2; delta > top {
			delta = top
		}
		overlap := L + len(fw) + len(rv) + 2*delta
		step := length - overlap
		if delta < 1 || step < 1 {
			continue
		}
		full := it%2 == 1 || rng.Intn(3) == 0
		e := 0
		if rng.Intn(4) == 0 {
			e = 1
		}
		T := 1000*L + 1 + rng.Intn(150*L)
		t := c11RandSeq(rng, T, "acgt")
		type iv struct{ a, b int }
		var used []iv
		plant := func(p int, gap int, rev bool) {
			D, C := F, c11RcSets(R)
			if rev {
				D, C = R, c11RcSets(F)
			}
			prod := c11GlueProduct(rng, D, C, gap, e)
			if p < 0 || p+len(prod) > T {
				return
			}
			for _, u := range used {
				if p < u.b+L+1 && u.a < p+len(prod)+L+1 {
					return
				}
			}
			used = append(used, iv{p, p + len(prod)})
			c11Plant(t, p, prod, false)
		}
		plen := len(F) + L + len(R)
		plant(0, L, false)
		plant(T-plen, L, true)
		var bounds []int
		for k := 1; k*step < T; k++ {
			bounds = append(bounds, k*step) // a piece starts here
			if b := (k-1)*step + length; b < T {
				bounds = append(bounds, b) // a piece ends here
			}
		}
		rng.Shuffle(len(bounds), func(i, j int) { bounds[i], bounds[j] = bounds[j], bounds[i] })
		offs := []int{0, 1, -1, delta / 2, -delta / 2, delta, -delta}
		for q, b := range bounds {
			if q >= 28 {
				break
			}
			gap := L
			if rng.Intn(3) == 0 {
				gap = 1 + rng.Intn(L)
			}
			pl := len(F) + gap + len(R)
			x := b + offs[rng.Intn(len(offs))]
			switch q % 4 {
			case 0: // the window starts there
				plant(x+delta, gap, rng.Intn(2) == 0)
			case 1: // the window ends there
				plant(x-delta-pl, gap, rng.Intn(2) == 0)
			case 2: // the product starts there
				plant(x, gap, rng.Intn(2) == 0)
			default: // the product ends there
				plant(x-pl, gap, rng.Intn(2) == 0)
			}
		}
		for q := 0; q < 6; q++ {
			plant(rng.Intn(T), L, rng.Intn(2) == 0)
		}
		argv := []string{"--forward", fw, "--reverse", rv}
		argv = append(argv, c11GlueOpt(rng, "max-length", "L", strconv.Itoa(L))...)
		argv = append(argv, c11GlueOpt(rng, "delta", "D", strconv.Itoa(delta))...)
		if e > 0 {
			argv = append(argv, c11GlueOpt(rng, "allowed-mismatches", "e", strconv.Itoa(e))...)
		}
		if full {
			argv = append(argv, "--only-complete-flanking")
		}
		argv = append(argv, "--fragmented")
		tpls := [][]byte{t}
		if rng.Intn(2) == 0 { // a short template (searched whole) beside the long one
			tpls = append(tpls, append(c11RandSeq(rng, rng.Intn(delta+2), "acgt"), c11GlueProduct(rng, F, c11RcSets(R), L, 0)...))
		}
		emit(c11GlueLine(1+rng.Intn(2), 1+rng.Intn(4), argv, tpls))
	}
}
