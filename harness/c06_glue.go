//go:build c06

package main

// C06, fifth pass — the glue between the obiuniq command line and the dereplication kernel.
//
//	glue <mem|disk> cc=<chunk count|*> w=<workers> b=<batch size> ns=<0|1> na=<hex|*> m=<hex,..|-> c=<hex,..|-> p=<1|2> s=<k> <rec> ...
//
// The options are set through the REAL option parser of the command (getoptions + obiuniq.UniqueOptionSet: -m / --merge
// repeated, weighted descriptors KEY:WEIGHTATTR, duplicates; -c / --category-attribute repeated; --na-value; --no-singleton;
// --in-memory; --chunk-count), workers and batch size through obioptions, and the records go through the REAL
// obiuniq.CLIUnique (-> obichunk.OptionStatOn / MakeOptions -> IUniqueSequence -> BioSequenceSlice.Merge).
// p=1: one pass.  p=2: CLIUnique(CLIUnique(first k records) ++ CLIUnique(the others)) — outputs of per-run obiuniq pooled and
// dereplicated again.  Oracle: per class (sequence + category values, NA when absent) the count and, for every descriptor NAME,
// the per-value weights recomputed from the case's records with Go maps (a raw read: weight 1*count or its weight attribute on
// its value; an already merged record: its own merged_<name> map), whatever the number of passes.
//
//	gattr <value> | gattr M<kind>      typed count / weight attributes and merged_ maps of unexpected Go types (see Driver/C06.lean)

import (
	"fmt"
	"os"
	"sort"
	"strconv"
	"strings"
	"time"
	_ "unsafe"

	"github.com/DavidGamba/go-getoptions"

	"math/rand"

	"git.metabarcoding.org/obitools/obitools4/obitools4/pkg/obioptions"
	"git.metabarcoding.org/obitools/obitools4/obitools4/pkg/obiseq"
	"git.metabarcoding.org/obitools/obitools4/obitools4/pkg/obitools/obiuniq"
)

// the -c list of the command has no setter: the package variable is reset directly (no hook file in /repo, so that the
// harness also builds against a tree that does not have it)
//
//go:linkname c06UniqKeys git.metabarcoding.org/obitools/obitools4/obitools4/pkg/obitools/obiuniq._Keys
var c06UniqKeys []string

type c06GlueCase struct {
	disk    bool
	cc      string // "*" or a decimal integer
	workers int
	bsize   int
	ns      bool
	na      string
	hasNa   bool
	merge   []string
	cats    []string
	passes  int
	split   int
	recs    []c06Rec
}

func (c *c06GlueCase) line() string {
	mode := "mem"
	if c.disk {
		mode = "disk"
	}
	ns := 0
	if c.ns {
		ns = 1
	}
	na := "*"
	if c.hasNa {
		na = c06hs(c.na)
	}
	p := []string{"glue", mode, "cc=" + c.cc, fmt.Sprintf("w=%d b=%d ns=%d", c.workers, c.bsize, ns), "na=" + na,
		"m=" + c06List(c.merge), "c=" + c06List(c.cats), fmt.Sprintf("p=%d s=%d", c.passes, c.split)}
	for i := range c.recs {
		p = append(p, c.recs[i].line())
	}
	return strings.Join(p, " ")
}

func c06ParseGlue(line string) (*c06GlueCase, bool) {
	f := strings.Fields(line)
	if len(f) < 11 || f[0] != "glue" {
		return nil, false
	}
	c := &c06GlueCase{}
	switch f[1] {
	case "mem":
	case "disk":
		c.disk = true
	default:
		return nil, false
	}
	get := func(s, pre string) (string, bool) {
		if !strings.HasPrefix(s, pre) {
			return "", false
		}
		return s[len(pre):], true
	}
	num := func(s, pre string) (int, bool) {
		v, ok := get(s, pre)
		if !ok {
			return 0, false
		}
		n, err := strconv.Atoi(v)
		return n, err == nil && n >= 0
	}
	var ok bool
	if c.cc, ok = get(f[2], "cc="); !ok {
		return nil, false
	}
	if c.cc != "*" {
		if _, err := strconv.Atoi(c.cc); err != nil {
			return nil, false
		}
	}
	if c.workers, ok = num(f[3], "w="); !ok {
		return nil, false
	}
	if c.bsize, ok = num(f[4], "b="); !ok || c.bsize == 0 {
		return nil, false
	}
	n, ok := num(f[5], "ns=")
	if !ok {
		return nil, false
	}
	c.ns = n != 0
	na, ok := get(f[6], "na=")
	if !ok {
		return nil, false
	}
	if na != "*" {
		c.hasNa = true
		if c.na, ok = c06unhs(na); !ok {
			return nil, false
		}
	} else {
		c.na = "NA"
	}
	m, ok := get(f[7], "m=")
	if !ok {
		return nil, false
	}
	if c.merge, ok = c06ParseList(m); !ok {
		return nil, false
	}
	cs, ok := get(f[8], "c=")
	if !ok {
		return nil, false
	}
	if c.cats, ok = c06ParseList(cs); !ok {
		return nil, false
	}
	if c.passes, ok = num(f[9], "p="); !ok || (c.passes != 1 && c.passes != 2) {
		return nil, false
	}
	if c.split, ok = num(f[10], "s="); !ok {
		return nil, false
	}
	for _, rs := range f[11:] {
		r, ok := c06ParseRec(rs)
		if !ok {
			return nil, false
		}
		c.recs = append(c.recs, r)
	}
	return c, true
}

// setOptions: the option variables of the command get their defaults back, then the command line is parsed by the real parser
func (c *c06GlueCase) setOptions() error {
	obiuniq.SetStatsOn(make([]string, 0, 10))
	c06UniqKeys = make([]string, 0, 10)
	obiuniq.SetUniqueInMemory(false)
	obiuniq.SetNumberOfChunks(100)
	obiuniq.SetNAValue("NA")
	obiuniq.SetNoSingleton(false)
	var args []string
	for i, m := range c.merge {
		switch i % 3 {
		case 0:
			args = append(args, "-m", m)
		case 1:
			args = append(args, "--merge", m)
		default:
			args = append(args, "--merge="+m)
		}
	}
	for i, k := range c.cats {
		if i%2 == 0 {
			args = append(args, "-c", k)
		} else {
			args = append(args, "--category-attribute="+k)
		}
	}
	if c.hasNa && c.na != "" {
		args = append(args, "--na-value="+c.na)
	}
	if c.ns {
		args = append(args, "--no-singleton")
	}
	if !c.disk {
		args = append(args, "--in-memory")
	}
	if c.cc != "*" {
		args = append(args, "--chunk-count="+c.cc)
	}
	opt := getoptions.New()
	obiuniq.UniqueOptionSet(opt)
	rest, err := opt.Parse(args)
	if err != nil {
		return err
	}
	if len(rest) > 0 {
		return fmt.Errorf("unparsed arguments %q", rest)
	}
	if c.hasNa && c.na == "" {
		// the parser refuses an empty value ("Missing argument"): set directly
		obiuniq.SetNAValue("")
		stat("glue:na-empty-set-directly")
	}
	obioptions.SetMaxCPU(c.workers)
	obioptions.SetWorkerPerCore(1.0)
	obioptions.SetBatchSize(c.bsize)
	return nil
}

// the descriptor as the property reads it: NAME = the whole descriptor, KEY before the first colon, weight attribute after it
type c06Desc struct {
	name, key, wattr string
	weighted         bool
}

func c06MkDesc(d string) c06Desc {
	if i := strings.IndexByte(d, ':'); i >= 0 {
		return c06Desc{d, d[:i], d[i+1:], true}
	}
	return c06Desc{d, d, "", false}
}

func (d c06Desc) weight(r *c06Rec) int {
	if !d.weighted {
		return r.cnt()
	}
	if d.wattr == "count" {
		if r.count < 0 {
			return 0
		}
		return r.count
	}
	for _, a := range r.attrs {
		if a.key == d.wattr {
			if a.isInt {
				return a.ival
			}
			return 0
		}
	}
	return 0
}

func c06DedupNames(l []string) []string {
	var res []string
	seen := map[string]bool{}
	for _, s := range l {
		if !seen[s] {
			seen[s] = true
			res = append(res, s)
		}
	}
	return res
}

// expected: the recount oracle with descriptors
func (c *c06GlueCase) expected() (lines []string, total int) {
	kc := &c06Case{na: c.na, cats: c.cats}
	type class struct {
		seq    []byte
		count  int
		attrs  map[string]string
		merged map[string]map[string]int
	}
	classes := map[string]*class{}
	var order []string
	names := c06DedupNames(c.merge)
	for i := range c.recs {
		r := &c.recs[i]
		k := kc.key(r)
		cl := classes[k]
		if cl == nil {
			cl = &class{seq: r.seq, attrs: map[string]string{}, merged: map[string]map[string]int{}}
			for _, a := range r.attrs {
				cl.attrs[a.key] = a.str()
			}
			for _, n := range names {
				cl.merged[n] = map[string]int{}
			}
			classes[k] = cl
			order = append(order, k)
		} else {
			for ak, av := range cl.attrs {
				if v, ok := r.attr(ak); !ok || v != av {
					delete(cl.attrs, ak)
				}
			}
		}
		cl.count += r.cnt()
		for _, n := range names {
			d := c06MkDesc(n)
			if own, ok := r.mergedMap(n); ok {
				for v, w := range own {
					cl.merged[n][v] += w
				}
			} else {
				v, ok := r.attr(d.key)
				if !ok {
					v = c.na
				}
				cl.merged[n][v] += d.weight(r)
			}
		}
	}
	for _, k := range order {
		cl := classes[k]
		total += cl.count
		if c.ns && cl.count == 1 {
			continue
		}
		lines = append(lines, c06ShowParts(cl.seq, cl.count, cl.attrs, cl.merged))
	}
	sort.Strings(lines)
	return
}

func c06Glue(line string) (string, []Fail) {
	c, ok := c06ParseGlue(line)
	if !ok {
		caseTrivial = true
		return "bad-op", nil
	}
	mode := "mem"
	if c.disk {
		mode = "disk"
	}
	names := c06DedupNames(c.merge)
	nw, np := 0, 0
	keyKinds := map[string]int{}
	for _, n := range names {
		d := c06MkDesc(n)
		if d.weighted {
			nw++
			keyKinds[d.key] |= 2
		} else {
			np++
			keyKinds[d.key] |= 1
		}
	}
	stat("glue:mode:" + mode)
	stat(fmt.Sprintf("glue:passes:%d", c.passes))
	if nw > 0 {
		stat("glue:weighted-descriptor")
	}
	for _, k := range keyKinds {
		if k == 3 {
			stat("glue:plain+weighted-on-one-attribute")
			break
		}
	}
	if len(names) < len(c.merge) {
		stat("glue:duplicate-descriptor")
	}
	if c.cc != "*" {
		if n, _ := strconv.Atoi(c.cc); n <= 1 {
			stat("glue:chunk-count<=1")
		}
	}
	if c.hasNa {
		stat("glue:na-value-given")
	}
	if c.ns {
		stat("glue:no-singleton")
	}
	mergedIn, rawIn := false, false
	for i := range c.recs {
		if len(c.recs[i].merged) > 0 {
			mergedIn = true
		} else {
			rawIn = true
		}
	}
	if mergedIn && rawIn {
		stat("glue:raw+already-merged-input")
	}
	if len(c.recs) < 2 {
		caseTrivial = true
	}
	if c.disk && os.Getenv("C06_CHILD") == "" {
		return c06Child(line)
	}

	var got []string
	var fails []Fail
	res := guardT(30*time.Second, func() string {
		if err := c.setOptions(); err != nil {
			return "parse-error:" + c06hs(err.Error())
		}
		// what the parser left in the option variables
		if strings.Join(obiuniq.CLIStatsOn(), "\x00") != strings.Join(c.merge, "\x00") ||
			strings.Join(obiuniq.CLIKeys(), "\x00") != strings.Join(c.cats, "\x00") ||
			obiuniq.CLINAValue() != c.na || obiuniq.CLINoSingleton() != c.ns || obiuniq.CLIUniqueInMemory() == c.disk {
			fails = append(fails, Fail{"glue.parse", fmt.Sprintf("option variables after parsing: -m %q -c %q na %q ns %v mem %v",
				obiuniq.CLIStatsOn(), obiuniq.CLIKeys(), obiuniq.CLINAValue(), obiuniq.CLINoSingleton(), obiuniq.CLIUniqueInMemory())})
		}
		pass := func(seqs []*obiseq.BioSequence) []*obiseq.BioSequence {
			out := obiuniq.CLIUnique(c06Feed(seqs, c.bsize))
			var r []*obiseq.BioSequence
			for out.Next() {
				r = append(r, out.Get().Slice()...)
			}
			return r
		}
		in := make([]*obiseq.BioSequence, len(c.recs))
		for i := range c.recs {
			in[i] = c.recs[i].build(i)
		}
		var out []*obiseq.BioSequence
		if c.passes == 1 {
			out = pass(in)
		} else {
			k := c.split
			if k > len(in) {
				k = len(in)
			}
			o1 := pass(in[:k])
			o2 := pass(in[k:])
			for _, s := range o1 {
				if len(s.Annotations()) > 0 {
					for a := range s.Annotations() {
						if strings.HasPrefix(a, "merged_") && strings.Contains(a, ":") {
							stat("glue:p2:first-pass-output-with-weighted-map")
							break
						}
					}
				}
			}
			out = pass(append(append([]*obiseq.BioSequence{}, o1...), o2...))
		}
		got = make([]string, len(out))
		for i, s := range out {
			got[i] = c06Canon(s, names)
		}
		return c06ShowAll("U", append([]string{}, got...))
	})
	if res == "panic" || res == "fatal" || res == "hang" || strings.HasPrefix(res, "parse-error") {
		fails = append(fails, Fail{"glue." + strings.SplitN(res, ":", 2)[0] + "." + mode, "obiuniq ended with " + res})
		return res, fails
	}
	// ---- oracle ------------------------------------------------------------------------------
	for i := range c.recs {
		if c.recs[i].count == 0 {
			return res, fails
		}
	}
	for _, n := range names {
		d := c06MkDesc(n)
		if d.weighted && d.wattr == "count" {
			for i := range c.recs {
				if c.recs[i].count < 0 {
					// observation: `-m K:count` on a read without count attribute weighs 1 in a singleton class (SetCount runs
					// first) and 0 as a member of a larger class; not claimed either way
					stat("glue:obs:count-as-weight-without-count")
					return res, fails
				}
			}
		}
	}
	if c.ns && c.passes == 2 {
		stat("glue:p2-no-singleton:tie-only") // the first passes remove records for good
		return res, fails
	}
	exp, total := c.expected()
	sort.Strings(got)
	sig := fmt.Sprintf("%s.p%d", mode, c.passes)
	if strings.Join(exp, " ") != strings.Join(got, " ") {
		fails = append(fails, Fail{"glue." + c06Classify(exp, got) + "." + sig, c06Diff(exp, got)})
	}
	if !c.ns {
		gotTotal := 0
		for _, l := range got {
			n, _ := strconv.Atoi(strings.Split(l, ":")[1])
			gotTotal += n
		}
		if gotTotal != total {
			fails = append(fails, Fail{"glue.total." + sig, fmt.Sprintf("total count: expected %d got %d", total, gotTotal)})
		}
	}
	return res, fails
}

// c06Gattr: typed values
func c06Gattr(line string) (string, []Fail) {
	f := strings.Fields(line)
	if len(f) != 2 {
		caseTrivial = true
		return "bad-op", nil
	}
	v := f[1]
	if strings.HasPrefix(v, "M") {
		var val interface{}
		switch v {
		case "Mmss":
			val = map[string]string{"v": "7"}
		case "Mmfs":
			val = map[string]float64{"v": 7}
		case "Mstr":
			val = "v=7"
		case "Mmis":
			val = map[string]interface{}{"v": "seven"}
		default:
			caseTrivial = true
			return "bad-op", nil
		}
		stat("gattr:merged-map-of-unexpected-type")
		res := guardT(10*time.Second, func() string {
			s := obiseq.NewBioSequence("a", []byte("a"), "")
			s.SetAttribute("x", "v")
			s.SetAttribute("merged_x", val)
			sl := obiseq.BioSequenceSlice{s}
			descs := obiseq.StatsOnDescriptions{"x": obiseq.MakeStatsOnDescription("x")}
			out := sl.Merge("NA", descs)
			return c06ShowAll("U", []string{c06Canon(out, []string{"x"})})
		})
		return res, nil
	}
	var val interface{}
	has := true
	switch {
	case v == "-":
		has = false
	case v == "bT":
		val = true
	case v == "bF":
		val = false
	case v == "m":
		val = map[string]int{"a": 1}
	case len(v) > 1 && (v[0] == 'i' || v[0] == 'f' || v[0] == 'h'):
		n, err := strconv.Atoi(v[1:])
		if err != nil {
			caseTrivial = true
			return "bad-op", nil
		}
		switch v[0] {
		case 'i':
			val = n
		case 'f':
			val = float64(n)
		default:
			val = float64(n) + 0.5
		}
	case v[0] == 's':
		s, ok := c06unhs(v[1:])
		if !ok {
			caseTrivial = true
			return "bad-op", nil
		}
		val = s
	default:
		caseTrivial = true
		return "bad-op", nil
	}
	stat("gattr:" + v[:1])
	res := guardT(10*time.Second, func() string {
		s := obiseq.NewBioSequence("a", []byte("a"), "")
		if has {
			s.SetAttribute("count", val)
		}
		count := s.Count()
		t := obiseq.NewBioSequence("a", []byte("a"), "")
		if has {
			t.SetAttribute("x", val)
		}
		w, ok := t.GetIntAttribute("x")
		okn := 0
		if ok {
			okn = 1
		}
		after := "-"
		if a, found := t.GetAttribute("x"); found {
			switch a := a.(type) {
			case int:
				after = "i" + strconv.Itoa(a)
			case float64:
				after = "f"
			case string:
				after = "s"
			case bool:
				after = "b"
			default:
				after = "m"
			}
		}
		return fmt.Sprintf("count=%d w=%d,%d after=%s", count, w, okn, after)
	})
	return res, nil
}

// ---------------------------------------------------------------------------------------------
// generator

var c06GlueDescs = []string{"sample", "sample:w", "sample:n", "lib", "lib:w", "run", "sample:w:x", "sample:", ":w"}

func c06GlueRecs(rng *rand.Rand, n int, names []string, pMerged int) []c06Rec {
	nseq := 1 + rng.Intn(4)
	seqs := make([][]byte, nseq)
	for i := range seqs {
		l := 1 + rng.Intn(6)
		b := make([]byte, l)
		for j := range b {
			b[j] = "acgt"[rng.Intn(4)]
		}
		seqs[i] = b
	}
	vals := []string{"a", "b", "c", "NA", "A b"}
	recs := make([]c06Rec, n)
	for i := range recs {
		r := c06Rec{id: fmt.Sprintf("r%d", i), seq: seqs[rng.Intn(nseq)], count: -1}
		if rng.Intn(3) > 0 {
			r.count = 1 + rng.Intn(5)
		}
		for _, k := range []string{"sample", "lib", "run"} {
			if rng.Intn(6) > 0 {
				r.attrs = append(r.attrs, c06Attr{key: k, sval: vals[rng.Intn(len(vals))]})
			}
		}
		for _, k := range []string{"w", "n"} {
			if rng.Intn(7) > 0 {
				r.attrs = append(r.attrs, c06Attr{key: k, isInt: true, ival: rng.Intn(10)})
			}
		}
		if rng.Intn(100) < pMerged {
			// an already merged record: carries the maps of some of the requested names, sometimes only the plain map of a key
			// whose weighted form is requested (left by an earlier `obiuniq -m KEY`)
			for _, nm := range names {
				if rng.Intn(4) == 0 {
					continue
				}
				slot := nm
				if rng.Intn(6) == 0 {
					slot = c06MkDesc(nm).key
				}
				dup := false
				for _, m := range r.merged {
					if m.key == slot {
						dup = true
					}
				}
				if dup {
					continue
				}
				m := c06Merged{key: slot}
				used := map[string]bool{}
				for e := rng.Intn(4); e > 0; e-- {
					v := vals[rng.Intn(len(vals))]
					if used[v] {
						continue
					}
					used[v] = true
					m.entries = append(m.entries, c06Entry{v, 1 + rng.Intn(9)})
				}
				r.merged = append(r.merged, m)
			}
			if rng.Intn(2) == 0 { // as a previous merge leaves it: the differing attributes are gone
				r.attrs = nil
			}
		}
		recs[i] = r
	}
	return recs
}

func c06GenGlue(rng *rand.Rand, tier string, emit func(string)) {
	hs := c06hs
	// ---- corpus ----
	// the scenario of per-run outputs pooled and dereplicated again with a weighted descriptor (two runs, one sequence, three
	// samples, different weights), in memory and on disk, one pass and two passes; plain + weighted on the same attribute
	rec := func(id, seq, sample string, w, count int) string {
		r := c06Rec{id: id, seq: []byte(seq), count: count}
		if sample != "" {
			r.attrs = append(r.attrs, c06Attr{key: "sample", sval: sample})
		}
		if w >= 0 {
			r.attrs = append(r.attrs, c06Attr{key: "w", isInt: true, ival: w})
		}
		return r.line()
	}
	run := []string{rec("a1", "acgt", "a", 3, 1), rec("a2", "acgt", "a", 4, 1), rec("a3", "acgt", "b", 5, 2), rec("a4", "ttga", "a", 2, -1),
		rec("b1", "acgt", "b", 6, 1), rec("b2", "acgt", "c", 1, 3), rec("b3", "ttga", "a", 6, 1), rec("b4", "ggg", "", -1, -1)}
	for _, mode := range []string{"mem", "disk"} {
		for _, m := range []string{hs("sample:w"), hs("sample"), hs("sample") + "," + hs("sample:w"), hs("sample:w") + "," + hs("sample"),
			hs("sample:w") + "," + hs("sample:w"), hs("sample") + "," + hs("sample:w") + "," + hs("sample")} {
			for _, p := range []string{"p=1 s=0", "p=2 s=4", "p=2 s=3"} {
				emit(fmt.Sprintf("glue %s cc=* w=2 b=3 ns=0 na=* m=%s c=- %s %s", mode, m, p, strings.Join(run, " ")))
			}
		}
	}
	// already merged input records whose merged member holds several reads (attributes dropped)
	am := (&c06Rec{id: "u1", seq: []byte("acgt"), count: 4, merged: []c06Merged{{key: "sample:w", entries: []c06Entry{{"a", 7}, {"b", 5}}}}}).line()
	am2 := (&c06Rec{id: "u2", seq: []byte("acgt"), count: 4, merged: []c06Merged{{key: "sample:w", entries: []c06Entry{{"b", 6}, {"c", 1}}}}}).line()
	emit("glue mem cc=* w=1 b=2 ns=0 na=* m=" + hs("sample:w") + " c=- p=1 s=0 " + am + " " + am2)
	emit("glue mem cc=* w=1 b=2 ns=0 na=* m=" + hs("sample:w") + " c=- p=1 s=0 " + am2 + " " + am + " " + rec("r", "acgt", "a", 2, 1))
	emit("glue disk cc=3 w=1 b=2 ns=0 na=* m=" + hs("sample:w") + " c=- p=1 s=0 " + am + " " + am2)
	// chunk counts at and below the clamp, NA value, category absent
	for _, cc := range []string{"0", "1", "-5", "2", "*", "1000"} {
		emit(fmt.Sprintf("glue mem cc=%s w=3 b=2 ns=1 na=%s m=%s c=%s p=1 s=0 %s", cc, hs("none"), hs("sample"), hs("sample"), strings.Join(run, " ")))
	}
	emit(fmt.Sprintf("glue mem cc=7 w=3 b=2 ns=0 na=%s m=%s c=%s,%s p=2 s=5 %s", hs(""), hs("sample:w"), hs("sample"), hs("lib"), strings.Join(run, " ")))
	// observation: count as weight attribute on reads without count
	emit(fmt.Sprintf("glue mem cc=* w=1 b=2 ns=0 na=* m=%s c=- p=1 s=0 %s", hs("sample:count"), strings.Join(run, " ")))
	// typed values
	for _, v := range []string{"-", "i3", "i0", "i-2", "f3", "f0", "h3", "h-3", "s" + hs("3"), "s" + hs("x"), "bT", "bF", "m", "Mmss", "Mmfs", "Mstr", "Mmis"} {
		emit("gattr " + v)
	}
	// ---- random ----
	n := 110
	if tier == "thorough" {
		n = 420
	}
	for i := 0; i < n; i++ {
		c := &c06GlueCase{cc: "*", workers: 1 + rng.Intn(4), bsize: 1 + rng.Intn(7), passes: 1 + rng.Intn(2), na: "NA"}
		c.disk = rng.Intn(4) == 0
		switch rng.Intn(6) {
		case 0:
			c.cc = strconv.Itoa(rng.Intn(3) - 1)
		case 1, 2:
			c.cc = strconv.Itoa(2 + rng.Intn(20))
		}
		if rng.Intn(4) == 0 {
			c.hasNa = true
			c.na = []string{"none", "x1", "", "NA"}[rng.Intn(4)]
		}
		c.ns = rng.Intn(6) == 0
		nm := 1 + rng.Intn(3)
		for j := 0; j < nm; j++ {
			k := rng.Intn(len(c06GlueDescs) + 4)
			if k >= len(c06GlueDescs) {
				k = 1 + k%2 // more of sample:w, sample:n
			}
			c.merge = append(c.merge, c06GlueDescs[k])
		}
		if rng.Intn(5) == 0 && len(c.merge) > 0 {
			c.merge = append(c.merge, c.merge[0])
		}
		if rng.Intn(3) == 0 { // plain + weighted on one attribute
			c.merge = append(c.merge, "sample", "sample:w")
			rng.Shuffle(len(c.merge), func(a, b int) { c.merge[a], c.merge[b] = c.merge[b], c.merge[a] })
		}
		for _, k := range []string{"lib", "run", "sample"} {
			if rng.Intn(4) == 0 {
				c.cats = append(c.cats, k)
			}
		}
		pm := 0
		if rng.Intn(2) == 0 {
			pm = 30
		}
		nr := 2 + rng.Intn(24)
		if tier == "thorough" && rng.Intn(10) == 0 {
			nr = 60 + rng.Intn(120)
		}
		c.recs = c06GlueRecs(rng, nr, c06DedupNames(c.merge), pm)
		if c.disk {
			// On disk every number comes back from the chunk files as float64 and GetIntAttribute (the weight function) turns
			// the weight attribute into an int on the records whose weight it reads, i.e. on those WITHOUT a merged_<name> map:
			// BioSequence.Merge then sees int 2 != float64 2 and drops a weight attribute that all members share (observation,
			// see level_note; with file input it happens in memory too).  The already merged records of the on-disk cases carry
			// no integer attributes, so that the tie does not depend on it.
			for i := range c.recs {
				if len(c.recs[i].merged) > 0 {
					var keep []c06Attr
					for _, a := range c.recs[i].attrs {
						if !a.isInt {
							keep = append(keep, a)
						}
					}
					c.recs[i].attrs = keep
				}
			}
		}
		c.split = rng.Intn(len(c.recs) + 1)
		emit(c.line())
	}
}
