//go:build c05

package main

import (
	"bytes"
	"fmt"
	"math/rand"
	"os"
	"os/exec"
	"path/filepath"
	"strconv"
	"strings"
	"sync"
	"time"
)

type c05 struct{}

func init() { props["C05"] = c05{} }

// A scenario = a command with fixed functional options; the input is a pure function of (scenario, seed, nrec).
type c05Scenario struct {
	name  string   // scenario id
	cmd   string   // command
	args  []string // functional options
	kind  string   // "records": output is the concatenation of per-record outputs;
	// "csv": header + rows; "count": obicount sums; "opaque": only compared across configurations
	input string // "fasta", "fastq", "pairs", "multiplex", "pcr"
}

var c05Scenarios = []c05Scenario{
	{"convert-fasta", "obiconvert", nil, "records", "fasta"},
	{"convert-fastq", "obiconvert", nil, "records", "fastq"},
	{"convert-fq2fa", "obiconvert", []string{"--fasta-output"}, "records", "fastq"},
	{"convert-obi", "obiconvert", []string{"-O"}, "records", "fasta"},
	{"grep-len", "obigrep", []string{"-l", "40"}, "records", "fasta"},
	{"grep-seq", "obigrep", []string{"-s", "acgta"}, "records", "fasta"},
	{"grep-count", "obigrep", []string{"-c", "3"}, "records", "fasta"},
	{"annotate-len", "obiannotate", []string{"--length"}, "records", "fasta"},
	{"annotate-tag", "obiannotate", []string{"-S", "foo=sequence.Len()*2"}, "records", "fasta"},
	{"annotate-cut", "obiannotate", []string{"--cut", "3:20"}, "records", "fasta"},
	{"complement", "obicomplement", nil, "records", "fastq"},
	{"pairing", "obipairing", []string{"--min-overlap", "10"}, "records", "pairs"},
	{"multiplex", "obimultiplex", []string{"-e", "2"}, "records", "multiplex"},
	{"pcr", "obipcr", []string{"--forward", "ggtagcgtatcgtaca", "--reverse", "ttgcatcgatcggatc", "-e", "2", "-L", "200"}, "records", "pcr"},
	{"count", "obicount", nil, "count", "fasta"},
	{"summary", "obisummary", nil, "opaque", "fasta"},
	{"csv", "obicsv", []string{"-i", "-s", "--count"}, "csv", "fasta"},
	{"csv-auto", "obicsv", []string{"--auto", "-i"}, "csv", "fasta"},
	// several input FILES, each larger than the 1 MiB read chunk: records must come out in file order
	{"convert-multifile", "obiconvert", nil, "opaque", "multifile"},
}

func c05Scenario_(name string) *c05Scenario {
	for i := range c05Scenarios {
		if c05Scenarios[i].name == name {
			return &c05Scenarios[i]
		}
	}
	return nil
}

func c05Rc(s []byte) []byte {
	m := map[byte]byte{'a': 't', 'c': 'g', 'g': 'c', 't': 'a'}
	out := make([]byte, len(s))
	for i, b := range s {
		out[len(s)-1-i] = m[b]
	}
	return out
}

func c05Dna(r *rand.Rand, n int) []byte {
	s := make([]byte, n)
	for i := range s {
		s[i] = "acgt"[r.Intn(4)]
	}
	return s
}

func c05Qual(r *rand.Rand, n int) []byte {
	q := make([]byte, n)
	for i := range q {
		q[i] = byte(33 + 2 + r.Intn(38))
	}
	return q
}

// c05Records returns, per record, the text(s) of that record in the input file(s).
// For "pairs" each record has two texts (forward file, reverse file).
func c05Records(sc *c05Scenario, seed int64, nrec int) [][2]string {
	r := rand.New(rand.NewSource(seed*7919 + int64(len(sc.name))))
	recs := make([][2]string, nrec)
	for i := 0; i < nrec; i++ {
		id := fmt.Sprintf("s%03d", i)
		if sc.input == "multifile" {
			id = fmt.Sprintf("s%06d", i)
		}
		switch sc.input {
		case "multifile":
			recs[i][0] = fmt.Sprintf(">%s {\"count\":%d}\n%s\n", id, 1+r.Intn(6), c05Dna(r, 140+r.Intn(20)))
		case "fasta":
			n := 10 + r.Intn(120)
			s := c05Dna(r, n)
			if r.Intn(3) == 0 {
				copy(s[n/2:], "acgta")
			}
			var sb strings.Builder
			fmt.Fprintf(&sb, ">%s {\"count\":%d,\"tag\":\"x%d\"}\n", id, 1+r.Intn(6), r.Intn(4))
			for j := 0; j < n; j += 60 {
				e := j + 60
				if e > n {
					e = n
				}
				sb.Write(s[j:e])
				sb.WriteByte('\n')
			}
			recs[i][0] = sb.String()
		case "fastq":
			n := 10 + r.Intn(120)
			recs[i][0] = fmt.Sprintf("@%s {\"count\":%d}\n%s\n+\n%s\n", id, 1+r.Intn(6), c05Dna(r, n), c05Qual(r, n))
		case "pairs":
			frag := c05Dna(r, 120+r.Intn(60))
			lf, lr := 80+r.Intn(30), 80+r.Intn(30)
			if lf > len(frag) {
				lf = len(frag)
			}
			if lr > len(frag) {
				lr = len(frag)
			}
			f := frag[:lf]
			rv := c05Rc(frag[len(frag)-lr:])
			recs[i][0] = fmt.Sprintf("@%s\n%s\n+\n%s\n", id, f, c05Qual(r, lf))
			recs[i][1] = fmt.Sprintf("@%s\n%s\n+\n%s\n", id, rv, c05Qual(r, lr))
		case "multiplex":
			tags := []string{"aacgt", "ccatg", "ggtca", "ttgac"}
			tf, tr := tags[r.Intn(4)], tags[r.Intn(4)]
			bar := c05Dna(r, 30+r.Intn(40))
			read := append([]byte{}, c05Dna(r, r.Intn(4))...)
			read = append(read, tf...)
			read = append(read, "ggtagcgtatcgtaca"...)
			read = append(read, bar...)
			read = append(read, c05Rc([]byte("ttgcatcgatcggatc"))...)
			read = append(read, c05Rc([]byte(tr))...)
			read = append(read, c05Dna(r, r.Intn(4))...)
			if r.Intn(2) == 0 {
				read = c05Rc(read)
			}
			if r.Intn(5) == 0 { // a read without priming site
				read = c05Dna(r, 60)
			}
			recs[i][0] = fmt.Sprintf("@%s\n%s\n+\n%s\n", id, read, c05Qual(r, len(read)))
		case "pcr":
			t := append([]byte{}, c05Dna(r, 20+r.Intn(40))...)
			nsites := r.Intn(3)
			for k := 0; k < nsites; k++ {
				t = append(t, "ggtagcgtatcgtaca"...)
				t = append(t, c05Dna(r, 20+r.Intn(60))...)
				t = append(t, c05Rc([]byte("ttgcatcgatcggatc"))...)
				t = append(t, c05Dna(r, 5+r.Intn(30))...)
			}
			if r.Intn(2) == 0 {
				t = c05Rc(t)
			}
			recs[i][0] = fmt.Sprintf(">%s\n%s\n", id, t)
		}
	}
	return recs
}

const c05Sheet = `experiment,sample,sample_tag,forward_primer,reverse_primer
exp,s1,aacgt:aacgt,ggtagcgtatcgtaca,ttgcatcgatcggatc
exp,s2,ccatg:ccatg,ggtagcgtatcgtaca,ttgcatcgatcggatc
exp,s3,ggtca:ttgac,ggtagcgtatcgtaca,ttgcatcgatcggatc
exp,s4,ttgac:aacgt,ggtagcgtatcgtaca,ttgcatcgatcggatc
`

var (
	c05BinMu  sync.Mutex
	c05Bins   = map[string]string{}
	c05Single sync.Map // key -> []string per-record outputs
)

func c05Bin(name string) (string, error) {
	c05BinMu.Lock()
	defer c05BinMu.Unlock()
	if p, ok := c05Bins[name]; ok {
		return p, nil
	}
	root := os.Getenv("VERIF_ROOT")
	if root == "" {
		root = "/verif"
	}
	repo := os.Getenv("VERIF_REPO")
	if repo == "" {
		repo = "/repo"
	}
	out := filepath.Join(binDir(), "cmdv_"+name)
	tmpOut := fmt.Sprintf("%s.%d", out, os.Getpid())
	cmd := exec.Command("go", "build", "-tags", "verif", "-o", tmpOut, "./cmd/obitools/"+name)
	cmd.Dir = repo
	env := []string{}
	for _, e := range os.Environ() {
		if strings.HasPrefix(e, "GOFLAGS=") || strings.HasPrefix(e, "GOWORK=") {
			continue
		}
		env = append(env, e)
	}
	cmd.Env = append(env, "GOPROXY=off", "GOSUMDB=off", "GOTOOLCHAIN=local", "CGO_CFLAGS=-w -O2")
	if b, err := cmd.CombinedOutput(); err != nil {
		return "", fmt.Errorf("go build %s: %v: %s", name, err, b[max(0, len(b)-400):])
	}
	// several harness processes may build at the same time: atomic replacement
	if err := os.Rename(tmpOut, out); err != nil {
		return "", err
	}
	// which of the parallelism options does the command know?
	help, _ := exec.Command(out, "--help").CombinedOutput()
	c05Flags[name] = map[string]bool{
		"--batch-size":     bytes.Contains(help, []byte("--batch-size")),
		"--no-progressbar": bytes.Contains(help, []byte("--no-progressbar")),
		"--max-cpu":        bytes.Contains(help, []byte("--max-cpu")),
	}
	c05Bins[name] = out
	return out, nil
}

var c05Flags = map[string]map[string]bool{}

// c05Run executes the scenario on the given records with a parallelism configuration.
func c05Run(sc *c05Scenario, recs [][2]string, cpu, batch, gmp int) (string, []byte) {
	bin, err := c05Bin(sc.cmd)
	if err != nil {
		return "build-error", []byte(err.Error())
	}
	dir, _ := os.MkdirTemp("", "c05")
	defer os.RemoveAll(dir)
	stdin := ""
	var a, b strings.Builder
	for _, r := range recs {
		a.WriteString(r[0])
		b.WriteString(r[1])
	}
	args := append([]string{}, sc.args...)
	c05BinMu.Lock()
	flags := c05Flags[sc.cmd]
	c05BinMu.Unlock()
	if flags["--max-cpu"] {
		args = append(args, "--max-cpu", strconv.Itoa(cpu))
	}
	if flags["--batch-size"] {
		args = append(args, "--batch-size", strconv.Itoa(batch))
	}
	if flags["--no-progressbar"] {
		args = append(args, "--no-progressbar")
	}
	switch sc.input {
	case "pairs":
		os.WriteFile(filepath.Join(dir, "f.fastq"), []byte(a.String()), 0o644)
		os.WriteFile(filepath.Join(dir, "r.fastq"), []byte(b.String()), 0o644)
		args = append(args, "-F", filepath.Join(dir, "f.fastq"), "-R", filepath.Join(dir, "r.fastq"))
	case "multifile":
		// the records are split between two files given in order on the command line
		var f1, f2 strings.Builder
		for i, r := range recs {
			if i < len(recs)/2 {
				f1.WriteString(r[0])
			} else {
				f2.WriteString(r[0])
			}
		}
		os.WriteFile(filepath.Join(dir, "a.fasta"), []byte(f1.String()), 0o644)
		os.WriteFile(filepath.Join(dir, "b.fasta"), []byte(f2.String()), 0o644)
		args = append(args, filepath.Join(dir, "a.fasta"), filepath.Join(dir, "b.fasta"))
	case "multiplex":
		os.WriteFile(filepath.Join(dir, "sheet.csv"), []byte(c05Sheet), 0o644)
		args = append(args, "-t", filepath.Join(dir, "sheet.csv"))
		stdin = a.String()
	default:
		// the sequences come on stdin: it is the only reader that cuts its input into batches of
		// --batch-size records (files are cut into 1 MiB chunks whatever the option says), so this is
		// what makes the batch partition and the worker parallelism vary with the configuration
		stdin = a.String()
	}
	cmd := exec.Command(bin, args...)
	if sc.input != "pairs" && sc.input != "multifile" {
		cmd.Stdin = strings.NewReader(stdin)
	}
	cmd.Env = append(os.Environ(), "GOMAXPROCS="+strconv.Itoa(gmp))
	var stdout bytes.Buffer
	cmd.Stdout = &stdout
	done := make(chan error, 1)
	if err := cmd.Start(); err != nil {
		return "start-error", nil
	}
	go func() { done <- cmd.Wait() }()
	select {
	case err := <-done:
		if err != nil {
			return "exit-nonzero", stdout.Bytes()
		}
		return "ok", stdout.Bytes()
	case <-time.After(120 * time.Second):
		cmd.Process.Kill()
		return "hang", stdout.Bytes()
	}
}

// c05Singles runs the scenario on every record alone (in parallel processes) and returns the outputs.
func c05Singles(sc *c05Scenario, seed int64, nrec int) []string {
	key := fmt.Sprintf("%s/%d/%d", sc.name, seed, nrec)
	if v, ok := c05Single.Load(key); ok {
		return v.([]string)
	}
	recs := c05Records(sc, seed, nrec)
	out := make([]string, nrec)
	var wg sync.WaitGroup
	sem := make(chan struct{}, 12)
	for i := range recs {
		wg.Add(1)
		sem <- struct{}{}
		go func(i int) {
			defer wg.Done()
			defer func() { <-sem }()
			st, o := c05Run(sc, recs[i:i+1], 1, 1, 1)
			if st != "ok" {
				out[i] = "!" + st
			} else {
				out[i] = string(o)
			}
		}(i)
	}
	wg.Wait()
	c05Single.Store(key, out)
	return out
}

var c05Configs = [][3]int{{1, 1, 1}, {1, 1000, 4}, {2, 3, 4}, {3, 7, 2}, {8, 2, 8}, {32, 5, 16}, {4, 1, 1}}

func (c05) Gen(rng *rand.Rand, tier string, emit func(string)) {
	seeds := 1
	nrec := 24
	if tier == "thorough" {
		seeds = 3
		nrec = 60
	}
	for _, sc := range c05Scenarios {
		if sc.input == "multifile" {
			ms := rng.Int63n(1 << 30)
			for _, cfg := range [][3]int{{1, 1000, 1}, {16, 1000, 16}, {8, 1000, 4}, {16, 1000, 16}} {
				emit(fmt.Sprintf("run %s seed=%d nrec=16000 cpu=%d batch=%d gmp=%d rep=%d", sc.name, ms, cfg[0], cfg[1], cfg[2], cfg[0]))
			}
			continue
		}
		for s := 0; s < seeds; s++ {
			seed := rng.Int63n(1 << 30)
			n := nrec
			if s == 1 {
				n = 1 + rng.Intn(5)
			}
			for _, cfg := range c05Configs {
				reps := 1
				if cfg[0] > 2 {
					reps = 2
				}
				for rep := 0; rep < reps; rep++ {
					emit(fmt.Sprintf("run %s seed=%d nrec=%d cpu=%d batch=%d gmp=%d rep=%d", sc.name, seed, n, cfg[0], cfg[1], cfg[2], rep))
				}
			}
		}
		// empty input
		emit(fmt.Sprintf("run %s seed=1 nrec=0 cpu=4 batch=3 gmp=4 rep=0", sc.name))
		// stress: thousands of one-record batches in flight between 16 workers, against the sequential run
		// (compared with each other only: no per-record model data for that many records)
		if sc.input != "pairs" {
			sseed := rng.Int63n(1 << 30)
			emit(fmt.Sprintf("run %s seed=%d nrec=4000 cpu=1 batch=4000 gmp=1 rep=0", sc.name, sseed))
			emit(fmt.Sprintf("run %s seed=%d nrec=4000 cpu=16 batch=1 gmp=16 rep=0", sc.name, sseed))
			emit(fmt.Sprintf("run %s seed=%d nrec=4000 cpu=8 batch=3 gmp=8 rep=1", sc.name, sseed))
		}
	}
}

var (
	c05RefMu sync.Mutex
	c05Ref   = map[string][]byte{} // first output seen per (scenario, seed, nrec)
)

func c05Hash(b []byte) string {
	// FNV-1a 64, enough to identify an output on a case line
	h := uint64(14695981039346656037)
	for _, c := range b {
		h ^= uint64(c)
		h *= 1099511628211
	}
	return fmt.Sprintf("%016x", h)
}

func (c05) Exec(c string) (string, []Fail) {
	f := strings.Fields(c)
	if len(f) < 8 || f[0] != "run" {
		return "bad-op", nil
	}
	sc := c05Scenario_(f[1])
	if sc == nil {
		return "bad-op", nil
	}
	get := func(s, key string) int {
		if !strings.HasPrefix(s, key+"=") {
			return -1
		}
		v, err := strconv.Atoi(s[len(key)+1:])
		if err != nil {
			return -1
		}
		return v
	}
	seed, nrec, cpu, batch, gmp := get(f[2], "seed"), get(f[3], "nrec"), get(f[4], "cpu"), get(f[5], "batch"), get(f[6], "gmp")
	if seed < 0 || nrec < 0 || cpu < 1 || batch < 1 || gmp < 1 {
		return "bad-op", nil
	}
	stat("scenario:" + sc.name)
	recs := c05Records(sc, int64(seed), nrec)
	st, out := c05Run(sc, recs, cpu, batch, gmp)
	var fails []Fail
	if st != "ok" {
		fails = append(fails, Fail{Sig: sc.name + ".outcome", Text: "command ended with " + st})
	}
	if bytes.Contains(out, []byte{0xDB, 0xDB}) {
		fails = append(fails, Fail{Sig: sc.name + ".recycled-buffer-in-output", Text: "the output contains the poison value of a recycled buffer"})
	}
	if sc.input == "multifile" && st == "ok" {
		prev, n, misordered := "", 0, false
		for _, l := range bytes.Split(out, []byte("\n")) {
			if len(l) > 0 && l[0] == '>' {
				id := string(bytes.Fields(l[1:])[0])
				if id <= prev && !misordered {
					misordered = true
					fails = append(fails, Fail{Sig: sc.name + ".file-order", Text: fmt.Sprintf("record %s delivered after %s: the records of several input files must come out in file order", id, prev)})
				}
				prev = id
				n++
			}
		}
		if n != nrec {
			fails = append(fails, Fail{Sig: sc.name + ".records", Text: fmt.Sprintf("%d records out for %d in", n, nrec)})
		}
	}
	// identical bytes for every parallelism configuration and repetition
	key := fmt.Sprintf("%s/%d/%d", sc.name, seed, nrec)
	c05RefMu.Lock()
	ref, seen := c05Ref[key]
	if !seen {
		c05Ref[key] = out
	}
	c05RefMu.Unlock()
	if seen && !bytes.Equal(ref, out) {
		fails = append(fails, Fail{Sig: sc.name + ".parallelism-dependent", Text: fmt.Sprintf("output differs from the one of another configuration of the same input (%d vs %d bytes, first difference at %d)", len(out), len(ref), firstDiff(out, ref))})
	}
	// data for the model: the per-record outputs (every record run alone)
	result := st + " " + c05Hash(out)
	kind := sc.kind
	if nrec > 500 {
		kind = "opaque"
	}
	switch kind {
	case "records", "csv", "count":
		singles := c05Singles(sc, int64(seed), nrec)
		parts := make([]string, len(singles))
		for i, s := range singles {
			parts[i] = hx([]byte(s))
		}
		caseOverride = strings.Join(f, " ") + " | " + sc.kind + " " + strings.Join(parts, " ")
		result = st + " " + hx(out)
	default:
		caseOverride = strings.Join(f, " ") + " | opaque"
		result = st
	}
	if nrec == 0 {
		caseTrivial = true
	}
	return result, fails
}

func firstDiff(a, b []byte) int {
	n := len(a)
	if len(b) < n {
		n = len(b)
	}
	for i := 0; i < n; i++ {
		if a[i] != b[i] {
			return i
		}
	}
	return n
}
