//go:build c05

package main

// C05 — command output is a function of input and options, not of parallelism.
//
// A case = one run of a real command (binary built from the tree under check with -tags verif: recycled
// buffers poisoned) on a generated input under one parallelism configuration:
//
//	run <scenario> seed= nrec= cpu= batch= gmp= rep= [in=stdin|file|gz] [aff=N] [env=var|both|f1|none]
//	race <scenario> seed= nrec= cpu= batch= gmp= rep= [in=] [aff=] [env=]  (thorough: binary built with -race)
//
// env= : how cpu / batch reach the command (see c05Cfg.env): OBIMAXCPU / OBIBATCHSIZE instead of the options,
// options against contradicting variables, --force-one-cpu with --max-cpu, neither. Group-by commands (obiuniq with
// categories, obiclean) carry the model of the command itself on their case line: see c05_r3.go.
//
// cpu=0 is --force-one-cpu (the only way to get one P: the commands call runtime.GOMAXPROCS(--max-cpu)
// themselves and turn --max-cpu 1 into 2, the GOMAXPROCS variable of the environment is overridden);
// aff=N pins the process on N cores (taskset): with more Ps than cores the threads are preempted by the
// operating system inside their critical windows, which is what makes use-after-release of shared buffers
// visible.
//
// Observed per run: every output STREAM of the command (stdout, then the files the scenario names: discarded
// records, unidentified reads, paired outputs, the files of obidistribute), gunzipped when the scenario
// compresses. Oracles: (1) identical streams for every configuration and repetition of the same
// (scenario, input); (2) no poison byte of a recycled buffer; (3) streams = the model's output computed from
// the outputs of every record run ALONE (sections ` | kind data…` of the augmented case line, one per stream);
// (4) scenario specific: identity conversions give back the input bytes, files come out in file order;
// (5) race tier: the Go race detector stays silent.

import (
	"bytes"
	"compress/gzip"
	"encoding/json"
	"fmt"
	"io"
	"math/rand"
	"os"
	"os/exec"
	"path/filepath"
	"sort"
	"strconv"
	"strings"
	"sync"
	"sync/atomic"
	"syscall"
	"time"
)

type c05 struct{}

func init() { props["C05"] = c05{} }

// c05Out is one extra output stream of a scenario: a file (relative to the scratch directory) and the kind of
// its per-record model; file "out/" = every file of that directory (obidistribute), kind "dispatch".
type c05Out struct {
	file string
	kind string
}

// A scenario = a command with fixed functional options; the input is a pure function of (scenario, seed, nrec).
// In args `{dir}` is the scratch directory of the run.
type c05Scenario struct {
	name string   // scenario id
	cmd  string   // command
	args []string // functional options
	// kind of the model of stdout — "records": concatenation of the per-record outputs; "csv": header + rows;
	// "count": obicount sums; "json": `[\n` objects joined by `,\n` `\n]\n`; "summary": obisummary counters
	// (sum of per-record counters, map-valued included); "opaque": only compared across configurations;
	// "set": compared across configurations as a multiset of (sequence, count) (obiuniq: order not claimed)
	kind  string
	input string // generator: "fasta", "fastq", "pairs", "multiplex", "pcr", "multifile", "fasta-sb", "fastq-sb", "fasta-sample", "uniq", "bigannot"
	extra []c05Out
	gz    bool   // the outputs are compressed (-Z): gunzipped before any comparison
	light bool   // fewer configurations (scenario added for a second option set of an already covered command)
	nrec  int    // number of records of the generated inputs (0: 24 quick / 60 thorough)
	trail string // bytes the command prints on stdout after its last record: checked and removed
	// what the command prints for an EMPTY input (obitag ends with fmt.Println(""): with an input the writer has closed
	// stdout by then and nothing more is printed, without input the line is printed): checked and removed
	emptyOut string
	cfgs     []c05Cfg // the parallelism configurations of the scenario (nil: c05Configs / c05LightConfigs)
	stress   int      // number of records of the stress runs (0: 4000)
}

var c05Scenarios = []c05Scenario{
	{name: "convert-fasta", cmd: "obiconvert", kind: "records", input: "fasta"},
	{name: "convert-fastq", cmd: "obiconvert", kind: "records", input: "fastq"},
	{name: "convert-fq2fa", cmd: "obiconvert", args: []string{"--fasta-output"}, kind: "records", input: "fastq"},
	{name: "convert-obi", cmd: "obiconvert", args: []string{"-O"}, kind: "records", input: "fasta"},
	{name: "grep-len", cmd: "obigrep", args: []string{"-l", "40"}, kind: "records", input: "fasta"},
	{name: "grep-seq", cmd: "obigrep", args: []string{"-s", "acgta"}, kind: "records", input: "fasta"},
	{name: "grep-count", cmd: "obigrep", args: []string{"-c", "3"}, kind: "records", input: "fasta"},
	{name: "annotate-len", cmd: "obiannotate", args: []string{"--length"}, kind: "records", input: "fasta"},
	{name: "annotate-tag", cmd: "obiannotate", args: []string{"-S", "foo=sequence.Len()*2"}, kind: "records", input: "fasta"},
	{name: "annotate-cut", cmd: "obiannotate", args: []string{"--cut", "3:20"}, kind: "records", input: "fasta"},
	{name: "complement", cmd: "obicomplement", kind: "records", input: "fastq"},
	{name: "pairing", cmd: "obipairing", args: []string{"--min-overlap", "10"}, kind: "records", input: "pairs"},
	{name: "multiplex", cmd: "obimultiplex", args: []string{"-e", "2"}, kind: "records", input: "multiplex"},
	{name: "pcr", cmd: "obipcr", args: []string{"--forward", "ggtagcgtatcgtaca", "--reverse", "ttgcatcgatcggatc", "-e", "2", "-L", "200"}, kind: "records", input: "pcr"},
	{name: "count", cmd: "obicount", kind: "count", input: "fasta"},
	{name: "summary", cmd: "obisummary", kind: "summary", input: "fasta"},
	{name: "csv", cmd: "obicsv", args: []string{"-i", "-s", "--count"}, kind: "csv", input: "fasta"},
	{name: "csv-auto", cmd: "obicsv", args: []string{"--auto", "-i"}, kind: "csv", input: "fasta"},
	// several input FILES, each larger than the 1 MiB read chunk: records must come out in file order
	{name: "convert-multifile", cmd: "obiconvert", kind: "opaque", input: "multifile"},

	// ---- JSON output
	{name: "convert-json", cmd: "obiconvert", args: []string{"--json-output"}, kind: "json", input: "fasta"},
	{name: "convert-json-fq", cmd: "obiconvert", args: []string{"--json-output"}, kind: "json", input: "fastq", light: true},
	{name: "grep-json", cmd: "obigrep", args: []string{"-l", "60", "--json-output"}, kind: "json", input: "fasta", light: true},
	// ---- compressed output: short first chunk(s), then chunks larger than the 4096-byte buffer of the output file
	{name: "convert-fasta-Z", cmd: "obiconvert", args: []string{"-Z"}, kind: "records", input: "fasta-sb", gz: true},
	{name: "convert-fastq-Z", cmd: "obiconvert", args: []string{"-Z"}, kind: "records", input: "fastq-sb", gz: true},
	{name: "convert-json-Z", cmd: "obiconvert", args: []string{"-Z", "--json-output"}, kind: "json", input: "fasta-sb", gz: true},
	{name: "csv-Z", cmd: "obicsv", args: []string{"-Z", "-i", "-s", "--count"}, kind: "csv", input: "fasta-sb", gz: true},
	{name: "convert-files-Z", cmd: "obiconvert", args: []string{"-Z"}, kind: "records", input: "files-sb", gz: true},
	{name: "annotate-Z", cmd: "obiannotate", args: []string{"-Z", "--length"}, kind: "records", input: "fasta-sb", gz: true, light: true},
	// ---- two outputs: kept on stdout, discarded in a file
	{name: "grep-discard", cmd: "obigrep", args: []string{"-l", "60", "--save-discarded", "{dir}/disc.fasta"}, kind: "records", input: "fasta",
		extra: []c05Out{{"disc.fasta", "records"}}},
	{name: "grep-discard-Z", cmd: "obigrep", args: []string{"-Z", "-s", "^[acgt]{0,200}$", "--save-discarded", "{dir}/disc.fasta"}, kind: "records", input: "fasta-sb", gz: true, light: true,
		extra: []c05Out{{"disc.fasta", "records"}}},
	{name: "grep-inverse", cmd: "obigrep", args: []string{"-v", "-a", "tag=x[12]"}, kind: "records", input: "fasta", light: true},
	{name: "grep-pred", cmd: "obigrep", args: []string{"-p", "sequence.Len() % 3 == 0 || annotations.count > 4"}, kind: "records", input: "fasta", light: true},
	// ---- paired reads filtered together, two output files
	{name: "grep-paired", cmd: "obigrep", args: []string{"-l", "95", "--paired-mode", "and", "-o", "{dir}/gp.fastq"}, kind: "records", input: "pairs-grep",
		extra: []c05Out{{"gp_R1.fastq", "records"}, {"gp_R2.fastq", "records"}}},
	// ---- dispatching command: one file per value of an attribute
	{name: "distribute", cmd: "obidistribute", args: []string{"-p", "{dir}/out/o_%s.fasta", "-c", "tag"}, kind: "records", input: "fasta",
		extra: []c05Out{{"out/", "dispatch"}}},
	{name: "distribute-Z", cmd: "obidistribute", args: []string{"-Z", "-p", "{dir}/out/o_%s.fasta", "-c", "tag"}, kind: "records", input: "fasta-sb", gz: true, light: true,
		extra: []c05Out{{"out/", "dispatch"}}},
	// ---- obiannotate with several options at once
	{name: "annotate-multi", cmd: "obiannotate", args: []string{"--length", "-S", "half=sequence.Len()/2", "-R", "label=tag", "--delete-tag", "count", "--set-identifier", "sequence.Id() + \"_x\""}, kind: "records", input: "fasta"},
	{name: "annotate-keep", cmd: "obiannotate", args: []string{"-k", "count", "--pattern", "acgta", "--pattern-error", "1"}, kind: "records", input: "fasta", light: true},
	{name: "annotate-sel", cmd: "obiannotate", args: []string{"-l", "50", "-S", "long=true"}, kind: "records", input: "fasta", light: true},
	// ---- obimultiplex with the unassigned reads in a second file
	{name: "multiplex-unid", cmd: "obimultiplex", args: []string{"-e", "1", "-u", "{dir}/unid.fastq"}, kind: "records", input: "multiplex",
		extra: []c05Out{{"unid.fastq", "records"}}},
	// ---- aggregating commands
	{name: "summary-sample", cmd: "obisummary", kind: "summary", input: "fasta-sample"},
	{name: "summary-yaml", cmd: "obisummary", args: []string{"--yaml-output"}, kind: "opaque", input: "fasta-sample", light: true},
	{name: "count-fq", cmd: "obicount", kind: "count", input: "fastq", light: true},
	{name: "count-variants", cmd: "obicount", args: []string{"-v", "-r"}, kind: "opaque", input: "fasta", light: true},
	// ---- the output SET (not its order) is claimed
	{name: "uniq", cmd: "obiuniq", args: []string{"--in-memory"}, kind: "set", input: "uniq", light: true},
	// ---- group-by commands with the model of the command itself (C06 `uniqCRC`, C13 `cleanDataset`): the section of
	// the case line holds the INPUT records. obiuniq is compared as a multiset of (sequence, count, categories and the
	// other surviving attributes, merged maps), between configurations AND with the model.
	// many records per (sequence, category) class, 1 / 2 / 8 / 16 workers: the category stage of every worker
	{name: "uniq-mem-cat", cmd: "obiuniq", args: []string{"--in-memory", "-c", "sample", "-m", "sample"}, kind: "uniq", input: "uniq-cat", nrec: 2000, stress: 3000,
		cfgs: []c05Cfg{{cpu: 0, batch: 1000, gmp: 1}, {cpu: 2, batch: 100, gmp: 2}, {cpu: 8, batch: 50, gmp: 8}, {cpu: 16, batch: 10, gmp: 16}, {cpu: 8, batch: 1000, gmp: 8, in: "file"}, {cpu: 16, batch: 100, gmp: 16, aff: 2}}},
	{name: "uniq-mem-cat2", cmd: "obiuniq", args: []string{"--in-memory", "-c", "sample", "-c", "k", "-m", "sample", "-m", "k", "--no-singleton"}, kind: "uniq", input: "uniq-cat", nrec: 160, light: true, stress: 2000},
	{name: "uniq-disk-cat", cmd: "obiuniq", args: []string{"-c", "sample", "-m", "sample", "-m", "n"}, kind: "uniq", input: "uniq-cat", nrec: 160, light: true, stress: 1000},
	{name: "uniq-mem-ns", cmd: "obiuniq", args: []string{"--in-memory", "--no-singleton", "-m", "sample"}, kind: "uniq", input: "uniq-cat", nrec: 160, light: true, stress: 1000},
	// obiclean: per-sample graphs of a dereplicated data set; the records written, in output order, against C13
	{name: "clean", cmd: "obiclean", args: []string{"-r", "0.5"}, kind: "clean", input: "clean", nrec: 40, stress: 500},
	{name: "clean-head", cmd: "obiclean", args: []string{"-H"}, kind: "clean", input: "clean", nrec: 40, light: true, stress: 300},
	// obitag against a small reference data base with tied references: every query alone is the model of the run
	{name: "tag", cmd: "obitag", kind: "records", input: "tag", stress: 1500, emptyOut: "\n"},
	// obisummary of a cleaned data set: the obiclean_bad column is printed (every record carries obiclean_status)
	{name: "summary-cleaned", cmd: "obisummary", kind: "opaque", input: "fasta-cleaned", light: true},
	// ---- identity conversion of a large annotated file: the output must be the input, byte for byte, in every run
	{name: "convert-bigannot", cmd: "obiconvert", kind: "opaque", input: "bigannot"},
}

func c05Scenario_(name string) *c05Scenario {
	for i := range c05Scenarios {
		if c05Scenarios[i].name == name {
			return &c05Scenarios[i]
		}
	}
	return nil
}

func c05Rc(s []byte) []byte {
	m := map[byte]byte{'a': 't', 'c': 'g', 'g': 'c', 't': 'a'}
	out := make([]byte, len(s))
	for i, b := range s {
		out[len(s)-1-i] = m[b]
	}
	return out
}

func c05Dna(r *rand.Rand, n int) []byte {
	s := make([]byte, n)
	for i := range s {
		s[i] = "acgt"[r.Intn(4)]
	}
	return s
}

func c05Qual(r *rand.Rand, n int) []byte {
	q := make([]byte, n)
	for i := range q {
		q[i] = byte(33 + 2 + r.Intn(38))
	}
	return q
}

func c05Fold(sb *strings.Builder, s []byte) {
	for j := 0; j < len(s); j += 60 {
		e := j + 60
		if e > len(s) {
			e = len(s)
		}
		sb.Write(s[j:e])
		sb.WriteByte('\n')
	}
}

// c05SbLen : lengths of the "small then big" inputs: the first records are short (a formatted batch stays
// far below 4096 bytes), then come records whose text alone exceeds the buffer, then a mix
func c05SbLen(r *rand.Rand, i, nrec int) int {
	switch {
	case i < 2+nrec/8:
		return 10 + r.Intn(30)
	case i%3 != 2:
		return 4200 + r.Intn(1500)
	default:
		return 10 + r.Intn(200)
	}
}

// c05Records returns, per record, the text(s) of that record in the input file(s).
// For "pairs" each record has two texts (forward file, reverse file).
func c05Records(sc *c05Scenario, seed int64, nrec int) [][2]string {
	r := rand.New(rand.NewSource(seed*7919 + int64(len(sc.name))))
	switch sc.input {
	case "uniq-cat":
		return c05UniqCatRecords(r, nrec)
	case "clean":
		return c05CleanRecords(r, nrec)
	case "tag":
		return c05TagRecords(r, nrec)
	}
	if t, ok := c05GlueTexts(sc.input, r, seed, nrec); ok {
		return t
	}
	recs := make([][2]string, nrec)
	for i := 0; i < nrec; i++ {
		id := fmt.Sprintf("s%03d", i)
		if sc.input == "multifile" || sc.input == "bigannot" {
			id = fmt.Sprintf("s%06d", i)
		}
		switch sc.input {
		case "multifile":
			recs[i][0] = fmt.Sprintf(">%s {\"count\":%d}\n%s\n", id, 1+r.Intn(6), c05Dna(r, 140+r.Intn(20)))
		case "bigannot":
			// already in the canonical output form (keys sorted, 60 columns): obiconvert must give it back unchanged;
			// the title lines differ in length and content from record to record
			var sb strings.Builder
			fmt.Fprintf(&sb, ">%s {\"count\":%d,\"label\":\"%s\",\"rank\":%d,\"tag\":\"x%d\"}\n", id, 1+i%977, strings.Repeat("k", 1+i%23), i, i%7)
			c05Fold(&sb, c05Dna(r, 30+r.Intn(50)))
			recs[i][0] = sb.String()
		case "fasta", "fasta-sb", "files-sb":
			n := 10 + r.Intn(120)
			if sc.input != "fasta" {
				n = c05SbLen(r, i, nrec)
			}
			s := c05Dna(r, n)
			if r.Intn(3) == 0 {
				copy(s[n/2:], "acgta")
			}
			var sb strings.Builder
			fmt.Fprintf(&sb, ">%s {\"count\":%d,\"tag\":\"x%d\"}\n", id, 1+r.Intn(6), r.Intn(4))
			c05Fold(&sb, s)
			recs[i][0] = sb.String()
		case "fasta-sample":
			n := 10 + r.Intn(120)
			var sb strings.Builder
			switch r.Intn(4) {
			case 0: // a dereplicated record: map-valued and vector-valued attributes
				fmt.Fprintf(&sb, ">%s {\"count\":%d,\"merged_sample\":{\"sm%d\":%d,\"sm%d\":%d},\"path\":[1,2,%d]}\n", id, 2+r.Intn(6), r.Intn(3), 1+r.Intn(3), 3+r.Intn(2), 1+r.Intn(2), r.Intn(9))
			case 1:
				fmt.Fprintf(&sb, ">%s {\"sample\":\"sm%d\"}\n", id, r.Intn(5))
			case 2:
				fmt.Fprintf(&sb, ">%s\n", id)
			default:
				fmt.Fprintf(&sb, ">%s {\"count\":%d,\"sample\":\"sm%d\",\"k%d\":\"v\"}\n", id, 1+r.Intn(4), r.Intn(5), r.Intn(6))
			}
			c05Fold(&sb, c05Dna(r, n))
			recs[i][0] = sb.String()
		case "fasta-cleaned":
			var sb strings.Builder
			st := []string{"h", "i", "s"}
			fmt.Fprintf(&sb, ">%s {\"merged_sample\":{\"a\":%d,\"b\":%d},\"obiclean_status\":{\"a\":\"%s\",\"b\":\"%s\"},\"obiclean_weight\":{\"a\":%d,\"b\":1}}\n", id, 1+r.Intn(3), 1+r.Intn(5), st[r.Intn(3)], st[r.Intn(3)], 1+r.Intn(9))
			c05Fold(&sb, c05Dna(r, 10+r.Intn(80)))
			recs[i][0] = sb.String()
		case "uniq":
			// few distinct sequences, many copies
			rs := rand.New(rand.NewSource(seed + int64(r.Intn(1+nrec/4))))
			var sb strings.Builder
			fmt.Fprintf(&sb, ">%s {\"count\":%d}\n", id, 1+r.Intn(3))
			c05Fold(&sb, c05Dna(rs, 30+rs.Intn(40)))
			recs[i][0] = sb.String()
		case "fastq", "fastq-sb":
			n := 10 + r.Intn(120)
			if sc.input == "fastq-sb" {
				n = c05SbLen(r, i, nrec)
			}
			recs[i][0] = fmt.Sprintf("@%s {\"count\":%d}\n%s\n+\n%s\n", id, 1+r.Intn(6), c05Dna(r, n), c05Qual(r, n))
		case "pairs", "pairs-grep":
			frag := c05Dna(r, 120+r.Intn(60))
			lf, lr := 80+r.Intn(30), 80+r.Intn(30)
			if lf > len(frag) {
				lf = len(frag)
			}
			if lr > len(frag) {
				lr = len(frag)
			}
			f := frag[:lf]
			rv := c05Rc(frag[len(frag)-lr:])
			recs[i][0] = fmt.Sprintf("@%s\n%s\n+\n%s\n", id, f, c05Qual(r, lf))
			recs[i][1] = fmt.Sprintf("@%s\n%s\n+\n%s\n", id, rv, c05Qual(r, lr))
		case "multiplex":
			tags := []string{"aacgt", "ccatg", "ggtca", "ttgac"}
			tf, tr := tags[r.Intn(4)], tags[r.Intn(4)]
			bar := c05Dna(r, 30+r.Intn(40))
			read := append([]byte{}, c05Dna(r, r.Intn(4))...)
			read = append(read, tf...)
			read = append(read, "ggtagcgtatcgtaca"...)
			read = append(read, bar...)
			read = append(read, c05Rc([]byte("ttgcatcgatcggatc"))...)
			read = append(read, c05Rc([]byte(tr))...)
			read = append(read, c05Dna(r, r.Intn(4))...)
			if r.Intn(2) == 0 {
				read = c05Rc(read)
			}
			if r.Intn(5) == 0 { // a read without priming site
				read = c05Dna(r, 60)
			}
			recs[i][0] = fmt.Sprintf("@%s\n%s\n+\n%s\n", id, read, c05Qual(r, len(read)))
		case "pcr":
			t := append([]byte{}, c05Dna(r, 20+r.Intn(40))...)
			nsites := r.Intn(3)
			for k := 0; k < nsites; k++ {
				t = append(t, "ggtagcgtatcgtaca"...)
				t = append(t, c05Dna(r, 20+r.Intn(60))...)
				t = append(t, c05Rc([]byte("ttgcatcgatcggatc"))...)
				t = append(t, c05Dna(r, 5+r.Intn(30))...)
			}
			if r.Intn(2) == 0 {
				t = c05Rc(t)
			}
			recs[i][0] = fmt.Sprintf(">%s\n%s\n", id, t)
		}
	}
	return recs
}

const c05Sheet = `experiment,sample,sample_tag,forward_primer,reverse_primer
exp,s1,aacgt:aacgt,ggtagcgtatcgtaca,ttgcatcgatcggatc
exp,s2,ccatg:ccatg,ggtagcgtatcgtaca,ttgcatcgatcggatc
exp,s3,ggtca:ttgac,ggtagcgtatcgtaca,ttgcatcgatcggatc
exp,s4,ttgac:aacgt,ggtagcgtatcgtaca,ttgcatcgatcggatc
`

// ---------------------------------------------------------------------------------------------------------
// binaries

var (
	c05BinMu  sync.Mutex
	c05Built  = map[bool]string{} // race? -> directory, "" = build failed
	c05BErr   = map[bool]string{}
	c05Flags  = map[string]map[string]bool{}
	c05Single sync.Map // key -> [][]string per-record outputs (one []string per stream)
)

func c05Commands() []string {
	seen := map[string]bool{}
	var l []string
	for _, sc := range c05Scenarios {
		if !seen[sc.cmd] {
			seen[sc.cmd] = true
			l = append(l, sc.cmd)
		}
	}
	sort.Strings(l)
	return l
}

// c05Build builds every command of the scenario list in ONE `go build` (shared package loading and cache), with
// -tags verif, into <bin>/cmdv/ (or <bin>/cmdr/ with -race). A failed build is retried once (transient failures of
// the tool chain on a loaded machine). Several harness processes may build at the same time: every binary is
// built under a private name and renamed into place.
func c05Build(race bool) (string, error) {
	c05BinMu.Lock()
	defer c05BinMu.Unlock()
	if d, ok := c05Built[race]; ok {
		if d == "" {
			return "", fmt.Errorf("%s", c05BErr[race])
		}
		return d, nil
	}
	repo := os.Getenv("VERIF_REPO")
	if repo == "" {
		repo = "/repo"
	}
	dir := filepath.Join(binDir(), "cmdv")
	if race {
		dir = filepath.Join(binDir(), "cmdr")
	}
	tmp := fmt.Sprintf("%s.%d", dir, os.Getpid())
	os.MkdirAll(dir, 0o755)
	os.MkdirAll(tmp, 0o755)
	defer os.RemoveAll(tmp)
	args := []string{"build", "-tags", "verif"}
	if race {
		args = append(args, "-race")
	}
	args = append(args, "-o", tmp+"/")
	for _, c := range c05Commands() {
		args = append(args, "./cmd/obitools/"+c)
	}
	env := []string{}
	for _, e := range os.Environ() {
		if strings.HasPrefix(e, "GOFLAGS=") || strings.HasPrefix(e, "GOWORK=") {
			continue
		}
		env = append(env, e)
	}
	env = append(env, "GOPROXY=off", "GOSUMDB=off", "GOTOOLCHAIN=local", "CGO_CFLAGS=-w -O2")
	var lastErr string
	for attempt := 0; attempt < 2; attempt++ {
		cmd := exec.Command("go", args...)
		cmd.Dir = repo
		cmd.Env = env
		b, err := cmd.CombinedOutput()
		if err == nil {
			lastErr = ""
			break
		}
		lastErr = fmt.Sprintf("go build (race=%v): %v: %s", race, err, b[max(0, len(b)-600):])
		stat("build-retry")
		time.Sleep(500 * time.Millisecond)
	}
	if lastErr != "" {
		c05Built[race], c05BErr[race] = "", lastErr
		return "", fmt.Errorf("%s", lastErr)
	}
	for _, c := range c05Commands() {
		if err := os.Rename(filepath.Join(tmp, c), filepath.Join(dir, c)); err != nil {
			c05Built[race], c05BErr[race] = "", err.Error()
			return "", err
		}
		if !race {
			// which of the parallelism options does the command know?
			help, _ := exec.Command(filepath.Join(dir, c), "--help").CombinedOutput()
			c05Flags[c] = map[string]bool{
				"--batch-size":     bytes.Contains(help, []byte("--batch-size")),
				"--no-progressbar": bytes.Contains(help, []byte("--no-progressbar")),
				"--max-cpu":        bytes.Contains(help, []byte("--max-cpu")),
				"--force-one-cpu":  bytes.Contains(help, []byte("--force-one-cpu")),
			}
		}
	}
	c05Built[race] = dir
	return dir, nil
}

// ---------------------------------------------------------------------------------------------------------
// one run

// c05Cfg is a parallelism configuration
type c05Cfg struct {
	cpu, batch, gmp int
	in              string // "stdin", "file", "gz"
	aff             int    // number of cores the process is pinned on, 0 = no pinning
	race            bool
	// how cpu / batch are given to the command: "" = --max-cpu / --batch-size (cpu=0: --force-one-cpu);
	// "var" = the environment variables OBIMAXCPU / OBIBATCHSIZE and no option; "both" = options, with contradicting
	// values in the environment (OBIMAXCPU=1 OBIBATCHSIZE=1000: the options win); "f1" = --force-one-cpu together with
	// --max-cpu; "none" = neither option nor variable (all the cores, batches of the command's default size), the
	// GOMAXPROCS variable still being set
	env string
}

// c05Res is what a run gave
type c05Res struct {
	status  string   // ok, exit-nonzero, hang, start-error, build-error, killed
	streams [][]byte // stdout, then the extra outputs in declared order (a dispatch stream is canonicalised: see c05DispatchCanon)
	detail  string   // exit code / signal and the end of stderr: only ever printed in the text of a failure
	races   []string // innermost frames of the accesses reported by the race detector
	poison  bool     // an output contains the poison value of a recycled buffer
}

// c05ProcSem bounds the number of command processes alive at the same time
var c05ProcSem = make(chan struct{}, 14)

var c05AffNext atomic.Int64

var c05HasTaskset = func() bool { _, err := exec.LookPath("taskset"); return err == nil }()

func gunzipAll(b []byte) ([]byte, error) {
	if len(b) == 0 {
		return b, nil
	}
	zr, err := gzip.NewReader(bytes.NewReader(b)) // multi-member streams are read to the end
	if err != nil {
		return nil, err
	}
	return io.ReadAll(zr)
}

// c05DispatchCanon : the files of a directory as `name:hex,name:hex` sorted by (length of name, name)
func c05DispatchCanon(files map[string][]byte) []byte {
	names := make([]string, 0, len(files))
	for n := range files {
		names = append(names, n)
	}
	sort.Slice(names, func(i, j int) bool {
		if len(names[i]) != len(names[j]) {
			return len(names[i]) < len(names[j])
		}
		return names[i] < names[j]
	})
	parts := make([]string, len(names))
	for i, n := range names {
		parts[i] = hx([]byte(n)) + ":" + hx(files[n])
	}
	if len(parts) == 0 {
		return []byte("-")
	}
	return []byte(strings.Join(parts, ","))
}

// c05RunOnce executes the scenario once; infra tells that the failure is not the program's doing (could not be
// started, killed by a signal it did not raise itself, our own timeout)
func c05RunOnce(sc *c05Scenario, recs [][2]string, cfg c05Cfg) (res c05Res, infra bool) {
	bdir, err := c05Build(cfg.race)
	if err != nil {
		return c05Res{status: "build-error", detail: err.Error()}, false
	}
	bin := filepath.Join(bdir, sc.cmd)
	dir, _ := os.MkdirTemp("", "c05")
	defer os.RemoveAll(dir)
	os.Mkdir(filepath.Join(dir, "out"), 0o755)
	var a, b strings.Builder
	for _, r := range recs {
		a.WriteString(r[0])
		b.WriteString(r[1])
	}
	args := []string{}
	for _, x := range sc.args {
		args = append(args, strings.ReplaceAll(x, "{dir}", dir))
	}
	c05BinMu.Lock()
	flags := c05Flags[sc.cmd]
	c05BinMu.Unlock()
	var envx []string
	switch cfg.env {
	case "var":
		envx = append(envx, "OBIMAXCPU="+strconv.Itoa(max(cfg.cpu, 1)), "OBIBATCHSIZE="+strconv.Itoa(cfg.batch))
	case "none":
	default:
		if cfg.env == "both" {
			envx = append(envx, "OBIMAXCPU=1", "OBIBATCHSIZE=1000")
		}
		if (cfg.cpu == 0 || cfg.env == "f1") && flags["--force-one-cpu"] {
			args = append(args, "--force-one-cpu")
		}
		if (cfg.cpu != 0 || !flags["--force-one-cpu"]) && flags["--max-cpu"] {
			args = append(args, "--max-cpu", strconv.Itoa(max(cfg.cpu, 1)))
		}
		if flags["--batch-size"] {
			args = append(args, "--batch-size", strconv.Itoa(cfg.batch))
		}
	}
	if flags["--no-progressbar"] {
		args = append(args, "--no-progressbar")
	}
	put := func(name, text string) string {
		p := filepath.Join(dir, name)
		if cfg.in == "gz" {
			p += ".gz"
			var zb bytes.Buffer
			zw := gzip.NewWriter(&zb)
			zw.Write([]byte(text))
			zw.Close()
			os.WriteFile(p, zb.Bytes(), 0o644)
		} else {
			os.WriteFile(p, []byte(text), 0o644)
		}
		return p
	}
	stdin := ""
	useStdin := false
	ext := ".fasta"
	if strings.HasPrefix(a.String(), "@") {
		ext = ".fastq"
	}
	switch sc.input {
	case "pairs":
		args = append(args, "-F", put("f.fastq", a.String()), "-R", put("r.fastq", b.String()))
	case "pairs-grep":
		args = append(args, "--paired-with", put("r.fastq", b.String()), put("f.fastq", a.String()))
	case "multifile":
		// the records are split between two files given in order on the command line
		var f1, f2 strings.Builder
		for i, r := range recs {
			if i < len(recs)/2 {
				f1.WriteString(r[0])
			} else {
				f2.WriteString(r[0])
			}
		}
		args = append(args, put("a.fasta", f1.String()), put("b.fasta", f2.String()))
	case "files-sb":
		// three files on the command line: a small one, a big one, a small one (a file is cut into 1 MiB chunks
		// whatever --batch-size says: here one chunk per file)
		var f [3]strings.Builder
		for i, r := range recs {
			k := 1
			if i < 2+len(recs)/8 {
				k = 0
			} else if i >= len(recs)-2 {
				k = 2
			}
			f[k].WriteString(r[0])
		}
		args = append(args, put("a.fasta", f[0].String()), put("b.fasta", f[1].String()), put("c.fasta", f[2].String()))
	case "bigannot":
		args = append(args, put("big.fasta", a.String()))
	case "noorder-files":
		// four files on the command line (glue pass: --no-order reads them concurrently)
		var f [4]strings.Builder
		for i, r := range recs {
			f[min(3, i*4/max(1, len(recs)))].WriteString(r[0])
		}
		for k := range f {
			args = append(args, put(fmt.Sprintf("f%d.fasta", k), f[k].String()))
		}
	default:
		if sc.input == "multiplex" {
			os.WriteFile(filepath.Join(dir, "sheet.csv"), []byte(c05Sheet), 0o644)
			args = append(args, "-t", filepath.Join(dir, "sheet.csv"))
		}
		if sc.input == "tag" {
			taxdir, refs := c05TagFiles(dir)
			args = append(args, "-t", taxdir, "-R", refs)
		}
		if cfg.in == "file" || cfg.in == "gz" {
			args = append(args, put("in"+ext, a.String()))
		} else {
			// the sequences come on stdin: it is the only reader that cuts its input into batches of
			// --batch-size records (files are cut into 1 MiB chunks whatever the option says), so this is
			// what makes the batch partition and the worker parallelism vary with the configuration
			stdin, useStdin = a.String(), true
		}
	}
	argv := append([]string{bin}, args...)
	if cfg.aff > 0 && c05HasTaskset {
		n := int(c05AffNext.Add(int64(cfg.aff)))
		ncpu := max(1, numCPU())
		cpus := make([]string, cfg.aff)
		for i := range cpus {
			cpus[i] = strconv.Itoa((n + i) % ncpu)
		}
		argv = append([]string{"taskset", "-c", strings.Join(cpus, ",")}, argv...)
	}
	c05ProcSem <- struct{}{}
	defer func() { <-c05ProcSem }()
	cmd := exec.Command(argv[0], argv[1:]...)
	if useStdin {
		cmd.Stdin = strings.NewReader(stdin)
	}
	for _, e := range os.Environ() {
		if !strings.HasPrefix(e, "OBIMAXCPU=") && !strings.HasPrefix(e, "OBIBATCHSIZE=") && !strings.HasPrefix(e, "GOMAXPROCS=") {
			cmd.Env = append(cmd.Env, e)
		}
	}
	cmd.Env = append(cmd.Env, "GOMAXPROCS="+strconv.Itoa(cfg.gmp))
	cmd.Env = append(cmd.Env, envx...)
	if cfg.race {
		cmd.Env = append(cmd.Env, "GORACE=halt_on_error=0 exitcode=0")
	}
	var stdout, stderr bytes.Buffer
	cmd.Stdout = &stdout
	cmd.Stderr = &stderr
	if err := cmd.Start(); err != nil {
		return c05Res{status: "start-error", detail: err.Error()}, true
	}
	done := make(chan error, 1)
	go func() { done <- cmd.Wait() }()
	limit := 120 * time.Second
	if cfg.race {
		limit = 400 * time.Second
	}
	tail := func() string {
		e := stderr.Bytes()
		// the interesting part of stderr is its end; logrus info lines are dropped first
		var keep []string
		for _, l := range strings.Split(string(e), "\n") {
			if l != "" && !strings.Contains(l, "level=info") {
				keep = append(keep, l)
			}
		}
		s := strings.Join(keep, " / ")
		// a Go panic / runtime failure: the message and the first frames; otherwise the end of stderr
		for _, mark := range []string{"panic:", "fatal error:", "WARNING: DATA RACE"} {
			if k := strings.Index(s, mark); k >= 0 {
				s = s[k:]
				if len(s) > 600 {
					s = s[:600]
				}
				return s
			}
		}
		if len(s) > 400 {
			s = s[len(s)-400:]
		}
		return s
	}
	select {
	case err := <-done:
		if err != nil {
			res.status = "exit-nonzero"
			res.detail = err.Error()
			if ee, ok := err.(*exec.ExitError); ok {
				if ws, ok := ee.Sys().(syscall.WaitStatus); ok {
					if ws.Signaled() {
						res.status = "killed"
						res.detail = "signal " + ws.Signal().String()
						// SIGKILL / SIGTERM are never raised by the program itself (OOM killer, operator)
						infra = ws.Signal() == syscall.SIGKILL || ws.Signal() == syscall.SIGTERM
					} else {
						res.detail = fmt.Sprintf("exit status %d", ws.ExitStatus())
					}
				}
			}
			res.detail += "; stderr: " + tail()
		} else {
			res.status = "ok"
		}
	case <-time.After(limit):
		cmd.Process.Kill()
		<-done
		res.status = "hang"
		res.detail = fmt.Sprintf("no end after %v (killed by the harness); stderr: %s", limit, tail())
		infra = true
	}
	if cfg.race {
		res.races = c05RaceSites(stderr.String())
	}
	unz := func(b []byte) []byte {
		if !sc.gz {
			if bytes.Contains(b, []byte{0xDB, 0xDB}) {
				res.poison = true
			}
			return b
		}
		u, err := gunzipAll(b)
		if bytes.Contains(u, []byte{0xDB, 0xDB}) {
			res.poison = true
		}
		if err != nil {
			if res.status == "ok" {
				res.status = "bad-gzip"
				res.detail = err.Error()
			}
			return b
		}
		return u
	}
	so := unz(stdout.Bytes())
	if sc.trail != "" {
		if bytes.HasSuffix(so, []byte(sc.trail)) {
			so = so[:len(so)-len(sc.trail)]
		} else if res.status == "ok" {
			res.status = "no-trailer"
			res.detail = fmt.Sprintf("stdout does not end with %q", sc.trail)
		}
	}
	if sc.emptyOut != "" && len(recs) == 0 {
		if string(so) == sc.emptyOut {
			so = nil
		} else if res.status == "ok" {
			res.status = "bad-empty-output"
			res.detail = fmt.Sprintf("stdout is %q for an empty input, %q expected", so, sc.emptyOut)
		}
	}
	res.streams = append(res.streams, so)
	for _, o := range sc.extra {
		if o.kind == "dispatch" {
			files := map[string][]byte{}
			ents, _ := os.ReadDir(filepath.Join(dir, o.file))
			for _, e := range ents {
				c, _ := os.ReadFile(filepath.Join(dir, o.file, e.Name()))
				files[e.Name()] = unz(c)
			}
			res.streams = append(res.streams, c05DispatchCanon(files))
			continue
		}
		c, err := os.ReadFile(filepath.Join(dir, o.file))
		if err != nil && sc.gz {
			c, err = os.ReadFile(filepath.Join(dir, o.file+".gz"))
		}
		if err != nil {
			c = nil // a stream never opened is an empty stream
		}
		res.streams = append(res.streams, unz(c))
	}
	return res, infra
}

func numCPU() int {
	if b, err := os.ReadFile("/proc/cpuinfo"); err == nil {
		if n := bytes.Count(b, []byte("\nprocessor")) + 1; n > 1 {
			return n
		}
	}
	return 1
}

// c05Run : c05RunOnce, a failure that is not the program's doing being retried (at most twice); an exit status
// produced by the program itself (log.Fatal, panic, runtime crash) is never retried
func c05Run(sc *c05Scenario, recs [][2]string, cfg c05Cfg) c05Res {
	var res c05Res
	for attempt := 0; attempt < 3; attempt++ {
		var infra bool
		res, infra = c05RunOnce(sc, recs, cfg)
		if res.status == "ok" || !infra {
			return res
		}
		stat("infra-retry")
		time.Sleep(time.Duration(200*(attempt+1)) * time.Millisecond)
	}
	res.detail += " (3 attempts)"
	return res
}

// c05RaceSites : for every report of the race detector, the functions (innermost frame) of the two racing
// accesses, as `funcA<->funcB @ fileA:line<->fileB:line`
func c05RaceSites(stderr string) []string {
	var sites []string
	for _, block := range strings.Split(stderr, "==================") {
		if !strings.Contains(block, "WARNING: DATA RACE") {
			continue
		}
		inAccess := false
		fn := ""
		var funcs, locs []string
		for _, l := range strings.Split(block, "\n") {
			t := strings.TrimSpace(l)
			switch {
			case strings.HasPrefix(t, "Read at"), strings.HasPrefix(t, "Write at"), strings.HasPrefix(t, "Previous read at"),
				strings.HasPrefix(t, "Previous write at"), strings.HasPrefix(t, "Atomic"), strings.HasPrefix(t, "Previous atomic"):
				inAccess, fn = true, ""
			case strings.HasPrefix(t, "Goroutine "):
				inAccess = false
			case inAccess && strings.Contains(t, ".go:"):
				inAccess = false
				loc := t
				if k := strings.LastIndex(loc, "/pkg/"); k >= 0 {
					loc = loc[k+1:]
				} else if k := strings.LastIndex(loc, "/"); k >= 0 {
					loc = loc[k+1:]
				}
				if k := strings.IndexByte(loc, ' '); k > 0 {
					loc = loc[:k]
				}
				locs = append(locs, loc)
				funcs = append(funcs, fn)
			case inAccess && fn == "" && t != "":
				// the innermost frame: `module/pkg/obiiter.UnregisterPipe()`
				fn = t
				if k := strings.LastIndex(fn, "/"); k >= 0 {
					fn = fn[k+1:]
				}
				if k := strings.IndexByte(fn, '('); k > 0 {
					fn = fn[:k]
				}
			}
		}
		if len(funcs) == 2 && funcs[1] < funcs[0] {
			funcs[0], funcs[1] = funcs[1], funcs[0]
			locs[0], locs[1] = locs[1], locs[0]
		}
		sites = append(sites, strings.Join(funcs, "<->")+" @ "+strings.Join(locs, "<->"))
	}
	return sites
}

// c05BenignRace : races of the unchanged code base that were reviewed and cannot change a byte of the output
// (they are counted, not reported; each one is proposed to the maintainers as a clean-up). Anything else the
// detector reports is a failure of the property.
func c05BenignRace(site string) string {
	fs := strings.Split(strings.SplitN(site, " @ ", 2)[0], "<->")
	if len(fs) != 2 {
		return ""
	}
	// the race detector sometimes cannot restore the stack of the older access ("[failed to restore the stack]"): that side of
	// the report then carries no function name; such a side is matched by whatever the other side is matched by
	unknown := func(f string) bool { return f == "" || strings.ContainsAny(f, " :[") }
	all := func(pred func(string) bool) bool {
		if unknown(fs[0]) && unknown(fs[1]) {
			return false
		}
		return (unknown(fs[0]) || pred(fs[0])) && (unknown(fs[1]) || pred(fs[1]))
	}
	switch {
	case all(func(f string) bool { return f == "obiiter.RegisterAPipe" || f == "obiiter.UnregisterPipe" }):
		// globalLockerCounter++ / --: a counter that is only printed by log.Debugln
		return "pipe-registry-debug-counter"
	case all(func(f string) bool { return f == "obiformats.WriteSequencesToFile" || f == "obiformats.MakeOptions" }):
		// `options = append(options, OptionCloseFile())` on the variadic slice shared by the writers obidistribute
		// starts: every goroutine stores the same option in the same spare slot
		return "shared-variadic-options-slice"
	case all(func(f string) bool { return strings.HasPrefix(f, "obichunk.IUniqueSequence.func") }):
		// `input, err = ISequenceSubChunk(…)` assigns the captured err of the enclosing function from every worker
		return "obiuniq-captured-err"
	}
	return ""
}

// c05Singles runs the scenario on every record alone (in parallel processes) and returns, per stream, the outputs.
func c05Singles(sc *c05Scenario, seed int64, nrec int) [][]string {
	key := fmt.Sprintf("%s/%d/%d", sc.name, seed, nrec)
	if v, ok := c05Single.Load(key); ok {
		return v.([][]string)
	}
	recs := c05Records(sc, seed, nrec)
	ns := 1 + len(sc.extra)
	out := make([][]string, ns)
	for j := range out {
		out[j] = make([]string, nrec)
	}
	var wg sync.WaitGroup
	for i := range recs {
		wg.Add(1)
		go func(i int) {
			defer wg.Done()
			r := c05Run(sc, recs[i:i+1], c05Cfg{cpu: 1, batch: 1, gmp: 1, in: "stdin"})
			for j := 0; j < ns; j++ {
				if r.status != "ok" || j >= len(r.streams) {
					out[j][i] = "!" + r.status
				} else {
					out[j][i] = string(r.streams[j])
				}
			}
		}(i)
	}
	wg.Wait()
	c05Single.Store(key, out)
	return out
}

// ---------------------------------------------------------------------------------------------------------
// generation

var c05Configs = []c05Cfg{
	{cpu: 1, batch: 1, gmp: 1}, {cpu: 1, batch: 1000, gmp: 4}, {cpu: 2, batch: 3, gmp: 4}, {cpu: 3, batch: 7, gmp: 2},
	{cpu: 8, batch: 2, gmp: 8}, {cpu: 32, batch: 5, gmp: 16}, {cpu: 4, batch: 1, gmp: 1},
	{cpu: 0, batch: 2, gmp: 1}, {cpu: 4, batch: 1000, gmp: 4, in: "file"}, {cpu: 2, batch: 2, gmp: 2, in: "gz"},
	{cpu: 16, batch: 1, gmp: 16, aff: 1}, {cpu: 2, batch: 4, gmp: 2, aff: 2},
	// the environment as a configuration dimension
	{cpu: 8, batch: 3, gmp: 2, env: "var"}, {cpu: 1, batch: 5, gmp: 32, env: "var"}, {cpu: 4, batch: 2, gmp: 1, env: "both"},
	{cpu: 8, batch: 2, gmp: 8, env: "f1"}, {cpu: 16, batch: 1000, gmp: 3, env: "none"},
}

var c05LightConfigs = []c05Cfg{
	{cpu: 1, batch: 1000, gmp: 4}, {cpu: 2, batch: 3, gmp: 4}, {cpu: 8, batch: 1, gmp: 8}, {cpu: 0, batch: 2, gmp: 1},
	{cpu: 4, batch: 1000, gmp: 4, in: "file"}, {cpu: 16, batch: 2, gmp: 16, aff: 1},
	{cpu: 8, batch: 3, gmp: 2, env: "var"}, {cpu: 4, batch: 2, gmp: 1, env: "both"},
}

func c05Line(op string, sc *c05Scenario, seed int64, nrec int, cfg c05Cfg, rep int) string {
	l := fmt.Sprintf("%s %s seed=%d nrec=%d cpu=%d batch=%d gmp=%d rep=%d", op, sc.name, seed, nrec, cfg.cpu, cfg.batch, cfg.gmp, rep)
	if cfg.in != "" && cfg.in != "stdin" {
		l += " in=" + cfg.in
	}
	if cfg.aff > 0 {
		l += " aff=" + strconv.Itoa(cfg.aff)
	}
	if cfg.env != "" {
		l += " env=" + cfg.env
	}
	return l
}

// c05FirstSeed : of the parallel thorough processes (seeds s*1000+i) only the first runs the race tier
func c05FirstSeed() bool {
	for i, a := range os.Args {
		if a == "-seed" && i+1 < len(os.Args) {
			s, err := strconv.Atoi(os.Args[i+1])
			return err == nil && s%1000 == 0
		}
	}
	return false
}

func (c05) Gen(rng *rand.Rand, tier string, emit func(string)) {
	seeds := 1
	nrec := 24
	if tier == "thorough" {
		seeds = 3
		nrec = 60
	}
	var lines []string
	add := func(l string) { lines = append(lines, l) }
	// corpus: the input on which obiclean's output ORDER changed from run to run before `SortBatches().Load()`
	// (notes/patches/C05-obiclean-load-order): batches of 3 records parsed by several workers, compared with each
	// other and, record by record in output order, with the C13 model
	if sc := c05Scenario_("clean-head"); sc != nil {
		for rep, cfg := range []c05Cfg{{cpu: 2, batch: 3, gmp: 4}, {cpu: 8, batch: 3, gmp: 8}, {cpu: 0, batch: 3, gmp: 1}, {cpu: 8, batch: 3, gmp: 8}} {
			add(c05Line("run", sc, 241108085, 40, cfg, rep))
		}
	}
	for i := range c05Scenarios {
		sc := &c05Scenarios[i]
		switch sc.input {
		case "multifile":
			ms := rng.Int63n(1 << 30)
			for k, cfg := range []c05Cfg{{cpu: 1, batch: 1000, gmp: 1}, {cpu: 16, batch: 1000, gmp: 16}, {cpu: 8, batch: 1000, gmp: 4}, {cpu: 16, batch: 1000, gmp: 16}} {
				add(c05Line("run", sc, ms, 16000, cfg, k))
			}
			continue
		case "bigannot":
			// 2 formatting workers on one core, a large annotated file: a title line that is a view of a buffer
			// shared between the formatting goroutines is overwritten before it is copied in one run out of a few
			ms := rng.Int63n(1 << 30)
			n := 40000
			cfgs := []c05Cfg{{cpu: 2, batch: 1000, gmp: 2, aff: 1}, {cpu: 8, batch: 1000, gmp: 8, aff: 1}, {cpu: 16, batch: 1000, gmp: 16}}
			if tier == "thorough" {
				n = 300000
				cfgs = []c05Cfg{{cpu: 2, batch: 1000, gmp: 2, aff: 1}, {cpu: 2, batch: 1000, gmp: 2}, {cpu: 8, batch: 1000, gmp: 8, aff: 1}, {cpu: 8, batch: 1000, gmp: 8, aff: 2},
					{cpu: 16, batch: 1000, gmp: 16}, {cpu: 2, batch: 1000, gmp: 2, aff: 1}}
			}
			for k, cfg := range cfgs {
				add(c05Line("run", sc, ms, n, cfg, k))
			}
			continue
		}
		cfgs := c05Configs
		if sc.light {
			cfgs = c05LightConfigs
		}
		if sc.cfgs != nil {
			cfgs = sc.cfgs
		}
		for s := 0; s < seeds; s++ {
			seed := rng.Int63n(1 << 30)
			n := nrec
			if sc.nrec > 0 {
				n = sc.nrec
			}
			if s == 1 {
				n = 1 + rng.Intn(5)
			}
			for _, cfg := range cfgs {
				reps := 1
				if cfg.cpu > 2 && !sc.light && cfg.in == "" && cfg.env == "" {
					reps = 2
				}
				for rep := 0; rep < reps; rep++ {
					add(c05Line("run", sc, seed, n, cfg, rep))
				}
			}
		}
		// empty input
		add(c05Line("run", sc, 1, 0, c05Cfg{cpu: 4, batch: 3, gmp: 4}, 0))
		// several output streams: tiny inputs, repeated (the program must not end before the writers of its
		// secondary outputs have finished: a race that only a short run loses)
		if len(sc.extra) > 0 {
			tseed := rng.Int63n(1 << 30)
			for _, n := range []int{1, 2} {
				for rep := 0; rep < 5; rep++ {
					add(c05Line("run", sc, tseed, n, c05Cfg{cpu: 2, batch: 1, gmp: 2}, rep))
				}
				add(c05Line("run", sc, tseed, n, c05Cfg{cpu: 16, batch: 1, gmp: 16, aff: 1}, 0))
			}
		}
		// stress: thousands of one-record batches in flight between 16 workers, against the sequential run
		// (compared with each other only: no per-record model data for that many records)
		sseed := rng.Int63n(1 << 30)
		sn := 4000
		if strings.HasSuffix(sc.input, "-sb") {
			sn = 600 // records of several kilobytes
		}
		if sc.stress > 0 {
			sn = sc.stress
		}
		if sc.input == "tag" {
			// the candidate lists of obitag are ordered by an unstable sort (ties on the shared 4-mer counts, tied
			// references): the same input 30 times, several worker counts
			tseed := rng.Int63n(1 << 30)
			for rep := 0; rep < 10; rep++ {
				for _, w := range []int{2, 8, 16} {
					add(c05Line("run", sc, tseed, 40, c05Cfg{cpu: w, batch: 1 + rep%3, gmp: w}, rep))
				}
			}
		}
		if sc.light && tier != "thorough" {
			sn /= 4
		}
		add(c05Line("run", sc, sseed, sn, c05Cfg{cpu: 1, batch: sn, gmp: 1}, 0))
		add(c05Line("run", sc, sseed, sn, c05Cfg{cpu: 16, batch: 1, gmp: 16}, 0))
		add(c05Line("run", sc, sseed, sn, c05Cfg{cpu: 8, batch: 3, gmp: 8}, 1))
		if !sc.light {
			add(c05Line("run", sc, sseed, sn, c05Cfg{cpu: 16, batch: 2, gmp: 16, aff: 1}, 2))
		}
		if tier == "thorough" && c05FirstSeed() {
			// the same stress under the race detector
			add(c05Line("race", sc, sseed, sn/4, c05Cfg{cpu: 16, batch: 1, gmp: 16}, 0))
			add(c05Line("race", sc, sseed, sn/4, c05Cfg{cpu: 4, batch: 3, gmp: 4, aff: 1}, 1))
		}
	}
	// glue pass: the merge of the per-worker summaries of obisummary, in-process (c05_glue.go)
	c05GlueLines(rng, tier, add)
	// the runs are independent processes: they are executed ahead of their emission by a pool of workers (the
	// comparisons between runs are made at emission time, in generation order: same verdicts as a sequential run)
	c05Prefetch(lines)
	for _, l := range lines {
		emit(l)
	}
}

// ---------------------------------------------------------------------------------------------------------
// execution

type c05Done struct {
	res   c05Res
	ready chan struct{}
}

var (
	c05PreMu sync.Mutex
	c05Pre   = map[string]*c05Done{}
)

func c05Prefetch(lines []string) {
	// binaries first (so that the workers do not all wait on the build)
	c05Build(false)
	for _, l := range lines {
		if strings.HasPrefix(l, "race ") {
			c05Build(true)
			break
		}
	}
	c05PreMu.Lock()
	var todo []string
	for _, l := range lines {
		if _, ok := c05Pre[l]; !ok {
			c05Pre[l] = &c05Done{ready: make(chan struct{})}
			todo = append(todo, l)
		}
	}
	c05PreMu.Unlock()
	ch := make(chan string, len(todo))
	for _, l := range todo {
		ch <- l
	}
	close(ch)
	workers := 8
	for w := 0; w < workers; w++ {
		go func() {
			for l := range ch {
				c05PreMu.Lock()
				d := c05Pre[l]
				c05PreMu.Unlock()
				if p, ok := c05Parse(l); ok {
					d.res = c05Run(p.sc, c05Records(p.sc, int64(p.seed), p.nrec), p.cfg)
					if p.nrec <= 500 && c05PerRecordKind(p.sc.kind) {
						c05Singles(p.sc, int64(p.seed), p.nrec) // warms the cache
					}
				}
				close(d.ready)
			}
		}()
	}
}

// c05PerRecordKind : the kinds whose model data are the outputs of every record run alone
func c05PerRecordKind(kind string) bool {
	switch kind {
	case "records", "csv", "count", "json", "summary":
		return true
	}
	return false
}

type c05Case struct {
	op         string
	sc         *c05Scenario
	seed, nrec int
	cfg        c05Cfg
	fields     []string
}

func c05Parse(c string) (c05Case, bool) {
	if k := strings.Index(c, " | "); k >= 0 {
		c = c[:k]
	}
	f := strings.Fields(c)
	var p c05Case
	if len(f) < 8 || (f[0] != "run" && f[0] != "race") {
		return p, false
	}
	p.op = f[0]
	p.sc = c05Scenario_(f[1])
	if p.sc == nil {
		return p, false
	}
	get := func(s, key string) int {
		if !strings.HasPrefix(s, key+"=") {
			return -1
		}
		v, err := strconv.Atoi(s[len(key)+1:])
		if err != nil {
			return -1
		}
		return v
	}
	p.seed, p.nrec = get(f[2], "seed"), get(f[3], "nrec")
	p.cfg = c05Cfg{cpu: get(f[4], "cpu"), batch: get(f[5], "batch"), gmp: get(f[6], "gmp"), in: "stdin", race: p.op == "race"}
	if p.seed < 0 || p.nrec < 0 || p.cfg.cpu < 0 || p.cfg.batch < 1 || p.cfg.gmp < 1 || get(f[7], "rep") < 0 {
		return p, false
	}
	for _, x := range f[8:] {
		switch {
		case x == "in=file" || x == "in=gz" || x == "in=stdin":
			p.cfg.in = x[3:]
		case strings.HasPrefix(x, "aff=") && get(x, "aff") >= 0:
			p.cfg.aff = get(x, "aff")
		case x == "env=var" || x == "env=both" || x == "env=f1" || x == "env=none":
			p.cfg.env = x[4:]
		default:
			return p, false
		}
	}
	p.fields = f
	return p, true
}

var (
	c05RefMu sync.Mutex
	c05Ref   = map[string][][]byte{} // first output seen per (scenario, seed, nrec)
)

func c05Hash(b []byte) string {
	// FNV-1a 64, enough to identify an output on a case line
	h := uint64(14695981039346656037)
	for _, c := range b {
		h ^= uint64(c)
		h *= 1099511628211
	}
	return fmt.Sprintf("%016x", h)
}

// c05SetCanon : a FASTA output as the sorted multiset of `sequence count` lines (obiuniq: the order of the
// records and the identifier kept for a group are not claimed)
func c05SetCanon(out []byte) []byte {
	var items []string
	for _, rec := range bytes.Split(out, []byte("\n>")) {
		if len(rec) == 0 {
			continue
		}
		nl := bytes.IndexByte(rec, '\n')
		if nl < 0 {
			continue
		}
		title := string(rec[:nl])
		seq := strings.ReplaceAll(string(rec[nl+1:]), "\n", "")
		count := "1"
		if k := strings.Index(title, "\"count\":"); k >= 0 {
			e := k + 8
			for e < len(title) && title[e] >= '0' && title[e] <= '9' {
				e++
			}
			count = title[k+8 : e]
		}
		items = append(items, seq+" "+count)
	}
	sort.Strings(items)
	return []byte(strings.Join(items, "\n"))
}

// c05SummaryCanon : the JSON document printed by obisummary as `path value` lines (integer leaves, path
// components joined by `/`), sorted by (length, bytes) of the path
func c05SummaryCanon(out []byte) ([]byte, bool) {
	var doc interface{}
	dec := json.NewDecoder(bytes.NewReader(out))
	dec.UseNumber()
	if err := dec.Decode(&doc); err != nil {
		return nil, false
	}
	type kv struct {
		k string
		v string
	}
	var leaves []kv
	ok := true
	var walk func(p string, x interface{})
	walk = func(p string, x interface{}) {
		switch t := x.(type) {
		case map[string]interface{}:
			for k, v := range t {
				q := k
				if p != "" {
					q = p + "/" + k
				}
				walk(q, v)
			}
		case json.Number:
			if _, err := strconv.ParseUint(t.String(), 10, 63); err != nil {
				ok = false
			}
			leaves = append(leaves, kv{p, t.String()})
		default:
			ok = false
		}
	}
	walk("", doc)
	sort.Slice(leaves, func(i, j int) bool {
		if len(leaves[i].k) != len(leaves[j].k) {
			return len(leaves[i].k) < len(leaves[j].k)
		}
		return leaves[i].k < leaves[j].k
	})
	var sb strings.Builder
	for _, l := range leaves {
		if strings.ContainsAny(l.k, " \n") {
			ok = false
		}
		sb.WriteString(l.k + " " + l.v + "\n")
	}
	return []byte(sb.String()), ok
}

func (c05) Exec(c string) (string, []Fail) {
	if strings.HasPrefix(c, "sadd ") || strings.HasPrefix(c, "isum ") {
		return c05GlueExec(c)
	}
	p, ok := c05Parse(c)
	if !ok {
		return "bad-op", nil
	}
	sc, f := p.sc, p.fields
	stat("scenario:" + sc.name)
	stat("op:" + p.op)
	stat("input:" + p.cfg.in)
	if p.cfg.aff > 0 {
		if c05HasTaskset {
			stat("pinned-on-cores:" + strconv.Itoa(p.cfg.aff))
		} else {
			stat("pinning-unavailable")
		}
	}
	if p.cfg.cpu == 0 {
		stat("force-one-cpu")
	}
	if p.cfg.env != "" {
		stat("env:" + p.cfg.env)
	}
	if sc.gz {
		stat("compressed-output")
	}
	base := strings.Join(f, " ")
	c05PreMu.Lock()
	d := c05Pre[base]
	c05PreMu.Unlock()
	var res c05Res
	if d != nil {
		<-d.ready
		res = d.res
	} else {
		res = c05Run(sc, c05Records(sc, int64(p.seed), p.nrec), p.cfg)
	}
	st := res.status
	var fails []Fail
	if st != "ok" {
		fails = append(fails, Fail{Sig: sc.name + ".outcome", Text: "command ended with " + st + ": " + res.detail})
	}
	for len(res.streams) < 1+len(sc.extra) {
		res.streams = append(res.streams, nil)
	}
	if res.poison {
		fails = append(fails, Fail{Sig: sc.name + ".recycled-buffer-in-output", Text: "the output contains the poison value of a recycled buffer"})
	}
	out := res.streams[0]
	if p.op == "race" {
		seen := map[string]bool{}
		for _, site := range res.races {
			stat("race-report")
			if why := c05BenignRace(site); why != "" {
				stat("race-benign:" + why)
				continue
			}
			fsig := strings.SplitN(site, " @ ", 2)[0]
			if !seen[fsig] {
				seen[fsig] = true
				fails = append(fails, Fail{Sig: "race." + fsig, Text: "the Go race detector reports a data race between " + site + " (scenario " + sc.name + ")"})
			}
		}
		stat("race-run")
	}
	if (sc.input == "multifile" || sc.input == "bigannot") && st == "ok" {
		prev, n, misordered := "", 0, false
		for _, l := range bytes.Split(out, []byte("\n")) {
			if len(l) > 0 && l[0] == '>' {
				id := string(bytes.Fields(l[1:])[0])
				if id <= prev && !misordered {
					misordered = true
					fails = append(fails, Fail{Sig: sc.name + ".file-order", Text: fmt.Sprintf("record %s delivered after %s: the records of several input files must come out in file order", id, prev)})
				}
				prev = id
				n++
			}
		}
		if n != p.nrec {
			fails = append(fails, Fail{Sig: sc.name + ".records", Text: fmt.Sprintf("%d records out for %d in", n, p.nrec)})
		}
	}
	if sc.input == "bigannot" && st == "ok" {
		// the input is in the canonical output form: the conversion is the identity
		var in strings.Builder
		for _, r := range c05Records(sc, int64(p.seed), p.nrec) {
			in.WriteString(r[0])
		}
		if in.String() != string(out) {
			k := firstDiff(out, []byte(in.String()))
			lo, hi := max(0, k-60), min(len(out), k+60)
			fails = append(fails, Fail{Sig: sc.name + ".identity", Text: fmt.Sprintf("the output is not the input (first difference at byte %d of %d: …%q…)", k, len(out), out[lo:hi])})
		}
	}
	if sc.input == "noorder-files" && st == "ok" {
		fails = append(fails, c05GlueIdOracle(sc, p.nrec, out)...)
	}
	// identical bytes for every parallelism configuration and repetition
	cmp := res.streams
	if sc.kind == "set" {
		cmp = [][]byte{c05SetCanon(out)}
	}
	if sc.kind == "uniq" {
		cmp = [][]byte{[]byte(c05UniqCanon(out, c05UniqOptsOf(sc).stats))}
	}
	key := fmt.Sprintf("%s/%d/%d", sc.name, p.seed, p.nrec)
	c05RefMu.Lock()
	ref, seen := c05Ref[key]
	if !seen && st == "ok" {
		c05Ref[key] = cmp
	}
	c05RefMu.Unlock()
	if seen && st == "ok" {
		for j := range cmp {
			if j < len(ref) && !bytes.Equal(ref[j], cmp[j]) {
				fails = append(fails, Fail{Sig: sc.name + ".parallelism-dependent", Text: fmt.Sprintf("output stream %d differs from the one of another configuration of the same input (%d vs %d bytes, first difference at %d)", j, len(cmp[j]), len(ref[j]), firstDiff(cmp[j], ref[j]))})
				break
			}
		}
	}
	// data for the model: the per-record outputs (every record run alone), one section per output stream
	kind := sc.kind
	if p.nrec > 500 && !(kind == "uniq" && p.nrec <= 2500) {
		kind = "opaque"
	}
	if kind == "clean" && p.nrec > 100 {
		kind = "opaque" // the model runs the verbatim kernels on every pair of sequences
	}
	var result string
	switch kind {
	case "records", "csv", "count", "json", "summary":
		singles := c05Singles(sc, int64(p.seed), p.nrec)
		sections, results := []string{}, []string{}
		for j := range singles {
			k := kind
			if j > 0 {
				k = sc.extra[j-1].kind
			}
			parts := make([]string, len(singles[j]))
			for i, s := range singles[j] {
				b := []byte(s)
				switch {
				case strings.HasPrefix(s, "!"):
					parts[i] = hx(b)
					continue
				case k == "summary":
					cb, ok := c05SummaryCanon(b)
					if !ok {
						cb = []byte("!unparsable")
					}
					parts[i] = hx(cb)
				case k == "dispatch":
					// the canonical form of a one-record run is `name:hex` (or `-`): used as it is
					parts[i] = s
				default:
					parts[i] = hx(b)
				}
			}
			sections = append(sections, k+" "+strings.Join(parts, " "))
			o := res.streams[j]
			switch k {
			case "summary":
				cb, ok := c05SummaryCanon(o)
				if !ok && st == "ok" {
					fails = append(fails, Fail{Sig: sc.name + ".summary-unparsable", Text: "the summary is not a JSON document of integer counters"})
				}
				results = append(results, hx(cb))
			case "dispatch":
				results = append(results, string(o))
			default:
				results = append(results, hx(o))
			}
		}
		caseOverride = base + " | " + strings.Join(sections, " | ")
		result = st + " " + strings.Join(results, " ")
	case "dsum":
		// obisummary field by field: the features of the records as the generator describes them; the model runs
		// ISummary on a round-robin sharing between max(2, min(cpu, 8)) workers (summary_merge_is_sum: any sharing)
		g := c05GlueGen(sc.input, int64(p.seed), p.nrec)
		nw := max(2, min(p.cfg.cpu, 8))
		caseOverride = base + " | " + c05GlueSection("doc", g, nw, c05RoundRobin(p.nrec, nw))
		cb, okc := c05SummaryCanon(out)
		if !okc && st == "ok" {
			fails = append(fails, Fail{Sig: sc.name + ".summary-unparsable", Text: "the summary is not a JSON document of integer counters"})
		}
		if want := c05GlueExpected(g); okc && st == "ok" && string(cb) != want {
			fails = append(fails, Fail{Sig: sc.name + ".summary-is-not-the-summary-of-the-input", Text: fmt.Sprintf("printed {%s}, the figures counted on the input are {%s}", strings.ReplaceAll(string(cb), "\n", "; "), strings.ReplaceAll(want, "\n", "; "))})
		}
		result = st + " " + hx(cb)
	case "uniq":
		// the model of the command itself (C06) on the input records; the output as a multiset
		recs := c05Records(sc, int64(p.seed), p.nrec)
		caseOverride = base + " | " + c05UniqSection(sc, recs)
		result = st + " " + string(cmp[0])
		stat(fmt.Sprintf("uniq-classes:%s", c05Bucket(strings.Count(string(cmp[0]), ";")-1)))
	case "clean":
		recs := c05Records(sc, int64(p.seed), p.nrec)
		caseOverride = base + " | " + c05CleanSection(sc, recs)
		result = st + " " + c05CleanCanon(out)
	default:
		caseOverride = base + " | opaque"
		result = st
	}
	if p.nrec == 0 {
		caseTrivial = true
	}
	return result, fails
}

func c05Bucket(n int) string {
	switch {
	case n <= 0:
		return "0"
	case n < 10:
		return "1-9"
	case n < 100:
		return "10-99"
	default:
		return "100+"
	}
}

func firstDiff(a, b []byte) int {
	n := len(a)
	if len(b) < n {
		n = len(b)
	}
	for i := 0; i < n; i++ {
		if a[i] != b[i] {
			return i
		}
	}
	return n
}
