//go:build c16

package main

// C16 — obigrep, obiannotate, obidistribute act on each record as their options say.
//
// Case lines (see lean/ObiVerif/Driver/C16.lean):
//
//	grep  <options> | <records> [| T <oracle table>]
//	annot <options> | <records> [| T <oracle table>]
//	class <hex key1> <hex key2> <hex na> | <records>
//	grepio <options> bs=<n> w=<n> | <records>        end to end: CLIFilterSequence + writers (not modelled line by line:
//	dist  <hex key1> <hex key2> <hex na> bs=<n> | …   the result is recomputed by the model from `grep` / `class` semantics)
//
// The harness parses a real argv through obioptions.GenerateOptionParser(obigrep.OptionSet /
// obiannotate.OptionSet); the option globals are reset between cases by the verif hooks.  The oracle
// is a reference interpreter of the option semantics (c16Selects, c16RefAnnot) that never looks at
// the option globals or at the predicate/worker builders; regexp, gval, obitax and obiapat verdicts
// are taken from the libraries (they are the oracle parameters of the model too).

import (
	"bufio"
	"context"
	"encoding/json"
	"fmt"
	"math/rand"
	"os"
	"path/filepath"
	"regexp"
	"runtime"
	"sort"
	"strconv"
	"strings"
	"sync"
	"time"

	log "github.com/sirupsen/logrus"

	"git.metabarcoding.org/obitools/obitools4/obitools4/pkg/obiapat"
	"git.metabarcoding.org/obitools/obitools4/obitools4/pkg/obicorazick"
	"git.metabarcoding.org/obitools/obitools4/obitools4/pkg/obiformats/ncbitaxdump"
	"git.metabarcoding.org/obitools/obitools4/obitools4/pkg/obiiter"
	"git.metabarcoding.org/obitools/obitools4/obitools4/pkg/obioptions"
	"git.metabarcoding.org/obitools/obitools4/obitools4/pkg/obiseq"
	"git.metabarcoding.org/obitools/obitools4/obitools4/pkg/obitax"
	"git.metabarcoding.org/obitools/obitools4/obitools4/pkg/obitools/obiannotate"
	"git.metabarcoding.org/obitools/obitools4/obitools4/pkg/obitools/obiconvert"
	"git.metabarcoding.org/obitools/obitools4/obitools4/pkg/obitools/obigrep"
)

type c16 struct{}

func init() { props["C16"] = c16{} }

// ---------------------------------------------------------------------------------------------
// records

type c16Val struct {
	kind byte // 's' string, 'i' int, 'b' bool, 'f' float64 (shown + trunc), 'm' map[string]int (s = canonical text k:v,k:v), 'x' unsupported
	s    string
	n    int
	b    bool
	f    float64
}

func (v c16Val) shown() string {
	switch v.kind {
	case 's':
		return v.s
	case 'i':
		return strconv.Itoa(v.n)
	case 'b':
		if v.b {
			return "true"
		}
		return "false"
	case 'f', 'm':
		return v.s
	}
	return "?"
}

func (v c16Val) tok() string {
	switch v.kind {
	case 's':
		return "s" + hx([]byte(v.s))
	case 'i':
		return "i" + strconv.Itoa(v.n)
	case 'b':
		if v.b {
			return "b1"
		}
		return "b0"
	case 'f':
		return "f" + strconv.Itoa(v.n) + "~" + hx([]byte(v.s))
	case 'm':
		return "m" + hx([]byte(v.s))
	}
	return "x"
}

// canonical text of a statistics map: k:v,k:v sorted by key
func c16MapText(m map[string]int) string {
	keys := make([]string, 0, len(m))
	for k := range m {
		keys = append(keys, k)
	}
	sort.Strings(keys)
	p := make([]string, len(keys))
	for i, k := range keys {
		p[i] = k + ":" + strconv.Itoa(m[k])
	}
	return strings.Join(p, ",")
}

func c16ParseMap(t string) (map[string]int, bool) {
	m := map[string]int{}
	if t == "" {
		return m, true
	}
	for _, kv := range strings.Split(t, ",") {
		q := strings.Split(kv, ":")
		if len(q) != 2 || q[0] == "" || !c16CanonInt(q[1]) {
			return nil, false
		}
		n, _ := strconv.Atoi(q[1])
		if _, dup := m[q[0]]; dup {
			return nil, false
		}
		m[q[0]] = n
	}
	return m, c16MapText(m) == t
}

func (v c16Val) goValue() interface{} {
	switch v.kind {
	case 's':
		return v.s
	case 'i':
		return v.n
	case 'b':
		return v.b
	case 'f':
		return v.f
	case 'm':
		m, _ := c16ParseMap(v.s)
		return m
	}
	return nil
}

func c16FromGo(x interface{}) c16Val {
	switch t := x.(type) {
	case string:
		return c16Val{kind: 's', s: t}
	case int:
		return c16Val{kind: 'i', n: t}
	case bool:
		return c16Val{kind: 'b', b: t}
	case float64:
		if t != t || t > 1e15 || t < -1e15 {
			return c16Val{kind: 'x'}
		}
		return c16Val{kind: 'f', s: fmt.Sprint(t), n: int(t), f: t}
	case map[string]int:
		return c16Val{kind: 'm', s: c16MapText(t)}
	case obiseq.StatsOnValues:
		return c16Val{kind: 'm', s: c16MapText(t)}
	}
	return c16Val{kind: 'x'}
}

func c16ParseVal(s string) (c16Val, bool) {
	if s == "" {
		return c16Val{}, false
	}
	switch s[0] {
	case 's':
		b, ok := c16Ascii(s[1:])
		return c16Val{kind: 's', s: b}, ok
	case 'i':
		n, err := strconv.Atoi(s[1:])
		return c16Val{kind: 'i', n: n}, err == nil && c16CanonInt(s[1:])
	case 'b':
		if s == "b0" || s == "b1" {
			return c16Val{kind: 'b', b: s == "b1"}, true
		}
	case 'f':
		p := strings.Split(s[1:], "~")
		if len(p) != 2 {
			return c16Val{}, false
		}
		n, err := strconv.Atoi(p[0])
		sh, ok := c16Ascii(p[1])
		if err != nil || !ok || !c16CanonInt(p[0]) {
			return c16Val{}, false
		}
		f, err := strconv.ParseFloat(sh, 64)
		if err != nil || int(f) != n || fmt.Sprint(f) != sh {
			return c16Val{}, false
		}
		return c16Val{kind: 'f', s: sh, n: n, f: f}, true
	case 'm':
		t, ok := c16Ascii(s[1:])
		if !ok {
			return c16Val{}, false
		}
		_, ok = c16ParseMap(t)
		return c16Val{kind: 'm', s: t}, ok
	}
	return c16Val{}, false
}

// decimal integers exactly as both sides print them (no '+', no leading zeros, no "-0")
func c16CanonInt(s string) bool {
	n, err := strconv.Atoi(s)
	return err == nil && strconv.Itoa(n) == s
}

func c16Ascii(h string) (string, bool) {
	b, ok := unhx(h)
	if !ok {
		return "", false
	}
	for _, c := range b {
		if c >= 128 {
			return "", false
		}
	}
	return string(b), true
}

type c16Rec struct {
	id    string
	seq   []byte
	attrs map[string]c16Val
}

func (r c16Rec) clone() c16Rec {
	n := c16Rec{id: r.id, seq: append([]byte{}, r.seq...), attrs: map[string]c16Val{}}
	for k, v := range r.attrs {
		n.attrs[k] = v
	}
	return n
}

func (r c16Rec) show() string {
	keys := make([]string, 0, len(r.attrs))
	for k := range r.attrs {
		keys = append(keys, k)
	}
	sort.Strings(keys)
	a := "-"
	if len(keys) > 0 {
		p := make([]string, len(keys))
		for i, k := range keys {
			p[i] = hx([]byte(k)) + "=" + r.attrs[k].tok()
		}
		a = strings.Join(p, ";")
	}
	return hx([]byte(r.id)) + "," + hx(r.seq) + "," + a
}

func c16ParseRec(s string) (c16Rec, bool) {
	p := strings.Split(s, ",")
	if len(p) != 3 {
		return c16Rec{}, false
	}
	id, ok1 := c16Ascii(p[0])
	seq, ok2 := unhx(p[1])
	if !ok1 || !ok2 {
		return c16Rec{}, false
	}
	r := c16Rec{id: id, seq: seq, attrs: map[string]c16Val{}}
	if p[2] != "-" {
		for _, kv := range strings.Split(p[2], ";") {
			q := strings.Split(kv, "=")
			if len(q) != 2 {
				return c16Rec{}, false
			}
			k, ok := c16Ascii(q[0])
			v, ok2 := c16ParseVal(q[1])
			if !ok || !ok2 {
				return c16Rec{}, false
			}
			if _, dup := r.attrs[k]; dup {
				return c16Rec{}, false
			}
			r.attrs[k] = v
		}
	}
	return r, true
}

type c16Pair struct {
	r    c16Rec
	mate *c16Rec
}

func c16ParseRecs(s string) ([]c16Pair, bool) {
	s = strings.TrimSpace(s)
	if s == "" {
		return nil, true
	}
	var out []c16Pair
	for _, ps := range strings.Split(s, " ; ") {
		q := strings.Split(ps, " + ")
		if len(q) < 1 || len(q) > 2 {
			return nil, false
		}
		r, ok := c16ParseRec(strings.TrimSpace(q[0]))
		if !ok {
			return nil, false
		}
		p := c16Pair{r: r}
		if len(q) == 2 {
			m, ok := c16ParseRec(strings.TrimSpace(q[1]))
			if !ok {
				return nil, false
			}
			p.mate = &m
		}
		out = append(out, p)
	}
	return out, true
}

func c16ShowRecs(ps []c16Pair) string {
	s := make([]string, len(ps))
	for i, p := range ps {
		s[i] = p.r.show()
		if p.mate != nil {
			s[i] += " + " + p.mate.show()
		}
	}
	return strings.Join(s, " ; ")
}

// a fresh real record
func (r c16Rec) bio() *obiseq.BioSequence {
	s := obiseq.NewBioSequence(r.id, append([]byte{}, r.seq...), "")
	for k, v := range r.attrs {
		s.SetAttribute(k, v.goValue())
	}
	return s
}

func c16FromBio(s *obiseq.BioSequence) c16Rec {
	r := c16Rec{id: s.Id(), seq: append([]byte{}, s.Sequence()...), attrs: map[string]c16Val{}}
	if s.HasAnnotation() {
		for k, v := range s.Annotations() {
			r.attrs[k] = c16FromGo(v)
		}
	}
	return r
}

// ---------------------------------------------------------------------------------------------
// option specification (what the command line asks for)

type c16Spec struct {
	l, L, c, C, pe             *int
	s, D, I, A, p, r, rank, ap []string
	a                          [][2]string
	idl                        *[]string
	v, indel, fwd, paired      bool
	i                          []int
	pm                         string
	pmSet                      bool
	clear, length              bool
	setid                      string
	del, keep                  []string
	ren, tag                   [][2]string
	cut                        *[2]int
	bs, w                      int
	long                       bool // spell options with their long names
	names                      []string
	rawToks                    []string
	saveDisc, out              string // grepio: --save-discarded / --out, set by the harness
	io                         bool
	atrank                     []string // --with-taxon-at-rank
	tpath, trank, sci          bool     // --taxonomic-path, --taxonomic-rank, --scientific-name
	aho                        *[]string // --aho-corasick: the patterns of the file
	pat, patname               string   // --pattern, --pattern-name
	lca, lcaerr                string   // --add-lca-in, --lca-error (text)
	nosd                       bool  // grepio: no --save-discarded (the FilterOn path)
	lay, perm                  []int // pipeline cases: sizes of the input batches, order in which they are pushed
}

func c16Pair2(x string) ([2]string, bool) {
	p := strings.Split(x, ":")
	if len(p) != 2 {
		return [2]string{}, false
	}
	a, ok1 := c16Ascii(p[0])
	b, ok2 := c16Ascii(p[1])
	return [2]string{a, b}, ok1 && ok2
}

// strings that can be passed as one argv word after an option without being taken for an option
func c16ArgOK(s string) bool { return s != "" && s[0] != '-' && !strings.ContainsAny(s, "\n\t") }

func c16ParseSpec(ws []string) (*c16Spec, bool) {
	sp := &c16Spec{pm: "forward", bs: 3, w: 2}
	for _, w := range ws {
		kv := strings.SplitN(w, "=", 2)
		sp.names = append(sp.names, kv[0])
		if len(kv) == 1 {
			switch w {
			case "v":
				sp.v = true
			case "indel":
				sp.indel = true
			case "fwd":
				sp.fwd = true
			case "paired":
				sp.paired = true
			case "clear":
				sp.clear = true
			case "len":
				sp.length = true
			case "long":
				sp.long = true
			case "nosd":
				sp.nosd = true
			case "path":
				sp.tpath = true
			case "trank":
				sp.trank = true
			case "sci":
				sp.sci = true
			default:
				return nil, false
			}
			continue
		}
		x := kv[1]
		str := func(dst *[]string, arg bool) bool {
			s, ok := c16Ascii(x)
			if !ok || (arg && !c16ArgOK(s)) {
				return false
			}
			*dst = append(*dst, s)
			return true
		}
		num := func(dst **int) bool {
			n, err := strconv.Atoi(x)
			if err != nil || !c16CanonInt(x) || n > 2100000000 || n < -2100000000 {
				return false
			}
			*dst = &n
			return true
		}
		ok := true
		switch kv[0] {
		case "l":
			ok = num(&sp.l)
		case "L":
			ok = num(&sp.L)
		case "c":
			ok = num(&sp.c)
		case "C":
			ok = num(&sp.C)
		case "pe":
			ok = num(&sp.pe)
			ok = ok && *sp.pe >= 0 && *sp.pe <= 3
		case "bs":
			var n *int
			ok = num(&n)
			if ok {
				sp.bs = *n
				ok = sp.bs >= 1 && sp.bs <= 50
			}
		case "w":
			var n *int
			ok = num(&n)
			if ok {
				sp.w = *n
				ok = sp.w >= 1 && sp.w <= 8
			}
		case "i":
			var n *int
			ok = num(&n)
			if ok {
				sp.i = append(sp.i, *n)
			}
		case "lay", "perm":
			var l []int
			l, ok = c16IntList(x)
			if kv[0] == "lay" {
				ok = ok && sp.lay == nil
				sp.lay = l
			} else {
				ok = ok && sp.perm == nil
				sp.perm = l
			}
		case "s":
			ok = str(&sp.s, true)
		case "D":
			ok = str(&sp.D, true)
		case "I":
			ok = str(&sp.I, true)
		case "A":
			ok = str(&sp.A, true)
		case "p":
			ok = str(&sp.p, true)
		case "r":
			ok = str(&sp.r, true)
		case "rank":
			ok = str(&sp.rank, true)
		case "ap":
			ok = str(&sp.ap, true)
		case "atrank":
			ok = str(&sp.atrank, true)
		case "pat", "patname":
			var l []string
			ok = str(&l, true)
			if ok {
				for _, c := range []byte(l[0]) {
					ok = ok && ((c >= 'a' && c <= 'z') || c == '_')
				}
				if kv[0] == "pat" {
					ok = ok && sp.pat == "" && len(l[0]) <= 20
					sp.pat = l[0]
				} else {
					ok = ok && sp.patname == ""
					sp.patname = l[0]
				}
			}
		case "lca":
			var l []string
			ok = str(&l, true) && sp.lca == ""
			if ok {
				for _, c := range []byte(l[0]) {
					ok = ok && ((c >= 'a' && c <= 'z') || c == '_')
				}
				sp.lca = l[0]
			}
		case "lcaerr":
			ok = sp.lcaerr == "" && regexp.MustCompile(`^0(\.[0-9]{1,3})?$`).MatchString(x)
			sp.lcaerr = x
		case "aho":
			pats := []string{}
			for _, h := range strings.Split(x, ",") {
				q, ok2 := c16Ascii(h)
				if !ok2 || q == "" {
					return nil, false
				}
				for _, c := range []byte(q) {
					if c < 'a' || c > 'z' {
						return nil, false
					}
				}
				pats = append(pats, q)
			}
			ok = sp.aho == nil
			sp.aho = &pats
		case "del":
			ok = str(&sp.del, true)
		case "keep":
			ok = str(&sp.keep, true)
		case "a", "ren", "tag":
			var p [2]string
			p, ok = c16Pair2(x)
			// go-getoptions cuts KEY=VALUE at every '=': values containing one are not passed
			ok = ok && c16ArgOK(p[0]) && !strings.Contains(p[0], "=") && p[1] != "" && !strings.Contains(p[1], "=")
			if ok {
				switch kv[0] {
				case "a":
					sp.a = append(sp.a, p)
				case "ren":
					sp.ren = append(sp.ren, p)
				default:
					sp.tag = append(sp.tag, p)
				}
			}
		case "idl":
			ids := []string{}
			if x != "-" {
				for _, h := range strings.Split(x, ",") {
					s, ok2 := c16Ascii(h)
					if !ok2 || s == "" || strings.TrimSpace(s) != s || strings.ContainsAny(s, "\n\r") {
						return nil, false
					}
					ids = append(ids, s)
				}
			}
			sp.idl = &ids
		case "pm":
			m, ok2 := c16Ascii(x)
			if !ok2 || !c16ArgOK(m) || strings.ContainsAny(m, ":,;|") {
				return nil, false
			}
			sp.pm, sp.pmSet = m, true
		case "setid":
			s, ok2 := c16Ascii(x)
			ok = ok2 && c16ArgOK(s)
			sp.setid = s
		case "cut":
			p := strings.Split(x, ":")
			if len(p) != 2 || !c16CanonInt(p[0]) || !c16CanonInt(p[1]) {
				return nil, false
			}
			a, _ := strconv.Atoi(p[0])
			b, _ := strconv.Atoi(p[1])
			if a > 1000000 || a < -1000000 || b > 1000000 || b < -1000000 {
				return nil, false
			}
			sp.cut = &[2]int{a, b}
		default:
			return nil, false
		}
		if !ok {
			return nil, false
		}
	}
	return sp, true
}

var (
	c16Tmp     string
	c16TmpOnce sync.Once
	c16Serial  int
)

func c16TmpDir() string {
	c16TmpOnce.Do(func() {
		d, err := os.MkdirTemp("", "verif-c16-")
		if err != nil {
			panic(err)
		}
		c16Tmp = d
		// a small NCBI taxdump: 1 root; 2 kingdom; 10 family(2); 11 genus(10); 12 species(11); 13 species(11);
		// 20 family(2); 21 species(20) [no genus]; 30 order(1); 31 species(30)
		nodes := [][3]string{{"1", "1", "no rank"}, {"2", "1", "kingdom"}, {"10", "2", "family"}, {"11", "10", "genus"},
			{"12", "11", "species"}, {"13", "11", "species"}, {"20", "2", "family"}, {"21", "20", "species"},
			{"30", "1", "order"}, {"31", "30", "species"}}
		var nb, mb strings.Builder
		for _, n := range nodes {
			fmt.Fprintf(&nb, "%s\t|\t%s\t|\t%s\t|\t\t|\t0\t|\t0\t|\t1\t|\t0\t|\t0\t|\t0\t|\t0\t|\t0\t|\t\t|\n", n[0], n[1], n[2])
			fmt.Fprintf(&mb, "%s\t|\ttaxon%s\t|\t\t|\tscientific name\t|\n", n[0], n[0])
		}
		td := filepath.Join(d, "taxdump")
		os.Mkdir(td, 0o755)
		os.WriteFile(filepath.Join(td, "nodes.dmp"), []byte(nb.String()), 0o644)
		os.WriteFile(filepath.Join(td, "names.dmp"), []byte(mb.String()), 0o644)
		os.WriteFile(filepath.Join(td, "merged.dmp"), []byte(""), 0o644)
	})
	return c16Tmp
}

// independent copy of the small taxonomy
var c16Parent = map[int]int{1: 1, 2: 1, 10: 2, 11: 10, 12: 11, 13: 11, 20: 2, 21: 20, 30: 1, 31: 30}
var c16Rank = map[int]string{1: "no rank", 2: "kingdom", 10: "family", 11: "genus", 12: "species", 13: "species", 20: "family", 21: "species", 30: "order", 31: "species"}

func (sp *c16Spec) annotOnly() bool {
	return sp.clear || sp.length || sp.setid != "" || len(sp.del)+len(sp.keep)+len(sp.ren)+len(sp.tag) > 0 || sp.cut != nil ||
		len(sp.atrank) > 0 || sp.tpath || sp.trank || sp.sci || sp.aho != nil || sp.pat != "" || sp.patname != "" ||
		sp.lca != "" || sp.lcaerr != ""
}

func (sp *c16Spec) needsTax() bool {
	return len(sp.r)+len(sp.i)+len(sp.rank)+len(sp.atrank) > 0 || sp.tpath || sp.trank || sp.sci || sp.lca != ""
}

// the argv the spec stands for
func (sp *c16Spec) argv() []string {
	av := []string{"verif"}
	opt := func(short, long, val string) {
		if sp.long || short == "" {
			av = append(av, "--"+long+"="+val)
		} else if strings.HasPrefix(val, "-") {
			av = append(av, "--"+long+"="+val)
		} else {
			av = append(av, "-"+short, val)
		}
	}
	flag := func(short, long string) {
		if sp.long || short == "" {
			av = append(av, "--"+long)
		} else {
			av = append(av, "-"+short)
		}
	}
	it := func(p *int, short, long string) {
		if p != nil {
			opt(short, long, strconv.Itoa(*p))
		}
	}
	if sp.needsTax() {
		opt("t", "taxdump", filepath.Join(c16TmpDir(), "taxdump"))
	}
	it(sp.l, "l", "min-length")
	it(sp.L, "L", "max-length")
	it(sp.c, "c", "min-count")
	it(sp.C, "C", "max-count")
	for _, x := range sp.s {
		opt("s", "sequence", x)
	}
	for _, x := range sp.D {
		opt("D", "definition", x)
	}
	for _, x := range sp.I {
		opt("I", "identifier", x)
	}
	for _, x := range sp.A {
		opt("A", "has-attribute", x)
	}
	for _, x := range sp.a {
		opt("a", "attribute", x[0]+"="+x[1])
	}
	for _, x := range sp.p {
		opt("p", "predicate", x)
	}
	for _, x := range sp.r {
		opt("r", "restrict-to-taxon", x)
	}
	for _, x := range sp.i {
		opt("i", "ignore-taxon", strconv.Itoa(x))
	}
	for _, x := range sp.rank {
		opt("", "require-rank", x)
	}
	for _, x := range sp.ap {
		opt("", "approx-pattern", x)
	}
	it(sp.pe, "", "pattern-error")
	if sp.indel {
		flag("", "allows-indels")
	}
	if sp.fwd {
		flag("", "only-forward")
	}
	if sp.idl != nil {
		c16Serial++
		fn := filepath.Join(c16TmpDir(), fmt.Sprintf("idlist%d.txt", c16Serial%8))
		var b strings.Builder
		for i, id := range *sp.idl {
			if i%2 == 1 {
				b.WriteString("  " + id + " \n") // the code trims
			} else {
				b.WriteString(id + "\n")
			}
		}
		os.WriteFile(fn, []byte(b.String()), 0o644)
		opt("", "id-list", fn)
	}
	if sp.v {
		flag("v", "inverse-match")
	}
	if sp.pmSet {
		opt("", "paired-mode", sp.pm)
	}
	if sp.paired {
		opt("", "paired-with", "mates.fastq")
	}
	if sp.io {
		if !sp.nosd && sp.saveDisc != "" {
			opt("", "save-discarded", sp.saveDisc)
		}
		opt("o", "out", sp.out)
		opt("", "batch-size", strconv.Itoa(sp.bs))
		if sp.w == 1 {
			flag("", "force-one-cpu") // --max-cpu 1 is turned into 2 by the option parser
		} else {
			opt("", "max-cpu", strconv.Itoa(sp.w))
		}
	}
	if sp.clear {
		flag("", "clear")
	}
	if sp.setid != "" {
		opt("", "set-identifier", sp.setid)
	}
	for _, x := range sp.del {
		opt("", "delete-tag", x)
	}
	for _, x := range sp.keep {
		opt("k", "keep", x)
	}
	for _, x := range sp.ren {
		opt("R", "rename-tag", x[0]+"="+x[1])
	}
	for _, x := range sp.atrank {
		opt("", "with-taxon-at-rank", x)
	}
	if sp.tpath {
		flag("", "taxonomic-path")
	}
	if sp.trank {
		flag("", "taxonomic-rank")
	}
	if sp.sci {
		flag("", "scientific-name")
	}
	if sp.lca != "" {
		opt("", "add-lca-in", sp.lca)
	}
	if sp.lcaerr != "" {
		opt("", "lca-error", sp.lcaerr)
	}
	if sp.aho != nil {
		c16Serial++
		fn := filepath.Join(c16TmpDir(), fmt.Sprintf("aho%d.txt", c16Serial%8))
		os.WriteFile(fn, []byte(strings.Join(*sp.aho, "\n")+"\n"), 0o644)
		opt("", "aho-corasick", fn)
	}
	if sp.pat != "" {
		opt("", "pattern", sp.pat)
	}
	if sp.patname != "" {
		opt("", "pattern-name", sp.patname)
	}
	if sp.length {
		flag("", "length")
	}
	for _, x := range sp.tag {
		opt("S", "set-tag", x[0]+"="+x[1])
	}
	if sp.cut != nil {
		opt("", "cut", fmt.Sprintf("%d:%d", sp.cut[0], sp.cut[1]))
	}
	return av
}

func c16Reset() {
	if os.Getenv("VERIF_DEBUG") != "" {
		log.SetOutput(os.Stderr)
	}
	obioptions.SetBatchSize(2000)
	obioptions.SetMaxCPU(runtime.NumCPU())
	obigrep.VerifResetOptions()
	obiannotate.VerifResetOptions()
	obiconvert.VerifResetOptions()
}

// ---------------------------------------------------------------------------------------------
// library verdicts (the oracle parameters of the model)

type c16Table struct {
	keys []string
	m    map[string]string
}

func (t *c16Table) put(k, v string) {
	if t.m == nil {
		t.m = map[string]string{}
	}
	if _, ok := t.m[k]; !ok {
		t.keys = append(t.keys, k)
	}
	t.m[k] = v
}

func (t *c16Table) String() string {
	p := make([]string, len(t.keys))
	for i, k := range t.keys {
		p[i] = k + ":" + t.m[k]
	}
	return strings.TrimSpace("T " + strings.Join(p, " "))
}

func b01(b bool) string {
	if b {
		return "1"
	}
	return "0"
}

func (t *c16Table) re(pat string, subj []byte) bool {
	k := "re:" + hx([]byte(pat)) + ":" + hx(subj)
	if v, ok := t.m[k]; ok {
		return v == "1"
	}
	rx, err := regexp.Compile(pat)
	r := err == nil && rx.Match(subj)
	t.put(k, b01(r))
	return r
}

// gval as a library: 1 true, 0 false, E error
func (t *c16Table) evalBool(expr string, r c16Rec) string {
	k := "eb:" + hx([]byte(expr)) + ":" + r.show()
	if v, ok := t.m[k]; ok {
		return v
	}
	res := "E"
	ev, err := obiseq.OBILang.NewEvaluable(expr)
	if err == nil {
		s := r.bio()
		out := guardT(2*time.Second, func() string {
			v, err := ev.EvalBool(context.Background(), map[string]interface{}{"annotations": s.Annotations(), "sequence": s})
			if err != nil {
				return "E"
			}
			return b01(v)
		})
		if out == "0" || out == "1" {
			res = out
		}
	}
	t.put(k, res)
	return res
}

func (t *c16Table) evalExpr(expr string, r c16Rec) (c16Val, bool) {
	k := "ev:" + hx([]byte(expr)) + ":" + r.show()
	if v, ok := t.m[k]; ok {
		if v == "E" {
			return c16Val{}, false
		}
		val, _ := c16ParseVal(v)
		return val, true
	}
	res := "E"
	var val c16Val
	ev, err := obiseq.OBILang.NewEvaluable(expr)
	if err == nil {
		s := r.bio()
		out := guardT(2*time.Second, func() string {
			v, err := ev(context.Background(), map[string]interface{}{"annotations": s.Annotations(), "sequence": s})
			if err != nil {
				return "E"
			}
			val = c16FromGo(v)
			return val.tok()
		})
		if out != "panic" && out != "fatal" && out != "hang" {
			res = out
		}
	}
	t.put(k, res)
	return val, res != "E"
}

var (
	c16Taxo     *obitax.Taxonomy
	c16TaxoOnce sync.Once
)

func c16Taxonomy() *obitax.Taxonomy {
	c16TaxoOnce.Do(func() {
		t, err := ncbitaxdump.LoadNCBITaxDump(filepath.Join(c16TmpDir(), "taxdump"), true)
		if err != nil {
			panic(err)
		}
		c16Taxo = t
	})
	return c16Taxo
}

func (t *c16Table) lib(k string, f func() bool) bool {
	if v, ok := t.m[k]; ok {
		return v == "1"
	}
	out := guardT(2*time.Second, func() string { return b01(f()) })
	t.put(k, out)
	return out == "1"
}

func (t *c16Table) subCladeOf(taxid int, r c16Rec) bool {
	return t.lib("txi:"+strconv.Itoa(taxid)+":"+r.show(), func() bool { return c16Taxonomy().IsSubCladeOf(taxid)(r.bio()) })
}
func (t *c16Table) subCladeOfSlot(slot string, r c16Rec) bool {
	return t.lib("txs:"+hx([]byte(slot))+":"+r.show(), func() bool { return c16Taxonomy().IsSubCladeOfSlot(slot)(r.bio()) })
}
func (t *c16Table) hasRank(rank string, r c16Rec) bool {
	return t.lib("txr:"+hx([]byte(rank))+":"+r.show(), func() bool { return c16Taxonomy().HasRequiredRank(rank)(r.bio()) })
}
func (t *c16Table) apat(pat string, e int, both, indel bool, r c16Rec) bool {
	f := "f"
	if both {
		f = "b"
	}
	g := "n"
	if indel {
		g = "i"
	}
	k := "ap:" + hx([]byte(pat)) + ":" + strconv.Itoa(e) + f + g + ":" + r.show()
	_, known := t.m[k]
	v := t.lib(k, func() bool {
		return obiapat.IsPatternMatchSequence(pat, e, both, indel)(r.bio())
	})
	if !known {
		// glue pass: the verdict handed to the model is itself checked (brute force on the raw inputs, c16_apat.go)
		c16apCheckPredicate(pat, e, both, indel, r.seq, t.m[k])
	}
	return v
}

// ---------------------------------------------------------------------------------------------
// reference interpreter: selection

func (r c16Rec) count() int {
	if v, ok := r.attrs["count"]; ok && (v.kind == 'i' || v.kind == 'f') {
		return v.n
	}
	return 1
}

func (r c16Rec) taxid() int {
	if v, ok := r.attrs["taxid"]; ok && (v.kind == 'i' || v.kind == 'f') {
		return v.n
	}
	return 1
}

func c16IsUnder(t, anc int) bool {
	if _, ok := c16Parent[t]; !ok {
		return false
	}
	for {
		if t == anc {
			return true
		}
		if t == 1 {
			return false
		}
		t = c16Parent[t]
	}
}

type c16Crit struct {
	name string
	ok   bool
	err  bool // the criterion could not be evaluated (expression error)
}

// every requested criterion with its truth on the record; the criteria come from the command line
// (an option that is present is requested, whatever its value)
func c16Criteria(sp *c16Spec, r c16Rec, t *c16Table) []c16Crit {
	var cs []c16Crit
	add := func(n string, ok bool) { cs = append(cs, c16Crit{name: n, ok: ok}) }
	// an explicit value equal to the built-in default gets its own name (signature of the failure)
	dflt := func(n string, v, d int) string {
		if v == d {
			return n + "-default"
		}
		return n
	}
	if sp.l != nil {
		add(dflt("l", *sp.l, 1), len(r.seq) >= *sp.l)
	}
	if sp.L != nil {
		add(dflt("L", *sp.L, 2000000000), len(r.seq) <= *sp.L)
	}
	if sp.c != nil {
		add(dflt("c", *sp.c, 1), r.count() >= *sp.c)
	}
	if sp.C != nil {
		add(dflt("C", *sp.C, 2000000000), r.count() <= *sp.C)
	}
	for _, k := range sp.rank {
		have := false
		if _, ok := c16Parent[r.taxid()]; ok {
			for x := r.taxid(); ; x = c16Parent[x] {
				if c16Rank[x] == k {
					have = true
				}
				if x == 1 {
					break
				}
			}
		}
		t.hasRank(k, r)
		add("rank", have)
	}
	if len(sp.r) > 0 {
		any := false
		for _, x := range sp.r {
			if n, err := strconv.Atoi(x); err == nil {
				t.subCladeOf(n, r)
				any = any || c16IsUnder(r.taxid(), n)
			} else {
				any = any || t.subCladeOfSlot(x, r) // slot variant: library verdict
			}
		}
		add("r", any)
	}
	if len(sp.i) > 0 {
		any := false
		for _, n := range sp.i {
			t.subCladeOf(n, r)
			any = any || c16IsUnder(r.taxid(), n)
		}
		add("i", !any)
	}
	for _, e := range sp.p {
		v := t.evalBool(e, r)
		cs = append(cs, c16Crit{name: "p", ok: v == "1", err: v == "E"})
	}
	for _, p := range sp.s {
		add("s", t.re("(?i)"+p, r.seq))
	}
	def := ""
	if v, ok := r.attrs["definition"]; ok {
		def = v.shown()
	}
	for _, p := range sp.D {
		add("D", t.re(p, []byte(def)))
	}
	for _, p := range sp.I {
		add("I", t.re(p, []byte(r.id)))
	}
	if sp.idl != nil {
		in := false
		for _, id := range *sp.idl {
			in = in || id == r.id
		}
		add("idl", in)
	}
	for _, k := range sp.A {
		_, ok := r.attrs[k]
		add("A", ok)
	}
	last := map[string]string{}
	var order []string
	for _, kp := range sp.a {
		if _, ok := last[kp[0]]; !ok {
			order = append(order, kp[0])
		}
		last[kp[0]] = kp[1]
	}
	for _, k := range order {
		v, ok := r.attrs[k]
		add("a", ok && t.re(last[k], []byte(v.shown())))
	}
	for _, p := range sp.ap {
		e := 0
		if sp.pe != nil {
			e = *sp.pe
		}
		add("ap", t.apat(p, e, !sp.fwd, sp.indel, r)) // library verdict
	}
	return cs
}

// verdicts acceptable for one record before -v: the set of outcomes among '1' '0' 'F'
func c16Base(sp *c16Spec, r c16Rec, t *c16Table) (acc string, failing []string) {
	cs := c16Criteria(sp, r, t)
	all, anyErr, anyFalse := true, false, false
	for _, c := range cs {
		if c.err {
			anyErr = true
			continue
		}
		if !c.ok {
			all, anyFalse = false, true
			failing = append(failing, c.name)
		}
	}
	switch {
	case anyErr && anyFalse:
		return "F0", failing // the program may stop, or reject on another criterion first
	case anyErr:
		return "F", failing
	case all:
		return "1", failing
	}
	return "0", failing
}

func c16Invert(acc string) string {
	out := ""
	for _, c := range acc {
		switch c {
		case '1':
			out += "0"
		case '0':
			out += "1"
		default:
			out += "F"
		}
	}
	return out
}

// explicit truth tables of the six paired modes: index 2*a+b
var c16Truth = map[string][4]bool{
	"forward": {false, false, true, true},
	"reverse": {false, true, false, true},
	"and":     {false, false, false, true},
	"or":      {false, true, true, true},
	"andnot":  {false, false, true, false},
	"xor":     {false, true, true, false},
}

// acceptable verdicts of the whole selection for a record (and its mate)
func c16Selects(sp *c16Spec, p c16Pair, t *c16Table) (acc string, failing []string) {
	a, failing := c16Base(sp, p.r, t)
	if sp.v {
		a = c16Invert(a)
	}
	if !sp.paired || p.mate == nil {
		return a, failing
	}
	b, _ := c16Base(sp, *p.mate, t)
	if sp.v {
		b = c16Invert(b)
	}
	tt, ok := c16Truth[sp.pm]
	if !ok {
		return "F", failing
	}
	set := map[byte]bool{}
	for i := 0; i < len(a); i++ {
		if a[i] == 'F' {
			set['F'] = true
			continue
		}
		if sp.pm == "forward" {
			set[a[i]] = true
			continue
		}
		for j := 0; j < len(b); j++ {
			if b[j] == 'F' {
				set['F'] = true
				continue
			}
			x, y := 0, 0
			if a[i] == '1' {
				x = 1
			}
			if b[j] == '1' {
				y = 1
			}
			set[b01(tt[2*x+y])[0]] = true
		}
	}
	out := ""
	for _, c := range []byte("10F") {
		if set[c] {
			out += string(c)
		}
	}
	return out, failing
}

// dropDefaults returns the spec without the numeric options whose value is the built-in default
// (the code cannot tell them from absent options) and the names of the options dropped
func (sp *c16Spec) dropDefaults() (*c16Spec, string) {
	c := *sp
	var names []string
	if c.C != nil && *c.C == 2000000000 {
		c.C = nil
		names = append(names, "C")
	}
	if c.L != nil && *c.L == 2000000000 {
		c.L = nil
		names = append(names, "L")
	}
	if c.c != nil && *c.c == 0 {
		c.c = nil
		names = append(names, "c")
	}
	if c.l != nil && *c.l == 0 {
		c.l = nil
		names = append(names, "l")
	}
	return &c, strings.Join(names, "+")
}

// ---------------------------------------------------------------------------------------------
// reference interpreter: edits

// outcome: "out" + record, "absent", "panic"
func c16RefSet(r *c16Rec, k string, v c16Val) string {
	switch k {
	case "id":
		if v.kind != 's' {
			return "panic"
		}
		r.id = v.s
	case "sequence", "qualities":
		return "panic"
	default:
		r.attrs[k] = v
	}
	return ""
}

func c16RefGet(r *c16Rec, k string) (c16Val, bool) {
	switch k {
	case "id":
		return c16Val{kind: 's', s: r.id}, true
	case "sequence":
		if len(r.seq) == 0 {
			return c16Val{}, false
		}
		return c16Val{kind: 's', s: string(r.seq)}, true
	case "qualities":
		return c16Val{}, false
	}
	v, ok := r.attrs[k]
	return v, ok
}

func c16SortedPairs(ps [][2]string) [][2]string {
	m := map[string]string{}
	for _, p := range ps {
		m[p[0]] = p[1]
	}
	keys := make([]string, 0, len(m))
	for k := range m {
		keys = append(keys, k)
	}
	sort.Strings(keys)
	out := make([][2]string, len(keys))
	for i, k := range keys {
		out[i] = [2]string{k, m[k]}
	}
	return out
}

// c16RefAnnot applies the requested edits to a copy of r: clear, set-identifier, delete-tag, keep,
// rename-tag (increasing new name), length, set-tag (increasing key), cut
func c16RefAnnot(sp *c16Spec, r0 c16Rec, t *c16Table, renOrder, tagOrder [][2]string) string {
	r := r0.clone()
	if sp.clear {
		r.attrs = map[string]c16Val{}
	}
	if sp.setid != "" {
		v, ok := t.evalExpr(sp.setid, r)
		if !ok {
			return "absent"
		}
		if v.kind == 'x' {
			return "unsupported"
		}
		r.id = v.shown()
	}
	for _, k := range sp.del {
		delete(r.attrs, k)
	}
	if len(sp.keep) > 0 {
		for k := range r.attrs {
			keep := false
			for _, x := range sp.keep {
				keep = keep || x == k
			}
			if !keep {
				delete(r.attrs, k)
			}
		}
	}
	for _, p := range renOrder {
		if v, ok := c16RefGet(&r, p[1]); ok {
			if o := c16RefSet(&r, p[0], v); o != "" {
				return o
			}
			delete(r.attrs, p[1])
		}
	}
	for _, rank := range sp.atrank {
		switch v := t.taxonAtRank(rank, r); {
		case v == "N":
		case v == "-":
			r.attrs[rank+"_taxid"] = c16Val{kind: 'i', n: -1}
			r.attrs[rank+"_name"] = c16Val{kind: 's', s: "NA"}
		default:
			q := strings.Split(v, ",")
			n, _ := strconv.Atoi(q[0])
			name, _ := c16Ascii(q[1])
			r.attrs[rank+"_taxid"] = c16Val{kind: 'i', n: n}
			r.attrs[rank+"_name"] = c16Val{kind: 's', s: name}
		}
	}
	for _, kf := range [][2]string{{"tpa", "taxonomic_path"}, {"trk", "taxonomic_rank"}, {"tsc", "scienctific_name"}} {
		if (kf[0] == "tpa" && sp.tpath) || (kf[0] == "trk" && sp.trank) || (kf[0] == "tsc" && sp.sci) {
			v := t.taxString(kf[0], r)
			if v == "F" {
				return "fatal"
			}
			x, _ := c16Ascii(v)
			r.attrs[kf[1]] = c16Val{kind: 's', s: x}
		}
	}
	if sp.lca != "" {
		v := t.lca(sp.lcaerr, r)
		if v == "P" {
			return "panic"
		}
		q := strings.Split(v, ",")
		// documented naming: <slot>_taxid (the suffix is not repeated), and the same stem with name / error;
		// without stem: scientific_name and lca_error
		stem := sp.lca + "_"
		if strings.HasSuffix(sp.lca, "taxid") {
			stem = strings.TrimSuffix(sp.lca, "taxid")
		}
		nameSlot, errSlot := stem+"name", stem+"error"
		if stem == "" {
			nameSlot, errSlot = "scientific_name", "lca_error"
		}
		if q[0] != "-" {
			st, _ := c16ParseVal(q[0])
			r.attrs["merged_taxid"] = st
		}
		n, _ := strconv.Atoi(q[1])
		name, _ := c16Ascii(q[2])
		ev, _ := c16ParseVal(q[3])
		r.attrs[stem+"taxid"] = c16Val{kind: 'i', n: n}
		r.attrs[nameSlot] = c16Val{kind: 's', s: name}
		r.attrs[errSlot] = ev
	}
	if sp.length {
		r.attrs["seq_length"] = c16Val{kind: 'i', n: len(r.seq)}
	}
	for _, p := range tagOrder {
		v, ok := t.evalExpr(p[1], r)
		if !ok {
			return "absent"
		}
		if v.kind == 'x' {
			return "unsupported"
		}
		if o := c16RefSet(&r, p[0], v); o != "" {
			return o
		}
	}
	if sp.aho != nil {
		f, rv := t.aho(*sp.aho, r)
		if f+rv > 0 {
			r.attrs["aho_corasick"] = c16Val{kind: 'i', n: f + rv}
			r.attrs["aho_corasick_Fwd"] = c16Val{kind: 'i', n: f}
			r.attrs["aho_corasick_Rev"] = c16Val{kind: 'i', n: rv}
		}
	}
	if sp.cut != nil && sp.cut[0] != 0 && sp.cut[1] != 0 {
		// 1-based inclusive positions; negative = counted from the end (-1 = last); clamped to the record
		n := len(r.seq)
		from, to := sp.cut[0], sp.cut[1]
		var lo, hi int // 0-based half-open
		if from > 0 {
			lo = from - 1
		} else {
			lo = n + from + 1 // as the code does: -k starts after the k-th base from the end
		}
		if to > 0 {
			hi = to
		} else {
			hi = n + to + 1
		}
		if lo < 0 {
			lo = 0
		}
		if hi > n {
			hi = n
		}
		if lo >= hi || lo >= n {
			return "absent"
		}
		r.id = fmt.Sprintf("%s_sub[%d..%d]", r.id, lo+1, hi)
		r.seq = r.seq[lo:hi]
	}
	if sp.pat != "" {
		e := 0
		if sp.pe != nil {
			e = *sp.pe
		}
		name, slot := "pattern", "pattern"
		if sp.patname != "" && sp.patname != "pattern" {
			name, slot = sp.patname, sp.patname+"_pattern"
		}
		set := func(st, en, nerr int, loc string, match []byte) {
			r.attrs[slot] = c16Val{kind: 's', s: sp.pat}
			r.attrs[name+"_match"] = c16Val{kind: 's', s: string(match)}
			r.attrs[name+"_error"] = c16Val{kind: 'i', n: nerr}
			r.attrs[name+"_location"] = c16Val{kind: 's', s: loc}
		}
		if st, en, nerr, ok := t.bestMatch(sp.pat, e, sp.indel, true, r); ok {
			set(st, en, nerr, fmt.Sprintf("%d..%d", st+1, en), r.seq[st:en])
		} else if sp.fwd {
			// --only-forward: the reverse strand is not searched
		} else if st, en, nerr, ok := t.bestMatch(sp.pat, e, sp.indel, false, r); ok {
			m := make([]byte, 0, en-st)
			for i := en - 1; i >= st; i-- {
				c := r.seq[i]
				switch c {
				case 'a':
					c = 't'
				case 't':
					c = 'a'
				case 'c':
					c = 'g'
				case 'g':
					c = 'c'
				}
				m = append(m, c)
			}
			set(st, en, nerr, fmt.Sprintf("complement(%d..%d)", st+1, en), m)
		}
	}
	return "out:" + r.show()
}

// library verdicts of the annotation workers (data for the model)

func (t *c16Table) taxonAtRank(rank string, r c16Rec) string {
	k := "tar:" + hx([]byte(rank)) + ":" + r.show()
	if v, ok := t.m[k]; ok {
		return v
	}
	res := "N"
	s := r.bio()
	out := guardT(2*time.Second, func() string {
		c16Taxonomy().SetTaxonAtRank(s, rank)
		return "ok"
	})
	if out == "ok" {
		if v, ok := s.GetAttribute(rank + "_taxid"); ok {
			n, _ := v.(int)
			name, _ := s.GetAttribute(rank + "_name")
			if n == -1 {
				res = "-"
			} else {
				res = strconv.Itoa(n) + "," + hx([]byte(fmt.Sprint(name)))
			}
		}
	}
	t.put(k, res)
	return res
}

func (t *c16Table) taxString(what string, r c16Rec) string {
	k := what + ":" + r.show()
	if v, ok := t.m[k]; ok {
		return v
	}
	res := "F"
	s := r.bio()
	out := guardT(2*time.Second, func() string {
		switch what {
		case "tpa":
			return "v" + c16Taxonomy().SetPath(s)
		case "trk":
			return "v" + c16Taxonomy().SetTaxonomicRank(s)
		}
		return "v" + c16Taxonomy().SetScientificName(s)
	})
	if strings.HasPrefix(out, "v") {
		res = hx([]byte(out[1:]))
	}
	t.put(k, res)
	return res
}

// verdict of Taxonomy.LCA through AddLCAWorker: "P" = panic, else <stat tok or ->,<taxid>,<hex name>,<error tok>
func (t *c16Table) lca(errText string, r c16Rec) string {
	et := errText
	if et == "" {
		et = "-"
	}
	k := "lca:" + et + ":" + r.show()
	if v, ok := t.m[k]; ok {
		return v
	}
	res := "P"
	s := r.bio()
	lcaErr := 0.0
	if errText != "" {
		lcaErr, _ = strconv.ParseFloat(errText, 64)
	}
	before, had := r.attrs["merged_taxid"]
	var w obiseq.SeqWorker
	out := guardT(2*time.Second, func() string {
		w = obitax.AddLCAWorker(c16Taxonomy(), "zz", 1-lcaErr)
		w(s)
		return "ok"
	})
	if out == "ok" {
		a := c16FromBio(s)
		ti, n, e := a.attrs["zz_taxid"], a.attrs["zz_name"], a.attrs["zz_error"]
		st := "-"
		if after, ok := a.attrs["merged_taxid"]; ok && (!had || after.tok() != before.tok()) {
			st = after.tok()
		}
		if ti.kind == 'i' && n.kind == 's' && (e.kind == 'f' || e.kind == 'i') && !strings.Contains(st, "x") {
			res = st + "," + strconv.Itoa(ti.n) + "," + hx([]byte(n.s)) + "," + e.tok()
		}
	}
	t.put(k, res)
	return res
}

func (t *c16Table) aho(pats []string, r c16Rec) (int, int) {
	hp := make([]string, len(pats))
	for i, p := range pats {
		hp[i] = hx([]byte(p))
	}
	k := "aho:" + strings.Join(hp, ",") + ":" + r.show()
	if v, ok := t.m[k]; ok {
		q := strings.Split(v, ",")
		a, _ := strconv.Atoi(q[0])
		b, _ := strconv.Atoi(q[1])
		return a, b
	}
	f, rv := 0, 0
	s := r.bio()
	guardT(2*time.Second, func() string {
		obicorazick.AhoCorazickWorker("x", pats)(s)
		if v, ok := s.GetIntAttribute("x_Fwd"); ok {
			f = v
		}
		if v, ok := s.GetIntAttribute("x_Rev"); ok {
			rv = v
		}
		return "ok"
	})
	t.put(k, fmt.Sprintf("%d,%d", f, rv))
	return f, rv
}

func (t *c16Table) bestMatch(pat string, e int, indel, direct bool, r c16Rec) (int, int, int, bool) {
	g, d := "n", "c"
	if indel {
		g = "i"
	}
	if direct {
		d = "d"
	}
	k := "bm:" + hx([]byte(pat)) + ":" + strconv.Itoa(e) + g + d + ":" + r.show()
	if v, ok := t.m[k]; ok {
		if v == "-" {
			return 0, 0, 0, false
		}
		q := strings.Split(v, ",")
		a, _ := strconv.Atoi(q[0])
		b, _ := strconv.Atoi(q[1])
		c, _ := strconv.Atoi(q[2])
		return a, b, c, true
	}
	res := "-"
	var st, en, nerr int
	found := false
	s := r.bio()
	gout := guardT(2*time.Second, func() string {
		p, err := obiapat.MakeApatPattern(pat, e, indel)
		if err != nil {
			return "err"
		}
		if !direct {
			p, err = p.ReverseComplement()
			if err != nil {
				return "err"
			}
		}
		as, err := obiapat.MakeApatSequence(s, false)
		if err != nil {
			return "err"
		}
		a, b, c, m := p.BestMatch(as, 0, s.Len())
		if m && a >= 0 && b <= s.Len() && a < b {
			st, en, nerr, found = a, b, c, true
		}
		return "ok"
	})
	if found {
		res = fmt.Sprintf("%d,%d,%d", st, en, nerr)
	}
	t.put(k, res)
	if gout == "ok" {
		c16apCheckBest(pat, e, indel, direct, r.seq, st, en, nerr, found) // glue pass: c16_apat.go
	}
	return st, en, nerr, found
}

// ---------------------------------------------------------------------------------------------
// execution

const c16TO = 5 * time.Second

func c16Parse(sp *c16Spec, annot bool) string {
	c16Reset()
	av := sp.argv()
	return guardT(c16TO, func() string {
		var parser obioptions.ArgumentParser
		if annot {
			parser = obioptions.GenerateOptionParser(obiannotate.OptionSet)
		} else {
			parser = obioptions.GenerateOptionParser(obigrep.OptionSet)
		}
		_, rest := parser(av)
		if len(rest) != 0 {
			return "rest"
		}
		return "ok"
	})
}

func c16Kinds(sp *c16Spec) string {
	seen := map[string]bool{}
	var ks []string
	for _, n := range sp.names {
		if n == "long" || n == "bs" || n == "w" || n == "lay" || n == "perm" || n == "nosd" || seen[n] {
			continue
		}
		seen[n] = true
		ks = append(ks, n)
	}
	sort.Strings(ks)
	return strings.Join(ks, "+")
}

func (c16) execGrep(sp *c16Spec, recs []c16Pair) (string, []Fail) {
	var fails []Fail
	tab := &c16Table{}
	// reference first (fills the table)
	exp := make([]string, len(recs))
	failing := make([][]string, len(recs))
	for i, p := range recs {
		exp[i], failing[i] = c16Selects(sp, p, tab)
	}
	caseOverride = "grep " + strings.Join(sp.toks(), " ") + " | " + c16ShowRecs(recs) + " | " + tab.String()
	if st := c16Parse(sp, false); st != "ok" {
		return st, nil
	}
	var pred obiseq.SequencePredicate
	st := guardT(c16TO, func() string {
		pred = obigrep.CLISequenceSelectionPredicate()
		if obiconvert.CLIHasPairedFile() {
			pred = pred.PairedPredicat(obigrep.CLIPairedReadMode())
		}
		return "ok"
	})
	if st != "ok" {
		if sp.paired {
			if _, ok := c16Truth[sp.pm]; !ok && st == "fatal" {
				return "fatal", nil // an unknown mode is refused
			}
		}
		return st, []Fail{{Sig: "grep.build." + st, Text: "building the predicate ended with " + st}}
	}
	var res strings.Builder
	res.WriteString("keep=")
	for i, p := range recs {
		s := p.r.bio()
		if p.mate != nil {
			s.PairTo(p.mate.bio())
		}
		v := "1"
		if pred != nil {
			v = guardT(c16TO, func() string { return b01(pred(s)) })
			if v == "fatal" {
				v = "F"
			}
		}
		if len(v) != 1 {
			res.WriteString("<" + v + ">")
		} else {
			res.WriteString(v)
		}
		if !strings.Contains(exp[i], v) {
			fs := append([]string{}, failing[i]...)
			sort.Strings(fs)
			ign := strings.Join(c16Uniq(fs), "+")
			crit := 0
			for _, n := range c16Uniq(sp.names) {
				if n != "long" && n != "v" && n != "paired" && n != "pm" {
					crit++
				}
			}
			var sig string
			onlyDefault := false
			if sp2, dn := sp.dropDefaults(); dn != "" {
				if e2, _ := c16Selects(sp2, p, tab); strings.Contains(e2, v) {
					onlyDefault = true // explained by "an option equal to its default is taken as absent"
					fs = []string{dn}
				}
			}
			switch {
			case onlyDefault:
				sig = "grep.default-value-ignored." + fs[0]
			case sp.paired:
				sig = "grep.paired-" + sp.pm + "." + c16Kinds(sp)
			case v == "1" && !sp.v:
				sig = "grep.ignored." + ign // a requested criterion the record fails was not enforced
			case v == "1" && sp.v && crit == 0:
				sig = "grep.invert-alone"
			case v == "1" && sp.v:
				sig = "grep.invert-kept." + c16Kinds(sp)
			case v == "0" && !sp.v:
				sig = "grep.overstrict." + c16Kinds(sp)
			case v == "0" && sp.v:
				sig = "grep.invert-ignored." + ign
			default:
				sig = "grep.outcome." + c16Kinds(sp)
			}
			fails = append(fails, Fail{Sig: sig, Text: fmt.Sprintf("record %d (%s): expected one of %q, the predicate says %s", i, p.r.show(), exp[i], v)})
		}
	}
	return res.String(), fails
}

func c16Uniq(s []string) []string {
	var out []string
	seen := map[string]bool{}
	for _, x := range s {
		if !seen[x] {
			seen[x] = true
			out = append(out, x)
		}
	}
	return out
}

func c16Count(s []string, x string) int {
	n := 0
	for _, y := range s {
		if y == x {
			n++
		}
	}
	return n
}

func (sp *c16Spec) toks() []string { return sp.rawToks }

func (c16) execAnnot(sp *c16Spec, recs []c16Pair) (string, []Fail) {
	var fails []Fail
	if !c16PatSeqOK(sp, recs) {
		return "bad-op", nil
	}
	tab := &c16Table{}
	ren, tag := c16SortedPairs(sp.ren), c16SortedPairs(sp.tag)
	exp := make([]string, len(recs))
	dfl := make([]string, len(recs)) // what is expected when the options equal to their defaults are taken as absent
	sp2, dn := sp.dropDefaults()
	expOf := func(spx *c16Spec, r c16Rec) string {
		acc, _ := c16Selects(spx, c16Pair{r: r}, tab)
		ed := c16RefAnnot(spx, r, tab, ren, tag) // always evaluated: fills the table of library verdicts
		switch {
		case acc == "1":
			return ed
		case acc == "0":
			return "absent"
		case acc == "F":
			return "fatal"
		}
		return "fatal|absent"
	}
	for i, p := range recs {
		exp[i] = expOf(sp, p.r)
		if dn != "" {
			dfl[i] = expOf(sp2, p.r)
		}
	}
	caseOverride = "annot " + strings.Join(sp.toks(), " ") + " | " + c16ShowRecs(recs) + " | " + tab.String()

	run := func() (string, []string) {
		if st := c16Parse(sp, true); st != "ok" {
			return st, nil
		}
		var annotator obiseq.SeqSliceWorker
		st := guardT(c16TO, func() string {
			predicate := obigrep.CLISequenceSelectionPredicate()
			worker := obiannotate.CLIAnnotationWorker()
			annotator = obiseq.SeqToSliceConditionalWorker(predicate, worker, false)
			return "ok"
		})
		if st != "ok" {
			return st, nil
		}
		out := make([]string, len(recs))
		for i, p := range recs {
			s := p.r.bio()
			out[i] = guardT(c16TO, func() string {
				sl, err := annotator(obiseq.BioSequenceSlice{s})
				if err != nil {
					return "error"
				}
				if len(sl) == 0 {
					return "absent"
				}
				if len(sl) > 1 {
					return "several"
				}
				r := c16FromBio(sl[0])
				for _, v := range r.attrs {
					if v.kind == 'x' {
						return "unsupported"
					}
				}
				return "out:" + r.show()
			})
		}
		return "ok", out
	}
	st, out := run()
	if st != "ok" {
		return st, []Fail{{Sig: "annot.build." + st, Text: "building the annotation worker ended with " + st}}
	}
	// option maps (rename-tag, set-tag) are Go maps: when the order of application matters, look for a
	// run that differs from the documented (sorted) order
	if len(ren) > 1 || len(tag) > 1 {
		for k := 0; k < 12; k++ {
			st2, out2 := run()
			if st2 == "ok" && strings.Join(out2, " ") != strings.Join(out, " ") {
				fails = append(fails, Fail{Sig: "annot.nondeterministic." + c16Kinds(sp), Text: fmt.Sprintf("two runs of the same command on the same records differ: %v vs %v", out, out2)})
				break
			}
		}
	}
	for i := range recs {
		okv := false
		for _, e := range strings.Split(exp[i], "|") {
			okv = okv || e == out[i]
		}
		if !okv {
			sig := "annot.edit." + c16Kinds(sp)
			if dfl[i] != "" && dfl[i] == out[i] {
				sig = "annot.default-value-ignored." + dn
			}
			fails = append(fails, Fail{Sig: sig, Text: fmt.Sprintf("record %d (%s): expected %s, got %s", i, recs[i].r.show(), exp[i], out[i])})
		}
	}
	return strings.Join(out, " "), fails
}

func (c16) execClass(ws []string, recs []c16Pair) (string, []Fail) {
	k1, ok1 := c16Ascii(ws[0])
	k2, ok2 := c16Ascii(ws[1])
	na, ok3 := c16Ascii(ws[2])
	if !ok1 || !ok2 || !ok3 {
		return "bad-op", nil
	}
	var fails []Fail
	out := make([]string, len(recs))
	res := guardT(c16TO, func() string {
		cl := obiseq.DualAnnotationClassifier(k1, k2, na)
		codes := map[string]int{}
		for i, p := range recs {
			s := p.r.bio()
			code := cl.Code(s)
			val := cl.Value(code)
			var keys [2]string
			if err := json.Unmarshal([]byte(val), &keys); err != nil {
				return "badjson"
			}
			out[i] = hx([]byte(keys[0])) + "," + hx([]byte(keys[1]))
			// oracle: the class is a function of the record alone: attribute value (as printed) or the NA value
			e1, e2 := na, ""
			if v, ok := p.r.attrs[k1]; ok {
				e1 = v.shown()
			}
			if k2 != "" {
				e2 = na
				if v, ok := p.r.attrs[k2]; ok {
					e2 = v.shown()
				}
			}
			if len(p.r.attrs) == 0 {
				e2 = keys[1] // a record without any annotation: the directory is "" whatever key2 (as the code does)
			}
			if e1 != keys[0] || e2 != keys[1] {
				fails = append(fails, Fail{Sig: "class.value", Text: fmt.Sprintf("record %d: class (%q,%q), expected (%q,%q)", i, keys[0], keys[1], e1, e2)})
			}
			if c, ok := codes[val]; ok && c != code {
				fails = append(fails, Fail{Sig: "class.code", Text: "two codes for one class value"})
			}
			codes[val] = code
		}
		return "ok"
	})
	if res != "ok" {
		return res, nil
	}
	return strings.Join(out, " "), fails
}

func (c16) Exec(c string) (string, []Fail) {
	c16apFails = nil
	res, fails := c16{}.exec0(c)
	return res, append(fails, c16apFails...) // + the failures of the oracle on the pattern verdicts (c16_apat.go)
}

func (c16) exec0(c string) (string, []Fail) {
	if strings.HasPrefix(c, "conc ") || strings.HasPrefix(c, "race conc ") {
		return c16ExecConc(c) // c16_conc.go
	}
	parts := strings.Split(c, " | ")
	if len(parts) < 2 || len(parts) > 3 {
		return "bad-op", nil
	}
	head := strings.Fields(parts[0])
	if len(head) > 0 && head[0] == "argv" {
		if len(parts) != 2 || parts[1] != "-" {
			return "bad-op", nil
		}
		return c16{}.execArgv(head[1:])
	}
	if len(head) > 0 && head[0] == "argvx" {
		if len(parts) != 2 || parts[1] != "-" {
			return "bad-op", nil
		}
		return c16{}.execArgvx(head[1:])
	}
	recs, ok := c16ParseRecs(parts[1])
	if len(head) == 0 || !ok {
		return "bad-op", nil
	}
	switch head[0] {
	case "distio":
		if len(parts) != 2 {
			return "bad-op", nil
		}
		return c16{}.execDistIO(head[1:], recs)
	case "grep", "annot", "grepio", "annotio":
		sp, ok := c16ParseSpec(head[1:])
		if !ok {
			return "bad-op", nil
		}
		sp.rawToks = head[1:]
		annotOnly := sp.annotOnly()
		if (head[0] == "grep" || head[0] == "annot") && (sp.nosd || sp.lay != nil || sp.perm != nil) {
			return "bad-op", nil
		}
		switch head[0] {
		case "grep":
			if annotOnly {
				return "bad-op", nil
			}
			for _, p := range recs {
				if (p.mate != nil) != sp.paired {
					return "bad-op", nil
				}
			}
			return c16{}.execGrep(sp, recs)
		case "annot":
			if sp.paired || sp.pmSet {
				return "bad-op", nil
			}
			for _, p := range recs {
				if p.mate != nil {
					return "bad-op", nil
				}
			}
			return c16{}.execAnnot(sp, recs)
		case "annotio":
			if sp.paired || sp.pmSet || sp.nosd {
				return "bad-op", nil
			}
			for _, p := range recs {
				if p.mate != nil {
					return "bad-op", nil
				}
			}
			return c16{}.execAnnotIO(sp, recs)
		default:
			if annotOnly {
				return "bad-op", nil
			}
			for _, p := range recs {
				if (p.mate != nil) != sp.paired {
					return "bad-op", nil
				}
			}
			return c16{}.execGrepIO(sp, recs)
		}
	case "class":
		if len(head) != 4 || len(parts) != 2 {
			return "bad-op", nil
		}
		return c16{}.execClass(head[1:], recs)
	}
	return "bad-op", nil
}

// ---------------------------------------------------------------------------------------------
// end to end: CLIFilterSequence with --save-discarded and -o, the files are read back

func c16ReadIds(fn string) ([]string, bool) {
	f, err := os.Open(fn)
	if err != nil {
		return nil, false
	}
	defer f.Close()
	var ids []string
	sc := bufio.NewScanner(f)
	sc.Buffer(make([]byte, 1<<16), 1<<24)
	for sc.Scan() {
		l := sc.Text()
		if strings.HasPrefix(l, ">") || strings.HasPrefix(l, "@") {
			ids = append(ids, strings.Fields(l[1:] + " ")[0])
		}
	}
	return ids, true
}

func (c16) execGrepIO(sp *c16Spec, recs []c16Pair) (string, []Fail) {
	tab := &c16Table{}
	var expKept, expDisc, mk, md []string
	fatalPossible := false
	idOK := regexp.MustCompile(`^[A-Za-z0-9_]+$`)
	for _, p := range recs {
		acc, _ := c16Selects(sp, p, tab)
		if !idOK.MatchString(p.r.id) || (p.mate != nil && !idOK.MatchString(p.mate.id)) {
			return "bad-op", nil
		}
		if len(p.r.seq) == 0 || (p.mate != nil && len(p.mate.seq) == 0) {
			return "bad-op", nil // the FASTA writer refuses empty sequences (not this property)
		}
		for _, b := range append(append([]byte{}, p.r.seq...), func() []byte {
			if p.mate != nil {
				return p.mate.seq
			}
			return nil
		}()...) {
			if b < 'a' || b > 'z' {
				return "bad-op", nil
			}
		}
		for _, e := range sp.p { // any expression error on either mate: not an end-to-end case
			if tab.evalBool(e, p.r) == "E" || (p.mate != nil && tab.evalBool(e, *p.mate) == "E") {
				fatalPossible = true
			}
		}
		switch acc {
		case "1":
			expKept = append(expKept, p.r.id)
			if p.mate != nil {
				mk = append(mk, p.mate.id)
			}
		case "0":
			expDisc = append(expDisc, p.r.id)
			if p.mate != nil {
				md = append(md, p.mate.id)
			}
		default:
			fatalPossible = true
		}
	}
	if _, ok := c16Truth[sp.pm]; !ok {
		return "bad-op", nil
	}
	if !c16LayoutOK(sp, len(recs)) {
		return "bad-op", nil
	}
	// what is expected when the options equal to their defaults are taken as absent
	sp2, dn := sp.dropDefaults()
	var alt [4][]string
	if dn != "" {
		for _, p := range recs {
			switch acc, _ := c16Selects(sp2, p, tab); acc {
			case "1":
				alt[0] = append(alt[0], p.r.id)
				if p.mate != nil {
					alt[1] = append(alt[1], p.mate.id)
				}
			case "0":
				alt[2] = append(alt[2], p.r.id)
				if p.mate != nil {
					alt[3] = append(alt[3], p.mate.id)
				}
			}
		}
	}
	caseOverride = "grepio " + strings.Join(sp.toks(), " ") + " | " + c16ShowRecs(recs) + " | " + tab.String()
	if fatalPossible {
		return "bad-op", nil // end-to-end cases are generated without failing expressions
	}
	c16Serial++
	dir := filepath.Join(c16TmpDir(), fmt.Sprintf("io%d", c16Serial))
	os.MkdirAll(dir, 0o755)
	defer os.RemoveAll(dir)
	outFn, discFn := filepath.Join(dir, "kept.fasta"), filepath.Join(dir, "disc.fasta")
	sp.io, sp.saveDisc, sp.out = true, discFn, outFn
	if st := c16Parse(sp, false); st != "ok" {
		return st, nil
	}
	st := guardT(20*time.Second, func() string {
		// the reader: batches of the requested sizes pushed in the requested order, mates zipped by PairTo
		mk := func(second bool) obiiter.IBioSequence {
			sl := make([]*obiseq.BioSequence, len(recs))
			for i, p := range recs {
				if second {
					sl[i] = p.mate.bio()
				} else {
					sl[i] = p.r.bio()
				}
			}
			return c16Source(sp, sl)
		}
		it := mk(false)
		if sp.paired {
			it = it.PairTo(mk(true))
		}
		selected := obigrep.CLIFilterSequence(it)
		obiconvert.CLIWriteBioSequences(selected, true)
		obiiter.WaitForLastPipe()
		return "ok"
	})
	if st != "ok" {
		return st, []Fail{{Sig: "grepio." + st, Text: "the filter pipeline ended with " + st}}
	}
	var fails []Fail
	show := func(ids []string) string {
		if len(ids) == 0 {
			return "-"
		}
		return strings.Join(ids, ",")
	}
	check := func(what, fn string, exp []string, must bool) string {
		ids, ok := c16ReadIds(fn)
		if !ok {
			if must || len(exp) > 0 {
				fails = append(fails, Fail{Sig: "grepio.missing-file." + what, Text: "file not written: " + filepath.Base(fn)})
			}
			return "-"
		}
		if show(ids) != show(exp) {
			fails = append(fails, Fail{Sig: "grepio." + what + "." + c16Kinds(sp), Text: fmt.Sprintf("%s: expected %s got %s", what, show(exp), show(ids))})
		}
		return show(ids)
	}
	var res []string
	if sp.paired {
		res = append(res, "kept1="+check("kept", filepath.Join(dir, "kept_R1.fasta"), expKept, false))
		res = append(res, "kept2="+check("kept-mates", filepath.Join(dir, "kept_R2.fasta"), mk, false))
		if !sp.nosd {
			res = append(res, "disc1="+check("discarded", filepath.Join(dir, "disc_R1.fasta"), expDisc, false))
			res = append(res, "disc2="+check("discarded-mates", filepath.Join(dir, "disc_R2.fasta"), md, false))
		}
	} else {
		res = append(res, "kept="+check("kept", outFn, expKept, false))
		if !sp.nosd {
			res = append(res, "disc="+check("discarded", discFn, expDisc, false))
		}
	}
	if sp.nosd {
		if _, err := os.Stat(discFn); err == nil {
			fails = append(fails, Fail{Sig: "grepio.unexpected-file", Text: "a discarded-records file is written without --save-discarded"})
		}
	}
	caseTrivial = len(recs) == 0
	if len(fails) > 0 && dn != "" {
		show := func(ids []string) string {
			if len(ids) == 0 {
				return "-"
			}
			return strings.Join(ids, ",")
		}
		var want string
		if sp.paired {
			want = "kept1=" + show(alt[0]) + " kept2=" + show(alt[1]) + " disc1=" + show(alt[2]) + " disc2=" + show(alt[3])
		} else {
			want = "kept=" + show(alt[0]) + " disc=" + show(alt[2])
		}
		if want == strings.Join(res, " ") {
			fails = []Fail{{Sig: "grepio.default-value-ignored." + dn, Text: fails[0].Text}}
		}
	}
	return strings.Join(res, " "), fails
}

// ---------------------------------------------------------------------------------------------
// generator

var c16Ids = []string{"seq1", "seq2", "read_10", "A1", "b", "seq12", "x_9", "R7"}
var c16Keys = []string{"count", "taxid", "definition", "sample", "k", "a", "b", "c", "seq_length", "taxref"}
var c16Res = []string{"^seq", "1$", "a.g", "[ct]{2}", "A", "x|y", "^$", ".", "seq(1|2)$", "^[0-9]+$", "wolf", "true", "^s", ".", "e|1|A", "^.*$", "[a-z]"}
var c16SeqRes = []string{"ACG", "^a", "tt+", "g$", "n", "c.t", "^$", "[ag]{3}", "a", "T", "[cg]", ".", "^[acgt]*$"}
var c16BoolEx = []string{"annotations.count>2", "sequence.Len()>=5", `annotations.sample=="A"`, "true", "false",
	"len(sequence)<4", `contains(annotations,"k")`, "annotations.k==annotations.a", "annotations.count>=1&&sequence.Len()>2"}
var c16ValEx = []string{"12", `"abc"`, "annotations.k", "sequence.Len()", "annotations.count+1", "sequence.Id()", "annotations.a",
	`printf("%s_x",sequence.Id())`, "1.5", `annotations.sample+"_z"`, "true", "sequence.Len()*2", "annotations.b", `"7"`}
var c16Taxids = []int{1, 2, 10, 11, 12, 13, 20, 21, 30, 31, 999}

func c16RandSeq(rng *rand.Rand) []byte {
	n := rng.Intn(13)
	if rng.Intn(8) == 0 {
		n = 0
	}
	b := make([]byte, n)
	for i := range b {
		b[i] = "acgt"[rng.Intn(4)]
	}
	return b
}

func c16RandVal(rng *rand.Rand, key string) c16Val {
	switch key {
	case "count":
		switch rng.Intn(10) {
		case 0:
			return c16Val{kind: 's', s: "3"}
		case 1:
			return c16Val{kind: 'b', b: true}
		case 2:
			return c16Val{kind: 'i', n: 0}
		}
		return c16Val{kind: 'i', n: 1 + rng.Intn(6)}
	case "taxid":
		if rng.Intn(10) == 0 {
			return c16Val{kind: 's', s: "12"}
		}
		return c16Val{kind: 'i', n: c16Taxids[rng.Intn(len(c16Taxids))]}
	case "taxref":
		return c16Val{kind: 'i', n: c16Taxids[rng.Intn(len(c16Taxids))]}
	case "definition":
		return c16Val{kind: 's', s: []string{"wolf sample", "x", "seq1 again", "Canis lupus A"}[rng.Intn(4)]}
	case "sample":
		return c16Val{kind: 's', s: []string{"A", "B", "s1", "A"}[rng.Intn(4)]}
	}
	switch rng.Intn(4) {
	case 0:
		return c16Val{kind: 'i', n: rng.Intn(30) - 5}
	case 1:
		return c16Val{kind: 'b', b: rng.Intn(2) == 0}
	}
	return c16Val{kind: 's', s: []string{"seq1", "true", "12", "acg", "A", "x y", ""}[rng.Intn(7)]}
}

func c16RandRec(rng *rand.Rand, id string) c16Rec {
	r := c16Rec{id: id, seq: c16RandSeq(rng), attrs: map[string]c16Val{}}
	if rng.Intn(6) != 0 {
		n := rng.Intn(5)
		for i := 0; i < n; i++ {
			k := c16Keys[rng.Intn(len(c16Keys))]
			r.attrs[k] = c16RandVal(rng, k)
		}
	}
	return r
}

func c16RandRecs(rng *rand.Rand, paired bool) []c16Pair {
	n := 2 + rng.Intn(5)
	perm := rng.Perm(len(c16Ids))
	ps := make([]c16Pair, n)
	for i := range ps {
		ps[i].r = c16RandRec(rng, c16Ids[perm[i]])
		if paired {
			m := c16RandRec(rng, c16Ids[perm[i]]+"m")
			ps[i].mate = &m
		}
	}
	return ps
}

func hs(s string) string { return hx([]byte(s)) }

// one option token of the given kind, with values at and around the boundaries the records define
func c16Opt(rng *rand.Rand, kind string, recs []c16Pair) []string {
	pick := func(l []string) string { return l[rng.Intn(len(l))] }
	around := func(f func(c16Rec) int) int {
		r := recs[rng.Intn(len(recs))].r
		switch rng.Intn(8) {
		case 0:
			return []int{0, 1, 2, -1, 2000000000, 1999999999}[rng.Intn(6)]
		}
		return f(r) + rng.Intn(3) - 1
	}
	rep := func(f func() string) []string {
		n := 1
		if rng.Intn(3) == 0 {
			n = 2 + rng.Intn(2)
		}
		out := make([]string, n)
		for i := range out {
			out[i] = f()
		}
		return out
	}
	key := func() string {
		if rng.Intn(3) == 0 {
			return pick(c16Keys)
		}
		r := recs[rng.Intn(len(recs))].r
		for k := range r.attrs {
			return k
		}
		return pick(c16Keys)
	}
	switch kind {
	case "l", "L":
		return []string{fmt.Sprintf("%s=%d", kind, around(func(r c16Rec) int { return len(r.seq) }))}
	case "c", "C":
		return []string{fmt.Sprintf("%s=%d", kind, around(func(r c16Rec) int { return r.count() }))}
	case "s":
		return rep(func() string { return "s=" + hs(pick(c16SeqRes)) })
	case "D":
		return rep(func() string { return "D=" + hs(pick(c16Res)) })
	case "I":
		return rep(func() string { return "I=" + hs(pick(c16Res)) })
	case "A":
		return rep(func() string { return "A=" + hs(key()) })
	case "a":
		return rep(func() string { return "a=" + hs(key()) + ":" + hs(pick(c16Res)) })
	case "p":
		return rep(func() string { return "p=" + hs(pick(c16BoolEx)) })
	case "idl":
		n := rng.Intn(4)
		if n == 0 {
			return []string{"idl=-"}
		}
		ids := make([]string, n)
		for i := range ids {
			ids[i] = hs(pick(c16Ids))
		}
		return []string{"idl=" + strings.Join(ids, ",")}
	case "v":
		return []string{"v"}
	case "r":
		return rep(func() string {
			if rng.Intn(6) == 0 {
				return "r=" + hs("taxref")
			}
			return "r=" + hs(pick([]string{"2", "10", "11", "20", "30", "1", "12"}))
		})
	case "i":
		return rep(func() string { return "i=" + pick([]string{"10", "11", "20", "30", "12", "2"}) })
	case "rank":
		return rep(func() string { return "rank=" + hs(pick([]string{"species", "genus", "family", "order", "kingdom"})) })
	case "ap":
		out := rep(func() string { return "ap=" + hs(pick([]string{"acgt", "ttga", "aaa", "cgta", "gg"})) })
		if rng.Intn(2) == 0 {
			out = append(out, fmt.Sprintf("pe=%d", rng.Intn(2)))
		}
		if rng.Intn(4) == 0 {
			out = append(out, "indel")
		}
		if rng.Intn(3) == 0 {
			out = append(out, "fwd")
		}
		return out
	case "clear":
		return []string{"clear"}
	case "len":
		return []string{"len"}
	case "setid":
		return []string{"setid=" + hs(pick(c16ValEx))}
	case "del":
		return rep(func() string { return "del=" + hs(key()) })
	case "keep":
		return rep(func() string { return "keep=" + hs(key()) })
	case "ren":
		return rep(func() string {
			nw := pick([]string{"a", "b", "c", "n1", "sample", "id", "k"})
			old := key()
			if rng.Intn(8) == 0 {
				old = pick([]string{"id", "sequence", "a", "b"})
			}
			return "ren=" + hs(nw) + ":" + hs(old)
		})
	case "tag":
		return rep(func() string {
			k := pick([]string{"a", "b", "k", "t1", "t2", "count", "sample"})
			if rng.Intn(25) == 0 {
				k = pick([]string{"id", "sequence"})
			}
			return "tag=" + hs(k) + ":" + hs(pick(c16ValEx))
		})
	case "atrank":
		return rep(func() string { return "atrank=" + hs(pick([]string{"species", "genus", "family", "order", "kingdom", "class"})) })
	case "path":
		return []string{"path"}
	case "trank":
		return []string{"trank"}
	case "sci":
		return []string{"sci"}
	case "aho":
		n := 1 + rng.Intn(3)
		ps := make([]string, n)
		for i := range ps {
			ps[i] = hs(pick([]string{"ac", "gt", "a", "ttg", "cg", "acgt"}))
		}
		return []string{"aho=" + strings.Join(ps, ",")}
	case "pat":
		out := []string{"pat=" + hs(pick([]string{"acgt", "ttga", "aaa", "cgta", "gg", "ac"}))}
		if rng.Intn(2) == 0 {
			out = append(out, "patname="+hs(pick([]string{"primer", "pattern", "p_x"})))
		}
		if rng.Intn(2) == 0 {
			out = append(out, fmt.Sprintf("pe=%d", rng.Intn(2)))
		}
		if rng.Intn(4) == 0 {
			out = append(out, "indel")
		}
		if rng.Intn(3) == 0 {
			out = append(out, "fwd")
		}
		return out
	case "lca":
		out := []string{"lca=" + hs(pick([]string{"lca", "taxid", "merged", "sp_taxid", "x", "lca_taxid"}))}
		if rng.Intn(2) == 0 {
			out = append(out, "lcaerr="+pick([]string{"0", "0.1", "0.25", "0.3", "0.49"}))
		}
		return out
	case "cut":
		r := recs[rng.Intn(len(recs))].r
		n := len(r.seq)
		v := func() int {
			switch rng.Intn(6) {
			case 0:
				return -(1 + rng.Intn(4))
			case 1:
				return n + rng.Intn(3) - 1
			case 2:
				return 0
			}
			return 1 + rng.Intn(8)
		}
		return []string{fmt.Sprintf("cut=%d:%d", v(), v())}
	}
	return nil
}

var c16GrepKinds = []string{"l", "L", "c", "C", "s", "D", "I", "A", "a", "p", "idl", "v", "r", "i", "rank", "ap"}
var c16AnnotKinds = []string{"clear", "setid", "del", "keep", "ren", "len", "tag", "cut"}
var c16LibKinds = []string{"atrank", "path", "trank", "sci", "aho", "pat"}

// the --pattern cases run on non-empty acgt sequences
func c16PatSeqOK(sp *c16Spec, recs []c16Pair) bool {
	if sp.pat == "" {
		return true
	}
	for _, p := range recs {
		if len(p.r.seq) == 0 {
			return false
		}
		for _, b := range p.r.seq {
			if b != 'a' && b != 'c' && b != 'g' && b != 't' {
				return false
			}
		}
	}
	return true
}
var c16Modes = []string{"forward", "reverse", "and", "or", "andnot", "xor"}

func (c16) Gen(rng *rand.Rand, tier string, emit func(string)) {
	// corpus: the cases that pinned the defects found, and a few hand-picked nasty ones
	for _, c := range []string{
		// D8: --max-count alone was ignored
		"grep C=3 | 61,61636774,636f756e74=i5 ; 62,61636774,636f756e74=i2 ; 63,61636774,-",
		"grep C=3 L=100 | 61,61636774,636f756e74=i5 ; 62,61636774,636f756e74=i2",
		// -v without any criterion kept everything
		"grep v | 61,61636774,- ; 62,-,6b=s78",
		// explicit -l 1 / -c 1 were indistinguishable from the defaults (1) and ignored
		"grep l=1 | 61,-,- ; 62,61,-", "grep l=0 | 61,-,- ; 62,61,-", "grep l=1 v | 61,-,- ; 62,61,-",
		"grep c=1 | 61,6163,636f756e74=i0 ; 62,6163,-", "grep c=0 | 61,6163,636f756e74=i0 ; 62,6163,-",
		// D9: several --set-tag, only one was applied; the order is the one of a Go map
		"annot tag=61:3132 tag=62:2261626322 tag=63:73657175656e63652e4c656e2829 | 7231,61636774,-",
		"annot tag=62:616e6e6f746174696f6e732e612b2278222b2279222b227a22 tag=61:2271222b2272222b2273222b227422 | 7231,61636774,-",
		// rename chains depend on the order of a Go map
		"annot ren=61:62 ren=62:63 | 7231,61636774,62=s42;63=s43",
		// D10: --cut kept the bounds clamped by the previous records
		"annot cut=-3:-1 | 7231,61636774616367746163,- ; 7232,74747474747474746767,- ; 7233,6363,-",
		"annot cut=2:5 | 7231,61636774616367746163,- ; 7232,616367,- ; 7233,61636774616367746163,-",
		// a selection option without any edit called a nil worker
		"annot l=3 | 7231,61636774,- ; 7232,6163,-",
		// reserved keys
		"annot tag=6964:22616222 | 7231,61636774,-", "annot tag=6964:3132 | 7231,61636774,-", "annot tag=73657175656e6365:226163677422 | 7231,61636774,-",
		"annot ren=78:6964 ren=79:73657175656e6365 | 7231,61636774,- ; 7232,-,6b=i3",
		"annot cut=0:5 | 7231,61636774616367746163,-", "annot cut=5:0 | 7231,61636774616367746163,-", "annot cut=3:3 | 7231,616367746163,-",
		"annot clear len keep=6b del=6b | 7231,61636774,6b=i3;61=s78",
		"annot setid=616e6e6f746174696f6e732e6d697373696e67 | 7231,61636774,6b=i3",
		"grep p=616e6e6f746174696f6e732e6d697373696e673d3d33 | 7231,61636774,6b=i3",
		"grep l=5 p=616e6e6f746174696f6e732e6d697373696e673d3d33 | 7231,61636774,6b=i3",
		// --only-forward had no effect on obiannotate --pattern (MatchPatternWorker ignored bothStrand)
		"annot pat=61636774 fwd | 7231,6161636761636774,- ; 7232,61616163677474,- ; 7233,616161616161,-",
		"annot pat=61636774 | 7231,6161636761636774,- ; 7232,61616163677474,- ; 7233,616161616161,-",
		"annot pat=67676163 patname=7072696d6572 pe=1 fwd | 7231,6774636361,- ; 7232,6767616361,-",
		// --add-lca-in: slot names, merged_taxid statistics present / created, unknown taxid
		"annot lca=6c6361 | 7231,61636774,7461786964=i12 ; 7232,61636774,6d65726765645f7461786964=m31323a322c31333a31 ; 7233,61636774,6d65726765645f7461786964=m31323a312c32313a33",
		"annot lca=7461786964 lcaerr=0.3 | 7231,61636774,6d65726765645f7461786964=m31323a332c31333a312c32313a31 ; 7232,61636774,7461786964=s3133",
		"annot lca=6d6572676564 | 7231,61636774,7461786964=i21",
		"annot lca=78 | 7231,61636774,7461786964=i999 ; 7232,61636774,-",
		"grep paired pm=786f72 l=3 | 61,61636774,- + 616d,6163,- ; 62,61,- + 626d,61,-",
		"grep paired pm=6e6f6e65 l=3 | 61,61636774,- + 616d,6163,-",
		"grep idl=- | 61,61636774,-", "grep | 61,61636774,-", "grep l=2 | ",
		"class 73616d706c65 - 4e41 | 61,6163,73616d706c65=s41 ; 62,6163,- ; 63,6163,6b=i1 ; 64,6163,73616d706c65=i7",
		"class 73616d706c65 646972 4e41 | 61,6163,73616d706c65=s41;646972=s64 ; 62,6163,- ; 63,6163,6b=i1 ; 64,6163,73616d706c65=b1",
		// (S1, lib:A) and (S1:lib, A) are two classes
		"class 73616d706c65 72756e 4e41 | 61,6163,73616d706c65=s5331;72756e=s6c69623a41 ; 62,6163,73616d706c65=s53313a6c6962;72756e=s41 ; 63,6163,73616d706c65=s5331;72756e=s6c69623a41",
		"grepio l=3 bs=2 w=2 | 61,61636774,- ; 62,6163,- ; 63,616367,- ; 64,61,- ; 65,6163677461,-",
		"grepio v bs=2 w=2 | 61,61636774,- ; 62,6163,-",
		"grepio paired pm=616e64 l=3 bs=2 w=3 | 61,61636774,- + 616d,6163,- ; 62,616161,- + 626d,61616161,- ; 63,61,- + 636d,61,-",
	} {
		emit(c)
	}
	nrand := 350
	if tier == "thorough" {
		nrand = 2500
	}
	join := func(op string, toks []string, recs []c16Pair) string {
		if rng.Intn(3) == 0 {
			toks = append(toks, "long")
		}
		return strings.TrimSpace(op+" "+strings.Join(toks, " ")) + " | " + c16ShowRecs(recs)
	}
	// each option alone (3 values), every pair
	for _, k := range c16GrepKinds {
		for j := 0; j < 3; j++ {
			recs := c16RandRecs(rng, false)
			emit(join("grep", c16Opt(rng, k, recs), recs))
			stat("grep.single")
		}
	}
	for i, k1 := range c16GrepKinds {
		for _, k2 := range c16GrepKinds[i+1:] {
			recs := c16RandRecs(rng, false)
			emit(join("grep", append(c16Opt(rng, k1, recs), c16Opt(rng, k2, recs)...), recs))
			stat("grep.pair")
		}
	}
	subset := func(kinds []string, recs []c16Pair, min int) []string {
		n := min + rng.Intn(3)
		var toks []string
		for _, i := range rng.Perm(len(kinds))[:n] {
			toks = append(toks, c16Opt(rng, kinds[i], recs)...)
		}
		return toks
	}
	for i := 0; i < nrand; i++ {
		recs := c16RandRecs(rng, false)
		emit(join("grep", subset(c16GrepKinds, recs, 1+rng.Intn(2)), recs))
		stat("grep.subset")
	}
	// paired modes: every mode with every single option, and random subsets
	for _, m := range c16Modes {
		for _, k := range c16GrepKinds {
			recs := c16RandRecs(rng, true)
			emit(join("grep", append([]string{"paired", "pm=" + hs(m)}, c16Opt(rng, k, recs)...), recs))
			stat("grep.paired")
		}
	}
	for i := 0; i < nrand/2; i++ {
		recs := c16RandRecs(rng, true)
		toks := []string{"paired"}
		if rng.Intn(6) != 0 {
			toks = append(toks, "pm="+hs(c16Modes[rng.Intn(6)]))
		}
		emit(join("grep", append(toks, subset(c16GrepKinds, recs, 1)...), recs))
		stat("grep.paired")
	}
	// edits: alone, pairs, subsets, with selection
	for _, k := range c16AnnotKinds {
		for j := 0; j < 4; j++ {
			recs := c16RandRecs(rng, false)
			emit(join("annot", c16Opt(rng, k, recs), recs))
			stat("annot.single")
		}
	}
	for i, k1 := range c16AnnotKinds {
		for _, k2 := range c16AnnotKinds[i+1:] {
			for j := 0; j < 2; j++ {
				recs := c16RandRecs(rng, false)
				emit(join("annot", append(c16Opt(rng, k1, recs), c16Opt(rng, k2, recs)...), recs))
				stat("annot.pair")
			}
		}
	}
	for i := 0; i < nrand; i++ {
		recs := c16RandRecs(rng, false)
		toks := subset(c16AnnotKinds, recs, 1)
		if rng.Intn(3) == 0 {
			toks = append(toks, subset(c16GrepKinds, recs, 1)[:1]...)
			stat("annot.with-selection")
		}
		emit(join("annot", toks, recs))
		stat("annot.subset")
	}
	// library-driven annotation workers: alone (3 draws), with each edit kind, random subsets
	fix := func(recs []c16Pair) []c16Pair {
		for j := range recs {
			if len(recs[j].r.seq) == 0 {
				recs[j].r.seq = []byte("acgtt")
			}
		}
		return recs
	}
	for _, k := range c16LibKinds {
		for j := 0; j < 3; j++ {
			recs := fix(c16RandRecs(rng, false))
			emit(join("annot", c16Opt(rng, k, recs), recs))
			stat("annot.lib.single")
		}
		for _, k2 := range c16AnnotKinds {
			recs := fix(c16RandRecs(rng, false))
			emit(join("annot", append(c16Opt(rng, k, recs), c16Opt(rng, k2, recs)...), recs))
			stat("annot.lib.pair")
		}
	}
	for i := 0; i < nrand/3; i++ {
		recs := fix(c16RandRecs(rng, false))
		var toks []string
		for _, i := range rng.Perm(len(c16LibKinds))[:1+rng.Intn(3)] {
			toks = append(toks, c16Opt(rng, c16LibKinds[i], recs)...)
		}
		if rng.Intn(2) == 0 {
			toks = append(toks, subset(c16AnnotKinds, recs, 1)...)
		}
		if rng.Intn(4) == 0 {
			toks = append(toks, c16Opt(rng, []string{"l", "c", "A", "I"}[rng.Intn(4)], recs)...)
		}
		emit(join("annot", toks, recs))
		stat("annot.lib.subset")
	}
	// --add-lca-in: records with a taxid and / or merged_taxid statistics
	lcaRecs := func() []c16Pair {
		recs := fix(c16RandRecs(rng, false))
		for j := range recs {
			a := recs[j].r.attrs
			switch rng.Intn(10) {
			case 0: // as drawn (often without taxid: panic)
			case 1, 2, 3:
				n := 1 + rng.Intn(3)
				m := map[string]int{}
				for k := 0; k < n; k++ {
					m[strconv.Itoa([]int{12, 13, 21, 31, 11, 10, 2}[rng.Intn(7)])] = 1 + rng.Intn(3)
				}
				a["merged_taxid"] = c16Val{kind: 'm', s: c16MapText(m)}
			default:
				a["taxid"] = c16Val{kind: 'i', n: []int{12, 13, 21, 31, 11, 10, 2, 1}[rng.Intn(8)]}
			}
		}
		return recs
	}
	for i := 0; i < 6+nrand/12; i++ {
		recs := lcaRecs()
		toks := c16Opt(rng, "lca", recs)
		switch rng.Intn(4) {
		case 0:
			toks = append(toks, subset(c16AnnotKinds, recs, 1)...)
		case 1:
			toks = append(toks, c16Opt(rng, c16LibKinds[rng.Intn(len(c16LibKinds))], recs)...)
		}
		emit(join("annot", toks, recs))
		stat("annot.lca")
	}
	// classifier of obidistribute
	for i := 0; i < nrand/6; i++ {
		recs := c16RandRecs(rng, false)
		k2 := "-"
		if rng.Intn(2) == 0 {
			k2 = hs(c16Keys[rng.Intn(len(c16Keys))])
		}
		emit(fmt.Sprintf("class %s %s %s | %s", hs(c16Keys[rng.Intn(len(c16Keys))]), k2, hs([]string{"NA", "none", "x"}[rng.Intn(3)]), c16ShowRecs(recs)))
		stat("class")
	}
	// class values that collide under a naive concatenation of the two keys: (a, b<sep>c) and (a<sep>b, c)
	for i := 0; i < 8+nrand/40; i++ {
		sep := []string{":", ",", "|", ";", " ", "\"", "\\", "", "-", "_", "/", "[", "\",\""}[rng.Intn(13)]
		a, b, c := []string{"S1", "x", "", "A"}[rng.Intn(4)], []string{"lib", "y", "B", ""}[rng.Intn(4)], []string{"A", "z", "", "q"}[rng.Intn(4)]
		fam := [][2]string{{a, b + sep + c}, {a + sep + b, c}, {a + sep, b + c}, {a, b + c}}
		n := 3 + rng.Intn(5)
		recs := make([]c16Pair, n)
		for j := range recs {
			f := fam[rng.Intn(len(fam))]
			recs[j].r = c16Rec{id: fmt.Sprintf("r%d", j), seq: []byte("acgt"), attrs: map[string]c16Val{
				"k1": {kind: 's', s: f[0]}, "k2": {kind: 's', s: f[1]}}}
			if rng.Intn(6) == 0 {
				delete(recs[j].r.attrs, []string{"k1", "k2"}[rng.Intn(2)])
			}
		}
		k2 := hs("k2")
		if rng.Intn(5) == 0 {
			k2 = "-"
		}
		emit(fmt.Sprintf("class %s %s %s | %s", hs("k1"), k2, hs([]string{"NA", "none", ""}[rng.Intn(3)]+"x"), c16ShowRecs(recs)))
		stat("class.colliding")
	}
	// end to end
	for i := 0; i < nrand/6; i++ {
		paired := rng.Intn(3) == 0
		recs := c16RandRecs(rng, paired)
		for len(recs) < 9 && rng.Intn(3) != 0 {
			more := c16RandRecs(rng, paired)
			for j := range more {
				more[j].r.id = fmt.Sprintf("%s_%d", more[j].r.id, len(recs))
				if paired {
					more[j].mate.id = more[j].r.id + "m"
				}
			}
			recs = append(recs, more...)
		}
		for j := range recs {
			if len(recs[j].r.seq) == 0 {
				recs[j].r.seq = []byte("a")
			}
			if paired && len(recs[j].mate.seq) == 0 {
				recs[j].mate.seq = []byte("tt")
			}
		}
		var toks []string
		if paired {
			toks = append(toks, "paired", "pm="+hs(c16Modes[rng.Intn(6)]))
		}
		kinds := []string{"l", "L", "c", "C", "s", "I", "A", "a", "idl", "v", "D"}
		toks = append(toks, subset(kinds, recs, 1)...)
		toks = append(toks, fmt.Sprintf("bs=%d", 1+rng.Intn(4)), fmt.Sprintf("w=%d", 2+rng.Intn(3)))
		emit(join("grepio", toks, recs))
		stat("grepio")
	}
	c16GenPipe(rng, tier, emit, join)
	c16GenArgv(rng, tier, emit)
	c16GenArgvx(rng, tier, emit)
	c16GenConc(rng, tier, emit) // last: the cases above keep their PRNG draws
	c16GenApat(rng, tier, emit, join) // glue pass (after the conc cases, which keep their draws)
}
