//go:build c05

package main

// C05, glue pass: the merge of the per-worker partial results of the aggregating commands.
//
// obisummary gives every worker goroutine its own DataSummary and merges them with DataSummary.Add, one field at
// a time. The Lean model (Model/Summary.lean) has Update / Add / ISummary field by field and the theorem
// summary_merge_is_sum; it is tied to the real code at three levels:
//
//	sadd seed= n= mode= w= asg=          in-process, the real Update on every share and the real Add in ISummary's order
//	                                     (EXPLICIT shares: which worker meets which record), the 13 fields compared
//	isum seed= n= mode= w= bs= park= rep= in-process, the real ISummary on an iterator fed by the harness, `w` workers
//	                                     (obioptions.SetMaxCPU), batches of `bs` records; park=1: the workers are all
//	                                     waiting on the channel before the first batch is pushed (the first `w` batches
//	                                     then go to `w` different workers)
//	run summary-indep / summary-status … the real binary (option parser, reader, ISummary, JSON marshalling)
//
// In the generated records every annotation is INDEPENDENTLY present or absent (obiclean_status without
// obiclean_weight, merged_sample without status, sample with merged_sample, a status that is not a map, …).
// The features of a record given to the model come from the generator's own description of the record, not from
// the code under test; c05GlueExpected is the brute-force reference (whole-input loops, no partial result).

import (
	"encoding/json"
	"fmt"
	"math/rand"
	"sort"
	"strconv"
	"strings"
	"sync"
	"time"

	"git.metabarcoding.org/obitools/obitools4/obitools4/pkg/obiformats"
	"git.metabarcoding.org/obitools/obitools4/obitools4/pkg/obiiter"
	"git.metabarcoding.org/obitools/obitools4/obitools4/pkg/obioptions"
	"git.metabarcoding.org/obitools/obitools4/obitools4/pkg/obiseq"
	"git.metabarcoding.org/obitools/obitools4/obitools4/pkg/obitools/obisummary"
)

func init() {
	c05Scenarios = append(c05Scenarios,
		// every annotation independently present or absent
		c05Scenario{name: "summary-indep", cmd: "obisummary", kind: "dsum", input: "sum-indep", light: true, stress: 1200},
		// every record carries obiclean_status (the obiclean_bad column is printed), obiclean_weight independently
		c05Scenario{name: "summary-status", cmd: "obisummary", kind: "dsum", input: "sum-status", light: true, stress: 1200},
		// --no-order with several input files: the files are read concurrently, the order between files is not
		// claimed, the multiset of records is
		c05Scenario{name: "convert-noorder", cmd: "obiconvert", args: []string{"--no-order"}, kind: "set", input: "noorder-files", light: true, stress: 1200},
		// the first batches of the stream give no amplicon at all: the writer meets empty batches first
		c05Scenario{name: "pcr-lead-empty", cmd: "obipcr", args: []string{"--forward", "ggtagcgtatcgtaca", "--reverse", "ttgcatcgatcggatc", "-e", "2", "-L", "200"}, kind: "records", input: "pcr-lead", light: true, stress: 1200},
	)
}

// c05GRec : a generated record as the generator describes it
type c05GRec struct {
	id, seq      string
	count        int               // -1: no count attribute
	merged       map[string]int    // nil: no merged_sample
	mergedScalar bool              // merged_sample present but not a map
	status       map[string]string // nil: no map-valued obiclean_status
	statusScalar bool              // obiclean_status present but a plain string
	weight       map[string]int    // nil: no obiclean_weight
	sample       string            // "": no sample attribute
	scalars      []string          // other scalar-valued keys
	vectors      []string
	maps         []string
}

func c05GlueGen(mode string, seed int64, nrec int) []c05GRec {
	r := rand.New(rand.NewSource(seed*104729 + int64(len(mode))))
	names := []string{"a", "b", "cc"}
	recs := make([]c05GRec, nrec)
	// sub-mode of the weight for the "status" inputs: 0 independent, 1 nobody, 2 all but the last, 3 all but the first
	wmode := r.Intn(4)
	for i := range recs {
		g := &recs[i]
		g.id = fmt.Sprintf("s%04d", i)
		g.seq = string(c05Dna(r, 5+r.Intn(60)))
		g.count = -1
		if r.Intn(2) == 0 {
			g.count = r.Intn(6)
			if g.count == 0 && r.Intn(3) != 0 {
				g.count = 1
			}
		}
		allStatus := mode == "sum-status"
		if r.Intn(2) == 0 || (allStatus && r.Intn(4) != 0) {
			g.merged = map[string]int{}
			for _, k := range names {
				if r.Intn(2) == 0 {
					g.merged[k] = []int{1, 1, 2, 3, 0}[r.Intn(5)]
				}
			}
			if len(g.merged) == 0 {
				g.merged["a"] = 1 + r.Intn(2)
			}
		} else if r.Intn(12) == 0 {
			g.mergedScalar = true
		}
		if allStatus || r.Intn(3) == 0 {
			if r.Intn(14) == 0 {
				g.statusScalar = true
			} else {
				g.status = map[string]string{}
				for _, k := range append(names, "zz") {
					if r.Intn(3) != 0 {
						g.status[k] = []string{"h", "i", "i", "s"}[r.Intn(4)]
					}
				}
			}
		}
		hasW := r.Intn(2) == 0
		if allStatus {
			switch wmode {
			case 1:
				hasW = false
			case 2:
				hasW = i != nrec-1
			case 3:
				hasW = i != 0
			}
		}
		if hasW {
			g.weight = map[string]int{"a": 1 + r.Intn(5)}
		}
		if r.Intn(3) == 0 {
			g.sample = []string{"a", "b", "dd"}[r.Intn(3)]
		}
		for k := 0; k < 4; k++ {
			if r.Intn(4) == 0 {
				g.scalars = append(g.scalars, fmt.Sprintf("k%d", k))
			}
		}
		if r.Intn(4) == 0 {
			g.vectors = append(g.vectors, "path")
		}
		if r.Intn(5) == 0 {
			g.maps = append(g.maps, "mm")
		}
	}
	return recs
}

func c05SortedKeys[V any](m map[string]V) []string {
	ks := make([]string, 0, len(m))
	for k := range m {
		ks = append(ks, k)
	}
	sort.Strings(ks)
	return ks
}

// text : the FASTA text of the record
func (g *c05GRec) text() string {
	var items []string
	if g.count >= 0 {
		items = append(items, fmt.Sprintf("\"count\":%d", g.count))
	}
	imap := func(name string, m map[string]int) {
		var p []string
		for _, k := range c05SortedKeys(m) {
			p = append(p, fmt.Sprintf("\"%s\":%d", k, m[k]))
		}
		items = append(items, fmt.Sprintf("\"%s\":{%s}", name, strings.Join(p, ",")))
	}
	if g.merged != nil {
		imap("merged_sample", g.merged)
	}
	if g.mergedScalar {
		items = append(items, "\"merged_sample\":3")
	}
	if g.status != nil {
		var p []string
		for _, k := range c05SortedKeys(g.status) {
			p = append(p, fmt.Sprintf("\"%s\":\"%s\"", k, g.status[k]))
		}
		items = append(items, fmt.Sprintf("\"obiclean_status\":{%s}", strings.Join(p, ",")))
	}
	if g.statusScalar {
		items = append(items, "\"obiclean_status\":\"i\"")
	}
	if g.weight != nil {
		imap("obiclean_weight", g.weight)
	}
	if g.sample != "" {
		items = append(items, fmt.Sprintf("\"sample\":\"%s\"", g.sample))
	}
	for _, k := range g.scalars {
		items = append(items, fmt.Sprintf("\"%s\":\"v\"", k))
	}
	for _, k := range g.vectors {
		items = append(items, fmt.Sprintf("\"%s\":[1,2]", k))
	}
	for _, k := range g.maps {
		items = append(items, fmt.Sprintf("\"%s\":{\"x\":1}", k))
	}
	if len(items) == 0 {
		return fmt.Sprintf(">%s\n%s\n", g.id, g.seq)
	}
	return fmt.Sprintf(">%s {%s}\n%s\n", g.id, strings.Join(items, ","), g.seq)
}

// key lists by kind, as the generator knows them
func (g *c05GRec) keys() (sc, mp, vc []string) {
	if g.count >= 0 {
		sc = append(sc, "count")
	}
	if g.merged != nil {
		mp = append(mp, "merged_sample")
	}
	if g.mergedScalar {
		sc = append(sc, "merged_sample")
	}
	if g.status != nil {
		mp = append(mp, "obiclean_status")
	}
	if g.statusScalar {
		sc = append(sc, "obiclean_status")
	}
	if g.weight != nil {
		mp = append(mp, "obiclean_weight")
	}
	if g.sample != "" {
		sc = append(sc, "sample")
	}
	sc = append(sc, g.scalars...)
	vc = append(vc, g.vectors...)
	mp = append(mp, g.maps...)
	return
}

func (g *c05GRec) cnt() int {
	if g.count < 0 {
		return 1
	}
	return g.count
}

// token : the features of the record for the model (see Driver/C05.lean, `parseSRec`)
func (g *c05GRec) token() string {
	hk := func(l []string) string {
		if len(l) == 0 {
			return "-"
		}
		h := make([]string, len(l))
		for i, k := range l {
			h[i] = hx([]byte(k))
		}
		return strings.Join(h, ",")
	}
	merged := "-"
	if g.mergedScalar {
		merged = "+"
	}
	if g.merged != nil {
		var p []string
		for _, k := range c05SortedKeys(g.merged) {
			p = append(p, hx([]byte(k))+"="+strconv.Itoa(g.merged[k]))
		}
		merged = strings.Join(p, ",")
	}
	status := "-"
	if g.status != nil {
		status = "+"
		var p []string
		for _, k := range c05SortedKeys(g.status) {
			v := "0"
			if g.status[k] == "i" {
				v = "1"
			}
			p = append(p, hx([]byte(k))+"="+v)
		}
		if len(p) > 0 {
			status = strings.Join(p, ",")
		}
	}
	sample := "-"
	if g.sample != "" {
		sample = hx([]byte(g.sample))
	}
	b := func(x bool) string {
		if x {
			return "1"
		}
		return "0"
	}
	sc, mp, vc := g.keys()
	return fmt.Sprintf("%d/%d/%s/%s/%s/%s/%s/%s/%s/%s", g.cnt(), len(g.seq), merged, status, sample,
		b(g.status != nil || g.statusScalar), b(g.weight != nil), hk(sc), hk(mp), hk(vc))
}

// c05GlueExpected : the document obisummary must print for the records, as canonical `path value` lines —
// brute force over the whole input, one figure at a time
func c05GlueExpected(recs []c05GRec) string {
	doc := map[string]int{}
	doc["count/variants"] = len(recs)
	doc["count/reads"], doc["count/total_length"] = 0, 0
	nstatus := 0
	kinds := [3]map[string]int{{}, {}, {}}
	samples := map[string]bool{}
	for i := range recs {
		g := &recs[i]
		doc["count/reads"] += g.cnt()
		doc["count/total_length"] += len(g.seq)
		if g.status != nil || g.statusScalar {
			nstatus++
		}
		sc, mp, vc := g.keys()
		for j, l := range [3][]string{sc, mp, vc} {
			for _, k := range l {
				kinds[j][k]++
			}
		}
		for k := range g.merged {
			samples[k] = true
		}
		if g.merged == nil && !g.mergedScalar && g.sample != "" {
			samples[g.sample] = true
		}
	}
	if len(kinds[0])+len(kinds[1])+len(kinds[2]) > 0 {
		for j, nm := range []string{"scalar", "map", "vector"} {
			doc["annotations/"+nm+"_attributes"] = len(kinds[j])
			for k, v := range kinds[j] {
				doc["annotations/keys/"+nm+"/"+k] = v
			}
		}
	}
	if len(samples) > 0 {
		doc["samples/sample_count"] = len(samples)
		for s := range samples {
			reads, variants, singletons, bad := 0, 0, 0, 0
			for i := range recs {
				g := &recs[i]
				if g.merged != nil {
					if v, ok := g.merged[s]; ok {
						reads += v
						variants++
						if v == 1 {
							singletons++
						}
						if v > 1 && g.status != nil && g.status[s] == "i" {
							bad++
						}
					}
				} else if !g.mergedScalar && g.sample == s {
					reads += g.cnt()
					variants++
					if g.cnt() == 1 {
						singletons++
					}
				}
			}
			p := "samples/sample_stats/" + s + "/"
			doc[p+"reads"], doc[p+"variants"], doc[p+"singletons"] = reads, variants, singletons
			if nstatus == len(recs) {
				doc[p+"obiclean_bad"] = bad
			}
		}
	}
	ks := c05SortedKeys(doc)
	sort.SliceStable(ks, func(i, j int) bool { return len(ks[i]) < len(ks[j]) })
	var sb strings.Builder
	for _, k := range ks {
		fmt.Fprintf(&sb, "%s %d\n", k, doc[k])
	}
	return sb.String()
}

// c05GlueTexts : the input texts of the glue scenarios (c05Records)
func c05GlueTexts(input string, r *rand.Rand, seed int64, nrec int) ([][2]string, bool) {
	switch input {
	case "sum-indep", "sum-status":
		g := c05GlueGen(input, seed, nrec)
		recs := make([][2]string, nrec)
		for i := range g {
			recs[i][0] = g[i].text()
		}
		return recs, true
	case "pcr-lead":
		// no priming site at all in the first two thirds of the records
		recs := make([][2]string, nrec)
		for i := range recs {
			t := append([]byte{}, c05Dna(r, 20+r.Intn(40))...)
			if i >= 2*nrec/3 || (nrec < 3 && i == nrec-1) {
				for k := 0; k < 1+r.Intn(2); k++ {
					t = append(t, "ggtagcgtatcgtaca"...)
					t = append(t, c05Dna(r, 20+r.Intn(60))...)
					t = append(t, c05Rc([]byte("ttgcatcgatcggatc"))...)
					t = append(t, c05Dna(r, 5+r.Intn(30))...)
				}
			}
			recs[i][0] = fmt.Sprintf(">s%04d\n%s\n", i, t)
		}
		return recs, true
	case "noorder-files":
		recs := make([][2]string, nrec)
		for i := range recs {
			recs[i][0] = fmt.Sprintf(">s%05d {\"count\":%d}\n%s\n", i, 1+r.Intn(6), c05Dna(r, 20+r.Intn(80)))
		}
		return recs, true
	}
	return nil, false
}

func c05Digit36(w int) byte { return "0123456789abcdefghijklmnopqrstuvwxyz"[w%36] }

// c05GlueSection : the section of a `run` case of kind dsum (the sharing is not observable from outside the
// process: by summary_merge_is_sum any sharing gives the same document; the model is run on a round-robin one)
func c05GlueSection(mode string, g []c05GRec, nw int, asg []byte) string {
	toks := make([]string, len(g))
	for i := range g {
		toks[i] = g[i].token()
	}
	a := string(asg)
	if len(asg) == 0 {
		a = "-"
	}
	return strings.TrimSpace(fmt.Sprintf("dsum %s %d %s %s", mode, nw, a, strings.Join(toks, " ")))
}

func c05RoundRobin(n, nw int) []byte {
	asg := make([]byte, n)
	for i := range asg {
		asg[i] = c05Digit36(i % nw)
	}
	return asg
}

// c05GlueIdOracle : --no-order inputs: every input record exactly once in the output
func c05GlueIdOracle(sc *c05Scenario, nrec int, out []byte) []Fail {
	seen := map[string]int{}
	n := 0
	for _, l := range strings.Split(string(out), "\n") {
		if strings.HasPrefix(l, ">") {
			f := strings.Fields(l[1:])
			if len(f) > 0 {
				seen[f[0]]++
				n++
			}
		}
	}
	if n != nrec || len(seen) != nrec {
		missing := ""
		for i := 0; i < nrec; i++ {
			if id := fmt.Sprintf("s%05d", i); seen[id] != 1 {
				missing = id
				break
			}
		}
		return []Fail{{Sig: sc.name + ".records-lost", Text: fmt.Sprintf("%d records (%d distinct) written for %d records in the input files (first record not written exactly once: %s)", n, len(seen), nrec, missing)}}
	}
	return nil
}

// ---------------------------------------------------------------------------------------------------------
// in-process ops

var (
	c05ParsedMu sync.Mutex
	c05Parsed   = map[string][]*obiseq.BioSequence{}
)

// c05GlueSeqs : the records parsed by the real FASTA reader (annotation values of the types the reader yields);
// every call gives fresh copies
func c05GlueSeqs(mode string, seed int64, n int, g []c05GRec) ([]*obiseq.BioSequence, bool) {
	key := fmt.Sprintf("%s/%d/%d", mode, seed, n)
	c05ParsedMu.Lock()
	defer c05ParsedMu.Unlock()
	base, ok := c05Parsed[key]
	if !ok {
		var sb strings.Builder
		for i := range g {
			sb.WriteString(g[i].text())
		}
		if n > 0 {
			it, err := obiformats.ReadFasta(strings.NewReader(sb.String()), obiformats.OptionsParallelWorkers(1))
			if err != nil {
				return nil, false
			}
			it = it.SortBatches()
			for it.Next() {
				base = append(base, it.Get().Slice()...)
			}
		}
		c05Parsed[key] = base
	}
	if len(base) != n {
		return nil, false
	}
	out := make([]*obiseq.BioSequence, n)
	for i, s := range base {
		out[i] = s.Copy()
	}
	return out, true
}

func c05FieldsDump(d *obisummary.DataSummary) string {
	ints, maps := obisummary.VerifFields(d)
	var sb strings.Builder
	fmt.Fprintf(&sb, "rc=%d vc=%d sc=%d hm=%d hs=%d hw=%d", ints[0], ints[1], ints[2], ints[3], ints[4], ints[5])
	for j, nm := range []string{"tags", "maps", "vecs", "samples", "variants", "singletons", "bad"} {
		ks := c05SortedKeys(maps[j])
		sort.SliceStable(ks, func(a, b int) bool { return len(ks[a]) < len(ks[b]) })
		p := make([]string, len(ks))
		for i, k := range ks {
			p[i] = hx([]byte(k)) + ":" + strconv.Itoa(maps[j][k])
		}
		v := "-"
		if len(p) > 0 {
			v = strings.Join(p, ",")
		}
		sb.WriteString(" " + nm + "=" + v)
	}
	return sb.String()
}

func c05OpKV(c string) (string, map[string]string) {
	f := strings.Fields(c)
	kv := map[string]string{}
	for _, x := range f[1:] {
		if k := strings.IndexByte(x, '='); k > 0 {
			kv[x[:k]] = x[k+1:]
		}
	}
	return f[0], kv
}

// c05GlueExec : the ops sadd / isum
func c05GlueExec(c string) (string, []Fail) {
	base := c
	if k := strings.Index(c, " | "); k >= 0 {
		base = c[:k]
	}
	op, kv := c05OpKV(base)
	seed, e1 := strconv.ParseInt(kv["seed"], 10, 64)
	n, e2 := strconv.Atoi(kv["n"])
	nw, e3 := strconv.Atoi(kv["w"])
	mode := kv["mode"]
	if e1 != nil || e2 != nil || e3 != nil || n < 0 || nw < 1 || nw > 36 || (mode != "sum-indep" && mode != "sum-status") {
		return "bad-op", nil
	}
	stat("op:" + op)
	g := c05GlueGen(mode, seed, n)
	seqs, ok := c05GlueSeqs(mode, seed, n, g)
	if !ok {
		return "bad-op", nil
	}
	for i := range g {
		if g[i].status != nil && g[i].weight == nil {
			stat("glue-rec:status-without-weight")
		}
		if g[i].merged != nil && g[i].status == nil {
			stat("glue-rec:merged-without-status")
		}
		if g[i].merged != nil && g[i].sample != "" {
			stat("glue-rec:merged-and-sample")
		}
	}
	var fails []Fail
	switch op {
	case "sadd":
		asg := []byte(kv["asg"])
		if kv["asg"] == "-" {
			asg = nil
		}
		if len(asg) != n {
			return "bad-op", nil
		}
		caseOverride = base + " | " + c05GlueSection("fields", g, nw, asg)
		used := map[byte]bool{}
		for _, a := range asg {
			used[a] = true
		}
		stat(fmt.Sprintf("sadd-workers-with-records:%d", len(used)))
		res := guardT(20*time.Second, func() string {
			// as ISummary has it: one summary per worker, every worker updates its own with the records it meets,
			// rep = summaries[0]; rep = rep.Add(summaries[i])
			sums := make([]*obisummary.DataSummary, nw)
			for w := range sums {
				sums[w] = obisummary.NewDataSummary()
				for i, s := range seqs {
					if int(asg[i]) == int(c05Digit36(w)) {
						sums[w].Update(s)
					}
				}
			}
			rep := sums[0]
			for w := 1; w < nw; w++ {
				rep = rep.Add(sums[w])
			}
			// reference: ONE worker meets everything (fresh copies of the records)
			one := obisummary.NewDataSummary()
			seqs2, _ := c05GlueSeqs(mode, seed, n, g)
			for _, s := range seqs2 {
				one.Update(s)
			}
			got, want := c05FieldsDump(rep), c05FieldsDump(one)
			if got != want {
				fails = append(fails, Fail{Sig: "sadd.merge-is-not-the-sum", Text: fmt.Sprintf("merged summary of %d workers (assignment %s) is {%s}, the summary of the whole input by one worker is {%s}", nw, kv["asg"], got, want)})
			}
			return "ok " + got
		})
		return res, fails
	case "isum":
		bs, e4 := strconv.Atoi(kv["bs"])
		if e4 != nil || bs < 1 {
			return "bad-op", nil
		}
		caseOverride = base + " | " + c05GlueSection("doc", g, nw, c05RoundRobin(n, nw))
		res := guardT(30*time.Second, func() string {
			obioptions.SetMaxCPU(nw)
			obioptions.SetWorkerPerCore(1)
			it := obiiter.MakeIBioSequence()
			it.Add(1)
			go func() {
				if kv["park"] == "1" {
					time.Sleep(3 * time.Millisecond) // the workers are all parked on the channel
				}
				for k, o := 0, 0; k < n; k, o = k+bs, o+1 {
					sl := obiseq.MakeBioSequenceSlice()
					sl = append(sl, seqs[k:min(n, k+bs)]...)
					it.Push(obiiter.MakeBioSequenceBatch("src", o, sl))
				}
				it.Done()
			}()
			go it.WaitAndClose()
			dict := obisummary.ISummary(it, nil)
			out, err := json.MarshalIndent(dict, "", "  ")
			if err != nil {
				return "marshal-error"
			}
			cb, ok := c05SummaryCanon(out)
			if !ok {
				return "unparsable"
			}
			if want := c05GlueExpected(g); string(cb) != want {
				fails = append(fails, Fail{Sig: "isum.summary-is-not-the-summary-of-the-input", Text: fmt.Sprintf("ISummary with %d workers, batches of %d: printed {%s}, the figures counted on the input are {%s}", nw, bs, strings.ReplaceAll(string(cb), "\n", "; "), strings.ReplaceAll(want, "\n", "; "))})
			}
			return "ok " + hx(cb)
		})
		if n == 0 {
			caseTrivial = true
		}
		return res, fails
	}
	return "bad-op", nil
}

// c05GlueLines : the in-process cases
func c05GlueLines(rng *rand.Rand, tier string, add func(string)) {
	// corpus: the input of seeded regression C05-m6 (status without weight on every record), 2 records, 2 workers
	add("sadd seed=11 n=2 mode=sum-status w=2 asg=01")
	add("sadd seed=11 n=2 mode=sum-status w=2 asg=10")
	// every assignment of n records to w workers (n, w small): records spread over the workers in every way
	for _, mode := range []string{"sum-status", "sum-indep"} {
		for _, nwn := range [][2]int{{2, 3}, {3, 3}, {2, 4}} {
			nw, n := nwn[0], nwn[1]
			seed := rng.Int63n(1 << 30)
			total := 1
			for i := 0; i < n; i++ {
				total *= nw
			}
			for a := 0; a < total; a++ {
				asg := make([]byte, n)
				for i, x := 0, a; i < n; i, x = i+1, x/nw {
					asg[i] = c05Digit36(x % nw)
				}
				add(fmt.Sprintf("sadd seed=%d n=%d mode=%s w=%d asg=%s", seed, n, mode, nw, asg))
			}
		}
	}
	nr := 60
	if tier == "thorough" {
		nr = 400
	}
	for k := 0; k < nr; k++ {
		mode := []string{"sum-status", "sum-indep"}[k%2]
		n := 1 + rng.Intn(24)
		nw := 2 + rng.Intn(7)
		asg := make([]byte, n)
		for i := range asg {
			asg[i] = c05Digit36(rng.Intn(nw))
		}
		add(fmt.Sprintf("sadd seed=%d n=%d mode=%s w=%d asg=%s", rng.Int63n(1<<30), n, mode, nw, asg))
	}
	add("sadd seed=1 n=0 mode=sum-indep w=3 asg=-")
	// the real ISummary
	ni := 40
	if tier == "thorough" {
		ni = 200
	}
	add("isum seed=11 n=2 mode=sum-status w=2 bs=1 park=1 rep=0")
	add("isum seed=1 n=0 mode=sum-indep w=4 bs=1 park=1 rep=0")
	for k := 0; k < ni; k++ {
		mode := []string{"sum-status", "sum-indep"}[k%2]
		n := 1 + rng.Intn(30)
		nw := []int{1, 2, 2, 3, 4, 8, 16}[rng.Intn(7)]
		bs := []int{1, 1, 2, 3, 7}[rng.Intn(5)]
		park := 1
		if k%4 == 3 {
			park = 0
		}
		add(fmt.Sprintf("isum seed=%d n=%d mode=%s w=%d bs=%d park=%d rep=%d", rng.Int63n(1<<30), n, mode, nw, bs, park, k%3))
	}
}
