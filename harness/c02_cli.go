//go:build c02

package main

// C02, second deepening: the OBI-format entry (`__match__key__`) and the command-line round trip
// (`obiconvert` as a subprocess, with -Z, stdin, --solexa).

import (
	"bytes"
	"compress/gzip"
	"fmt"
	"io"
	"math/rand"
	"os"
	"os/exec"
	"path/filepath"
	"strconv"
	"strings"
	"sync"
	"time"

	"git.metabarcoding.org/obitools/obitools4/obitools4/pkg/obiformats"
	"git.metabarcoding.org/obitools/obitools4/obitools4/pkg/obioptions"
	"git.metabarcoding.org/obitools/obitools4/obitools4/pkg/obiseq"
)

func c02GenExtra(rng *rand.Rand, tier string, emit func(string)) {
	// the key matcher: corpus + every string of length <= L over a 10-symbol alphabet
	for _, t := range []string{"", " ", "count=3;", " k_1 =", "a b=", "3=a", "=", "a=", "a", "a ", "a\t =x", "a-b.c_d9=1", "a;=", "a\n=", "é=1",
		`{"a":1}`, "  {", " a=1", "A=", "z9", "  \t x = 1; y = 'q';", "count=3; merged_sample={'a':1}; def", "  some definition  ", " x", "x\xff"} {
		emit("obik " + hx([]byte(t)))
	}
	maxk := 3
	if tier == "thorough" {
		maxk = 4
	}
	alpha := []string{"a", "Z", " ", "\t", "=", "_", "1", ";", "{", "."}
	var rec func(cur string, l int)
	rec = func(cur string, l int) {
		if len(cur) == l {
			emit("obik " + hx([]byte(cur)))
			return
		}
		for _, c := range alpha {
			rec(cur+c, l)
		}
	}
	for l := 1; l <= maxk; l++ {
		rec("", l)
	}
	for i := 0; i < 200; i++ {
		var b strings.Builder
		for j := rng.Intn(12); j > 0; j-- {
			if rng.Intn(3) == 0 {
				b.WriteString(c02Extra[rng.Intn(len(c02Extra))])
			} else {
				b.WriteString(alpha[rng.Intn(len(alpha))])
			}
		}
		emit("obik " + hx([]byte(strings.ReplaceAll(b.String(), "\n", " "))))
	}

	// third pass, OBSERVED ONLY (no oracle, the model answers "obs"): the OBI-format title annotations (obiconvert -O)
	// written by FormatFastSeqOBIHeader and read back by ParseFastSeqOBIHeader, one value class per case; the statistics
	// obirt:<class>:same|changed|lost|fatal are the list quoted in lib/cfg/C02.py (outside the property: its text is about
	// the default JSON title annotations)
	for _, cl := range c02ObiClasses {
		emit("obirt " + cl.name)
	}

	// command-line round trips
	emit("cli fasta - 1 73 61 - -")
	emit("cli fasta zs 2 73 " + hx(bytes.Repeat([]byte("acgtn"), 25)) + " - s.6b.785c227d79;i.63.3;f.66.4008000000000000 74 6163 - s.646566696e6974696f6e.7b2261223a317d")
	emit("cli fastq x 2 73 61636774 005d5e1f i.636f756e74.9007199254740992;f.78.3ff8000000000000 74 6163 1f00 -")
	emit("cli fastq s 1 73 61636774 - v.6d.M[7b:L[I1,T,Z,M[]],22:S5c227d,:F3ff8000000000000]")
	emit("cli fastq zx 1 7b78 6163 2829 s.61.40")
	emit("cli fastq sx 2 73 61636774 003f2a01 i.61.1 74 6163 3f3f -")
	// found by seed 2 of the third pass: the file obiconvert prints for these records is taken for text/csv by the format
	// guesser when it is given back as a file argument (finding C02-format-guess-csv, signature cli.fastq.format-guess)
	emit("cli fastq x 4 4c4c4c4c4c4c4c4c4c4c4c4c4c4c4c4c4c4c4c4c4c4c4c4c4c4c4c4c4c4c4c4c4c4c4c4c4c4c4c4c4c4c4c4c4c4c4c4c4c4c4c4c4c4c4c4c4c4c4c4c4c4c4c4c4c4c4c4c4c4c4c4c4c4c4c4c4c4c4c4c4c4c4c4c4c4c4c4c4c4c4c4c4c4c4c4c4c4c4c4c4c4c4c4c4c4c4c4c4c4c4c4c4c4c4c4c4c4c4c4c4c4c4c4c4c4c4c4c4c4c4c4c4c4c4c4c4c4c4c4c4c4c4c4c4c4c4c4c4c4c4c4c4c4c4c4c4c4c4c4c4c4c4c4c4c4c4c4c4c4c4c4c4c4c4c4c4c4c4c4c4c4c4c4c4c4c4c4c4c4c4c4c4c4c4c4c4c4c4c4c4c4c4c4c4c4c4c4c4c4c4c4c4c4c4c4c4c4c4c4c4c4c4c4c4c4c4c4c4c4c4c4c4c4c4c4c4c4c4c4c4c4c4c4c4c4c4c4c4c4c4c4c4c4c4c4c4c4c4c4c4c4c4c4c4c4c4c4c4c4c4c4c4c4c4c4c4c4c4c4c4c4c4c4c4c4c4c4c4c4c4c4c4c4c4c4c4c4c4c4c 6374 - v.736369656e74696669635f6e616d65.Z;v.3e221f.I-322;f.7365715f6c656e677468.403d9851eb851eb8;b.6b.1;s.646566696e6974696f6e.e280aa 41 72636767617463636172746e746372746167747463676767616763746767727261747467727463746b746463636763676b746d74726363636763636772626767616776676b74636763737474636777616167616467637474647474617674646d747474676161676764736161677463676d6763746367746361 - i.323138.108;mi.61.3e7b5d31=2147483648;s.736369656e74696669635f6e616d65.;li.7365715f6c656e677468.-130 69647b317d 73616367617468726363637467676367636363637463776d6361617467636d74616174616774746167746361676167617474746761746167616879616161636761677474616763676b6167636167737474747464676779676b6761637464746167796367676363617463686167616761617267676774637463766d6d68636d7267616174 3d514b3c031e3c0a4a0ae325011f1d300d2c14e1ff1cc01e30374a522e4e5a0e5d511652451d422b4f580a572f25075db155e02c010b1a524f2029254c1f3e2f5d212410483b2d5e054b3938ff533b1e0a08e6504d4e430c254b1fff0a15153f592c0f3d264a565c020538160a56584f1a221412230352532f093a4e1f3d122b4a08d673 i.7461786964.-273 7b78 6167 0027 s.6f6269636c65616e5f776569676874.5c220000dfbf225af0908080;li.646972656374696f6e.-962,-620;s.7365715f6c656e677468.f0908080307d3d3e223b7d;b.e6bca2c285.0;v.646972656374696f6e393733.L[];s.646566696e6974696f6e.081f7d615b")
	emit("cli fastq zsxg 1 73 6163 3f00 s.6b.785c227d79")
	emit("cli fasta zg 2 73 " + hx(bytes.Repeat([]byte("acgtn"), 25)) + " - f.66.4008000000000000 74 6163 - -")
	emit("cli fastq zsg 3 73 61 5d - 74 6163 005d - 75 616374 - s.61.7b")
	n := 24
	if tier == "thorough" {
		n = 160
	}
	for i := 0; i < n; i++ {
		fm := []string{"fasta", "fastq"}[rng.Intn(2)]
		flags := ""
		if rng.Intn(2) == 0 {
			flags += "z"
		}
		if rng.Intn(2) == 0 {
			flags += "s"
		}
		// --solexa: with a file argument every quality 0..93; through stdin (flag s) the file is read by the C reader
		// (kseq, property C17), which keeps the quality bytes 33..127 only: offset 64 + quality >= 64 makes it stop with
		// "quality string shorter than its sequence" (notes/patches/C02-kseq-highbyte.note) — the qualities of these
		// cases are reduced modulo 64 below (64 + 63 = 127 is the last byte kseq accepts)
		if fm == "fastq" && rng.Intn(2) == 0 {
			flags += "x"
		}
		// third pass: g = the second pass reads the gzip bytes the first pass printed (-Z output fed back unchanged,
		// as a file argument named .gz or through stdin)
		if strings.Contains(flags, "z") && rng.Intn(2) == 0 {
			flags += "g"
		}
		if flags == "" {
			flags = "-"
		}
		lowQ := strings.Contains(flags, "s") && strings.Contains(flags, "x")
		nr := 1 + rng.Intn(6)
		var recs []string
		for len(recs) < nr {
			r := c02RandRecord(rng, fm == "fastq" && rng.Intn(10) != 0)
			if strings.Fields(r)[1] == "-" {
				continue // empty sequence: the writer Fatalf's (outside the property)
			}
			if lowQ {
				w := strings.Fields(r)
				if qb, ok := unhx(w[2]); ok && w[2] != "-" {
					for k := range qb {
						qb[k] %= 64
					}
					w[2] = hx(qb)
					r = strings.Join(w, " ")
				}
			}
			recs = append(recs, r)
		}
		emit(fmt.Sprintf("cli %s %s %d %s", fm, flags, nr, strings.Join(recs, " ")))
	}
}

// ---------------------------------------------------------------- obik

func c02ExecObik(f []string, fail func(sig, format string, a ...any), fails *[]Fail) (string, []Fail) {
	b, ok := unhx(f[1])
	if !ok {
		return "bad-op", nil
	}
	var m []int
	var ann obiseq.Annotation
	res := guardT(5*time.Second, func() string {
		m = obiformats.VerifMatchKey(b)
		if len(m) > 0 {
			return fmt.Sprintf("key %d %d", m[0], m[1])
		}
		s := obiseq.NewBioSequence("x", []byte("a"), string(b))
		obiformats.ParseFastSeqOBIHeader(s)
		ann = s.Annotations()
		_, def := c02AnnDigest(ann)
		return "nokey def=" + def
	})
	stat("obik:" + strings.Fields(res)[0])
	if strings.HasPrefix(res, "nokey") {
		// oracle: without a key the OBI parser only trims the definition
		want := strings.TrimSpace(string(b))
		for k := range ann {
			if k != "definition" {
				fail("obik.nokey-annotation", "no key in %q but annotation %q was set", b, k)
			}
		}
		got, has := ann["definition"]
		if want == "" && has && fmt.Sprint(got) != "" || want != "" && (!has || fmt.Sprint(got) != want) {
			fail("obik.nokey-definition", "definition of %q is %v (present %v), expected %q", b, got, has, want)
		}
	}
	return res, *fails
}

// ---------------------------------------------------------------- cli

var (
	c02CmdOnce sync.Once
	c02CmdPath string
	c02CmdErr  error
)

// c02Command builds obiconvert from the tree under check (once per process; built under a private name and
// renamed, so that concurrent harness processes never execute a half-written file)
func c02Command() (string, error) {
	c02CmdOnce.Do(func() {
		repo := os.Getenv("VERIF_REPO")
		if repo == "" {
			repo = "/repo"
		}
		out := filepath.Join(binDir(), "cmd02_obiconvert")
		tmp := fmt.Sprintf("%s.%d", out, os.Getpid())
		cmd := exec.Command("go", "build", "-o", tmp, "./cmd/obitools/obiconvert")
		cmd.Dir = repo
		env := []string{}
		for _, e := range os.Environ() {
			if strings.HasPrefix(e, "GOFLAGS=") || strings.HasPrefix(e, "GOWORK=") {
				continue
			}
			env = append(env, e)
		}
		cmd.Env = append(env, "GOPROXY=off", "GOSUMDB=off", "GOTOOLCHAIN=local", "CGO_CFLAGS=-w -O2")
		if b, err := cmd.CombinedOutput(); err != nil {
			c02CmdErr = fmt.Errorf("go build obiconvert: %v: %s", err, b)
			return
		}
		if err := os.Rename(tmp, out); err != nil {
			c02CmdErr = err
			return
		}
		c02CmdPath = out
	})
	return c02CmdPath, c02CmdErr
}

// c02RunCli runs obiconvert on text (file argument or stdin) and returns what it printed (gunzipped when -Z)
func c02RunCli(bin, dir, name string, text []byte, solexa, z, stdin bool) ([]byte, string) {
	b, _, e := c02RunCliRaw(bin, dir, name, text, solexa, z, stdin)
	return b, e
}

// c02RunCliRaw: the same, and the bytes as they were printed (the gzip stream when -Z)
// c02ForceFormat: "" = let the command guess the format, "fasta" / "fastq" = pass --fasta / --fastq
var c02ForceFormat string

func c02RunCliRaw(bin, dir, name string, text []byte, solexa, z, stdin bool) ([]byte, []byte, string) {
	args := []string{"--no-progressbar"}
	if c02ForceFormat != "" {
		args = append(args, "--"+c02ForceFormat)
	}
	if solexa {
		args = append(args, "--solexa")
	}
	if z {
		args = append(args, "-Z")
	}
	cmd := exec.Command(bin)
	if stdin {
		cmd.Stdin = bytes.NewReader(text)
	} else {
		p := filepath.Join(dir, name)
		if err := os.WriteFile(p, text, 0o644); err != nil {
			return nil, nil, "io"
		}
		args = append(args, p)
	}
	cmd.Args = append(cmd.Args, args...)
	cmd.Env = append(os.Environ(), "OBIMAXCPU=4")
	var out, errb bytes.Buffer
	cmd.Stdout = &out
	cmd.Stderr = &errb
	if err := cmd.Start(); err != nil {
		return nil, nil, "start"
	}
	done := make(chan error, 1)
	go func() { done <- cmd.Wait() }()
	select {
	case err := <-done:
		if err != nil {
			return nil, nil, "exit:" + strings.ReplaceAll(lastLine(errb.String()), " ", "_")
		}
	case <-time.After(30 * time.Second):
		cmd.Process.Kill()
		return nil, nil, "hang"
	}
	raw := append([]byte(nil), out.Bytes()...)
	if z {
		zr, err := gzip.NewReader(&out)
		if err != nil {
			return nil, nil, "gunzip"
		}
		b, err := io.ReadAll(zr)
		if err != nil {
			return nil, nil, "gunzip"
		}
		return b, raw, ""
	}
	return raw, raw, ""
}

func lastLine(s string) string {
	l := strings.Split(strings.TrimSpace(s), "\n")
	x := l[len(l)-1]
	if len(x) > 120 {
		x = x[len(x)-120:]
	}
	return x
}

func c02ExecCli(c string, f []string, fail func(sig, format string, a ...any), fails *[]Fail) (string, []Fail) {
	fm, flags := f[1], f[2]
	nr, e := strconv.Atoi(f[3])
	if (fm != "fasta" && fm != "fastq") || e != nil || nr < 1 || len(f) != 4+4*nr || strings.Trim(flags, "zsxg-") != "" {
		return "bad-op", nil
	}
	z, stdin, solexa := strings.Contains(flags, "z"), strings.Contains(flags, "s"), strings.Contains(flags, "x")
	gzIn := strings.Contains(flags, "g")
	if solexa && fm != "fastq" || gzIn && !z {
		return "bad-op", nil
	}
	type recT struct {
		id, seq, q []byte
		hasQ       bool
		spec       string
	}
	var recs []recT
	for j := 0; j < nr; j++ {
		id, ok1 := unhx(f[4+4*j])
		sq, ok2 := unhx(f[5+4*j])
		var q []byte
		ok3, hasQ := true, f[6+4*j] != "-"
		if hasQ {
			q, ok3 = unhx(f[6+4*j])
		}
		_, ok4 := c02ParseAnn(f[7+4*j])
		if !ok1 || !ok2 || !ok3 || !ok4 || len(id) == 0 || len(sq) == 0 || (hasQ && len(q) != len(sq)) {
			return "bad-op", nil
		}
		recs = append(recs, recT{id, sq, q, hasQ, f[7+4*j]})
	}
	c02Floats = nil
	so := 33
	if solexa {
		so = 64
	}
	var orig obiseq.BioSequenceSlice
	var t0 string
	obioptions.SetOutputQualityShift(so)
	w := guardT(10*time.Second, func() string {
		for _, r := range recs {
			s := obiseq.NewBioSequence(string(r.id), r.seq, "")
			if r.hasQ {
				s.SetQualities(r.q)
			}
			a, _ := c02ParseAnn(r.spec)
			for k, v := range a {
				s.Annotations()[k] = v
			}
			orig = append(orig, s)
		}
		t0 = c02Write(fm, orig)
		return "ok"
	})
	obioptions.SetOutputQualityShift(33)
	caseOverride = c + " + " + c02FloatTable()
	if w != "ok" {
		fail("cli."+fm+".write-"+w, "writing: %s", w)
		return "w=" + w, *fails
	}
	bin, err := c02Command()
	if err != nil {
		fail("cli.build", "%v", err)
		return "w=" + hx([]byte(t0)) + " t1=build", *fails
	}
	dir, err := os.MkdirTemp("", "c02cli")
	if err != nil {
		return "bad-op", nil
	}
	defer os.RemoveAll(dir)
	ext := map[string]string{"fasta": ".fasta", "fastq": ".fastq"}[fm]
	stat("cli:" + fm + ":" + flags)
	t1, raw1, e1 := c02RunCliRaw(bin, dir, "in0"+ext, []byte(t0), solexa, z, stdin)
	res := "w=" + hx([]byte(t0))
	// the format guesser (OBIMimeTypeGuesser, property C01) can take a FASTA/FASTQ file whose title annotations hold
	// commas and quotes for text/csv: when the run fails (or prints something else) without --fasta/--fastq but is right
	// with it, the failure is reported under its own signature and the round trip goes on with the format forced
	guessWrong := func(name string, in []byte, sol, viaStdin bool, bad []byte, e string) ([]byte, []byte, string, bool) {
		if viaStdin {
			return nil, nil, e, false
		}
		c02ForceFormat = fm
		b, raw, e2 := c02RunCliRaw(bin, dir, name, in, sol, z, viaStdin)
		c02ForceFormat = ""
		if e2 != "" || (e == "" && bytes.Equal(b, bad)) {
			return nil, nil, e, false
		}
		stat("cli:format-guess-wrong")
		fail("cli."+fm+".format-guess", "obiconvert without --%s on the file %q: %s; with --%s it prints the expected text", fm, in, map[bool]string{true: "wrong output", false: e}[e == ""], fm)
		return b, raw, "", true
	}
	if e1 != "" || (!solexa && string(t1) != t0) {
		if b, raw, e, ok := guessWrong("in0"+ext, []byte(t0), solexa, stdin, t1, e1); ok {
			t1, raw1, e1 = b, raw, e
		}
	}
	if e1 != "" {
		fail("cli."+fm+".run1-"+strings.SplitN(e1, ":", 2)[0], "obiconvert on %q: %s", t0, e1)
		return res + " t1=" + strings.SplitN(e1, ":", 2)[0], *fails
	}
	res += " t1=" + hx(t1)
	in2, name2 := t1, "in1"+ext
	if gzIn {
		in2, name2 = raw1, "in1"+ext+".gz"
		if len(raw1) < 2 || raw1[0] != 0x1f || raw1[1] != 0x8b {
			fail("cli."+fm+".not-gzip", "-Z output does not start with the gzip magic: % x", raw1[:min(len(raw1), 8)])
		}
	}
	t2, e2 := c02RunCli(bin, dir, name2, in2, false, z, stdin)
	if !gzIn && (e2 != "" || !bytes.Equal(t2, t1)) {
		if b, _, e, ok := guessWrong(name2, in2, false, stdin, t2, e2); ok {
			t2, e2 = b, e
		}
	}
	if e2 != "" {
		fail("cli."+fm+".run2-"+strings.SplitN(e2, ":", 2)[0], "obiconvert on its own output %q: %s", t1, e2)
		return res + " t2=" + strings.SplitN(e2, ":", 2)[0], *fails
	}
	if bytes.Equal(t2, t1) {
		res += " t2=eq"
	} else {
		res += " t2=" + hx(t2)
		fail("cli."+fm+".wrw", "obiconvert(obiconvert(x)) = %q but obiconvert(x) = %q", t2, t1)
	}
	if !solexa && string(t1) != t0 {
		fail("cli."+fm+".wr", "the writer printed %q, obiconvert turned it into %q", t0, t1)
	}
	// record-level oracle on what the command printed (read in-process with offset 33)
	var back obiseq.BioSequenceSlice
	r := guardT(10*time.Second, func() string {
		obioptions.SetInputQualityShift(33)
		back = c02Parse(fm, string(t1))
		for _, s := range back {
			obiformats.ParseGuessedFastSeqHeader(s)
		}
		return "ok"
	})
	if r != "ok" {
		fail("cli."+fm+".reread-"+r, "re-reading %q: %s", t1, r)
		return res, *fails
	}
	if len(back) != nr {
		fail("cli."+fm+".nrec", "%d records written, %d in the output %q", nr, len(back), t1)
		return res, *fails
	}
	for j, rc := range recs {
		b := back[j]
		if b.Id() != string(rc.id) || string(b.Sequence()) != strings.ToLower(string(rc.seq)) {
			fail("cli."+fm+".idseq", "record %q/%q came out as %q/%q", rc.id, rc.seq, b.Id(), b.Sequence())
		}
		if fm == "fastq" {
			want := make([]byte, len(rc.seq))
			for i := range want {
				want[i] = 40
				if rc.hasQ {
					want[i] = rc.q[i]
					if want[i] > 93 {
						want[i] = 93
					}
				}
			}
			if !bytes.Equal(want, b.Qualities()) {
				fail("cli.fastq.qual", "qualities %v came out as %v (flags %s)", rc.q, b.Qualities(), flags)
			}
		}
		a, _ := c02ParseAnn(rc.spec)
		if want, got := c02Dump(map[string]interface{}(a)), c02Dump(map[string]interface{}(b.Annotations())); want != got {
			fail("cli."+fm+".annotations", "annotations %s came out as %s", want, got)
		}
	}
	return res, *fails
}

// ---------------------------------------------------------------- obirt (observed only)

var c02ObiClasses = []struct {
	name string
	key  string
	v    interface{}
}{
	{"int", "k", 3}, {"int-negative", "k", -12}, {"int-2p53", "k", 1 << 53}, {"float-integral", "k", 3.0}, {"float-nonintegral", "k", 1.5},
	{"float-small-e", "k", 1e-7}, {"float-big-e", "k", 1e21}, {"bool-true", "k", true}, {"bool-false", "k", false},
	{"string-plain", "k", "abc"}, {"string-blank-inside", "k", "a b"}, {"string-blank-around", "k", " a "}, {"string-empty", "k", ""},
	{"string-semicolon", "k", "a;b"}, {"string-equal", "k", "a=b"}, {"string-key-like", "k", "x y=1"}, {"string-quote", "k", "a\"b"},
	{"string-apostrophe", "k", "a'b"}, {"string-digits", "k", "12"}, {"string-true", "k", "true"}, {"string-T", "k", "T"},
	{"string-brace", "k", "{a}"}, {"string-json-object", "k", "{\"a\":1}"}, {"string-unicode", "k", "é漢"},
	{"map-string-int", "merged_k", map[string]int{"a": 1, "b": 2}}, {"map-string-int-other-key", "k", map[string]int{"a": 1}},
	{"map-string-string", "k_status", map[string]string{"a": "x"}}, {"map-string-string-apostrophe", "k_status", map[string]string{"a": "x'y"}},
	{"map-string-string-semicolon", "k_status", map[string]string{"a": "x;y"}},
	{"map-interface", "k", map[string]interface{}{"a": 1.5, "b": "x", "c": true}}, {"map-empty", "k", map[string]interface{}{}},
	{"list-int", "k", []int{1, 2}}, {"list-interface", "k", []interface{}{1.0, "x"}}, {"nil", "k", nil},
	{"key-with-blank", "a b", 1}, {"key-digit-first", "1k", 1}, {"key-dash-dot", "a-b.c_d", 1}, {"two-keys", "k", "second-key"},
	{"definition-only", "definition", "some text"}, {"definition-key-like", "definition", "x=1; rest"},
}

func c02ExecObirt(f []string) string {
	for _, cl := range c02ObiClasses {
		if cl.name != f[1] {
			continue
		}
		var out string
		res := guardT(5*time.Second, func() string {
			s := obiseq.NewBioSequence("x", []byte("a"), "")
			s.Annotations()[cl.key] = cl.v
			if cl.name == "two-keys" {
				s.Annotations()["a"] = 1
			}
			want := c02Dump(map[string]interface{}(s.Annotations()))
			h := obiformats.FormatFastSeqOBIHeader(s)
			s2 := obiseq.NewBioSequence("x", []byte("a"), h)
			obiformats.ParseFastSeqOBIHeader(s2)
			got := c02Dump(map[string]interface{}(s2.Annotations()))
			_, has := s2.Annotations()[cl.key]
			switch {
			case want == got:
				out = "same"
			case !has:
				out = "lost"
			default:
				out = "changed"
			}
			return "ok"
		})
		if res != "ok" {
			out = res
		}
		stat("obirt:" + cl.name + ":" + out)
		return "obs"
	}
	return "bad-op"
}
