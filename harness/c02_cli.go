//go:build c02

package main

// C02, second deepening: the OBI-format entry (`__match__key__`) and the command-line round trip
// (`obiconvert` as a subprocess, with -Z, stdin, --solexa).

import (
	"bytes"
	"compress/gzip"
	"fmt"
	"io"
	"math/rand"
	"os"
	"os/exec"
	"path/filepath"
	"strconv"
	"strings"
	"sync"
	"time"

	"git.metabarcoding.org/obitools/obitools4/obitools4/pkg/obiformats"
	"git.metabarcoding.org/obitools/obitools4/obitools4/pkg/obioptions"
	"git.metabarcoding.org/obitools/obitools4/obitools4/pkg/obiseq"
)

func c02GenExtra(rng *rand.Rand, tier string, emit func(string)) {
	// the key matcher: corpus + every string of length <= L over a 10-symbol alphabet
	for _, t := range []string{"", " ", "count=3;", " k_1 =", "a b=", "3=a", "=", "a=", "a", "a ", "a\t =x", "a-b.c_d9=1", "a;=", "a\n=", "é=1",
		`{"a":1}`, "  {", " a=1", "A=", "z9", "  \t x = 1; y = 'q';", "count=3; merged_sample={'a':1}; def", "  some definition  ", " x", "x\xff"} {
		emit("obik " + hx([]byte(t)))
	}
	maxk := 3
	if tier == "thorough" {
		maxk = 4
	}
	alpha := []string{"a", "Z", " ", "\t", "=", "_", "1", ";", "{", "."}
	var rec func(cur string, l int)
	rec = func(cur string, l int) {
		if len(cur) == l {
			emit("obik " + hx([]byte(cur)))
			return
		}
		for _, c := range alpha {
			rec(cur+c, l)
		}
	}
	for l := 1; l <= maxk; l++ {
		rec("", l)
	}
	for i := 0; i < 200; i++ {
		var b strings.Builder
		for j := rng.Intn(12); j > 0; j-- {
			if rng.Intn(3) == 0 {
				b.WriteString(c02Extra[rng.Intn(len(c02Extra))])
			} else {
				b.WriteString(alpha[rng.Intn(len(alpha))])
			}
		}
		emit("obik " + hx([]byte(strings.ReplaceAll(b.String(), "\n", " "))))
	}

	// command-line round trips
	emit("cli fasta - 1 73 61 - -")
	emit("cli fasta zs 2 73 " + hx(bytes.Repeat([]byte("acgtn"), 25)) + " - s.6b.785c227d79;i.63.3;f.66.4008000000000000 74 6163 - s.646566696e6974696f6e.7b2261223a317d")
	emit("cli fastq x 2 73 61636774 005d5e1f i.636f756e74.9007199254740992;f.78.3ff8000000000000 74 6163 1f00 -")
	emit("cli fastq s 1 73 61636774 - v.6d.M[7b:L[I1,T,Z,M[]],22:S5c227d,:F3ff8000000000000]")
	emit("cli fastq zx 1 7b78 6163 2829 s.61.40")
	n := 24
	if tier == "thorough" {
		n = 160
	}
	for i := 0; i < n; i++ {
		fm := []string{"fasta", "fastq"}[rng.Intn(2)]
		flags := ""
		if rng.Intn(2) == 0 {
			flags += "z"
		}
		if rng.Intn(2) == 0 {
			flags += "s"
		}
		// --solexa only with a file argument: stdin is read by the C reader (kseq, property C17), which drops quality
		// bytes above 127 (offset 64 + quality >= 64) — see the report of the second deepening round
		if fm == "fastq" && !strings.Contains(flags, "s") && rng.Intn(2) == 0 {
			flags += "x"
		}
		if flags == "" {
			flags = "-"
		}
		nr := 1 + rng.Intn(6)
		var recs []string
		for len(recs) < nr {
			r := c02RandRecord(rng, fm == "fastq" && rng.Intn(10) != 0)
			if strings.Fields(r)[1] == "-" {
				continue // empty sequence: the writer Fatalf's (outside the property)
			}
			recs = append(recs, r)
		}
		emit(fmt.Sprintf("cli %s %s %d %s", fm, flags, nr, strings.Join(recs, " ")))
	}
}

// ---------------------------------------------------------------- obik

func c02ExecObik(f []string, fail func(sig, format string, a ...any), fails *[]Fail) (string, []Fail) {
	b, ok := unhx(f[1])
	if !ok {
		return "bad-op", nil
	}
	var m []int
	var ann obiseq.Annotation
	res := guardT(5*time.Second, func() string {
		m = obiformats.VerifMatchKey(b)
		if len(m) > 0 {
			return fmt.Sprintf("key %d %d", m[0], m[1])
		}
		s := obiseq.NewBioSequence("x", []byte("a"), string(b))
		obiformats.ParseFastSeqOBIHeader(s)
		ann = s.Annotations()
		_, def := c02AnnDigest(ann)
		return "nokey def=" + def
	})
	stat("obik:" + strings.Fields(res)[0])
	if strings.HasPrefix(res, "nokey") {
		// oracle: without a key the OBI parser only trims the definition
		want := strings.TrimSpace(string(b))
		for k := range ann {
			if k != "definition" {
				fail("obik.nokey-annotation", "no key in %q but annotation %q was set", b, k)
			}
		}
		got, has := ann["definition"]
		if want == "" && has && fmt.Sprint(got) != "" || want != "" && (!has || fmt.Sprint(got) != want) {
			fail("obik.nokey-definition", "definition of %q is %v (present %v), expected %q", b, got, has, want)
		}
	}
	return res, *fails
}

// ---------------------------------------------------------------- cli

var (
	c02CmdOnce sync.Once
	c02CmdPath string
	c02CmdErr  error
)

// c02Command builds obiconvert from the tree under check (once per process; built under a private name and
// renamed, so that concurrent harness processes never execute a half-written file)
func c02Command() (string, error) {
	c02CmdOnce.Do(func() {
		repo := os.Getenv("VERIF_REPO")
		if repo == "" {
			repo = "/repo"
		}
		out := filepath.Join(binDir(), "cmd02_obiconvert")
		tmp := fmt.Sprintf("%s.%d", out, os.Getpid())
		cmd := exec.Command("go", "build", "-o", tmp, "./cmd/obitools/obiconvert")
		cmd.Dir = repo
		env := []string{}
		for _, e := range os.Environ() {
			if strings.HasPrefix(e, "GOFLAGS=") || strings.HasPrefix(e, "GOWORK=") {
				continue
			}
			env = append(env, e)
		}
		cmd.Env = append(env, "GOPROXY=off", "GOSUMDB=off", "GOTOOLCHAIN=local", "CGO_CFLAGS=-w -O2")
		if b, err := cmd.CombinedOutput(); err != nil {
			c02CmdErr = fmt.Errorf("go build obiconvert: %v: %s", err, b)
			return
		}
		if err := os.Rename(tmp, out); err != nil {
			c02CmdErr = err
			return
		}
		c02CmdPath = out
	})
	return c02CmdPath, c02CmdErr
}

// c02RunCli runs obiconvert on text (file argument or stdin) and returns what it printed (gunzipped when -Z)
func c02RunCli(bin, dir, name string, text []byte, solexa, z, stdin bool) ([]byte, string) {
	args := []string{"--no-progressbar"}
	if solexa {
		args = append(args, "--solexa")
	}
	if z {
		args = append(args, "-Z")
	}
	cmd := exec.Command(bin)
	if stdin {
		cmd.Stdin = bytes.NewReader(text)
	} else {
		p := filepath.Join(dir, name)
		if err := os.WriteFile(p, text, 0o644); err != nil {
			return nil, "io"
		}
		args = append(args, p)
	}
	cmd.Args = append(cmd.Args, args...)
	cmd.Env = append(os.Environ(), "OBIMAXCPU=4")
	var out, errb bytes.Buffer
	cmd.Stdout = &out
	cmd.Stderr = &errb
	if err := cmd.Start(); err != nil {
		return nil, "start"
	}
	done := make(chan error, 1)
	go func() { done <- cmd.Wait() }()
	select {
	case err := <-done:
		if err != nil {
			return nil, "exit:" + strings.ReplaceAll(lastLine(errb.String()), " ", "_")
		}
	case <-time.After(30 * time.Second):
		cmd.Process.Kill()
		return nil, "hang"
	}
	if z {
		zr, err := gzip.NewReader(&out)
		if err != nil {
			return nil, "gunzip"
		}
		b, err := io.ReadAll(zr)
		if err != nil {
			return nil, "gunzip"
		}
		return b, ""
	}
	return out.Bytes(), ""
}

func lastLine(s string) string {
	l := strings.Split(strings.TrimSpace(s), "\n")
	x := l[len(l)-1]
	if len(x) > 120 {
		x = x[len(x)-120:]
	}
	return x
}

func c02ExecCli(c string, f []string, fail func(sig, format string, a ...any), fails *[]Fail) (string, []Fail) {
	fm, flags := f[1], f[2]
	nr, e := strconv.Atoi(f[3])
	if (fm != "fasta" && fm != "fastq") || e != nil || nr < 1 || len(f) != 4+4*nr || strings.Trim(flags, "zsx-") != "" {
		return "bad-op", nil
	}
	z, stdin, solexa := strings.Contains(flags, "z"), strings.Contains(flags, "s"), strings.Contains(flags, "x")
	if solexa && fm != "fastq" {
		return "bad-op", nil
	}
	type recT struct {
		id, seq, q []byte
		hasQ       bool
		spec       string
	}
	var recs []recT
	for j := 0; j < nr; j++ {
		id, ok1 := unhx(f[4+4*j])
		sq, ok2 := unhx(f[5+4*j])
		var q []byte
		ok3, hasQ := true, f[6+4*j] != "-"
		if hasQ {
			q, ok3 = unhx(f[6+4*j])
		}
		_, ok4 := c02ParseAnn(f[7+4*j])
		if !ok1 || !ok2 || !ok3 || !ok4 || len(id) == 0 || len(sq) == 0 || (hasQ && len(q) != len(sq)) {
			return "bad-op", nil
		}
		recs = append(recs, recT{id, sq, q, hasQ, f[7+4*j]})
	}
	c02Floats = nil
	so := 33
	if solexa {
		so = 64
	}
	var orig obiseq.BioSequenceSlice
	var t0 string
	obioptions.SetOutputQualityShift(so)
	w := guardT(10*time.Second, func() string {
		for _, r := range recs {
			s := obiseq.NewBioSequence(string(r.id), r.seq, "")
			if r.hasQ {
				s.SetQualities(r.q)
			}
			a, _ := c02ParseAnn(r.spec)
			for k, v := range a {
				s.Annotations()[k] = v
			}
			orig = append(orig, s)
		}
		t0 = c02Write(fm, orig)
		return "ok"
	})
	obioptions.SetOutputQualityShift(33)
	caseOverride = c + " + " + c02FloatTable()
	if w != "ok" {
		fail("cli."+fm+".write-"+w, "writing: %s", w)
		return "w=" + w, *fails
	}
	bin, err := c02Command()
	if err != nil {
		fail("cli.build", "%v", err)
		return "w=" + hx([]byte(t0)) + " t1=build", *fails
	}
	dir, err := os.MkdirTemp("", "c02cli")
	if err != nil {
		return "bad-op", nil
	}
	defer os.RemoveAll(dir)
	ext := map[string]string{"fasta": ".fasta", "fastq": ".fastq"}[fm]
	stat("cli:" + fm + ":" + flags)
	t1, e1 := c02RunCli(bin, dir, "in0"+ext, []byte(t0), solexa, z, stdin)
	res := "w=" + hx([]byte(t0))
	if e1 != "" {
		fail("cli."+fm+".run1-"+strings.SplitN(e1, ":", 2)[0], "obiconvert on %q: %s", t0, e1)
		return res + " t1=" + strings.SplitN(e1, ":", 2)[0], *fails
	}
	res += " t1=" + hx(t1)
	t2, e2 := c02RunCli(bin, dir, "in1"+ext, t1, false, z, stdin)
	if e2 != "" {
		fail("cli."+fm+".run2-"+strings.SplitN(e2, ":", 2)[0], "obiconvert on its own output %q: %s", t1, e2)
		return res + " t2=" + strings.SplitN(e2, ":", 2)[0], *fails
	}
	if bytes.Equal(t2, t1) {
		res += " t2=eq"
	} else {
		res += " t2=" + hx(t2)
		fail("cli."+fm+".wrw", "obiconvert(obiconvert(x)) = %q but obiconvert(x) = %q", t2, t1)
	}
	if !solexa && string(t1) != t0 {
		fail("cli."+fm+".wr", "the writer printed %q, obiconvert turned it into %q", t0, t1)
	}
	// record-level oracle on what the command printed (read in-process with offset 33)
	var back obiseq.BioSequenceSlice
	r := guardT(10*time.Second, func() string {
		obioptions.SetInputQualityShift(33)
		back = c02Parse(fm, string(t1))
		for _, s := range back {
			obiformats.ParseGuessedFastSeqHeader(s)
		}
		return "ok"
	})
	if r != "ok" {
		fail("cli."+fm+".reread-"+r, "re-reading %q: %s", t1, r)
		return res, *fails
	}
	if len(back) != nr {
		fail("cli."+fm+".nrec", "%d records written, %d in the output %q", nr, len(back), t1)
		return res, *fails
	}
	for j, rc := range recs {
		b := back[j]
		if b.Id() != string(rc.id) || string(b.Sequence()) != strings.ToLower(string(rc.seq)) {
			fail("cli."+fm+".idseq", "record %q/%q came out as %q/%q", rc.id, rc.seq, b.Id(), b.Sequence())
		}
		if fm == "fastq" {
			want := make([]byte, len(rc.seq))
			for i := range want {
				want[i] = 40
				if rc.hasQ {
					want[i] = rc.q[i]
					if want[i] > 93 {
						want[i] = 93
					}
				}
			}
			if !bytes.Equal(want, b.Qualities()) {
				fail("cli.fastq.qual", "qualities %v came out as %v (flags %s)", rc.q, b.Qualities(), flags)
			}
		}
		a, _ := c02ParseAnn(rc.spec)
		if want, got := c02Dump(map[string]interface{}(a)), c02Dump(map[string]interface{}(b.Annotations())); want != got {
			fail("cli."+fm+".annotations", "annotations %s came out as %s", want, got)
		}
	}
	return res, *fails
}
