//go:build c15

package main

// conc — the searches under concurrent use.
//
// Who runs what at the same time, and what is shared (read from the commands):
//   - obitag.CLIAssignTaxonomy: MakeIWorker(IdentifySeqWorker, nworkers): every worker calls obitag.Identify on ITS OWN query
//     records; shared by all workers: the reference slice (the BioSequences and their annotations: obitag_ref_index is built
//     lazily by the first worker that needs it - obirefidx.IndexSequence called from inside Identify - and published with
//     SetOBITagRefIndex under the annotation lock of the reference), the 4-mer tables of the references, the TaxonSet
//     (a map, read only), the taxonomy. Per call: the LCS scratch matrix, the 4-mer table of the query, cw, the order.
//   - obitag2.CLIAssignTaxonomy: MakeIWorker(IdentifySeqWorker(db)): obitag2.Identify = FindClosests + BestConsensus on the
//     shared Obitag2RefDB (cluster heads, families, exact table, indices built beforehand: read only).
//   - obirefidx.IndexReferenceDB / IndexFamilyDB / MakeIndexingSliceWorker: nworkers goroutines call IndexSequence(i, …) for
//     different i on the shared references / &refcounts / &taxa / taxonomy; per call: matrix, lca, cw, ow, path, mindiff.
//
//	conc <g> <r> <R1,..> <T1,..> <TAXO> <Q1,..,Qn> <j1,..,jk>
//	    -> fc1(Q1) ; fc2(Q1) ; id1(Q1) ; id2(Q1) ; ... ; id2(Qn) ; ix(j1) ; ... ; ix(jk)
//
// The result line is what the sub-cases answer when run ALONE, one after the other (the model recomputes it with its
// verbatim kernels; Exec appends the candidate orders of the real sort: one section per query, one per reference).
// The oracle then runs the same sub-cases from g goroutines released together, r rounds, and demands the same answers:
// fc1, fc2, id2 and ix on ONE data base indexed beforehand (obitag2 / obirefidx), id1 (obitag.Identify) on ONE data base
// WITHOUT indices, new at every round, so that the goroutines build the indices lazily while the others search; each
// goroutine has its own query records, exactly as a worker has its own batch. After every round the indices left on the
// references by the concurrent Identify calls must be the ones IndexSequence builds alone. Also (oracle only, nothing
// printed: the sequential behaviour is tied by id3 / iv3) the two-stage obitag2.Identify on a shared Obitag2RefDB.
//
//	race conc ...   (thorough tier, first seed) the same case replayed through a `go build -race` build of this harness;
//	                a report of the race detector whose racing access lies in the anchored packages is a failure.

import (
	"bytes"
	"fmt"
	"math/rand"
	"os"
	"os/exec"
	"path/filepath"
	"runtime"
	"sort"
	"strconv"
	"strings"
	"sync"
	"time"

	"git.metabarcoding.org/obitools/obitools4/obitools4/pkg/obikmer"
	"git.metabarcoding.org/obitools/obitools4/obitools4/pkg/obiseq"
	"git.metabarcoding.org/obitools/obitools4/obitools4/pkg/obitax"
	"git.metabarcoding.org/obitools/obitools4/obitools4/pkg/obitools/obirefidx"
	"git.metabarcoding.org/obitools/obitools4/obitools4/pkg/obitools/obitag"
	"git.metabarcoding.org/obitools/obitools4/obitools4/pkg/obitools/obitag2"
	"git.metabarcoding.org/obitools/obitools4/obitools4/pkg/obiutils"
)

type c15ConcCase struct {
	g, r    int
	refs    [][]byte
	taxids  []int
	taxo    [][2]int
	par     map[int]int
	queries [][]byte
	ixs     []int
}

func c15ParseConc(w []string) (*c15ConcCase, bool) {
	if len(w) != 8 || w[0] != "conc" {
		return nil, false
	}
	g, e1 := strconv.Atoi(w[1])
	r, e2 := strconv.Atoi(w[2])
	refs, ok1 := c15ParseList(w[3])
	taxids, ok2 := c15ParseInts(w[4])
	taxo, ok3 := c15ParseTaxo(w[5])
	queries, ok4 := c15ParseList(w[6])
	ixs, ok5 := c15ParseInts(w[7])
	if e1 != nil || e2 != nil || g < 1 || g > 64 || r < 1 || r > 50 || !ok1 || !ok2 || !ok3 || !ok4 || !ok5 ||
		len(refs) == 0 || len(refs) > 400 || len(taxids) != len(refs) || len(queries) == 0 || len(queries) > 64 {
		return nil, false
	}
	par, wf := c15WellFormed(taxo)
	if !wf {
		return nil, false
	}
	for _, t := range taxids {
		if _, ok := par[t]; !ok {
			return nil, false
		}
	}
	for _, s := range append(append([][]byte{}, refs...), queries...) {
		if len(s) == 0 || len(s) > 5000 || !c15Acgt(s) {
			return nil, false
		}
	}
	for _, j := range ixs {
		if j < 0 || j >= len(refs) {
			return nil, false
		}
	}
	return &c15ConcCase{g, r, refs, taxids, taxo, par, queries, ixs}, true
}

// c15ConcDB: what the workers of one command share
type c15ConcDB struct {
	rs     obiseq.BioSequenceSlice
	counts []*obikmer.Table4mer
	taxa   obitax.TaxonSet
	tax    *obitax.Taxonomy
}

// a data base as the commands hold it: references carrying their taxid (so their annotation map exists, as for records
// read from a file), 4-mer tables, taxa; indexed = obitag_ref_index built beforehand by IndexSequence (obirefidx)
func (cc *c15ConcCase) mkDB(tax *obitax.Taxonomy, indexed bool) *c15ConcDB {
	rs, counts := c15MakeRefs(cc.refs)
	for i := range rs {
		rs[i].SetTaxid(cc.taxids[i])
	}
	db := &c15ConcDB{rs, counts, c15Taxa(tax, cc.taxids), tax}
	if indexed {
		for j := range rs {
			rs[j].SetOBITagRefIndex(obirefidx.IndexSequence(j, rs, &db.counts, &db.taxa, tax))
		}
	}
	return db
}

// the closure every worker of obitag.CLIAssignTaxonomy runs
func (db *c15ConcDB) worker1() obiseq.SeqWorker {
	return obitag.IdentifySeqWorker(db.rs, db.counts, db.taxa, db.tax, false)
}

func c15ConcShowIndex(idx map[int]string) string {
	keys := make([]int, 0, len(idx))
	for k := range idx {
		keys = append(keys, k)
	}
	sort.Ints(keys)
	out := make([]string, len(keys))
	for i, k := range keys {
		out[i] = fmt.Sprintf("%d:%s", k, idx[k])
	}
	if len(out) == 0 {
		return "empty"
	}
	return strings.Join(out, " ")
}

// one sub-case against the shared data bases; a panic is the answer "panic" of that sub-case
// kinds: 0 fc1, 1 fc2, 2 id1 = w1, the closure obitag.IdentifySeqWorker made ONCE over the data base without indices (the
// workers of MakeIWorker all run that one closure), 3 id2, 4 ix, 5 = w2, the closure obitag2.IdentifySeqWorker(db2) (the
// two-stage obitag2.Identify); the query record is the caller's own (id q<i>)
func (cc *c15ConcCase) sub(kind, i int, db *c15ConcDB, w1, w2 obiseq.SeqWorker, maxDen int) (res string) {
	defer func() {
		if e := recover(); e != nil {
			res = "panic"
		}
	}()
	switch kind {
	case 0, 1:
		qs := c15Seq(fmt.Sprintf("q%d", i), cc.queries[i])
		var maxe int
		var bestId float64
		var bm string
		var idxs []int
		if kind == 0 {
			_, maxe, bestId, bm, idxs = obitag.FindClosests(qs, db.rs, db.counts, false)
		} else {
			_, maxe, bestId, bm, idxs = obitag2.FindClosests(qs, db.rs, db.counts, false)
		}
		return fmt.Sprintf("%d %s %s %s", maxe, c15Frac(bestId, maxDen), c15IdxOf(bm), c15Ints(idxs))
	case 2:
		qs := c15Seq(fmt.Sprintf("q%d", i), cc.queries[i])
		out, err := w1(qs)
		bm, _ := qs.GetStringAttribute("obitag_bestmatch")
		n, _ := qs.GetIntAttribute("obitag_match_count")
		res = fmt.Sprintf("%d %s %d", qs.Taxid(), c15IdxOf(bm), n)
		// the slice the worker returned belongs to its caller (SeqToSliceWorker copies its elements right after the call)
		for k := 0; k < 3; k++ {
			runtime.Gosched()
		}
		if err != nil || len(out) != 1 || out[0] != qs {
			return "worker-result-is-not-the-record-of-the-caller"
		}
		return res
	case 3:
		qs := c15Seq(fmt.Sprintf("q%d", i), cc.queries[i])
		o2 := &obitag2.Obitag2RefDB{Taxonomy: db.tax}
		bests, differences, identity, bestmatch, _ := obitag2.FindClosests(qs, db.rs, db.counts, false)
		var taxon *obitax.TaxNode
		if identity >= 0.5 && differences >= 0 {
			taxon = o2.BestConsensus(bests, differences, "obitag_ref_index")
		} else {
			taxon, _ = db.tax.Taxon(1)
		}
		return fmt.Sprintf("%d %s %d", taxon.Taxid(), c15IdxOf(bestmatch), bests.Len())
	case 4:
		return c15ConcShowIndex(obirefidx.IndexSequence(i, db.rs, &db.counts, &db.taxa, db.tax))
	default:
		qs := c15Seq(fmt.Sprintf("q%d", i), cc.queries[i])
		out, err := w2(qs)
		bm, _ := qs.GetStringAttribute("obitag_bestmatch")
		n, _ := qs.GetIntAttribute("obitag_match_count")
		m, _ := qs.GetStringAttribute("obitag_similarity_method")
		fam, _ := qs.GetStringAttribute("obitag_proposed_family")
		res = fmt.Sprintf("%d %s %d %s [%s]", qs.Taxid(), bm, n, m, fam)
		for k := 0; k < 3; k++ {
			runtime.Gosched()
		}
		if err != nil || len(out) != 1 || out[0] != qs {
			return "worker-result-is-not-the-record-of-the-caller"
		}
		return res
	}
}

// c15ConcDB2: an Obitag2RefDB over the references, as obireffamidx + obitag2.CLIAssignTaxonomy lay it out (every reference
// of a family is a cluster head of weight 1 here: the clustering is not the subject): cluster heads with obitag_ref_index,
// the members of each family with reffamidx_in built by IndexSequence on the family alone, the exact-match table.
// Returns nil when some query would make Identify dereference nil alone (family of the consensus without members).
func (cc *c15ConcCase) mkDB2(tax *obitax.Taxonomy) (db2 *obitag2.Obitag2RefDB) {
	defer func() {
		if recover() != nil {
			db2 = nil
		}
	}()
	rs, counts := c15MakeRefs(cc.refs)
	clusters := obiseq.MakeBioSequenceSlice()
	ccounts := []*obikmer.Table4mer{}
	ctaxa := make(obitax.TaxonSet)
	fam := map[int]*obiseq.BioSequenceSlice{}
	famc := map[int]*[]*obikmer.Table4mer{}
	famt := map[int]obitax.TaxonSet{}
	exact := map[string]*obitag2.Obitag2Match{}
	for i := range rs {
		rs[i].SetTaxid(cc.taxids[i])
		tax.SetFamily(rs[i])
		f, _ := rs[i].GetIntAttribute("family_taxid")
		t, _ := tax.Taxon(cc.taxids[i])
		ctaxa[len(clusters)] = t
		clusters = append(clusters, rs[i])
		ccounts = append(ccounts, counts[i])
		if fam[f] == nil {
			fam[f] = obiseq.NewBioSequenceSlice(0)
			fc := []*obikmer.Table4mer{}
			famc[f] = &fc
			famt[f] = make(obitax.TaxonSet)
		}
		famt[f][len(*fam[f])] = t
		*fam[f] = append(*fam[f], rs[i])
		*famc[f] = append(*famc[f], counts[i])
		key := string(cc.refs[i])
		if m, ok := exact[key]; ok {
			m.Taxon, _ = m.Taxon.LCA(t)
			m.Weight++
		} else {
			exact[key] = &obitag2.Obitag2Match{Taxon: t, Id: rs[i].Id(), Weight: 1}
		}
	}
	for j := range clusters {
		clusters[j].SetOBITagRefIndex(obirefidx.IndexSequence(j, clusters, &ccounts, &ctaxa, tax))
	}
	for f, sl := range fam {
		ta := famt[f]
		for j := range *sl {
			(*sl)[j].SetAttribute("reffamidx_in", obirefidx.IndexSequence(j, *sl, famc[f], &ta, tax))
		}
	}
	return &obitag2.Obitag2RefDB{Taxonomy: tax, Full: &rs, FullCounts: &counts, Clusters: &clusters, ClusterCounts: &ccounts,
		ClusterTaxa: &ctaxa, Families: &fam, FamilyCounts: &famc, FamilyTaxa: &famt, ExactTaxid: &exact}
}

func c15ExecConc(base string) (string, []Fail) {
	cc, ok := c15ParseConc(strings.Fields(base))
	if !ok {
		return "bad-op", nil
	}
	stat("op:conc")
	tax := c15BuildTaxo(cc.taxo)
	if tax == nil {
		return "bad-op", nil
	}
	// the candidate orders of the real sort, for the model: one section per query, one per reference
	db0, counts0 := c15MakeRefs(cc.refs)
	_ = db0
	order := func(s []byte) string {
		cs := obikmer.Count4Mer(c15Seq("s", s), nil, nil)
		cw := make([]int, len(counts0))
		for i, c := range counts0 {
			cw[i] = obikmer.Common4Mer(cs, c)
		}
		return c15Ints(obiutils.Reverse(obiutils.IntOrder(cw), true))
	}
	aug := base
	for _, q := range cc.queries {
		aug += " | " + order(q)
	}
	for _, r := range cc.refs {
		aug += " | " + order(r)
	}
	caseOverride = aug
	maxDen := 2*c15MaxLen(nil, append(append([][]byte{}, cc.refs...), cc.queries...)) + 2

	type subcase struct{ kind, i int }
	var subs []subcase
	for k := 0; k < 4; k++ { // id1 first, so that the goroutines start together in the lazy indexing
		kind := []int{2, 0, 1, 3}[k]
		for i := range cc.queries {
			subs = append(subs, subcase{kind, i})
		}
	}
	for _, j := range cc.ixs {
		subs = append(subs, subcase{4, j})
	}
	nPrinted := len(subs)
	var fails []Fail
	kindName := []string{"fc1", "fc2", "id1", "id2", "ix", "identify2"}
	res := guardT(180*time.Second, func() string {
		db := cc.mkDB(tax, true)
		db2 := cc.mkDB2(tax)
		var w2 obiseq.SeqWorker
		if db2 != nil {
			// the two-stage Identify: only the queries it answers alone without a panic (a family without members is a nil
			// dereference of the unchanged code, predicted and not run by id3 either)
			w2 = obitag2.IdentifySeqWorker(db2, false)
			for i := range cc.queries {
				if cc.sub(5, i, db, nil, w2, maxDen) != "panic" {
					subs = append(subs, subcase{5, i})
					stat("conc:identify2-subcase")
				}
			}
		}
		// alone, one after the other
		alone := make([]string, len(subs))
		w1 := cc.mkDB(tax, false).worker1()
		for s, sc := range subs {
			alone[s] = cc.sub(sc.kind, sc.i, db, w1, w2, maxDen)
		}
		aloneIdx := make([]string, len(cc.refs))
		for j := range cc.refs {
			aloneIdx[j] = c15ConcShowIndex(obirefidx.IndexSequence(j, db.rs, &db.counts, &db.taxa, tax))
		}
		for s, sc := range subs {
			if sc.kind == 2 && !strings.HasPrefix(alone[s], "1 ") {
				stat("conc:id1-below-root")
			}
		}
		// the same, from g goroutines released together, r rounds
		type bad struct {
			s, goroutine, round int
			got                string
		}
		var mu sync.Mutex
		var first *bad
		nbad, total, lazyBuilt := 0, 0, 0
		var firstIdx string
		for round := 0; round < cc.r; round++ {
			lazy := cc.mkDB(tax, false) // no index yet: built by the goroutines of this round
			w1 := lazy.worker1()
			start := make(chan struct{})
			var wg sync.WaitGroup
			for k := 0; k < cc.g; k++ {
				wg.Add(1)
				go func(k int) {
					defer wg.Done()
					defer func() { recover() }()
					<-start
					for j := range subs {
						s := (j + k) % len(subs)
						got := cc.sub(subs[s].kind, subs[s].i, db, w1, w2, maxDen)
						mu.Lock()
						total++
						if got != alone[s] {
							nbad++
							if first == nil {
								first = &bad{s, k, round, got}
							}
						}
						mu.Unlock()
					}
				}(k)
			}
			close(start)
			wg.Wait()
			// the indices the concurrent Identify calls left on the shared references
			for j, ref := range lazy.rs {
				if idx := ref.OBITagRefIndex(); idx != nil {
					lazyBuilt++
					if got := c15ConcShowIndex(idx); got != aloneIdx[j] && firstIdx == "" {
						firstIdx = fmt.Sprintf("round %d: obitag_ref_index left on reference %d by the concurrent Identify calls: %s; IndexSequence alone: %s", round, j, got, aloneIdx[j])
					}
				}
			}
		}
		// the indexing slice worker of obireffamidx (MakeIndexingSliceWorker: it starts min(workers, len/10) goroutines of its
		// own, each calling IndexSequence on the shared slice and storing the index on its reference): two of them at once, on
		// two copies of the data base sharing the 4-mer tables, as two families go through MakeISliceWorker. A panic inside
		// its goroutines cannot be recovered: run only when everything above agreed.
		sliceMsg := ""
		if first == nil && firstIdx == "" && total == cc.g*cc.r*len(subs) {
			sw := obirefidx.MakeIndexingSliceWorker("reffamidx_in", "reffamidx_id", &db.counts, tax)
			var wg sync.WaitGroup
			for k := 0; k < 2; k++ {
				wg.Add(1)
				go func(k int) {
					defer wg.Done()
					defer func() {
						if recover() != nil {
							mu.Lock()
							sliceMsg = "panic in the slice worker"
							mu.Unlock()
						}
					}()
					for round := 0; round < cc.r; round++ {
						cp := cc.mkDB(tax, false)
						for i := range cp.rs {
							cp.rs[i].SetAttribute("reffamidx_id", i)
						}
						out, err := sw(cp.rs)
						msg := ""
						if err != nil || len(out) != len(cp.rs) {
							msg = fmt.Sprintf("slice worker: error %v, %d sequences", err, len(out))
						}
						for j := range out {
							if got := c15ConcShowIndex(out[j].OBITagRefIndex("reffamidx_in")); msg == "" && got != aloneIdx[j] {
								msg = fmt.Sprintf("reffamidx_in of reference %d built by the goroutines of the slice worker: %s; IndexSequence alone: %s", j, got, aloneIdx[j])
							}
						}
						if msg != "" {
							mu.Lock()
							if sliceMsg == "" {
								sliceMsg = msg
							}
							mu.Unlock()
						}
					}
				}(k)
			}
			wg.Wait()
			stat("conc:slice-worker-run")
		}
		stat(fmt.Sprintf("conc:g%d", cc.g))
		if lazyBuilt > 0 {
			stat("conc:lazy-indices-built")
		}
		short := func(s string) string {
			if len(s) > 160 {
				return s[:160] + "…"
			}
			return s
		}
		if total != cc.g*cc.r*len(subs) {
			fails = append(fails, Fail{"conc.panic", fmt.Sprintf("%d of %d concurrent calls did not finish (goroutine ended by a panic / log.Fatal outside the call's own recover)", cc.g*cc.r*len(subs)-total, cc.g*cc.r*len(subs))})
		}
		if first != nil {
			sc := subs[first.s]
			what := ""
			if sc.kind == 4 {
				what = fmt.Sprintf("IndexSequence of reference %d", sc.i)
			} else {
				what = fmt.Sprintf("query %d (%s)", sc.i, short(string(cc.queries[sc.i])))
			}
			fails = append(fails, Fail{"conc.differs." + kindName[sc.kind], fmt.Sprintf(
				"%d of %d concurrent calls differ from the call run alone; e.g. sub-case %d = %s of %s, goroutine %d round %d: alone %s, concurrently %s",
				nbad, total, first.s, kindName[sc.kind], what, first.goroutine, first.round, short(alone[first.s]), short(first.got))})
		}
		if firstIdx != "" {
			fails = append(fails, Fail{"conc.lazy-index", short(firstIdx)})
		}
		if sliceMsg != "" {
			fails = append(fails, Fail{"conc.differs.slice-worker", short(sliceMsg)})
		}
		// printed: fc1 fc2 id1 id2 per query, then ix
		var out []string
		nq := len(cc.queries)
		for i := 0; i < nq; i++ {
			out = append(out, alone[nq+i], alone[2*nq+i], alone[i], alone[3*nq+i])
		}
		out = append(out, alone[4*nq:nPrinted]...)
		return strings.Join(out, " ; ")
	})
	return res, fails
}

// ---- generator: one base sequence, a data base of close variants of it (clusters, duplicates, ties), queries = close
// variants of the base or of a reference (identity well above 0.5: the indices are needed), long enough for the calls to
// overlap

func c15GenConc(rng *rand.Rand, tier string, emit func(string)) {
	g := &c15Gen{rng}
	ncase, lmin, lmax, mmin, mmax, nq, nix, gor, rounds := 4, 100, 180, 20, 30, 8, 6, 8, 3
	if tier == "thorough" {
		ncase, lmin, lmax, mmin, mmax, nq, nix, gor, rounds = 3, 150, 260, 28, 40, 10, 8, 16, 4
	}
	for c := 0; c < ncase; c++ {
		base := g.word(lmin+rng.Intn(lmax-lmin+1), "acgt")
		m := mmin + rng.Intn(mmax-mmin+1)
		refs := make([][]byte, m)
		for i := range refs {
			src := base
			if i > 0 && rng.Intn(4) == 0 {
				src = refs[rng.Intn(i)]
			}
			switch rng.Intn(10) {
			case 0:
				refs[i] = append([]byte{}, src...) // duplicates: ties at every distance
			case 1, 2, 3:
				refs[i] = g.spreadSubs(src, rng.Intn(7))
			case 4, 5, 6:
				refs[i] = g.randEdits(src, rng.Intn(9))
			case 7:
				refs[i] = g.endIns(g.spreadSubs(src, rng.Intn(3)), rng.Intn(6))
			case 8:
				refs[i] = g.endDel(g.randEdits(src, rng.Intn(3)), rng.Intn(6))
			default:
				refs[i] = g.randEdits(src, 10+rng.Intn(30)) // far
			}
		}
		queries := make([][]byte, nq)
		for i := range queries {
			switch rng.Intn(6) {
			case 0:
				queries[i] = append([]byte{}, refs[rng.Intn(m)]...)
			case 1, 2:
				queries[i] = g.randEdits(refs[rng.Intn(m)], 1+rng.Intn(3))
			case 3:
				queries[i] = g.spreadSubs(base, 1+rng.Intn(4))
			default:
				queries[i] = g.randEdits(base, rng.Intn(6))
			}
		}
		// a family tied at distance 1 of one query
		if m >= 8 {
			pos := rng.Perm(m)
			for k, f := range g.tiedFamily(queries[0]) {
				refs[pos[k]] = f
			}
		}
		t := g.taxo(6 + rng.Intn(7))
		tx := g.taxids(t, m)
		ixs := make([]int, nix)
		for i := range ixs {
			ixs[i] = rng.Intn(m)
		}
		emit(fmt.Sprintf("conc %d %d %s %s %s %s %s", gor, rounds, c15List(refs), c15Ints(tx), c15Taxo(t), c15List(queries), c15Ints(ixs)))
		stat("gen:conc")
	}
	if tier == "thorough" && c15FirstSeed() {
		// one case once more, under the Go race detector
		base := g.word(200, "acgt")
		refs := make([][]byte, 30)
		for i := range refs {
			refs[i] = g.randEdits(base, rng.Intn(8))
		}
		queries := make([][]byte, 8)
		for i := range queries {
			queries[i] = g.randEdits(refs[rng.Intn(len(refs))], rng.Intn(4))
		}
		t := g.taxo(8)
		emit(fmt.Sprintf("race conc 8 2 %s %s %s %s %s", c15List(refs), c15Ints(g.taxids(t, len(refs))), c15Taxo(t), c15List(queries), c15Ints([]int{0, 7, 13, 29})))
	}
}

// ---- replay under the race detector (as harness/c03_r3.go does)

func c15FirstSeed() bool {
	for i, a := range os.Args {
		if (a == "-seed" || a == "--seed") && i+1 < len(os.Args) {
			s, err := strconv.Atoi(os.Args[i+1])
			return err == nil && s%1000 == 0
		}
	}
	return false
}

var (
	c15RaceBin  string
	c15RaceOnce sync.Once
)

// c15RaceBuild: built once; Gen starts it in the background at the beginning of a thorough run of the first seed, so that
// the build overlaps the other cases
func c15RaceBuild() string {
	c15RaceOnce.Do(func() { c15RaceBin = c15RaceBuild1() })
	return c15RaceBin
}

func c15RaceBuild1() string {
	root := os.Getenv("VERIF_ROOT")
	if root == "" {
		root = "/verif"
	}
	repo := os.Getenv("VERIF_REPO")
	if repo == "" {
		repo = "/repo"
	}
	bin := filepath.Join(binDir(), "harness_C15_race")
	args := []string{"build", "-race", "-tags", "verif,c15", "-o", bin}
	if repo != "/repo" {
		// a scratch tree is under check: the driver wrote go.alt.mod (module replaced by that tree)
		alt := filepath.Join(root, "harness", "go.alt.mod")
		if b, err := os.ReadFile(alt); err == nil && strings.Contains(string(b), "=> "+repo) {
			args = append(args, "-modfile", alt)
		} else {
			stat("race-build:no-alt-mod")
			return ""
		}
	}
	build := exec.Command("go", append(args, ".")...)
	build.Dir = filepath.Join(root, "harness")
	build.Env = append(os.Environ(), "GOWORK=off", "GOFLAGS=-mod=mod", "GOPROXY=off", "GOSUMDB=off", "GOTOOLCHAIN=local", "CGO_CFLAGS=-w -O2 -g")
	if _, err := build.CombinedOutput(); err != nil {
		stat("race-build:failed")
		return ""
	}
	stat("race-build:ok")
	return bin
}

// the packages the property is anchored in
var c15RacePkgs = []string{"/pkg/obitools/obitag/", "/pkg/obitools/obitag2/", "/pkg/obitools/obirefidx/", "/pkg/obikmer/", "/pkg/obialign/", "/pkg/obitax/"}

func c15Race(inner string) (string, []Fail) {
	if os.Getenv("VERIF_C15_RACE") != "" { // we ARE the race-built binary
		return c15ExecConc(inner)
	}
	bin := c15RaceBuild()
	if bin == "" {
		stat("race:unavailable")
		r, f := c15ExecConc(inner)
		if caseOverride != "" {
			caseOverride = "race " + caseOverride
		}
		return r, f
	}
	cmd := exec.Command(bin, "C15", "exec")
	cmd.Stdin = strings.NewReader(inner + "\n")
	cmd.Env = append(os.Environ(), "VERIF_C15_RACE=1", "GORACE=halt_on_error=0")
	var stdout, stderr bytes.Buffer
	cmd.Stderr = &stderr
	cmd.Stdout = &stdout
	_ = cmd.Run()
	res := "race-replay-failed"
	var fails []Fail
	for _, l := range strings.Split(stdout.String(), "\n") {
		f := strings.Split(l, "\t")
		if f[0] == "C" && len(f) >= 3 {
			res = f[2]
			caseOverride = "race " + f[1]
		}
		if f[0] == "F" && len(f) >= 4 {
			fails = append(fails, Fail{f[1], f[3]})
		}
	}
	stat("race-replay:done")
	ours, other := 0, 0
	var where []string
	for _, block := range strings.Split(stderr.String(), "==================") {
		if !strings.Contains(block, "WARNING: DATA RACE") {
			continue
		}
		// a report concerns this property when the stack of one of the two racing ACCESSES passes through the anchored
		// packages (the workers call nothing else here; the racing statement itself may lie in obiseq / obiutils / runtime)
		inAccess, mine := false, false
		for _, l := range strings.Split(block, "\n") {
			t := strings.TrimSpace(l)
			switch {
			case strings.HasPrefix(t, "Read at"), strings.HasPrefix(t, "Write at"), strings.HasPrefix(t, "Previous read at"),
				strings.HasPrefix(t, "Previous write at"), strings.HasPrefix(t, "Atomic"), strings.HasPrefix(t, "Previous atomic"):
				inAccess = true
			case strings.HasPrefix(t, "Goroutine "):
				inAccess = false
			case inAccess && strings.Contains(t, ".go:") && !strings.Contains(t, "verif_hooks"):
				for _, p := range c15RacePkgs {
					if strings.Contains(t, p) {
						loc := t[strings.LastIndex(t, "/pkg/")+1:]
						if k := strings.IndexByte(loc, ' '); k > 0 {
							loc = loc[:k]
						}
						dup := false
						for _, w := range where {
							dup = dup || w == loc
						}
						if !dup && !mine && len(where) < 4 {
							where = append(where, loc)
						}
						mine = true
					}
				}
			}
		}
		if mine {
			ours++
		} else {
			other++
		}
	}
	if other > 0 {
		stat("race-replay:race-elsewhere")
	}
	if ours > 0 {
		fails = append(fails, Fail{"conc.race", fmt.Sprintf("the Go race detector reports %d data race(s) with an access in the anchored packages (at %s)", ours, strings.Join(where, ", "))})
		stat("race-replay:DATA-RACE")
	}
	return res, fails
}
